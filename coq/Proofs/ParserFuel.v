(** * The default fuel [fuel_for] is enough for every printed recipe (C06). *)
From Coq Require Import List ZArith NArith Bool Lia Arith String.
From RG Require Import Base.Str Base.Dec Base.Num Gen.GenUnits Model.Recipe Model.Compiler Model.Parser Model.Printer
  Proofs.DecLemmas Proofs.ParserLex Proofs.ParserName Proofs.ParserAmount Proofs.ParserExpr Proofs.ParserTree
  Proofs.ParserStmt.
Import ListNotations.
Open Scope list_scope.
Open Scope nat_scope.

Local Notation L := (@List.length N).

Lemma acts_cost_len acts : acts_ok acts = true -> acts_cost acts <= L (print_acts acts).
Proof.
  induction acts as [|[[w1 w2] nm] acts IH]; intro Hok; [reflexivity|]. rewrite print_acts_cons.
  cbn [acts_ok forallb fst snd] in Hok. apply andb_true_iff in Hok as [Hn Hok]. apply andb_true_iff in Hn as [_ Hn].
  unfold acts_cost in *. cbn [fold_right snd]. rewrite app_length. cbn [List.length]. rewrite !app_length.
  pose proof (name_cost_len nm Hn). specialize (IH Hok). generalize dependent (name_cost nm). intros; lia.
Qed.

Lemma amt_cost_len am : amt_cost am <= L (print_amt am).
Proof.
  destruct am as [rw p | t | t sp n v p | t w0 pw | t w0 p | t w0 | t w0 u w1 p]; cbn [amt_cost]; try lia.
  unfold print_amt. cbn [amt_lead amt_tail seg_cost]. pose proof (ntext_len t) as Hn.
  unfold explicit_bparts. rewrite app_length. cbn [List.length].
  assert (E : L (w0 ++ ntext_str t ++ unit_text u ++ w1 ++ [125%N]) = L w0 + L (ntext_str t) + L (unit_text u ++ w1) + 1).
  { repeat rewrite app_length. cbn [List.length]. lia. }
  rewrite E. clear E. rewrite fold_right_app. cbn [fold_right].
  assert (E2 : fold_right (fun (b : bpart) (n : nat) => match b with BStr x _ => L x | BNum _ => 1 end + n) 0
                 (match unit_text u ++ w1 with [] => [] | n :: l => [BStr (n :: l) []] end) = L (unit_text u ++ w1)).
  { destruct (unit_text u ++ w1); cbn [fold_right List.length]; lia. }
  rewrite E2. clear E2.
  destruct w0 as [|h w0']; cbn [fold_right List.length]; lia.
Qed.

Lemma expr_ok_name e nm : (exists a, e = XRef a nm) \/ (exists w s0 f m tr s1, e = XStep nm w s0 f m tr s1) ->
  expr_ok e = true -> name_ok nm = true.
Proof.
  intros [[a ->] | [w [s0 [f [m [tr [s1 ->]]]]]]]; cbn [expr_ok]; intro H.
  - destruct a as [[am w]|].
    + apply andb_true_iff in H as [H _]. apply andb_true_iff in H as [_ H]. exact H.
    + apply andb_true_iff in H as [H _]. exact H.
  - do 6 (apply andb_true_iff in H as [H _]). exact H.
Qed.

Lemma cost_len : forall h e, height e <= h -> expr_ok e = true -> cost e <= 2 * L (print_expr e) + 2.
Proof.
  induction h as [|h IH]; intros e Hh Hok.
  - destruct e; cbn [height] in Hh; lia.
  - destruct e as [a nm | nm w s0 first more trail s1 | s0 e acts s1].
    + pose proof (expr_ok_name _ nm (or_introl (ex_intro _ a eq_refl)) Hok) as Hn.
      cbn [cost print_expr]. rewrite app_length. pose proof (name_cost_len nm Hn).
      assert (2 <= name_cost nm) by (unfold name_cost; lia).
      assert (Ha : ref_amt_cost a <= L (match a with Some (am, w) => print_amt am ++ w | None => [] end)).
      { destruct a as [[am w]|]; cbn [ref_amt_cost]; [rewrite app_length; pose proof (amt_cost_len am); lia | lia]. }
      generalize dependent (name_cost nm). generalize dependent (ref_amt_cost a). intros; lia.
    + pose proof (expr_ok_name _ nm (or_intror (ex_intro _ w (ex_intro _ s0 (ex_intro _ first (ex_intro _ more (ex_intro _ trail (ex_intro _ s1 eq_refl))))))) Hok) as Hn.
      cbn [expr_ok] in Hok. apply andb_true_iff in Hok as [Hok _]. apply andb_true_iff in Hok as [Hok _].
      apply andb_true_iff in Hok as [Hok Hmore]. apply andb_true_iff in Hok as [_ Hfirst].
      cbn [height] in Hh. rewrite print_expr_step. cbn [cost]. fold (args_cost more).
      repeat (rewrite app_length; cbn [List.length]).
      pose proof (name_cost_len nm Hn). pose proof (IH first ltac:(pose proof (height_first more first); lia) Hfirst).
      assert (Hm : args_cost more <= 2 * L (print_args more) + 0).
      { assert (G : forall p, In p more -> cost (snd p) <= 2 * L (print_expr (snd p)) + 2).
        { intros p Hp. rewrite forallb_forall in Hmore. specialize (Hmore p Hp). apply andb_true_iff in Hmore as [_ He].
          apply IH; [pose proof (height_in more first p Hp); lia | exact He]. }
        clear - G. induction more as [|[[sa sb] e] more IHm]; [reflexivity|].
        unfold args_cost, print_args in *. cbn [fold_right flat_map fst snd].
        repeat (rewrite app_length; cbn [List.length]).
        pose proof (G (sa, sb, e) (or_introl eq_refl)) as G1. cbn [snd] in G1.
        specialize (IHm (fun p Hp => G p (or_intror Hp))). clear G.
        generalize dependent (cost e). intros.
        set (A := fold_right (fun (p : str * str * pexpr) (n : nat) => cost (snd p) + n) 0 more) in *.
        set (B := L (flat_map (fun p : list N * list N * pexpr => fst (fst p) ++ 44%N :: snd (fst p) ++ print_expr (snd p)) more)) in *.
        clearbody A B. lia. }
      assert (Ht : 1 <= L (print_tail trail s1)).
      { unfold print_tail. repeat (rewrite app_length; cbn [List.length]). lia. }
      clear Hh. generalize dependent (name_cost nm). generalize dependent (cost first).
      generalize dependent (args_cost more). intros; lia.
    + cbn [expr_ok] in Hok. apply andb_true_iff in Hok as [Hok _]. apply andb_true_iff in Hok as [Hok Hacts].
      apply andb_true_iff in Hok as [_ He].
      cbn [height] in Hh. cbn [cost print_expr List.length]. repeat (rewrite app_length; cbn [List.length]).
      pose proof (IH e ltac:(lia) He). pose proof (acts_cost_len acts Hacts). lia.
Qed.

Lemma stmt_cost_len st : stmt_ok st = true -> stmt_cost st <= 2 * L (print_stmt st) + 4.
Proof.
  intro Hok. unfold stmt_ok in Hok. apply andb_true_iff in Hok as [Hok _].
  apply andb_true_iff in Hok as [Hok Ha]. apply andb_true_iff in Hok as [Ht He].
  unfold stmt_cost, print_stmt. repeat rewrite app_length.
  pose proof (cost_len (height (ps_expr st)) (ps_expr st) (le_n _) He). pose proof (acts_cost_len (ps_acts st) Ha).
  destruct (ps_first_out st) as [[[[[n0 more] w1] named] w2]|]; cbn [print_target List.length].
  - apply andb_true_iff in Ht as [Ht _]. apply andb_true_iff in Ht as [Ht _]. apply andb_true_iff in Ht as [Hn0 Hmore].
    repeat rewrite app_length. pose proof (name_cost_len n0 Hn0). pose proof (acts_cost_len more Hmore). generalize dependent (name_cost n0). intros; lia.
  - lia.
Qed.

Lemma print_stmt_len st : stmt_ok st = true -> 1 <= L (print_stmt st).
Proof.
  intro H. unfold stmt_ok in H. apply andb_true_iff in H as [H _]. apply andb_true_iff in H as [H _].
  apply andb_true_iff in H as [_ He]. destruct (print_expr_head (ps_expr st) He) as [c [r [E _]]].
  rewrite print_stmt_split. unfold print_body. rewrite E. rewrite app_length. cbn [app List.length]. lia.
Qed.

Lemma stmts_len l : stmts_ok l = true -> List.length l <= L (print_stmts l).
Proof.
  induction l as [|st l IH]; [reflexivity|]. intro H. unfold print_stmts. cbn [flat_map List.length].
  fold (print_stmts l). rewrite app_length.
  assert (Hs : stmt_ok st = true /\ stmts_ok l = true).
  { cbn [stmts_ok] in H. destruct l; [split; [exact H | reflexivity]|].
    apply andb_true_iff in H as [H Hl]. apply andb_true_iff in H as [H _]. split; assumption. }
  destruct Hs as [Hs Hl]. pose proof (print_stmt_len st Hs). specialize (IH Hl). lia.
Qed.

Lemma stmts_ok_split st l : stmts_ok (st :: l) = true -> stmt_ok st = true /\ stmts_ok l = true.
Proof.
  intro H. cbn [stmts_ok] in H. destruct l; [split; [exact H | reflexivity]|].
  apply andb_true_iff in H as [H Hl]. apply andb_true_iff in H as [H _]. split; assumption.
Qed.

Lemma stmts_cost_len l : stmts_ok l = true -> stmts_cost l <= 2 * L (print_stmts l) + 4.
Proof.
  induction l as [|st l IH]; intro Hok; unfold stmts_cost, print_stmts in *; cbn [fold_right flat_map]; [cbn [List.length]; lia|].
  destruct (stmts_ok_split st l Hok) as [Hs Hl]. specialize (IH Hl).
  rewrite app_length. pose proof (stmt_cost_len st Hs).
  generalize dependent (stmt_cost st). intros. lia.
Qed.

(** With the default fuel. *)
Theorem recipe_roundtrip r : recipe_ok r = true -> parse (print_recipe r) = POk (value_recipe r).
Proof.
  intro Hok. unfold parse. apply recipe_roundtrip_fuel; [exact Hok | |];
    unfold recipe_ok in Hok; apply andb_true_iff in Hok as [_ Hs];
    unfold fuel_for, print_recipe; rewrite app_length.
  - pose proof (stmts_len (pr_stmts r) Hs). lia.
  - pose proof (stmts_cost_len (pr_stmts r) Hs). lia.
Qed.
