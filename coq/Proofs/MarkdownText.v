(** * String-level facts about renderer/html.py [t] used by the C13 proofs.

    [t(tag, prefix + X, ...)] for a "solid" [X] (no line-break character, last character not
    white space: a placeholder, or the rendered scaled value that replaces it) is
    [opening ++ X ++ closing] with [opening], [closing] independent of [X]
    ([t_tag_app_solid]) - also when the prefix contains line feeds and [t] re-indents the
    body with [textwrap.indent] and strips the end. *)
From Coq Require Import List ZArith NArith Bool Arith Lia.
From Coq Require String.
Import String.StringSyntax.
From RG Require Import Base.Str Base.Dec Base.Num Model.Recipe Model.NumFmt Model.NumParse
  Model.LineCol Model.Brace Model.Markdown.
From RG Require Import Proofs.DecLemmas.
Import ListNotations.
Open Scope N_scope.

Definition nobreak (x : str) : bool := forallb (fun c => negb (is_break c)) x.

(** [X] can stand at the end of a line of a body without being touched by indent / rstrip. *)
Definition solid (x : str) : Prop :=
  nobreak x = true /\ exists y c, x = y ++ [c] /\ py_isspace c = false.

Lemma has_chr_app c a b : has_chr c (a ++ b) = has_chr c a || has_chr c b.
Proof. unfold has_chr. apply existsb_app. Qed.

Lemma nobreak_app a b : nobreak (a ++ b) = nobreak a && nobreak b.
Proof. unfold nobreak. apply forallb_app. Qed.

Lemma nobreak_no_nl x : nobreak x = true -> has_chr 10 x = false.
Proof.
  induction x as [|c x IH]; simpl; [reflexivity|].
  intros H. apply andb_true_iff in H as [H1 H2]. rewrite (IH H2), orb_false_r.
  destruct (c =? 10) eqn:E; [|reflexivity].
  apply N.eqb_eq in E. subst c. discriminate.
Qed.

Lemma solid_nonempty x : solid x -> x <> [].
Proof. intros (_ & y & c & -> & _). destruct y; discriminate. Qed.

Lemma solid_not_blank x : solid x -> blank_line x = false.
Proof.
  intros (_ & y & c & -> & Hc). unfold blank_line. rewrite forallb_app. simpl.
  rewrite Hc. simpl. apply andb_false_r.
Qed.

(** ** [splitlines(True)] of [prefix ++ X] *)

Lemma splitlines_keepends_nobreak x : nobreak x = true -> x <> [] -> splitlines_keepends x = [x].
Proof.
  induction x as [|c x IH]; [congruence|]. intros H _.
  simpl in H. apply andb_true_iff in H as [Hc Hx].
  assert (E13 : (c =? 13) = false).
  { destruct (c =? 13) eqn:E; [|reflexivity]. apply N.eqb_eq in E; subst c. discriminate. }
  simpl. rewrite E13. apply negb_true_iff in Hc. rewrite Hc.
  destruct x as [|d x]; [reflexivity|]. rewrite IH by (assumption || discriminate). reflexivity.
Qed.

(** Complete lines of a text and its unterminated last line. *)
Fixpoint sk_split (x : str) : list str * str :=
  match x with
  | [] => ([], [])
  | c :: x' =>
      if c =? 13 then
        match x' with
        | d :: x'' =>
            if d =? 10 then let (ls, p) := sk_split x'' in ([13; 10] :: ls, p)
            else let (ls, p) := sk_split x' in ([13] :: ls, p)
        | [] => ([[13]], [])
        end
      else if is_break c then let (ls, p) := sk_split x' in ([c] :: ls, p)
      else
        match sk_split x' with
        | ([], p) => ([], c :: p)
        | (l :: ls, p) => ((c :: l) :: ls, p)
        end
  end.

Lemma sk_cons_13_10 x :
  splitlines_keepends (13 :: 10 :: x) = [13; 10] :: splitlines_keepends x.
Proof. reflexivity. Qed.

Lemma sk_cons_13_other d x : (d =? 10) = false ->
  splitlines_keepends (13 :: d :: x) = [13] :: splitlines_keepends (d :: x).
Proof. intros H. simpl. rewrite H. reflexivity. Qed.

Lemma sk_cons_break c x : (c =? 13) = false -> is_break c = true ->
  splitlines_keepends (c :: x) = [c] :: splitlines_keepends x.
Proof. intros H1 H2. simpl. rewrite H1, H2. reflexivity. Qed.

Lemma sk_cons_plain c x : (c =? 13) = false -> is_break c = false ->
  splitlines_keepends (c :: x) =
  match splitlines_keepends x with [] => [[c]] | l :: ls => (c :: l) :: ls end.
Proof. intros H1 H2. simpl. rewrite H1, H2. reflexivity. Qed.

Lemma sk_split_app_aux n : forall pr X, (length pr <= n)%nat ->
  nobreak X = true -> X <> [] ->
  splitlines_keepends (pr ++ X) = fst (sk_split pr) ++ [snd (sk_split pr) ++ X].
Proof.
  induction n as [|n IH]; intros pr X Hlen HX HXne.
  - destruct pr; [|simpl in Hlen; lia]. simpl. apply splitlines_keepends_nobreak; assumption.
  - destruct pr as [|c pr]; [simpl; apply splitlines_keepends_nobreak; assumption|].
    simpl in Hlen.
    change ((c :: pr) ++ X) with (c :: (pr ++ X)).
    destruct (c =? 13) eqn:E13.
    + apply N.eqb_eq in E13. subst c.
      destruct pr as [|d pr].
      * destruct X as [|d X']; [congruence|].
        assert (Hd : (d =? 10) = false).
        { simpl in HX. apply andb_true_iff in HX as [Hd _].
          destruct (d =? 10) eqn:E; [|reflexivity]. apply N.eqb_eq in E; subst d. discriminate. }
        simpl app. rewrite (sk_cons_13_other d X' Hd).
        rewrite (splitlines_keepends_nobreak (d :: X') HX HXne). reflexivity.
      * change ((d :: pr) ++ X) with (d :: (pr ++ X)).
        destruct (d =? 10) eqn:E10.
        -- apply N.eqb_eq in E10. subst d. rewrite sk_cons_13_10.
           rewrite (IH pr X) by (simpl in Hlen; lia || assumption).
           simpl sk_split. destruct (sk_split pr) as [ls p]. reflexivity.
        -- rewrite (sk_cons_13_other d (pr ++ X) E10).
           change (d :: pr ++ X) with ((d :: pr) ++ X).
           rewrite (IH (d :: pr) X) by (simpl in *; lia || assumption).
           change (sk_split (13 :: d :: pr)) with
             (if d =? 10 then let (ls, p) := sk_split pr in ([13; 10] :: ls, p)
              else let (ls, p) := sk_split (d :: pr) in ([13] :: ls, p)).
           rewrite E10. destruct (sk_split (d :: pr)) as [ls p]. reflexivity.
    + destruct (is_break c) eqn:Eb.
      * rewrite (sk_cons_break c _ E13 Eb).
        rewrite (IH pr X) by (lia || assumption).
        simpl sk_split. rewrite E13, Eb. destruct (sk_split pr) as [ls p]. reflexivity.
      * rewrite (sk_cons_plain c _ E13 Eb).
        rewrite (IH pr X) by (lia || assumption).
        simpl sk_split. rewrite E13, Eb. destruct (sk_split pr) as [[|l ls] p]; reflexivity.
Qed.

Lemma sk_split_app pr X : nobreak X = true -> X <> [] ->
  splitlines_keepends (pr ++ X) = fst (sk_split pr) ++ [snd (sk_split pr) ++ X].
Proof. apply (sk_split_app_aux (length pr)). lia. Qed.

Definition indent_line (l : str) : str := if blank_line l then l else 32 :: 32 :: l.
Definition indent_open (pr : str) : str :=
  concat (map indent_line (fst (sk_split pr))) ++ 32 :: 32 :: snd (sk_split pr).

Lemma indent2_app_solid pr X : solid X -> indent2 (pr ++ X) = indent_open pr ++ X.
Proof.
  intros HX. pose proof (solid_not_blank X HX) as Hb. pose proof (solid_nonempty X HX) as Hne.
  destruct HX as (Hnb & _).
  unfold indent2, indent_open. fold indent_line.
  rewrite (sk_split_app pr X Hnb Hne). rewrite map_app, concat_app. simpl.
  rewrite app_nil_r. unfold indent_line at 2.
  assert (E : blank_line (snd (sk_split pr) ++ X) = false).
  { unfold blank_line in *. rewrite forallb_app. apply andb_false_iff. right. exact Hb. }
  rewrite E. rewrite <- app_assoc. reflexivity.
Qed.

(** ** [rstrip] *)

Lemma str_rstrip_nonspace_end y c : py_isspace c = false -> str_rstrip (y ++ [c]) = y ++ [c].
Proof.
  intros Hc. induction y as [|d y IH]; simpl.
  - rewrite Hc. reflexivity.
  - rewrite IH. destruct (y ++ [c]) eqn:E; [destruct y; discriminate|]. reflexivity.
Qed.

(** ** [t] *)

Definition body_open (pr : str) : str := if has_chr 10 pr then [10] ++ indent_open pr else pr.
Definition body_close (pr : str) : str := if has_chr 10 pr then [10] else [].

Lemma t_body_app_solid pr X : solid X -> t_body (pr ++ X) = body_open pr ++ X ++ body_close pr.
Proof.
  intros HX. unfold t_body, body_open, body_close.
  rewrite has_chr_app. destruct HX as (Hnb & y & c & -> & Hc).
  rewrite (nobreak_no_nl _ Hnb), orb_false_r.
  destruct (has_chr 10 pr).
  - rewrite indent2_app_solid by (split; [assumption | exists y, c; auto]).
    rewrite (app_assoc (indent_open pr) y [c]). rewrite str_rstrip_nonspace_end by assumption.
    rewrite <- !app_assoc. reflexivity.
  - rewrite app_nil_r. reflexivity.
Qed.

Definition tag_open (tag : str) (cls : option str) (pr : str) : str :=
  s "<" ++ tag ++ match cls with Some v => s " class=""" ++ v ++ s """" | None => [] end ++ s ">" ++ body_open pr.
Definition tag_close (tag : str) (pr : str) : str := body_close pr ++ s "</" ++ tag ++ s ">".

Lemma t_tag_app_solid tag cls pr X : solid X ->
  t_tag tag cls (pr ++ X) = tag_open tag cls pr ++ X ++ tag_close tag pr.
Proof.
  intros HX. unfold t_tag, tag_open, tag_close. rewrite (t_body_app_solid pr X HX).
  rewrite <- !app_assoc. reflexivity.
Qed.

Lemma t_tag_nobreak tag cls body : nobreak body = true ->
  t_tag tag cls body = tag_open tag cls [] ++ body ++ tag_close tag [].
Proof.
  intros H. unfold t_tag, tag_open, tag_close, t_body, body_open, body_close.
  rewrite (nobreak_no_nl _ H). simpl has_chr. cbn iota. rewrite <- !app_assoc. reflexivity.
Qed.

(** ** Placeholders are solid *)

Definition slug_ok (g : str) : bool := forallb is_upper g.

Lemma is_upper_not_break c : is_upper c = true -> is_break c = false.
Proof.
  unfold is_upper, is_break. intros H. apply andb_true_iff in H as [H1 H2].
  apply N.leb_le in H1, H2.
  repeat match goal with |- (_ || _) = false => apply orb_false_iff; split end;
    apply N.eqb_neq; lia.
Qed.

Lemma placeholder_solid g : slug_ok g = true -> solid (mk_placeholder g).
Proof.
  intros H. split.
  - unfold mk_placeholder. change (c_percent :: g ++ [c_percent]) with ([c_percent] ++ g ++ [c_percent]).
    rewrite !nobreak_app. simpl. rewrite andb_true_r.
    unfold nobreak. unfold slug_ok in H. rewrite forallb_forall in *. intros c Hc.
    rewrite (is_upper_not_break c (H c Hc)). reflexivity.
  - exists (c_percent :: g), c_percent. split; reflexivity.
Qed.

Lemma placeholder_nonempty g : mk_placeholder g <> [].
Proof. discriminate. Qed.

Lemma placeholder_has_percent g : has_chr c_percent (mk_placeholder g) = true.
Proof. reflexivity. Qed.

Lemma mk_placeholder_inj a b : mk_placeholder a = mk_placeholder b -> a = b.
Proof.
  unfold mk_placeholder. intros H. inversion H as [H1]. apply app_inj_tail in H1. tauto.
Qed.

(** ** Rendered numbers are solid *)

Definition fmt_char (c : char) : bool := is_digit c || (c =? 46) || (c =? 32) || (c =? 47).

Lemma fmt_char_not_break c : fmt_char c = true -> is_break c = false.
Proof.
  unfold fmt_char, is_digit, is_break. intros H.
  repeat match goal with |- (_ || _) = false => apply orb_false_iff; split end;
    apply N.eqb_neq; intros ->; discriminate.
Qed.

Lemma fmt_chars_nobreak x : forallb fmt_char x = true -> nobreak x = true.
Proof.
  unfold nobreak. rewrite !forallb_forall. intros H c Hc.
  rewrite (fmt_char_not_break c (H c Hc)). reflexivity.
Qed.

Lemma digits_fmt x : all_digits x = true -> forallb fmt_char x = true.
Proof.
  unfold all_digits. rewrite !forallb_forall. intros H c Hc. unfold fmt_char. rewrite (H c Hc). reflexivity.
Qed.

Lemma digits_nobreak x : all_digits x = true -> nobreak x = true.
Proof. intros H. apply fmt_chars_nobreak, digits_fmt, H. Qed.

Lemma format_float_sf_chars sf n d : forallb fmt_char (format_float_sf sf n d) = true.
Proof.
  unfold format_float_sf.
  match goal with |- context [rstrip0 ?x] => set (f := rstrip0 x); assert (Hf : all_digits f = true) end.
  { apply rstrip0_all_digits, all_digits_digits_fixed. }
  destruct f as [|c f].
  - apply digits_fmt, all_digits_dec_N.
  - rewrite !forallb_app. rewrite (digits_fmt _ (all_digits_dec_N _)). rewrite (digits_fmt _ Hf). reflexivity.
Qed.

Lemma digit_fmt_in x c : all_digits x = true -> In c x -> fmt_char c = true.
Proof.
  intros H Hc. unfold all_digits in H. rewrite forallb_forall in H. unfold fmt_char. rewrite (H c Hc). reflexivity.
Qed.

Lemma fmt_mixed a b c : all_digits a = true -> all_digits b = true -> all_digits c = true ->
  forallb fmt_char (a ++ c_space :: b ++ c_slash :: c) = true.
Proof.
  intros Ha Hb Hc. apply forallb_forall. intros x Hx.
  apply in_app_or in Hx. destruct Hx as [Hx|Hx]; [exact (digit_fmt_in a x Ha Hx)|].
  destruct Hx as [Hx|Hx]; [subst x; reflexivity|].
  apply in_app_or in Hx. destruct Hx as [Hx|Hx]; [exact (digit_fmt_in b x Hb Hx)|].
  destruct Hx as [Hx|Hx]; [subst x; reflexivity|].
  exact (digit_fmt_in c x Hc Hx).
Qed.

Lemma fmt_proper b c : all_digits b = true -> all_digits c = true ->
  forallb fmt_char (b ++ c_slash :: c) = true.
Proof.
  intros Hb Hc. apply forallb_forall. intros x Hx.
  apply in_app_or in Hx. destruct Hx as [Hx|Hx]; [exact (digit_fmt_in b x Hb Hx)|].
  destruct Hx as [Hx|Hx]; [subst x; reflexivity|].
  exact (digit_fmt_in c x Hc Hx).
Qed.

Lemma format_number_chars v x : format_number v = Some x -> forallb fmt_char x = true.
Proof.
  unfold format_number, format_fraction, format_float_q. intros H.
  destruct v as [z|n d|m e].
  - destruct (z <? 0)%Z; [discriminate|]. inversion H; subst. apply digits_fmt, all_digits_dec_N.
  - destruct (n <? 0)%Z; [discriminate|].
    destruct (d =? 1)%positive.
    { inversion H; subst. apply digits_fmt, all_digits_dec_N. }
    destruct (negb (pos_in d Gen.GenConsts.allowed_denominators)).
    { destruct (b64 n d) as [f|]; [|discriminate]. destruct (to_frac f) as [fn fd].
      inversion H; subst. apply format_float_sf_chars. }
    destruct (Z.pos d <? n)%Z; injection H as <-;
      [apply fmt_mixed | apply fmt_proper]; apply all_digits_dec_N.
  - destruct (m <? 0)%Z; [discriminate|]. destruct (to_frac (NFloat m e)) as [fn fd].
    inversion H; subst. apply format_float_sf_chars.
Qed.

Lemma span_digits_digits : forall x a r, span_digits x = (a, r) -> all_digits a = true.
Proof.
  induction x as [|c x IH]; intros a r H; simpl in H.
  - inversion H; reflexivity.
  - destruct (is_digit c) eqn:E.
    + destruct (span_digits x) as [a' r'] eqn:E'. inversion H; subst.
      simpl. rewrite E. simpl. eapply IH. reflexivity.
    + inversion H; reflexivity.
Qed.

Lemma fraction_shape_digits x i n d : fraction_shape x = Some (i, n, d) ->
  nobreak i = true /\ all_digits n = true /\ all_digits d = true.
Proof.
  unfold fraction_shape. destruct (span_digits x) as [a r] eqn:Ea.
  pose proof (span_digits_digits _ _ _ Ea) as Ha.
  destruct (is_nil a); [discriminate|].
  destruct r as [|c r1]; [discriminate|].
  destruct (c =? c_slash).
  - destruct (span_digits r1) as [d' r4] eqn:Ed. pose proof (span_digits_digits _ _ _ Ed) as Hd.
    destruct (negb (is_nil d') && is_nil r4); [|discriminate].
    intros H; inversion H; subst. auto.
  - destruct (c =? c_space); [|discriminate].
    destruct (span_digits r1) as [n' r2] eqn:En. pose proof (span_digits_digits _ _ _ En) as Hn.
    destruct (is_nil n'); [discriminate|].
    destruct r2 as [|c2 r3]; [discriminate|].
    destruct (c2 =? c_slash); [|discriminate].
    destruct (span_digits r3) as [d' r4] eqn:Ed. pose proof (span_digits_digits _ _ _ Ed) as Hd.
    destruct (negb (is_nil d') && is_nil r4); [|discriminate].
    intros H; inversion H; subst. repeat split; auto.
    rewrite nobreak_app, (digits_nobreak _ Ha). reflexivity.
Qed.

Lemma render_number_nobreak v a : render_number v = Some a -> nobreak a = true.
Proof.
  unfold render_number. destruct (format_number v) as [x|] eqn:Ef; [|discriminate].
  pose proof (format_number_chars _ _ Ef) as Hx.
  destruct (fraction_shape x) as [[[i n] d]|] eqn:Es.
  - destruct (fraction_shape_digits _ _ _ _ Es) as (Hi & Hn & Hd).
    intros H.
    assert (E : a = i ++ t_tag (s "sup") None n ++ s "&frasl;" ++ t_tag (s "sub") None d) by congruence.
    rewrite E.
    rewrite (t_tag_nobreak _ _ n (digits_nobreak _ Hn)), (t_tag_nobreak _ _ d (digits_nobreak _ Hd)).
    rewrite !nobreak_app. rewrite Hi, (digits_nobreak _ Hn), (digits_nobreak _ Hd). reflexivity.
  - intros H; inversion H; subst. apply fmt_chars_nobreak, Hx.
Qed.

(** The text that replaces the serving count placeholder. *)
Lemma render_svs_num_solid v x : render_svs [PNum v] = Some x -> solid x.
Proof.
  intros H. cbn [render_svs] in H. destruct (render_number v) as [a|] eqn:Ea; [|discriminate].
  assert (E : x = t_tag (s "span") (Some cls_scaled_value) a ++ []) by congruence.
  rewrite E. rewrite app_nil_r.
  pose proof (render_number_nobreak _ _ Ea) as Ha.
  rewrite (t_tag_nobreak _ _ a Ha). split.
  - rewrite !nobreak_app, Ha. reflexivity.
  - exists (tag_open (s "span") (Some cls_scaled_value) [] ++ a ++ s "</span"), 62.
    split; [|reflexivity]. unfold tag_close, body_close. simpl has_chr. cbn iota.
    rewrite <- !app_assoc. reflexivity.
Qed.
