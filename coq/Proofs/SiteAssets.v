(** * Every file the generator copies lies physically below the resolved source root and is
      copied byte for byte (C16, site level). *)
From Coq Require Import List NArith Bool Arith Lia String.
From RG Require Import Base.Str Base.Dec Model.Url Model.Href Model.Fs Model.Site Proofs.SiteLinks.
Import ListNotations.
Open Scope list_scope.
Open Scope N_scope.

Section Assets.
Variable E : env.
Variable fs : node.
Variable root : path.

(** [src] is below the resolved root and [dst] is its place in the assets area. *)
Definition asset_ok (sd : path * str) : Prop :=
  exists rroot rel, realpath fs root = ROk rroot /\ fst sd = rroot ++ rel /\ is_file fs (fst sd) = true /\
                    snd sd = assets_dir ++ [c_slash] ++ join [c_slash] rel.

Lemma asset_add_in src dst a x : In x (asset_add src dst a) -> x = (src, dst) \/ In x a.
Proof.
  induction a as [|[s' d'] a IH]; simpl; intro H.
  - destruct H as [H|[]]. left. symmetry. exact H.
  - destruct (path_eqb src s').
    + destruct H as [H|H]; [left; symmetry; exact H | right; right; exact H].
    + destruct H as [H|H]; [right; left; exact H|]. destruct (IH H) as [H'|H']; [left | right; right]; assumption.
Qed.

Lemma asset_add_ok src dst a : asset_ok (src, dst) -> Forall asset_ok a -> Forall asset_ok (asset_add src dst a).
Proof.
  intros H Ha. apply Forall_forall. intros x Hin. apply asset_add_in in Hin as [->|Hin]; [exact H|].
  rewrite Forall_forall in Ha. apply Ha. exact Hin.
Qed.

Lemma link_asset_ok source from lookup url u src dst :
  rewrite_link fs root source from lookup url = LAsset u src dst -> asset_ok (src, dst).
Proof.
  intro H. apply rewrite_link_asset in H as (parts & rroot & rel & _ & _ & _ & _ & Hr & Hs & Hf & Hd & _).
  exists rroot, rel. simpl. auto.
Qed.

Lemma rewrite_links_ok source from lookup : forall ls a us a',
  Forall asset_ok a -> rewrite_links fs root source from lookup ls a = Ok (us, a') -> Forall asset_ok a'.
Proof.
  induction ls as [|[attr url] ls IH]; intros a us a' Ha H; simpl in H.
  - inversion H; subst. exact Ha.
  - destruct (rewrite_link fs root source from lookup url) as [u|u|u src dst|e] eqn:El; try discriminate.
    + destruct (rewrite_links fs root source from lookup ls a) as [[us0 a0]|e] eqn:Er; [|discriminate].
      simpl in H. inversion H; subst. eapply IH; eassumption.
    + destruct (rewrite_links fs root source from lookup ls a) as [[us0 a0]|e] eqn:Er; [|discriminate].
      simpl in H. inversion H; subst. eapply IH; eassumption.
    + destruct (rewrite_links fs root source from lookup ls (asset_add src dst a)) as [[us0 a0]|e] eqn:Er; [|discriminate].
      simpl in H. inversion H; subst. eapply IH; [|eassumption].
      apply asset_add_ok; [eapply link_asset_ok; eassumption | exact Ha].
Qed.

Lemma render_items_ok source from lookup menu orig : forall its a us a',
  Forall asset_ok a -> render_items fs root source from lookup menu orig its a = Ok (us, a') -> Forall asset_ok a'.
Proof.
  induction its as [|[attr url|] its IH]; intros a us a' Ha H; simpl in H.
  - inversion H; subst. exact Ha.
  - destruct (rewrite_link fs root source from lookup url) as [u|u|u src dst|e] eqn:El; try discriminate.
    + destruct (render_items fs root source from lookup menu orig its a) as [[us0 a0]|e] eqn:Er; [|discriminate].
      simpl in H. inversion H; subst. eapply IH; eassumption.
    + destruct (render_items fs root source from lookup menu orig its a) as [[us0 a0]|e] eqn:Er; [|discriminate].
      simpl in H. inversion H; subst. eapply IH; eassumption.
    + destruct (render_items fs root source from lookup menu orig its (asset_add src dst a)) as [[us0 a0]|e] eqn:Er;
        [|discriminate].
      simpl in H. inversion H; subst. eapply IH; [|eassumption].
      apply asset_add_ok; [eapply link_asset_ok; eassumption | exact Ha].
  - destruct (render_items fs root source from lookup menu orig its a) as [[us0 a0]|e] eqn:Er; [|discriminate].
    simpl in H. inversion H; subst. eapply IH; eassumption.
Qed.

Variable hm : home.
Hypothesis Hroot : h_root hm = root.

Lemma render_home_ok lookup a po a' :
  Forall asset_ok a -> render_home fs hm lookup a = Ok (po, a') -> Forall asset_ok a'.
Proof.
  intros Ha H. unfold render_home in H. cbv zeta in H. rewrite Hroot in H.
  destruct (h_welcome hm) as [ls|]; destruct (h_welcome_src hm) as [src|]; simpl in H;
    try (inversion H; subst; exact Ha).
  destruct (rewrite_links fs root src home_path lookup ls a) as [[us a0]|e] eqn:Er; [|discriminate].
  simpl in H. inversion H; subst. eapply rewrite_links_ok; eassumption.
Qed.

Lemma render_cat_ok h c lookup a po a' :
  Forall asset_ok a -> render_cat fs hm h c lookup a = Ok (po, a') -> Forall asset_ok a'.
Proof.
  intros Ha H. unfold render_cat in H. cbv zeta in H. rewrite Hroot in H.
  match type of H with bind ?x _ = _ => destruct x as [[body a0]|e] eqn:Eb end; [|discriminate].
  assert (Ha0 : Forall asset_ok a0).
  { destruct (cp_desc c) as [ls|]; destruct (cp_desc_src c) as [src|]; try (inversion Eb; subst; exact Ha).
    eapply rewrite_links_ok; eassumption. }
  cbn [bind] in H.
  match type of H with bind ?x _ = _ => destruct x as [recs|e] end; [|discriminate].
  simpl in H. inversion H; subst. exact Ha0.
Qed.

Lemma render_recipe_ok h p lookup a po a' :
  Forall asset_ok a -> render_recipe fs hm h p lookup a = Ok (po, a') -> Forall asset_ok a'.
Proof.
  intros Ha H. unfold render_recipe in H. cbv zeta in H. rewrite Hroot in H.
  match type of H with bind ?x _ = _ => destruct x as [orig|e] end; [|discriminate].
  cbn [bind] in H.
  match type of H with bind ?x _ = _ => destruct x as [[body a0]|e] eqn:Eb end; [|discriminate].
  simpl in H. inversion H; subst. eapply render_items_ok; eassumption.
Qed.

Lemma render_all_ok h lookup : forall ps a pos a',
  Forall asset_ok a -> render_all fs hm h lookup ps a = Ok (pos, a') -> Forall asset_ok a'.
Proof.
  induction ps as [|p ps IH]; intros a pos a' Ha H; simpl in H.
  - inversion H; subst. exact Ha.
  - match type of H with bind ?x _ = _ => destruct x as [[po a1]|e] eqn:Ep end; [|discriminate].
    cbn [bind] in H.
    destruct (render_all fs hm h lookup ps a1) as [[pos0 a2]|e] eqn:Er; [|discriminate].
    simpl in H. inversion H; subst. eapply IH; [|eassumption].
    destruct p as [|c|rr].
    + eapply render_home_ok; eassumption.
    + eapply render_cat_ok; eassumption.
    + destruct (deref h rr) as [pg|]; [|discriminate]. eapply render_recipe_ok; eassumption.
Qed.

End Assets.

Lemma write_all_ok : forall files written out, write_all files written = Ok out -> out = files.
Proof.
  induction files as [|[f c] files IH]; intros written out H; simpl in H.
  - inversion H. reflexivity.
  - destruct (existsb _ written); [discriminate|].
    destruct (write_all files (f :: written)) as [l|e] eqn:Ew; [|discriminate].
    simpl in H. inversion H; subst. f_equal. eapply IH. eassumption.
Qed.

Lemma copy_assets_in fs : forall a copies dst src data,
  copy_assets fs a = Ok copies -> In (dst, CCopy src data) copies ->
  In (src, dst) a /\ read_file fs src = Some data.
Proof.
  induction a as [|[s0 d0] a IH]; intros copies dst src data H Hin; simpl in H.
  - inversion H; subst. contradiction.
  - destruct (read_file fs s0) as [d|] eqn:Er; [|discriminate].
    destruct (copy_assets fs a) as [l|e] eqn:Ec; [|discriminate].
    simpl in H. inversion H; subst. destruct Hin as [Hin|Hin].
    + inversion Hin; subst. split; [left; reflexivity | exact Er].
    + destruct (IH l dst src data eq_refl Hin) as [H1 H2]. split; [right; exact H1 | exact H2].
Qed.

Lemma copy_assets_only fs : forall a copies f c,
  copy_assets fs a = Ok copies -> In (f, c) copies -> exists src data, c = CCopy src data.
Proof.
  induction a as [|[s0 d0] a IH]; intros copies f c H Hin; simpl in H.
  - inversion H; subst. contradiction.
  - destruct (read_file fs s0) as [d|]; [|discriminate].
    destruct (copy_assets fs a) as [l|e] eqn:Ec; [|discriminate].
    simpl in H. inversion H; subst. destruct Hin as [Hin|Hin].
    + inversion Hin; subst. eauto.
    + eapply IH; [reflexivity | eassumption].
Qed.

Lemma from_root_directory_root E t root M hm h :
  from_root_directory E t root M = Ok (hm, h) -> h_root hm = root.
Proof.
  unfold from_root_directory. destruct t as [| |n rn es]; try discriminate.
  destruct (enumerate E root rn es) as [l|e]; [|discriminate]. cbn [bind].
  match goal with |- bind ?x _ = _ -> _ => destruct x as [[sc h1]|e] end; [|discriminate]. cbn [bind].
  match goal with |- bind ?x _ = _ -> _ => destruct x as [[un h2]|e] end; [|discriminate]. cbn [bind].
  intro H. inversion H; subst. reflexivity.
Qed.

(** Site level: a copied file is a regular file physically located below the resolved source
    root, its destination is /assets/<path relative to the root>, and the bytes written are the
    bytes of that file. *)
Theorem site_copies_inside E fs input M files dst src data :
  generate_static_site E fs input M = Ok files ->
  In (dst, CCopy src data) files ->
  exists root rroot rel,
    realpath fs input = ROk root /\ realpath fs root = ROk rroot /\
    src = rroot ++ rel /\ is_file fs src = true /\
    dst = assets_dir ++ [c_slash] ++ join [c_slash] rel /\
    read_file fs src = Some data.
Proof.
  unfold generate_static_site. intros H Hin.
  destruct (realpath fs input) as [root| | |] eqn:Hr; try discriminate.
  destruct (view_root fs root) as [t|]; [|discriminate].
  destruct (from_root_directory E t root M) as [[hm h]|e] eqn:Hb; [|discriminate].
  cbn [bind] in H. unfold write_site in H.
  destruct (render_all fs hm h (source_lookup hm h) (all_pages hm) []) as [[pages a]|e] eqn:Hra; [|discriminate].
  cbn [bind] in H.
  destruct (copy_assets fs a) as [copies|e] eqn:Hc; [|discriminate].
  cbn [bind] in H. apply write_all_ok in H. subst files.
  apply in_app_or in Hin as [Hin|Hin].
  { apply in_map_iff in Hin as [[f po] [Heq _]]. discriminate. }
  apply in_app_or in Hin as [Hin|Hin].
  { destruct Hin as [Heq|[]]. discriminate. }
  destruct (copy_assets_in _ _ _ _ _ _ Hc Hin) as [Ha Hrd].
  assert (Hok : Forall (asset_ok fs root) a).
  { eapply render_all_ok; [eapply from_root_directory_root; eassumption | constructor | eassumption]. }
  rewrite Forall_forall in Hok. destruct (Hok _ Ha) as (rroot & rel & H1 & H2 & H3 & H4). simpl in *.
  exists root, rroot, rel. auto 10.
Qed.
