(** * When is scaling decisive?  The comparison [has_equal_value_to] split into
    its unit part (untouched by scaling) and its numeric part, and the common
    case where the answer cannot change: the two quantities are equal
    rationals (after an exact unit conversion). *)
From Coq Require Import List ZArith NArith QArith Bool Lia Znumtheory.
From RG Require Import Base.Str Base.Num Model.Recipe Model.Compiler Spec.CompileSpec Spec.CompileSym
  Spec.ScaleProg Proofs.RecipeInd Proofs.RecipeScale.
Import ListNotations.

Section Units.
  Variable convert : str -> str -> option num.
  Variable tol : Z * positive.
  Variable lower : str -> str.
  Notation hevt := (has_equal_value_to convert tol lower).

  (** The factor that brings [m]'s unit to [q]'s; [None]: not comparable. *)
  Definition unit_factor (q m : quantity) : option num :=
    match q_unit q, q_unit m with
    | None, None => Some (NInt 1)
    | Some us, Some uo =>
        match convert (lower uo) (lower us) with
        | Some s => Some s
        | None => if str_eqb (lower us) (lower uo) then Some (NInt 1) else None
        end
    | _, _ => None
    end.

  (** [isclose(qv, mv * s)] *)
  Definition close_at (s qv mv : num) : option bool :=
    match nmul mv s with
    | NOk v => isclose_with (fst tol) (snd tol) qv v
    | _ => None
    end.

  Lemma hevt_unfold q m :
    hevt q m = match unit_factor q m with
               | Some s => close_at s (q_value q) (q_value m)
               | None => Some false
               end.
  Proof.
    unfold has_equal_value_to, unit_factor, close_at.
    destruct (q_unit q) as [us|], (q_unit m) as [uo|]; try reflexivity.
    destruct (convert (lower uo) (lower us)); [reflexivity|].
    destruct (str_eqb (lower us) (lower uo)); reflexivity.
  Qed.

  Lemma unit_factor_scaled k q m q' m' :
    scale_quantity k q = Some q' -> scale_quantity k m = Some m' -> unit_factor q' m' = unit_factor q m.
  Proof.
    unfold scale_quantity. intros Hq Hm.
    destruct (scale_num k (q_value q)); [|discriminate]. destruct (scale_num k (q_value m)); [|discriminate].
    simpl in *. inversion Hq; inversion Hm; subst. reflexivity.
  Qed.

  (** Scaling is decisive for a pair as soon as its numeric part is stable. *)
  Lemma pair_decisive_of_close k q m :
    (forall s qv' mv', unit_factor q m = Some s ->
       nmul (q_value q) k = NOk qv' -> nmul (q_value m) k = NOk mv' ->
       close_at s qv' mv' = close_at s (q_value q) (q_value m)) ->
    forall q' m', scale_quantity k q = Some q' -> scale_quantity k m = Some m' -> hevt q' m' = hevt q m.
  Proof.
    intros H q' m' Hq Hm. rewrite !hevt_unfold, (unit_factor_scaled k q m q' m' Hq Hm).
    destruct (unit_factor q m) as [s|] eqn:Es; [|reflexivity].
    unfold scale_quantity, scale_num in Hq, Hm.
    destruct (nmul (q_value q) k) as [qv'| |] eqn:Eq; try discriminate.
    destruct (nmul (q_value m) k) as [mv'| |] eqn:Em; try discriminate.
    simpl in Hq, Hm. inversion Hq; inversion Hm; subst. simpl. now apply H.
  Qed.
End Units.

(** ** Canonical exact numbers: ints and Fractions in lowest terms *)
Definition canonical (v : num) : Prop := exact v /\ reduced v.

Lemma mk_frac_canonical n d : canonical (mk_frac n d).
Proof.
  split; [reflexivity|]. unfold mk_frac, reduced.
  set (g := Z.gcd n (Zpos d)).
  assert (Hg : (0 < g)%Z).
  { assert (0 <= g)%Z by apply Z.gcd_nonneg.
    assert (g <> 0)%Z; [|lia]. unfold g. intro E. apply Z.gcd_eq_0_r in E. discriminate. }
  destruct (Z.gcd_divide_r n (Zpos d)) as [d' Hd']. fold g in Hd'.
  assert (Ed : (Zpos d / g = d')%Z) by (rewrite Hd'; apply Z.div_mul; lia).
  assert (Hd'pos : (0 < d')%Z) by nia.
  rewrite Ed, Z2Pos.id by exact Hd'pos. rewrite <- Ed.
  apply Z.gcd_div_gcd; [lia | reflexivity].
Qed.

Lemma nmul_canonical a b r : exact a -> exact b -> nmul a b = NOk r -> canonical r.
Proof.
  unfold exact. destruct a as [x|n1 d1|m1 e1], b as [y|n2 d2|m2 e2]; simpl; try discriminate;
    intros _ _ H; inversion H; subst; try apply mk_frac_canonical.
  split; [reflexivity | exact I].
Qed.

Lemma reduced_frac_unique n1 d1 n2 d2 :
  Z.gcd n1 (Zpos d1) = 1%Z -> Z.gcd n2 (Zpos d2) = 1%Z ->
  (n1 * Zpos d2 = n2 * Zpos d1)%Z -> n1 = n2 /\ d1 = d2.
Proof.
  intros G1 G2 E.
  assert (D12 : (Zpos d1 | Zpos d2)%Z).
  { apply Z.gauss with (m := n1); [exists n2; lia | now rewrite Z.gcd_comm]. }
  assert (D21 : (Zpos d2 | Zpos d1)%Z).
  { apply Z.gauss with (m := n2); [exists n1; lia | now rewrite Z.gcd_comm]. }
  assert (Ed : Zpos d1 = Zpos d2) by (apply Z.divide_antisym_nonneg; lia || assumption).
  inversion Ed; subst. split; [nia | reflexivity].
Qed.

Lemma canonical_to_frac a b : canonical a -> canonical b -> to_Q a == to_Q b -> to_frac a = to_frac b.
Proof.
  intros [Ea Ra] [Eb Rb] HQ. unfold to_Q in HQ.
  assert (Ga : Z.gcd (fst (to_frac a)) (Zpos (snd (to_frac a))) = 1%Z).
  { destruct a; simpl in *; [apply Z.gcd_1_r | exact Ra | discriminate]. }
  assert (Gb : Z.gcd (fst (to_frac b)) (Zpos (snd (to_frac b))) = 1%Z).
  { destruct b; simpl in *; [apply Z.gcd_1_r | exact Rb | discriminate]. }
  destruct (to_frac a) as [n1 d1], (to_frac b) as [n2 d2]. simpl in *. unfold Qeq in HQ. simpl in HQ.
  destruct (reduced_frac_unique n1 d1 n2 d2 Ga Gb HQ) as [-> ->]. reflexivity.
Qed.

(** [float(x)] of an int / Fraction depends on its numerator and denominator only. *)
Lemma to_float_frac a b : exact a -> exact b -> to_frac a = to_frac b -> to_float a = to_float b.
Proof.
  unfold exact. intros Ha Hb E.
  destruct a as [x|n d|m e]; try discriminate; destruct b as [y|n' d'|m' e']; try discriminate;
    unfold to_float; rewrite E; reflexivity.
Qed.

Lemma isclose_same_float tn td a b f :
  to_float a = NOk f -> to_float b = NOk f -> isclose_with tn td a b = Some true.
Proof.
  intros Ea Eb. unfold isclose_with. rewrite Ea, Eb.
  destruct (to_frac f) as [n d]. now rewrite Z.eqb_refl.
Qed.

Section Equal.
  Variable tol : Z * positive.

  (** Equal rationals: the comparison says "equal" before and after scaling
      (when the value fits a float). *)
  Lemma close_at_equal s qv mv f :
    canonical qv -> exact mv -> exact s -> to_Q qv == to_Q mv * to_Q s ->
    to_float qv = NOk f -> close_at tol s qv mv = Some true.
  Proof.
    intros Cq Hm Hs HQ Hf. unfold close_at.
    destruct (nmul_exact mv s Hm Hs) as (v & Ev & Xv & Qv). rewrite Ev.
    pose proof (nmul_canonical mv s v Hm Hs Ev) as Cv.
    assert (E : to_frac qv = to_frac v) by (apply canonical_to_frac; try assumption; now rewrite Qv).
    apply (isclose_same_float _ _ qv v f Hf).
    rewrite <- (to_float_frac qv v (proj1 Cq) Xv E). exact Hf.
  Qed.

  Lemma close_at_equal_scaled k s qv mv qv' mv' f f' :
    exact k -> canonical qv -> exact mv -> exact s -> to_Q qv == to_Q mv * to_Q s ->
    nmul qv k = NOk qv' -> nmul mv k = NOk mv' ->
    to_float qv = NOk f -> to_float qv' = NOk f' ->
    close_at tol s qv' mv' = close_at tol s qv mv.
  Proof.
    intros Hk Cq Hm Hs HQ Eq Em Hf Hf'.
    rewrite (close_at_equal s qv mv f Cq Hm Hs HQ Hf).
    destruct (nmul_exact qv k (proj1 Cq) Hk) as (r1 & E1 & X1 & Q1). rewrite Eq in E1. inversion E1; subst r1.
    destruct (nmul_exact mv k Hm Hk) as (r2 & E2 & X2 & Q2). rewrite Em in E2. inversion E2; subst r2.
    apply (close_at_equal s qv' mv' f'); try assumption.
    - exact (nmul_canonical qv k qv' (proj1 Cq) Hk Eq).
    - rewrite Q1, Q2, HQ. ring.
  Qed.
End Equal.

Section WhenEqual.
  Variable convert : str -> str -> option num.
  Variable tol : Z * positive.
  Variable lower : str -> str.

  (** The pair (use [q], made [m]) is either not comparable (units) or made
      of equal rationals: [q = m * s] with [s] the exact unit factor, [q] an int
      or a Fraction in lowest terms, and [q], [q * k] within float range. *)
  Definition equal_pair (k : num) (qm : quantity * quantity) : Prop :=
    match unit_factor convert lower (fst qm) (snd qm) with
    | None => True
    | Some s =>
        canonical (q_value (fst qm)) /\ exact (q_value (snd qm)) /\ exact s /\
        to_Q (q_value (fst qm)) == to_Q (q_value (snd qm)) * to_Q s /\
        (exists f, to_float (q_value (fst qm)) = NOk f) /\
        (forall qv', nmul (q_value (fst qm)) k = NOk qv' -> exists f', to_float qv' = NOk f')
    end.

  Lemma equal_pair_decisive k qm : exact k -> equal_pair k qm ->
    forall q' m', scale_quantity k (fst qm) = Some q' -> scale_quantity k (snd qm) = Some m' ->
    has_equal_value_to convert tol lower q' m' = has_equal_value_to convert tol lower (fst qm) (snd qm).
  Proof.
    intros Hk He. apply pair_decisive_of_close. intros s qv' mv' Es Eq Em.
    unfold equal_pair in He. rewrite Es in He.
    destruct He as (Cq & Xm & Xs & HQ & (f & Hf) & Hf').
    destruct (Hf' qv' Eq) as (f' & Ef').
    exact (close_at_equal_scaled tol k s _ _ qv' mv' f f' Hk Cq Xm Xs HQ Eq Em Hf Ef').
  Qed.

  Theorem decisive_when_equal k p : exact k ->
    Forall (equal_pair k) (compared_pairs convert tol lower p) -> decisive convert tol lower k p.
  Proof.
    intros Hk H. unfold decisive. eapply Forall_impl; [|exact H].
    intros qm He. now apply equal_pair_decisive.
  Qed.
End WhenEqual.
