(** * Lemmas about Model/LineCol.v (C19, C07). *)
From Coq Require Import List NArith Bool Arith Lia.
From RG Require Import Base.Str Model.LineCol.
Import ListNotations.

Local Open Scope nat_scope.

(** ** Generalities *)

Lemma list_ind2 {A} (P : list A -> Prop) :
  P [] -> (forall a, P [a]) ->
  (forall a b l, P l -> P (b :: l) -> P (a :: b :: l)) ->
  forall l, P l.
Proof.
  intros H0 H1 H2 l.
  assert (H : P l /\ forall a, P (a :: l)).
  { induction l as [|b l [IHa IHb]].
    - split; [exact H0 | exact H1].
    - split; [apply IHb | intro a; apply H2; [exact IHa | apply IHb]]. }
  exact (proj1 H).
Qed.

Definition nobreak (x : str) : bool := forallb (fun c => negb (is_break c)) x.

Lemma is_break_10 : is_break 10%N = true.
Proof. reflexivity. Qed.

Lemma is_break_13 : is_break 13%N = true.
Proof. reflexivity. Qed.

Lemma not_break_not_13 c : is_break c = false -> (c =? 13)%N = false.
Proof.
  intro H. destruct (c =? 13)%N eqn:E; [|reflexivity].
  apply N.eqb_eq in E. subst. discriminate.
Qed.

Lemma not_break_not_10 c : is_break c = false -> (c =? 10)%N = false.
Proof.
  intro H. destruct (c =? 10)%N eqn:E; [|reflexivity].
  apply N.eqb_eq in E. subst. discriminate.
Qed.

(** ** Shape of [splitlines_keepends] / [splitlines] *)

Lemma sk_cons_nobreak (c : N) (x : list N) :
  is_break c = false ->
  splitlines_keepends (c :: x) =
  match splitlines_keepends x with [] => [[c]] | l :: ls => (c :: l) :: ls end.
Proof.
  intro H. cbn [splitlines_keepends]. rewrite (not_break_not_13 c H), H. reflexivity.
Qed.

Lemma sl_cons_nobreak (c : N) (x : list N) :
  is_break c = false ->
  splitlines (c :: x) =
  match splitlines x with [] => [[c]] | l :: ls => (c :: l) :: ls end.
Proof.
  intro H. cbn [splitlines]. rewrite (not_break_not_13 c H), H. reflexivity.
Qed.

Lemma sk_cons_hard (c : N) (x : list N) :
  is_break c = true -> (c =? 13)%N = false ->
  splitlines_keepends (c :: x) = [c] :: splitlines_keepends x.
Proof. intros H1 H2. cbn [splitlines_keepends]. rewrite H2, H1. reflexivity. Qed.

Lemma sl_cons_hard (c : N) (x : list N) :
  is_break c = true -> (c =? 13)%N = false ->
  splitlines (c :: x) = [] :: splitlines x.
Proof. intros H1 H2. cbn [splitlines]. rewrite H2, H1. reflexivity. Qed.

Lemma sk_nl (x : list N) : splitlines_keepends (10%N :: x) = [10%N] :: splitlines_keepends x.
Proof. reflexivity. Qed.

Lemma sl_nl (x : list N) : splitlines (10%N :: x) = [] :: splitlines x.
Proof. reflexivity. Qed.

Lemma sk_nil_iff x : splitlines_keepends x = [] <-> x = [].
Proof.
  split; [|intros ->; reflexivity].
  destruct x as [|c x]; [reflexivity|]. cbn [splitlines_keepends].
  destruct (c =? 13)%N.
  - destruct x as [|d x]; [discriminate|]. destruct (d =? 10)%N; discriminate.
  - destruct (is_break c); [discriminate|].
    destruct (splitlines_keepends x); discriminate.
Qed.

Lemma sl_nil_iff x : splitlines x = [] <-> x = [].
Proof.
  split; [|intros ->; reflexivity].
  destruct x as [|c x]; [reflexivity|]. cbn [splitlines].
  destruct (c =? 13)%N.
  - destruct x as [|d x]; [discriminate|]. destruct (d =? 10)%N; discriminate.
  - destruct (is_break c); [discriminate|].
    destruct (splitlines x); discriminate.
Qed.

(** The lines, terminators kept, concatenate to the text. *)
Lemma sk_concat x : concat (splitlines_keepends x) = x.
Proof.
  induction x as [|a|a b x IH1 IH2] using list_ind2.
  - reflexivity.
  - cbn [splitlines_keepends]. destruct (a =? 13)%N eqn:E.
    + apply N.eqb_eq in E. subst. reflexivity.
    + destruct (is_break a); reflexivity.
  - destruct (a =? 13)%N eqn:E.
    + apply N.eqb_eq in E. subst a. cbn [splitlines_keepends]. cbn [N.eqb Pos.eqb].
      destruct (b =? 10)%N eqn:E2.
      * apply N.eqb_eq in E2. subst b. cbn [concat app]. rewrite IH1. reflexivity.
      * change (concat ([13%N] :: splitlines_keepends (b :: x)) = 13%N :: b :: x).
        cbn [concat app]. rewrite IH2. reflexivity.
    + destruct (is_break a) eqn:B.
      * rewrite (sk_cons_hard a _ B E). cbn [concat app]. rewrite IH2. reflexivity.
      * rewrite (sk_cons_nobreak a _ B).
        destruct (splitlines_keepends (b :: x)) as [|l ls] eqn:S.
        -- apply sk_nil_iff in S. discriminate.
        -- cbn [concat app] in *. rewrite IH2. reflexivity.
Qed.

(** Each line is: text without boundaries, then one terminator (or nothing). *)
Definition is_term (t : str) : Prop :=
  t = [] \/ (exists c, t = [c] /\ is_break c = true) \/ t = [13%N; 10%N].

Lemma sk_sl_rel x :
  Forall2 (fun k l => exists t, k = l ++ t /\ is_term t /\ nobreak l = true)
          (splitlines_keepends x) (splitlines x).
Proof.
  induction x as [|a|a b x IH1 IH2] using list_ind2.
  - constructor.
  - cbn [splitlines_keepends splitlines]. destruct (a =? 13)%N eqn:E.
    + apply N.eqb_eq in E. subst. constructor; [|constructor].
      exists [13%N]. repeat split. right; left. exists 13%N. split; reflexivity.
    + destruct (is_break a) eqn:B; (constructor; [|constructor]).
      * exists [a]. repeat split. right; left. exists a. split; [reflexivity|exact B].
      * exists []. repeat split. left; reflexivity. unfold nobreak. cbn. rewrite B. reflexivity.
  - destruct (a =? 13)%N eqn:E.
    + apply N.eqb_eq in E. subst a. cbn [splitlines_keepends splitlines]. cbn [N.eqb Pos.eqb].
      destruct (b =? 10)%N eqn:E2.
      * constructor; [|exact IH1]. exists [13%N; 10%N]. repeat split. right; right; reflexivity.
      * constructor; [|exact IH2]. exists [13%N]. repeat split. right; left. exists 13%N. split; reflexivity.
    + destruct (is_break a) eqn:B.
      * rewrite (sk_cons_hard a _ B E), (sl_cons_hard a _ B E).
        constructor; [|exact IH2]. exists [a]. repeat split. right; left. exists a; split; [reflexivity|exact B].
      * rewrite (sk_cons_nobreak a _ B), (sl_cons_nobreak a _ B).
        destruct (splitlines_keepends (b :: x)) as [|k ks] eqn:Ek.
        -- apply sk_nil_iff in Ek. discriminate.
        -- destruct (splitlines (b :: x)) as [|l ls] eqn:El; [inversion IH2|].
           inversion IH2 as [|? ? ? ? [t [Hk [Ht Hn]]] Hrest]; subst.
           constructor; [|exact Hrest]. exists t. repeat split; [exact Ht|].
           unfold nobreak in *. cbn [forallb]. rewrite B, Hn. reflexivity.
Qed.

Lemma sk_sl_length x : length (splitlines_keepends x) = length (splitlines x).
Proof.
  assert (H := sk_sl_rel x).
  induction H; cbn [length]; congruence.
Qed.

(** ** The scanning loop *)

Lemma lc_go_hit pre : forall l post idx last r,
  r < length l ->
  lc_go (pre ++ l :: post) idx last (length (concat pre) + r) = (idx + length pre + 1, r + 1).
Proof.
  induction pre as [|p pre IH]; intros l post idx last r Hr.
  - cbn [app concat length Nat.add lc_go].
    apply Nat.ltb_lt in Hr. rewrite Hr. f_equal; lia.
  - cbn [app concat lc_go]. rewrite app_length.
    replace (length p + length (concat pre) + r <? length p) with false
      by (symmetry; apply Nat.ltb_ge; lia).
    replace (length p + length (concat pre) + r - length p) with (length (concat pre) + r) by lia.
    rewrite IH by exact Hr. cbn [length]. f_equal; lia.
Qed.

Lemma last_indep {A} (L : list A) a d d' : List.last (a :: L) d = List.last (a :: L) d'.
Proof.
  revert a. induction L as [|b L IH]; intro a; [reflexivity|].
  change (List.last (b :: L) d = List.last (b :: L) d'). apply IH.
Qed.

Lemma lc_go_past L : forall idx last off,
  length (concat L) <= off ->
  lc_go L idx last off = (Nat.max 1 (idx + length L), length (List.last L last) + 1).
Proof.
  induction L as [|l L IH]; intros idx last off H.
  - cbn [lc_go length List.last]. rewrite Nat.add_0_r. reflexivity.
  - cbn [concat] in H. rewrite app_length in H. cbn [lc_go].
    replace (off <? length l) with false by (symmetry; apply Nat.ltb_ge; lia).
    rewrite IH by lia. cbn [length]. f_equal; [lia|].
    destruct L as [|l0 L]; [reflexivity|].
    change (List.last (l :: l0 :: L) last) with (List.last (l0 :: L) last).
    rewrite (last_indep L l0 l last). reflexivity.
Qed.

(** Bounds on the result, whatever the offset. *)
Lemma lc_go_bounds L : forall idx last off,
  let r := lc_go L idx last off in
  Nat.max 1 idx <= fst r /\
  (L <> [] -> idx + 1 <= fst r) /\
  fst r <= Nat.max 1 (idx + length L) /\
  1 <= snd r /\
  snd r <= length (nth (fst r - idx - 1) L last) + 1.
Proof.
  induction L as [|l L IH]; intros idx last off r; subst r.
  - cbn [lc_go fst snd length]. rewrite Nat.add_0_r.
    repeat split; try lia; try congruence.
    destruct (Nat.max 1 idx - idx - 1); cbn [nth]; lia.
  - cbn [lc_go]. destruct (off <? length l) eqn:E.
    + apply Nat.ltb_lt in E. cbn [fst snd length].
      replace (idx + 1 - idx - 1) with 0 by lia. cbn [nth]. repeat split; lia.
    + specialize (IH (idx + 1) l (off - length l)). cbn zeta in IH.
      destruct IH as [H0 [H1 [H2 [H3 H4]]]]. cbn [length].
      destruct L as [|l2 L].
      * cbn [lc_go fst snd length nth] in *.
        replace (Nat.max 1 (idx + 1) - idx - 1) with 0 by lia. repeat split; lia.
      * set (r := lc_go (l2 :: L) (idx + 1) l (off - length l)) in *.
        assert (Hge : idx + 2 <= fst r) by (assert (l2 :: L <> []) by congruence; intuition lia).
        cbn [length] in H2 |- *.
        split; [lia|]. split; [lia|]. split; [lia|]. split; [lia|].
        replace (fst r - idx - 1) with (S (fst r - (idx + 1) - 1)) by lia.
        set (k := fst r - (idx + 1) - 1) in *.
        change (nth (S k) (l :: l2 :: L) last) with (nth k (l2 :: L) last).
        rewrite (nth_indep (l2 :: L) last l); [exact H4|].
        cbn [length]. lia.
Qed.

(** ** Well-formed positions (any text, any offset) *)

Lemma Forall2_nth {A B} (R : A -> B -> Prop) la lb da db :
  Forall2 R la lb -> forall i, i < length la -> R (nth i la da) (nth i lb db).
Proof.
  induction 1 as [|a b la lb Hab Hrest IH]; intros i Hi; cbn [length] in Hi; [lia|].
  destruct i as [|i]; cbn [nth]; [exact Hab|]. apply IH. lia.
Qed.

Lemma line_col_wellformed s off :
  let lc := line_col s off in
  (1 <= fst lc <= Nat.max 1 (length (splitlines_keepends s))) /\
  (1 <= snd lc <= length (nth (fst lc - 1) (splitlines_keepends s) []) + 1) /\
  exists snip t,
    extract_line s (fst lc) = Some snip /\
    nth (fst lc - 1) (splitlines_keepends s) [] = snip ++ t /\
    is_term t /\ nobreak snip = true.
Proof.
  intro lc. subst lc. unfold line_col.
  destruct (lc_go_bounds (splitlines_keepends s) 0 [] off) as [H0 [H1 [H2 [H3 H4]]]].
  set (r := lc_go (splitlines_keepends s) 0 [] off) in *.
  cbn [Nat.add] in H2. rewrite Nat.sub_0_r in H4.
  split; [lia|]. split; [lia|].
  destruct s as [|c s].
  - exists [], []. cbn. repeat split. left; reflexivity.
  - set (x := c :: s) in *.
    assert (Hne : splitlines_keepends x <> []) by (intro E; apply sk_nil_iff in E; discriminate).
    assert (Hlen : fst r - 1 < length (splitlines_keepends x)).
    { destruct (splitlines_keepends x); [congruence|]. cbn [length] in *. lia. }
    destruct (Forall2_nth _ _ _ [] [] (sk_sl_rel x) _ Hlen) as [t [Hk [Ht Hn]]].
    exists (nth (fst r - 1) (splitlines x) []), t.
    split; [|split; [exact Hk | split; [exact Ht | exact Hn]]].
    unfold extract_line. subst x. apply nth_error_nth'. rewrite <- sk_sl_length. exact Hlen.
Qed.

(** ** A prefix without line boundaries *)

Lemma sk_head_nonempty y l0 ls : splitlines_keepends y = l0 :: ls -> l0 <> [].
Proof.
  destruct y as [|c y]; [discriminate|]. cbn [splitlines_keepends].
  destruct (c =? 13)%N.
  - destruct y as [|d y]; [|destruct (d =? 10)%N]; intro E; inversion E; discriminate.
  - destruct (is_break c).
    + intro E; inversion E; discriminate.
    + destruct (splitlines_keepends y); intro E; inversion E; discriminate.
Qed.

Lemma sk_nobreak_app acc : nobreak acc = true -> forall y, y <> [] ->
  exists l0 ls, splitlines_keepends y = l0 :: ls /\
                splitlines_keepends (acc ++ y) = (acc ++ l0) :: ls.
Proof.
  induction acc as [|c acc IH]; intros Hn y Hy.
  - destruct (splitlines_keepends y) as [|l0 ls] eqn:E.
    + apply sk_nil_iff in E. contradiction.
    + exists l0, ls. split; [reflexivity | exact E].
  - unfold nobreak in Hn. cbn [forallb] in Hn. apply andb_true_iff in Hn as [Hc Hn].
    apply negb_true_iff in Hc.
    destruct (IH Hn y Hy) as [l0 [ls [E1 E2]]].
    exists l0, ls. split; [exact E1|].
    cbn [app]. rewrite (sk_cons_nobreak c _ Hc), E2. reflexivity.
Qed.

Lemma sk_nobreak_nl acc y : nobreak acc = true ->
  splitlines_keepends (acc ++ 10%N :: y) = (acc ++ [10%N]) :: splitlines_keepends y.
Proof.
  intro Hn. destruct (sk_nobreak_app acc Hn (10%N :: y)) as [l0 [ls [E1 E2]]]; [discriminate|].
  rewrite sk_nl in E1. inversion E1; subst. exact E2.
Qed.

Lemma split_on_nonl acc : nobreak acc = true -> split_on 10%N acc = [acc].
Proof.
  induction acc as [|c acc IH]; intro Hn; [reflexivity|].
  unfold nobreak in Hn. cbn [forallb] in Hn. apply andb_true_iff in Hn as [Hc Hn].
  apply negb_true_iff in Hc. cbn [split_on].
  rewrite (not_break_not_10 c Hc), (IH Hn). reflexivity.
Qed.

Lemma split_on_not_nil c x : split_on c x <> [].
Proof.
  destruct x as [|d x]; cbn [split_on]; [discriminate|].
  destruct (d =? c)%N; [discriminate|]. destruct (split_on c x); discriminate.
Qed.

Lemma split_on_app c a b : split_on c (a ++ c :: b) = split_on c a ++ split_on c b.
Proof.
  induction a as [|d a IH]; cbn [app split_on].
  - rewrite N.eqb_refl. reflexivity.
  - destruct (d =? c)%N; [rewrite IH; reflexivity|].
    rewrite IH. destruct (split_on c a) as [|p ps] eqn:E; [exfalso; exact (split_on_not_nil _ _ E)|].
    reflexivity.
Qed.

Lemma last_app_nonempty {A} (X Y : list A) d : Y <> [] -> List.last (X ++ Y) d = List.last Y d.
Proof.
  intro HY. destruct (exists_last HY) as [Y' [y ->]].
  rewrite app_assoc, !last_last. reflexivity.
Qed.

Lemma count_nl_cons c x : count_nl (c :: x) = (if (c =? 10)%N then 1 else 0) + count_nl x.
Proof. unfold count_nl. cbn [filter]. destruct (c =? 10)%N; reflexivity. Qed.

(** The position just after a prefix [acc ++ p] (whose only boundaries are "\n")
    of a text that continues: line = number of "\n" passed + 1,
    column = distance from the last "\n" + 1.  Nothing is assumed about [rest]. *)
Lemma lc_prefix p : forall acc rest idx last,
  nobreak acc = true -> only_lf p = true -> rest <> [] ->
  lc_go (splitlines_keepends (acc ++ p ++ rest)) idx last (length acc + length p) =
  (idx + 1 + count_nl p, 1 + length (List.last (split_on 10%N (acc ++ p)) [])).
Proof.
  induction p as [|c p IH]; intros acc rest idx last Hacc Hp Hrest.
  - cbn [app length]. rewrite app_nil_r, Nat.add_0_r.
    destruct (sk_nobreak_app acc Hacc rest Hrest) as [l0 [ls [E1 E2]]].
    rewrite E2. assert (Hl0 := sk_head_nonempty _ _ _ E1).
    assert (Hlt : length acc < length (acc ++ l0)).
    { rewrite app_length. destruct l0; [congruence|]. cbn [length]. lia. }
    assert (H := lc_go_hit [] (acc ++ l0) ls idx last (length acc) Hlt).
    cbn [app concat length Nat.add] in H. rewrite H.
    rewrite (split_on_nonl acc Hacc). cbn [List.last count_nl filter length]. f_equal; lia.
  - unfold only_lf in Hp. cbn [forallb] in Hp. apply andb_true_iff in Hp as [Hc Hp].
    destruct (c =? 10)%N eqn:E10.
    + apply N.eqb_eq in E10. subst c.
      cbn [app]. rewrite (sk_nobreak_nl acc _ Hacc). cbn [lc_go length].
      replace (length acc + S (length p) <? length (acc ++ [10%N])) with false
        by (symmetry; apply Nat.ltb_ge; rewrite app_length; cbn [length]; lia).
      replace (length acc + S (length p) - length (acc ++ [10%N])) with (length (@nil N) + length p)
        by (rewrite app_length; cbn [length]; lia).
      change (p ++ rest) with ([] ++ p ++ rest).
      rewrite (IH [] rest (idx + 1) (acc ++ [10%N]) eq_refl Hp Hrest).
      rewrite count_nl_cons. cbn [N.eqb Pos.eqb app].
      rewrite split_on_app, (last_app_nonempty _ _ _ (split_on_not_nil _ _)).
      f_equal. lia.
    + rewrite orb_false_r in Hc. apply negb_true_iff in Hc.
      replace (acc ++ (c :: p) ++ rest) with ((acc ++ [c]) ++ p ++ rest)
        by (rewrite <- app_assoc; reflexivity).
      replace (length acc + length (c :: p)) with (length (acc ++ [c]) + length p)
        by (rewrite app_length; cbn [length]; lia).
      rewrite IH; [| |exact Hp|exact Hrest].
      * rewrite count_nl_cons, E10. rewrite <- app_assoc. reflexivity.
      * unfold nobreak in *. rewrite forallb_app. apply andb_true_iff. split; [exact Hacc|].
        cbn [forallb]. rewrite Hc. reflexivity.
Qed.

Lemma only_lf_firstn x o : only_lf x = true -> only_lf (firstn o x) = true.
Proof.
  unfold only_lf. revert o. induction x as [|c x IH]; intros o H; destruct o; try reflexivity.
  cbn [firstn forallb] in *. apply andb_true_iff in H as [H1 H2]. rewrite H1, (IH o H2). reflexivity.
Qed.

(** On a text whose only boundaries are "\n", [line_col] is Markdown's line / column. *)
Lemma line_col_only_lf x o :
  only_lf x = true -> o < length x -> line_col x o = (md_line x o, md_col x o).
Proof.
  intros Hx Ho. unfold line_col, md_line, md_col.
  assert (Hrest : skipn o x <> []).
  { intro E. assert (L := skipn_length o x). rewrite E in L. cbn [length] in L. lia. }
  assert (H := lc_prefix (firstn o x) [] (skipn o x) 0 [] eq_refl (only_lf_firstn x o Hx) Hrest).
  cbn [app length Nat.add] in H. rewrite firstn_skipn, firstn_length_le in H by lia.
  exact H.
Qed.

(** [splitlines] and [split "\n"] agree line by line. *)
Lemma sl_split_on x : only_lf x = true -> forall i, i < length (splitlines x) ->
  nth i (split_on 10%N x) [] = nth i (splitlines x) [].
Proof.
  induction x as [|c x IH]; intros Hx i Hi; [cbn in Hi; lia|].
  unfold only_lf in Hx. cbn [forallb] in Hx. apply andb_true_iff in Hx as [Hc Hx].
  destruct (c =? 10)%N eqn:E10.
  - apply N.eqb_eq in E10. subst c. rewrite sl_nl in Hi |- *. cbn [split_on N.eqb Pos.eqb].
    destruct i as [|i]; [reflexivity|]. cbn [nth length] in *. apply (IH Hx). lia.
  - rewrite orb_false_r in Hc. apply negb_true_iff in Hc.
    rewrite (sl_cons_nobreak c x Hc) in Hi |- *. cbn [split_on]. rewrite E10.
    destruct (split_on 10%N x) as [|p ps] eqn:Es; [exfalso; exact (split_on_not_nil _ _ Es)|].
    destruct (splitlines x) as [|l ls] eqn:El.
    + apply sl_nil_iff in El. subst x. cbn [split_on] in Es. inversion Es; subst.
      destruct i as [|i]; [reflexivity|]. cbn [length] in Hi. lia.
    + destruct i as [|i]; cbn [nth].
      * f_equal. apply (IH Hx 0). cbn [length]. lia.
      * apply (IH Hx (S i)). cbn [length] in *. lia.
Qed.

Lemma extract_line_only_lf x o :
  only_lf x = true -> o < length x -> extract_line x (md_line x o) = Some (md_text x o).
Proof.
  intros Hx Ho.
  assert (W := line_col_wellformed x o). cbn zeta in W.
  rewrite (line_col_only_lf x o Hx Ho) in W. cbn [fst snd] in W.
  destruct W as [[_ W] _].
  destruct x as [|c x]; [cbn in Ho; lia|]. set (y := c :: x) in *.
  assert (Hne : splitlines_keepends y <> []) by (intro E; apply sk_nil_iff in E; discriminate).
  assert (Hlen : md_line y o - 1 < length (splitlines y)).
  { rewrite <- sk_sl_length. destruct (splitlines_keepends y); [congruence|]. cbn [length] in *.
    unfold md_line in *. lia. }
  assert (E : extract_line y (md_line y o) = nth_error (splitlines y) (md_line y o - 1)) by reflexivity.
  rewrite E. transitivity (Some (nth (md_line y o - 1) (splitlines y) [])).
  { apply nth_error_nth'. exact Hlen. }
  f_equal. unfold md_text.
  assert (Em : md_line y o - 1 = count_nl (firstn o y)) by (unfold md_line; lia).
  rewrite Em in *. symmetry. apply sl_split_on; assumption.
Qed.

(** ** Padding with newlines *)

Lemma sk_newlines k x : splitlines_keepends (newlines k ++ x) = repeat [10%N] k ++ splitlines_keepends x.
Proof.
  induction k as [|k IH]; [reflexivity|].
  cbn [newlines repeat app]. fold (newlines k). rewrite sk_nl, IH. reflexivity.
Qed.

Lemma sl_newlines k x : splitlines (newlines k ++ x) = repeat [] k ++ splitlines x.
Proof.
  induction k as [|k IH]; [reflexivity|].
  cbn [newlines repeat app]. fold (newlines k). rewrite sl_nl, IH. reflexivity.
Qed.

Lemma newlines_snoc k : newlines k ++ [10%N] = newlines (k + 1).
Proof.
  unfold newlines. induction k as [|k IH]; [reflexivity|]. cbn [repeat app Nat.add]. rewrite IH. reflexivity.
Qed.

Lemma newlines_length k : length (newlines k) = k.
Proof. apply repeat_length. Qed.

Lemma lc_go_last_indep L idx last last' o : L <> [] -> lc_go L idx last o = lc_go L idx last' o.
Proof. destruct L; [congruence|]. reflexivity. Qed.

Lemma lc_go_idx_shift L : forall idx k last o, (1 <= idx \/ L <> []) ->
  lc_go L (idx + k) last o = (fst (lc_go L idx last o) + k, snd (lc_go L idx last o)).
Proof.
  induction L as [|l L IH]; intros idx k last o H.
  - destruct H as [H|H]; [|congruence]. cbn [lc_go fst snd]. f_equal. lia.
  - cbn [lc_go]. destruct (o <? length l).
    + cbn [fst snd]. f_equal. lia.
    + replace (idx + k + 1) with (idx + 1 + k) by lia. apply IH. left. lia.
Qed.

Lemma lc_go_skip_newlines k : forall L idx last o,
  lc_go (repeat [10%N] k ++ L) idx last (k + o) =
  lc_go L (idx + k) (match k with 0 => last | S _ => [10%N] end) o.
Proof.
  induction k as [|k IH]; intros L idx last o.
  - cbn [repeat app Nat.add]. rewrite Nat.add_0_r. reflexivity.
  - cbn [repeat app lc_go length].
    replace (S k + o <? 1) with false by (symmetry; apply Nat.ltb_ge; lia).
    replace (S k + o - 1) with (k + o) by lia.
    rewrite IH. replace (idx + 1 + k) with (idx + S k) by lia.
    destruct k; reflexivity.
Qed.

(** Prepending [k] newlines moves every position [k] lines down and changes nothing else.
    No assumption on the content of [src]. *)
Lemma line_col_padding k src o : src <> [] ->
  line_col (newlines k ++ src) (k + o) = (k + fst (line_col src o), snd (line_col src o)).
Proof.
  intro Hsrc. unfold line_col. rewrite sk_newlines, lc_go_skip_newlines.
  assert (Hne : splitlines_keepends src <> []) by (intro E; apply sk_nil_iff in E; contradiction).
  rewrite (lc_go_last_indep _ _ _ [] _ Hne).
  rewrite (lc_go_idx_shift _ 0 k [] o (or_intror Hne)). f_equal. lia.
Qed.

Lemma extract_line_padding k src l : src <> [] -> 1 <= l ->
  extract_line (newlines k ++ src) (k + l) = extract_line src l.
Proof.
  intros Hsrc Hl. unfold extract_line.
  destruct (newlines k ++ src) as [|c y] eqn:E.
  - apply app_eq_nil in E. destruct E. contradiction.
  - rewrite <- E, sl_newlines. destruct src as [|d src]; [congruence|].
    rewrite nth_error_app2; rewrite repeat_length; [|lia].
    f_equal. lia.
Qed.

(** ** "\r\n" -> "\n" *)

Lemma norm_crlf_cons_not13 c x : (c =? 13)%N = false -> norm_crlf (c :: x) = c :: norm_crlf x.
Proof. intro H. cbn [norm_crlf]. rewrite H. destruct x; reflexivity. Qed.

Lemma only_lf_norm_id x : only_lf x = true -> norm_crlf x = x.
Proof.
  induction x as [|c x IH]; intro H; [reflexivity|].
  unfold only_lf in H. cbn [forallb] in H. apply andb_true_iff in H as [Hc Hx].
  assert (H13 : (c =? 13)%N = false).
  { destruct (c =? 13)%N eqn:E; [|reflexivity]. apply N.eqb_eq in E. subst c. discriminate. }
  rewrite (norm_crlf_cons_not13 c x H13), (IH Hx). reflexivity.
Qed.

Lemma norm_crlf_app a : forall b, only_lf_crlf a = true -> norm_crlf (a ++ b) = norm_crlf a ++ norm_crlf b.
Proof.
  induction a as [|c|c d a IH1 IH2] using list_ind2; intros b H.
  - reflexivity.
  - cbn [only_lf_crlf] in H. destruct (c =? 13)%N eqn:E; [discriminate|].
    cbn [app]. rewrite (norm_crlf_cons_not13 c b E). reflexivity.
  - cbn [only_lf_crlf] in H. destruct (c =? 13)%N eqn:E.
    + apply andb_true_iff in H as [Hd Ha]. apply N.eqb_eq in E, Hd. subst c d.
      cbn [app norm_crlf N.eqb Pos.eqb andb]. rewrite (IH1 b Ha). reflexivity.
    + apply andb_true_iff in H as [_ Ha].
      change ((c :: d :: a) ++ b) with (c :: (d :: a) ++ b).
      rewrite !(norm_crlf_cons_not13 c _ E), (IH2 b Ha). reflexivity.
Qed.

Lemma only_lf_crlf_norm a : only_lf_crlf a = true -> only_lf (norm_crlf a) = true.
Proof.
  induction a as [|c|c d a IH1 IH2] using list_ind2; intro H.
  - reflexivity.
  - cbn [only_lf_crlf] in H. destruct (c =? 13)%N; [discriminate|].
    cbn [norm_crlf only_lf forallb]. exact H.
  - cbn [only_lf_crlf] in H. destruct (c =? 13)%N eqn:E.
    + apply andb_true_iff in H as [Hd Ha]. apply N.eqb_eq in E, Hd. subst c d.
      cbn [norm_crlf N.eqb Pos.eqb andb]. unfold only_lf. cbn [forallb].
      change (forallb _ (norm_crlf a)) with (only_lf (norm_crlf a)). rewrite (IH1 Ha). reflexivity.
    + apply andb_true_iff in H as [Hc Ha].
      rewrite (norm_crlf_cons_not13 c _ E). unfold only_lf. cbn [forallb].
      change (forallb _ (norm_crlf (d :: a))) with (only_lf (norm_crlf (d :: a))).
      rewrite (IH2 Ha), Hc. reflexivity.
Qed.

Lemma count_nl_norm a : count_nl (norm_crlf a) = count_nl a.
Proof.
  induction a as [|c|c d a IH1 IH2] using list_ind2.
  - reflexivity.
  - reflexivity.
  - destruct ((c =? 13)%N && (d =? 10)%N) eqn:E.
    + apply andb_true_iff in E as [Ec Ed]. apply N.eqb_eq in Ec, Ed. subst c d.
      cbn [norm_crlf N.eqb Pos.eqb andb]. rewrite !count_nl_cons, IH1. reflexivity.
    + cbn [norm_crlf]. rewrite E. change (norm_crlf (d :: a)) with (norm_crlf (d :: a)).
      rewrite !(count_nl_cons c). f_equal. exact IH2.
Qed.

Lemma norm_crlf_nonempty b : b <> [] -> norm_crlf b <> [].
Proof.
  destruct b as [|c b]; [congruence|]. intros _. cbn [norm_crlf].
  destruct b as [|d b]; [discriminate|]. destruct ((c =? 13)%N && (d =? 10)%N); discriminate.
Qed.

(** ** The reported triple *)

Section Report.
  Variables (a b : str) (fenced : bool) (src : str) (o : nat).
  Hypothesis Ha : only_lf_crlf a = true.
  Hypothesis Hb : b <> [].
  Hypothesis Hsrc : src <> [].

  Let K := count_nl a + (if fenced then 1 else 0).

  Lemma corrected_source_eq :
    corrected_source (a ++ b) (length (norm_crlf a)) fenced src = newlines K ++ src.
  Proof.
    unfold corrected_source. rewrite (norm_crlf_app a b Ha).
    unfold line_col.
    assert (H := lc_prefix (norm_crlf a) [] (norm_crlf b) 0 [] eq_refl
                   (only_lf_crlf_norm a Ha) (norm_crlf_nonempty b Hb)).
    cbn [app length Nat.add] in H. rewrite H. cbn [fst].
    rewrite count_nl_norm. replace (S (count_nl a) - 1) with (count_nl a) by lia.
    subst K. destruct fenced.
    - rewrite newlines_snoc. reflexivity.
    - rewrite Nat.add_0_r. reflexivity.
  Qed.

  (** Offsets only: no assumption on the content of the block source. *)
  Lemma report_shift :
    report (a ++ b) (length (norm_crlf a)) fenced src o =
    (K + fst (line_col src o), snd (line_col src o), extract_line src (fst (line_col src o))).
  Proof.
    unfold report. rewrite corrected_source_eq.
    replace (length (newlines K ++ src) - length src + o) with (K + o)
      by (rewrite app_length, newlines_length; lia).
    rewrite (line_col_padding K src o Hsrc). cbn [fst snd].
    rewrite (extract_line_padding K src _ Hsrc); [reflexivity|].
    destruct (line_col_wellformed src o) as [[H _] _]. exact H.
  Qed.

  Hypothesis Hlf : only_lf src = true.
  Hypothesis Ho : o < length src.

  Lemma report_md :
    report (a ++ b) (length (norm_crlf a)) fenced src o =
    (md_line a (length a) + (if fenced then 1 else 0) + (md_line src o - 1),
     md_col src o, Some (md_text src o)).
  Proof.
    rewrite report_shift, (line_col_only_lf src o Hlf Ho). cbn [fst snd].
    rewrite (extract_line_only_lf src o Hlf Ho).
    unfold md_line at 2. rewrite firstn_all. subst K. unfold md_line.
    f_equal. f_equal. lia.
  Qed.
End Report.

(** ** CRLF files *)

Lemma to_crlf_app x y : to_crlf (x ++ y) = to_crlf x ++ to_crlf y.
Proof. unfold to_crlf. apply flat_map_app. Qed.

Lemma to_crlf_cons (c : N) (x : list N) :
  to_crlf (c :: x) = (if (c =? 10)%N then [13%N; 10%N] else [c]) ++ to_crlf x.
Proof. reflexivity. Qed.

Lemma to_crlf_ok x : only_lf x = true ->
  only_lf_crlf (to_crlf x) = true /\ norm_crlf (to_crlf x) = x /\ count_nl (to_crlf x) = count_nl x.
Proof.
  induction x as [|c x IH]; intro H; [repeat split|].
  unfold only_lf in H. cbn [forallb] in H. apply andb_true_iff in H as [Hc Hx].
  destruct (IH Hx) as [I1 [I2 I3]]. rewrite to_crlf_cons.
  destruct (c =? 10)%N eqn:E.
  - apply N.eqb_eq in E. subst c. cbn [app only_lf_crlf norm_crlf N.eqb Pos.eqb andb].
    rewrite I1, I2, !count_nl_cons, I3. repeat split.
  - rewrite orb_false_r in Hc.
    assert (H13 : (c =? 13)%N = false) by (apply not_break_not_13; apply negb_true_iff; exact Hc).
    cbn [app]. rewrite (norm_crlf_cons_not13 c _ H13), I2, !count_nl_cons, E, I3.
    cbn [only_lf_crlf]. rewrite H13, Hc, I1. repeat split.
Qed.

Lemma to_crlf_nonempty x : x <> [] -> to_crlf x <> [].
Proof.
  destruct x as [|c x]; [congruence|]. intros _. rewrite to_crlf_cons.
  destruct (c =? 10)%N; discriminate.
Qed.

Lemma report_crlf_file t pos fenced src o :
  only_lf (firstn pos t) = true -> pos < length t ->
  only_lf src = true -> o < length src ->
  report (to_crlf t) pos fenced src o =
    (md_line t pos + (if fenced then 1 else 0) + (md_line src o - 1), md_col src o, Some (md_text src o))
  /\ md_line (to_crlf t) (length (to_crlf (firstn pos t))) = md_line t pos.
Proof.
  intros Hp Hpos Hlf Ho.
  destruct (to_crlf_ok _ Hp) as [C1 [C2 C3]].
  assert (Hrest : skipn pos t <> []).
  { intro E. assert (L := skipn_length pos t). rewrite E in L. cbn [length] in L. lia. }
  assert (Hsrc : src <> []) by (destruct src; [cbn in Ho; lia | discriminate]).
  assert (Et : to_crlf t = to_crlf (firstn pos t) ++ to_crlf (skipn pos t))
    by (rewrite <- to_crlf_app, firstn_skipn; reflexivity).
  assert (Epos : pos = length (norm_crlf (to_crlf (firstn pos t))))
    by (rewrite C2, firstn_length_le; lia).
  split.
  - replace (report (to_crlf t) pos fenced src o)
      with (report (to_crlf (firstn pos t) ++ to_crlf (skipn pos t))
                   (length (norm_crlf (to_crlf (firstn pos t)))) fenced src o)
      by (rewrite <- Et, <- Epos; reflexivity).
    rewrite (report_md _ _ fenced src o C1 (to_crlf_nonempty _ Hrest) Hsrc Hlf Ho).
    unfold md_line. rewrite !firstn_all, C3. reflexivity.
  - unfold md_line. rewrite Et, firstn_app, Nat.sub_diag, firstn_all, firstn_O, app_nil_r, C3. reflexivity.
Qed.

Lemma report_lf text pos fenced src o :
  only_lf (firstn pos text) = true -> pos < length text ->
  only_lf src = true -> o < length src ->
  report text pos fenced src o =
    (md_line text pos + (if fenced then 1 else 0) + (md_line src o - 1), md_col src o, Some (md_text src o)).
Proof.
  intros Hp Hpos Hlf Ho.
  assert (Hrest : skipn pos text <> []).
  { intro E. assert (L := skipn_length pos text). rewrite E in L. cbn [length] in L. lia. }
  assert (Hsrc : src <> []) by (destruct src; [cbn in Ho; lia | discriminate]).
  assert (Hcr : only_lf_crlf (firstn pos text) = true).
  { clear -Hp. induction (firstn pos text) as [|c x IH]; [reflexivity|].
    unfold only_lf in Hp. cbn [forallb] in Hp. apply andb_true_iff in Hp as [Hc Hx].
    cbn [only_lf_crlf]. destruct (c =? 13)%N eqn:E.
    - apply N.eqb_eq in E. subst c. discriminate.
    - rewrite Hc. apply IH. exact Hx. }
  assert (Epos : pos = length (norm_crlf (firstn pos text)))
    by (rewrite (only_lf_norm_id _ Hp), firstn_length_le; lia).
  replace (report text pos fenced src o)
    with (report (firstn pos text ++ skipn pos text) (length (norm_crlf (firstn pos text))) fenced src o)
    by (rewrite firstn_skipn, <- Epos; reflexivity).
  rewrite (report_md _ _ fenced src o Hcr Hrest Hsrc Hlf Ho).
  unfold md_line. rewrite !firstn_all. reflexivity.
Qed.
