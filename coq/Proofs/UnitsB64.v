(** * C12: an error bound for [b64] that needs no range condition:
    |b64 x - x| <= |x| * 2^-53 + 2^-1075 (relative in the normal range,
    absolute half-unit in the subnormal range). *)
From Coq Require Import List ZArith QArith Qabs Bool Lia Lqa.
From RG Require Import Base.Str Base.Num Gen.GenUnits Proofs.LintB64 Proofs.LintTol.
Import ListNotations.
Open Scope Q_scope.

Definition tiny : Q := 1 # Z.to_pos (2 ^ 1075).

Lemma b64_pos_abs_error n d m e : (0 < n)%Z -> (0 < d)%Z -> b64_pos n d = Some (m, e) ->
  Qabs (inject_Z m * pw e - (n # Z.to_pos d)) <= (n # Z.to_pos d) * u53 + tiny.
Proof.
  intros Hn Hd B.
  assert (Xpos : 0 <= (n # Z.to_pos d)) by (unfold Qle; simpl; lia).
  destruct (Z_le_gt_dec (-1074) (e1_of n d)) as [En|En].
  - (* the exponent is not clamped: the relative bound, as in LintTol *)
    assert (Tp : 0 <= tiny) by discriminate.
    destruct (Z_le_gt_dec d (n * 2 ^ 1022)) as [Hv|Hv].
    + pose proof (b64_pos_rel_error n d m e Hn Hd Hv B) as R. unfold u53. lra.
    + (* cannot happen: e1 >= -1074 forces the value to be at least 2^-1022 *)
      exfalso. pose proof (exp_spec n d Hn Hd) as [W _].
      pose proof (g_antitone n d (-1074) (e1_of n d + 1074) Hn Hd ltac:(lia)) as A.
      replace (-1074 + (e1_of n d + 1074))%Z with (e1_of n d) in A by ring.
      assert (L : (g n d (-1074) < 2 ^ 52)%Z).
      { unfold g, scaled. simpl. apply Z.div_lt_upper_bound; [lia|].
        replace (2 ^ 1074)%Z with (2 ^ 1022 * 2 ^ 52)%Z by (rewrite <- Z.pow_add_r by lia; reflexivity). nia. }
      lia.
  - (* clamped to -1074: absolute error of half a unit *)
    rewrite b64_pos_eq in B. rewrite Z.max_r in B by lia.
    pose proof (scaled_value n d (-1074) Hd) as V.
    destruct (scaled_pos n d (-1074) Hn Hd) as [Ha Hb].
    unfold round_at in B. destruct (scaled n d (-1074)) as [a b]. cbn [fst snd] in *.
    pose proof (rne_div_half a b Hb) as Hh. set (mr := rne_div a b) in *.
    set (P := pw (-1074)) in *. assert (Pp : 0 < P) by apply pw_pos.
    set (A := (a # Z.to_pos b)) in *.
    assert (Mh : - (1 # 2) <= inject_Z mr - A <= (1 # 2)).
    { unfold A, inject_Z, Qle, Qminus, Qplus, Qopp. cbn [Qnum Qden]. rewrite !Z2Pos.id by lia. split; lia. }
    assert (HP : (1 # 2) * P == tiny) by reflexivity.
    assert (Core : Qabs (inject_Z mr * P - (n # Z.to_pos d)) <= tiny).
    { rewrite V. apply Qabs_le_iff. destruct Mh as [Mh1 Mh2].
      assert (L1 : (inject_Z mr - A) * P <= (1 # 2) * P) by (apply Qmult_le_compat_r; [exact Mh2 | now apply Qlt_le_weak]).
      assert (L2 : - (1 # 2) * P <= (inject_Z mr - A) * P) by (apply Qmult_le_compat_r; [exact Mh1 | now apply Qlt_le_weak]).
      split; lra. }
    assert (U : 0 <= (n # Z.to_pos d) * u53) by (unfold u53; apply Qmult_le_0_compat; [exact Xpos | discriminate]).
    destruct (mr =? 2 ^ 53)%Z eqn:C.
    + apply Z.eqb_eq in C. cbn in B. inversion B; subst m e.
      change (-1073)%Z with (-1074 + 1)%Z. rewrite pw_succ. fold P. rewrite C in Core.
      assert (D : inject_Z (2 ^ 52) * (2 * P) == inject_Z (2 ^ 53) * P).
      { assert (H : inject_Z (2 ^ 53) == 2 * inject_Z (2 ^ 52)) by reflexivity. rewrite H. ring. }
      change 4503599627370496%Z with (2 ^ 52)%Z. rewrite D. eapply Qle_trans; [exact Core|].
      rewrite <- (Qplus_0_l tiny) at 1. apply Qplus_le_compat; [exact U | apply Qle_refl].
    + cbn in B. inversion B; subst m e. eapply Qle_trans; [exact Core|].
      rewrite <- (Qplus_0_l tiny) at 1. apply Qplus_le_compat; [exact U | apply Qle_refl].
Qed.

Theorem b64_abs_error n d f : b64 n d = Some f ->
  Qabs (to_Q f - (n # d)) <= Qabs (n # d) * u53 + tiny.
Proof.
  unfold b64. destruct n as [|p|p].
  - intro K. inversion K; subst. vm_compute. discriminate.
  - destruct (b64_pos (Zpos p) (Zpos d)) as [[m e]|] eqn:B; [|discriminate]. intro K; inversion K; subst.
    rewrite canon_value.
    pose proof (b64_pos_abs_error (Zpos p) (Zpos d) m e ltac:(lia) ltac:(lia) B) as R.
    simpl Z.to_pos in R. rewrite (Qabs_pos (Zpos p # d)) by (unfold Qle; simpl; lia). exact R.
  - destruct (b64_pos (Zpos p) (Zpos d)) as [[m e]|] eqn:B; [|discriminate]. intro K; inversion K; subst.
    rewrite canon_value.
    pose proof (b64_pos_abs_error (Zpos p) (Zpos d) m e ltac:(lia) ltac:(lia) B) as R.
    simpl Z.to_pos in R.
    assert (N : (Zneg p # d == - (Zpos p # d))) by reflexivity.
    assert (M : (inject_Z (- m) == - inject_Z m)) by (unfold inject_Z, Qeq; simpl; ring).
    rewrite N, M, Qabs_opp, (Qabs_pos (Zpos p # d)) by (unfold Qle; simpl; lia).
    setoid_replace (- inject_Z m * pw e - - (Zpos p # d)) with (- (inject_Z m * pw e - (Zpos p # d))) by ring.
    rewrite Qabs_opp. exact R.
Qed.

(** ** Rounding a positive moderate rational *)
Definition tolq : Q := fst isclose_rel_tol # snd isclose_rel_tol.

Lemma tiny_small : 0 < tiny /\ tiny <= 1 # 1000000000000000000000000000000000000000000000000000000000000.
Proof. unfold tiny, Qlt, Qle. simpl. split; [lia|]. vm_compute. discriminate. Qed.

Lemma u_small : 0 < u53 /\ u53 <= 1 # 1000000000000000.
Proof. unfold u53, Qlt, Qle; simpl; split; lia. Qed.

Lemma tolq_bounds : (9 # 10000000000) <= tolq /\ tolq <= (11 # 10000000000).
Proof. unfold tolq, Qle; simpl; split; lia. Qed.

Lemma range_high12 n d : Qabs (n # d) <= 1000000000000 -> (Z.abs n < Zpos d * 2 ^ 1000)%Z.
Proof.
  unfold Qle, Qabs. simpl. intro H. assert (1000000000000 < 2 ^ 1000)%Z by (vm_compute; reflexivity). nia.
Qed.

Lemma round_two_sided n d : Qabs (n # d) <= 1000000000000 ->
  exists f, round_q n d = NOk f /\ Qabs (to_Q f - (n # d)) <= Qabs (n # d) * u53 + tiny.
Proof.
  intro H. destruct (b64_some n d (range_high12 n d H)) as [f B]. exists f. unfold round_q. rewrite B.
  split; [reflexivity | exact (b64_abs_error n d f B)].
Qed.

Lemma frac_abs_Q f : (Z.abs (fst (to_frac f)) # snd (to_frac f)) == Qabs (to_Q f).
Proof. unfold to_Q. destruct (to_frac f) as [n d]. reflexivity. Qed.

Lemma Qle_bool_true a b : a <= b -> Qle_bool a b = true.
Proof. apply Qle_bool_iff. Qed.

Lemma to_float_float a : is_float a = true -> to_float a = NOk a.
Proof. destruct a; simpl; try discriminate; reflexivity. Qed.

(** [math.isclose] (default tolerances) accepts two positive floats that
    differ by at most 1e-13 relative, in the range 5e-7 .. 2e6. *)
Lemma isclose_true a b :
  is_float a = true -> is_float b = true ->
  (5 # 10000000) <= to_Q a -> to_Q a <= 2 * 1000000 ->
  Qabs (to_Q b - to_Q a) <= to_Q a * (1 # 10000000000000) ->
  isclose_with (fst isclose_rel_tol) (snd isclose_rel_tol) a b = Some true.
Proof.
  intros Fa Fb Lo Hi Near. unfold isclose_with. rewrite (to_float_float a Fa), (to_float_float b Fb).
  unfold to_Q in *. destruct (to_frac a) as [n1 d1], (to_frac b) as [n2 d2].
  set (X := n1 # d1) in *. set (Y := n2 # d2) in *.
  destruct (n1 * Z.pos d2 =? n2 * Z.pos d1)%Z; [reflexivity|].
  destruct tiny_small as [T0 T1]. destruct u_small as [U0 U1]. destruct tolq_bounds as [L1 L2].
  assert (V : (n2 * Z.pos d1 - n1 * Z.pos d2 # (d1 * d2)) == Y - X).
  { unfold X, Y, Qeq, Qminus, Qplus, Qopp. cbn [Qnum Qden]. rewrite !Pos2Z.inj_mul. ring. }
  assert (Xp : 0 < X) by lra.
  destruct (round_two_sided (n2 * Z.pos d1 - n1 * Z.pos d2) (d1 * d2)) as [df [Rd Ed]].
  { rewrite V. eapply Qle_trans; [exact Near|]. nra. }
  rewrite Rd, V in *.
  assert (W : (fst isclose_rel_tol * n1 # (snd isclose_rel_tol * d1)) == tolq * X) by reflexivity.
  destruct (round_two_sided (fst isclose_rel_tol * n1) (snd isclose_rel_tol * d1)) as [t [Rt Et]].
  { rewrite W. rewrite Qabs_pos by nra. nra. }
  rewrite W in Et. rewrite (Qabs_pos (tolq * X)) in Et by nra.
  destruct (to_frac df) as [dn dd] eqn:Fd. cbv beta iota zeta.
  f_equal. apply orb_true_iff. right. rewrite Rt.
  destruct (to_frac t) as [tn td] eqn:Ft.
  change (Qle_bool (Z.abs dn # dd) (Z.abs tn # td) = true). apply Qle_bool_true.
  assert (Hd : (Z.abs dn # dd) == Qabs (to_Q df)) by (unfold to_Q; rewrite Fd; reflexivity).
  assert (Ht : (Z.abs tn # td) == Qabs (to_Q t)) by (unfold to_Q; rewrite Ft; reflexivity).
  rewrite Hd, Ht. unfold to_Q in Ed, Et |- *. rewrite Fd in Ed |- *. rewrite Ft in Et |- *.
  set (DF := dn # dd) in *. set (TT := tn # td) in *.
  apply Qabs_le_iff in Ed. apply Qabs_le_iff in Et. apply Qabs_le_iff in Near.
  assert (Tpos : 0 <= TT) by nra. rewrite (Qabs_pos TT Tpos).
  assert (AD : Qabs (Y - X) <= X * (1 # 10000000000000)) by (apply Qabs_le_iff; exact Near).
  apply Qabs_le_iff. split; nra.
Qed.

Lemma Qle_bool_false a b : b < a -> Qle_bool a b = false.
Proof.
  intro H. destruct (Qle_bool a b) eqn:E; [|reflexivity]. apply Qle_bool_iff in E.
  exfalso. apply (Qlt_irrefl b). eapply Qlt_le_trans; eauto.
Qed.

(** ... and rejects two positive floats that differ by at least 1.5e-9 of the larger one. *)
Lemma isclose_false a b :
  is_float a = true -> is_float b = true ->
  (5 # 10000000) <= to_Q a -> to_Q a <= 2 * 1000000 ->
  (5 # 10000000) <= to_Q b -> to_Q b <= 2 * 1000000 ->
  to_Q a * (15 # 10000000000) <= Qabs (to_Q b - to_Q a) ->
  to_Q b * (15 # 10000000000) <= Qabs (to_Q b - to_Q a) ->
  isclose_with (fst isclose_rel_tol) (snd isclose_rel_tol) a b = Some false.
Proof.
  intros Fa Fb Lo Hi Lo2 Hi2 FarX FarY. unfold isclose_with. rewrite (to_float_float a Fa), (to_float_float b Fb).
  unfold to_Q in *. destruct (to_frac a) as [n1 d1], (to_frac b) as [n2 d2].
  set (X := n1 # d1) in *. set (Y := n2 # d2) in *.
  destruct tiny_small as [Ty0 Ty1]. destruct u_small as [U0 U1]. destruct tolq_bounds as [L1 L2].
  destruct (n1 * Z.pos d2 =? n2 * Z.pos d1)%Z eqn:Eq.
  { exfalso. apply Z.eqb_eq in Eq. assert (XY : Y - X == 0) by (unfold X, Y, Qeq, Qminus, Qplus, Qopp; cbn [Qnum Qden]; lia).
    rewrite XY in FarX. change (Qabs 0) with 0 in FarX. lra. }
  assert (V : (n2 * Z.pos d1 - n1 * Z.pos d2 # (d1 * d2)) == Y - X).
  { unfold X, Y, Qeq, Qminus, Qplus, Qopp. cbn [Qnum Qden]. rewrite !Pos2Z.inj_mul. ring. }
  assert (Dhi : Qabs (Y - X) <= 1000000000000) by (apply Qabs_le_iff; split; lra).
  destruct (round_two_sided (n2 * Z.pos d1 - n1 * Z.pos d2) (d1 * d2)) as [df [Rd Ed]]; [rewrite V; exact Dhi|].
  rewrite Rd, V in *.
  assert (Wx : (fst isclose_rel_tol * n1 # (snd isclose_rel_tol * d1)) == tolq * X) by reflexivity.
  assert (Wy : (fst isclose_rel_tol * n2 # (snd isclose_rel_tol * d2)) == tolq * Y) by reflexivity.
  destruct (round_two_sided (fst isclose_rel_tol * n1) (snd isclose_rel_tol * d1)) as [t1 [Rt1 Et1]].
  { rewrite Wx. rewrite Qabs_pos by nra. nra. }
  destruct (round_two_sided (fst isclose_rel_tol * n2) (snd isclose_rel_tol * d2)) as [t2 [Rt2 Et2]].
  { rewrite Wy. rewrite Qabs_pos by nra. nra. }
  rewrite Wx in Et1. rewrite (Qabs_pos (tolq * X)) in Et1 by nra.
  rewrite Wy in Et2. rewrite (Qabs_pos (tolq * Y)) in Et2 by nra.
  destruct (to_frac df) as [dn dd] eqn:Fd. cbv beta iota zeta.
  f_equal. rewrite Rt1, Rt2.
  destruct (to_frac t1) as [tn1 td1] eqn:Ft1. destruct (to_frac t2) as [tn2 td2] eqn:Ft2.
  change (Qle_bool (Z.abs dn # dd) (Z.abs tn2 # td2) || Qle_bool (Z.abs dn # dd) (Z.abs tn1 # td1) = false).
  unfold to_Q in Ed, Et1, Et2. rewrite Fd in Ed. rewrite Ft1 in Et1. rewrite Ft2 in Et2.
  change (Z.abs dn # dd) with (Qabs (dn # dd)). change (Z.abs tn1 # td1) with (Qabs (tn1 # td1)).
  change (Z.abs tn2 # td2) with (Qabs (tn2 # td2)).
  set (DF := dn # dd) in *. set (TT1 := tn1 # td1) in *. set (TT2 := tn2 # td2) in *.
  (* |DF| >= |D| (1 - u) - tiny *)
  pose proof (Qabs_triangle_reverse (Y - X) DF) as Tr.
  assert (Sw : Qabs (Y - X - DF) == Qabs (DF - (Y - X))).
  { setoid_replace (Y - X - DF) with (- (DF - (Y - X))) by ring. apply Qabs_opp. }
  rewrite Sw in Tr.
  set (AD := Qabs (Y - X)) in *. set (ADF := Qabs DF) in *.
  assert (ADp : 0 <= AD) by apply Qabs_nonneg.
  assert (G1 : AD * u53 <= AD * (1 # 1000000000000000)).
  { rewrite (Qmult_comm AD u53), (Qmult_comm AD (1 # 1000000000000000)). apply Qmult_le_compat_r; assumption. }
  apply Qabs_le_iff in Et1. apply Qabs_le_iff in Et2.
  assert (T1b : Qabs TT1 <= tolq * X * (1 + u53) + tiny) by (apply Qabs_le_iff; split; nra).
  assert (T2b : Qabs TT2 <= tolq * Y * (1 + u53) + tiny) by (apply Qabs_le_iff; split; nra).
  assert (TX : tolq * X * (1 + u53) <= X * (12 # 10000000000)) by nra.
  assert (TY : tolq * Y * (1 + u53) <= Y * (12 # 10000000000)) by nra.
  apply orb_false_iff. split; apply Qle_bool_false; lra.
Qed.
