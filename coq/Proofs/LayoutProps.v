(** * Consequences of the refinement (C02): every drawn node exactly once, the border rule. *)
From Coq Require Import List Arith NArith Bool Lia ZifyBool Permutation.
From RG Require Import Model.Recipe Model.Table Model.Layout Spec.LayoutSpec
  Proofs.LayoutTiling Proofs.LayoutArith Proofs.LayoutSpecFacts Proofs.LayoutRefine.
Import ListNotations.
Local Open Scope N_scope.

(** ** Labels *)
Lemma spec_cell_label regs g : c_label (e_cell (spec_cell regs g)) = fst g.
Proof. destruct g as [lbl [[[r c] h] w]]. reflexivity. Qed.

Lemma stack_concat_labels (f : nat -> ltree -> N -> list geo) (d : nat -> ltree -> list label) hgt :
  forall l i r,
    Forall (fun x => forall i r, map fst (f i x r) = d i x) l ->
    map fst (stack_i f hgt i l r) = concat_i d i l.
Proof.
  induction l as [|x l IH]; intros i r H; [reflexivity|].
  inversion H as [|? ? Hx Hl]; subst. simpl. rewrite map_app, Hx, IH by assumption. reflexivity.
Qed.

Lemma place_labels : forall t p r c w, map fst (place p t r c w) = drawn p t.
Proof.
  induction t as [ref|ins IH|body n show IH] using ltree_ind2; intros p r c w.
  - reflexivity.
  - cbn [place drawn]. rewrite map_app. f_equal.
    apply stack_concat_labels. eapply Forall_impl; [|exact IH].
    intros x Hx i r'. apply Hx.
  - cbn [place drawn]. destruct (Nat.eqb n 1); [destruct show|].
    + cbn [map fst]. f_equal. apply IH.
    + apply IH.
    + rewrite map_app. f_equal. apply IH.
Qed.

Lemma spec_labels t : labels (spec_table t) = drawn [] t.
Proof.
  unfold labels, spec_table. cbn [t_cells]. rewrite map_map.
  rewrite <- (place_labels t [] 0 0 (width t)). apply map_ext. intros g. apply spec_cell_label.
Qed.

Theorem exactly_once t tb :
  wf t = true -> recipe_tree_to_table t = Ok tb -> labels tb = drawn [] t.
Proof.
  intros Hwf E. rewrite (layout_refines_spec t Hwf) in E. inversion E; subst. apply spec_labels.
Qed.

(** ** Borders *)
Definition e_rect (e : entry) : rect := (e_row e, e_col e, e_rows e, e_cols e).

Lemma edge_sub regs on d g :
  edge regs on d g = BSub <-> ((exists rho, In rho regs /\ on g rho = true) \/ d = BSub).
Proof.
  unfold edge. destruct (existsb (on g) regs) eqn:E.
  - apply existsb_exists in E. split; auto.
  - split; [intros ->; right; reflexivity|]. intros [(rho & Hin & Hon)|H]; [|exact H].
    assert (existsb (on g) regs = true) by (apply existsb_exists; eauto). congruence.
Qed.

Lemma edge_cases regs on d g : edge regs on d g = BSub \/ edge regs on d g = d.
Proof. unfold edge. destruct (existsb (on g) regs); auto. Qed.

Lemma spec_cell_rect regs g : e_rect (spec_cell regs g) = snd g.
Proof. destruct g as [lbl [[[r c] h] w]]. reflexivity. Qed.

(** The border rule, for every cell of the specified table. *)
Lemma spec_borders regs g :
  let e := spec_cell regs g in
  let x := e_cell e in
  let out := is_outputs (c_label x) in
  (c_bl x = BSub <-> exists rho, In rho regs /\ on_left (e_rect e) rho = true)
  /\ (c_br x = BSub <-> exists rho, In rho regs /\ on_right (e_rect e) rho = true)
  /\ (c_bt x = BSub <-> exists rho, In rho regs /\ on_top (e_rect e) rho = true)
  /\ (c_bb x = BSub <-> exists rho, In rho regs /\ on_bottom (e_rect e) rho = true)
  /\ (c_bl x = BSub \/ c_bl x = BNormal)
  /\ (c_br x = BSub \/ c_br x = if out then BNone else BNormal)
  /\ (c_bt x = BSub \/ c_bt x = if out then BNone else BNormal)
  /\ (c_bb x = BSub \/ c_bb x = if out then BNone else BNormal).
Proof.
  destruct g as [lbl [[[r c] h] w]]. unfold spec_cell, e_rect, e_row, e_col, e_rows, e_cols, e_cell.
  cbn [fst snd c_label c_rows c_cols c_bl c_br c_bt c_bb].
  repeat split; try apply edge_cases.
  all: try (intros H; apply edge_sub in H as [H|H]; [exact H|destruct (is_outputs lbl); discriminate]).
  all: intros H; apply edge_sub; left; exact H.
Qed.

Theorem borders_rule t tb e :
  wf t = true -> recipe_tree_to_table t = Ok tb -> In e (t_cells tb) ->
  let x := e_cell e in
  let regs := bordered_regions t in
  let out := is_outputs (c_label x) in
  (c_bl x = BSub <-> exists rho, In rho regs /\ on_left (e_rect e) rho = true)
  /\ (c_br x = BSub <-> exists rho, In rho regs /\ on_right (e_rect e) rho = true)
  /\ (c_bt x = BSub <-> exists rho, In rho regs /\ on_top (e_rect e) rho = true)
  /\ (c_bb x = BSub <-> exists rho, In rho regs /\ on_bottom (e_rect e) rho = true)
  /\ (c_bl x = BSub \/ c_bl x = BNormal)
  /\ (c_br x = BSub \/ c_br x = if out then BNone else BNormal)
  /\ (c_bt x = BSub \/ c_bt x = if out then BNone else BNormal)
  /\ (c_bb x = BSub \/ c_bb x = if out then BNone else BNormal).
Proof.
  intros Hwf E He. rewrite (layout_refines_spec t Hwf) in E. inversion E; subst.
  unfold spec_table in He. cbn [t_cells] in He. apply in_map_iff in He as (g & <- & _).
  apply spec_borders.
Qed.

Theorem none_only_outputs t tb e :
  wf t = true -> recipe_tree_to_table t = Ok tb -> In e (t_cells tb) ->
  let x := e_cell e in
  c_bl x <> BNone
  /\ ((c_br x = BNone \/ c_bt x = BNone \/ c_bb x = BNone) -> fst (c_label x) = KOutputs).
Proof.
  intros Hwf E He x.
  destruct (borders_rule t tb e Hwf E He) as (_ & _ & _ & _ & Hl & Hr & Ht & Hb). fold x in Hl, Hr, Ht, Hb.
  split; [destruct Hl as [-> | ->]; discriminate|].
  assert (Hout : is_outputs (c_label x) = true -> fst (c_label x) = KOutputs).
  { unfold is_outputs. destruct (fst (c_label x)); try discriminate. reflexivity. }
  intros [H|[H|H]]; apply Hout; destruct (is_outputs (c_label x)); try reflexivity;
    [destruct Hr as [Hr|Hr]|destruct Ht as [Ht|Ht]|destruct Hb as [Hb|Hb]]; congruence.
Qed.

(** The multi-output list cell: right of the body, full height, one column, open on three sides. *)
Theorem outputs_cell body n show tb :
  wf (LSub body n show) = true -> Nat.eqb n 1 = false ->
  recipe_tree_to_table (LSub body n show) = Ok tb ->
  In (0, width body, mkCell (KOutputs, []) (height body) 1 BNormal BNone BNone BNone) (t_cells tb)
  /\ t_cols tb = width body + 1 /\ t_rows tb = height body.
Proof.
  intros Hwf En E. pose proof (layout_ok _ true [] Hwf) as [E' _].
  unfold recipe_tree_to_table in E. rewrite E' in E. inversion E; subst. clear E.
  unfold wf in Hwf. simpl in Hwf. apply andb_true_iff in Hwf as [_ Hwf].
  destruct (alayout_dims body false [0%nat] Hwf) as [Hr Hc].
  cbn [alayout]. rewrite En. unfold ahjuxt, aborder, asingle.
  cbn [t_rows t_cols t_cells combine_go c_rows c_cols]. rewrite Hr, Hc.
  split; [|split; reflexivity].
  apply in_or_app. right. rewrite app_nil_r. unfold shift, shift_entry, e_row, e_col, e_cell.
  cbn [map fst snd]. left. rewrite !N.add_0_l. reflexivity.
Qed.

(** ** The drawn nodes are pairwise distinct (so "equal label lists" means "each exactly once") *)
Lemma NoDup_app_intro {A} (a b : list A) :
  NoDup a -> NoDup b -> (forall x, In x a -> ~ In x b) -> NoDup (a ++ b).
Proof.
  induction 1 as [|x a Hx Ha IH]; intros Hb Hd; [exact Hb|].
  simpl. constructor.
  - intros Hin. apply in_app_or in Hin as [Hin|Hin]; [contradiction|].
    apply (Hd x); [left; reflexivity|exact Hin].
  - apply IH; [exact Hb|]. intros y Hy. apply Hd. right. exact Hy.
Qed.

Lemma drawn_prefix : forall t p k q, In (k, q) (drawn p t) -> exists s, q = p ++ s.
Proof.
  induction t as [ref|ins IH|body n show IH] using ltree_ind2; intros p k q Hin.
  - destruct Hin as [E|[]]. inversion E; subst. exists []. rewrite app_nil_r. reflexivity.
  - cbn [drawn] in Hin. apply in_app_or in Hin as [Hin|[E|[]]].
    + revert Hin. generalize 0%nat. induction IH as [|x l Hx _ IHl]; intros i Hin; [destruct Hin|].
      simpl in Hin. apply in_app_or in Hin as [Hin|Hin].
      * apply Hx in Hin as (s & ->). exists (i :: s). rewrite <- app_assoc. reflexivity.
      * apply (IHl (S i) Hin).
    + inversion E; subst. exists []. rewrite app_nil_r. reflexivity.
  - cbn [drawn] in Hin.
    assert (Hb : In (k, q) (drawn (p ++ [0%nat]) body) -> exists s, q = p ++ s).
    { intros H. apply IH in H as (s & ->). exists (0%nat :: s). rewrite <- app_assoc. reflexivity. }
    destruct (Nat.eqb n 1); [destruct show|].
    + destruct Hin as [E|Hin]; [|auto]. inversion E; subst. exists []. rewrite app_nil_r. reflexivity.
    + auto.
    + apply in_app_or in Hin as [Hin|[E|[]]]; [auto|].
      inversion E; subst. exists []. rewrite app_nil_r. reflexivity.
Qed.

Lemma drawn_child t p i k q : In (k, q) (drawn (p ++ [i]) t) -> exists s, q = p ++ i :: s.
Proof.
  intros H. apply drawn_prefix in H as (s & ->). exists s. rewrite <- app_assoc. reflexivity.
Qed.

Lemma not_own_path (p : path) i s : p <> p ++ i :: s.
Proof.
  intros H. rewrite <- (app_nil_r p) in H at 1. apply app_inv_head in H. discriminate.
Qed.

Lemma concat_i_paths p : forall l i k q,
  In (k, q) (concat_i (fun i x => drawn (p ++ [i]) x) i l) ->
  exists j s, (i <= j)%nat /\ q = p ++ j :: s.
Proof.
  induction l as [|x l IH]; intros i k q Hin; [destruct Hin|].
  simpl in Hin. apply in_app_or in Hin as [Hin|Hin].
  - apply drawn_child in Hin as (s & ->). exists i, s. split; [lia|reflexivity].
  - apply IH in Hin as (j & s & Hj & ->). exists j, s. split; [lia|reflexivity].
Qed.

Theorem drawn_nodup : forall t p, NoDup (drawn p t).
Proof.
  induction t as [ref|ins IH|body n show IH] using ltree_ind2; intros p.
  - constructor; [intros []|constructor].
  - cbn [drawn]. apply NoDup_app_intro.
    + generalize 0%nat. induction IH as [|x l Hx _ IHl]; intros i; [constructor|].
      simpl. apply NoDup_app_intro; [apply Hx|apply IHl|].
      intros [k q] H1 H2. apply drawn_child in H1 as (s & ->).
      apply concat_i_paths in H2 as (j & s' & Hj & E).
      apply app_inv_head in E. inversion E. lia.
    + constructor; [intros []|constructor].
    + intros [k q] H1 [E|[]]. inversion E; subst.
      apply concat_i_paths in H1 as (j & s & _ & E'). exact (not_own_path _ _ _ E').
  - cbn [drawn]. destruct (Nat.eqb n 1); [destruct show|].
    + constructor; [|apply IH]. intros H. apply drawn_child in H as (s & E).
      exact (not_own_path _ _ _ E).
    + apply IH.
    + apply NoDup_app_intro; [apply IH|constructor; [intros []|constructor]|].
      intros [k q] H1 [E|[]]. inversion E; subst. apply drawn_child in H1 as (s & E').
      exact (not_own_path _ _ _ E').
Qed.

(** ** The tiling statement in unfolded form *)
Theorem tiling_unfolded (t : ltree) :
  wf t = true ->
  exists tb, recipe_tree_to_table t = Ok tb
             /\ 0 < t_rows tb /\ 0 < t_cols tb
             /\ (forall e, In e (t_cells tb) ->
                   1 <= e_rows e /\ 1 <= e_cols e
                   /\ e_row e + e_rows e <= t_rows tb /\ e_col e + e_cols e <= t_cols tb)
             /\ (forall r c, r < t_rows tb -> c < t_cols tb ->
                   count_cover (t_cells tb) r c = 1%nat).
Proof.
  intros Hwf. destruct (layout_ok t true [] Hwf) as [E (HR & HC & Hb & Hc)].
  exists (alayout true [] t). repeat split; try assumption; apply Hb; assumption.
Qed.

Theorem tiling_node (n : Model.Recipe.node) :
  wf (ltree_of_node n) = true ->
  exists tb, recipe_tree_to_table (ltree_of_node n) = Ok tb /\ TilingT tb.
Proof. intros Hwf. destruct (layout_ok _ true [] Hwf) as [E T]. eauto. Qed.
