(** * More about the emitted rows (C04): [geometry] lists every cell of the table exactly once;
    no row of a recipe table is empty. *)
From Coq Require Import List Arith NArith Bool Lia ZifyBool Permutation.
From RG Require Import Base.Str Model.Table Model.Layout Model.HtmlTable Spec.LayoutSpec
  Proofs.LayoutTiling Proofs.LayoutArith Proofs.LayoutSpecFacts Proofs.LayoutRefine
  Proofs.LayoutProps Proofs.LayoutGeometry Proofs.HtmlTablePlace.
Import ListNotations.
Local Open Scope N_scope.

Lemma nodup_counts l R C :
  (forall e, In e l -> in_bounds R C e) ->
  (forall r c, r < R -> c < C -> (count_cover l r c <= 1)%nat) -> NoDup l.
Proof.
  induction l as [|e l IH]; intros Hb Hc; [constructor|].
  pose proof (Hb e (or_introl eq_refl)) as Hbe.
  pose proof (covers_origin _ _ _ Hbe) as Ho.
  destruct (covers_bounds _ _ _ _ _ Hbe Ho) as [Hr Hcc].
  constructor.
  - intros Hin. specialize (Hc _ _ Hr Hcc). rewrite count_cover_cons, Ho in Hc.
    assert (1 <= count_cover l (e_row e) (e_col e))%nat; [|lia].
    unfold count_cover.
    assert (Hf : In e (filter (fun e0 => covers e0 (e_row e) (e_col e)) l)) by (apply filter_In; auto).
    destruct (filter (fun e0 => covers e0 (e_row e) (e_col e)) l); [destruct Hf|simpl; lia].
  - apply IH.
    + intros e' He'. apply Hb. right. exact He'.
    + intros r c Hr' Hc'. specialize (Hc r c Hr' Hc'). rewrite count_cover_cons in Hc. lia.
Qed.

Lemma tiling_nodup R C l : Tiling R C l -> NoDup l.
Proof.
  intros [Hb Hc]. apply (nodup_counts l R C Hb). intros r c Hr Hcc. rewrite Hc by assumption. lia.
Qed.

Lemma nseq_nodup n : NoDup (nseq n).
Proof.
  unfold nseq. apply FinFun.Injective_map_NoDup; [|apply seq_NoDup].
  intros a b H. lia.
Qed.

Lemma nodup_flat_map {A B} (f : A -> list B) xs :
  NoDup xs -> (forall x, In x xs -> NoDup (f x)) ->
  (forall x y e, In x xs -> In y xs -> x <> y -> In e (f x) -> ~ In e (f y)) ->
  NoDup (flat_map f xs).
Proof.
  induction 1 as [|x xs Hx Hxs IH]; intros Hf Hd; [constructor|].
  simpl. apply NoDup_app_intro.
  - apply Hf. left. reflexivity.
  - apply IH; [intros y Hy; apply Hf; right; exact Hy|].
    intros y z e Hy Hz. apply Hd; right; assumption.
  - intros e He Hin. apply in_flat_map in Hin as (y & Hy & Hey).
    apply (Hd x y e); auto; [left; reflexivity|right; exact Hy|].
    intros ->. contradiction.
Qed.

Section Complete.
  Variables (R C : N) (l : list entry).
  Hypothesis HT : Tiling R C l.

  Lemma origin_at_spec r c e :
    In e (origin_at l r c) <-> (lookup l r c = Some e /\ e_row e = r /\ e_col e = c).
  Proof.
    unfold origin_at. destruct (lookup l r c) as [e'|]; [|split; [intros []|intros [H _]; discriminate]].
    destruct ((e_row e' =? r) && (e_col e' =? c)) eqn:E.
    - split.
      + intros [<-|[]]. split; [reflexivity|lia].
      + intros (H & _). inversion H; subst. left. reflexivity.
    - split; [intros []|]. intros (H & H1 & H2). inversion H; subst. lia.
  Qed.

  Lemma all_rows_in e : In e (all_rows C l (nseq R)) <-> In e l.
  Proof.
    unfold all_rows, orow. split.
    - intros H. apply in_flat_map in H as (r & _ & H). apply in_flat_map in H as (c & _ & H).
      apply origin_at_spec in H as (H & _). unfold lookup in H. apply find_some in H. tauto.
    - intros He. pose proof (tiling_bounds _ _ _ _ HT He) as Hb.
      pose proof (covers_origin _ _ _ Hb) as Ho.
      destruct (covers_bounds _ _ _ _ _ Hb Ho) as [Hr Hc].
      apply in_flat_map. exists (e_row e). split; [apply in_nseq; exact Hr|].
      apply in_flat_map. exists (e_col e). split; [apply in_nseq; exact Hc|].
      apply origin_at_spec.
      destruct (lookup_cover l _ _ (tiling_count _ _ _ _ _ HT Hr Hc)) as (e' & Hl & He' & Hc').
      assert (e' = e) by (symmetry; exact (cover_unique l _ _ e e' (tiling_count _ _ _ _ _ HT Hr Hc) He He' Ho Hc')).
      subst e'. split; [exact Hl|split; reflexivity].
  Qed.

  Lemma all_rows_nodup : NoDup (all_rows C l (nseq R)).
  Proof.
    unfold all_rows, orow. apply nodup_flat_map; [apply nseq_nodup| |].
    - intros r _. apply nodup_flat_map; [apply nseq_nodup| |].
      + intros c _. unfold origin_at. destruct (lookup l r c) as [e|]; [|constructor].
        destruct ((e_row e =? r) && (e_col e =? c)); [|constructor].
        constructor; [intros []|constructor].
      + intros c c' e _ _ Hne H1 H2. apply origin_at_spec in H1 as (_ & _ & H1).
        apply origin_at_spec in H2 as (_ & _ & H2). congruence.
    - intros r r' e _ _ Hne H1 H2.
      apply in_flat_map in H1 as (c & _ & H1). apply in_flat_map in H2 as (c' & _ & H2).
      apply origin_at_spec in H1 as (_ & H1 & _). apply origin_at_spec in H2 as (_ & H2 & _). congruence.
  Qed.

  Lemma all_rows_perm : Permutation l (all_rows C l (nseq R)).
  Proof.
    apply NoDup_Permutation; [apply (tiling_nodup R C); exact HT|apply all_rows_nodup|].
    intros e. symmetry. apply all_rows_in.
  Qed.
End Complete.

(** [geometry t] lists every cell of the table exactly once, at its position with its extent. *)
Theorem geometry_complete t :
  TilingT t -> Permutation (map pl (t_cells t)) (snd (geometry t)).
Proof.
  destruct t as [R C l]. intros (_ & _ & HT). simpl in HT. unfold geometry. cbn [snd t_rows t_cols t_cells].
  replace (flat_map (geom_of_row (mkTable R C l)) (nseq R)) with (map pl (all_rows C l (nseq R))).
  - apply Permutation_map. apply all_rows_perm. exact HT.
  - unfold all_rows. rewrite map_flat_map. apply flat_map_ext. intros r. symmetry. apply geom_of_row_orow.
Qed.

(** ** No empty rows *)
Lemma place_col0 : forall t b p r c w,
  wf_at b t = true -> forall g, In g (place p t r c w) -> r_col (snd g) = c -> r_h (snd g) = 1.
Proof.
  induction t as [ref|ins IH|body n show IH] using ltree_ind2; intros b p r c w Hwf g Hg Hc.
  - destruct Hg as [<-|[]]. reflexivity.
  - simpl in Hwf. apply andb_true_iff in Hwf as [Hne Hwf].
    cbn [place] in Hg. apply in_app_or in Hg as [Hg|[<-|[]]].
    + apply in_stack_i in Hg as (pre & x & post & -> & Hg).
      rewrite forallb_app in Hwf. apply andb_true_iff in Hwf as [_ Hwf].
      simpl in Hwf. apply andb_true_iff in Hwf as [Hx _].
      apply Forall_app in IH as [_ IH]. pose proof (Forall_inv IH) as IHx.
      exact (IHx false _ _ _ _ Hx g Hg Hc).
    + exfalso. unfold r_col in Hc; cbn [fst snd] in Hc.
      destruct ins as [|x ins]; [discriminate|]. simpl in Hwf. apply andb_true_iff in Hwf as [Hx _].
      destruct (dims_pos x false Hx) as [_ Hw1]. cbn [map list_max fold_right] in Hc. lia.
  - simpl in Hwf. apply andb_true_iff in Hwf as [_ Hwf].
    cbn [place] in Hg. destruct (Nat.eqb n 1); [destruct show|].
    + destruct Hg as [<-|Hg]; [reflexivity|]. exact (IH false _ _ _ _ Hwf g Hg Hc).
    + exact (IH false _ _ _ _ Hwf g Hg Hc).
    + apply in_app_or in Hg as [Hg|[<-|[]]]; [exact (IH false _ _ _ _ Hwf g Hg Hc)|].
      exfalso. unfold r_col in Hc; cbn [fst snd] in Hc.
      destruct (dims_pos body false Hwf) as [_ Hw1]. lia.
Qed.

Theorem every_row_nonempty body t tb :
  wf t = true -> recipe_tree_to_table t = Ok tb ->
  forall row, In row (emit body tb) -> row <> [].
Proof.
  intros Hwf E row Hrow.
  destruct (layout_ok t true [] Hwf) as [E' (HR & HC & HT)].
  unfold recipe_tree_to_table in E. rewrite E' in E. inversion E; subst tb. clear E.
  pose proof (table_eta (alayout true [] t)) as Heta.
  set (R := t_rows (alayout true [] t)) in *. set (C := t_cols (alayout true [] t)) in *.
  set (l := t_cells (alayout true [] t)) in *.
  unfold emit in Hrow. apply in_map_iff in Hrow as (r & <- & Hr). apply in_nseq in Hr. fold R in Hr.
  rewrite <- Heta, row_cells_orow.
  destruct (lookup_cover l r 0 (tiling_count _ _ _ _ _ HT Hr HC)) as (e & Hl & He & Hc).
  (* the cell covering (r, 0) starts in column 0, hence is one row high, hence starts in row r *)
  assert (Hcol : e_col e = 0) by (unfold covers, covers_col in Hc; lia).
  assert (Hrows : e_rows e = 1).
  { assert (Hg : In (c_label (e_cell e), e_rect e) (place [] t 0 0 (width t))).
    { rewrite <- (table_geometry t (alayout true [] t) Hwf E'). apply in_map_iff. exists e. split; [reflexivity|exact He]. }
    pose proof (place_col0 t true [] 0 0 (width t) Hwf _ Hg) as H. cbn [snd] in H.
    unfold r_col, r_h, e_rect in H; cbn [fst snd] in H. auto. }
  assert (Hrow : e_row e = r) by (unfold covers, covers_row in Hc; lia).
  intros Hnil. apply map_eq_nil in Hnil. apply map_eq_nil in Hnil.
  assert (Hin : In e (orow l r (nseq C))).
  { unfold orow. apply in_flat_map. exists 0. split; [apply in_nseq; exact HC|].
    unfold origin_at. rewrite Hl. replace ((e_row e =? r) && (e_col e =? 0)) with true by lia.
    left. reflexivity. }
  rewrite Hnil in Hin. destruct Hin.
Qed.

Theorem html_realises_tree body (t : ltree) :
  wf t = true ->
  exists tb, recipe_tree_to_table t = Ok tb
             /\ TilingT tb
             /\ html_place (spans (emit body tb)) = Some (geometry tb).
Proof.
  intros Hwf. destruct (layout_ok t true [] Hwf) as [E T].
  exists (alayout true [] t). split; [exact E|]. split; [exact T|].
  apply html_realises_grid. exact T.
Qed.
