(** * Glue: everything the compiler produces has a well-formed skeleton.

    The layout theorems (Props/C02.v, Props/C04.v) assume [wf (ltree_of_node t) = true]:
    every step has an input, every sub recipe an output name, sub recipes
    with several outputs only at the root.  Here this hypothesis is discharged
    for every tree of every block that [compile_ast] returns:

    - the two sub recipe clauses follow from [constructed] (first half of
      [strictly_valid], Proofs/CompilerInvMain.v [compile_strictly_valid]);
    - "every step has an input" is a new, purely structural invariant
      ([steps_ne]) carried through pass 1 (inherited from the AST:
      [ast_steps_nonempty]) and pass 2 (substitution, deletion of roots);
    - the parser model only produces ASTs satisfying [ast_steps_nonempty]
      (the grammar's [step] rule demands a first [expr]; the left-to-right
      shorthand wraps exactly one expression);
    - scaling does not change the skeleton. *)
From Coq Require Import List ZArith NArith Bool Lia.
From RG Require Import Base.Str Base.Num Model.Recipe Model.Compiler Model.Layout Spec.Valid
  Proofs.RecipeInd Proofs.RecipeValid Proofs.CompilerExpand Proofs.CompilerInvMain.
Import ListNotations.

(** ** The predicates *)

Definition nonnil {A} (l : list A) : bool := match l with [] => false | _ => true end.

(** Every step expression of the AST has at least one input, recursively. *)
Fixpoint expr_steps_nonempty (e : aexpr) : bool :=
  match e with
  | ARef _ _ _ => true
  | AStep _ ins => nonnil ins && forallb expr_steps_nonempty ins
  end.

Definition stmt_steps_nonempty (st : astmt) : bool := expr_steps_nonempty (st_expr st).

Definition ast_steps_nonempty (p : list (list astmt)) : bool :=
  forallb (forallb stmt_steps_nonempty) p.

(** Every step of a recipe tree has at least one input - at any depth, also
    inside the sub recipes embedded in references. *)
Fixpoint steps_ne (t : node) : bool :=
  match t with
  | Ingredient _ _ => true
  | Step _ ins => nonnil ins && forallb steps_ne ins
  | Reference sr _ _ => steps_ne sr
  | SubRecipe b _ _ => steps_ne b
  end.

Lemma steps_ne_Step d ins :
  steps_ne (Step d ins) = true <-> ins <> [] /\ Forall (fun x => steps_ne x = true) ins.
Proof.
  simpl. rewrite andb_true_iff, forallb_forall, Forall_forall.
  destruct ins; simpl; split; intros [H1 H2]; split; auto; try discriminate.
Qed.

Lemma expr_ne_AStep n ins :
  expr_steps_nonempty (AStep n ins) = true <->
  ins <> [] /\ Forall (fun x => expr_steps_nonempty x = true) ins.
Proof.
  simpl. rewrite andb_true_iff, forallb_forall, Forall_forall.
  destruct ins; simpl; split; intros [H1 H2]; split; auto; try discriminate.
Qed.

(** ** From [constructed] and [steps_ne] to [wf] *)

Lemma wf_at_top_of_false t : wf_at false t = true -> wf_at true t = true.
Proof.
  destruct t as [r|ins|b n sh]; simpl; auto.
  rewrite !andb_true_iff. intros [[H1 H2] H3]. repeat split; auto.
Qed.

Lemma node_wf_at : forall t,
  constructed t = true -> steps_ne t = true ->
  wf_at true (ltree_of_node t) = true /\
  (can_be_child t = true -> wf_at false (ltree_of_node t) = true).
Proof.
  induction t as [d q|d ins IH|sr i am IH|bd ns sh IH] using node_ind'; intros Hc Hs.
  - simpl; auto.
  - apply constructed_unfold in Hc. destruct Hc as [Hp Hc].
    apply steps_ne_Step in Hs. destruct Hs as [Hne Hs].
    simpl in Hp. destruct (forallb can_be_child ins) eqn:Ecc; [|discriminate].
    rewrite forallb_forall in Ecc.
    assert (H : wf_at false (ltree_of_node (Step d ins)) = true).
    { simpl. rewrite andb_true_iff. split.
      - destruct ins; [now elim Hne|reflexivity].
      - rewrite forallb_forall. intros y Hy. apply in_map_iff in Hy. destruct Hy as (x & <- & Hx).
        rewrite Forall_forall in IH, Hc, Hs. apply (IH x Hx (Hc x Hx) (Hs x Hx)). apply Ecc, Hx. }
    split; [apply wf_at_top_of_false|intros _]; exact H.
  - simpl; auto.
  - apply constructed_unfold in Hc. destruct Hc as [Hp Hc]. simpl in Hs.
    simpl in Hp. destruct (can_be_child bd) eqn:Ecb; simpl in Hp; [|discriminate].
    destruct ns as [|n0 ns]; [discriminate|].
    destruct (IH Hc Hs) as [_ Hb]. specialize (Hb eq_refl). simpl. rewrite Hb. split.
    + reflexivity.
    + intro Hl. apply Nat.leb_le in Hl. destruct ns; [reflexivity|simpl in Hl; lia].
Qed.

Lemma node_wf t : constructed t = true -> steps_ne t = true -> wf (ltree_of_node t) = true.
Proof. intros Hc Hs. exact (proj1 (node_wf_at t Hc Hs)). Qed.

(** ** [substitute] and the deletion of roots preserve [steps_ne] *)

Lemma substitute_steps_ne old new : steps_ne new = true ->
  forall t, steps_ne t = true -> steps_ne (substitute old new t) = true.
Proof.
  intros Hn.
  induction t as [d q|d ins IH|sr i am IH|bd ns sh IH] using node_ind'; intro Ht; rewrite substitute_unfold;
    match goal with |- context [node_eqb ?x old] => destruct (node_eqb x old) end; try exact Hn.
  - exact Ht.
  - apply steps_ne_Step in Ht. destruct Ht as [Hne Hs]. apply steps_ne_Step. split.
    + destruct ins; [now elim Hne|discriminate].
    + apply Forall_map. rewrite Forall_forall in *. intros x Hx. apply IH; auto.
  - simpl in *. auto.
  - simpl in *. auto.
Qed.

Definition block_ne (trees : list node) : Prop := Forall (fun x => steps_ne x = true) trees.
Definition blocks_ne (bs : list (list node)) : Prop := Forall block_ne bs.

Lemma remove_first_ne x : forall l l', remove_first x l = Some l' -> block_ne l -> block_ne l'.
Proof.
  induction l as [|y l IH]; intros l' H Hl; simpl in H; [discriminate|].
  inversion Hl as [|? ? Hy Hr]; subst.
  destruct (node_eqb y x); [inversion H; subst; exact Hr|].
  destruct (remove_first x l) as [r|]; [|discriminate]. inversion H; subst.
  constructor; [exact Hy|]. now apply IH.
Qed.

Lemma update_nth_ne (f : list node -> option (list node)) :
  (forall l l', f l = Some l' -> block_ne l -> block_ne l') ->
  forall n bs bs', update_nth n f bs = Some bs' -> blocks_ne bs -> blocks_ne bs'.
Proof.
  intros Hf. induction n as [|n IH]; intros bs bs' H Hb; destruct bs as [|b bs]; simpl in H; try discriminate;
    inversion Hb as [|? ? Hb1 Hb2]; subst.
  - destruct (f b) as [b'|] eqn:E; [|discriminate]. inversion H; subst. constructor; [eapply Hf; eauto|exact Hb2].
  - destruct (update_nth n f bs) as [r|] eqn:E; [|discriminate]. inversion H; subst.
    constructor; [exact Hb1|]. eapply IH; eauto.
Qed.

Lemma map_substitute_ne old new bs : steps_ne new = true -> blocks_ne bs ->
  blocks_ne (map (map (substitute old new)) bs).
Proof.
  intros Hn Hb. unfold blocks_ne, block_ne in *. apply Forall_map. eapply Forall_impl; [|exact Hb].
  intros b Hbb. apply Forall_map. eapply Forall_impl; [|exact Hbb].
  intros x Hx. now apply substitute_steps_ne.
Qed.

(** ** The table invariant: every entry's sub recipe satisfies [steps_ne] *)
Definition table_ne (t : table) : Prop := Forall (fun e => steps_ne (e_sub e) = true) t.

Section Pass1.
  Variable lower : str -> str.

  Lemma lookup_In k : forall t o, lookup k t = Some o -> In o t.
  Proof.
    induction t as [|e t IH]; intros o H; simpl in H; [discriminate|].
    destruct (svs_eqb (e_key e) k); [inversion H; subst; now left|right; auto].
  Qed.

  Lemma add_ref_ne k r : forall t, table_ne t -> table_ne (add_ref k r t).
  Proof.
    induction t as [|e t IH]; intros Ht; simpl; [exact Ht|]. inversion Ht as [|? ? He Hr]; subst.
    destruct (svs_eqb (e_key e) k); constructor; simpl; try assumption. apply IH; exact Hr.
  Qed.

  Lemma compile_expr_ne blk : forall e t n t',
    expr_steps_nonempty e = true -> table_ne t ->
    compile_expr lower blk e t = ROk n t' -> steps_ne n = true /\ table_ne t'.
  Proof.
    induction e as [name amt off|name ins IH] using aexpr_ind'; intros t n t' He Ht H.
    - simpl in H. destruct (lookup (normalise_output_name lower name) t) as [o|] eqn:El.
      + inversion H; subst. split; [|now apply add_ref_ne]. simpl.
        unfold table_ne in Ht. rewrite Forall_forall in Ht. apply Ht. eapply lookup_In; eauto.
      + destruct amt as [[q|p]|]; inversion H; subst; split; auto.
    - rewrite compile_expr_AStep in H.
      destruct (compile_list lower blk ins t) as [ns t1|k o] eqn:E; [|discriminate]. inversion H; subst; clear H.
      apply expr_ne_AStep in He. destruct He as [Hne Hall].
      assert (Hl : ns <> [] /\ Forall (fun x => steps_ne x = true) ns /\ table_ne t').
      { assert (Hlen : ins <> [] -> ns <> []).
        { destruct ins as [|x l]; [intro Hx; now elim Hx|]. intros _. simpl in E.
          destruct (compile_expr lower blk x t); [|discriminate].
          destruct (compile_list lower blk l t0); [|discriminate]. inversion E; discriminate. }
        split; [auto|]. clear Hne Hlen.
        revert t ns t' Ht E Hall. induction IH as [|x l Hx Hl IHl]; intros t ns t' Ht E Hall; simpl in E.
        - inversion E; subst. split; [constructor|assumption].
        - inversion Hall as [|? ? Hax Hal]; subst.
          destruct (compile_expr lower blk x t) as [n1 t1|k o] eqn:E1; [|discriminate].
          destruct (compile_list lower blk l t1) as [ns2 t2|k o] eqn:E2; [|discriminate].
          inversion E; subst. destruct (Hx _ _ _ Hax Ht E1) as [Hn1 Ht1].
          destruct (IHl _ _ _ Ht1 E2 Hal) as [Hns Ht2]. split; [constructor|]; assumption. }
      destruct Hl as (H1 & H2 & H3). split; [|exact H3]. apply steps_ne_Step. auto.
  Qed.

  Lemma register_ne blk sub unwrap : steps_ne sub = true -> forall names offs idx t t',
    table_ne t -> register lower blk sub unwrap names offs idx t = inl (ROk tt t') -> table_ne t'.
  Proof.
    intros Hs. induction names as [|nm names IH]; intros offs idx t t' Ht H; simpl in H.
    - inversion H; subst; assumption.
    - destruct (lookup (normalise_output_name lower nm) t).
      + destruct offs as [|[o|] offs']; discriminate.
      + eapply IH; [|exact H]. apply Forall_app; split; [assumption|].
        constructor; [exact Hs|constructor].
  Qed.

  Lemma compile_stmt_ne blk st t tree t' :
    stmt_steps_nonempty st = true -> table_ne t ->
    compile_stmt lower blk st t = SOk tree t' -> steps_ne tree = true /\ table_ne t'.
  Proof.
    intros Hst Ht H. unfold compile_stmt in H.
    destruct (compile_expr lower blk (st_expr st) t) as [tr t1|k o] eqn:E; [|discriminate].
    destruct (compile_expr_ne _ _ _ _ _ Hst Ht E) as [Htr Ht1].
    destruct (map fst (st_outs st)) as [|x xs] eqn:Em.
    - destruct (infer_output_name tr) as [nm|] eqn:Ei.
      + cbv iota beta in H.
        match type of H with context [register ?a ?b ?c ?d ?e ?f ?g ?h] =>
          destruct (register a b c d e f g h) as [[[] t2|k o]|c0] eqn:Er end; try discriminate.
        inversion H; subst. split; [exact Htr|]. eapply register_ne; [|exact Ht1|exact Er]. exact Htr.
      + inversion H; subst; auto.
    - cbv iota beta in H.
      match type of H with context [register ?a ?b ?c ?d ?e ?f ?g ?h] =>
        destruct (register a b c d e f g h) as [[[] t2|k o]|c0] eqn:Er end; try discriminate.
      inversion H; subst. split; [exact Htr|]. eapply register_ne; [|exact Ht1|exact Er]. exact Htr.
  Qed.

  Lemma compile_block_ne blk : forall sts t trees t',
    forallb stmt_steps_nonempty sts = true -> table_ne t ->
    compile_block lower blk sts t = BOk trees t' -> block_ne trees /\ table_ne t'.
  Proof.
    induction sts as [|st sts IH]; intros t trees t' Hs Ht H; simpl in H.
    - inversion H; subst. split; [constructor|assumption].
    - simpl in Hs. apply andb_true_iff in Hs. destruct Hs as [Hs1 Hs2].
      destruct (compile_stmt lower blk st t) as [tr t1|k o|c0] eqn:E; try discriminate.
      destruct (compile_block lower blk sts t1) as [trs t2|k o|c0] eqn:E2; try discriminate.
      inversion H; subst. destruct (compile_stmt_ne _ _ _ _ _ Hs1 Ht E) as [Htr Ht1].
      destruct (IH _ _ _ Hs2 Ht1 E2) as [Htrs Ht2]. split; [constructor|]; assumption.
  Qed.

  Lemma pass1_from_ne : forall p blk t bs t',
    ast_steps_nonempty p = true -> table_ne t ->
    pass1_from lower blk p t = P1Ok bs t' -> blocks_ne bs /\ table_ne t'.
  Proof.
    induction p as [|b p IH]; intros blk t bs t' Hp Ht H; simpl in H.
    - inversion H; subst. split; [constructor|assumption].
    - unfold ast_steps_nonempty in Hp. simpl in Hp. apply andb_true_iff in Hp. destruct Hp as [Hp1 Hp2].
      destruct (compile_block lower blk b t) as [trs t1|k o|c0] eqn:E; try discriminate.
      destruct (pass1_from lower (S blk) p t1) as [bs2 t2|k bl o|c0] eqn:E2; try discriminate.
      inversion H; subst. destruct (compile_block_ne _ _ _ _ _ Hp1 Ht E) as [Htrs Ht1].
      destruct (IH _ _ _ _ Hp2 Ht1 E2) as [Hbs Ht2]. split; [constructor|]; assumption.
  Qed.

  Lemma pass1_ne p bs t : ast_steps_nonempty p = true ->
    pass1 lower p = P1Ok bs t -> blocks_ne bs /\ table_ne t.
  Proof. intros Hp. apply pass1_from_ne; [exact Hp|constructor]. Qed.
End Pass1.

Section Pass2.
  Variable convert : str -> str -> option num.
  Variable tol : Z * positive.
  Variable lower : str -> str.

  Lemma entry_substitute_ne old new e : steps_ne new = true ->
    steps_ne (e_sub e) = true -> steps_ne (e_sub (entry_substitute old new e)) = true.
  Proof. intros Hn He. simpl. now apply substitute_steps_ne. Qed.

  Lemma fold_step_ne i bs t bs' t' :
    blocks_ne bs -> table_ne t ->
    fold_step convert tol lower i bs t = P2Ok bs' t' -> blocks_ne bs' /\ table_ne t'.
  Proof.
    intros Hb Ht H. unfold fold_step in H.
    destruct (nth_error t i) as [e|] eqn:En; [|inversion H; subst; auto].
    destruct (can_be_inlined convert tol lower e) as [[|]|] eqn:Ec; try discriminate;
      [|inversion H; subst; auto].
    destruct (can_be_inlined_shape convert tol lower e Ec) as (body & nm & sh & rs & ri & amt & blk & Hs & Hr).
    rewrite Hs, Hr in H. rewrite <- Hs in H.
    destruct (nth_error bs (e_def_block e)); [|discriminate].
    destruct (update_nth (e_def_block e) (remove_first (e_sub e)) bs) as [bs1|] eqn:Eu; [|discriminate].
    inversion H; subst bs' t'. clear H.
    assert (He : steps_ne (e_sub e) = true).
    { unfold table_ne in Ht. rewrite Forall_forall in Ht. apply Ht. eapply nth_error_In; eauto. }
    assert (Hnew : steps_ne (if e_unwrap e then body else e_sub e) = true).
    { destruct (e_unwrap e); [|exact He]. rewrite Hs in He. exact He. }
    split.
    - apply map_substitute_ne; [exact Hnew|].
      eapply update_nth_ne; [|exact Eu|exact Hb]. intros l0 l0'. apply remove_first_ne.
    - unfold table_ne. apply Forall_map. eapply Forall_impl; [|exact Ht].
      intros e0 He0. now apply entry_substitute_ne.
  Qed.

  Lemma pass2_from_ne : forall n i bs t bs' t',
    blocks_ne bs -> table_ne t ->
    pass2_from convert tol lower i n bs t = P2Ok bs' t' -> blocks_ne bs' /\ table_ne t'.
  Proof.
    induction n as [|n IH]; intros i bs t bs' t' Hb Ht H; simpl in H.
    - inversion H; subst; auto.
    - destruct (fold_step convert tol lower i bs t) as [bs1 t1|c0] eqn:E; [|discriminate].
      destruct (fold_step_ne _ _ _ _ _ Hb Ht E) as [Hb1 Ht1].
      eapply IH; eauto.
  Qed.

  (** Every step of every compiled tree has an input. *)
  Theorem compile_steps_ne p bs :
    ast_steps_nonempty p = true ->
    compile_ast convert tol lower p = COk bs -> blocks_ne bs.
  Proof.
    unfold compile_ast. intros Hp H.
    destruct (pass1 lower p) as [bs0 t0|k b o|c0] eqn:E1; try discriminate.
    destruct (pass2 convert tol lower bs0 t0) as [bs' t'|c0] eqn:E2; try discriminate.
    destruct (recipe_ok bs'); inversion H; subst.
    destruct (pass1_ne lower p bs0 t0 Hp E1) as [Hb Ht].
    unfold pass2 in E2. exact (proj1 (pass2_from_ne _ _ _ _ _ _ Hb Ht E2)).
  Qed.

  (** ** The glue theorem *)
  Theorem compile_output_wf p bs :
    ast_steps_nonempty p = true ->
    compile_ast convert tol lower p = COk bs ->
    forall trees t, In trees bs -> In t trees -> wf (ltree_of_node t) = true.
  Proof.
    intros Hp H trees t Hb Ht.
    apply node_wf.
    - pose proof (compile_strictly_valid convert tol lower p bs H) as Hv.
      apply In_nth_error in Hb, Ht. destruct Hb as [b Hb], Ht as [j Ht].
      exact (proj1 (Hv b j trees t Hb Ht)).
    - pose proof (compile_steps_ne p bs Hp H) as Hn. unfold blocks_ne, block_ne in Hn.
      rewrite Forall_forall in Hn. specialize (Hn trees Hb). rewrite Forall_forall in Hn. exact (Hn t Ht).
  Qed.
End Pass2.

(** ** Scaling does not change the skeleton *)

Lemma map_opt_length {A B} (f : A -> option B) : forall l l', map_opt f l = Some l' -> length l' = length l.
Proof.
  induction l as [|x l IH]; intros l' H; simpl in H; [inversion H; reflexivity|].
  destruct (f x); [|discriminate]. destruct (map_opt f l) as [r|]; [|discriminate].
  inversion H; subst. simpl. f_equal. now apply IH.
Qed.

Lemma scale_node_skeleton k : forall t t', scale_node k t = Some t' -> ltree_of_node t' = ltree_of_node t.
Proof.
  induction t as [d q|d ins IH|sr i am IH|bd ns sh IH] using node_ind'; intros t' H.
  - simpl in H. destruct (scale_svs k d); [|discriminate].
    destruct q as [q0|]; [destruct (scale_quantity k q0); [|discriminate]|]; inversion H; reflexivity.
  - rewrite scale_node_Step in H. destruct (scale_svs k d); [|discriminate].
    destruct (map_opt (scale_node k) ins) as [ins'|] eqn:E; [|discriminate]. inversion H; subst; clear H. simpl. f_equal.
    revert ins' E. induction IH as [|x l Hx Hl IHl]; intros ins' E; simpl in E.
    + inversion E; reflexivity.
    + destruct (scale_node k x) as [y|] eqn:Ex; [|discriminate].
      destruct (map_opt (scale_node k) l) as [r|]; [|discriminate]. inversion E; subst. simpl.
      f_equal; [now apply Hx|now apply IHl].
  - simpl in H. destruct (scale_node k sr); [|discriminate]. destruct (scale_amount k am); [|discriminate].
    inversion H; reflexivity.
  - simpl in H. destruct (scale_node k bd) as [b'|] eqn:Eb; [|discriminate].
    destruct (map_opt (scale_svs k) ns) as [ns'|] eqn:En; [|discriminate]. inversion H; subst. simpl.
    rewrite (IH b' eq_refl), (map_opt_length _ _ _ En). reflexivity.
Qed.

Lemma scale_node_wf k t t' : scale_node k t = Some t' ->
  wf (ltree_of_node t) = true -> wf (ltree_of_node t') = true.
Proof. intros H Hw. now rewrite (scale_node_skeleton k t t' H). Qed.

Lemma map_opt_In {A B} (f : A -> option B) : forall l l' y, map_opt f l = Some l' -> In y l' ->
  exists x, In x l /\ f x = Some y.
Proof.
  induction l as [|x l IH]; intros l' y H Hy; simpl in H; [inversion H; subst; contradiction|].
  destruct (f x) as [fx|] eqn:Ex; [|discriminate]. destruct (map_opt f l) as [r|]; [|discriminate].
  inversion H; subst. destruct Hy as [<-|Hy].
  - exists x. split; [now left|exact Ex].
  - destruct (IH r y eq_refl Hy) as (x0 & Hx0 & Hf). exists x0. split; [now right|exact Hf].
Qed.

Lemma scale_blocks_wf k bs bs' : scale_blocks k bs = Some bs' ->
  (forall trees t, In trees bs -> In t trees -> wf (ltree_of_node t) = true) ->
  forall trees' t', In trees' bs' -> In t' trees' -> wf (ltree_of_node t') = true.
Proof.
  intros H Hw trees' t' Hb Ht. unfold scale_blocks in H.
  destruct (map_opt_In _ _ _ _ H Hb) as (trees & Hin & Htr).
  destruct (map_opt_In _ _ _ _ Htr Ht) as (t & Hint & Hsc).
  eapply scale_node_wf; [exact Hsc|]. eapply Hw; eauto.
Qed.

(** ** The parser model only produces ASTs whose steps have inputs *)
From RG Require Import Model.Parser.

Section ParserShape.
  Local Notation P := (fun e : aexpr => expr_steps_nonempty e = true).

  Lemma p_reference_ne fuel s e s' : p_reference fuel s = Got e s' -> P e.
  Proof.
    unfold p_reference. intro H.
    destruct (p_amount fuel s) as [a s1| |].
    - destruct (skip_hsp s1) as [w s2]. destruct (p_name fuel s2) as [[nm o] s3| |]; try discriminate.
      inversion H; reflexivity.
    - destruct (p_name fuel s) as [[nm o] s3| |]; try discriminate. inversion H; reflexivity.
    - discriminate.
  Qed.

  Section WithE.
    Variable E : st -> Parser.res aexpr.
    Hypothesis HE : forall s e s', E s = Got e s' -> P e.

    Lemma step_more_ne : forall k s es s', step_more E k s = Got es s' -> Forall P es.
    Proof.
      induction k as [|k IH]; intros s es s' H; simpl in H; [discriminate|].
      destruct (eat 44 (skip_sp s)) as [s1|]; [|inversion H; constructor].
      destruct (E (skip_sp s1)) as [e s2| |] eqn:Ee; [|inversion H; constructor|discriminate].
      destruct (step_more E k s2) as [es2 s3| |] eqn:Em; try discriminate.
      inversion H; subst. constructor; [eapply HE; eauto|eapply IH; eauto].
    Qed.

    Lemma p_step_ne fuel s e s' : p_step E fuel s = Got e s' -> P e.
    Proof.
      unfold p_step. intro H.
      destruct (p_name fuel s) as [[nm o] s1| |]; try discriminate.
      destruct (skip_hsp s1) as [w s2]. destruct (eat 40 s2) as [s3|]; [|discriminate].
      destruct (E (skip_sp s3)) as [e0 s4| |] eqn:Ee; try discriminate.
      destruct (step_more E fuel s4) as [es s5| |] eqn:Em; try discriminate.
      match type of H with context [eat 41 ?x] => destruct (eat 41 x) as [s7|] end; [|discriminate].
      inversion H; subst. apply expr_ne_AStep. split; [discriminate|].
      constructor; [eapply HE; eauto|eapply step_more_ne; eauto].
    Qed.
  End WithE.

  Lemma ltr_more_ne : forall k fuel acc s e s', P acc -> ltr_more k fuel acc s = Got e s' -> P e.
  Proof.
    induction k as [|k IH]; intros fuel acc s e s' Ha H; simpl in H; [discriminate|].
    destruct (eat 44 (snd (skip_hsp s))) as [s1|]; [|inversion H; subst; exact Ha].
    destruct (p_name fuel (snd (skip_hsp s1))) as [[nm o] s2| |]; [|inversion H; subst; exact Ha|discriminate].
    eapply IH; [|exact H]. simpl. now rewrite Ha.
  Qed.

  Lemma p_ltr_with_ne E0 fuel s e s' :
    (forall s e s', E0 s = Got e s' -> P e) -> p_ltr_with E0 fuel s = Got e s' -> P e.
  Proof.
    intros HE H. unfold p_ltr_with in H. destruct (E0 s) as [e0 s1| |] eqn:Ee; try discriminate.
    eapply ltr_more_ne; [|exact H]. eapply HE; eauto.
  Qed.

  Lemma p_expr_ne : forall fuel s e s', p_expr fuel s = Got e s' -> P e.
  Proof.
    induction fuel as [|f IH]; intros s e s' H; simpl in H; [discriminate|].
    destruct (p_step (p_expr f) f s) as [e1 s1| |] eqn:Es.
    - inversion H; subst. eapply p_step_ne; [|exact Es]. exact IH.
    - destruct (p_reference f s) as [e1 s1| |] eqn:Er.
      + inversion H; subst. eapply p_reference_ne; eauto.
      + destruct (eat 40 s) as [s1|]; [|discriminate].
        destruct (p_ltr_with (p_expr f) f (skip_sp s1)) as [e2 s2| |] eqn:El; try discriminate.
        destruct (eat 41 (skip_sp s2)); [|discriminate]. inversion H; subst.
        eapply p_ltr_with_ne; [|exact El]. exact IH.
      + discriminate.
    - discriminate.
  Qed.

  Lemma p_stmt_ne fuel s a s' : p_stmt fuel s = Got a s' -> stmt_steps_nonempty a = true.
  Proof.
    unfold p_stmt. intro H. destruct (p_target fuel s) as [[os named] s1| |]; try discriminate.
    destruct (p_ltr fuel s1) as [e s2| |] eqn:El; try discriminate.
    destruct (sc_eol (rest s2)) as [[m r]|]; [|discriminate]. inversion H; subst.
    unfold stmt_steps_nonempty; simpl. unfold p_ltr in El.
    eapply p_ltr_with_ne; [|exact El]. apply p_expr_ne.
  Qed.

  Lemma stmts_more_ne : forall k fuel s l s', stmts_more k fuel s = Got l s' ->
    forallb stmt_steps_nonempty l = true.
  Proof.
    induction k as [|k IH]; intros fuel s l s' H; simpl in H; [discriminate|].
    destruct (p_stmt fuel s) as [a s1| |] eqn:Ea; [|inversion H; reflexivity|discriminate].
    destruct (stmts_more k fuel s1) as [l2 s2| |] eqn:Em; try discriminate.
    inversion H; subst. simpl. rewrite (p_stmt_ne _ _ _ _ Ea). eapply IH; eauto.
  Qed.

  Lemma p_recipe_ne fuel s l s' : p_recipe fuel s = Got l s' -> forallb stmt_steps_nonempty l = true.
  Proof.
    unfold p_recipe. intro H. destruct (stmts_more fuel fuel (skip_sp s)) as [l0 s1| |] eqn:Em; try discriminate.
    destruct l0 as [|a l0]; [discriminate|]. destruct (at_eof (rest s1)); [|discriminate].
    inversion H; subst. eapply stmts_more_ne; eauto.
  Qed.

  Lemma parse_with_ne fuel x l : parse_with fuel x = POk l -> forallb stmt_steps_nonempty l = true.
  Proof.
    unfold parse_with. intro H. destruct (p_recipe fuel (mkSt x 0 None)) as [l0 s1| |] eqn:Ep; try discriminate.
    destruct (bad s1); [discriminate|]. inversion H; subst. eapply p_recipe_ne; eauto.
  Qed.

  (** One block of source text. *)
  Theorem parse_steps_nonempty x l : parse x = POk l -> forallb stmt_steps_nonempty l = true.
  Proof. apply parse_with_ne. Qed.

  (** All blocks. *)
  Theorem parse_blocks_steps_nonempty : forall srcs i p,
    parse_blocks i srcs = inr p -> ast_steps_nonempty p = true.
  Proof.
    induction srcs as [|x srcs IH]; intros i p H; simpl in H.
    - inversion H; reflexivity.
    - destruct (parse x) as [a| | |] eqn:Ex; try discriminate.
      destruct (parse_blocks (S i) srcs) as [e|l] eqn:Eb; [discriminate|]. inversion H; subst.
      unfold ast_steps_nonempty. simpl. rewrite (parse_steps_nonempty _ _ Ex). exact (IH _ _ Eb).
  Qed.
End ParserShape.

(** ** Source text -> parse -> compile: every tree is drawable *)
Theorem compile_src_output_wf srcs bs :
  compile_src srcs = SrcOk bs ->
  forall trees t, In trees bs -> In t trees -> wf (ltree_of_node t) = true.
Proof.
  unfold compile_src, compile_src_with. intro H.
  destruct (parse_blocks 0 srcs) as [e|p] eqn:Ep.
  - subst e. exfalso. revert Ep. generalize 0%nat. induction srcs as [|x r IH]; intros i Ep; simpl in Ep; [discriminate|].
    destruct (parse x); try discriminate. destruct (parse_blocks (S i) r) eqn:E2; [|discriminate].
    inversion Ep; subst. eapply IH; eauto.
  - destruct (CompilerInst.compile_ast_inst p) as [bs0|k b o|c] eqn:Ec; try discriminate.
    inversion H; subst. unfold CompilerInst.compile_ast_inst in Ec.
    eapply compile_output_wf; [|exact Ec]. eapply parse_blocks_steps_nonempty; eauto.
Qed.

(** ** Composition with the layout and HTML theorems *)
From RG Require Import Model.Table Model.HtmlTable Spec.LayoutSpec
  Proofs.LayoutRefine Proofs.LayoutProps Proofs.LayoutReadback Proofs.HtmlTableMore.

(** What C02 (and C04's grid theorem) say about the table of one tree, with
    the table named: it is the specified table. *)
Definition drawable (lt : ltree) : Prop :=
  recipe_tree_to_table lt = Ok (spec_table lt)
  /\ TilingT (spec_table lt)
  /\ labels (spec_table lt) = drawn [] lt
  /\ decode_table (S (tree_size lt)) (erase (spec_table lt)) = Some (canon CFree lt)
  /\ forall body, html_place (spans (emit body (spec_table lt))) = Some (geometry (spec_table lt)).

Lemma wf_drawable lt : wf lt = true -> drawable lt.
Proof.
  intro Hwf. pose proof (layout_refines_spec lt Hwf) as E. unfold drawable.
  split; [exact E|]. split.
  { destruct (html_realises_tree (fun _ => []) lt Hwf) as (tb & E' & T & _).
    rewrite E in E'. inversion E'; subst. exact T. }
  split; [exact (exactly_once lt _ Hwf E)|].
  split; [exact (readback_table lt _ Hwf E)|].
  intro body. destruct (html_realises_tree body lt Hwf) as (tb & E' & _ & Hh).
  rewrite E in E'. inversion E'; subst. exact Hh.
Qed.

Theorem compiled_trees_drawable convert tol lower p bs :
  ast_steps_nonempty p = true ->
  compile_ast convert tol lower p = COk bs ->
  forall trees t, In trees bs -> In t trees -> drawable (ltree_of_node t).
Proof.
  intros Hp H trees t Hb Ht. apply wf_drawable. eapply compile_output_wf; eauto.
Qed.

(** After scaling: the skeleton, hence the whole table (positions, extents,
    borders, labels), is the one of the unscaled tree. *)
Theorem compiled_scaled_trees_drawable convert tol lower p bs k bs' :
  ast_steps_nonempty p = true ->
  compile_ast convert tol lower p = COk bs ->
  scale_blocks k bs = Some bs' ->
  forall trees' t', In trees' bs' -> In t' trees' ->
    wf (ltree_of_node t') = true /\ drawable (ltree_of_node t').
Proof.
  intros Hp H Hs trees' t' Hb Ht.
  assert (Hw : wf (ltree_of_node t') = true).
  { eapply scale_blocks_wf; [exact Hs| |exact Hb|exact Ht]. eapply compile_output_wf; eauto. }
  split; [exact Hw|apply wf_drawable; exact Hw].
Qed.

Theorem compile_src_trees_drawable srcs bs :
  compile_src srcs = SrcOk bs ->
  forall trees t, In trees bs -> In t trees -> drawable (ltree_of_node t).
Proof.
  intros H trees t Hb Ht. apply wf_drawable. eapply compile_src_output_wf; eauto.
Qed.
