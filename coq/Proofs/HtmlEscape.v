(** * C10: html.escape and quoteattr are inert for the tokenizer
    specification; anchor ids only contain [A-Za-z0-9._-]. *)
From Coq Require Import List NArith Bool Lia.
From RG Require Import Base.Str Base.Num Model.Recipe Model.Units Model.Html Model.HtmlTok.
Import ListNotations.
Open Scope N_scope.

(** ** [run] over a concatenation *)
Lemma run_app st a : forall b, run st (a ++ b) = snd (steps st a) ++ run (fst (steps st a)) b.
Proof.
  revert st. induction a as [|c a IH]; intros st b; [reflexivity|].
  cbn [app run steps]. destruct (step st c) as [st' out]. rewrite IH.
  destruct (steps st' a) as [st'' out']. cbn [fst snd]. rewrite app_assoc. reflexivity.
Qed.

Lemma run_steps st a st' b : steps st a = (st', []) -> run st (a ++ b) = run st' b.
Proof. intro H. rewrite run_app, H. reflexivity. Qed.

(** ** [replace1] is a per-character map *)
Lemma replace1_app c r a b : replace1 c r (a ++ b) = replace1 c r a ++ replace1 c r b.
Proof. apply flat_map_app. Qed.

Lemma replace1_flat_map c r (f : N -> str) x :
  replace1 c r (flat_map f x) = flat_map (fun d => replace1 c r (f d)) x.
Proof.
  induction x as [|d x IH]; [reflexivity|]. cbn [flat_map]. rewrite replace1_app, IH. reflexivity.
Qed.

Lemma replace1_as_flat_map c r x : replace1 c r x = flat_map (fun d => replace1 c r [d]) x.
Proof.
  induction x as [|d x IH]; [reflexivity|]. cbn [flat_map]. rewrite <- IH.
  change (d :: x) with ([d] ++ x). apply replace1_app.
Qed.

Lemma replace1_single_ne c r d : d <> c -> replace1 c r [d] = [d].
Proof. intro H. unfold replace1. cbn [flat_map]. apply N.eqb_neq in H. rewrite H. reflexivity. Qed.

Lemma html_escape_app a b : html_escape (a ++ b) = html_escape a ++ html_escape b.
Proof. unfold html_escape. rewrite !replace1_app. reflexivity. Qed.

Lemma sax_escape_app a b : sax_escape (a ++ b) = sax_escape a ++ sax_escape b.
Proof. unfold sax_escape. rewrite !replace1_app. reflexivity. Qed.

Lemma html_escape_cons c x : html_escape (c :: x) = html_escape [c] ++ html_escape x.
Proof. change (c :: x) with ([c] ++ x). apply html_escape_app. Qed.

Lemma sax_escape_cons c x : sax_escape (c :: x) = sax_escape [c] ++ sax_escape x.
Proof. change (c :: x) with ([c] ++ x). apply sax_escape_app. Qed.

Lemma html_escape_plain c : c <> 38 -> c <> 60 -> c <> 62 -> c <> 34 -> c <> 39 -> html_escape [c] = [c].
Proof.
  intros. unfold html_escape. rewrite !replace1_single_ne by assumption. reflexivity.
Qed.

Lemma sax_escape_plain c : c <> 38 -> c <> 60 -> c <> 62 -> c <> 10 -> c <> 13 -> c <> 9 -> sax_escape [c] = [c].
Proof.
  intros. unfold sax_escape. rewrite !replace1_single_ne by assumption. reflexivity.
Qed.

(** ** Text: one escaped character extends the text being gathered *)
Lemma escape_char_data c acc : steps (SData acc) (html_escape [c]) = (SData (acc ++ [c]), []).
Proof.
  destruct (N.eq_dec c 38) as [->|N1]; [reflexivity|].
  destruct (N.eq_dec c 60) as [->|N2]; [reflexivity|].
  destruct (N.eq_dec c 62) as [->|N3]; [reflexivity|].
  destruct (N.eq_dec c 34) as [->|N4]; [reflexivity|].
  destruct (N.eq_dec c 39) as [->|N5]; [reflexivity|].
  rewrite html_escape_plain by assumption. cbn [steps step].
  apply N.eqb_neq in N1, N2. rewrite N1, N2. reflexivity.
Qed.

Theorem escape_inert_run x : forall acc rest,
  run (SData acc) (html_escape x ++ rest) = run (SData (acc ++ x)) rest.
Proof.
  induction x as [|c x IH]; intros acc rest.
  - rewrite app_nil_r. reflexivity.
  - rewrite html_escape_cons, <- app_assoc.
    rewrite (run_steps _ _ _ _ (escape_char_data c acc)). rewrite IH, <- app_assoc. reflexivity.
Qed.

Lemma tokenize_lt r : tokenize (60 :: r) = run STagOpen r.
Proof. reflexivity. Qed.

Theorem escape_inert_alone x : tokenize (html_escape x) = flush x.
Proof.
  unfold tokenize. rewrite <- (app_nil_r (html_escape x)), escape_inert_run. reflexivity.
Qed.

Theorem escape_inert_before_tag x r :
  tokenize (html_escape x ++ 60 :: r) = flush x ++ tokenize (60 :: r).
Proof. unfold tokenize. rewrite escape_inert_run. reflexivity. Qed.

(** the same with the [merge_text] normalisation, for any continuation *)
Lemma merge_text_nil_text R : merge_text (Text [] :: R) = merge_text R.
Proof. cbn [merge_text]. destruct (merge_text R) as [|[| |y|] r]; reflexivity. Qed.

Lemma merge_text_two a b R : merge_text (Text a :: Text b :: R) = merge_text (Text (a ++ b) :: R).
Proof.
  cbn [merge_text]. destruct (merge_text R) as [|[n at' sc|n|y|] r]; cbn.
  - destruct b as [|b0 b']; [rewrite app_nil_r; reflexivity|].
    destruct a; reflexivity.
  - destruct b as [|b0 b']; [rewrite app_nil_r; reflexivity|].
    destruct a; reflexivity.
  - destruct b as [|b0 b']; [rewrite app_nil_r; reflexivity|].
    destruct a; reflexivity.
  - rewrite app_assoc. reflexivity.
  - destruct b as [|b0 b']; [rewrite app_nil_r; reflexivity|].
    destruct a; reflexivity.
Qed.

Lemma merge_text_flush a R : merge_text (flush a ++ R) = merge_text (Text a :: R).
Proof. destruct a; [rewrite merge_text_nil_text; reflexivity | reflexivity]. Qed.

Lemma merge_text_cons_congr tk R R' : merge_text R = merge_text R' -> merge_text (tk :: R) = merge_text (tk :: R').
Proof. intro H. destruct tk; cbn [merge_text]; rewrite H; reflexivity. Qed.

Lemma merge_flush2 acc a R : merge_text (flush (acc ++ a) ++ R) = merge_text (Text acc :: flush a ++ R).
Proof.
  rewrite merge_text_flush, <- merge_text_two. apply merge_text_cons_congr.
  symmetry. apply merge_text_flush.
Qed.

(** states in which text is being gathered *)
Definition with_acc (acc : str) (st : state) : option state :=
  match st with
  | SData a => Some (SData (acc ++ a))
  | SRef (RData a) buf => Some (SRef (RData (acc ++ a)) buf)
  | _ => None
  end.

Lemma run_data_acc y : forall acc st st',
  with_acc acc st = Some st' -> merge_text (run st' y) = merge_text (Text acc :: run st y).
Proof.
  induction y as [|c y IH]; intros acc st st' H.
  - destruct st as [a| | | | | | | | | | | | |[a|] buf|]; try discriminate; inversion H; subst; cbn [run finish].
    + pose proof (merge_flush2 acc a []) as E. rewrite !app_nil_r in E. exact E.
    + cbn [pending]. apply merge_flush2.
  - destruct st as [a| | | | | | | | | | | | |[a|] buf|]; try discriminate; inversion H; subst; cbn [run step].
    + destruct (c =? 60) eqn:E1.
      * apply merge_flush2.
      * destruct (c =? 38) eqn:E2; cbn [app].
        -- apply (IH acc (SRef (RData a) [])). reflexivity.
        -- rewrite <- app_assoc. apply (IH acc (SData (a ++ [c]))). reflexivity.
    + destruct (c =? 59) eqn:E1.
      * destruct (decode_ref buf) as [d|]; cbn [app resume run].
        -- rewrite <- app_assoc. apply (IH acc (SData (a ++ [d]))). reflexivity.
        -- cbn [pending]. rewrite <- !app_assoc. apply merge_flush2.
      * destruct (is_alnum c || (c =? 35)); cbn [app].
        -- apply (IH acc (SRef (RData a) (buf ++ [c]))). reflexivity.
        -- cbn [pending]. rewrite <- !app_assoc. apply merge_flush2.
Qed.

Theorem escape_inert_merge x rest :
  merge_text (tokenize (html_escape x ++ rest)) = merge_text (Text x :: tokenize rest).
Proof.
  unfold tokenize. rewrite escape_inert_run. cbn [app].
  apply (run_data_acc rest x (SData [])). cbn [with_acc]. rewrite app_nil_r. reflexivity.
Qed.
