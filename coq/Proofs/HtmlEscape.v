(** * C10: html.escape and quoteattr are inert for the tokenizer
    specification; anchor ids only contain [A-Za-z0-9._-]. *)
From Coq Require Import List NArith Bool Lia String.
From RG Require Import Base.Str Base.Num Model.Recipe Model.Units Model.Html Model.HtmlTok.
Import ListNotations.
Open Scope N_scope.

(** ** [run] over a concatenation *)
Lemma run_app st a : forall b, run st (a ++ b) = snd (steps st a) ++ run (fst (steps st a)) b.
Proof.
  revert st. induction a as [|c a IH]; intros st b; [reflexivity|].
  cbn [app run steps]. destruct (step st c) as [st' out]. rewrite IH.
  destruct (steps st' a) as [st'' out']. cbn [fst snd]. rewrite app_assoc. reflexivity.
Qed.

Lemma run_steps st a st' b : steps st a = (st', []) -> run st (a ++ b) = run st' b.
Proof. intro H. rewrite run_app, H. reflexivity. Qed.

(** ** [replace1] is a per-character map *)
Lemma replace1_app c r a b : replace1 c r (a ++ b) = replace1 c r a ++ replace1 c r b.
Proof. apply flat_map_app. Qed.

Lemma replace1_flat_map c r (f : N -> str) x :
  replace1 c r (flat_map f x) = flat_map (fun d => replace1 c r (f d)) x.
Proof.
  induction x as [|d x IH]; [reflexivity|]. cbn [flat_map]. rewrite replace1_app, IH. reflexivity.
Qed.

Lemma replace1_as_flat_map c r x : replace1 c r x = flat_map (fun d => replace1 c r [d]) x.
Proof.
  induction x as [|d x IH]; [reflexivity|]. cbn [flat_map]. rewrite <- IH.
  change (d :: x) with ([d] ++ x). apply replace1_app.
Qed.

Lemma replace1_single_ne c r d : d <> c -> replace1 c r [d] = [d].
Proof. intro H. unfold replace1. cbn [flat_map]. apply N.eqb_neq in H. rewrite H. reflexivity. Qed.

Lemma html_escape_app a b : html_escape (a ++ b) = html_escape a ++ html_escape b.
Proof. unfold html_escape. rewrite !replace1_app. reflexivity. Qed.

Lemma sax_escape_app a b : sax_escape (a ++ b) = sax_escape a ++ sax_escape b.
Proof. unfold sax_escape. rewrite !replace1_app. reflexivity. Qed.

Lemma html_escape_cons c x : html_escape (c :: x) = html_escape [c] ++ html_escape x.
Proof. change (c :: x) with ([c] ++ x). apply html_escape_app. Qed.

Lemma sax_escape_cons c x : sax_escape (c :: x) = sax_escape [c] ++ sax_escape x.
Proof. change (c :: x) with ([c] ++ x). apply sax_escape_app. Qed.

Lemma html_escape_plain c : c <> 38 -> c <> 60 -> c <> 62 -> c <> 34 -> c <> 39 -> html_escape [c] = [c].
Proof.
  intros. unfold html_escape. rewrite !replace1_single_ne by assumption. reflexivity.
Qed.

Lemma sax_escape_plain c : c <> 38 -> c <> 60 -> c <> 62 -> c <> 10 -> c <> 13 -> c <> 9 -> sax_escape [c] = [c].
Proof.
  intros. unfold sax_escape. rewrite !replace1_single_ne by assumption. reflexivity.
Qed.

(** ** Text: one escaped character extends the text being gathered *)
Lemma escape_char_data c acc : steps (SData acc) (html_escape [c]) = (SData (acc ++ [c]), []).
Proof.
  destruct (N.eq_dec c 38) as [->|N1]; [reflexivity|].
  destruct (N.eq_dec c 60) as [->|N2]; [reflexivity|].
  destruct (N.eq_dec c 62) as [->|N3]; [reflexivity|].
  destruct (N.eq_dec c 34) as [->|N4]; [reflexivity|].
  destruct (N.eq_dec c 39) as [->|N5]; [reflexivity|].
  rewrite html_escape_plain by assumption. cbn [steps step].
  apply N.eqb_neq in N1, N2. rewrite N1, N2. reflexivity.
Qed.

Theorem escape_inert_run x : forall acc rest,
  run (SData acc) (html_escape x ++ rest) = run (SData (acc ++ x)) rest.
Proof.
  induction x as [|c x IH]; intros acc rest.
  - rewrite app_nil_r. reflexivity.
  - rewrite html_escape_cons, <- app_assoc.
    rewrite (run_steps _ _ _ _ (escape_char_data c acc)). rewrite IH, <- app_assoc. reflexivity.
Qed.

Lemma tokenize_lt r : tokenize (60 :: r) = run STagOpen r.
Proof. reflexivity. Qed.

Theorem escape_inert_alone x : tokenize (html_escape x) = flush x.
Proof.
  unfold tokenize. rewrite <- (app_nil_r (html_escape x)), escape_inert_run. reflexivity.
Qed.

Theorem escape_inert_before_tag x r :
  tokenize (html_escape x ++ 60 :: r) = flush x ++ tokenize (60 :: r).
Proof. unfold tokenize. rewrite escape_inert_run. reflexivity. Qed.

(** the same with the [merge_text] normalisation, for any continuation *)
Lemma merge_text_nil_text R : merge_text (Text [] :: R) = merge_text R.
Proof. cbn [merge_text]. destruct (merge_text R) as [|[| |y|] r]; reflexivity. Qed.

Lemma merge_text_two a b R : merge_text (Text a :: Text b :: R) = merge_text (Text (a ++ b) :: R).
Proof.
  cbn [merge_text]. destruct (merge_text R) as [|[n at' sc|n|y|] r]; cbn.
  - destruct b as [|b0 b']; [rewrite app_nil_r; reflexivity|].
    destruct a; reflexivity.
  - destruct b as [|b0 b']; [rewrite app_nil_r; reflexivity|].
    destruct a; reflexivity.
  - destruct b as [|b0 b']; [rewrite app_nil_r; reflexivity|].
    destruct a; reflexivity.
  - rewrite app_assoc. reflexivity.
  - destruct b as [|b0 b']; [rewrite app_nil_r; reflexivity|].
    destruct a; reflexivity.
Qed.

Lemma merge_text_flush a R : merge_text (flush a ++ R) = merge_text (Text a :: R).
Proof. destruct a; [rewrite merge_text_nil_text; reflexivity | reflexivity]. Qed.

Lemma merge_text_cons_congr tk R R' : merge_text R = merge_text R' -> merge_text (tk :: R) = merge_text (tk :: R').
Proof. intro H. destruct tk; cbn [merge_text]; rewrite H; reflexivity. Qed.

Lemma merge_flush2 acc a R : merge_text (flush (acc ++ a) ++ R) = merge_text (Text acc :: flush a ++ R).
Proof.
  rewrite merge_text_flush, <- merge_text_two. apply merge_text_cons_congr.
  symmetry. apply merge_text_flush.
Qed.

(** states in which text is being gathered *)
Definition with_acc (acc : str) (st : state) : option state :=
  match st with
  | SData a => Some (SData (acc ++ a))
  | SRef (RData a) buf => Some (SRef (RData (acc ++ a)) buf)
  | _ => None
  end.

Lemma run_data_acc y : forall acc st st',
  with_acc acc st = Some st' -> merge_text (run st' y) = merge_text (Text acc :: run st y).
Proof.
  induction y as [|c y IH]; intros acc st st' H.
  - destruct st as [a| | | | | | | | | | | | |[a|] buf|]; try discriminate; inversion H; subst; cbn [run finish].
    + pose proof (merge_flush2 acc a []) as E. rewrite !app_nil_r in E. exact E.
    + cbn [pending]. apply merge_flush2.
  - destruct st as [a| | | | | | | | | | | | |[a|] buf|]; try discriminate; inversion H; subst; cbn [run step].
    + destruct (c =? 60) eqn:E1.
      * apply merge_flush2.
      * destruct (c =? 38) eqn:E2; cbn [app].
        -- apply (IH acc (SRef (RData a) [])). reflexivity.
        -- rewrite <- app_assoc. apply (IH acc (SData (a ++ [c]))). reflexivity.
    + destruct (c =? 59) eqn:E1.
      * destruct (decode_ref buf) as [d|]; cbn [app resume run].
        -- rewrite <- app_assoc. apply (IH acc (SData (a ++ [d]))). reflexivity.
        -- cbn [pending]. rewrite <- !app_assoc. apply merge_flush2.
      * destruct (is_alnum c || (c =? 35)); cbn [app].
        -- apply (IH acc (SRef (RData a) (buf ++ [c]))). reflexivity.
        -- cbn [pending]. rewrite <- !app_assoc. apply merge_flush2.
Qed.

Theorem escape_inert_merge x rest :
  merge_text (tokenize (html_escape x ++ rest)) = merge_text (Text x :: tokenize rest).
Proof.
  unfold tokenize. rewrite escape_inert_run. cbn [app].
  apply (run_data_acc rest x (SData [])). cbn [with_acc]. rewrite app_nil_r. reflexivity.
Qed.

(** ** Attribute values *)
Section Attr.
Variables (tag : str) (attrs : list (str * str)) (an : str).

Lemma attr_flat dq (e : N -> str) v :
  (forall c, In c v -> forall acc,
     steps (SAttrValue dq tag attrs an acc) (e c) = (SAttrValue dq tag attrs an (acc ++ [c]), [])) ->
  forall acc y, run (SAttrValue dq tag attrs an acc) (flat_map e v ++ y)
                = run (SAttrValue dq tag attrs an (acc ++ v)) y.
Proof.
  induction v as [|c v IH]; intros H acc y.
  - rewrite app_nil_r. reflexivity.
  - cbn [flat_map]. rewrite <- app_assoc. rewrite (run_steps _ _ _ _ (H c (or_introl eq_refl) acc)).
    rewrite IH by (intros; apply H; right; assumption). rewrite <- app_assoc. reflexivity.
Qed.

Lemma sax_char (dq : bool) (c : N) acc : c <> (if dq then 34 else 39) -> c <> 0 ->
  steps (SAttrValue dq tag attrs an acc) (sax_escape [c]) = (SAttrValue dq tag attrs an (acc ++ [c]), []).
Proof.
  intros Nq N0.
  destruct (N.eq_dec c 38) as [->|N1]; [destruct dq; reflexivity|].
  destruct (N.eq_dec c 60) as [->|N2]; [destruct dq; reflexivity|].
  destruct (N.eq_dec c 62) as [->|N3]; [destruct dq; reflexivity|].
  destruct (N.eq_dec c 10) as [->|N4]; [destruct dq; reflexivity|].
  destruct (N.eq_dec c 13) as [->|N5]; [destruct dq; reflexivity|].
  destruct (N.eq_dec c 9) as [->|N6]; [destruct dq; reflexivity|].
  rewrite sax_escape_plain by assumption. cbn [steps step].
  apply N.eqb_neq in Nq, N1, N0. rewrite Nq, N1, N0. reflexivity.
Qed.

Definition quot_escape (c : N) : str := replace1 34 [38; 113; 117; 111; 116; 59] (sax_escape [c]).

Lemma quot_char c acc : c <> 0 ->
  steps (SAttrValue true tag attrs an acc) (quot_escape c) = (SAttrValue true tag attrs an (acc ++ [c]), []).
Proof.
  intros N0. unfold quot_escape.
  destruct (N.eq_dec c 34) as [->|Nq]; [reflexivity|].
  destruct (N.eq_dec c 38) as [->|N1]; [reflexivity|].
  destruct (N.eq_dec c 60) as [->|N2]; [reflexivity|].
  destruct (N.eq_dec c 62) as [->|N3]; [reflexivity|].
  destruct (N.eq_dec c 10) as [->|N4]; [reflexivity|].
  destruct (N.eq_dec c 13) as [->|N5]; [reflexivity|].
  destruct (N.eq_dec c 9) as [->|N6]; [reflexivity|].
  rewrite sax_escape_plain by assumption. rewrite replace1_single_ne by assumption. cbn [steps step].
  apply N.eqb_neq in Nq, N1, N0. rewrite Nq, N1, N0. reflexivity.
Qed.

Lemma sax_escape_flat v : sax_escape v = flat_map (fun c => sax_escape [c]) v.
Proof.
  induction v as [|c v IH]; [reflexivity|]. rewrite sax_escape_cons, IH. reflexivity.
Qed.

Lemma sax_keeps c v : In c v -> c <> 38 -> c <> 60 -> c <> 62 -> c <> 10 -> c <> 13 -> c <> 9 ->
  In c (sax_escape v).
Proof.
  intros Hin; intros. induction v as [|d v IH]; [destruct Hin|].
  rewrite sax_escape_cons. apply in_or_app. destruct Hin as [->|Hin].
  - left. rewrite sax_escape_plain by assumption. left. reflexivity.
  - right. apply IH. exact Hin.
Qed.

Lemma memN_false c l : memN c l = false -> ~ In c l.
Proof.
  intros H Hin. unfold memN in H. assert (existsb (N.eqb c) l = true); [|congruence].
  apply existsb_exists. exists c. split; [exact Hin | apply N.eqb_refl].
Qed.

Lemma quot_flat v : replace1 34 (s "&quot;") (sax_escape v) = flat_map quot_escape v.
Proof. rewrite sax_escape_flat, replace1_flat_map. reflexivity. Qed.

Lemma before_value_dq rest' :
  run (SBeforeAttrValue tag attrs an) ([34] ++ rest') = run (SAttrValue true tag attrs an []) rest'.
Proof. reflexivity. Qed.
Lemma before_value_sq rest' :
  run (SBeforeAttrValue tag attrs an) ([39] ++ rest') = run (SAttrValue false tag attrs an []) rest'.
Proof. reflexivity. Qed.
Lemma close_dq av rest' :
  run (SAttrValue true tag attrs an av) ([34] ++ rest') = run (SAfterAttrValue tag (attrs ++ [(an, av)])) rest'.
Proof. reflexivity. Qed.
Lemma close_sq av rest' :
  run (SAttrValue false tag attrs an av) ([39] ++ rest') = run (SAfterAttrValue tag (attrs ++ [(an, av)])) rest'.
Proof. reflexivity. Qed.

Theorem attr_inert_run v : ~ In 0 v -> forall rest,
  run (SBeforeAttrValue tag attrs an) (quoteattr v ++ rest)
  = run (SAfterAttrValue tag (attrs ++ [(an, v)])) rest.
Proof.
  intros H0 rest. unfold quoteattr.
  assert (Hne : forall c, In c v -> c <> 0) by (intros c Hc E; subst; contradiction).
  destruct (memN 34 (sax_escape v)) eqn:E34.
  - destruct (memN 39 (sax_escape v)) eqn:E39.
    + (* value in double quotes, the double quote escaped *)
      rewrite <- !app_assoc, before_value_dq, quot_flat.
      rewrite (attr_flat true quot_escape v) by (intros c Hc acc; apply quot_char, Hne, Hc).
      apply close_dq.
    + (* value in single quotes: v has no single quote *)
      assert (H39 : ~ In 39 v).
      { intro Hin. apply (memN_false _ _ E39). apply sax_keeps; [exact Hin | discriminate..]. }
      rewrite <- !app_assoc, before_value_sq, sax_escape_flat.
      rewrite (attr_flat false (fun c => sax_escape [c]) v).
      * apply close_sq.
      * intros c Hc acc. apply sax_char; [intro E; subst; contradiction | apply Hne, Hc].
  - (* value in double quotes: v has no double quote *)
    assert (H34 : ~ In 34 v).
    { intro Hin. apply (memN_false _ _ E34). apply sax_keeps; [exact Hin | discriminate..]. }
    rewrite <- !app_assoc, before_value_dq, sax_escape_flat.
    rewrite (attr_flat true (fun c => sax_escape [c]) v).
    + apply close_dq.
    + intros c Hc acc. apply sax_char; [intro E; subst; contradiction | apply Hne, Hc].
Qed.
End Attr.

Theorem attr_inert v : ~ In 0 v ->
  tokenize ([60; 97; 32; 104; 114; 101; 102; 61] ++ quoteattr v ++ [62])
  = [StartTag [97] [([104; 114; 101; 102], v)] false].
Proof.
  intro H0. unfold tokenize.
  rewrite (run_steps (SData []) _ (SBeforeAttrValue [97] [] [104; 114; 101; 102])) by reflexivity.
  rewrite attr_inert_run by exact H0. reflexivity.
Qed.

(** ** Ids *)
Lemma lstrip_by_Forall (P : N -> Prop) p x : Forall P x -> Forall P (lstrip_by p x).
Proof.
  induction 1 as [|c x Hc Hx IH]; [constructor|]. cbn [lstrip_by]. destruct (p c); [exact IH | constructor; assumption].
Qed.

Lemma rstrip_by_Forall (P : N -> Prop) p x : Forall P x -> Forall P (rstrip_by p x).
Proof.
  induction 1 as [|c x Hc Hx IH]; [constructor|]. cbn [rstrip_by].
  destruct (rstrip_by p x) as [|d r].
  - destruct (p c); constructor; [exact Hc | constructor].
  - constructor; assumption.
Qed.

Lemma sanitize_ok x : Forall (fun c => id_char_ok c = true) (sanitize x).
Proof.
  unfold sanitize. induction x as [|c x IH]; [constructor|]. cbn [map]. constructor; [|exact IH].
  destruct (id_char_ok c) eqn:E; [exact E | reflexivity].
Qed.

Theorem id_charset names idx prefix i :
  generate_subrecipe_output_id names idx prefix = Ok i ->
  exists n, i = prefix ++ n /\ Forall (fun c => id_char_ok c = true) n.
Proof.
  unfold generate_subrecipe_output_id, id_name. destruct (nth_error names idx) as [nm|]; [|discriminate].
  destruct (svs_text nm) as [x|]; [|discriminate]. intro H. inversion H; subst.
  exists (strip_dash (sanitize x)). split; [reflexivity|].
  unfold strip_dash. apply rstrip_by_Forall, lstrip_by_Forall, sanitize_ok.
Qed.

(** ** markupsafe.escape (Jinja autoescape) *)
Lemma markup_escape_app a b : markup_escape (a ++ b) = markup_escape a ++ markup_escape b.
Proof. unfold markup_escape. rewrite !replace1_app. reflexivity. Qed.

Lemma markup_escape_cons c x : markup_escape (c :: x) = markup_escape [c] ++ markup_escape x.
Proof. change (c :: x) with ([c] ++ x). apply markup_escape_app. Qed.

Lemma markup_escape_plain c : c <> 38 -> c <> 60 -> c <> 62 -> c <> 34 -> c <> 39 -> markup_escape [c] = [c].
Proof. intros. unfold markup_escape. rewrite !replace1_single_ne by assumption. reflexivity. Qed.

Lemma markup_char_data c acc : steps (SData acc) (markup_escape [c]) = (SData (acc ++ [c]), []).
Proof.
  destruct (N.eq_dec c 38) as [->|N1]; [reflexivity|].
  destruct (N.eq_dec c 60) as [->|N2]; [reflexivity|].
  destruct (N.eq_dec c 62) as [->|N3]; [reflexivity|].
  destruct (N.eq_dec c 34) as [->|N4]; [reflexivity|].
  destruct (N.eq_dec c 39) as [->|N5]; [reflexivity|].
  rewrite markup_escape_plain by assumption. cbn [steps step].
  apply N.eqb_neq in N1, N2. rewrite N1, N2. reflexivity.
Qed.

Theorem markup_inert_text x : forall acc rest,
  run (SData acc) (markup_escape x ++ rest) = run (SData (acc ++ x)) rest.
Proof.
  induction x as [|c x IH]; intros acc rest.
  - rewrite app_nil_r. reflexivity.
  - rewrite markup_escape_cons, <- app_assoc.
    rewrite (run_steps _ _ _ _ (markup_char_data c acc)). rewrite IH, <- app_assoc. reflexivity.
Qed.

Lemma markup_char_attr tag attrs an c acc : c <> 0 ->
  steps (SAttrValue true tag attrs an acc) (markup_escape [c]) = (SAttrValue true tag attrs an (acc ++ [c]), []).
Proof.
  intro N0.
  destruct (N.eq_dec c 38) as [->|N1]; [reflexivity|].
  destruct (N.eq_dec c 60) as [->|N2]; [reflexivity|].
  destruct (N.eq_dec c 62) as [->|N3]; [reflexivity|].
  destruct (N.eq_dec c 34) as [->|N4]; [reflexivity|].
  destruct (N.eq_dec c 39) as [->|N5]; [reflexivity|].
  rewrite markup_escape_plain by assumption. cbn [steps step].
  apply N.eqb_neq in N4, N1, N0. rewrite N4, N1, N0. reflexivity.
Qed.

Theorem markup_inert_attr tag attrs an v : ~ In 0 v -> forall acc rest,
  run (SAttrValue true tag attrs an acc) (markup_escape v ++ rest)
  = run (SAttrValue true tag attrs an (acc ++ v)) rest.
Proof.
  induction v as [|c v IH]; intros H0 acc rest.
  - rewrite app_nil_r. reflexivity.
  - rewrite markup_escape_cons, <- app_assoc.
    rewrite (run_steps _ _ _ _ (markup_char_attr tag attrs an c acc ltac:(intro E; subst; apply H0; left; reflexivity))).
    rewrite IH by (intro Hin; apply H0; right; exact Hin). rewrite <- app_assoc. reflexivity.
Qed.
