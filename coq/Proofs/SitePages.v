(** * Which pages the generator writes, and at which scale (C15; used by C14 site level). *)
From Coq Require Import List NArith Bool Arith Lia String Permutation.
From RG Require Import Base.Str Base.Dec Model.Url Model.Href Model.Fs Model.Site Spec.SiteSpec
  Proofs.FsTree Proofs.SiteLinks Proofs.SiteHeap Proofs.SiteSort Proofs.SiteBuild Proofs.SiteAssets.
Import ListNotations.
Open Scope list_scope.
Open Scope N_scope.

(** ** [href.parent] of "<x>/<file>" is "<x>" *)

Lemma split_on_nonempty c x : split_on c x <> [].
Proof.
  destruct x as [|d x]; simpl; [discriminate|]. destruct (d =? c); [discriminate|].
  destruct (split_on c x); discriminate.
Qed.

Lemma split_on_app c a b : split_on c (a ++ c :: b) = split_on c a ++ split_on c b.
Proof.
  induction a as [|d a IH]; simpl.
  - rewrite N.eqb_refl. reflexivity.
  - destruct (d =? c); [rewrite IH; reflexivity|]. rewrite IH.
    destruct (split_on c a) as [|p ps] eqn:E; [exfalso; eapply split_on_nonempty; exact E|]. reflexivity.
Qed.

Lemma split_on_noslash c y : forallb (fun d => negb (d =? c)) y = true -> split_on c y = [y].
Proof.
  induction y as [|d y IH]; simpl; intro H; [reflexivity|].
  apply andb_true_iff in H as [H1 H2]. apply negb_true_iff in H1. rewrite H1, (IH H2). reflexivity.
Qed.

Lemma join_split c x : join [c] (split_on c x) = x.
Proof.
  induction x as [|d x IH]; simpl; [reflexivity|].
  destruct (d =? c) eqn:E.
  - apply N.eqb_eq in E. subst d.
    destruct (split_on c x) as [|p ps] eqn:Es; [exfalso; eapply split_on_nonempty; exact Es|].
    change (join [c] ([] :: p :: ps)) with ([] ++ [c] ++ join [c] (p :: ps)). rewrite IH. reflexivity.
  - destruct (split_on c x) as [|p ps] eqn:Es; [exfalso; eapply split_on_nonempty; exact Es|].
    destruct ps as [|q ps].
    + simpl in *. congruence.
    + change (join [c] ((d :: p) :: q :: ps)) with ((d :: p) ++ [c] ++ join [c] (q :: ps)).
      change (join [c] (p :: q :: ps)) with (p ++ [c] ++ join [c] (q :: ps)) in IH.
      simpl. f_equal. exact IH.
Qed.

Lemma href_parent_app x y : forallb (fun d => negb (d =? 47)) y = true -> href_parent (x ++ 47 :: y) = x.
Proof.
  intro H. unfold href_parent. rewrite split_on_app, (split_on_noslash _ _ H), removelast_last.
  unfold slash. apply join_split.
Qed.

Lemma href_parent_index x : href_parent (x ++ s "/index.html") = x.
Proof. apply (href_parent_app x (s "index.html")). reflexivity. Qed.

(** ** Shape of the category pages *)

Lemma dir_prefix_snoc top rel n : dir_prefix top (rel ++ [n]) = dir_prefix top rel ++ [c_slash] ++ n.
Proof. unfold dir_prefix. rewrite flat_map_app. simpl. rewrite app_nil_r, <- !app_assoc. reflexivity. Qed.

Section Pages.
Variable E : env.

Lemma psubs_in (f : stree -> path -> outcome cpage) dp : forall es cs,
  psubs f dp es = Ok cs ->
  forall c, In c cs <-> exists n rn des, In (SDir n rn des) es /\ f (SDir n rn des) (dp ++ [n]) = Ok c.
Proof.
  induction es as [|e r IH]; intros cs H c; simpl in H.
  - inversion H; subst. split; [contradiction | intros (n & rn & des & [] & _)].
  - destruct e as [fn fd|bn|dn drn des].
    + rewrite (IH cs H c). split; intros (n & rn & d & Hin & Hf); exists n, rn, d; split; auto.
      * right. exact Hin.
      * destruct Hin as [Hin|Hin]; [discriminate | exact Hin].
    + rewrite (IH cs H c). split; intros (n & rn & d & Hin & Hf); exists n, rn, d; split; auto.
      * right. exact Hin.
      * destruct Hin as [Hin|Hin]; [discriminate | exact Hin].
    + destruct (f (SDir dn drn des) (dp ++ [dn])) as [c0|er] eqn:Hf0; [|discriminate]. cbn [bind] in H.
      destruct (psubs f dp r) as [cs0|er] eqn:Hr; [|discriminate]. cbn [bind] in H. inversion H; subst cs. clear H.
      split.
      * intros [Heq|Hin].
        -- subst c0. exists dn, drn, des. split; [left; reflexivity | exact Hf0].
        -- apply (IH cs0 eq_refl c) in Hin as (n & rn & d & Hin & Hf). exists n, rn, d. split; [right; exact Hin | exact Hf].
      * intros (n & rn & d & [Heq|Hin] & Hf).
        -- inversion Heq; subst. rewrite Hf0 in Hf. inversion Hf. left. reflexivity.
        -- right. apply (IH cs0 eq_refl c). exists n, rn, d. auto.
Qed.

(** The references a scaled pass puts into a category page. *)
Definition scaled_ref (n : N) (dp : path) (nd : str * option bytes) (doc : rdoc) (title : str) : rref :=
  {| rr_title := title; rr_name := fst nd; rr_source := dp ++ [fst nd];
     rr_key := match d_servings doc with Some _ => Some n | None => None end |}.

Lemma last_snoc {A} (l : list A) x d : last (l ++ [x]) d = x.
Proof. induction l as [|y l IH]; [reflexivity|]. simpl. destruct (l ++ [x]) eqn:El; [destruct l; discriminate|]. exact IH. Qed.

Lemma pure_refs_scaled_in j dp mes : forall rs refs,
  pure_refs_scaled E j dp mes rs = Ok refs ->
  forall r, In r refs <-> exists nd doc title, In nd rs /\ compile_recipe E (snd nd) true false = Ok doc /\
                                             d_title doc = Some title /\ r = scaled_ref (N.of_nat (S j)) dp nd doc title.
Proof.
  induction rs as [|[name data] rs IH]; intros refs H r; cbn [pure_refs_scaled] in H.
  - inversion H; subst. split; [contradiction | intros (nd & _ & _ & [] & _)].
  - fold (or_nil (expected E mes (dp ++ [name]) data j)) in H.
    destruct (from_recipe_source E (N.of_nat (S j)) (dp ++ [name]) data (mes (Some (N.of_nat (S j))))
                (or_nil (expected E mes (dp ++ [name]) data j))) as [[ref o]|e] eqn:Hf; [|discriminate].
    cbn [bind] in H. destruct (pure_refs_scaled E j dp mes rs) as [refs0|e] eqn:Hr; [|discriminate].
    cbn [bind] in H. inversion H; subst refs. clear H.
    apply scaled_ref_pure in Hf as (doc & title & Hc & Ht & Href).
    assert (Href' : ref = scaled_ref (N.of_nat (S j)) dp (name, data) doc title).
    { rewrite Href. unfold scaled_ref. simpl. rewrite last_snoc. reflexivity. }
    split.
    + intros [Heq|Hin].
      * subst r. exists (name, data), doc, title. repeat split; auto. left. reflexivity.
      * apply (IH refs0 eq_refl r) in Hin as (nd & doc' & title' & Hin & H1 & H2 & H3).
        exists nd, doc', title'. repeat split; auto. right. exact Hin.
    + intros (nd & doc' & title' & [Heq|Hin] & H1 & H2 & H3).
      * subst nd. simpl in H1. rewrite Hc in H1. inversion H1; subst doc'. rewrite Ht in H2. inversion H2; subst title'.
        left. congruence.
      * right. apply (IH refs0 eq_refl r). exists nd, doc', title'. auto.
Qed.

(** The page a reference leads to once construction is over. *)
Lemma final_ref_path (mes : chains) dp rel nd doc title Mn j h :
  (S j <= Mn)%nat ->
  compile_recipe E (snd nd) true false = Ok doc -> d_title doc = Some title -> d_servings doc <> Some 0 ->
  heap_get (dp ++ [fst nd]) h = expected_final E mes (dp ++ [fst nd]) (snd nd) Mn ->
  (forall sv', chain_path (mes sv') = cat_page_path (top_name sv') rel) ->
  pref_path h (PRec (scaled_ref (N.of_nat (S j)) dp nd doc title)) =
    if scalable E (snd nd) then rec_page_path (serves_name (N.of_nat (S j))) rel (fst nd)
    else rec_page_path (s "categories") rel (fst nd).
Proof.
  intros Hj Hc Ht Hs Hh Hme. unfold pref_path, deref, scaled_ref. cbn [rr_source rr_key].
  rewrite Hh. unfold expected_final, expected, scalable, native_of. rewrite Hc, Ht.
  destruct Mn as [|Mn]; [lia|].
  destruct (d_servings doc) as [nv|] eqn:Esv.
  - destruct (nv =? 0) eqn:E0; [apply N.eqb_eq in E0; subst; congruence|].
    change (N_seq 1 (S Mn)) with (1 :: N_seq (1 + 1) Mn). cbn [map].
    change (1 :: N_seq (1 + 1) Mn) with (N_seq 1 (S Mn)).
    match goal with |- context [sc_get ?k ((?a, ?b) :: map ?f ?l)] =>
      change ((a, b) :: map f l) with (map f (N_seq 1 (S Mn))) end.
    rewrite (sc_get_pages_present _ (N.of_nat (S j))) by (rewrite N_seq_in; lia).
    unfold rpage_path, mk_page. cbn [rp_parent rp_source]. rewrite Hme. unfold cat_page_path at 1.
    rewrite href_parent_index, last_snoc. reflexivity.
  - cbn [sc_get opt_N_eqb option_eqb]. unfold rpage_path, set_parent, mk_page. cbn [rp_parent rp_source].
    rewrite Hme. unfold cat_page_path at 1. rewrite href_parent_index, last_snoc. reflexivity.
Qed.

Lemma in_sort_by {A} (key : A -> str * str) l x : In x (sort_by key l) <-> In x l.
Proof.
  split; intro H.
  - eapply Permutation_in; [apply Permutation_sym; apply sort_by_perm | exact H].
  - eapply Permutation_in; [apply sort_by_perm | exact H].
Qed.

Lemma chain_path_snoc (c : chain) t p : chain_path (c ++ [(t, p)]) = p.
Proof. unfold chain_path. rewrite last_snoc. reflexivity. Qed.

(** A scaled reference that was produced implies the document is without defects. *)
Lemma pure_refs_scaled_docs j dp mes : forall rs refs,
  pure_refs_scaled E j dp mes rs = Ok refs -> forall nd, In nd rs -> doc_ok E (snd nd).
Proof.
  induction rs as [|[name data] rs IH]; intros refs H nd Hin; [contradiction|].
  cbn [pure_refs_scaled] in H.
  fold (or_nil (expected E mes (dp ++ [name]) data j)) in H.
  destruct (from_recipe_source E (N.of_nat (S j)) (dp ++ [name]) data (mes (Some (N.of_nat (S j))))
              (or_nil (expected E mes (dp ++ [name]) data j))) as [[ref o]|e] eqn:Hf; [|discriminate].
  cbn [bind] in H. destruct (pure_refs_scaled E j dp mes rs) as [refs0|e] eqn:Hr; [|discriminate].
  destruct Hin as [Heq|Hin]; [|eapply IH; [reflexivity | exact Hin]].
  subst nd. simpl. pose proof (expected_step E _ _ _ _ _ _ Hf) as Hstep.
  unfold from_recipe_source in Hf.
  destruct (compile_recipe E data true false) as [doc|e] eqn:Hc; [|discriminate]. cbn [bind] in Hf.
  unfold page_of_doc in Hf. destruct (d_title doc) as [title|] eqn:Ht; [|discriminate].
  exists doc, title. repeat split; auto.
  intro Hz. unfold expected in Hstep. rewrite Hc, Ht, Hz in Hstep. simpl in Hstep. discriminate.
Qed.

Definition in_tops (sv : option N) (j Mn : nat) : Prop :=
  match sv with Some n => n = N.of_nat (S j) /\ (S j <= Mn)%nat | None => True end.

(** Addresses of the pages below one category page. *)
Lemma dir_pages_paths Mn h : forall t j sv dp P is_root rel c,
  pure_dir E j sv t dp P is_root = Ok c -> in_tops sv j Mn ->
  (forall src data mes, In (src, data, mes) (asources E t dp P is_root) ->
     heap_get src h = expected_final E mes src data Mn) ->
  (forall sv', cat_cpath sv' (P sv') dp is_root = cat_page_path (top_name sv') rel) ->
  forall f, In f (map (pref_path h) (cat_pages c)) <->
    In f (map (fun d => cat_page_path (top_name sv) (rel ++ d)) (tree_dirs t))
    \/ (exists n, sv = Some n /\ exists x, In x (tree_recipes t) /\
          f = if scalable E (snd x) then rec_page_path (serves_name n) (rel ++ fst (fst x)) (snd (fst x))
              else rec_page_path (s "categories") (rel ++ fst (fst x)) (snd (fst x))).
Proof.
  induction t as [n d|n|n rn es IHes] using stree_ind'; intros j sv dp P is_root rel c Hp Htop Hheap Hpre f;
    try discriminate.
  rewrite pure_dir_eq in Hp. rewrite asources_eq in Hheap.
  destruct (enumerate E dp rn es) as [l|e] eqn:Hen; [|discriminate]. cbn [bind] in Hp. cbv zeta in *.
  set (mes := dir_mes P dp (l_title l) is_root) in *.
  destruct (psubs (fun e p => pure_dir E j sv e p mes false) dp es) as [cs|e] eqn:Hcs; [|discriminate].
  cbn [bind] in Hp. destruct (pure_refs E sv j dp mes (l_recipes l)) as [refs|e] eqn:Hrefs; [|discriminate].
  cbn [bind] in Hp. inversion Hp; subst c. clear Hp.
  pose proof (enumerate_recipes E _ _ _ _ Hen) as Hrs.
  assert (Hme : forall sv', chain_path (mes sv') = cat_page_path (top_name sv') rel).
  { intro sv'. unfold mes, dir_mes, dir_me. rewrite chain_path_snoc. apply Hpre. }
  unfold dir_page. cbn [cat_pages map]. cbn [pref_path cp_path]. rewrite Hpre.
  cbn [tree_dirs tree_recipes map]. rewrite app_nil_r.
  cbn [In]. rewrite map_app, in_app_iff.
  (* sub-directories *)
  assert (Hsubs : forall f0, In f0 (map (pref_path h) (flat_map cat_pages (sort_by cpage_key cs))) <->
            (exists dn drn des d', In (SDir dn drn des) es /\ In d' (tree_dirs (SDir dn drn des)) /\
                                   f0 = cat_page_path (top_name sv) (rel ++ dn :: d'))
            \/ (exists n0, sv = Some n0 /\ exists dn drn des x, In (SDir dn drn des) es /\
                   In x (tree_recipes (SDir dn drn des)) /\
                   f0 = if scalable E (snd x) then rec_page_path (serves_name n0) (rel ++ dn :: fst (fst x)) (snd (fst x))
                        else rec_page_path (s "categories") (rel ++ dn :: fst (fst x)) (snd (fst x)))).
  { intro f0. rewrite in_map_iff. split.
    - intros (pr & Hf0 & Hin). apply in_flat_map in Hin as (c' & Hc' & Hin). apply in_sort_by in Hc'.
      apply (psubs_in _ dp es cs Hcs) in Hc' as (dn & drn & des & Hine & Hpe).
      rewrite Forall_forall in IHes.
      assert (Hf0' : In f0 (map (pref_path h) (cat_pages c'))) by (apply in_map_iff; exists pr; auto).
      apply (IHes _ Hine j sv (dp ++ [dn]) mes false (rel ++ [dn]) c' Hpe Htop) in Hf0'.
      + destruct Hf0' as [Hd|(n0 & Hsv & x & Hx & Hfx)].
        * left. apply in_map_iff in Hd as (d' & Hd1 & Hd2). exists dn, drn, des, d'. repeat split; auto.
          rewrite <- Hd1, <- app_assoc. reflexivity.
        * right. exists n0. split; [exact Hsv|]. exists dn, drn, des, x. repeat split; auto.
          rewrite Hfx, <- !app_assoc. reflexivity.
      + intros src data mes' Hin'. apply Hheap. apply in_or_app. left.
        clear - Hine Hin'. induction es as [|e r IHr]; [contradiction|].
        destruct Hine as [Heq|Hine].
        * subst e. cbn [asubs]. apply in_or_app. left. exact Hin'.
        * destruct e; cbn [asubs]; try (apply IHr; exact Hine). apply in_or_app. right. apply IHr. exact Hine.
      + intro sv'. unfold cat_cpath, cat_seg. rewrite Hme, last_snoc. unfold cat_page_path at 1.
        rewrite href_parent_index. unfold cat_page_path. rewrite dir_prefix_snoc, <- !app_assoc. reflexivity.
    - intro H.
      assert (Hgen : exists dn drn des, In (SDir dn drn des) es /\
                forall c', pure_dir E j sv (SDir dn drn des) (dp ++ [dn]) mes false = Ok c' ->
                           In f0 (map (pref_path h) (cat_pages c'))).
      { rewrite Forall_forall in IHes.
        destruct H as [(dn & drn & des & d' & Hine & Hd' & Hf0)|(n0 & Hsv & dn & drn & des & x & Hine & Hx & Hf0)].
        - exists dn, drn, des. split; [exact Hine|]. intros c' Hpe.
          apply (IHes _ Hine j sv (dp ++ [dn]) mes false (rel ++ [dn]) c' Hpe Htop).
          + intros src data mes' Hin'. apply Hheap. apply in_or_app. left.
            clear - Hine Hin'. induction es as [|e r IHr]; [contradiction|].
            destruct Hine as [Heq|Hine].
            * subst e. cbn [asubs]. apply in_or_app. left. exact Hin'.
            * destruct e; cbn [asubs]; try (apply IHr; exact Hine). apply in_or_app. right. apply IHr. exact Hine.
          + intro sv'. unfold cat_cpath, cat_seg. rewrite Hme, last_snoc. unfold cat_page_path at 1.
            rewrite href_parent_index. unfold cat_page_path. rewrite dir_prefix_snoc, <- !app_assoc. reflexivity.
          + left. apply in_map_iff. exists d'. split; [|exact Hd']. rewrite Hf0, <- app_assoc. reflexivity.
        - exists dn, drn, des. split; [exact Hine|]. intros c' Hpe.
          apply (IHes _ Hine j sv (dp ++ [dn]) mes false (rel ++ [dn]) c' Hpe Htop).
          + intros src data mes' Hin'. apply Hheap. apply in_or_app. left.
            clear - Hine Hin'. induction es as [|e r IHr]; [contradiction|].
            destruct Hine as [Heq|Hine].
            * subst e. cbn [asubs]. apply in_or_app. left. exact Hin'.
            * destruct e; cbn [asubs]; try (apply IHr; exact Hine). apply in_or_app. right. apply IHr. exact Hine.
          + intro sv'. unfold cat_cpath, cat_seg. rewrite Hme, last_snoc. unfold cat_page_path at 1.
            rewrite href_parent_index. unfold cat_page_path. rewrite dir_prefix_snoc, <- !app_assoc. reflexivity.
          + right. exists n0. split; [exact Hsv|]. exists x. split; [exact Hx|]. rewrite Hf0, <- !app_assoc. reflexivity. }
      destruct Hgen as (dn & drn & des & Hine & Hall).
      (* the sub-directory's page was built *)
      assert (Hex : exists c', pure_dir E j sv (SDir dn drn des) (dp ++ [dn]) mes false = Ok c' /\ In c' cs).
      { clear - Hcs Hine. revert cs Hcs. induction es as [|e r IHr]; intros cs Hcs; [contradiction|].
        destruct Hine as [Heq|Hine].
        - subst e. cbn [psubs] in Hcs.
          destruct (pure_dir E j sv (SDir dn drn des) (dp ++ [dn]) mes false) as [c0|er]; [|discriminate].
          cbn [bind] in Hcs. destruct (psubs _ dp r) as [cs0|er]; [|discriminate]. cbn [bind] in Hcs.
          inversion Hcs; subst. exists c0. split; [reflexivity | left; reflexivity].
        - destruct e as [fn fd|bn|dn' drn' des']; cbn [psubs] in Hcs; try (apply IHr; assumption).
          destruct (pure_dir E j sv (SDir dn' drn' des') (dp ++ [dn']) mes false) as [c0|er]; [|discriminate].
          cbn [bind] in Hcs. destruct (psubs _ dp r) as [cs0|er] eqn:Hr; [|discriminate]. cbn [bind] in Hcs.
          inversion Hcs; subst. destruct (IHr Hine cs0 eq_refl) as (c' & H1 & H2). exists c'. split; [exact H1 | right; exact H2]. }
      destruct Hex as (c' & Hpe & Hinc). specialize (Hall c' Hpe).
      apply in_map_iff in Hall as (pr & Hf0 & Hin). exists pr. split; [exact Hf0|].
      apply in_flat_map. exists c'. split; [apply in_sort_by; exact Hinc | exact Hin]. }
  rewrite (Hsubs f). clear Hsubs.
  (* own recipes *)
  assert (Hown : In f (map (pref_path h) match sv with Some _ => map PRec (sort_by rref_key refs) | None => [] end) <->
            exists n0, sv = Some n0 /\ exists nd, In nd (dir_recipes es) /\
              f = if scalable E (snd nd) then rec_page_path (serves_name n0) rel (fst nd)
                  else rec_page_path (s "categories") rel (fst nd)).
  { destruct sv as [n0|]; [|split; [contradiction | intros (n0 & Hn0 & _); discriminate]].
    destruct Htop as [Hn0 Hj]. subst n0. unfold pure_refs in Hrefs.
    pose proof (pure_refs_scaled_docs j dp mes _ _ Hrefs) as Hdocs.
    rewrite map_map, in_map_iff. split.
    - intros (r & Hf & Hin). apply in_sort_by in Hin.
      apply (pure_refs_scaled_in j dp mes _ _ Hrefs) in Hin as (nd & doc & title & Hnd & Hc & Ht & Hr).
      exists (N.of_nat (S j)). split; [reflexivity|]. exists nd. split; [rewrite <- Hrs; exact Hnd|].
      rewrite <- Hf, Hr. destruct (Hdocs nd Hnd) as (doc' & title' & Hc' & Ht' & Hs').
      rewrite Hc in Hc'. inversion Hc'; subst doc'.
      apply (final_ref_path mes dp rel nd doc title Mn j h Hj Hc Ht Hs'); [|exact Hme].
      apply Hheap. apply in_or_app. right. apply in_map_iff. exists nd. split; [destruct nd; reflexivity | exact Hnd].
    - intros (n0 & Hn0 & nd & Hnd & Hf). inversion Hn0; subst n0. rewrite <- Hrs in Hnd.
      destruct (Hdocs nd Hnd) as (doc & title & Hc & Ht & Hs).
      exists (scaled_ref (N.of_nat (S j)) dp nd doc title). split.
      + rewrite Hf. apply (final_ref_path mes dp rel nd doc title Mn j h Hj Hc Ht Hs); [|exact Hme].
        apply Hheap. apply in_or_app. right. apply in_map_iff. exists nd. split; [destruct nd; reflexivity | exact Hnd].
      + apply in_sort_by. apply (pure_refs_scaled_in j dp mes _ _ Hrefs). exists nd, doc, title. auto. }
  rewrite Hown. clear Hown.
  (* assemble *)
  split.
  - intros [Hf|[H|H]].
    + left. left. exact Hf.
    + destruct H as [(dn & drn & des & d' & Hine & Hd' & Hf)|(n0 & Hsv & dn & drn & des & x & Hine & Hx & Hf)].
      * left. right. apply in_map_iff. exists (dn :: d'). split; [symmetry; exact Hf|].
        apply in_flat_map. exists (SDir dn drn des). split; [exact Hine|]. apply in_map. exact Hd'.
      * right. exists n0. split; [exact Hsv|].
        exists (dn :: fst (fst x), snd (fst x), snd x). split; [|exact Hf].
        apply in_or_app. right. apply in_flat_map. exists (SDir dn drn des). split; [exact Hine|].
        apply in_map_iff. exists x. auto.
    + destruct H as (n0 & Hsv & nd & Hnd & Hf). right. exists n0. split; [exact Hsv|].
      exists ([], fst nd, snd nd). split; [|simpl; rewrite app_nil_r; exact Hf].
      apply in_or_app. left. apply in_map_iff. exists nd. auto.
  - intros [[Hf|Hf]|(n0 & Hsv & x & Hx & Hf)].
    + left. exact Hf.
    + right. left. left. apply in_map_iff in Hf as (d & Hd & Hin). apply in_flat_map in Hin as (e & Hine & Hin).
      destruct e as [fn fd|bn|dn drn des]; try contradiction. apply in_map_iff in Hin as (d' & Hd' & Hin').
      exists dn, drn, des, d'. subst d. auto.
    + apply in_app_or in Hx as [Hx|Hx].
      * right. right. apply in_map_iff in Hx as (nd & Hnd & Hin). subst x. simpl in Hf. rewrite app_nil_r in Hf.
        exists n0. split; [exact Hsv|]. exists nd. auto.
      * right. left. right. apply in_flat_map in Hx as (e & Hine & Hin).
        destruct e as [fn fd|bn|dn drn des]; try contradiction. apply in_map_iff in Hin as (x' & Hx' & Hin').
        exists n0. split; [exact Hsv|]. exists dn, drn, des, x'. subst x. simpl in Hf. auto.
Qed.

End Pages.

(** ** The whole site *)

Section SitePages.
Variable E : env.

Lemma pure_scaled_in t root P : forall count j sc,
  pure_scaled E t root P j count = Ok sc ->
  forall nc, In nc sc <-> exists k, (j <= k < j + count)%nat /\ fst nc = N.of_nat (S k) /\
                                    pure_dir E k (Some (N.of_nat (S k))) t root P true = Ok (snd nc).
Proof.
  induction count as [|count IH]; intros j sc H nc; cbn [pure_scaled] in H.
  - inversion H; subst. split; [contradiction | intros (k & Hk & _); lia].
  - destruct (pure_dir E j (Some (N.of_nat (S j))) t root P true) as [c|e] eqn:Hc; [|discriminate].
    cbn [bind] in H. destruct (pure_scaled E t root P (S j) count) as [cs|e] eqn:Hcs; [|discriminate].
    cbn [bind] in H. inversion H; subst sc. clear H. split.
    + intros [Heq|Hin].
      * subst nc. exists j. simpl. repeat split; auto; lia.
      * apply (IH (S j) cs Hcs nc) in Hin as (k & Hk & H1 & H2). exists k. repeat split; auto; lia.
    + intros (k & Hk & H1 & H2). destruct (Nat.eq_dec k j) as [->|Hne].
      * left. destruct nc as [n c']. simpl in *. rewrite Hc in H2. inversion H2. subst. reflexivity.
      * right. apply (IH (S j) cs Hcs nc). exists k. repeat split; auto; lia.
Qed.

Lemma render_all_paths fs hm h lookup : forall ps a pages a',
  render_all fs hm h lookup ps a = Ok (pages, a') -> map fst pages = map (pref_path h) ps.
Proof.
  induction ps as [|p ps IH]; intros a pages a' H; simpl in H.
  - inversion H. reflexivity.
  - match type of H with bind ?x _ = _ => destruct x as [[po a1]|e] end; [|discriminate].
    cbn [bind] in H. destruct (render_all fs hm h lookup ps a1) as [[pos a2]|e] eqn:Hr; [|discriminate].
    cbn [bind] in H. inversion H; subst. simpl. f_equal. eapply IH. exact Hr.
Qed.

Lemma root_prefix_ok (hc_title : str) root sv' :
  cat_cpath sv' [(hc_title, home_path)] root true = cat_page_path (top_name sv') [].
Proof.
  unfold cat_cpath, cat_seg, cat_page_path, dir_prefix, top_name, chain_path. simpl last. cbn [snd].
  change home_path with ([] ++ s "/index.html"). rewrite href_parent_index. simpl flat_map.
  rewrite app_nil_r. reflexivity.
Qed.

Lemma pure_scaled_total t root P : forall count j sc,
  pure_scaled E t root P j count = Ok sc ->
  forall k, (j <= k < j + count)%nat ->
  exists c, pure_dir E k (Some (N.of_nat (S k))) t root P true = Ok c /\ In (N.of_nat (S k), c) sc.
Proof.
  induction count as [|count IH]; intros j sc H k Hk; [lia|]. cbn [pure_scaled] in H.
  destruct (pure_dir E j (Some (N.of_nat (S j))) t root P true) as [c|e] eqn:Hc; [|discriminate].
  cbn [bind] in H. destruct (pure_scaled E t root P (S j) count) as [cs|e] eqn:Hcs; [|discriminate].
  cbn [bind] in H. inversion H; subst sc. clear H.
  destruct (Nat.eq_dec k j) as [->|Hne].
  - exists c. split; [exact Hc | left; reflexivity].
  - destruct (IH (S j) cs Hcs k) as (c' & H1 & H2); [lia|]. exists c'. split; [exact H1 | right; exact H2].
Qed.

Lemma map_fst_pair {A B C} (g : A * B -> C) (l : list (A * B)) : map fst (map (fun pp => (fst pp, g pp)) l) = map fst l.
Proof. induction l as [|x l IH]; simpl; [reflexivity | f_equal; exact IH]. Qed.

(** The set of files [generate_static_site] writes. *)
Theorem site_files_spec fs input M files root t :
  generate_static_site E fs input M = Ok files ->
  realpath fs input = ROk root -> view_root fs root = Some t -> uniq_names t -> 1 <= M ->
  forall f, In f (map fst files) <->
    In f (site_page_paths E M t) \/ exists src data, In (f, CCopy src data) files.
Proof.
  intros Hgen Hroot Hview Hu HM f. unfold generate_static_site in Hgen. rewrite Hroot, Hview in Hgen.
  destruct (from_root_directory E t root M) as [[hm h]|e] eqn:Hb; [|discriminate]. cbn [bind] in Hgen.
  pose proof (from_root_directory_pure E t root M Hu) as Hpure.
  destruct (pure_root E t root M) as [hm'|e] eqn:Hp; [|rewrite Hb in Hpure; discriminate].
  destruct Hpure as (h0 & Hb0 & Hfin). rewrite Hb in Hb0. inversion Hb0; subst hm' h0. clear Hb0.
  unfold write_site in Hgen.
  destruct (render_all fs hm h (source_lookup hm h) (all_pages hm) []) as [[pages a]|e] eqn:Hra; [|discriminate].
  cbn [bind] in Hgen. destruct (copy_assets fs a) as [copies|e] eqn:Hca; [|discriminate]. cbn [bind] in Hgen.
  apply write_all_ok in Hgen. subst files.
  pose proof (render_all_paths _ _ _ _ _ _ _ _ Hra) as Hpaths.
  (* structure of the home page *)
  unfold pure_root in Hp. destruct t as [n d|n|n rn es]; try discriminate.
  unfold final_heap_ok in Hfin.
  destruct (enumerate E root rn es) as [l|e] eqn:Hen; [|discriminate]. cbn [bind] in Hp.
  set (P := fun _ : option N => [(l_title l, home_path)]) in *.
  destruct (pure_scaled E (SDir n rn es) root P 0 (N.to_nat M)) as [sc|e] eqn:Hsc; [|discriminate].
  cbn [bind] in Hp. destruct (pure_dir E (N.to_nat M) None (SDir n rn es) root P true) as [un|e] eqn:Hun; [|discriminate].
  cbn [bind] in Hp. inversion Hp; subst hm. clear Hp.
  assert (Hpre : forall sv', cat_cpath sv' (P sv') root true = cat_page_path (top_name sv') []).
  { intro sv'. apply root_prefix_ok. }
  pose proof (dir_pages_paths E (N.to_nat M) h (SDir n rn es)) as Hdp.
  set (T := SDir n rn es) in *.
  (* pages below the scaled category pages *)
  assert (Hscaled : In f (map (pref_path h) (flat_map (fun nc => cat_pages (snd nc)) sc)) <->
            exists k, (k < N.to_nat M)%nat /\
              (In f (map (cat_page_path (serves_name (N.of_nat (S k)))) (tree_dirs T))
               \/ exists x, In x (tree_recipes T) /\
                    f = if scalable E (snd x) then rec_page_path (serves_name (N.of_nat (S k))) (fst (fst x)) (snd (fst x))
                        else rec_page_path (s "categories") (fst (fst x)) (snd (fst x)))).
  { rewrite in_map_iff. split.
    - intros (pr & Hf & Hin). apply in_flat_map in Hin as (nc & Hnc & Hin).
      apply (pure_scaled_in _ _ _ _ _ _ Hsc) in Hnc as (k & Hk & Hn & Hpd).
      exists k. split; [lia|].
      assert (Hin' : In f (map (pref_path h) (cat_pages (snd nc)))) by (apply in_map_iff; exists pr; auto).
      apply (Hdp k (Some (N.of_nat (S k))) root P true [] (snd nc) Hpd) in Hin';
        [|split; [reflexivity | lia] | exact Hfin | exact Hpre].
      destruct Hin' as [Hd|(n0 & Hn0 & x & Hx & Hfx)]; [left; exact Hd|].
      right. inversion Hn0; subst n0. exists x. split; [exact Hx | exact Hfx].
    - intros (k & Hk & Hcase).
      destruct (pure_scaled_total _ _ _ _ _ _ Hsc k) as (c & Hpd & Hinc); [lia|].
      assert (Hin' : In f (map (pref_path h) (cat_pages c))).
      { apply (Hdp k (Some (N.of_nat (S k))) root P true [] c Hpd);
          [split; [reflexivity | lia] | exact Hfin | exact Hpre |].
        destruct Hcase as [Hd|(x & Hx & Hfx)]; [left; exact Hd|].
        right. exists (N.of_nat (S k)). split; [reflexivity|]. exists x. auto. }
      apply in_map_iff in Hin' as (pr & Hf & Hin). exists pr. split; [exact Hf|].
      apply in_flat_map. exists (N.of_nat (S k), c). split; [exact Hinc | exact Hin]. }
  assert (Hunscaled : In f (map (pref_path h) (cat_pages un)) <->
            In f (map (cat_page_path (s "categories")) (tree_dirs T))).
  { rewrite (Hdp (N.to_nat M) None root P true [] un Hun I Hfin Hpre f). split.
    - intros [Hd|(n0 & Hn0 & _)]; [exact Hd | discriminate].
    - intro Hd. left. exact Hd. }
  (* membership in the written paths *)
  rewrite !map_app, !in_app_iff. rewrite map_fst_pair, Hpaths.
  unfold all_pages. cbn [h_scaled h_unscaled map pref_path In]. rewrite map_app, in_app_iff.
  rewrite Hscaled, Hunscaled. clear Hscaled Hunscaled.
  unfold site_page_paths. cbn [In]. rewrite !in_app_iff.
  assert (Hseq : forall k, (k < N.to_nat M)%nat <-> In (N.of_nat (S k)) (N_seq 1 (N.to_nat M))).
  { intro k. rewrite N_seq_in. lia. }
  split.
  - intros [[Hh|[(k & Hk & [Hd|(x & Hx & Hfx)])|Hd]]|[[Hc|[]]|Hcp]].
    + left. left. exact Hh.
    + left. right. right. left. apply in_flat_map. exists (Some (N.of_nat (S k))). split; [|exact Hd].
      apply in_or_app. left. apply in_map. apply Hseq. exact Hk.
    + left. right. right. right. destruct (scalable E (snd x)) eqn:Hsx.
      * left. apply in_flat_map. exists (N.of_nat (S k)). split; [apply Hseq; exact Hk|].
        apply in_map_iff. exists x. split; [symmetry; exact Hfx|]. apply filter_In. auto.
      * right. apply in_map_iff. exists x. split; [symmetry; exact Hfx|]. apply filter_In. rewrite Hsx. auto.
    + left. right. right. left. apply in_flat_map. exists None. split; [|exact Hd].
      apply in_or_app. right. left. reflexivity.
    + left. right. left. exact Hc.
    + right. apply in_map_iff in Hcp as ([f0 c0] & Hf0 & Hin). simpl in Hf0. subst f0.
      destruct (copy_assets_only _ _ _ _ _ Hca Hin) as (src & data & Hc0). subst c0.
      exists src, data. apply in_or_app. right. apply in_or_app. right. exact Hin.
  - intros [[Hh|[Hc|[Hcat|[Hsc'|Hun']]]]|(src & data & Hin)].
    + left. left. exact Hh.
    + right. left. left. exact Hc.
    + apply in_flat_map in Hcat as (sv & Hsv & Hd). apply in_app_or in Hsv as [Hsv|[Hsv|[]]].
      * apply in_map_iff in Hsv as (n0 & Hn0 & Hin0). subst sv.
        apply N_seq_in in Hin0. left. right. left. exists (pred (N.to_nat n0)). split; [lia|]. left.
        replace (N.of_nat (S (pred (N.to_nat n0)))) with n0 by lia. exact Hd.
      * subst sv. left. right. right. exact Hd.
    + apply in_flat_map in Hsc' as (n0 & Hin0 & Hx). apply in_map_iff in Hx as (x & Hfx & Hx).
      apply filter_In in Hx as [Hx Hsx]. apply N_seq_in in Hin0.
      left. right. left. exists (pred (N.to_nat n0)). split; [lia|]. right. exists x. split; [exact Hx|].
      rewrite Hsx. replace (N.of_nat (S (pred (N.to_nat n0)))) with n0 by lia. symmetry. exact Hfx.
    + apply in_map_iff in Hun' as (x & Hfx & Hx). apply filter_In in Hx as [Hx Hsx]. apply negb_true_iff in Hsx.
      left. right. left. exists 0%nat. split; [lia|]. right. exists x. split; [exact Hx|]. rewrite Hsx. symmetry. exact Hfx.
    + apply in_app_or in Hin as [Hin|Hin].
      { apply in_map_iff in Hin as (pp & Heq & _). discriminate. }
      apply in_app_or in Hin as [[Heq|[]]|Hin]; [discriminate|].
      right. right. apply in_map_iff. exists (f, CCopy src data). auto.
Qed.

End SitePages.

(** ** Scale of every recipe page (C15) *)

Section Scale.
Variable E : env.

(** The page object a scaled reference designates when construction is over. *)
Lemma final_ref_page (mes : chains) dp nd doc title Mn j h :
  (S j <= Mn)%nat ->
  compile_recipe E (snd nd) true false = Ok doc -> d_title doc = Some title -> d_servings doc <> Some 0 ->
  heap_get (dp ++ [fst nd]) h = expected_final E mes (dp ++ [fst nd]) (snd nd) Mn ->
  exists p, deref h (scaled_ref (N.of_nat (S j)) dp nd doc title) = Some p /\
    rp_title p = title /\ rp_doc p = doc /\ rp_source p = dp ++ [fst nd] /\ rp_native p = d_servings doc /\
    match d_servings doc with
    | Some nv => rp_servings p = Some (N.of_nat (S j)) /\ rp_factor p = mk_factor (N.of_nat (S j)) nv /\
                 rp_parent p = mes (Some (N.of_nat (S j))) /\
                 heap_get (dp ++ [fst nd]) h =
                   Some (map (fun i => (Some i, mk_page title (mes (Some i)) (Some i) (Some nv) (dp ++ [fst nd]) doc
                                                          (mk_factor i nv))) (N_seq 1 Mn))
    | None => rp_servings p = None /\ rp_factor p = factor_one /\ rp_parent p = mes None
    end.
Proof.
  intros Hj Hc Ht Hs Hh. unfold deref, scaled_ref. cbn [rr_source rr_key].
  rewrite Hh. unfold expected_final, expected. rewrite Hc, Ht.
  destruct Mn as [|Mn]; [lia|].
  destruct (d_servings doc) as [nv|] eqn:Esv.
  - destruct (nv =? 0) eqn:E0; [apply N.eqb_eq in E0; subst; congruence|].
    change (N_seq 1 (S Mn)) with (1 :: N_seq (1 + 1) Mn). cbn [map].
    change (1 :: N_seq (1 + 1) Mn) with (N_seq 1 (S Mn)).
    match goal with |- context [sc_get ?k ((?a, ?b) :: map ?f ?l)] =>
      change ((a, b) :: map f l) with (map f (N_seq 1 (S Mn))) end.
    rewrite (sc_get_pages_present _ (N.of_nat (S j))) by (rewrite N_seq_in; lia).
    eexists. split; [reflexivity|]. unfold mk_page. cbn. repeat split; reflexivity.
  - cbn [sc_get opt_N_eqb option_eqb]. eexists. split; [reflexivity|]. unfold mk_page, set_parent. cbn.
    repeat split; reflexivity.
Qed.

Lemma sc_sorted_pages (f : N -> rpage) : forall k a,
  sc_sorted (map (fun i => (Some i, f i)) (N_seq a k)) = map (fun i => (Some i, f i)) (N_seq a k).
Proof.
  induction k as [|k IH]; intro a; [reflexivity|].
  cbn [N_seq map]. unfold sc_sorted in *. cbn [fold_right]. rewrite IH.
  destruct k; [reflexivity|]. cbn [N_seq map sc_insert_sorted fst opt_N_leb].
  replace (a <=? a + 1) with true; [reflexivity|]. symmetry. apply N.leb_le. lia.
Qed.

(** Every recipe of the tree is referenced from the category page of its directory, for
    every scaled top; where the reference leads. *)
Lemma dir_pages_refs Mn h : forall t j n dp P is_root rel c,
  pure_dir E j (Some n) t dp P is_root = Ok c -> n = N.of_nat (S j) -> (S j <= Mn)%nat ->
  (forall src data mes, In (src, data, mes) (asources E t dp P is_root) ->
     heap_get src h = expected_final E mes src data Mn) ->
  (forall sv', cat_cpath sv' (P sv') dp is_root = cat_page_path (top_name sv') rel) ->
  forall x, In x (tree_recipes t) ->
  exists doc title mes r,
    compile_recipe E (snd x) true false = Ok doc /\ d_title doc = Some title /\ d_servings doc <> Some 0 /\
    In (PRec r) (cat_pages c) /\
    r = scaled_ref n (dp ++ fst (fst x)) (snd (fst x), snd x) doc title /\
    heap_get ((dp ++ fst (fst x)) ++ [snd (fst x)]) h =
      expected_final E mes ((dp ++ fst (fst x)) ++ [snd (fst x)]) (snd x) Mn /\
    pref_path h (PRec r) =
      (if scalable E (snd x) then rec_page_path (serves_name n) (rel ++ fst (fst x)) (snd (fst x))
       else rec_page_path (s "categories") (rel ++ fst (fst x)) (snd (fst x))).
Proof.
  induction t as [nm d|nm|nm rn es IHes] using stree_ind'; intros j n dp P is_root rel c Hp Hn Hj Hheap Hpre x Hx;
    try discriminate.
  subst n. rewrite pure_dir_eq in Hp. rewrite asources_eq in Hheap.
  destruct (enumerate E dp rn es) as [l|e] eqn:Hen; [|discriminate]. cbn [bind] in Hp. cbv zeta in *.
  set (mes := dir_mes P dp (l_title l) is_root) in *.
  destruct (psubs (fun e p => pure_dir E j (Some (N.of_nat (S j))) e p mes false) dp es) as [cs|e] eqn:Hcs; [|discriminate].
  cbn [bind] in Hp. destruct (pure_refs E (Some (N.of_nat (S j))) j dp mes (l_recipes l)) as [refs|e] eqn:Hrefs; [|discriminate].
  cbn [bind] in Hp. inversion Hp; subst c. clear Hp.
  pose proof (enumerate_recipes E _ _ _ _ Hen) as Hrs.
  assert (Hme : forall sv', chain_path (mes sv') = cat_page_path (top_name sv') rel).
  { intro sv'. unfold mes, dir_mes, dir_me. rewrite chain_path_snoc. apply Hpre. }
  unfold dir_page. cbn [cat_pages].
  cbn [tree_recipes] in Hx. apply in_app_or in Hx as [Hx|Hx].
  - (* a recipe of this directory *)
    apply in_map_iff in Hx as ([name data] & Hnd & Hin). subst x. cbn [fst snd]. rewrite <- Hrs in Hin.
    unfold pure_refs in Hrefs.
    destruct (pure_refs_scaled_docs E j dp mes _ _ Hrefs (name, data) Hin) as (doc & title & Hc & Ht & Hs).
    cbn [snd] in Hc.
    assert (Hh : heap_get (dp ++ [name]) h = expected_final E mes (dp ++ [name]) data Mn).
    { apply Hheap. apply in_or_app. right. apply in_map_iff. exists (name, data). split; [reflexivity | exact Hin]. }
    exists doc, title, mes, (scaled_ref (N.of_nat (S j)) dp (name, data) doc title).
    rewrite !app_nil_r. repeat split; auto.
    + right. apply in_or_app. right. apply in_map. apply in_sort_by.
      apply (pure_refs_scaled_in E j dp mes _ _ Hrefs). exists (name, data), doc, title. auto.
    + apply (final_ref_path E mes dp rel (name, data) doc title Mn j h Hj Hc Ht Hs Hh Hme).
  - (* a recipe further down *)
    apply in_flat_map in Hx as (e & Hine & Hx). destruct e as [fn fd|bn|dn drn des]; try contradiction.
    apply in_map_iff in Hx as (x' & Hx' & Hin'). subst x. cbn [fst snd].
    assert (Hex : exists c', pure_dir E j (Some (N.of_nat (S j))) (SDir dn drn des) (dp ++ [dn]) mes false = Ok c' /\ In c' cs).
    { clear - Hcs Hine. revert cs Hcs. induction es as [|e r IHr]; intros cs Hcs; [contradiction|].
      destruct Hine as [Heq|Hine].
      - subst e. cbn [psubs] in Hcs.
        destruct (pure_dir E j _ (SDir dn drn des) (dp ++ [dn]) mes false) as [c0|er]; [|discriminate].
        cbn [bind] in Hcs. destruct (psubs _ dp r) as [cs0|er]; [|discriminate]. cbn [bind] in Hcs.
        inversion Hcs; subst. exists c0. split; [reflexivity | left; reflexivity].
      - destruct e as [fn fd|bn|dn' drn' des']; cbn [psubs] in Hcs; try (apply IHr; assumption).
        destruct (pure_dir E j _ (SDir dn' drn' des') (dp ++ [dn']) mes false) as [c0|er]; [|discriminate].
        cbn [bind] in Hcs. destruct (psubs _ dp r) as [cs0|er] eqn:Hr; [|discriminate]. cbn [bind] in Hcs.
        inversion Hcs; subst. destruct (IHr Hine cs0 eq_refl) as (c' & H1 & H2). exists c'. split; [exact H1 | right; exact H2]. }
    destruct Hex as (c' & Hpe & Hinc).
    rewrite Forall_forall in IHes.
    destruct (IHes _ Hine j (N.of_nat (S j)) (dp ++ [dn]) mes false (rel ++ [dn]) c' Hpe eq_refl Hj) with (x := x')
      as (doc & title & mes' & r & Hc & Ht & Hs & Hr & Hreq & Hh & Hpath); [| |exact Hin'|].
    { intros src data mes0 Hin0. apply Hheap. apply in_or_app. left.
      clear - Hine Hin0. induction es as [|e r IHr]; [contradiction|].
      destruct Hine as [Heq|Hine].
      * subst e. cbn [asubs]. apply in_or_app. left. exact Hin0.
      * destruct e; cbn [asubs]; try (apply IHr; exact Hine). apply in_or_app. right. apply IHr. exact Hine. }
    { intro sv'. unfold cat_cpath, cat_seg. rewrite Hme, last_snoc. unfold cat_page_path at 1.
      rewrite href_parent_index. unfold cat_page_path. rewrite dir_prefix_snoc, <- !app_assoc. reflexivity. }
    exists doc, title, mes', r. rewrite <- !app_assoc in *. cbn [app] in *. repeat split; auto.
    right. apply in_or_app. left. apply in_flat_map. exists c'. split; [apply in_sort_by; exact Hinc | exact Hr].
Qed.

(** A rendered page for every page reference. *)
Lemma render_all_in fs hm h lookup : forall ps a pages a',
  render_all fs hm h lookup ps a = Ok (pages, a') ->
  forall r p, In (PRec r) ps -> deref h r = Some p ->
  exists po a0 a1, In (rpage_path p, po) pages /\ render_recipe fs hm h p lookup a0 = Ok (po, a1).
Proof.
  induction ps as [|pr ps IH]; intros a pages a' H r p Hin Hd; [contradiction|]. simpl in H.
  match type of H with bind ?x _ = _ => destruct x as [[po a1]|e] eqn:Hpo end; [|discriminate].
  cbn [bind] in H. destruct (render_all fs hm h lookup ps a1) as [[pos a2]|e] eqn:Hr; [|discriminate].
  cbn [bind] in H. inversion H; subst pages a'. clear H.
  destruct Hin as [Heq|Hin].
  - subst pr. rewrite Hd in Hpo. exists po, a, a1. split; [|exact Hpo].
    left. unfold pref_path. rewrite Hd. reflexivity.
  - destruct (IH a1 pos a2 Hr r p Hin Hd) as (po' & a0 & a3 & H1 & H2). exists po', a0, a3. split; [right; exact H1 | exact H2].
Qed.

Lemma render_recipe_scale fs hm h p lookup a po a' :
  render_recipe fs hm h p lookup a = Ok (po, a') ->
  po_factor po = Some (rp_factor p) /\ po_scaled po = d_scaled (rp_doc p) (rp_factor p) /\
  po_menu po = (if has_menu (d_items (rp_doc p))
                then map (fun kp => (key_text (fst kp), href_relative_url (rpage_path p) (rpage_path (snd kp))))
                         (sc_sorted (match heap_get (rp_source p) h with Some m => m | None => [] end))
                else []).
Proof.
  unfold render_recipe. cbv zeta.
  match goal with |- bind ?x _ = _ -> _ => destruct x as [orig|e] end; [|discriminate]. cbn [bind].
  match goal with |- bind ?x _ = _ -> _ => destruct x as [[body a0]|e] end; [|discriminate]. cbn [bind].
  intro H. inversion H; subst. cbn. repeat split; reflexivity.
Qed.

(** Site level: for every recipe of the tree and every count 1..M there is a written page, at
    the expected address, rendered at n / native (at 1 for a recipe without serving count), and
    the serving menu of a scalable recipe lists 1..M. *)
Theorem site_recipe_pages fs input M files root t :
  generate_static_site E fs input M = Ok files ->
  realpath fs input = ROk root -> view_root fs root = Some t -> uniq_names t -> 1 <= M ->
  forall x, In x (tree_recipes t) ->
  exists doc title, compile_recipe E (snd x) true false = Ok doc /\ d_title doc = Some title /\
  forall n, 1 <= n <= M ->
    match d_servings doc with
    | Some nv =>
        exists po, In (rec_page_path (serves_name n) (fst (fst x)) (snd (fst x)), CPageOut po) files /\
          po_factor po = Some (mk_factor n nv) /\ po_scaled po = d_scaled doc (mk_factor n nv) /\
          (has_menu (d_items doc) = true -> map fst (po_menu po) = map dec_N (N_seq 1 (N.to_nat M)))
    | None =>
        exists po, In (rec_page_path (s "categories") (fst (fst x)) (snd (fst x)), CPageOut po) files /\
          po_factor po = Some factor_one /\ po_scaled po = d_scaled doc factor_one
    end.
Proof.
  intros Hgen Hroot Hview Hu HM1 x Hx. unfold generate_static_site in Hgen. rewrite Hroot, Hview in Hgen.
  destruct (from_root_directory E t root M) as [[hm h]|e] eqn:Hb; [|discriminate]. cbn [bind] in Hgen.
  pose proof (from_root_directory_pure E t root M Hu) as Hpure.
  destruct (pure_root E t root M) as [hm'|e] eqn:Hp; [|rewrite Hb in Hpure; discriminate].
  destruct Hpure as (h0 & Hb0 & Hfin). rewrite Hb in Hb0. inversion Hb0; subst hm' h0. clear Hb0.
  unfold write_site in Hgen.
  destruct (render_all fs hm h (source_lookup hm h) (all_pages hm) []) as [[pages a]|e] eqn:Hra; [|discriminate].
  cbn [bind] in Hgen. destruct (copy_assets fs a) as [copies|e] eqn:Hca; [|discriminate]. cbn [bind] in Hgen.
  apply write_all_ok in Hgen. subst files.
  unfold pure_root in Hp. destruct t as [nm d|nm|nm rn es]; try discriminate.
  unfold final_heap_ok in Hfin.
  destruct (enumerate E root rn es) as [l|e] eqn:Hen; [|discriminate]. cbn [bind] in Hp.
  set (P := fun _ : option N => [(l_title l, home_path)]) in *.
  destruct (pure_scaled E (SDir nm rn es) root P 0 (N.to_nat M)) as [sc|e] eqn:Hsc; [|discriminate].
  cbn [bind] in Hp. destruct (pure_dir E (N.to_nat M) None (SDir nm rn es) root P true) as [un|e] eqn:Hun; [|discriminate].
  cbn [bind] in Hp. inversion Hp; subst hm. clear Hp.
  set (T := SDir nm rn es) in *.
  assert (Hpre : forall sv', cat_cpath sv' (P sv') root true = cat_page_path (top_name sv') []).
  { intro sv'. apply root_prefix_ok. }
  assert (HM : (1 <= N.to_nat M)%nat) by lia.
  (* facts about the document from pass 1 *)
  destruct (pure_scaled_total E _ _ _ _ _ _ Hsc 0%nat) as (c1 & Hpd1 & _); [lia|].
  destruct (dir_pages_refs (N.to_nat M) h T 0 (N.of_nat 1) root P true [] c1 Hpd1 eq_refl HM Hfin Hpre x Hx)
    as (doc & title & _ & _ & Hc & Ht & Hs & _).
  exists doc, title. split; [exact Hc|]. split; [exact Ht|]. intros n Hn.
  set (k := pred (N.to_nat n)).
  assert (Hk : N.of_nat (S k) = n) by (unfold k; lia).
  destruct (pure_scaled_total E _ _ _ _ _ _ Hsc k) as (c & Hpd & Hinc); [unfold k; lia|].
  assert (Hkj : (S k <= N.to_nat M)%nat) by (unfold k; lia).
  destruct (dir_pages_refs (N.to_nat M) h T k (N.of_nat (S k)) root P true [] c Hpd eq_refl Hkj Hfin Hpre x Hx)
    as (doc' & title' & mes & r & Hc' & Ht' & _ & Hr & Hreq & Hh & Hpath).
  rewrite Hc in Hc'. inversion Hc'; subst doc'. rewrite Ht in Ht'. inversion Ht'; subst title'.
  destruct (final_ref_page mes (root ++ fst (fst x)) (snd (fst x), snd x) doc title (N.to_nat M) k h Hkj Hc Ht Hs Hh)
    as (p & Hd & Hpt & Hpdoc & Hpsrc & Hpnat & Hcase).
  rewrite <- Hreq in Hd.
  assert (Hrin : In (PRec r) (all_pages {| h_title := l_title l; h_root := root; h_welcome := l_desc l;
                                           h_welcome_src := l_desc_src l; h_scaled := sc; h_unscaled := un |})).
  { unfold all_pages. cbn [h_scaled h_unscaled]. right. apply in_or_app. left.
    apply in_flat_map. exists (N.of_nat (S k), c). split; [exact Hinc | exact Hr]. }
  destruct (render_all_in _ _ _ _ _ _ _ _ Hra r p Hrin Hd) as (po & a0 & a1 & Hpage & Hrender).
  apply render_recipe_scale in Hrender as (Hf & Hsc' & Hmenu).
  assert (Hpp : rpage_path p = pref_path h (PRec r)) by (unfold pref_path; rewrite Hd; reflexivity).
  rewrite Hpath in Hpp. cbn [app] in Hpp. rewrite Hk in Hpp.
  assert (Hfile : In (rpage_path p, CPageOut po)
                    (map (fun pp => (fst pp, CPageOut (snd pp))) pages ++ [(css_path, CCss)] ++ copies)).
  { apply in_or_app. left. apply in_map_iff. exists (rpage_path p, po). split; [reflexivity | exact Hpage]. }
  rewrite Hpp in Hfile. unfold scalable, native_of in Hfile. rewrite Hc in Hfile.
  destruct (d_servings doc) as [nv|] eqn:Esv.
  - destruct Hcase as (Hps & Hpf & Hpar & Hheap).
    exists po. rewrite Hf, Hsc', Hpdoc, Hpf, Hk. split; [exact Hfile|]. split; [reflexivity|]. split; [reflexivity|].
    intro Hm. cbn [fst snd] in Hheap, Hpsrc. rewrite Hmenu, Hpdoc, Hm, Hpsrc.
    rewrite Hheap, sc_sorted_pages, !map_map. cbn [fst key_text]. reflexivity.
  - destruct Hcase as (Hps & Hpf & Hpar).
    exists po. rewrite Hf, Hsc', Hpdoc, Hpf. split; [exact Hfile|]. split; reflexivity.
Qed.

End Scale.
