(** * C10: the tag skeleton of a rendered cell equals the skeleton for the
    alphabetic twin of the cell. *)
From Coq Require Import List ZArith NArith Bool Lia String.
From RG Require Import Base.Str Base.Dec Base.Num Gen.GenUnits Model.Recipe Model.NumFmt Model.Table Model.Units
  Model.Html Model.HtmlTok Spec.UnitsRef Proofs.UnitsScan Proofs.UnitsTable
  Proofs.HtmlEscape Proofs.HtmlSim Proofs.HtmlIndent Proofs.HtmlTag Proofs.HtmlCells.
Import ListNotations.
Open Scope N_scope.

(** ** From good fragments to token lists *)
Lemma run_steps_finish st h : run st h = snd (steps st h) ++ finish (fst (steps st h)).
Proof. rewrite <- (app_nil_r h) at 1. rewrite run_app. reflexivity. Qed.

Lemma Good_tokenize h k : Good h k -> tag_skeleton (tokenize h) = k.
Proof.
  intro G. destruct (G []) as [_ [D K]]. unfold tokenize. rewrite run_steps_finish, tag_skeleton_app, K.
  destruct (fst (steps (SData []) h)); try contradiction. cbn [finish]. rewrite tag_skeleton_flush. apply app_nil_r.
Qed.

(** ** The alphabetic twin *)
Definition x_str : str := s "x".

Definition alpha_svs (l : svs) : svs :=
  map (fun p => match p with PStr _ => PStr x_str | PNum v => PNum v end) l.

(** a unit the unit system knows selects the alternative-unit list: it is kept
    (as its lower-case name, which is alphabetic); any other unit becomes "x" *)
Definition unit_known (u : str) : bool :=
  match iter_conversions_from u with (_, Some KeyError) => false | _ => true end.
Definition alpha_unit (u : str) : str := if unit_known (py_lower u) then py_lower u else x_str.

Definition alpha_quantity (q : quantity) : quantity :=
  mkQ (q_value q) (option_map alpha_unit (q_unit q))
      (match q_unit q with Some _ => x_str | None => [] end) x_str.

Definition alpha_proportion (p : proportion) : proportion :=
  match p with
  | PropVal v pc _ => PropVal v pc x_str
  | PropRem _ _ => PropRem x_str x_str
  end.

Definition alpha_amount (a : amount) : amount :=
  match a with AQty q => AQty (alpha_quantity q) | AProp p => AProp (alpha_proportion p) end.

Fixpoint alpha_node (t : node) : node :=
  match t with
  | Ingredient d q => Ingredient (alpha_svs d) (option_map alpha_quantity q)
  | Step d ins => Step (alpha_svs d) (map alpha_node ins)
  | Reference sub idx amt => Reference (alpha_node sub) idx (alpha_amount amt)
  | SubRecipe b names sh => SubRecipe (alpha_node b) (map alpha_svs names) sh
  end.

Definition alpha_cell (c : hcell) : hcell :=
  mkHCell (alpha_node (hc_value c)) (hc_rows c) (hc_cols c) (hc_left c) (hc_right c) (hc_top c) (hc_bottom c).

(** ** The skeleton functions ignore the strings *)
Lemma svs_skel_alpha l : svs_skel (alpha_svs l) = svs_skel l.
Proof.
  unfold svs_skel, alpha_svs. induction l as [|[x|v] l IH]; cbn [map flat_map]; rewrite ?IH; reflexivity.
Qed.

Lemma dict_get_In {V} k (d : list (str * V)) v : dict_get k d = Some v -> In k (map fst d).
Proof.
  induction d as [|[k' v'] d IH]; cbn [dict_get map fst]; [discriminate|].
  destruct (str_eqb k k') eqn:E.
  - intros _. left. symmetry. apply str_eqb_eq. exact E.
  - intro H. right. exact (IH H).
Qed.

Lemma unit_known_name u : unit_known u = true -> In u all_names.
Proof.
  unfold unit_known, iter_conversions_from, all_names. destruct the_system as [y|e] eqn:Es.
  - unfold sys_iter_conversions, sys_set_of, sys_iter_names, dict_keys.
    destruct (dict_get u (y_map y)) as [k|] eqn:E; [|discriminate]. intros _. exact (dict_get_In u _ k E).
  - destruct table_builds as [y Hy]. rewrite Es in Hy. discriminate.
Qed.

Lemma unit_known_lower u : unit_known u = true -> py_lower u = u.
Proof.
  intro H. apply (case_variant_lower u u (unit_known_name u H)). apply case_variant_refl.
Qed.

(** the numbers of the alternative forms only depend on the lower-cased unit *)
Definition alt_values (v : num) (u : str) : res (list num) :=
  match alt_forms v u with Ok forms => Ok (map fst forms) | Err e => Err e end.

Lemma alt_values_lower v u u' : py_lower u = py_lower u' -> alt_values v u = alt_values v u'.
Proof.
  intro E. unfold alt_values, alt_forms. rewrite E.
  destruct (iter_conversions_from (py_lower u')) as [ys [e|]].
  - destruct e; reflexivity.
  - destruct (scale_forms v (sorted_conversions ys)) as [[|[v0 n0] rest]|]; try reflexivity.
    destruct (num_eqb v0 v); reflexivity.
Qed.

Lemma x_unknown : py_lower x_str = x_str /\ unit_known x_str = false.
Proof. vm_compute. split; reflexivity. Qed.

Lemma alt_values_alpha v u : alt_values v (alpha_unit u) = alt_values v u.
Proof.
  unfold alpha_unit. destruct (unit_known (py_lower u)) eqn:K.
  - apply alt_values_lower. apply unit_known_lower. exact K.
  - destruct x_unknown as [Lx Kx]. unfold alt_values, alt_forms. rewrite Lx.
    unfold unit_known in K, Kx.
    destruct (iter_conversions_from (py_lower u)) as [ys [[]|]]; try discriminate.
    destruct (iter_conversions_from x_str) as [ys' [[]|]]; try discriminate. reflexivity.
Qed.

Lemma quantity_skel_values q :
  quantity_skel q = match q_unit q with
                    | None => span_skel [a_class] (number_skel (q_value q))
                    | Some u => match alt_values (q_value q) u with Ok vals => forms_skel vals | Err _ => [] end
                    end.
Proof.
  unfold quantity_skel, alt_values. destruct (q_unit q) as [u|]; [|reflexivity].
  destruct (alt_forms (q_value q) u); reflexivity.
Qed.

Lemma quantity_skel_alpha q : quantity_skel (alpha_quantity q) = quantity_skel q.
Proof.
  rewrite !quantity_skel_values. unfold alpha_quantity. cbn [q_unit q_value]. destruct (q_unit q) as [u|]; [|reflexivity].
  cbn [option_map]. rewrite alt_values_alpha. reflexivity.
Qed.

Lemma proportion_skel_alpha p : proportion_skel (alpha_proportion p) = proportion_skel p.
Proof. destruct p; reflexivity. Qed.

Lemma amount_skel_alpha a : amount_skel (alpha_amount a) = amount_skel a.
Proof.
  destruct a as [q|[v pc pr|w pr]]; cbn [alpha_amount amount_skel alpha_proportion].
  - apply quantity_skel_alpha.
  - reflexivity.
  - reflexivity.
Qed.

Lemma outputs_skel_alpha names : outputs_skel (map alpha_svs names) = outputs_skel names.
Proof.
  unfold outputs_skel. rewrite map_map. f_equal. f_equal. f_equal. apply map_ext. intro nm. rewrite svs_skel_alpha. reflexivity.
Qed.

Lemma cell_body_skel_alpha v : cell_body_skel (alpha_node v) = cell_body_skel v.
Proof.
  destruct v as [d q|d ins|sub idx amt|b names sh]; cbn [alpha_node cell_body_skel].
  - unfold ingredient_skel. rewrite svs_skel_alpha. destruct q as [q0|]; cbn [option_map]; [rewrite quantity_skel_alpha|]; reflexivity.
  - apply svs_skel_alpha.
  - destruct sub as [| | |b names sh]; try reflexivity. cbn [alpha_node reference_skel].
    rewrite nth_error_map. destruct (nth_error names idx) as [nm|]; cbn [option_map]; [|reflexivity].
    rewrite amount_skel_alpha, svs_skel_alpha. reflexivity.
  - destruct names as [|nm [|nm2 rest]]; cbn [map].
    + reflexivity.
    + apply svs_skel_alpha.
    + exact (outputs_skel_alpha (nm :: nm2 :: rest)).
Qed.

Theorem cell_skel_alpha c : cell_skel (alpha_cell c) = cell_skel c.
Proof.
  unfold cell_skel, alpha_cell, span_attr_names. cbn [hc_value hc_cols hc_rows]. rewrite cell_body_skel_alpha. reflexivity.
Qed.

(** ** The theorem *)
Theorem cell_skeleton c prefix h : val_ok prefix -> render_cell c prefix = Ok h ->
  tag_skeleton (tokenize h) = cell_skel c.
Proof. intros Hp H. exact (Good_tokenize h _ (Good_render_cell c prefix h Hp H)). Qed.

Theorem cell_skeleton_twin c prefix h h' : val_ok prefix ->
  render_cell c prefix = Ok h -> render_cell (alpha_cell c) prefix = Ok h' ->
  tag_skeleton (tokenize h) = tag_skeleton (tokenize h').
Proof.
  intros Hp H H'. rewrite (cell_skeleton c prefix h Hp H), (cell_skeleton _ prefix h' Hp H'). symmetry. apply cell_skel_alpha.
Qed.

(** no token outside the specification: the skeleton has no error marker *)
Definition skel_clean (l : list skel) : bool :=
  forallb (fun k => match k with KError => false | _ => true end) l.

Lemma skel_clean_app a b : skel_clean (a ++ b) = skel_clean a && skel_clean b.
Proof. apply forallb_app. Qed.

Lemma skel_clean_concat {A} (f : A -> list skel) l :
  (forall x, skel_clean (f x) = true) -> skel_clean (List.concat (map f l)) = true.
Proof.
  intro H. induction l as [|x l IH]; [reflexivity|]. cbn [map List.concat]. rewrite skel_clean_app, H, IH. reflexivity.
Qed.

Lemma number_skel_clean v : skel_clean (number_skel v) = true.
Proof. unfold number_skel, num_skel. destruct (format_number v) as [x|]; [destruct (fraction_shape x)|]; reflexivity. Qed.

Lemma svs_skel_clean l : skel_clean (svs_skel l) = true.
Proof.
  unfold svs_skel. induction l as [|[x|v] l IH]; cbn [flat_map]; [reflexivity | exact IH |].
  rewrite skel_clean_app, IH. cbn [skel_clean forallb]. fold (skel_clean (number_skel v ++ [KEnd tag_span])).
  rewrite skel_clean_app, number_skel_clean. reflexivity.
Qed.

Lemma span_skel_clean a k : skel_clean k = true -> skel_clean (span_skel a k) = true.
Proof.
  intro H. unfold span_skel. cbn [skel_clean forallb]. fold (skel_clean (k ++ [KEnd tag_span])).
  rewrite skel_clean_app, H. reflexivity.
Qed.

Lemma li_skel_clean a k : skel_clean k = true -> skel_clean (li_skel a k) = true.
Proof.
  intro H. unfold li_skel. cbn [skel_clean forallb]. fold (skel_clean (k ++ [KEnd tag_li])).
  rewrite skel_clean_app, H. reflexivity.
Qed.

Lemma forms_skel_clean vals : skel_clean (forms_skel vals) = true.
Proof.
  destruct vals as [|v [|w others]]; cbn [forms_skel]; [reflexivity | apply span_skel_clean, number_skel_clean |].
  apply span_skel_clean. rewrite skel_clean_app, number_skel_clean. cbn [andb skel_clean forallb].
  fold (skel_clean (List.concat (map (fun w0 => li_skel [] (number_skel w0)) (w :: others)) ++ [KEnd tag_ul])).
  rewrite skel_clean_app, skel_clean_concat; [reflexivity|]. intro x. apply li_skel_clean, number_skel_clean.
Qed.

Lemma quantity_skel_clean q : skel_clean (quantity_skel q) = true.
Proof.
  unfold quantity_skel. destruct (q_unit q) as [u|]; [|apply span_skel_clean, number_skel_clean].
  destruct (alt_forms (q_value q) u); [apply forms_skel_clean | reflexivity].
Qed.

Lemma proportion_skel_clean p : skel_clean (proportion_skel p) = true.
Proof.
  destruct p as [v pc pr|w pr]; cbn [proportion_skel]; [|reflexivity].
  destruct (shown_value v pc); [apply span_skel_clean, number_skel_clean | reflexivity].
Qed.

Lemma amount_skel_clean a : skel_clean (amount_skel a) = true.
Proof.
  destruct a as [q|[v pc pr|w pr]]; cbn [amount_skel].
  - apply quantity_skel_clean.
  - destruct (num_eqb v float_one); [reflexivity | apply proportion_skel_clean].
  - apply proportion_skel_clean.
Qed.

Lemma outputs_skel_clean names : skel_clean (outputs_skel names) = true.
Proof.
  unfold outputs_skel. cbn [skel_clean forallb].
  fold (skel_clean (List.concat (map (fun nm => li_skel [a_id] (svs_skel nm)) names) ++ [KEnd tag_ul])).
  rewrite skel_clean_app, skel_clean_concat; [reflexivity|]. intro nm. apply li_skel_clean, svs_skel_clean.
Qed.

Lemma cell_body_skel_clean v : skel_clean (cell_body_skel v) = true.
Proof.
  destruct v as [d q|d ins|sub idx amt|b names sh]; cbn [cell_body_skel].
  - unfold ingredient_skel. rewrite skel_clean_app, svs_skel_clean. destruct q; [rewrite quantity_skel_clean|]; reflexivity.
  - apply svs_skel_clean.
  - destruct sub as [| | |b names sh]; try reflexivity. cbn [reference_skel].
    destruct (nth_error names idx) as [nm|]; [|reflexivity]. cbn [skel_clean forallb].
    fold (skel_clean ((amount_skel amt ++ svs_skel nm) ++ [KEnd tag_a])).
    rewrite !skel_clean_app, amount_skel_clean, svs_skel_clean. reflexivity.
  - destruct names as [|nm [|nm2 rest]]; [apply outputs_skel_clean | apply svs_skel_clean | apply outputs_skel_clean].
Qed.

Theorem cell_skel_clean c : skel_clean (cell_skel c) = true.
Proof.
  unfold cell_skel. cbn [skel_clean forallb]. fold (skel_clean (cell_body_skel (hc_value c) ++ [KEnd tag_td])).
  rewrite skel_clean_app, cell_body_skel_clean. reflexivity.
Qed.

Theorem cell_skeleton_all c prefix h h' :
  val_ok prefix -> render_cell c prefix = Ok h -> render_cell (alpha_cell c) prefix = Ok h' ->
  tag_skeleton (tokenize h) = tag_skeleton (tokenize h') /\
  tag_skeleton (tokenize h) = cell_skel c /\ skel_clean (cell_skel c) = true.
Proof.
  intros Hp H H'. split; [exact (cell_skeleton_twin c prefix h h' Hp H H')|].
  split; [exact (cell_skeleton c prefix h Hp H) | exact (cell_skel_clean c)].
Qed.
