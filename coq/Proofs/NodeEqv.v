(** * Dataclass equality [node_eqb] is symmetric and transitive. *)
From Coq Require Import List ZArith NArith Bool Lia.
From RG Require Import Base.Str Base.Num Model.Recipe Proofs.RecipeInd.
Import ListNotations.

Lemma to_frac_pos a : (0 < Zpos (snd (to_frac a)))%Z.
Proof. lia. Qed.

Lemma num_eqb_sym a b : num_eqb a b = num_eqb b a.
Proof.
  unfold num_eqb. destruct (to_frac a) as [n1 d1], (to_frac b) as [n2 d2].
  apply Z.eqb_sym.
Qed.

Lemma num_eqb_trans a b c : num_eqb a b = true -> num_eqb b c = true -> num_eqb a c = true.
Proof.
  unfold num_eqb. destruct (to_frac a) as [n1 d1], (to_frac b) as [n2 d2], (to_frac c) as [n3 d3].
  rewrite !Z.eqb_eq. intros H1 H2.
  assert (Hd : (0 < Zpos d2)%Z) by lia.
  apply (Z.mul_cancel_r _ _ (Zpos d2)); [lia|].
  transitivity (n1 * Zpos d2 * Zpos d3)%Z; [ring|].
  rewrite H1. transitivity (n2 * Zpos d3 * Zpos d1)%Z; [ring|]. rewrite H2. ring.
Qed.

Section ListEqb.
  Context {A : Type} (eqb : A -> A -> bool).

  Lemma list_eqb_sym_in l l' :
    (forall x y, In x l -> eqb x y = eqb y x) -> list_eqb eqb l l' = list_eqb eqb l' l.
  Proof.
    revert l'. induction l as [|x l IH]; destruct l' as [|y l']; simpl; intros H; try reflexivity.
    rewrite (H x y) by (left; reflexivity). f_equal. apply IH. intros; apply H; right; assumption.
  Qed.

  Lemma list_eqb_trans_in l l' l'' :
    (forall x y z, In x l -> eqb x y = true -> eqb y z = true -> eqb x z = true) ->
    list_eqb eqb l l' = true -> list_eqb eqb l' l'' = true -> list_eqb eqb l l'' = true.
  Proof.
    revert l' l''. induction l as [|x l IH]; destruct l' as [|y l'], l'' as [|z l'']; simpl; intros H H1 H2;
      try reflexivity; try discriminate.
    apply andb_true_iff in H1 as [H1a H1b]. apply andb_true_iff in H2 as [H2a H2b].
    apply andb_true_iff; split.
    - eapply H; [left; reflexivity | eassumption | eassumption].
    - eapply IH; [| eassumption | eassumption].
      intros x0 y0 z0 Hin; apply H; right; assumption.
  Qed.
End ListEqb.

Lemma str_eqb_sym a b : str_eqb a b = str_eqb b a.
Proof. unfold str_eqb. apply list_eqb_sym_in. intros; apply N.eqb_sym. Qed.

Lemma str_eqb_trans a b c : str_eqb a b = true -> str_eqb b c = true -> str_eqb a c = true.
Proof. rewrite !str_eqb_eq. congruence. Qed.

Lemma part_eqb_sym a b : part_eqb a b = part_eqb b a.
Proof. destruct a, b; simpl; auto using str_eqb_sym, num_eqb_sym. Qed.

Lemma part_eqb_trans a b c : part_eqb a b = true -> part_eqb b c = true -> part_eqb a c = true.
Proof. destruct a, b, c; simpl; try discriminate; eauto using str_eqb_trans, num_eqb_trans. Qed.

Lemma svs_eqb_sym a b : svs_eqb a b = svs_eqb b a.
Proof. apply list_eqb_sym_in. intros; apply part_eqb_sym. Qed.

Lemma svs_eqb_trans a b c : svs_eqb a b = true -> svs_eqb b c = true -> svs_eqb a c = true.
Proof. apply list_eqb_trans_in. intros; eapply part_eqb_trans; eauto. Qed.

Lemma option_eqb_sym {A} (eqb : A -> A -> bool) (H : forall x y, eqb x y = eqb y x) a b :
  option_eqb eqb a b = option_eqb eqb b a.
Proof. destruct a, b; simpl; auto. Qed.

Lemma option_eqb_trans {A} (eqb : A -> A -> bool)
  (H : forall x y z, eqb x y = true -> eqb y z = true -> eqb x z = true) a b c :
  option_eqb eqb a b = true -> option_eqb eqb b c = true -> option_eqb eqb a c = true.
Proof. destruct a, b, c; simpl; try discriminate; eauto. Qed.

Lemma bool_eqb_sym a b : Bool.eqb a b = Bool.eqb b a.
Proof. destruct a, b; reflexivity. Qed.

Lemma bool_eqb_trans a b c : Bool.eqb a b = true -> Bool.eqb b c = true -> Bool.eqb a c = true.
Proof. destruct a, b, c; simpl; auto. Qed.

Lemma quantity_eqb_sym a b : quantity_eqb a b = quantity_eqb b a.
Proof.
  unfold quantity_eqb. rewrite (num_eqb_sym (q_value a)), (str_eqb_sym (q_spacing a)), (str_eqb_sym (q_prep a)).
  rewrite (option_eqb_sym str_eqb str_eqb_sym (q_unit a)). reflexivity.
Qed.

Lemma quantity_eqb_trans a b c :
  quantity_eqb a b = true -> quantity_eqb b c = true -> quantity_eqb a c = true.
Proof.
  unfold quantity_eqb. rewrite !andb_true_iff. intros [[[H1 H2] H3] H4] [[[G1 G2] G3] G4].
  repeat split; eauto using num_eqb_trans, str_eqb_trans.
  eapply option_eqb_trans; eauto using str_eqb_trans.
Qed.

Lemma proportion_eqb_sym a b : proportion_eqb a b = proportion_eqb b a.
Proof.
  destruct a, b; simpl; try reflexivity.
  - now rewrite num_eqb_sym, bool_eqb_sym, str_eqb_sym.
  - now rewrite str_eqb_sym, (str_eqb_sym prep).
Qed.

Lemma proportion_eqb_trans a b c :
  proportion_eqb a b = true -> proportion_eqb b c = true -> proportion_eqb a c = true.
Proof.
  destruct a, b, c; simpl; try discriminate; rewrite !andb_true_iff.
  - intros [[? ?] ?] [[? ?] ?]. repeat split; eauto using num_eqb_trans, bool_eqb_trans, str_eqb_trans.
  - intros [? ?] [? ?]. split; eauto using str_eqb_trans.
Qed.

Lemma amount_eqb_sym a b : amount_eqb a b = amount_eqb b a.
Proof. destruct a, b; simpl; auto using quantity_eqb_sym, proportion_eqb_sym. Qed.

Lemma amount_eqb_trans a b c : amount_eqb a b = true -> amount_eqb b c = true -> amount_eqb a c = true.
Proof. destruct a, b, c; simpl; try discriminate; eauto using quantity_eqb_trans, proportion_eqb_trans. Qed.

Lemma node_eqb_SubRecipe b ns sh b' ns' sh' :
  node_eqb (SubRecipe b ns sh) (SubRecipe b' ns' sh') =
  node_eqb b b' && list_eqb svs_eqb ns ns' && Bool.eqb sh sh'.
Proof. reflexivity. Qed.

Lemma node_eqb_Reference sr i a sr' i' a' :
  node_eqb (Reference sr i a) (Reference sr' i' a') = node_eqb sr sr' && Nat.eqb i i' && amount_eqb a a'.
Proof. reflexivity. Qed.

Lemma node_eqb_sym : forall a b, node_eqb a b = node_eqb b a.
Proof.
  induction a as [d q|d ins IH|sr i am IH|bd ns sh IH] using node_ind'; destruct b as [d' q'|d' ins'|sr' i' am'|bd' ns' sh'];
    try reflexivity.
  - simpl. rewrite svs_eqb_sym. f_equal. apply option_eqb_sym, quantity_eqb_sym.
  - rewrite !node_eqb_Step, svs_eqb_sym. f_equal.
    apply list_eqb_sym_in. intros x y Hx. rewrite Forall_forall in IH. apply IH; assumption.
  - rewrite !node_eqb_Reference, IH, Nat.eqb_sym, amount_eqb_sym. reflexivity.
  - rewrite !node_eqb_SubRecipe, IH, bool_eqb_sym. f_equal. f_equal.
    apply list_eqb_sym_in. intros; apply svs_eqb_sym.
Qed.

Lemma node_eqb_trans : forall a b c, node_eqb a b = true -> node_eqb b c = true -> node_eqb a c = true.
Proof.
  induction a as [d q|d ins IH|sr i am IH|bd ns sh IH] using node_ind';
    destruct b as [d' q'|d' ins'|sr' i' am'|bd' ns' sh']; try (simpl; discriminate);
    destruct c as [d'' q''|d'' ins''|sr'' i'' am''|bd'' ns'' sh'']; try (simpl; intros; discriminate).
  - simpl. rewrite !andb_true_iff. intros [H1 H2] [G1 G2]. split; eauto using svs_eqb_trans.
    eapply option_eqb_trans; eauto using quantity_eqb_trans.
  - rewrite !node_eqb_Step, !andb_true_iff. intros [H1 H2] [G1 G2]. split; eauto using svs_eqb_trans.
    eapply list_eqb_trans_in; eauto. intros x y z Hx. rewrite Forall_forall in IH. apply IH; assumption.
  - rewrite !node_eqb_Reference, !andb_true_iff. intros [[H1 H2] H3] [[G1 G2] G3].
    repeat split; eauto using amount_eqb_trans.
    apply Nat.eqb_eq in H2, G2. apply Nat.eqb_eq. congruence.
  - rewrite !node_eqb_SubRecipe, !andb_true_iff. intros [[H1 H2] H3] [[G1 G2] G3].
    repeat split; eauto using bool_eqb_trans.
    eapply list_eqb_trans_in; eauto. intros; eapply svs_eqb_trans; eauto.
Qed.
