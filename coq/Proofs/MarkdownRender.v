(** * [md_render = spec_render] under [Fresh] (C13), and the block / group theorems. *)
From Coq Require Import List ZArith NArith Bool Arith Lia Permutation.
From Coq Require String.
Import String.StringSyntax.
From RG Require Import Base.Str Base.Dec Base.Num Model.Recipe Model.NumFmt Model.NumParse
  Model.LineCol Model.Title Model.Brace Model.Markdown Spec.MarkdownSpec.
From RG Require Import Proofs.Replace Proofs.MarkdownText Proofs.MarkdownSubst Proofs.MarkdownCompile.
Import ListNotations.
Open Scope N_scope.

(** ** Groups: the model's incremental grouping is [spec_groups] *)

Lemma groups_rel : forall es bs gm gs,
  map snd es = map to_rsb bs -> map (map snd) gm = map (map to_rsb) gs ->
  map (map snd) (fold_left add_rsb es gm) = map (map to_rsb) (fold_left add_block bs gs).
Proof.
  induction es as [|[p r] es IH]; intros bs gm gs Hes Hg.
  - destruct bs; [exact Hg | discriminate].
  - destruct bs as [|b bs]; [discriminate|]. simpl in Hes. injection Hes as Hr Hes. subst r.
    cbn [fold_left]. apply IH; [exact Hes|].
    unfold add_rsb, add_block. cbn [snd to_rsb rsb_new].
    destruct gm as [|g gm']; destruct gs as [|sg gs']; try discriminate.
    + reflexivity.
    + simpl in Hg. injection Hg as Hg1 Hg2.
      destruct (starts_group b).
      * simpl. rewrite Hg1, Hg2. reflexivity.
      * simpl. rewrite !map_app. simpl. rewrite Hg1, Hg2. reflexivity.
Qed.

Lemma add_rsb_nonempty gm e : Forall (fun g => g <> []) gm -> Forall (fun g => g <> []) (add_rsb gm e).
Proof.
  intros H. unfold add_rsb. destruct gm as [|g r].
  - constructor; [discriminate | constructor].
  - inversion H; subst. destruct (rsb_new (snd e)).
    + constructor; [discriminate | assumption].
    + constructor; [destruct g; discriminate | assumption].
Qed.

Lemma fold_add_rsb_nonempty es : forall gm,
  Forall (fun g => g <> []) gm -> Forall (fun g : list (str * rsb) => g <> []) (fold_left add_rsb es gm).
Proof.
  induction es as [|e es IH]; intros gm H; [exact H|]. simpl. apply IH. apply add_rsb_nonempty. exact H.
Qed.

Lemma fold_add_rsb_concat es : forall gm,
  concat (rev (fold_left add_rsb es gm)) = concat (rev gm) ++ es.
Proof.
  induction es as [|e es IH]; intros gm; [rewrite app_nil_r; reflexivity|].
  simpl. rewrite IH. unfold add_rsb. destruct gm as [|g r].
  - simpl. reflexivity.
  - destruct (rsb_new (snd e)).
    + simpl rev. rewrite !concat_app. simpl concat. rewrite ?app_nil_r, <- ?app_assoc. reflexivity.
    + simpl rev. rewrite !concat_app. simpl concat. rewrite ?app_nil_r, <- ?app_assoc. reflexivity.
Qed.

(** ** Ordered dictionaries with fresh keys *)

Lemma od_set_all_fresh {V} (kvs : list (str * V)) : forall acc,
  NoDup (map fst acc ++ map fst kvs) -> od_set_all kvs acc = acc ++ kvs.
Proof.
  induction kvs as [|[k v] kvs IH]; intros acc H; [rewrite app_nil_r; reflexivity|].
  cbn [od_set_all]. simpl in H.
  assert (Hk : ~ In k (map fst acc)).
  { apply NoDup_remove_2 in H. intros Hin. apply H. apply in_or_app. left; exact Hin. }
  rewrite od_set_fresh by exact Hk. rewrite IH.
  - rewrite <- app_assoc. reflexivity.
  - rewrite map_app. simpl. rewrite <- app_assoc. simpl.
    apply NoDup_remove_1 in H as H1.
    eapply Permutation_NoDup; [|exact H].
    apply Permutation_app_head. apply Permutation_refl.
Qed.

Lemma NoDup_app_l {A} (a b : list A) : NoDup (a ++ b) -> NoDup a.
Proof.
  induction a as [|x a IH]; simpl; intros H; [constructor|].
  inversion H; subst. constructor; [|auto]. intros Hin. apply H2. apply in_or_app. left; exact Hin.
Qed.

Lemma NoDup_app_r {A} (a b : list A) : NoDup (a ++ b) -> NoDup b.
Proof. induction a as [|x a IH]; simpl; intros H; [exact H|]. inversion H; auto. Qed.

Lemma combine_app {A B} (a1 a2 : list A) (b1 b2 : list B) : length a1 = length b1 ->
  combine (a1 ++ a2) (b1 ++ b2) = combine a1 b1 ++ combine a2 b2.
Proof.
  revert b1; induction a1 as [|x a1 IH]; intros [|y b1] H; simpl in *; try discriminate; [reflexivity|].
  rewrite IH by lia. reflexivity.
Qed.

Lemma map_fst_combine {A B} (a : list A) (b : list B) : length a = length b -> map fst (combine a b) = a.
Proof.
  revert b; induction a as [|x a IH]; intros [|y b] H; simpl in *; try discriminate; [reflexivity|].
  rewrite IH by lia. reflexivity.
Qed.

Lemma mark_first_length f l : length (mark_first f l) = length l.
Proof. revert f; induction l as [|b l IH]; intros f; simpl; [reflexivity|]. rewrite IH. reflexivity. Qed.

(** ** Compilation group by group *)

Section Render.
  Variable alt_escape : str -> str.
  Variable compile : list str -> option (list (list node)).
  Variable render_block : num -> str -> list node -> list str.
  Hypothesis compile_len : compile_len_ok compile.

  Definition div_of (k : num) (c : N * list node) : str :=
    recipe_div render_block k (id_prefix (fst c)) (snd c).

  Lemma subs_recipes_nofirst k idx : forall phs blocks rest, length phs = length blocks ->
    subs_recipes render_block k idx (combine phs (mark_first false blocks) ++ rest) =
    combine phs (map (fun t => recipe_div render_block k (id_prefix idx) t) blocks)
    ++ subs_recipes render_block k idx rest.
  Proof.
    induction phs as [|p phs IH]; intros [|b blocks] rest H; simpl in *; try discriminate; [reflexivity|].
    rewrite IH by lia. reflexivity.
  Qed.

  Lemma subs_recipes_group k idx phs blocks rest : length phs = length blocks -> phs <> [] ->
    subs_recipes render_block k idx (combine phs (mark_first true blocks) ++ rest) =
    combine phs (map (fun t => div_of k (idx + 1, t)) blocks)
    ++ subs_recipes render_block k (idx + 1) rest.
  Proof.
    intros H Hne. destruct phs as [|p phs]; [congruence|]. destruct blocks as [|b blocks]; [discriminate|].
    simpl in H. cbn [mark_first combine app subs_recipes map]. unfold div_of at 1. cbn [fst snd].
    f_equal. rewrite subs_recipes_nofirst by lia. reflexivity.
  Qed.

  Definition srcs_of (text : str) (g : list (str * rsb)) : list str :=
    map (fun pb => corrected_source text (N.to_nat (rsb_pos (snd pb))) (rsb_fenced (snd pb)) (rsb_src (snd pb))) g.

  Lemma srcs_of_spec text g sg : map snd g = map to_rsb sg -> srcs_of text g = map (padded_source text) sg.
  Proof.
    revert sg; induction g as [|[p r] g IH]; intros [|b sg] H; simpl in *; try discriminate; [reflexivity|].
    injection H as Hr H. subst r. rewrite (IH _ H). reflexivity.
  Qed.

  Lemma compile_groups_spec text : forall gm gs acc idx recipes,
    map (map snd) gm = map (map to_rsb) gs ->
    Forall (fun g => g <> []) gm ->
    NoDup (map fst acc ++ map fst (concat gm)) ->
    compile_groups compile text gm acc = MOk recipes ->
    exists cbs news,
      spec_compile compile text (idx + 1) gs = MOk cbs /\
      recipes = acc ++ news /\
      map fst news = map fst (concat gm) /\
      length cbs = length (concat gm) /\
      (forall k, subs_recipes render_block k idx news =
                 combine (map fst (concat gm)) (map (div_of k) cbs)).
  Proof.
    induction gm as [|g gm IH]; intros gs acc idx recipes Hrel Hne Hnd H.
    - destruct gs; [|discriminate]. simpl in H. injection H as <-.
      exists [], []. simpl. rewrite app_nil_r. repeat split; reflexivity.
    - destruct gs as [|sg gs]; [discriminate|]. simpl in Hrel. injection Hrel as Hg Hrel.
      inversion Hne as [|? ? Hgne Hne']; subst.
      cbn [compile_groups] in H. fold (srcs_of text g) in H.
      rewrite (srcs_of_spec text g sg Hg) in H.
      cbn [spec_compile].
      destruct (compile (map (padded_source text) sg)) as [blocks|] eqn:Ec; [|discriminate].
      pose proof (compile_len _ _ Ec) as Hlen. rewrite map_length in Hlen.
      assert (Hlg : length g = length sg).
      { rewrite <- (map_length snd g), Hg, map_length. reflexivity. }
      assert (Hl2 : length (map fst g) = length (mark_first true blocks)).
      { rewrite map_length, mark_first_length. lia. }
      simpl in Hnd. rewrite map_app in Hnd.
      rewrite od_set_all_fresh in H.
      2:{ rewrite map_fst_combine by exact Hl2.
          rewrite app_assoc in Hnd. apply NoDup_app_l in Hnd. exact Hnd. }
      destruct (IH gs (acc ++ combine (map fst g) (mark_first true blocks)) (idx + 1) recipes Hrel Hne')
        as (cbs & news & Hsc & Hrec & Hk & Hlc & Hsub).
      { rewrite map_app, map_fst_combine by exact Hl2. rewrite <- app_assoc. exact Hnd. }
      { exact H. }
      rewrite Hsc. cbn [mbind].
      exists (map (fun t => (idx + 1, t)) blocks ++ cbs),
             (combine (map fst g) (mark_first true blocks) ++ news).
      split; [reflexivity|]. split; [rewrite Hrec, <- app_assoc; reflexivity|].
      split; [rewrite map_app, map_fst_combine by exact Hl2; rewrite Hk; simpl; rewrite map_app; reflexivity|].
      split; [simpl; rewrite !app_length, map_length, Hlc; lia|].
      intros k. rewrite subs_recipes_group.
      + rewrite Hsub. simpl concat. rewrite !map_app. rewrite combine_app.
        * rewrite map_map. reflexivity.
        * rewrite !map_length. lia.
      + rewrite map_length, mark_first_length in Hl2. rewrite map_length. lia.
      + destruct g; [congruence | discriminate].
  Qed.
End Render.

(** ** The holes of a template, by kind *)

Definition hdr_keys (tt : list tseg) : list str :=
  flat_map (fun x => match x with THole p KPre => [p] | THole p (KPost _) => [p] | _ => [] end) tt.

Lemma holes_perm tt :
  Permutation (holes (names tt)) (map fst (svs_entries tt) ++ map fst (rec_entries tt) ++ hdr_keys tt).
Proof.
  induction tt as [|x tt IH]; [apply Permutation_refl|].
  destruct x as [h|p [v|b| |serv]]; simpl.
  - exact IH.
  - apply perm_skip. exact IH.
  - change (holes (SHole p :: names tt)) with (p :: holes (names tt)).
    etransitivity; [apply perm_skip; exact IH|]. apply Permutation_middle.
  - change (holes (SHole p :: names tt)) with (p :: holes (names tt)).
    etransitivity; [apply perm_skip; exact IH|].
    rewrite !app_assoc. apply Permutation_middle.
  - change (holes (SHole p :: names tt)) with (p :: holes (names tt)).
    etransitivity; [apply perm_skip; exact IH|].
    rewrite !app_assoc. apply Permutation_middle.
Qed.

Lemma hdr_keys_app a b : hdr_keys (a ++ b) = hdr_keys a ++ hdr_keys b.
Proof. apply flat_map_app. Qed.

Lemma nhdr_keys tt : nhdr tt = true -> hdr_keys tt = [].
Proof.
  induction tt as [|x tt IH]; [reflexivity|]. simpl. intros H. apply andb_true_iff in H as [H1 H2].
  rewrite (IH H2). destruct x as [h|p [v|b| |serv]]; try reflexivity; discriminate.
Qed.

Lemma nhdr_no_pre tt p : nhdr tt = true -> ~ In (THole p KPre) tt.
Proof.
  intros H Hin. unfold nhdr in H. rewrite forallb_forall in H. specialize (H _ Hin). discriminate.
Qed.
Lemma nhdr_no_post tt p sv : nhdr tt = true -> ~ In (THole p (KPost sv)) tt.
Proof.
  intros H Hin. unfold nhdr in H. rewrite forallb_forall in H. specialize (H _ Hin). discriminate.
Qed.

Lemma in_svs_entries tt p v : In (THole p (KSvs v)) tt -> In (p, v) (svs_entries tt).
Proof.
  intros H. unfold svs_entries. apply in_flat_map. exists (THole p (KSvs v)). split; [exact H | left; reflexivity].
Qed.

Lemma NoDup_map_mk d : NoDup d -> NoDup (map mk_placeholder d).
Proof.
  induction d as [|g d IH]; intros H; [constructor|]. inversion H; subst. simpl. constructor; [|auto].
  intros Hin. apply in_map_iff in Hin as (g' & E & Hg'). apply mk_placeholder_inj in E. subst g'. contradiction.
Qed.

Lemma Forall2_combine {A B} (R : A -> B -> Prop) : forall (l1 : list A) (l2 : list B),
  length l1 = length l2 -> (forall x y, In (x, y) (combine l1 l2) -> R x y) -> Forall2 R l1 l2.
Proof.
  induction l1 as [|x l1 IH]; intros [|y l2] Hl H; simpl in *; try discriminate; constructor.
  - apply H. left; reflexivity.
  - apply IH; [lia|]. intros a b Hab. apply H. right; exact Hab.
Qed.

Lemma in_combine_map {A B C D} (f : A -> C) (g : B -> D) : forall (l1 : list A) (l2 : list B) x y,
  In (x, y) (combine l1 l2) -> In (f x, g y) (combine (map f l1) (map g l2)).
Proof.
  induction l1 as [|a l1 IH]; intros [|b l2] x y H; simpl in *; try contradiction.
  destruct H as [H|H]; [injection H as <- <-; left; reflexivity | right; apply IH; exact H].
Qed.

Section Final2.
  Variable alt_escape : str -> str.
  Variable compile : list str -> option (list (list node)).
  Variable render_block : num -> str -> list node -> list str.
  Hypothesis compile_len : compile_len_ok compile.

  Lemma subs_svs_keys k : forall l a, subs_svs k l = MOk a -> map fst a = map fst l.
  Proof.
    induction l as [|[p v] l IH]; intros a H; simpl in H.
    - injection H as <-. reflexivity.
    - destruct (spec_value k v) as [x|e]; cbn [mbind] in H; [|discriminate].
      destruct (subs_svs k l) as [r|e]; cbn [mbind] in H; [|discriminate].
      injection H as <-. simpl. rewrite (IH r eq_refl). reflexivity.
  Qed.

  Lemma subs_svs_in k : forall l a p v, subs_svs k l = MOk a -> In (p, v) l ->
    exists x, spec_value k v = MOk x /\ In (p, x) a.
  Proof.
    induction l as [|[q w] l IH]; intros a p v H Hin; simpl in *; [contradiction|].
    destruct (spec_value k w) as [x|e] eqn:Ev; cbn [mbind] in H; [|discriminate].
    destruct (subs_svs k l) as [r|e]; cbn [mbind] in H; [|discriminate].
    injection H as <-. destruct Hin as [Hin|Hin].
    - injection Hin as <- <-. exists x. split; [exact Ev | left; reflexivity].
    - destruct (IH r p v eq_refl Hin) as (y & Hy & Hin'). exists y. split; [exact Hy | right; exact Hin'].
  Qed.

  (** Filling a typed template by looking the holes up in a substitution list. *)
  Lemma fill k subs : forall tt cbs,
    (forall p v, In (THole p (KSvs v)) tt -> exists x, spec_value k v = MOk x /\ assoc p subs = Some x) ->
    (forall p, In (THole p KPre) tt -> assoc p subs = Some (s "<header>")) ->
    (forall p sv, In (THole p (KPost sv)) tt ->
       exists note, header_note k sv = MOk note /\ assoc p subs = Some (note ++ s "</header>")) ->
    Forall2 (fun e c => assoc (fst e) subs = Some (div_of render_block k c)) (rec_entries tt) cbs ->
    tfinal render_block k cbs tt = MOk (inst subs (names tt)).
  Proof.
    induction tt as [|x tt IH]; intros cbs Hs Hp Hq Hr; [reflexivity|].
    assert (Hs' : forall p v, In (THole p (KSvs v)) tt -> exists x, spec_value k v = MOk x /\ assoc p subs = Some x)
      by (intros; apply Hs; right; assumption).
    assert (Hp' : forall p, In (THole p KPre) tt -> assoc p subs = Some (s "<header>"))
      by (intros; apply Hp; right; assumption).
    assert (Hq' : forall p sv, In (THole p (KPost sv)) tt ->
       exists note, header_note k sv = MOk note /\ assoc p subs = Some (note ++ s "</header>"))
      by (intros; apply Hq; right; assumption).
    destruct x as [h|p [v|b| |sv]]; cbn [tfinal names map name_of].
    - rewrite (IH cbs Hs' Hp' Hq' Hr). reflexivity.
    - destruct (Hs p v (or_introl eq_refl)) as (x & Ex & Ea). rewrite Ex. cbn [mbind].
      rewrite (IH cbs Hs' Hp' Hq' Hr). cbn [mbind]. rewrite inst_cons_hole, Ea. reflexivity.
    - simpl in Hr. inversion Hr as [|? c ? cbs' Hc Hr']; subst. destruct c as [gi trees].
      rewrite (IH cbs' Hs' Hp' Hq' Hr'). cbn [mbind]. rewrite inst_cons_hole. simpl in Hc. rewrite Hc. reflexivity.
    - rewrite (IH cbs Hs' Hp' Hq' Hr). cbn [mbind]. rewrite inst_cons_hole, (Hp p (or_introl eq_refl)). reflexivity.
    - destruct (Hq p sv (or_introl eq_refl)) as (note & En & Ea). rewrite En. cbn [mbind].
      rewrite (IH cbs Hs' Hp' Hq' Hr). cbn [mbind]. rewrite inst_cons_hole, Ea. rewrite <- app_assoc. reflexivity.
  Qed.
End Final2.

(** ** The compile phase from the initial state *)

Lemma Inv_init slugs : NoDup slugs -> Forall (fun g => slug_ok g = true) slugs -> Inv (init_state slugs).
Proof.
  intros H1 H2. split; [exact H1|]. split; [intros g _ Hin; exact Hin|]. split; [reflexivity | exact H2].
Qed.

Lemma map_rev_map {A B} (f : A -> B) (l : list (list A)) : map (map f) (rev l) = rev (map (map f) l).
Proof. apply map_rev. Qed.

Section Main.
  Variable alt_escape : str -> str.
  Variable compile : list str -> option (list (list node)).
  Variable render_block : num -> str -> list node -> list str.
  Hypothesis compile_len : compile_len_ok compile.

  (** Everything the later theorems need about a successful [md_compile]. *)
  Lemma md_compile_facts d slugs m :
    NoDup slugs -> Forall (fun g => slug_ok g = true) slugs ->
    md_compile alt_escape compile d slugs = MOk m ->
    exists tt st cbs,
      render_items alt_escape (init_state slugs) (d_items d) = MOk (o_html m, st) /\
      o_html m = inst [] (names tt) /\
      NoDup (holes (names tt)) /\
      (forall p, In p (holes (names tt)) -> p <> []) /\
      o_svs m = svs_entries tt /\
      map (map snd) (rev (st_groups st)) = map (map to_rsb) (spec_groups (spec_blocks (d_items d))) /\
      map snd (concat (rev (st_groups st))) = map to_rsb (spec_blocks (d_items d)) /\
      spec_compile compile (d_text d) 1 (spec_groups (spec_blocks (d_items d))) = MOk cbs /\
      map fst (o_recipes m) = map fst (rec_entries tt) /\
      length cbs = length (rec_entries tt) /\
      (forall k, subs_recipes render_block k 0 (o_recipes m) =
                 combine (map fst (rec_entries tt)) (map (div_of render_block k) cbs)) /\
      (forall k cbs', spec_items alt_escape render_block k true cbs' (d_items d) = tfinal render_block k cbs' tt) /\
      ((nhdr tt = true /\ o_title m = false) \/
       (exists t1 pre t2 post serv t3,
          tt = t1 ++ THole pre KPre :: t2 ++ THole post (KPost serv) :: t3 /\
          nhdr t1 = true /\ nhdr t2 = true /\ nhdr t3 = true /\
          o_title m = true /\ o_serv m = serv /\ o_pre m = Some pre /\ o_post m = Some post)).
  Proof.
    intros Hnd Hok H. unfold md_compile in H.
    destruct (render_items alt_escape (init_state slugs) (d_items d)) as [[html st]|e] eqn:Er; cbn [mbind] in H; [|discriminate].
    destruct (compile_groups compile (d_text d) (rev (st_groups st)) []) as [recipes|e] eqn:Ec; cbn [mbind] in H; [|discriminate].
    injection H as <-. cbn [o_html o_title o_serv o_pre o_post o_svs o_recipes].
    destruct (render_items_sim alt_escape render_block _ _ _ _ (Inv_init slugs Hnd Hok) Er)
      as (tt & Eh & (dr & Sl & P & V & G & HR) & I2 & SP & RB).
    simpl in Sl, V, G.
    assert (Hndh : NoDup (holes (names tt))).
    { eapply Permutation_NoDup; [apply Permutation_sym; exact P|]. apply NoDup_map_mk.
      rewrite Sl in Hnd. eapply NoDup_app_l. exact Hnd. }
    assert (Hrel : map (map snd) (st_groups st) = map (map to_rsb) (fold_left add_block (spec_blocks (d_items d)) [])).
    { rewrite G. apply groups_rel; [exact RB | reflexivity]. }
    assert (Hconcat : concat (rev (st_groups st)) = rec_entries tt).
    { rewrite G. rewrite fold_add_rsb_concat. reflexivity. }
    assert (Hrel' : map (map snd) (rev (st_groups st)) = map (map to_rsb) (spec_groups (spec_blocks (d_items d)))).
    { unfold spec_groups. rewrite !map_rev. rewrite Hrel. reflexivity. }
    assert (Hndr : NoDup (map fst (rec_entries tt))).
    { pose proof (Permutation_NoDup (holes_perm tt) Hndh) as Hx.
      apply NoDup_app_r in Hx. apply NoDup_app_l in Hx. exact Hx. }
    destruct (compile_groups_spec compile render_block compile_len (d_text d)
                (rev (st_groups st)) (spec_groups (spec_blocks (d_items d))) [] 0 recipes Hrel')
      as (cbs & news & Hsc & Hrec & Hk & Hlc & Hsub).
    { apply Forall_rev. rewrite G. apply fold_add_rsb_nonempty. constructor. }
    { simpl. rewrite Hconcat. exact Hndr. }
    { exact Ec. }
    simpl in Hrec. subst news. rewrite Hconcat in *.
    exists tt, st, cbs.
    split; [reflexivity|]. split; [exact Eh|]. split; [exact Hndh|].
    split.
    { intros p Hp. apply (Permutation_in _ P) in Hp. apply in_map_iff in Hp as (g & <- & _). discriminate. }
    split; [exact V|]. split; [exact Hrel'|].
    split; [rewrite Hconcat; exact RB|].
    split; [exact Hsc|]. split; [exact Hk|]. split; [exact Hlc|].
    split; [exact Hsub|]. split; [exact SP|].
    destruct HR as [_ [[Hn (A & B & C & D)]|(_ & _ & t1 & pre & t2 & post & serv & t3 & E & N1 & N2 & N3 & A & B & C & D)]].
    - left. split; [exact Hn | exact A].
    - right. exists t1, pre, t2, post, serv, t3. repeat split; assumption.
  Qed.

  (** *** C13_render_spec *)
  Theorem render_spec k d slugs :
    Forall (fun g => slug_ok g = true) slugs ->
    Fresh alt_escape compile render_block k d slugs ->
    md_render alt_escape compile render_block k d slugs = spec_render alt_escape compile render_block k d.
  Proof.
    intros Hok (Hnd & m & subs & Hc & Hs & Htr).
    unfold md_render. rewrite Hc. cbn [mbind]. rewrite md_render_compiled_subs, Hs. cbn [mbind].
    destruct (md_compile_facts d slugs m Hnd Hok Hc)
      as (tt & st & cbs & _ & Eh & Hndh & Hne & Hsv & _ & _ & Hsc & Hrk & Hlc & Hsub & SP & HH).
    unfold spec_render. rewrite Hsc. cbn [mbind]. rewrite (SP k cbs).
    (* the substitution list, by parts *)
    unfold subs_of in Hs.
    destruct (subs_svs k (o_svs m)) as [a|e] eqn:Ea; cbn [mbind] in Hs; [|discriminate].
    destruct (subs_header k m) as [c|e] eqn:Ehd; cbn [mbind] in Hs; [|discriminate].
    injection Hs as <-. rewrite (Hsub k) in *.
    pose proof (subs_svs_keys k _ _ Ea) as Hak. rewrite Hsv in Hak, Ea.
    set (rc := combine (map fst (rec_entries tt)) (map (div_of render_block k) cbs)) in *.
    assert (Hrck : map fst rc = map fst (rec_entries tt)).
    { subst rc. apply map_fst_combine. rewrite !map_length. lia. }
    assert (Hck : map fst c = hdr_keys tt).
    { unfold subs_header in Ehd.
      destruct HH as [[Hn Ht]|(t1 & pre & t2 & post & serv & t3 & E & N1 & N2 & N3 & Ht & Hsv' & Hpre & Hpost)].
      - rewrite Ht in Ehd. injection Ehd as <-. rewrite (nhdr_keys _ Hn). reflexivity.
      - rewrite Ht, Hpre, Hpost in Ehd.
        destruct (header_note k (o_serv m)) as [note|e]; cbn [mbind] in Ehd; [|discriminate].
        injection Ehd as <-. rewrite E. rewrite hdr_keys_app. simpl. rewrite hdr_keys_app. simpl.
        rewrite (nhdr_keys _ N1), (nhdr_keys _ N2), (nhdr_keys _ N3). reflexivity. }
    assert (Hperm : Permutation (map fst (a ++ rc ++ c)) (holes (names tt))).
    { rewrite !map_app, Hak, Hrck, Hck. apply Permutation_sym. apply holes_perm. }
    assert (Hndk : NoDup (map fst (a ++ rc ++ c))).
    { eapply Permutation_NoDup; [apply Permutation_sym; exact Hperm | exact Hndh]. }
    (* the model's run is the template filled in *)
    rewrite Eh in Htr |- *.
    rewrite (apply_subs_inst (a ++ rc ++ c) [] (names tt) Hndh Hndk); [|
      intros p Hp; apply (Permutation_in _ Hperm) in Hp; split; [apply Hne; exact Hp | split; [exact Hp | reflexivity]] |
      exact Htr].
    cbn [app]. symmetry. apply fill.
    - intros p v Hin. apply in_svs_entries in Hin.
      destruct (subs_svs_in k _ _ _ _ Ea Hin) as (x & Ex & Hx).
      exists x. split; [exact Ex|]. apply assoc_in; [exact Hndk|]. apply in_or_app. left; exact Hx.
    - intros p Hin. unfold subs_header in Ehd.
      destruct HH as [[Hn Ht]|(t1 & pre & t2 & post & serv & t3 & E & N1 & N2 & N3 & Ht & Hsv' & Hpre & Hpost)].
      + exfalso. exact (nhdr_no_pre _ _ Hn Hin).
      + rewrite Ht, Hpre, Hpost in Ehd.
        destruct (header_note k (o_serv m)) as [note|e]; cbn [mbind] in Ehd; [|discriminate].
        injection Ehd as <-.
        assert (p = pre).
        { rewrite E in Hin. apply in_app_or in Hin as [Hin|Hin]; [exfalso; exact (nhdr_no_pre _ _ N1 Hin)|].
          destruct Hin as [Hin|Hin]; [injection Hin as <-; reflexivity|].
          apply in_app_or in Hin as [Hin|Hin]; [exfalso; exact (nhdr_no_pre _ _ N2 Hin)|].
          destruct Hin as [Hin|Hin]; [discriminate | exfalso; exact (nhdr_no_pre _ _ N3 Hin)]. }
        subst p. apply assoc_in; [exact Hndk|]. apply in_or_app. right. apply in_or_app. right. left; reflexivity.
    - intros p sv Hin. unfold subs_header in Ehd.
      destruct HH as [[Hn Ht]|(t1 & pre & t2 & post & serv & t3 & E & N1 & N2 & N3 & Ht & Hsv' & Hpre & Hpost)].
      + exfalso. exact (nhdr_no_post _ _ _ Hn Hin).
      + rewrite Ht, Hpre, Hpost in Ehd.
        destruct (header_note k (o_serv m)) as [note|e] eqn:En; cbn [mbind] in Ehd; [|discriminate].
        injection Ehd as <-.
        assert (p = post /\ sv = serv) as [-> ->].
        { rewrite E in Hin. apply in_app_or in Hin as [Hin|Hin]; [exfalso; exact (nhdr_no_post _ _ _ N1 Hin)|].
          destruct Hin as [Hin|Hin]; [discriminate|].
          apply in_app_or in Hin as [Hin|Hin]; [exfalso; exact (nhdr_no_post _ _ _ N2 Hin)|].
          destruct Hin as [Hin|Hin]; [injection Hin as <- <-; split; reflexivity | exfalso; exact (nhdr_no_post _ _ _ N3 Hin)]. }
        exists note. split; [rewrite <- Hsv'; exact En|].
        apply assoc_in; [exact Hndk|]. apply in_or_app. right. apply in_or_app. right. right. left; reflexivity.
    - apply Forall2_combine; [lia|]. intros e cb Hin.
      apply assoc_in; [exact Hndk|]. apply in_or_app. right. apply in_or_app. left.
      subst rc. apply (in_combine_map fst (div_of render_block k)). exact Hin.
  Qed.
End Main.

(** ** [MarkdownRecipe.recipes] is the list of the groups' compilations *)

Section View.
  Variable alt_escape : str -> str.
  Variable compile : list str -> option (list (list node)).
  Hypothesis compile_len : compile_len_ok compile.

  Lemma group_view_nofirst : forall phs blocks rest g gs, length phs = length blocks ->
    group_view (combine phs (mark_first false blocks) ++ rest) (g :: gs) =
    group_view rest ((rev blocks ++ g) :: gs).
  Proof.
    induction phs as [|p phs IH]; intros [|b blocks] rest g gs H; simpl in *; try discriminate; [reflexivity|].
    rewrite IH by lia. rewrite <- app_assoc. reflexivity.
  Qed.

  Lemma group_view_group phs blocks rest acc : length phs = length blocks -> phs <> [] ->
    group_view (combine phs (mark_first true blocks) ++ rest) acc = group_view rest (rev blocks :: acc).
  Proof.
    intros H Hne. destruct phs as [|p phs]; [congruence|]. destruct blocks as [|b blocks]; [discriminate|].
    simpl in H. cbn [mark_first combine app group_view]. rewrite group_view_nofirst by lia. reflexivity.
  Qed.

  Lemma compile_groups_view text : forall gm gs acc recipes,
    map (map snd) gm = map (map to_rsb) gs ->
    Forall (fun g => g <> []) gm ->
    NoDup (map fst acc ++ map fst (concat gm)) ->
    compile_groups compile text gm acc = MOk recipes ->
    exists results news,
      Forall2 (fun sg r => compile (map (padded_source text) sg) = Some r) gs results /\
      recipes = acc ++ news /\
      forall accv, group_view news accv = rev (map (@rev _) accv) ++ results.
  Proof.
    induction gm as [|g gm IH]; intros gs acc recipes Hrel Hne Hnd H.
    - destruct gs; [|discriminate]. simpl in H. injection H as <-.
      exists [], []. split; [constructor|]. split; [rewrite app_nil_r; reflexivity|].
      intros accv. simpl. rewrite app_nil_r. reflexivity.
    - destruct gs as [|sg gs]; [discriminate|]. simpl in Hrel. injection Hrel as Hg Hrel.
      inversion Hne as [|? ? Hgne Hne']; subst.
      cbn [compile_groups] in H. fold (srcs_of text g) in H.
      rewrite (srcs_of_spec text g sg Hg) in H.
      destruct (compile (map (padded_source text) sg)) as [blocks|] eqn:Ec; [|discriminate].
      pose proof (compile_len _ _ Ec) as Hlen. rewrite map_length in Hlen.
      assert (Hlg : length g = length sg).
      { rewrite <- (map_length snd g), Hg, map_length. reflexivity. }
      assert (Hl2 : length (map fst g) = length (mark_first true blocks)).
      { rewrite map_length, mark_first_length. lia. }
      simpl in Hnd. rewrite map_app in Hnd.
      rewrite od_set_all_fresh in H.
      2:{ rewrite map_fst_combine by exact Hl2.
          rewrite app_assoc in Hnd. apply NoDup_app_l in Hnd. exact Hnd. }
      destruct (IH gs (acc ++ combine (map fst g) (mark_first true blocks)) recipes Hrel Hne')
        as (results & news & HF & Hrec & Hview).
      { rewrite map_app, map_fst_combine by exact Hl2. rewrite <- app_assoc. exact Hnd. }
      { exact H. }
      exists (blocks :: results), (combine (map fst g) (mark_first true blocks) ++ news).
      split; [constructor; assumption|]. split; [rewrite Hrec, <- app_assoc; reflexivity|].
      intros accv. rewrite group_view_group.
      + rewrite Hview. simpl. rewrite rev_involutive, <- app_assoc. reflexivity.
      + rewrite map_length, mark_first_length in Hl2. rewrite map_length. lia.
      + destruct g; [congruence | discriminate].
  Qed.

  Theorem compile_per_group d slugs m :
    NoDup slugs -> Forall (fun g => slug_ok g = true) slugs ->
    md_compile alt_escape compile d slugs = MOk m ->
    exists results,
      Forall2 (fun sg r => compile (map (padded_source (d_text d)) sg) = Some r)
              (spec_groups (spec_blocks (d_items d))) results /\
      md_recipes m = results.
  Proof.
    intros Hnd Hok H. unfold md_compile in H.
    destruct (render_items alt_escape (init_state slugs) (d_items d)) as [[html st]|e] eqn:Er; cbn [mbind] in H; [|discriminate].
    destruct (compile_groups compile (d_text d) (rev (st_groups st)) []) as [recipes|e] eqn:Ec; cbn [mbind] in H; [|discriminate].
    injection H as <-. unfold md_recipes. cbn [o_recipes].
    destruct (render_items_sim alt_escape (fun _ _ _ => []) _ _ _ _ (Inv_init slugs Hnd Hok) Er)
      as (tt & Eh & (dr & Sl & P & V & G & HR) & I2 & SP & RB).
    simpl in Sl, V, G.
    assert (Hndh : NoDup (holes (names tt))).
    { eapply Permutation_NoDup; [apply Permutation_sym; exact P|]. apply NoDup_map_mk.
      rewrite Sl in Hnd. eapply NoDup_app_l. exact Hnd. }
    assert (Hconcat : concat (rev (st_groups st)) = rec_entries tt).
    { rewrite G. rewrite fold_add_rsb_concat. reflexivity. }
    assert (Hrel' : map (map snd) (rev (st_groups st)) = map (map to_rsb) (spec_groups (spec_blocks (d_items d)))).
    { unfold spec_groups. rewrite !map_rev. f_equal. rewrite G. apply groups_rel; [exact RB | reflexivity]. }
    assert (Hndr : NoDup (map fst (rec_entries tt))).
    { pose proof (Permutation_NoDup (holes_perm tt) Hndh) as Hx.
      apply NoDup_app_r in Hx. apply NoDup_app_l in Hx. exact Hx. }
    destruct (compile_groups_view (d_text d) (rev (st_groups st)) (spec_groups (spec_blocks (d_items d)))
                [] recipes Hrel') as (results & news & HF & Hrec & Hview).
    { apply Forall_rev. rewrite G. apply fold_add_rsb_nonempty. constructor. }
    { simpl. rewrite Hconcat. exact Hndr. }
    { exact Ec. }
    simpl in Hrec. subst news. exists results. split; [exact HF|]. rewrite Hview. reflexivity.
  Qed.

  (** The blocks the model captured, in order, and their grouping. *)
  Theorem blocks_and_groups items slugs html st :
    NoDup slugs -> Forall (fun g => slug_ok g = true) slugs ->
    render_items alt_escape (init_state slugs) items = MOk (html, st) ->
    map snd (concat (rev (st_groups st))) = map to_rsb (spec_blocks items) /\
    map (map snd) (rev (st_groups st)) = map (map to_rsb) (spec_groups (spec_blocks items)).
  Proof.
    intros Hnd Hok Er.
    destruct (render_items_sim alt_escape (fun _ _ _ => []) _ _ _ _ (Inv_init slugs Hnd Hok) Er)
      as (tt & Eh & (dr & Sl & P & V & G & HR) & I2 & SP & RB).
    simpl in G. split.
    - rewrite G, fold_add_rsb_concat. exact RB.
    - unfold spec_groups. rewrite !map_rev. f_equal. rewrite G. apply groups_rel; [exact RB | reflexivity].
  Qed.
End View.

(** ** What [spec_groups] is, without reference to the procedure *)

Definition tails_plain (g : list sblock) : Prop :=
  forall b, In b (tl g) -> starts_group b = false.

Lemma add_block_props gs b :
  Forall (fun g => g <> [] /\ tails_plain g) gs ->
  Forall (fun g => g <> [] /\ tails_plain g) (add_block gs b).
Proof.
  intros H. unfold add_block. destruct gs as [|g r].
  - constructor; [|constructor]. split; [discriminate | intros x []].
  - inversion H as [|? ? [Hg Ht] Hr]; subst. destruct (starts_group b) eqn:E.
    + constructor; [split; [discriminate | intros x []] | assumption].
    + constructor; [|assumption]. split; [destruct g; discriminate|].
      intros x Hx. destruct g as [|y g]; [congruence|]. simpl in Hx.
      apply in_app_or in Hx as [Hx|Hx]; [apply Ht; exact Hx | destruct Hx as [<-|[]]; exact E].
Qed.

Lemma fold_add_block_props bs : forall gs,
  Forall (fun g => g <> [] /\ tails_plain g) gs ->
  Forall (fun g => g <> [] /\ tails_plain g) (fold_left add_block bs gs).
Proof. induction bs as [|b bs IH]; intros gs H; [exact H|]. simpl. apply IH, add_block_props, H. Qed.

Lemma fold_add_block_concat bs : forall gs,
  concat (rev (fold_left add_block bs gs)) = concat (rev gs) ++ bs.
Proof.
  induction bs as [|b bs IH]; intros gs; [rewrite app_nil_r; reflexivity|].
  simpl. rewrite IH. unfold add_block. destruct gs as [|g r]; [reflexivity|].
  destruct (starts_group b).
  - simpl rev. rewrite !concat_app. simpl concat. rewrite ?app_nil_r, <- ?app_assoc. reflexivity.
  - simpl rev. rewrite !concat_app. simpl concat. rewrite ?app_nil_r, <- ?app_assoc. reflexivity.
Qed.

(** Every group but the oldest begins with a block that starts a group. *)
Definition heads_new (gs : list (list sblock)) : Prop :=
  forall g, In g (removelast gs) -> exists b r, g = b :: r /\ starts_group b = true.

Lemma add_block_heads gs b : heads_new gs -> heads_new (add_block gs b).
Proof.
  intros H. unfold add_block. destruct gs as [|g r]; [intros x []|].
  destruct (starts_group b) eqn:E.
  - intros x Hx. change ([b] :: g :: r) with ([[b]] ++ g :: r) in Hx.
    rewrite removelast_app in Hx by discriminate. simpl in Hx. destruct Hx as [<-|Hx].
    + exists b, []. split; [reflexivity | exact E].
    + apply H. exact Hx.
  - intros x Hx. destruct r as [|g' r]; [simpl in Hx; contradiction|].
    simpl in Hx. destruct Hx as [<-|Hx].
    + destruct (H g) as (b0 & r0 & -> & Hb0); [simpl; left; reflexivity|].
      exists b0, (r0 ++ [b]). split; [reflexivity | exact Hb0].
    + apply H. simpl. right. exact Hx.
Qed.

Lemma fold_add_block_heads bs : forall gs, heads_new gs -> heads_new (fold_left add_block bs gs).
Proof. induction bs as [|b bs IH]; intros gs H; [exact H|]. simpl. apply IH, add_block_heads, H. Qed.

Theorem spec_groups_concat bs : concat (spec_groups bs) = bs.
Proof. unfold spec_groups. rewrite fold_add_block_concat. reflexivity. Qed.

Theorem spec_groups_shape bs :
  Forall (fun g => g <> [] /\ tails_plain g) (spec_groups bs) /\
  (forall g, In g (tl (spec_groups bs)) -> exists b r, g = b :: r /\ starts_group b = true).
Proof.
  unfold spec_groups. split.
  - apply Forall_rev. apply fold_add_block_props. constructor.
  - pose proof (fold_add_block_heads bs [] (fun x H => match H with end)) as H.
    intros g Hg. apply H. clear H.
    set (gs := fold_left add_block bs []) in *. clearbody gs.
    destruct gs as [|x gs] using rev_ind; [simpl in Hg; contradiction|].
    rewrite rev_app_distr in Hg. simpl in Hg. rewrite removelast_app by discriminate. simpl.
    rewrite app_nil_r. apply in_rev. exact Hg.
Qed.

(** ** [freshb] decides [Fresh] *)

Lemma nodupb_NoDup l : nodupb l = true -> NoDup l.
Proof.
  induction l as [|x l IH]; intros H; [constructor|].
  simpl in H. apply andb_true_iff in H as [H1 H2]. constructor; [|auto].
  intros Hin. apply negb_true_iff in H1.
  assert (existsb (str_eqb x) l = true).
  { apply existsb_exists. exists x. split; [exact Hin | apply str_eqb_refl]. }
  congruence.
Qed.

Lemma freshb_Fresh alt_escape compile render_block k d slugs :
  freshb alt_escape compile render_block k d slugs = true ->
  Fresh alt_escape compile render_block k d slugs.
Proof.
  unfold freshb, Fresh. intros H. apply andb_true_iff in H as [H1 H2].
  split; [apply nodupb_NoDup; exact H1|].
  destruct (md_compile alt_escape compile d slugs) as [m|e]; [|discriminate].
  destruct (subs_of render_block k m) as [subs|e] eqn:Es; [|discriminate].
  exists m, subs. split; [reflexivity|]. split; [exact Es|].
  apply Forall_forall. intros ph Hph. rewrite forallb_forall in H2. apply Nat.eqb_eq. apply H2. exact Hph.
Qed.
