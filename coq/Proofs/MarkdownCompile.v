(** * The compile phase of the Markdown model, as a template with typed holes.

    [render_items] run from a state [st] on items [l] produces a text that is a template
    [tt] (literal pieces and holes named by the placeholders drawn); the final state differs
    from [st] exactly by what the holes of [tt] say ([Sim]); and the placeholder-free
    specification [spec_items] of [l] is the template with every hole filled with the value
    its kind prescribes ([tfinal]). *)
From Coq Require Import List ZArith NArith Bool Arith Lia Permutation.
From Coq Require String.
Import String.StringSyntax.
From RG Require Import Base.Str Base.Dec Base.Num Model.Recipe Model.NumFmt Model.NumParse
  Model.LineCol Model.Title Model.Brace Model.Markdown Spec.MarkdownSpec.
From RG Require Import Proofs.Replace Proofs.MarkdownText.
Import ListNotations.
Open Scope N_scope.

(** ** Typed templates *)

Inductive hk := KSvs (v : svs) | KRec (b : rsb) | KPre | KPost (serv : option N).
Inductive tseg := TLit (h : str) | THole (p : str) (k : hk).

Definition name_of (x : tseg) : seg :=
  match x with TLit h => SLit h | THole p _ => SHole p end.
Definition names (tt : list tseg) : tpl := map name_of tt.

Definition svs_entries (tt : list tseg) : list (str * svs) :=
  flat_map (fun x => match x with THole p (KSvs v) => [(p, v)] | _ => [] end) tt.
Definition rec_entries (tt : list tseg) : list (str * rsb) :=
  flat_map (fun x => match x with THole p (KRec b) => [(p, b)] | _ => [] end) tt.
Definition is_hdr (x : tseg) : bool :=
  match x with THole _ KPre | THole _ (KPost _) => true | _ => false end.
Definition nhdr (tt : list tseg) : bool := forallb (fun x => negb (is_hdr x)) tt.
Definition norec (tt : list tseg) : bool :=
  forallb (fun x => match x with THole _ (KRec _) => false | _ => true end) tt.

Lemma names_app a b : names (a ++ b) = names a ++ names b.
Proof. apply map_app. Qed.
Lemma svs_entries_app a b : svs_entries (a ++ b) = svs_entries a ++ svs_entries b.
Proof. apply flat_map_app. Qed.
Lemma rec_entries_app a b : rec_entries (a ++ b) = rec_entries a ++ rec_entries b.
Proof. apply flat_map_app. Qed.
Lemma nhdr_app a b : nhdr (a ++ b) = nhdr a && nhdr b.
Proof. apply forallb_app. Qed.
Lemma norec_app a b : norec (a ++ b) = norec a && norec b.
Proof. apply forallb_app. Qed.

Lemma norec_rec_entries tt : norec tt = true -> rec_entries tt = [].
Proof.
  induction tt as [|x tt IH]; [reflexivity|]. simpl. intros H.
  apply andb_true_iff in H as [H1 H2]. rewrite (IH H2).
  destruct x as [h|p [v|b| |serv]]; try reflexivity. discriminate.
Qed.

(** ** Filling a typed template (no placeholder involved) *)

Section Final.
  Variable render_block : num -> str -> list node -> list str.

  Fixpoint tfinal (k : num) (cbs : list (N * list node)) (tt : list tseg) : mres str :=
    match tt with
    | [] => MOk []
    | TLit h :: r => x <- tfinal k cbs r ;; MOk (h ++ x)
    | THole _ (KSvs v) :: r => a <- spec_value k v ;; x <- tfinal k cbs r ;; MOk (a ++ x)
    | THole _ (KRec _) :: r =>
        match cbs with
        | (gi, trees) :: cbs' =>
            x <- tfinal k cbs' r ;; MOk (recipe_div render_block k (id_prefix gi) trees ++ x)
        | [] => MErr ECompile
        end
    | THole _ KPre :: r => x <- tfinal k cbs r ;; MOk (s "<header>" ++ x)
    | THole _ (KPost serv) :: r =>
        note <- header_note k serv ;; x <- tfinal k cbs r ;; MOk (note ++ s "</header>" ++ x)
    end.

  (** A part without recipe holes does not look at [cbs]. *)
  Lemma tfinal_app_norec k cbs a b : norec a = true ->
    tfinal k cbs (a ++ b) = (x <- tfinal k cbs a ;; y <- tfinal k cbs b ;; MOk (x ++ y)).
  Proof.
    induction a as [|x a IH]; intros H.
    - simpl. destruct (tfinal k cbs b); reflexivity.
    - simpl in H. apply andb_true_iff in H as [H1 H2]. specialize (IH H2).
      destruct x as [h|p [v|bb| |serv]]; try discriminate; cbn [tfinal app].
      + rewrite IH. destruct (tfinal k cbs a) as [xa|e]; [|reflexivity]. cbn [mbind].
        destruct (tfinal k cbs b) as [xb|e]; [|reflexivity]. cbn [mbind]. rewrite app_assoc. reflexivity.
      + destruct (spec_value k v) as [av|e]; [|reflexivity]. cbn [mbind]. rewrite IH.
        destruct (tfinal k cbs a) as [xa|e]; [|reflexivity]. cbn [mbind].
        destruct (tfinal k cbs b) as [xb|e]; [|reflexivity]. cbn [mbind]. rewrite app_assoc. reflexivity.
      + rewrite IH. destruct (tfinal k cbs a) as [xa|e]; [|reflexivity]. cbn [mbind].
        destruct (tfinal k cbs b) as [xb|e]; [|reflexivity]. cbn [mbind]. rewrite <- !app_assoc. reflexivity.
      + destruct (header_note k serv) as [nt|e]; [|reflexivity]. cbn [mbind]. rewrite IH.
        destruct (tfinal k cbs a) as [xa|e]; [|reflexivity]. cbn [mbind].
        destruct (tfinal k cbs b) as [xb|e]; [|reflexivity]. cbn [mbind]. rewrite <- !app_assoc. reflexivity.
  Qed.

  Lemma tfinal_norec_cbs k cbs cbs' a : norec a = true -> tfinal k cbs a = tfinal k cbs' a.
  Proof.
    induction a as [|x a IH]; intros H; [reflexivity|].
    simpl in H. apply andb_true_iff in H as [H1 H2]. specialize (IH H2).
    destruct x as [h|p [v|bb| |serv]]; try discriminate; cbn [tfinal]; rewrite IH; reflexivity.
  Qed.
End Final.

(** ** State steps *)

Lemma od_set_fresh {V} (k : str) (v : V) l : ~ In k (map fst l) -> od_set k v l = l ++ [(k, v)].
Proof.
  induction l as [|[k' v'] l IH]; intros H; [reflexivity|].
  simpl. rewrite str_eqb_neq by (intros ->; apply H; left; reflexivity).
  rewrite IH; [reflexivity|]. intros Hin. apply H. right. exact Hin.
Qed.

(** Placeholders a state already uses as dictionary keys. *)
Definition used (st : rstate) : list str :=
  map fst (st_svs st) ++ map fst (concat (st_groups st)).

(** The unused part of the stream is duplicate free and disjoint from the keys in use. *)
Definition Inv (st : rstate) : Prop :=
  NoDup (st_slugs st) /\ (forall g, In g (st_slugs st) -> ~ In (mk_placeholder g) (used st)) /\
  (st_first st = true -> st_serv st = None) /\
  Forall (fun g => slug_ok g = true) (st_slugs st).

(** The model's step on the groups (newest group first; a group in document order). *)
Definition add_rsb (gs : list (list (str * rsb))) (e : str * rsb) : list (list (str * rsb)) :=
  match gs with
  | [] => [[e]]
  | g :: r => if rsb_new (snd e) then [e] :: g :: r else (g ++ [e]) :: r
  end.

Lemma concat_add_rsb gs e : Permutation (concat (add_rsb gs e)) (e :: concat gs).
Proof.
  unfold add_rsb. destruct gs as [|g r]; [simpl; apply Permutation_refl|].
  destruct (rsb_new (snd e)); [simpl; apply Permutation_refl|].
  simpl. rewrite <- app_assoc. simpl.
  apply Permutation_sym. apply Permutation_middle.
Qed.

(** What a run changes, read off the template it produced. *)
Definition hdr_same (st st' : rstate) : Prop :=
  st_title st' = st_title st /\ st_serv st' = st_serv st /\ st_pre st' = st_pre st /\ st_post st' = st_post st.

Definition hdr_rel (st : rstate) (tt : list tseg) (st' : rstate) : Prop :=
  (st_first st = false -> st_first st' = false /\ nhdr tt = true) /\
  ((nhdr tt = true /\ hdr_same st st') \/
   (st_first st = true /\ st_first st' = false /\
    exists t1 pre t2 post serv t3,
      tt = t1 ++ THole pre KPre :: t2 ++ THole post (KPost serv) :: t3 /\
      nhdr t1 = true /\ nhdr t2 = true /\ nhdr t3 = true /\
      st_title st' = true /\ st_serv st' = serv /\ st_pre st' = Some pre /\ st_post st' = Some post)).

Definition Sim (st : rstate) (tt : list tseg) (st' : rstate) : Prop :=
  exists drawn,
    st_slugs st = drawn ++ st_slugs st' /\
    Permutation (holes (names tt)) (map mk_placeholder drawn) /\
    st_svs st' = st_svs st ++ svs_entries tt /\
    st_groups st' = fold_left add_rsb (rec_entries tt) (st_groups st) /\
    hdr_rel st tt st'.

Lemma hdr_same_refl st : hdr_same st st.
Proof. repeat split. Qed.

Lemma hdr_same_trans a b c : hdr_same a b -> hdr_same b c -> hdr_same a c.
Proof. unfold hdr_same. intros (?&?&?&?) (?&?&?&?). repeat split; congruence. Qed.

Lemma hdr_rel_trans st t1 st1 t2 st2 :
  hdr_rel st t1 st1 -> hdr_rel st1 t2 st2 -> hdr_rel st (t1 ++ t2) st2.
Proof.
  intros [F1 C1] [F2 C2]. split.
  - intros Hf. destruct (F1 Hf) as [Hf1 Hn1]. destruct (F2 Hf1) as [Hf2 Hn2].
    split; [assumption|]. rewrite nhdr_app, Hn1, Hn2. reflexivity.
  - destruct C1 as [[Hn1 Hs1]|(Hf & Hf1 & a & pre & b & post & serv & c & -> & Ha & Hb & Hc & Ht & Hsv & Hpre & Hpost)].
    + destruct C2 as [[Hn2 Hs2]|(Hf1 & Hf2 & a & pre & b & post & serv & c & -> & Ha & Hb & Hc & Ht & Hsv & Hpre & Hpost)].
      * left. split; [rewrite nhdr_app, Hn1, Hn2; reflexivity | eapply hdr_same_trans; eassumption].
      * right. split.
        { destruct (st_first st) eqn:E; [reflexivity|]. destruct (F1 eq_refl) as [Hx _]. congruence. }
        split; [assumption|].
        exists (t1 ++ a), pre, b, post, serv, c. rewrite <- app_assoc.
        repeat split; try assumption. rewrite nhdr_app, Hn1, Ha. reflexivity.
    + destruct (F2 Hf1) as [Hf2 Hn2].
      destruct C2 as [[_ (Ht2 & Hsv2 & Hpre2 & Hpost2)]|(Hx & _)]; [|congruence].
      right. split; [assumption|]. split; [assumption|].
      exists a, pre, b, post, serv, (c ++ t2).
      repeat split; try assumption; try congruence.
      * rewrite <- !app_assoc. simpl. rewrite <- !app_assoc. reflexivity.
      * rewrite nhdr_app, Hc, Hn2. reflexivity.
Qed.

Lemma hdr_rel_refl st tt : nhdr tt = true -> hdr_rel st tt st.
Proof.
  intros H. split.
  - intros Hf. split; assumption.
  - left. split; [assumption | apply hdr_same_refl].
Qed.

Lemma Sim_refl st : Sim st [] st.
Proof.
  exists []. split; [reflexivity|]. split; [apply Permutation_refl|].
  split; [simpl; rewrite app_nil_r; reflexivity|]. split; [reflexivity|].
  apply hdr_rel_refl. reflexivity.
Qed.

Lemma Sim_trans st t1 st1 t2 st2 : Sim st t1 st1 -> Sim st1 t2 st2 -> Sim st (t1 ++ t2) st2.
Proof.
  intros (d1 & S1 & P1 & V1 & G1 & H1) (d2 & S2 & P2 & V2 & G2 & H2).
  exists (d1 ++ d2).
  split; [rewrite S1, S2, app_assoc; reflexivity|].
  split; [rewrite names_app, holes_app, map_app; apply Permutation_app; assumption|].
  split; [rewrite V2, V1, svs_entries_app, app_assoc; reflexivity|].
  split; [rewrite G2, G1, rec_entries_app, fold_left_app; reflexivity|].
  eapply hdr_rel_trans; eassumption.
Qed.

(** A literal piece changes nothing. *)
Lemma Sim_lit st h : Sim st [TLit h] st.
Proof.
  exists []. split; [reflexivity|]. split; [apply Permutation_refl|].
  split; [simpl; rewrite app_nil_r; reflexivity|]. split; [reflexivity|].
  apply hdr_rel_refl. reflexivity.
Qed.

(** ** Drawing a placeholder *)

Lemma fresh_inv st ph st1 : fresh st = MOk (ph, st1) ->
  exists g, st_slugs st = g :: st_slugs st1 /\ ph = mk_placeholder g /\
    st1 = mkSt (st_slugs st1) (st_first st) (st_title st) (st_serv st) (st_pre st) (st_post st)
               (st_svs st) (st_groups st).
Proof.
  unfold fresh. destruct (st_slugs st) as [|g r] eqn:E; [discriminate|].
  intros H. injection H as <- <-. exists g. simpl. auto.
Qed.

Lemma Inv_step (slugs : list str) g r (U U' : list str) :
  slugs = g :: r -> NoDup slugs -> (forall x, In x slugs -> ~ In (mk_placeholder x) U) ->
  (forall y, In y U' -> In y U \/ y = mk_placeholder g) ->
  NoDup r /\ (forall x, In x r -> ~ In (mk_placeholder x) U') /\ ~ In (mk_placeholder g) U /\ ~ In g r.
Proof.
  intros -> Hnd HU Hsub. inversion Hnd as [|? ? Hg Hr]; subst.
  split; [assumption|]. split; [|split; [apply HU; left; reflexivity | assumption]].
  intros x Hx Hin. destruct (Hsub _ Hin) as [H|H].
  - apply (HU x); [right; assumption | assumption].
  - apply mk_placeholder_inj in H. subst x. contradiction.
Qed.

(** [set_svs] after [fresh]: one scaled-value hole. *)
Lemma Sim_svs_hole st ph st1 v : Inv st -> fresh st = MOk (ph, st1) ->
  Sim st [THole ph (KSvs v)] (set_svs st1 ph v) /\ Inv (set_svs st1 ph v) /\
  st_first (set_svs st1 ph v) = st_first st.
Proof.
  intros (Hnd & HU & HV & HS) Hf. destruct (fresh_inv _ _ _ Hf) as (g & Hs & -> & E1).
  destruct (Inv_step _ g (st_slugs st1) (used st) (used (set_svs st1 (mk_placeholder g) v)) Hs Hnd HU)
    as (Hnd1 & HU1 & Hnew & Hg).
  { intros y Hy. rewrite E1 in Hy. unfold used, set_svs in Hy. simpl in Hy.
    apply in_app_or in Hy as [Hy|Hy].
    - destruct (in_dec (list_eq_dec N.eq_dec) (mk_placeholder g) (map fst (st_svs st))) as [Hin|Hnin].
      + left. unfold used. apply in_or_app. left.
        clear -Hy Hin. induction (st_svs st) as [|[k' v'] l IH]; simpl in *; [tauto|].
        destruct (str_eqb k' (mk_placeholder g)) eqn:E.
        * simpl in Hy. exact Hy.
        * simpl in Hy. destruct Hy as [Hy|Hy]; [left; exact Hy|].
          destruct Hin as [Hin|Hin]; [apply str_eqb_neq in E || idtac|].
          -- subst k'. rewrite str_eqb_refl in E. discriminate.
          -- right. apply IH; assumption.
      + rewrite od_set_fresh in Hy by assumption. rewrite map_app in Hy.
        apply in_app_or in Hy as [Hy|Hy]; [left; unfold used; apply in_or_app; left; exact Hy|].
        simpl in Hy. destruct Hy as [<-|[]]. right; reflexivity.
    - left. unfold used. apply in_or_app. right. exact Hy. }
  assert (Hk : ~ In (mk_placeholder g) (map fst (st_svs st))).
  { intros H. apply Hnew. unfold used. apply in_or_app. left; exact H. }
  split; [|split].
  - exists [g]. rewrite E1. unfold set_svs. simpl.
    split; [exact Hs|]. split; [apply Permutation_refl|].
    split; [apply od_set_fresh; exact Hk|]. split; [reflexivity|].
    split.
    + intros H. split; [exact H | reflexivity].
    + left. split; [reflexivity | repeat split].
  - split; [rewrite E1; unfold set_svs; simpl; exact Hnd1|]. split; [exact HU1|].
    split; [rewrite E1; unfold set_svs; simpl; exact HV|].
    rewrite E1. unfold set_svs. simpl. rewrite Hs in HS. inversion HS; assumption.
  - rewrite E1. reflexivity.
Qed.

Lemma od_set_keys {V} (k : str) (v : V) l y :
  In y (map fst (od_set k v l)) -> In y (map fst l) \/ y = k.
Proof.
  induction l as [|[k' v'] l IH]; simpl.
  - intros [<-|[]]. right; reflexivity.
  - destruct (str_eqb k' k) eqn:E; simpl.
    + intros [H|H]; [left; left; exact H | left; right; exact H].
    + intros [H|H]; [left; left; exact H|]. destruct (IH H) as [H'|H']; [left; right; exact H' | right; exact H'].
Qed.

Definition all_lit (tt : list tseg) : bool :=
  forallb (fun x => match x with TLit _ => true | _ => false end) tt.

Lemma all_lit_app a b : all_lit (a ++ b) = all_lit a && all_lit b.
Proof. apply forallb_app. Qed.

Lemma all_lit_facts tt : all_lit tt = true ->
  norec tt = true /\ nhdr tt = true /\ svs_entries tt = [] /\ holes (names tt) = [].
Proof.
  induction tt as [|x tt IH]; [repeat split|].
  simpl. intros H. apply andb_true_iff in H as [H1 H2]. destruct (IH H2) as (A & B & C & D).
  destruct x as [h|p k]; [|discriminate]. simpl. rewrite A, B. repeat split; assumption.
Qed.

Lemma inst_nil sub : inst sub [] = [].
Proof. reflexivity. Qed.
Lemma inst_cons_lit sub h t : inst sub (SLit h :: t) = h ++ inst sub t.
Proof. reflexivity. Qed.
Lemma inst_cons_hole sub p t :
  inst sub (SHole p :: t) = (match assoc p sub with Some v => v | None => p end) ++ inst sub t.
Proof. reflexivity. Qed.

Section Compile.
  Variable alt_escape : str -> str.
  Variable render_block : num -> str -> list node -> list str.

  Lemma tfinal_all_lit k cbs tt : all_lit tt = true ->
    tfinal render_block k cbs tt = MOk (inst [] (names tt)).
  Proof.
    induction tt as [|x tt IH]; [reflexivity|].
    simpl. intros H. apply andb_true_iff in H as [H1 H2]. destruct x as [h|p kk]; [|discriminate].
    cbn [tfinal]. rewrite (IH H2). reflexivity.
  Qed.

  (** *** Brace expressions *)

  Lemma render_brace_sim st src html st' : Inv st ->
    render_brace st src = MOk (html, st') ->
    exists p v, brace_parse src = BOk v /\ html = p /\ p <> [] /\ has_chr c_percent p = true /\
      Sim st [THole p (KSvs v)] st' /\ Inv st' /\ st_first st' = st_first st.
  Proof.
    intros HI. unfold render_brace.
    destruct (brace_parse src) as [v| |] eqn:Ep; cbn [lift_bres mbind]; try discriminate.
    destruct (fresh st) as [[ph st1]|e] eqn:Ef; cbn [mbind]; [|discriminate].
    intros H. injection H as <- <-.
    destruct (Sim_svs_hole st ph st1 v HI Ef) as (A & B & C).
    destruct (fresh_inv _ _ _ Ef) as (g & _ & -> & _).
    exists (mk_placeholder g), v.
    split; [reflexivity|]. split; [reflexivity|]. split; [discriminate|]. split; [reflexivity|].
    split; [exact A|]. split; [exact B | exact C].
  Qed.

  Lemma render_alt_sim st src html st' :
    render_alt alt_escape st src = MOk (html, st') ->
    st' = st /\ spec_alt alt_escape src = MOk html.
  Proof.
    unfold render_alt, spec_alt.
    destruct (brace_parse src) as [v| |]; cbn [lift_bres mbind]; try discriminate.
    destruct (svs_plain v) as [x|]; [|discriminate].
    intros H. injection H as <- <-. split; reflexivity.
  Qed.

  Lemma spec_brace_hole k cbs src p v : brace_parse src = BOk v ->
    spec_brace k src = tfinal render_block k cbs [THole p (KSvs v)].
  Proof.
    intros E. unfold spec_brace. rewrite E. cbn [lift_bres mbind tfinal].
    destruct (spec_value k v) as [a|e]; [|reflexivity]. cbn [mbind]. rewrite app_nil_r. reflexivity.
  Qed.

  (** *** Inline content of a heading *)

  Lemma render_inls_sim : forall l st text st', Inv st ->
    render_inls alt_escape st l = MOk (text, st') ->
    exists tc, text = inst [] (names tc) /\ Sim st tc st' /\ Inv st' /\ st_first st' = st_first st /\
      norec tc = true /\ nhdr tc = true /\
      (forall k cbs, spec_inls alt_escape k l = tfinal render_block k cbs tc) /\
      (has_brace l = true -> has_chr c_percent text = true) /\
      (has_brace l = false -> all_lit tc = true).
  Proof.
    induction l as [|i l IH]; intros st text st' HI H.
    - simpl in H. injection H as <- <-. exists [].
      split; [reflexivity|]. split; [apply Sim_refl|]. split; [assumption|].
      split; [reflexivity|]. split; [reflexivity|]. split; [reflexivity|].
      split; [reflexivity|]. split; [discriminate | reflexivity].
    - destruct i as [h|src|src]; cbn [render_inls] in H.
      + destruct (render_inls alt_escape st l) as [[x st1]|e] eqn:E; cbn [mbind] in H; [|discriminate].
        injection H as <- <-.
        destruct (IH _ _ _ HI E) as (tc & -> & S & I1 & F & NR & NH & SP & HB1 & HB2).
        exists (TLit h :: tc). split; [reflexivity|].
        split; [apply (Sim_trans _ _ _ _ _ (Sim_lit st h) S)|].
        split; [assumption|]. split; [assumption|].
        split; [exact NR|]. split; [exact NH|].
        split; [|split].
        * intros k cbs. cbn [spec_inls tfinal]. rewrite (SP k cbs). reflexivity.
        * intros Hb. cbn [has_brace existsb] in Hb. simpl in Hb.
          rewrite has_chr_app. rewrite (HB1 Hb). apply orb_true_r.
        * intros Hb. simpl. apply HB2. exact Hb.
      + destruct (render_brace st src) as [[ph st1]|e] eqn:Eb; cbn [mbind] in H; [|discriminate].
        destruct (render_brace_sim _ _ _ _ HI Eb) as (p & v & Ep & -> & Hne & Hpc & S1 & I1 & F1).
        destruct (render_inls alt_escape st1 l) as [[x st2]|e] eqn:E; cbn [mbind] in H; [|discriminate].
        injection H as <- <-.
        destruct (IH _ _ _ I1 E) as (tc & -> & S & I2 & F & NR & NH & SP & HB1 & HB2).
        exists (THole p (KSvs v) :: tc). split; [reflexivity|].
        split; [apply (Sim_trans _ _ _ _ _ S1 S)|].
        split; [assumption|]. split; [congruence|].
        split; [exact NR|]. split; [exact NH|].
        split; [|split].
        * intros k cbs. cbn [spec_inls]. rewrite (spec_brace_hole k cbs src p v Ep).
          cbn [tfinal]. rewrite (SP k cbs).
          destruct (spec_value k v) as [a|e]; [|reflexivity]. cbn [mbind]. rewrite app_nil_r. reflexivity.
        * intros _. rewrite has_chr_app, Hpc. reflexivity.
        * discriminate.
      + destruct (render_alt alt_escape st src) as [[a st1]|e] eqn:Ea; cbn [mbind] in H; [|discriminate].
        destruct (render_alt_sim _ _ _ _ Ea) as (-> & Sa).
        destruct (render_inls alt_escape st l) as [[x st2]|e] eqn:E; cbn [mbind] in H; [|discriminate].
        injection H as <- <-.
        destruct (IH _ _ _ HI E) as (tc & -> & S & I2 & F & NR & NH & SP & HB1 & HB2).
        exists (TLit a :: tc). split; [reflexivity|].
        split; [apply (Sim_trans _ _ _ _ _ (Sim_lit st a) S)|].
        split; [assumption|]. split; [assumption|].
        split; [exact NR|]. split; [exact NH|].
        split; [|split].
        * intros k cbs. cbn [spec_inls tfinal]. rewrite Sa. cbn [mbind]. rewrite (SP k cbs). reflexivity.
        * intros Hb. simpl in Hb. rewrite has_chr_app. rewrite (HB1 Hb). apply orb_true_r.
        * intros Hb. simpl. apply HB2. exact Hb.
  Qed.
End Compile.

(** ** Headings *)

Lemma h_open1 x : s "<h" ++ dec_N 1 ++ x = s "<h1" ++ x.
Proof. reflexivity. Qed.
Lemma h_close1 x : s "</h" ++ dec_N 1 ++ s ">" ++ x = s "</h1>" ++ x.
Proof. reflexivity. Qed.

Lemma rstate_eq a b :
  st_slugs a = st_slugs b -> st_first a = st_first b -> st_title a = st_title b ->
  st_serv a = st_serv b -> st_pre a = st_pre b -> st_post a = st_post b ->
  st_svs a = st_svs b -> st_groups a = st_groups b -> a = b.
Proof. destruct a, b; simpl; intros; subst; reflexivity. Qed.

Lemma map_mk_nil d : Permutation [] (map mk_placeholder d) -> d = [].
Proof. intros H. apply Permutation_nil in H. destruct d; [reflexivity | discriminate]. Qed.

(** A run whose template is all literal left the state alone. *)
Lemma Sim_all_lit_same st tc st1 : Sim st tc st1 -> all_lit tc = true ->
  st_first st1 = st_first st -> st1 = st.
Proof.
  intros (d & S & P & V & G & [HF HC]) HL F.
  destruct (all_lit_facts _ HL) as (NR & NH & SE & HO).
  rewrite HO in P. apply map_mk_nil in P. subst d. simpl in S.
  rewrite SE, app_nil_r in V. rewrite (norec_rec_entries _ NR) in G. simpl in G.
  destruct HC as [[_ (A & B & C & D)]|(_ & _ & t1 & pre & t2 & post & serv & t3 & E & _)].
  - apply rstate_eq; congruence.
  - exfalso. rewrite E in NH. rewrite nhdr_app in NH. simpl in NH. rewrite andb_false_r in NH. discriminate.
Qed.

Lemma spec_value_num_solid k n v : spec_value k [PNum n] = MOk v -> solid v.
Proof.
  unfold spec_value, svs_scale. cbn [scale_svs]. destruct (scale_num k n) as [n'|]; cbn [option_map]; [|discriminate].
  change (svs_norm [PNum n']) with [PNum n'].
  destruct (render_svs [PNum n']) as [x|] eqn:E; [|discriminate].
  intros H. injection H as <-. eapply render_svs_num_solid. exact E.
Qed.

Section Heading.
  Variable alt_escape : str -> str.
  Variable render_block : num -> str -> list node -> list str.

  Lemma render_heading_sim st level ch html st' : Inv st ->
    render_heading alt_escape st level ch = MOk (html, st') ->
    exists tt, html = inst [] (names tt) /\ Sim st tt st' /\ Inv st' /\ st_first st' = false /\
      norec tt = true /\
      (forall k cbs, spec_heading alt_escape k (st_first st) level ch = tfinal render_block k cbs tt).
  Proof.
    intros HI H. unfold render_heading in H.
    destruct (render_inls alt_escape st ch) as [[text st1]|e] eqn:Einl; cbn [mbind] in H; [|discriminate].
    destruct (render_inls_sim alt_escape render_block _ _ _ _ HI Einl)
      as (tc & Etext & S1 & I1 & F1 & NR & NH & SP & HB1 & HB2).
    destruct (st_first st1 && (level =? 1) && negb (has_chr c_lt text) && negb (has_chr c_percent text)) eqn:C.
    - (* captured *)
      apply andb_true_iff in C as [C Cpc]. apply andb_true_iff in C as [C Clt].
      apply andb_true_iff in C as [Cf Clv]. apply N.eqb_eq in Clv. subst level.
      apply negb_true_iff in Cpc, Clt.
      assert (Hnb : has_brace ch = false).
      { destruct (has_brace ch) eqn:E; [|reflexivity]. rewrite (HB1 eq_refl) in Cpc. discriminate. }
      pose proof (HB2 Hnb) as HL.
      assert (st1 = st) by (eapply Sim_all_lit_same; eassumption). subst st1. clear S1 I1 F1.
      assert (Hspec : forall k, spec_inls alt_escape k ch = MOk text).
      { intros k. rewrite (SP k []). rewrite Etext. apply tfinal_all_lit. exact HL. }
      assert (Hplain : is_plain_title true 1 ch text = true).
      { unfold is_plain_title. rewrite Hnb, Clt, Cpc. reflexivity. }
      destruct HI as (Hnd & HU & HV & HS).
      destruct (serving_search text) as [[[[i sp] pr] d]|] eqn:Ess.
      + (* with a serving count *)
        destruct (negb (int_ok d)) eqn:Eint; [discriminate|].
        destruct (fresh st) as [[ph sa]|e] eqn:Ef0; cbn [mbind] in H; [|discriminate].
        destruct (fresh_inv _ _ _ Ef0) as (g0 & Hs0 & -> & Esa).
        set (n := val_N d) in *.
        match type of H with context [fresh ?s2] => set (st2 := s2) in * end.
        destruct (fresh st2) as [[pre st3]|e] eqn:Ef1; cbn [mbind] in H; [|discriminate].
        destruct (fresh_inv _ _ _ Ef1) as (g1 & Hs1 & -> & Est3).
        destruct (fresh st3) as [[post st4]|e] eqn:Ef2; cbn [mbind] in H; [|discriminate].
        destruct (fresh_inv _ _ _ Ef2) as (g2 & Hs2 & -> & Est4).
        injection H as <- <-.
        assert (Hslugs : st_slugs st = g0 :: g1 :: g2 :: st_slugs st4).
        { rewrite Hs0. f_equal. subst st2. rewrite Esa in Hs1. unfold set_svs in Hs1. simpl in Hs1.
          rewrite Hs1. f_equal. rewrite Est3 in Hs2. simpl in Hs2. exact Hs2. }
        rewrite Hslugs in Hnd, HU, HS.
        assert (Hg0 : slug_ok g0 = true) by (inversion HS; assumption).
        pose proof (placeholder_solid g0 Hg0) as Hsolid.
        assert (Hk : ~ In (mk_placeholder g0) (map fst (st_svs st))).
        { intros Hin. apply (HU g0 (or_introl eq_refl)). unfold used. apply in_or_app. left. exact Hin. }
        exists [THole (mk_placeholder g1) KPre;
                TLit (s "<h" ++ dec_N 1 ++ attr_scalable ++ s ">" ++ (firstn i text ++ sp)
                      ++ tag_open (s "span") (Some cls_serving_count) pr);
                THole (mk_placeholder g0) (KSvs [PNum (NInt (Z.of_N n))]);
                TLit (tag_close (s "span") pr ++ s "</h" ++ dec_N 1 ++ s ">");
                THole (mk_placeholder g2) (KPost (Some n));
                TLit [c_nl]].
        split; [|split; [|split; [|split; [|split]]]].
        * unfold heading_html. rewrite (t_tag_app_solid _ _ pr _ Hsolid).
          cbn [names map name_of]. repeat (rewrite inst_cons_hole || rewrite inst_cons_lit). cbn [assoc].
          rewrite inst_nil, app_nil_r. rewrite <- !app_assoc. reflexivity.
        * exists [g0; g1; g2].
          split; [rewrite Est4; simpl; exact Hslugs|].
          split; [simpl; apply perm_swap|].
          split.
          { rewrite Est4, Est3. subst st2. simpl. rewrite Esa. unfold set_svs. simpl.
            apply od_set_fresh. exact Hk. }
          split.
          { rewrite Est4, Est3. subst st2. simpl. rewrite Esa. reflexivity. }
          split; [intros Hx; congruence|].
          right. split; [exact Cf|]. split; [rewrite Est4; reflexivity|].
          exists [], (mk_placeholder g1),
            [TLit (s "<h" ++ dec_N 1 ++ attr_scalable ++ s ">" ++ (firstn i text ++ sp)
                   ++ tag_open (s "span") (Some cls_serving_count) pr);
             THole (mk_placeholder g0) (KSvs [PNum (NInt (Z.of_N n))]);
             TLit (tag_close (s "span") pr ++ s "</h" ++ dec_N 1 ++ s ">")],
            (mk_placeholder g2), (Some n), [TLit [c_nl]].
          split; [reflexivity|]. split; [reflexivity|]. split; [reflexivity|]. split; [reflexivity|].
          rewrite Est4, Est3. subst st2. simpl. repeat split; reflexivity.
        * (* Inv st4' *)
          inversion Hnd as [|? ? Hn0 Hnd0]; subst. inversion Hnd0 as [|? ? Hn1 Hnd1]; subst.
          inversion Hnd1 as [|? ? Hn2 Hnd2]; subst.
          split; [rewrite Est4; simpl; exact Hnd2|].
          split.
          { intros g Hg Hin. rewrite Est4 in Hg, Hin. simpl in Hg.
            unfold used in Hin. simpl in Hin. rewrite Est3 in Hin. subst st2. simpl in Hin.
            rewrite Esa in Hin. unfold set_svs in Hin. simpl in Hin.
            apply in_app_or in Hin as [Hin|Hin].
            - apply od_set_keys in Hin as [Hin|Hin].
              + apply (HU g); [right; right; right; exact Hg | unfold used; apply in_or_app; left; exact Hin].
              + apply mk_placeholder_inj in Hin. subst g. apply Hn0. right; right; exact Hg.
            - apply (HU g); [right; right; right; exact Hg | unfold used; apply in_or_app; right; exact Hin]. }
          split; [rewrite Est4; simpl; discriminate|].
          rewrite Est4. simpl. inversion HS as [|? ? _ HS0]; subst. inversion HS0 as [|? ? _ HS1]; subst.
          inversion HS1; assumption.
        * rewrite Est4. reflexivity.
        * reflexivity.
        * intros k cbs. unfold spec_heading. rewrite Cf, (Hspec k). cbn [mbind]. rewrite Hplain, Ess, Eint.
          fold n. cbn [tfinal].
          destruct (spec_value k [PNum (NInt (Z.of_N n))]) as [v|e] eqn:Ev; [|reflexivity]. cbn [mbind].
          destruct (header_note k (Some n)) as [note|e]; [|reflexivity]. cbn [mbind].
          rewrite (t_tag_app_solid _ _ pr v (spec_value_num_solid _ _ _ Ev)).
          rewrite <- !app_assoc. rewrite !h_open1, !h_close1. rewrite ?app_nil_r. reflexivity.
      + (* without a serving count *)
        cbn [mbind] in H.
        match type of H with context [fresh ?s2] => set (st2 := s2) in * end.
        destruct (fresh st2) as [[pre st3]|e] eqn:Ef1; cbn [mbind] in H; [|discriminate].
        destruct (fresh_inv _ _ _ Ef1) as (g1 & Hs1 & -> & Est3).
        destruct (fresh st3) as [[post st4]|e] eqn:Ef2; cbn [mbind] in H; [|discriminate].
        destruct (fresh_inv _ _ _ Ef2) as (g2 & Hs2 & -> & Est4).
        injection H as <- <-.
        assert (Hslugs : st_slugs st = g1 :: g2 :: st_slugs st4).
        { subst st2. simpl in Hs1. rewrite Hs1. f_equal. rewrite Est3 in Hs2. simpl in Hs2. exact Hs2. }
        rewrite Hslugs in Hnd, HU, HS.
        pose proof (HV Cf) as Hserv.
        exists [THole (mk_placeholder g1) KPre;
                TLit (s "<h" ++ dec_N 1 ++ attr_unscalable ++ s ">" ++ text ++ s "</h" ++ dec_N 1 ++ s ">");
                THole (mk_placeholder g2) (KPost None);
                TLit [c_nl]].
        split; [|split; [|split; [|split; [|split]]]].
        * unfold heading_html. cbn [names map name_of]. repeat (rewrite inst_cons_hole || rewrite inst_cons_lit). cbn [assoc].
          rewrite inst_nil, app_nil_r. rewrite <- !app_assoc. reflexivity.
        * exists [g1; g2].
          split; [rewrite Est4; simpl; exact Hslugs|].
          split; [simpl; apply Permutation_refl|].
          split; [rewrite Est4, Est3; subst st2; simpl; rewrite app_nil_r; reflexivity|].
          split; [rewrite Est4, Est3; subst st2; reflexivity|].
          split; [intros Hx; congruence|].
          right. split; [exact Cf|]. split; [rewrite Est4; reflexivity|].
          exists [], (mk_placeholder g1),
            [TLit (s "<h" ++ dec_N 1 ++ attr_unscalable ++ s ">" ++ text ++ s "</h" ++ dec_N 1 ++ s ">")],
            (mk_placeholder g2), None, [TLit [c_nl]].
          split; [reflexivity|]. split; [reflexivity|]. split; [reflexivity|]. split; [reflexivity|].
          rewrite Est4, Est3. subst st2. simpl. repeat split; try reflexivity. exact Hserv.
        * inversion Hnd as [|? ? Hn1 Hnd1]; subst. inversion Hnd1 as [|? ? Hn2 Hnd2]; subst.
          split; [rewrite Est4; simpl; exact Hnd2|].
          split.
          { intros g Hg Hin. rewrite Est4 in Hg, Hin. simpl in Hg.
            unfold used in Hin. simpl in Hin. rewrite Est3 in Hin. subst st2. simpl in Hin.
            apply (HU g); [right; right; exact Hg | exact Hin]. }
          split; [rewrite Est4; simpl; discriminate|].
          rewrite Est4. simpl. inversion HS as [|? ? _ HS0]; subst. inversion HS0; assumption.
        * rewrite Est4. reflexivity.
        * reflexivity.
        * intros k cbs. unfold spec_heading. rewrite Cf, (Hspec k). cbn [mbind]. rewrite Hplain, Ess.
          cbn [tfinal].
          destruct (header_note k None) as [note|e]; [|reflexivity]. cbn [mbind].
          rewrite <- !app_assoc. rewrite !h_open1, !h_close1. rewrite ?app_nil_r. reflexivity.
    - (* not the title *)
      injection H as <- <-.
      set (o := s "<h" ++ dec_N level ++ s ">").
      set (c := s "</h" ++ dec_N level ++ s ">" ++ [c_nl]).
      set (st1' := mkSt (st_slugs st1) false (st_title st1) (st_serv st1) (st_pre st1) (st_post st1)
                        (st_svs st1) (st_groups st1)).
      assert (Sclr : Sim st1 [] st1').
      { exists []. split; [reflexivity|]. split; [apply Permutation_refl|].
        split; [simpl; rewrite app_nil_r; reflexivity|]. split; [reflexivity|].
        split; [intros _; split; reflexivity|]. left. split; [reflexivity | repeat split]. }
      exists ([TLit o] ++ tc ++ [TLit c]).
      split; [|split; [|split; [|split; [|split]]]].
      + unfold heading_html. rewrite !names_app, !inst_app. cbn [names map name_of].
        rewrite !inst_cons_lit, inst_nil, !app_nil_r. rewrite <- Etext. subst o c. cbn [app].
        rewrite <- !app_assoc. reflexivity.
      + apply (Sim_trans _ _ _ _ _ (Sim_lit st o)).
        apply (Sim_trans _ _ _ _ _ S1).
        pose proof (Sim_trans _ _ _ _ _ Sclr (Sim_lit st1' c)) as Sx. exact Sx.
      + destruct I1 as (A & B & C0 & D). split; [exact A|]. split; [exact B|]. split; [discriminate | exact D].
      + reflexivity.
      + rewrite !norec_app, NR. reflexivity.
      + intros k cbs. unfold spec_heading. rewrite (SP k cbs).
        cbn [app tfinal]. rewrite (tfinal_app_norec render_block k cbs tc [TLit c] NR). cbn [tfinal mbind].
        destruct (tfinal render_block k cbs tc) as [x|e] eqn:Ex; [|reflexivity]. cbn [mbind].
        assert (Hnp : is_plain_title (st_first st) level ch x = false).
        { unfold is_plain_title. destruct (has_brace ch) eqn:Eb.
          - rewrite !andb_false_r. reflexivity.
          - pose proof (tfinal_all_lit render_block k cbs tc (HB2 eq_refl)) as Ey.
            rewrite Ey in Ex. injection Ex as <-. rewrite <- Etext. rewrite <- F1. simpl negb.
            rewrite andb_true_r. exact C. }
        rewrite Hnp. subst o c. rewrite <- !app_assoc. rewrite ?app_nil_r. reflexivity.
  Qed.
End Heading.

(** ** Recipe blocks and whole documents *)

Definition to_rsb (b : sblock) : rsb := mkRsb (sb_src b) (sb_pos b) (sb_fenced b) (starts_group b).

Lemma add_rsb_keys gs e y :
  In y (map fst (concat (add_rsb gs e))) -> y = fst e \/ In y (map fst (concat gs)).
Proof.
  intros H. apply in_map_iff in H as (x & <- & Hx).
  apply (Permutation_in _ (concat_add_rsb gs e)) in Hx. destruct Hx as [<-|Hx]; [left; reflexivity|].
  right. apply in_map. exact Hx.
Qed.

Lemma render_recipe_block_sim st fenced lang src pos html st' : Inv st ->
  render_recipe_block st fenced lang src pos = MOk (html, st') ->
  exists p, html = p /\
    Sim st [THole p (KRec (mkRsb src pos fenced (str_eqb lang lang_new_recipe)))] st' /\
    Inv st' /\ st_first st' = st_first st.
Proof.
  intros (Hnd & HU & HV & HS) H. unfold render_recipe_block in H.
  destruct (fresh st) as [[ph st1]|e] eqn:Ef; cbn [mbind] in H; [|discriminate].
  destruct (fresh_inv _ _ _ Ef) as (g & Hs & -> & E1).
  injection H as <- <-.
  set (b := mkRsb src pos fenced (str_eqb lang lang_new_recipe)).
  set (e := (mk_placeholder g, b)).
  assert (Hgr : match (match st_groups st with
                       | [] => [[]]
                       | g0 :: r => if str_eqb lang lang_new_recipe then [] :: g0 :: r else g0 :: r
                       end) with
                | g0 :: r => od_set (mk_placeholder g) b g0 :: r
                | [] => []
                end = add_rsb (st_groups st) e).
  { unfold add_rsb. destruct (st_groups st) as [|g0 r] eqn:Eg; [reflexivity|].
    subst e. cbn [snd rsb_new]. subst b. cbn [rsb_new].
    destruct (str_eqb lang lang_new_recipe); [reflexivity|].
    rewrite od_set_fresh; [reflexivity|].
    intros Hin. apply (HU g); [rewrite Hs; left; reflexivity|].
    unfold used. apply in_or_app. right. rewrite Eg. simpl. rewrite map_app. apply in_or_app. left. exact Hin. }
  rewrite Hgr.
  exists (mk_placeholder g). split; [reflexivity|].
  destruct (Inv_step _ g (st_slugs st1) (used st)
              (map fst (st_svs st) ++ map fst (concat (add_rsb (st_groups st) e))) Hs Hnd HU)
    as (Hnd1 & HU1 & Hnew & Hg).
  { intros y Hy. apply in_app_or in Hy as [Hy|Hy].
    - left. unfold used. apply in_or_app. left; exact Hy.
    - apply add_rsb_keys in Hy as [Hy|Hy]; [right; exact Hy|]. left. unfold used. apply in_or_app. right; exact Hy. }
  split; [|split].
  - exists [g]. rewrite E1. simpl.
    split; [exact Hs|]. split; [apply Permutation_refl|].
    split; [rewrite app_nil_r; reflexivity|]. split; [reflexivity|].
    split; [intros Hx; split; [exact Hx | reflexivity]|].
    left. split; [reflexivity | repeat split].
  - rewrite E1. simpl. split; [exact Hnd1|]. split; [exact HU1|]. split; [exact HV|].
    rewrite Hs in HS. inversion HS; assumption.
  - rewrite E1. reflexivity.
Qed.

Section Items.
  Variable alt_escape : str -> str.
  Variable render_block : num -> str -> list node -> list str.

  Lemma render_items_sim : forall l st html st', Inv st ->
    render_items alt_escape st l = MOk (html, st') ->
    exists tt, html = inst [] (names tt) /\ Sim st tt st' /\ Inv st' /\
      (forall k cbs, spec_items alt_escape render_block k (st_first st) cbs l = tfinal render_block k cbs tt) /\
      map snd (rec_entries tt) = map to_rsb (spec_blocks l).
  Proof.
    induction l as [|it l IH]; intros st html st' HI H.
    - simpl in H. injection H as <- <-. exists [].
      split; [reflexivity|]. split; [apply Sim_refl|]. split; [assumption|].
      split; [reflexivity | reflexivity].
    - cbn [render_items] in H.
      destruct (render_item alt_escape st it) as [[a st1]|e] eqn:Ei; cbn [mbind] in H; [|discriminate].
      destruct (render_items alt_escape st1 l) as [[b st2]|e] eqn:Er; cbn [mbind] in H; [|discriminate].
      injection H as <- <-.
      destruct it as [h|src|src|level ch|fenced lang src pos plain]; cbn [render_item] in Ei.
      + (* Lit *)
        injection Ei as <- <-.
        destruct (IH _ _ _ HI Er) as (tt & -> & S & I2 & SP & RB).
        exists (TLit h :: tt). split; [reflexivity|].
        split; [apply (Sim_trans _ _ _ _ _ (Sim_lit st h) S)|]. split; [assumption|].
        split; [|exact RB].
        intros k cbs. cbn [spec_items tfinal]. rewrite (SP k cbs). reflexivity.
      + (* Brace *)
        destruct (render_brace_sim _ _ _ _ HI Ei) as (p & v & Ep & -> & _ & _ & S1 & I1 & F1).
        destruct (IH _ _ _ I1 Er) as (tt & -> & S & I2 & SP & RB).
        exists (THole p (KSvs v) :: tt). split; [reflexivity|].
        split; [apply (Sim_trans _ _ _ _ _ S1 S)|]. split; [assumption|].
        split; [|exact RB].
        intros k cbs. cbn [spec_items tfinal]. unfold spec_brace. rewrite Ep. cbn [lift_bres mbind].
        rewrite <- F1. rewrite (SP k cbs). reflexivity.
      + (* Alt *)
        destruct (render_alt_sim _ _ _ _ _ Ei) as (-> & Sa).
        destruct (IH _ _ _ HI Er) as (tt & -> & S & I2 & SP & RB).
        exists (TLit a :: tt). split; [reflexivity|].
        split; [apply (Sim_trans _ _ _ _ _ (Sim_lit st a) S)|]. split; [assumption|].
        split; [|exact RB].
        intros k cbs. cbn [spec_items tfinal]. rewrite Sa. cbn [mbind]. rewrite (SP k cbs). reflexivity.
      + (* Heading *)
        destruct (render_heading_sim alt_escape render_block _ _ _ _ _ HI Ei)
          as (th & -> & S1 & I1 & F1 & NR & SH).
        destruct (IH _ _ _ I1 Er) as (tt & -> & S & I2 & SP & RB).
        exists (th ++ tt). split; [rewrite names_app, inst_app; reflexivity|].
        split; [apply (Sim_trans _ _ _ _ _ S1 S)|]. split; [assumption|].
        split.
        * intros k cbs. cbn [spec_items]. rewrite (SH k cbs). rewrite F1 in SP. rewrite (SP k cbs).
          rewrite (tfinal_app_norec render_block k cbs th tt NR). reflexivity.
        * rewrite rec_entries_app, (norec_rec_entries _ NR). exact RB.
      + (* Code *)
        destruct (is_recipe_block fenced lang) eqn:Erb.
        * destruct (render_recipe_block_sim _ _ _ _ _ _ _ HI Ei) as (p & -> & S1 & I1 & F1).
          destruct (IH _ _ _ I1 Er) as (tt & -> & S & I2 & SP & RB).
          exists (THole p (KRec (mkRsb src pos fenced (str_eqb (block_lang fenced lang) lang_new_recipe))) :: tt).
          split; [reflexivity|]. split; [apply (Sim_trans _ _ _ _ _ S1 S)|]. split; [assumption|].
          split.
          -- intros k cbs. cbn [spec_items tfinal]. rewrite Erb.
             destruct cbs as [|[gi trees] cbs']; [reflexivity|]. rewrite <- F1. rewrite (SP k cbs'). reflexivity.
          -- cbn [spec_blocks]. rewrite Erb. cbn [map]. rewrite <- RB. reflexivity.
        * injection Ei as <- <-.
          destruct (IH _ _ _ HI Er) as (tt & -> & S & I2 & SP & RB).
          exists (TLit plain :: tt). split; [reflexivity|].
          split; [apply (Sim_trans _ _ _ _ _ (Sim_lit st plain) S)|]. split; [assumption|].
          split.
          -- intros k cbs. cbn [spec_items tfinal]. rewrite Erb. rewrite (SP k cbs). reflexivity.
          -- cbn [spec_blocks]. rewrite Erb. exact RB.
  Qed.
End Items.
