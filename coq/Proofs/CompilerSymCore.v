(** * Symbolic compilation, part 4: the core lemma.  Value substitution of
    the embedded use by the embedded definition body, on the embedded forest,
    is the embedding of the grafted forest. *)
From Coq Require Import List ZArith NArith Bool Lia.
From RG Require Import Base.Str Base.Num Model.Recipe Model.Compiler Spec.Valid Spec.CompileSpec Spec.CompileSym
  Proofs.RecipeInd Proofs.NodeEqv Proofs.RecipeValid Proofs.CompilerExpand
  Proofs.CompilerInvSize Proofs.CompilerInvNames Proofs.CompilerInvDefs Proofs.CompilerInvSub
  Proofs.CompilerInvPass1 Proofs.CompilerInvPass2 Proofs.CompilerSymDefs Proofs.CompilerSymCount
  Proofs.CompilerSymPass1.
Import ListNotations.
Local Open Scope nat_scope.

Section TreeCore.
  Variables (k : svs) (D : node) (amt : amount) (new_m : node) (new_s : sym).
  Let r := Reference D 0 amt.
  Let sg := substitute r new_m.

  Lemma sg_Step d xs : sg (Step d xs) = Step d (map sg xs).
  Proof. unfold sg. rewrite substitute_unfold. reflexivity. Qed.
  Lemma sg_Ingredient d q : sg (Ingredient d q) = Ingredient d q.
  Proof. reflexivity. Qed.
  Lemma sg_SubRecipe b ns sh : sg (SubRecipe b ns sh) = SubRecipe (sg b) ns sh.
  Proof. apply substitute_SubRecipe_ref. Qed.

  Lemma graft_embed en en' :
    (forall q X, eenv_lookup q en = Some X -> svs_eqb q k = true -> X = D) ->
    (forall q X, eenv_lookup q en = Some X -> svs_eqb q k = false ->
                 node_eqb X D = false /\ eenv_lookup q en' = Some (sg X)) ->
    forall t x, y_embed en t = (x, true) ->
      (forall i a, inside (Reference D i a) x -> Reference D i a = r) ->
      (1 <= y_count k t -> y_embed en' new_s = (new_m, true)) ->
      y_embed en' (y_graft k new_s t) = (sg x, true).
  Proof.
    intros H1 H2.
    induction t as [d q0|d ins IH|q i a|b ns sh IH] using sym_ind'; intros x He Hu Hn.
    - inversion He; subst. reflexivity.
    - rewrite y_embed_step in He.
      pose proof (f_equal fst He) as Hx. pose proof (f_equal snd He) as Hok. simpl in Hx, Hok. clear He.
      subst x. simpl y_graft. rewrite y_embed_step, sg_Step.
      pose proof (embed_list_ok en ins Hok) as HF.
      set (xs := map fst (map (y_embed en) ins)) in *.
      assert (Hu' : forall y, In y xs -> forall i a, inside (Reference D i a) y -> Reference D i a = r).
      { intros y Hy i a Hin. apply Hu. eapply inside_step; eauto. }
      assert (Hn' : forall y, In y ins -> 1 <= y_count k y -> y_embed en' new_s = (new_m, true)).
      { intros y Hy Hc. apply Hn. rewrite y_count_step. clear -Hy Hc.
        induction ins as [|z l IHl]; [contradiction|]. simpl.
        destruct Hy as [->|Hy]; [lia | specialize (IHl Hy); lia]. }
      clear Hu Hn Hok.
      assert (L : map (y_embed en') (map (y_graft k new_s) ins) = map (fun y => (sg y, true)) xs).
      { induction HF as [|t0 x0 l l' H0 _ IHF]; [reflexivity|]. simpl.
        inversion IH as [|? ? IH0 IHr]; subst.
        rewrite (IH0 x0 H0);
          [|intros i a Hin; apply (Hu' x0 (or_introl eq_refl) i a Hin)|apply Hn'; left; reflexivity].
        f_equal. apply IHF; [exact IHr | |].
        - intros y Hy i a Hin. apply (Hu' y (or_intror Hy) i a Hin).
        - intros y Hy Hc. apply (Hn' y (or_intror Hy) Hc). }
      assert (A1 : map fst (map (fun y : node => (sg y, true)) xs) = map sg xs)
        by (rewrite map_map; apply map_ext; reflexivity).
      assert (A2 : forallb snd (map (fun y : node => (sg y, true)) xs) = true)
        by (clear; induction xs; simpl; auto).
      rewrite L, A1, A2. reflexivity.
    - simpl in He. destruct (eenv_lookup q en) as [X|] eqn:El; inversion He; subst x. clear He.
      simpl y_graft. destruct (svs_eqb q k) eqn:Eq.
      + rewrite (H1 q X El Eq) in *.
        assert (Hr : Reference D i a = r) by (apply Hu, inside_here).
        rewrite Hr. unfold sg, r. rewrite substitute_unfold, node_eqb_refl.
        apply Hn. simpl. rewrite Eq. lia.
      + destruct (H2 q X El Eq) as [HnD Hl']. simpl. rewrite Hl'. f_equal.
        unfold sg, r. rewrite substitute_Reference; [reflexivity|].
        rewrite node_eqb_Reference, HnD. reflexivity.
    - rewrite y_embed_sub in He.
      pose proof (f_equal fst He) as Hx. pose proof (f_equal snd He) as Hok. simpl in Hx, Hok. clear He.
      destruct (y_embed en b) as [xb okb] eqn:Eb. simpl in *. subst okb x.
      rewrite sg_SubRecipe.
      rewrite (IH xb eq_refl); [reflexivity| |exact Hn].
      intros i a Hin. apply Hu. now apply inside_sub.
  Qed.
End TreeCore.

(** Embedding only looks at the keys that occur. *)
Lemma embed_ext en1 en2 : forall t,
  (forall q i a, yocc q i a t -> eenv_lookup q en2 = eenv_lookup q en1) ->
  y_embed en2 t = y_embed en1 t.
Proof.
  induction t as [d q0|d ins IH|q i a|b ns sh IH] using sym_ind'; intro H.
  - reflexivity.
  - rewrite !y_embed_step.
    assert (L : map (y_embed en2) ins = map (y_embed en1) ins).
    { rewrite Forall_forall in IH. apply map_ext_in. intros y Hy. apply IH; [exact Hy|].
      intros q i a Ho. apply (H q i a). eapply yocc_step; eauto. }
    now rewrite L.
  - simpl. rewrite (H q i a (yocc_here q i a)). reflexivity.
  - rewrite !y_embed_sub, IH; [reflexivity|]. intros q i a Ho. apply (H q i a). now constructor.
Qed.

Lemma eenv_lookup_eqb q k en : svs_eqb q k = true -> eenv_lookup q en = eenv_lookup k en.
Proof.
  intro H. induction en as [|[k' v] en IH]; simpl; [reflexivity|].
  assert (E : svs_eqb k' q = svs_eqb k' k).
  { destruct (svs_eqb k' q) eqn:E1, (svs_eqb k' k) eqn:E2; try reflexivity.
    - rewrite <- E2. symmetry. eapply svs_eqb_trans; eauto.
    - rewrite <- E1. eapply svs_eqb_trans; [exact E2|]. now rewrite svs_eqb_sym. }
  rewrite E. destruct (svs_eqb k' k); [reflexivity | exact IH].
Qed.

Lemma in_two {A} (l : list A) x y : In x l -> In y l -> x = y \/ subl [x; y] l \/ subl [y; x] l.
Proof.
  induction l as [|z l IH]; simpl; [tauto|]. intros [->|Hx] [->|Hy].
  - left. reflexivity.
  - right. left. apply subl_keep. now apply subl_one.
  - right. right. apply subl_keep. now apply subl_one.
  - destruct (IH Hx Hy) as [H|[H|H]]; [left; exact H | right; left | right; right]; now apply subl_skip.
Qed.

(** ** The forest level, at the turn of a table entry that is folded *)
Section ForestCore.
  Variable lower : str -> str.
  Notation norm := (normalise_output_name lower).
  Variables (i : nat) (bs : list (list node)) (t : table) (e : entry).
  Variables (body : node) (nm : svs) (sh : bool) (amt : amount) (blk : nat) (uw : bool) (body_s : sym).
  Let D := SubRecipe body [nm] sh.
  Let r := Reference D 0 amt.
  Let new := if uw then body else D.
  Let new_s := if uw then body_s else YSub body_s [nm] sh.
  Let sg := substitute r new.
  Let k := e_key e.
  Hypothesis I : Inv2 lower i bs t.
  Hypothesis Hi : nth_error t i = Some e.
  Hypothesis Hsub : e_sub e = D.
  Hypothesis Hrefs : e_refs e = [(r, blk)].
  Hypothesis HUniq : Uniq lower (concat bs).

  Lemma Hnew : new = body \/ new = D.
  Proof. unfold new. destruct uw; auto. Qed.

  Lemma k_norm : k = norm nm.
  Proof. exact (proj2 (e_idx_key lower i bs t e body nm sh I Hi Hsub)). Qed.

  Lemma Dunique x : In x (concat bs) -> node_eqb x D = true -> x = D.
  Proof. exact (D_unique lower i bs t e body nm sh amt new Hnew I Hi Hsub x). Qed.

  Lemma Din : In D (concat bs).
  Proof. exact (D_in_concat lower i bs t e body nm sh I Hi Hsub). Qed.

  Lemma uses_all x : In x (concat bs) -> forall i0 a, inside (Reference D i0 a) x -> Reference D i0 a = r.
  Proof. exact (all_uses_r lower i bs t e body nm sh amt blk I Hi Hsub Hrefs x). Qed.

  Lemma sg_small_D x : node_size x <= node_size D -> sg x = x.
  Proof. exact (sg_small' body nm sh amt new x). Qed.

  Lemma new_in_D x : inside x new -> inside x D.
  Proof. unfold new. destruct uw; [apply inside_sub | auto]. Qed.

  Lemma chain_new : chain new D.
  Proof. unfold new. destruct uw; [apply chain_body, chain_here | apply chain_here]. Qed.

  (** A root carrying a name that normalises to the key is the definition. *)
  Lemma root_with_key X n : In X (concat bs) -> is_subrecipe X = true -> In n (names_of X) ->
    svs_eqb (norm n) k = true -> X = D.
  Proof.
    intros HX Hs Hn Hk. destruct (In_nth _ _ [] Hn) as (k0 & Hk0 & Hnth).
    destruct (i2_NL _ _ _ _ I X X HX (chain_here _) Hs k0 Hk0) as (j & ej & Hj & Hkey & _ & Hsj).
    assert (j = i).
    { eapply keys_distinct_nth; [apply I | exact Hj | exact Hi |]. rewrite Hkey.
      replace (nth k0 (names_of X) []) with n by (symmetry; exact Hnth). exact Hk. }
    subst j. rewrite Hi in Hj. inversion Hj; subst ej. rewrite <- Hsub. symmetry. apply Hsj. lia.
  Qed.

  (** Two roots sharing a normalised name are the same value. *)
  Lemma same_root X Y n m : In X (concat bs) -> In Y (concat bs) ->
    is_subrecipe X = true -> is_subrecipe Y = true -> In n (names_of X) -> In m (names_of Y) ->
    svs_eqb (norm n) (norm m) = true -> X = Y.
  Proof.
    intros HX HY SX SY Hn Hm He. destruct (in_two _ X Y HX HY) as [H|[H|H]]; [exact H|exfalso|exfalso].
    - rewrite (HUniq X Y H X Y (chain_here _) (chain_here _) SX SY n m Hn Hm) in He. discriminate.
    - rewrite svs_eqb_sym in He.
      rewrite (HUniq Y X H Y X (chain_here _) (chain_here _) SY SX m n Hm Hn) in He. discriminate.
  Qed.

  Definition GoodEnv (en : eenv) : Prop :=
    forall q X, eenv_lookup q en = Some X ->
      In X (concat bs) /\ is_subrecipe X = true /\
      exists n, In n (names_of X) /\ svs_eqb (norm n) q = true.
  Definition EnvRel (en en' : eenv) : Prop :=
    forall q X, eenv_lookup q en = Some X -> svs_eqb q k = false -> eenv_lookup q en' = Some (sg X).

  Lemma good_H1 en : GoodEnv en -> forall q X, eenv_lookup q en = Some X -> svs_eqb q k = true -> X = D.
  Proof.
    intros G q X Hl Hq. destruct (G q X Hl) as (HX & Hs & n & Hn & Hnq).
    apply (root_with_key X n HX Hs Hn). eapply svs_eqb_trans; eauto.
  Qed.

  Lemma good_notD en : GoodEnv en -> forall q X, eenv_lookup q en = Some X -> svs_eqb q k = false ->
    node_eqb X D = false.
  Proof.
    intros G q X Hl Hq. destruct (G q X Hl) as (HX & Hs & n & Hn & Hnq).
    destruct (node_eqb X D) eqn:E; [exfalso|reflexivity].
    rewrite (Dunique X HX E) in Hn. simpl in Hn. destruct Hn as [<-|[]].
    rewrite <- k_norm in Hnq. rewrite svs_eqb_sym in Hnq. congruence.
  Qed.

  Lemma good_H2 en en' : GoodEnv en -> EnvRel en en' ->
    forall q X, eenv_lookup q en = Some X -> svs_eqb q k = false ->
      node_eqb X D = false /\ eenv_lookup q en' = Some (sg X).
  Proof. intros G R q X Hl Hq. split; [eapply good_notD; eauto | apply R; assumption]. Qed.

  (** What is known about [new_s] once the definition has been passed. *)
  Definition Past (en' : eenv) : Prop :=
    y_embed en' new_s = (new, true) /\
    forall q i0 a, yocc q i0 a new_s ->
      exists X0, eenv_lookup q en' = Some X0 /\ In X0 (concat bs) /\ is_subrecipe X0 = true /\
                 sg X0 = X0 /\ X0 <> D /\ exists n0, In n0 (names_of X0) /\ svs_eqb (norm n0) q = true.

  Lemma binds_lookup_map q names x y :
    eenv_lookup q (binds lower names y) = option_map (fun _ => y) (eenv_lookup q (binds lower names x)).
  Proof.
    induction names as [|n names IH]; simpl; [reflexivity|].
    destruct (svs_eqb (norm n) q); [reflexivity | exact IH].
  Qed.

  Lemma good_binds en en0 tree x : GoodEnv en -> In x (concat bs) -> y_embed en0 tree = (x, true) ->
    GoodEnv (binds lower (ynames tree) x ++ en).
  Proof.
    intros G Hx He q X Hl. rewrite eenv_lookup_app in Hl.
    destruct (eenv_lookup q (binds lower (ynames tree) x)) as [v|] eqn:Eb; [|apply G, Hl].
    inversion Hl; subst v. destruct (binds_lookup_some lower _ _ _ _ Eb) as (-> & n & Hn & Hq).
    destruct (embed_shape en0 tree x He) as [Hs Hnm]. split; [exact Hx|]. split.
    - rewrite Hs. destruct tree; simpl in Hn; try contradiction. reflexivity.
    - exists n. rewrite Hnm. auto.
  Qed.

  Lemma ref_inside_small X i0 a y : inside (Reference X i0 a) y -> node_size X < node_size y.
  Proof. intro H. apply inside_size in H. simpl in H. lia. Qed.

  Lemma past_at_D en en' : GoodEnv en -> EnvRel en en' ->
    y_embed en (YSub body_s [nm] sh) = (D, true) -> Past en'.
  Proof.
    intros G R He. rewrite y_embed_sub in He.
    assert (Hb : y_embed en body_s = (body, true)).
    { pose proof (f_equal fst He) as H1. pose proof (f_equal snd He) as H2. simpl in H1, H2.
      unfold D in H1. injection H1 as Hb1.
      destruct (y_embed en body_s) as [xb okb]. simpl in Hb1, H2. congruence. }
    assert (Hn : y_embed en new_s = (new, true)).
    { assert (Hg : forall b : bool, y_embed en (if b then body_s else YSub body_s [nm] sh) =
                                    (if b then body else D, true)).
      { intros [|]; [exact Hb|]. rewrite y_embed_sub, Hb. reflexivity. }
      exact (Hg uw). }
    assert (Hocc : forall q i0 a, yocc q i0 a new_s ->
              exists X0, eenv_lookup q en = Some X0 /\ eenv_lookup q en' = Some X0 /\ In X0 (concat bs) /\
                is_subrecipe X0 = true /\ sg X0 = X0 /\ X0 <> D /\
                exists n0, In n0 (names_of X0) /\ svs_eqb (norm n0) q = true).
    { intros q i0 a Ho. destruct (embed_occ en new_s new q i0 a Hn Ho) as (X0 & Hl & Hin).
      pose proof (ref_inside_small _ _ _ _ (new_in_D _ Hin)) as Hsz.
      assert (Hq : svs_eqb q k = false).
      { destruct (svs_eqb q k) eqn:Eq; [|reflexivity]. rewrite (good_H1 en G q X0 Hl Eq) in Hsz. lia. }
      destruct (G q X0 Hl) as (HX & Hs & Hn0).
      assert (Hsg : sg X0 = X0) by (apply sg_small_D; lia).
      exists X0. split; [exact Hl|]. split; [rewrite (R q X0 Hl Hq), Hsg; reflexivity|].
      split; [exact HX|]. split; [exact Hs|]. split; [exact Hsg|]. split; [|exact Hn0].
      intros ->. lia. }
    split.
    - rewrite <- Hn. apply embed_ext. intros q i0 a Ho.
      destruct (Hocc q i0 a Ho) as (X0 & H1 & H2 & _). congruence.
    - intros q i0 a Ho. destruct (Hocc q i0 a Ho) as (X0 & H1 & H2 & H3). exists X0. auto.
  Qed.

  Lemma past_extend en' ns x' : Past en' ->
    (forall q X0 n0 n1, In X0 (concat bs) -> is_subrecipe X0 = true -> X0 <> D -> sg X0 = X0 ->
        In n0 (names_of X0) -> svs_eqb (norm n0) q = true ->
        In n1 ns -> svs_eqb (norm n1) q = true -> x' = X0) ->
    Past (binds lower ns x' ++ en').
  Proof.
    intros [P1 P2] Hx.
    assert (Hl : forall q i0 a, yocc q i0 a new_s ->
              eenv_lookup q (binds lower ns x' ++ en') = eenv_lookup q en').
    { intros q i0 a Ho. destruct (P2 q i0 a Ho) as (X0 & Hl0 & HX & Hs & Hsg & HnD & n0 & Hn0 & Hq0).
      rewrite eenv_lookup_app. destruct (eenv_lookup q (binds lower ns x')) as [v|] eqn:Eb; [|reflexivity].
      destruct (binds_lookup_some lower _ _ _ _ Eb) as (-> & n1 & Hn1 & Hq1).
      rewrite Hl0. f_equal. eapply Hx; eauto. }
    split.
    - rewrite <- P1. apply embed_ext. exact Hl.
    - intros q i0 a Ho. destruct (P2 q i0 a Ho) as (X0 & Hl0 & Hrest).
      exists X0. split; [rewrite (Hl q i0 a Ho); exact Hl0 | exact Hrest].
  Qed.

  Lemma eqb_via q a b : svs_eqb a q = true -> svs_eqb b q = true -> svs_eqb a b = true.
  Proof. intros Ha Hb. eapply svs_eqb_trans; [exact Ha|]. now rewrite svs_eqb_sym. Qed.

  Lemma past_extend_root en' x : Past en' -> In x (concat bs) -> is_subrecipe x = true ->
    Past (binds lower (names_of x) (sg x) ++ en').
  Proof.
    intros P Hx Hs. apply past_extend; [exact P|].
    intros q X0 n0 n1 HX0 Hs0 HnD Hsg Hn0 Hq0 Hn1 Hq1.
    assert (x = X0) by (eapply (same_root x X0 n1 n0); eauto using eqb_via). subst x. exact Hsg.
  Qed.

  Lemma new_is_sub_if_named n1 : In n1 (names_of new) -> is_subrecipe new = true.
  Proof. destruct new; simpl; try contradiction. reflexivity. Qed.

  Lemma names_clash_D X0 n0 n1 q : In X0 (concat bs) -> is_subrecipe X0 = true -> X0 <> D ->
    In n0 (names_of X0) -> svs_eqb (norm n0) q = true ->
    In n1 (names_of new) -> svs_eqb (norm n1) q = true -> False.
  Proof.
    intros HX0 Hs0 HnD Hn0 Hq0 Hn1 Hq1.
    pose proof (eqb_via q _ _ Hq0 Hq1) as He.
    destruct (in_two _ X0 D HX0 Din) as [H|[H|H]]; [contradiction| |].
    - rewrite (HUniq X0 D H X0 new (chain_here _) chain_new Hs0 (new_is_sub_if_named n1 Hn1) n0 n1 Hn0 Hn1) in He.
      discriminate.
    - rewrite svs_eqb_sym in He.
      rewrite (HUniq D X0 H new X0 chain_new (chain_here _) (new_is_sub_if_named n1 Hn1) Hs0 n1 n0 Hn1 Hn0) in He.
      discriminate.
  Qed.

  Lemma past_extend_new en' : Past en' -> Past (binds lower (names_of new) new ++ en').
  Proof.
    intros P. apply past_extend; [exact P|].
    intros q X0 n0 n1 HX0 Hs0 HnD Hsg Hn0 Hq0 Hn1 Hq1. exfalso. eapply names_clash_D; eauto.
  Qed.

  Lemma rel_extend_same en en' ns x : EnvRel en en' ->
    EnvRel (binds lower ns x ++ en) (binds lower ns (sg x) ++ en').
  Proof.
    intros R q X Hl Hq. rewrite eenv_lookup_app in Hl |- *.
    rewrite (binds_lookup_map q ns x (sg x)).
    destruct (eenv_lookup q (binds lower ns x)) as [v|] eqn:Eb; simpl.
    - destruct (binds_lookup_some lower _ _ _ _ Eb) as (-> & _). inversion Hl; subst. reflexivity.
    - apply R; assumption.
  Qed.

  Lemma rel_extend_new en en' : GoodEnv en -> EnvRel en en' ->
    EnvRel en (binds lower (names_of new) new ++ en').
  Proof.
    intros G R q X Hl Hq. rewrite eenv_lookup_app.
    destruct (eenv_lookup q (binds lower (names_of new) new)) as [v|] eqn:Eb; [exfalso|apply R; assumption].
    destruct (binds_lookup_some lower _ _ _ _ Eb) as (_ & n1 & Hn1 & Hq1).
    destruct (G q X Hl) as (HX & Hs & n0 & Hn0 & Hq0).
    assert (HnD : X <> D).
    { intros ->. pose proof (good_notD en G q D Hl Hq) as H. rewrite node_eqb_refl in H. discriminate. }
    eapply names_clash_D; eauto.
  Qed.

  Lemma rel_at_D en en' : EnvRel en en' -> EnvRel (binds lower [nm] D ++ en) en'.
  Proof.
    intros R q X Hl Hq. rewrite eenv_lookup_app in Hl. simpl in Hl.
    destruct (svs_eqb (norm nm) q) eqn:E.
    - rewrite <- k_norm in E. rewrite svs_eqb_sym in E. congruence.
    - apply R; assumption.
  Qed.

  (** ** One root *)
  Definition St (en en' : eenv) : Prop :=
    GoodEnv en /\ EnvRel en en' /\ (eenv_lookup k en <> None -> Past en').

  Lemma count_needs_past en en' tree x : St en en' -> y_embed en tree = (x, true) ->
    1 <= y_count k tree -> y_embed en' new_s = (new, true).
  Proof.
    intros (G & R & P) He Hc. destruct (y_count_pos_occ k tree Hc) as (q & i0 & a & Ho & Hq).
    destruct (embed_occ en tree x q i0 a He Ho) as (X & Hl & _).
    apply P. rewrite <- (eenv_lookup_eqb q k en Hq), Hl. discriminate.
  Qed.

  Lemma root_embed_keep en en' tree x : St en en' -> y_embed en tree = (x, true) -> In x (concat bs) ->
    y_embed en' (y_graft k new_s tree) = (sg x, true).
  Proof.
    intros S He Hx. pose proof S as (G & R & P).
    apply (graft_embed k D amt new new_s en en' (good_H1 en G) (good_H2 en en' G R) tree x He).
    - apply uses_all, Hx.
    - intro Hc. eapply count_needs_past; eauto.
  Qed.

  Lemma defines_false_names rt : defines lower k rt = false ->
    forall n, In n (ynames (r_tree rt)) -> svs_eqb (norm n) k = false.
  Proof.
    unfold defines. destruct (r_tree rt) as [| | |b ns s0]; simpl; try (intros _ n []).
    intros H n Hn. destruct (svs_eqb (norm n) k) eqn:E; [|reflexivity].
    rewrite <- H. symmetry. apply existsb_exists. exists n. auto.
  Qed.

  Lemma lookup_binds_none_k rt x : defines lower k rt = false ->
    eenv_lookup k (binds lower (ynames (r_tree rt)) x) = None.
  Proof.
    intro Hd. destruct (eenv_lookup k (binds lower (ynames (r_tree rt)) x)) as [v|] eqn:E; [exfalso|reflexivity].
    destruct (binds_lookup_some lower _ _ _ _ E) as (_ & n & Hn & Hq).
    rewrite (defines_false_names rt Hd n Hn) in Hq. discriminate.
  Qed.

  Lemma root_St_keep en en' rt x : St en en' -> defines lower k rt = false ->
    y_embed en (r_tree rt) = (x, true) -> In x (concat bs) ->
    St (binds lower (ynames (r_tree rt)) x ++ en)
       (binds lower (ynames (y_graft k new_s (r_tree rt))) (sg x) ++ en').
  Proof.
    intros S Hd He Hx. pose proof S as (G & R & P).
    pose proof (root_embed_keep en en' _ x S He Hx) as He'.
    pose proof (good_binds en en (r_tree rt) x G Hx He) as G1.
    assert (Pk : eenv_lookup k (binds lower (ynames (r_tree rt)) x ++ en) <> None -> eenv_lookup k en <> None).
    { rewrite eenv_lookup_app, (lookup_binds_none_k rt x Hd). auto. }
    destruct (r_tree rt) as [d q0|d ins|q i0 a|b ns s0] eqn:Et.
    - simpl. split; [exact G|]. split; [exact R|]. exact P.
    - simpl. split; [exact G|]. split; [exact R|]. exact P.
    - simpl ynames in *. simpl app in G1, Pk |- *. simpl y_graft in *.
      destruct (svs_eqb q k) eqn:Eq; [|simpl; split; [exact G|]; split; [exact R|]; exact P].
      assert (Pn : Past en').
      { apply P. simpl in He. destruct (eenv_lookup q en) as [X|] eqn:El; [|discriminate].
        rewrite <- (eenv_lookup_eqb q k en Eq), El. discriminate. }
      assert (Hsx : sg x = new) by (destruct Pn as [P1 _]; congruence).
      assert (Hyn : ynames new_s = names_of new)
        by (destruct Pn as [P1 _]; symmetry; apply (embed_shape en' new_s new P1)).
      rewrite Hsx, Hyn. split; [exact G|]. split; [apply rel_extend_new; assumption|].
      intros _. apply past_extend_new, Pn.
    - simpl ynames in *. simpl y_graft. simpl ynames.
      destruct (embed_shape en _ x He) as [Hs Hn]. simpl in Hs, Hn.
      split; [exact G1|]. split; [apply rel_extend_same, R|].
      intro Hk. rewrite <- Hn. apply past_extend_root; [apply P, Pk, Hk | exact Hx | exact Hs].
  Qed.

  Lemma root_St_drop en en' rt x : St en en' -> defines lower k rt = true ->
    r_tree rt = YSub body_s [nm] sh -> y_embed en (r_tree rt) = (x, true) -> In x (concat bs) ->
    x = D /\ St (binds lower (ynames (r_tree rt)) x ++ en) en'.
  Proof.
    intros S Hd Ht He Hx. pose proof S as (G & R & P). rewrite Ht in *.
    destruct (embed_shape en _ x He) as [Hs Hn]. simpl in Hs, Hn.
    assert (x = D).
    { apply (root_with_key x nm Hx Hs); [rewrite Hn; left; reflexivity|].
      rewrite k_norm. apply svs_eqb_refl. }
    subst x. split; [reflexivity|]. simpl ynames.
    split; [exact (good_binds en en _ D G Hx He)|]. split; [apply rel_at_D, R|].
    intros _. eapply past_at_D; eauto.
  Qed.

  (** ** A block, the forest *)
  Fixpoint keep (rs : list sroot) (xs : list node) : list node :=
    match rs, xs with
    | rt :: rs', x :: xs' => if defines lower k rt then keep rs' xs' else x :: keep rs' xs'
    | _, _ => []
    end.
  Definition froot (rt : sroot) : sroot := mkRoot (y_graft k new_s (r_tree rt)) (r_unwrap rt).
  Definition froots (rs : list sroot) : list sroot :=
    map froot (filter (fun rt => negb (defines lower k rt)) rs).

  Lemma embed_roots_inv rt rest en xs0 en1 :
    embed_roots lower (rt :: rest) en = (xs0, true, en1) ->
    exists x xs, xs0 = x :: xs /\ y_embed en (r_tree rt) = (x, true) /\
      embed_roots lower rest (binds lower (ynames (r_tree rt)) x ++ en) = (xs, true, en1).
  Proof.
    rewrite embed_roots_cons. destruct (y_embed en (r_tree rt)) as [x ok] eqn:E1.
    destruct (embed_roots lower rest (binds lower (ynames (r_tree rt)) x ++ en)) as [[xs ok'] en2] eqn:E2.
    intro H. pose proof (f_equal (fun p => fst (fst p)) H) as H1.
    pose proof (f_equal (fun p => snd (fst p)) H) as H2. pose proof (f_equal snd H) as H3.
    simpl in H1, H2, H3. apply andb_true_iff in H2. destruct H2 as [Ho1 Ho2]. subst ok ok' en2.
    exists x, xs. split; [symmetry; exact H1|]. split; [reflexivity | exact E2].
  Qed.

  Lemma core_roots : forall rs en en' xs en1,
    embed_roots lower rs en = (xs, true, en1) -> (forall x, In x xs -> In x (concat bs)) ->
    (forall rt, In rt rs -> defines lower k rt = true -> r_tree rt = YSub body_s [nm] sh) ->
    St en en' ->
    exists en1', embed_roots lower (froots rs) en' = (map sg (keep rs xs), true, en1') /\ St en1 en1'.
  Proof.
    induction rs as [|rt rs IH]; intros en en' xs0 en1 He Hin Hdef S.
    - simpl in He. inversion He; subst. exists en'. split; [reflexivity | exact S].
    - destruct (embed_roots_inv rt rs en xs0 en1 He) as (x & xs & -> & Hx & Hrest).
      assert (Hxin : In x (concat bs)) by (apply Hin; left; reflexivity).
      assert (Hin' : forall y, In y xs -> In y (concat bs)) by (intros; apply Hin; right; assumption).
      assert (Hdef' : forall r0, In r0 rs -> defines lower k r0 = true -> r_tree r0 = YSub body_s [nm] sh)
        by (intros; apply Hdef; [right|]; assumption).
      unfold froots. simpl filter. simpl keep. destruct (defines lower k rt) eqn:Ed; simpl negb; cbv iota.
      + destruct (root_St_drop en en' rt x S Ed (Hdef rt (or_introl eq_refl) Ed) Hx Hxin) as [_ S1].
        exact (IH _ _ _ _ Hrest Hin' Hdef' S1).
      + pose proof (root_embed_keep en en' _ x S Hx Hxin) as Hx'.
        pose proof (root_St_keep en en' rt x S Ed Hx Hxin) as S1.
        destruct (IH _ _ _ _ Hrest Hin' Hdef' S1) as (en1' & He' & S').
        exists en1'. split; [|exact S'].
        simpl map. rewrite embed_roots_cons. unfold froot at 1. simpl r_tree. rewrite Hx'.
        fold (froots rs). rewrite He'. reflexivity.
  Qed.

  Fixpoint keepF (Fs : forest) (bss : list (list node)) : list (list node) :=
    match Fs, bss with
    | rs :: Fs', xs :: bss' => keep rs xs :: keepF Fs' bss'
    | _, _ => []
    end.

  Lemma embed_from_inv rs rest en bss0 :
    embed_from lower (rs :: rest) en = (bss0, true) ->
    exists xs en1 bss, bss0 = xs :: bss /\ embed_roots lower rs en = (xs, true, en1) /\
                       embed_from lower rest en1 = (bss, true).
  Proof.
    simpl. destruct (embed_roots lower rs en) as [[xs ok] en1] eqn:E1.
    destruct (embed_from lower rest en1) as [bss ok'] eqn:E2.
    intro H. pose proof (f_equal fst H) as H1. pose proof (f_equal snd H) as H2. simpl in H1, H2.
    apply andb_true_iff in H2. destruct H2 as [Ho1 Ho2]. subst ok ok'.
    exists xs, en1, bss. split; [symmetry; exact H1|]. split; [reflexivity | exact E2].
  Qed.

  Lemma core_forest : forall Fs en en' bss,
    embed_from lower Fs en = (bss, true) -> (forall x, In x (concat bss) -> In x (concat bs)) ->
    (forall rt, In rt (concat Fs) -> defines lower k rt = true -> r_tree rt = YSub body_s [nm] sh) ->
    St en en' ->
    embed_from lower (map froots Fs) en' = (map (map sg) (keepF Fs bss), true).
  Proof.
    induction Fs as [|rs Fs IH]; intros en en' bss0 He Hin Hdef S.
    - simpl in He. inversion He; subst. reflexivity.
    - destruct (embed_from_inv rs Fs en bss0 He) as (xs & en1 & bss & -> & Hr & Hrest).
      assert (A1 : forall x, In x xs -> In x (concat bs))
        by (intros x Hx; apply Hin; simpl; apply in_app_iff; auto).
      assert (A2 : forall rt, In rt rs -> defines lower k rt = true -> r_tree rt = YSub body_s [nm] sh)
        by (intros rt Hrt; apply Hdef; simpl; apply in_app_iff; auto).
      destruct (core_roots rs en en' xs en1 Hr A1 A2 S) as (en1' & Hr' & S1).
      simpl. rewrite Hr'. rewrite (IH en1 en1' bss Hrest); [reflexivity| | |exact S1].
      + intros x Hx. apply Hin. simpl. apply in_app_iff. auto.
      + intros rt Hrt. apply Hdef. simpl. apply in_app_iff. auto.
  Qed.
End ForestCore.
