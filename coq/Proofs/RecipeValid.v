(** * Proofs about recipe validity (C08): the strong invariant implies the
    implementation's check, is preserved by scaling, constructor checks refuse
    exactly the documented violations, and [recipe_ok] is characterised by the
    references its walk visits. *)
From Coq Require Import List ZArith NArith Bool Lia.
From RG Require Import Base.Str Base.Num Model.Recipe Spec.Valid Proofs.RecipeInd.
Import ListNotations.

(** ** Sets of seen roots *)
Definition same_set (s s' : list node) : Prop := forall x, In x s <-> In x s'.

Lemma same_set_sym s s' : same_set s s' -> same_set s' s.
Proof. intros H x. symmetry. apply H. Qed.

Lemma roots_cons_same_set t0 l seen :
  same_set (subrecipe_roots l ++ (if is_subrecipe t0 then t0 :: seen else seen))
           (subrecipe_roots (t0 :: l) ++ seen).
Proof.
  intro x. unfold subrecipe_roots. simpl filter.
  destruct (is_subrecipe t0); rewrite !in_app_iff; simpl; rewrite ?in_app_iff; tauto.
Qed.

(** ** Generic "every tree satisfies Q with respect to the earlier roots" *)
Section Gen.
  Variable Q : list node -> node -> Prop.
  Hypothesis Q_ext : forall s s' t, same_set s s' -> Q s t -> Q s' t.

  Fixpoint block_gen (seen : list node) (trees : list node) : Prop :=
    match trees with
    | [] => True
    | t :: rest => Q seen t /\ block_gen (if is_subrecipe t then t :: seen else seen) rest
    end.

  Fixpoint blocks_gen (seen : list node) (bs : list (list node)) : Prop :=
    match bs with
    | [] => True
    | b :: rest => block_gen seen b /\ blocks_gen (subrecipe_roots b ++ seen) rest
    end.

  Lemma block_gen_iff seen trees :
    block_gen seen trees <->
    forall j t, nth_error trees j = Some t -> Q (subrecipe_roots (firstn j trees) ++ seen) t.
  Proof.
    revert seen; induction trees as [|t0 rest IH]; intros seen; simpl.
    - split; [intros _ [|j] t H; discriminate | tauto].
    - split.
      + intros [H0 Hr] [|j] t Hj; simpl in Hj.
        * inversion Hj; subst. exact H0.
        * pose proof (proj1 (IH _) Hr j t Hj) as Hr'.
          eapply Q_ext; [|exact Hr']. simpl firstn. apply roots_cons_same_set.
      + intro H. split.
        * exact (H 0%nat t0 eq_refl).
        * apply IH. intros j t Hj. specialize (H (S j) t Hj).
          eapply Q_ext; [|exact H]. simpl firstn. apply same_set_sym, roots_cons_same_set.
  Qed.

  Lemma blocks_gen_iff seen bs :
    blocks_gen seen bs <->
    forall b j trees t, nth_error bs b = Some trees -> nth_error trees j = Some t ->
      Q (flat_map subrecipe_roots (firstn b bs) ++ subrecipe_roots (firstn j trees) ++ seen) t.
  Proof.
    revert seen; induction bs as [|b0 rest IH]; intros seen; simpl.
    - split; [intros _ [|b] j trees t H; discriminate | tauto].
    - split.
      + intros [H0 Hr] [|b] j trees t Hb Hj; simpl in Hb.
        * inversion Hb; subst. simpl. now apply block_gen_iff.
        * pose proof (proj1 (IH _) Hr b j trees t Hb Hj) as Hr'.
          eapply Q_ext; [|exact Hr']. intro x. simpl. rewrite !in_app_iff. tauto.
      + intro H. split.
        * apply block_gen_iff. intros j t Hj. exact (H 0%nat j b0 t eq_refl Hj).
        * apply IH. intros b j trees t Hb Hj. specialize (H (S b) j trees t Hb Hj).
          eapply Q_ext; [|exact H]. intro x. simpl. rewrite !in_app_iff. tauto.
  Qed.

  (** With a decidable [Q], failure is located at a position. *)
  Hypothesis Q_dec : forall s t, Q s t \/ ~ Q s t.

  Lemma block_gen_dec seen trees : block_gen seen trees \/ ~ block_gen seen trees.
  Proof.
    revert seen; induction trees as [|t0 rest IH]; intros seen; simpl; [tauto|].
    destruct (Q_dec seen t0), (IH (if is_subrecipe t0 then t0 :: seen else seen)); tauto.
  Qed.

  Lemma block_gen_neg seen trees :
    ~ block_gen seen trees ->
    exists j t, nth_error trees j = Some t /\ ~ Q (subrecipe_roots (firstn j trees) ++ seen) t.
  Proof.
    revert seen; induction trees as [|t0 rest IH]; intros seen; simpl; [tauto|].
    intro N. destruct (Q_dec seen t0) as [H0|H0].
    - destruct (IH (if is_subrecipe t0 then t0 :: seen else seen)) as (j & t & Hj & Hn); [tauto|].
      exists (S j), t. split; [exact Hj|]. intro HQ. apply Hn.
      eapply Q_ext; [|exact HQ]. simpl firstn. apply same_set_sym, roots_cons_same_set.
    - exists 0%nat, t0. split; [reflexivity | exact H0].
  Qed.

  Lemma blocks_gen_neg seen bs :
    ~ blocks_gen seen bs ->
    exists b j trees t, nth_error bs b = Some trees /\ nth_error trees j = Some t /\
      ~ Q (flat_map subrecipe_roots (firstn b bs) ++ subrecipe_roots (firstn j trees) ++ seen) t.
  Proof.
    revert seen; induction bs as [|b0 rest IH]; intros seen; simpl; [tauto|].
    intro N. destruct (block_gen_dec seen b0) as [H0|H0].
    - destruct (IH (subrecipe_roots b0 ++ seen)) as (b & j & trees & t & Hb & Hj & Hn); [tauto|].
      exists (S b), j, trees, t. repeat split; try assumption. intro HQ. apply Hn.
      eapply Q_ext; [|exact HQ]. intro x. simpl. rewrite !in_app_iff. tauto.
    - apply block_gen_neg in H0. destruct H0 as (j & t & Hj & Hn).
      exists 0%nat, j, b0, t. repeat split; assumption.
  Qed.
End Gen.

Lemma block_gen_mono (Q Q' : list node -> node -> Prop) :
  (forall s t, Q s t -> Q' s t) -> forall seen trees, block_gen Q seen trees -> block_gen Q' seen trees.
Proof.
  intros H seen trees; revert seen; induction trees as [|t rest IH]; intros seen; simpl; [tauto|].
  intros [H0 Hr]. split; [now apply H | now apply IH].
Qed.

Lemma blocks_gen_mono (Q Q' : list node -> node -> Prop) :
  (forall s t, Q s t -> Q' s t) -> forall seen bs, blocks_gen Q seen bs -> blocks_gen Q' seen bs.
Proof.
  intros H seen bs; revert seen; induction bs as [|b rest IH]; intros seen; simpl; [tauto|].
  intros [H0 Hr]. split; [eapply block_gen_mono; eauto | now apply IH].
Qed.

Lemma earlier_roots_eq bs b j trees :
  nth_error bs b = Some trees ->
  earlier_roots bs b j = flat_map subrecipe_roots (firstn b bs) ++ subrecipe_roots (firstn j trees).
Proof.
  intro H. unfold earlier_roots. f_equal. f_equal. f_equal.
  now apply nth_error_nth.
Qed.

(** ** [refs_in] and [constructed] in terms of occurrences *)

Definition refs_in_list (seen : list node) :=
  fix go (l : list node) : Prop :=
    match l with [] => True | x :: r => refs_in seen x /\ go r end.

Lemma refs_in_list_Forall seen l : refs_in_list seen l <-> Forall (refs_in seen) l.
Proof.
  induction l as [|x r IH]; simpl.
  - split; [constructor | tauto].
  - rewrite IH. split; [intros [A B]; now constructor | intro H; inversion H; tauto].
Qed.

Lemma refs_in_Step seen d ins : refs_in seen (Step d ins) <-> Forall (refs_in seen) ins.
Proof. apply (refs_in_list_Forall seen ins). Qed.

Lemma refs_in_inside seen : forall t,
  refs_in seen t <-> (forall sr i a, inside (Reference sr i a) t -> In sr seen).
Proof.
  induction t as [d q | d ins IH | sr0 i0 a0 IH | b ns sh IH] using node_ind'.
  - simpl. split; [|tauto]. intros _ sr i a H. inversion H.
  - rewrite refs_in_Step. rewrite Forall_forall in IH. split.
    + intros HF sr i a H. inversion H as [| d' ins' y Hy Hin | |]; subst.
      rewrite Forall_forall in HF. exact (proj1 (IH y Hy) (HF y Hy) sr i a Hin).
    + intros H. apply Forall_forall. intros y Hy. apply (IH y Hy).
      intros sr i a Hin. apply (H sr i a). econstructor; eauto.
  - simpl. split.
    + intros [H1 H2] sr i a H. inversion H as [| | sr' i' a' Hin |]; subst.
      * exact H1.
      * exact (proj1 IH H2 sr i a Hin).
    + intro H. split.
      * apply (H sr0 i0 a0). constructor.
      * apply IH. intros sr i a Hin. apply (H sr i a). now constructor.
  - simpl. split.
    + intros H1 sr i a H. inversion H as [| | | b' ns' sh' Hin]; subst.
      exact (proj1 IH H1 sr i a Hin).
    + intro H. apply IH. intros sr i a Hin. apply (H sr i a). now constructor.
Qed.

Lemma refs_in_ext s s' t : same_set s s' -> refs_in s t -> refs_in s' t.
Proof.
  intros E H. apply refs_in_inside. intros sr i a Hin. apply E.
  revert sr i a Hin. now apply refs_in_inside.
Qed.

Lemma constructed_unfold t :
  constructed t = true <->
  node_post_init t = None /\
  match t with
  | Ingredient _ _ => True
  | Step _ ins => Forall (fun x => constructed x = true) ins
  | Reference sr _ _ => constructed sr = true
  | SubRecipe b _ _ => constructed b = true
  end.
Proof.
  destruct t as [d q | d ins | sr i a | b ns sh].
  - simpl. tauto.
  - change (constructed (Step d ins))
      with (match node_post_init (Step d ins) with
            | Some _ => false | None => forallb constructed ins end).
    destruct (node_post_init (Step d ins)).
    + split; [discriminate | intros [H _]; discriminate].
    + rewrite forallb_forall, Forall_forall. split; [intro H; split; auto | tauto].
  - change (constructed (Reference sr i a))
      with (match node_post_init (Reference sr i a) with
            | Some _ => false | None => constructed sr end).
    destruct (node_post_init (Reference sr i a)).
    + split; [discriminate | intros [H _]; discriminate].
    + tauto.
  - change (constructed (SubRecipe b ns sh))
      with (match node_post_init (SubRecipe b ns sh) with
            | Some _ => false | None => constructed b end).
    destruct (node_post_init (SubRecipe b ns sh)).
    + split; [discriminate | intros [H _]; discriminate].
    + tauto.
Qed.

Lemma constructed_inside : forall t,
  constructed t = true <-> (forall x, inside x t -> node_post_init x = None).
Proof.
  induction t as [d q | d ins IH | sr0 i0 a0 IH | b ns sh IH] using node_ind';
    rewrite constructed_unfold.
  - split.
    + intros [H _] x Hx. inversion Hx; subst. exact H.
    + intro H. split; [apply H; constructor | exact I].
  - rewrite Forall_forall in IH. split.
    + intros [H HF] x Hx. rewrite Forall_forall in HF.
      inversion Hx as [| d' ins' y Hy Hin | |]; subst; [exact H|].
      exact (proj1 (IH y Hy) (HF y Hy) x Hin).
    + intro H. split; [apply H; constructor|].
      apply Forall_forall. intros y Hy. apply (IH y Hy). intros x Hx.
      apply H. econstructor; eauto.
  - split.
    + intros [H HF] x Hx. inversion Hx as [| | sr' i' a' Hin |]; subst; [exact H|].
      exact (proj1 IH HF x Hin).
    + intro H. split; [apply H; constructor|]. apply IH. intros x Hx. apply H. now constructor.
  - split.
    + intros [H HF] x Hx. inversion Hx as [| | | b' ns' sh' Hin]; subst; [exact H|].
      exact (proj1 IH HF x Hin).
    + intro H. split; [apply H; constructor|]. apply IH. intros x Hx. apply H. now constructor.
Qed.

(** ** The readable and the recursive statement of strict validity agree *)
Definition strict_Q (s : list node) (t : node) : Prop := constructed t = true /\ refs_in s t.

Lemma strict_Q_ext s s' t : same_set s s' -> strict_Q s t -> strict_Q s' t.
Proof. intros E [A B]. split; [exact A | eapply refs_in_ext; eauto]. Qed.

Lemma block_valid_gen seen trees : block_valid seen trees <-> block_gen strict_Q seen trees.
Proof.
  revert seen; induction trees as [|t rest IH]; intros seen; simpl; [tauto|].
  rewrite IH. unfold strict_Q. tauto.
Qed.

Lemma blocks_valid_gen seen bs : blocks_valid_from seen bs <-> blocks_gen strict_Q seen bs.
Proof.
  revert seen; induction bs as [|b rest IH]; intros seen; simpl; [tauto|].
  rewrite IH, block_valid_gen. tauto.
Qed.

Lemma strictly_valid_iff_rec bs : strictly_valid bs <-> strictly_valid_rec bs.
Proof.
  unfold strictly_valid_rec. rewrite blocks_valid_gen.
  rewrite (blocks_gen_iff strict_Q strict_Q_ext). unfold strictly_valid, strict_Q.
  split.
  - intros H b j trees t Hb Hj. destruct (H b j trees t Hb Hj) as [Hc Hr].
    split; [exact Hc|]. apply refs_in_inside. intros sr i a Hin.
    specialize (Hr sr i a Hin). rewrite (earlier_roots_eq bs b j trees Hb) in Hr.
    rewrite app_nil_r. rewrite in_app_iff in *. exact Hr.
  - intros H b j trees t Hb Hj. destruct (H b j trees t Hb Hj) as [Hc Hr].
    split; [exact Hc|]. intros sr i a Hin.
    rewrite refs_in_inside in Hr. specialize (Hr sr i a Hin).
    rewrite (earlier_roots_eq bs b j trees Hb).
    rewrite app_nil_r in Hr. rewrite in_app_iff in *. exact Hr.
Qed.

(** ** Strict validity implies the implementation's check *)

Lemma refs_in_refs_ok seen : forall t, refs_in seen t -> refs_ok seen t = true.
Proof.
  induction t as [d q | d ins IH | sr i a IH | b ns sh IH] using node_ind'.
  - reflexivity.
  - rewrite refs_in_Step. intro HF. simpl. apply forallb_forall. intros x Hx.
    rewrite Forall_forall in IH, HF. auto.
  - simpl. intros [H1 H2]. rewrite (existsb_node_eqb_In _ _ H1). simpl. auto.
  - simpl. auto.
Qed.

Definition ok_Q (s : list node) (t : node) : Prop := refs_ok s t = true.

Lemma block_ok_gen seen trees : block_ok seen trees = true <-> block_gen ok_Q seen trees.
Proof.
  revert seen; induction trees as [|t rest IH]; intros seen; simpl; [tauto|].
  rewrite andb_true_iff, IH. unfold ok_Q. tauto.
Qed.

Lemma blocks_ok_gen seen bs : blocks_ok_from seen bs = true <-> blocks_gen ok_Q seen bs.
Proof.
  revert seen; induction bs as [|b rest IH]; intros seen; simpl; [tauto|].
  rewrite andb_true_iff, IH, block_ok_gen. tauto.
Qed.

Lemma strict_rec_implies_ok bs : strictly_valid_rec bs -> recipe_ok bs = true.
Proof.
  unfold strictly_valid_rec, recipe_ok. rewrite blocks_valid_gen, blocks_ok_gen.
  apply blocks_gen_mono. intros s t [_ H]. now apply refs_in_refs_ok.
Qed.

Lemma strict_implies_ok bs : strictly_valid bs -> recipe_ok bs = true.
Proof. rewrite strictly_valid_iff_rec. apply strict_rec_implies_ok. Qed.

(** ** Scaling preserves strict validity *)
Section Scale.
  Variable k : num.
  Let R (x y : node) : Prop := scale_node k x = Some y.

  Lemma scale_is_subrecipe x y : R x y -> is_subrecipe y = is_subrecipe x.
  Proof.
    unfold R. destruct x as [d q | d ins | sr i a | b ns sh].
    - simpl. destruct (scale_svs k d); [|discriminate].
      destruct q as [q0|]; [destruct (scale_quantity k q0)|]; simpl; intro H; inversion H; reflexivity.
    - rewrite scale_node_Step. destruct (scale_svs k d); [|discriminate].
      destruct (map_opt (scale_node k) ins); intro H; inversion H; reflexivity.
    - simpl. destruct (scale_node k sr); [|discriminate].
      destruct (scale_amount k a); intro H; inversion H; reflexivity.
    - simpl. destruct (scale_node k b); [|discriminate].
      destruct (map_opt (scale_svs k) ns); intro H; inversion H; reflexivity.
  Qed.

  Lemma scale_can_be_child x y : R x y -> can_be_child y = can_be_child x.
  Proof.
    unfold R. destruct x as [d q | d ins | sr i a | b ns sh].
    - simpl. destruct (scale_svs k d); [|discriminate].
      destruct q as [q0|]; [destruct (scale_quantity k q0)|]; simpl; intro H; inversion H; reflexivity.
    - rewrite scale_node_Step. destruct (scale_svs k d); [|discriminate].
      destruct (map_opt (scale_node k) ins); intro H; inversion H; reflexivity.
    - simpl. destruct (scale_node k sr); [|discriminate].
      destruct (scale_amount k a); intro H; inversion H; reflexivity.
    - simpl. destruct (scale_node k b); [|discriminate].
      destruct (map_opt (scale_svs k) ns) as [ns'|] eqn:E; intro H; inversion H; subst.
      simpl. now rewrite (map_opt_length _ _ _ E).
  Qed.

  Lemma forallb_Forall2_eq {A B} (f : A -> bool) (g : B -> bool) (Rel : A -> B -> Prop) l l' :
    (forall x y, Rel x y -> g y = f x) -> Forall2 Rel l l' -> forallb g l' = forallb f l.
  Proof. intros H HF. induction HF as [|x y l l' Hxy _ IH]; simpl; [reflexivity|]. now rewrite (H x y Hxy), IH. Qed.

  Lemma scale_post_init x y : R x y -> node_post_init y = node_post_init x.
  Proof.
    unfold R. destruct x as [d q | d ins | sr i a | b ns sh].
    - simpl. destruct (scale_svs k d); [|discriminate].
      destruct q as [q0|]; [destruct (scale_quantity k q0)|]; simpl; intro H; inversion H; reflexivity.
    - rewrite scale_node_Step. destruct (scale_svs k d); [|discriminate].
      destruct (map_opt (scale_node k) ins) as [ins'|] eqn:E; intro H; inversion H; subst.
      simpl. apply map_opt_Forall2 in E.
      now rewrite (forallb_Forall2_eq can_be_child can_be_child _ ins ins' scale_can_be_child E).
    - simpl. destruct (scale_node k sr) as [sr'|] eqn:E; [|discriminate].
      destruct (scale_amount k a); intro H; inversion H; subst.
      destruct sr as [d q | d ins | sr0 i0 am0 | b ns sh].
      + simpl in E. destruct (scale_svs k d); [|discriminate].
        destruct q as [q0|]; [destruct (scale_quantity k q0)|]; simpl in E; inversion E; reflexivity.
      + rewrite scale_node_Step in E. destruct (scale_svs k d); [|discriminate].
        destruct (map_opt (scale_node k) ins); inversion E; reflexivity.
      + simpl in E. destruct (scale_node k sr0); [|discriminate].
        destruct (scale_amount k am0); inversion E; reflexivity.
      + simpl in E. destruct (scale_node k b); [|discriminate].
        destruct (map_opt (scale_svs k) ns) as [ns'|] eqn:En; inversion E; subst.
        simpl. now rewrite (map_opt_length _ _ _ En).
    - simpl. destruct (scale_node k b) as [b'|] eqn:E; [|discriminate].
      destruct (map_opt (scale_svs k) ns) as [ns'|] eqn:En; intro H; inversion H; subst.
      simpl. rewrite (scale_can_be_child b b' E).
      apply map_opt_length in En. destruct ns, ns'; simpl in En; try discriminate; reflexivity.
  Qed.

  Lemma scale_constructed : forall x y, R x y -> constructed x = true -> constructed y = true.
  Proof.
    induction x as [d q | d ins IH | sr i a IH | b ns sh IH] using node_ind';
      intros y Hxy Hc; apply constructed_unfold in Hc; destruct Hc as [Hp Hc];
      apply constructed_unfold; rewrite (scale_post_init _ _ Hxy); (split; [exact Hp|]);
      unfold R in Hxy.
    - simpl in Hxy. destruct (scale_svs k d); [|discriminate].
      destruct q as [q0|]; [destruct (scale_quantity k q0)|]; simpl in Hxy; inversion Hxy; exact I.
    - rewrite scale_node_Step in Hxy. destruct (scale_svs k d); [|discriminate].
      destruct (map_opt (scale_node k) ins) as [ins'|] eqn:E; inversion Hxy; subst.
      apply map_opt_Forall2 in E. clear Hxy Hp.
      induction E as [|x y l l' Hxy _ IHE]; [constructor|].
      inversion IH; inversion Hc; subst. constructor; [eauto | now apply IHE].
    - simpl in Hxy. destruct (scale_node k sr) as [sr'|] eqn:E; [|discriminate].
      destruct (scale_amount k a); inversion Hxy; subst. eauto.
    - simpl in Hxy. destruct (scale_node k b) as [b'|] eqn:E; [|discriminate].
      destruct (map_opt (scale_svs k) ns); inversion Hxy; subst. eauto.
  Qed.

  Lemma Forall2_In_l {A B} (Rel : A -> B -> Prop) l l' x :
    Forall2 Rel l l' -> In x l -> exists y, In y l' /\ Rel x y.
  Proof.
    induction 1 as [|a b l l' Hab _ IH]; simpl; [tauto|].
    intros [->|H]; [exists b; auto|]. destruct (IH H) as (y & Hy & Hr). exists y; auto.
  Qed.

  Lemma scale_refs_in seen seen' : Forall2 R seen seen' ->
    forall x y, R x y -> refs_in seen x -> refs_in seen' y.
  Proof.
    intros HS.
    induction x as [d q | d ins IH | sr i a IH | b ns sh IH] using node_ind';
      intros y Hxy Hr; unfold R in Hxy.
    - simpl in Hxy. destruct (scale_svs k d); [|discriminate].
      destruct q as [q0|]; [destruct (scale_quantity k q0)|]; simpl in Hxy; inversion Hxy; exact I.
    - rewrite scale_node_Step in Hxy. destruct (scale_svs k d); [|discriminate].
      destruct (map_opt (scale_node k) ins) as [ins'|] eqn:E; inversion Hxy; subst.
      apply map_opt_Forall2 in E. apply refs_in_Step. apply refs_in_Step in Hr. clear Hxy.
      induction E as [|x y l l' Hxy _ IHE]; [constructor|].
      inversion IH; inversion Hr; subst. constructor; [eauto | now apply IHE].
    - simpl in Hxy. destruct (scale_node k sr) as [sr'|] eqn:E; [|discriminate].
      destruct (scale_amount k a); inversion Hxy; subst.
      destruct Hr as [H1 H2]. simpl. split; [|eauto].
      destruct (Forall2_In_l R seen seen' sr HS H1) as (z & Hz & Hrz).
      unfold R in Hrz. rewrite E in Hrz. inversion Hrz; subst. exact Hz.
    - simpl in Hxy. destruct (scale_node k b) as [b'|] eqn:E; [|discriminate].
      destruct (map_opt (scale_svs k) ns); inversion Hxy; subst. simpl. simpl in Hr. eauto.
  Qed.

  Lemma scale_roots l l' : Forall2 R l l' -> Forall2 R (subrecipe_roots l) (subrecipe_roots l').
  Proof.
    induction 1 as [|x y l l' Hxy _ IH]; simpl; [constructor|].
    unfold subrecipe_roots in *. simpl. rewrite (scale_is_subrecipe x y Hxy).
    destruct (is_subrecipe x); [constructor|]; assumption.
  Qed.

  Lemma scale_block_valid trees trees' : Forall2 R trees trees' ->
    forall seen seen', Forall2 R seen seen' -> block_valid seen trees -> block_valid seen' trees'.
  Proof.
    induction 1 as [|x y l l' Hxy _ IH]; intros seen seen' HS; simpl; [tauto|].
    intros [[Hc Hr] Hrest]. split.
    - split; [eapply scale_constructed; eauto | eapply scale_refs_in; eauto].
    - rewrite (scale_is_subrecipe x y Hxy).
      eapply IH; [|exact Hrest]. destruct (is_subrecipe x); [constructor|]; assumption.
  Qed.

  Lemma scale_blocks_valid bs bs' : Forall2 (Forall2 R) bs bs' ->
    forall seen seen', Forall2 R seen seen' -> blocks_valid_from seen bs -> blocks_valid_from seen' bs'.
  Proof.
    induction 1 as [|b b' l l' Hb _ IH]; intros seen seen' HS; simpl; [tauto|].
    intros [H0 Hrest]. split; [eapply scale_block_valid; eauto|].
    eapply IH; [|exact Hrest]. apply Forall2_app; [now apply scale_roots | exact HS].
  Qed.

  Lemma scale_blocks_Forall2 bs bs' :
    scale_blocks k bs = Some bs' -> Forall2 (Forall2 R) bs bs'.
  Proof.
    unfold scale_blocks. intro H. apply map_opt_Forall2 in H.
    induction H as [|b b' l l' Hb _ IH]; constructor; [|exact IH].
    now apply map_opt_Forall2 in Hb.
  Qed.

  Lemma scale_preserves_strict_rec bs bs' :
    strictly_valid_rec bs -> scale_blocks k bs = Some bs' -> strictly_valid_rec bs'.
  Proof.
    intros H E. apply scale_blocks_Forall2 in E.
    exact (scale_blocks_valid bs bs' E [] [] (Forall2_nil R) H).
  Qed.
End Scale.

Lemma scale_preserves_strict k bs bs' :
  strictly_valid bs -> scale_blocks k bs = Some bs' -> strictly_valid bs'.
Proof. rewrite !strictly_valid_iff_rec. apply scale_preserves_strict_rec. Qed.

Lemma scale_preserves_ok k bs bs' :
  strictly_valid bs -> scale_blocks k bs = Some bs' -> recipe_ok bs' = true.
Proof. intros H E. apply strict_implies_ok. eapply scale_preserves_strict; eauto. Qed.

(** ** Constructor checks refuse exactly the documented violations *)

Lemma can_be_child_multi t : can_be_child t = false <-> multi_output t.
Proof.
  unfold multi_output. destruct t as [d q | d ins | sr i a | b ns sh]; simpl.
  - split; [discriminate | intros (b & ns & sh & E & _); discriminate].
  - split; [discriminate | intros (b & ns & sh & E & _); discriminate].
  - split; [discriminate | intros (b & ns & sh & E & _); discriminate].
  - rewrite Nat.leb_gt. split.
    + intro H. exists b, ns, sh. auto.
    + intros (b' & ns' & sh' & E & H). inversion E; subst. exact H.
Qed.

Lemma can_be_child_not_multi t : can_be_child t = true <-> ~ multi_output t.
Proof.
  rewrite <- can_be_child_multi. destruct (can_be_child t); split; congruence.
Qed.

(** A reference: [OutputIndexError] exactly when the index is not below the
    number of outputs; no other error. *)
Lemma post_init_reference b ns sh i a :
  (node_post_init (Reference (SubRecipe b ns sh) i a) = Some OutputIndexError <-> (length ns <= i)%nat) /\
  (node_post_init (Reference (SubRecipe b ns sh) i a) = None <-> (i < length ns)%nat).
Proof.
  simpl. destruct (Nat.ltb i (length ns)) eqn:E.
  - apply Nat.ltb_lt in E. split; split; intro; try discriminate; try reflexivity; lia.
  - apply Nat.ltb_ge in E. split; split; intro; try discriminate; try reflexivity; lia.
Qed.

(** A step: the multi-output error exactly when some input is a sub recipe
    with several outputs; no other error. *)
Lemma post_init_step d ins :
  (node_post_init (Step d ins) = Some MultiOutputSubRecipeUsedAsNonRootNode <->
   exists x, In x ins /\ multi_output x) /\
  (node_post_init (Step d ins) = None <-> forall x, In x ins -> ~ multi_output x).
Proof.
  simpl. destruct (forallb can_be_child ins) eqn:E.
  - rewrite forallb_forall in E. split; split; intro H; try discriminate; try reflexivity.
    + destruct H as (x & Hx & Hm). apply can_be_child_multi in Hm. rewrite (E x Hx) in Hm. discriminate.
    + intros x Hx. apply can_be_child_not_multi. auto.
  - split; split; intro H; try discriminate; try reflexivity.
    + clear H. induction ins as [|x r IH]; simpl in E; [discriminate|].
      destruct (can_be_child x) eqn:Ex.
      * destruct (IH E) as (y & Hy & Hm). exists y. simpl; auto.
      * exists x. split; [simpl; auto | now apply can_be_child_multi].
    + exfalso. assert (forallb can_be_child ins = true); [|congruence].
      apply forallb_forall. intros x Hx. apply can_be_child_not_multi. auto.
Qed.

(** A sub recipe: multi-output body first, then the empty name list. *)
Lemma post_init_subrecipe b ns sh :
  (node_post_init (SubRecipe b ns sh) = Some MultiOutputSubRecipeUsedAsNonRootNode <-> multi_output b) /\
  (node_post_init (SubRecipe b ns sh) = Some ZeroOutputSubRecipe <-> ~ multi_output b /\ ns = []) /\
  (node_post_init (SubRecipe b ns sh) = None <-> ~ multi_output b /\ ns <> []).
Proof.
  simpl. destruct (can_be_child b) eqn:E; simpl.
  - assert (Hn : ~ multi_output b) by now apply can_be_child_not_multi.
    destruct ns as [|n r]; repeat split; intros; try discriminate; try tauto; try congruence;
      try (destruct H as [_ H]; congruence).
  - assert (Hm : multi_output b) by now apply can_be_child_multi.
    repeat split; intros; try discriminate; try tauto.
Qed.

Lemma post_init_ingredient d q : node_post_init (Ingredient d q) = None.
Proof. reflexivity. Qed.

Lemma post_init_wellformed t : node_post_init t = None <-> locally_wellformed t.
Proof.
  destruct t as [d q | d ins | sr i a | b ns sh].
  - simpl. tauto.
  - apply (proj2 (post_init_step d ins)).
  - destruct sr as [d q | d ins | sr0 i0 a0 | b ns sh]; try (simpl; tauto).
    apply (proj2 (post_init_reference b ns sh i a)).
  - apply (proj2 (proj2 (post_init_subrecipe b ns sh))).
Qed.

(** Only the three local errors can come out of a node constructor. *)
Lemma post_init_errors t e :
  node_post_init t = Some e ->
  e = MultiOutputSubRecipeUsedAsNonRootNode \/ e = OutputIndexError \/ e = ZeroOutputSubRecipe.
Proof.
  destruct t as [d q | d ins | sr i a | b ns sh]; simpl.
  - discriminate.
  - destruct (forallb can_be_child ins); intro H; inversion H; auto.
  - destruct sr; try discriminate. destruct (Nat.ltb i (length names)); intro H; inversion H; auto.
  - destruct (negb (can_be_child b)); [intro H; inversion H; auto|].
    destruct ns; intro H; inversion H; auto.
Qed.

(** ** [refs_ok] checks exactly the visited references *)

Lemma ref_target_known_existsb seen sr :
  existsb (node_eqb sr) seen = true <-> exists root, In root seen /\ node_eqb sr root = true.
Proof. apply existsb_exists. Qed.

Lemma refs_ok_ext s s' t : same_set s s' -> refs_ok s t = true -> refs_ok s' t = true.
Proof.
  intro E.
  induction t as [d q | d ins IH | sr i a IH | b ns sh IH] using node_ind'; simpl.
  - auto.
  - rewrite !forallb_forall. rewrite Forall_forall in IH. auto.
  - rewrite !andb_true_iff. intros [H1 H2]. split; [|auto].
    apply existsb_exists in H1. destruct H1 as (r & Hr & He).
    apply existsb_exists. exists r. split; [now apply E | exact He].
  - auto.
Qed.

Lemma ok_Q_ext s s' t : same_set s s' -> ok_Q s t -> ok_Q s' t.
Proof. apply refs_ok_ext. Qed.

Lemma ok_Q_dec s t : ok_Q s t \/ ~ ok_Q s t.
Proof. unfold ok_Q. destruct (refs_ok s t); [left | right]; congruence. Qed.

Lemma Forall_flat_map {A B} (P : B -> Prop) (f : A -> list B) l :
  Forall P (flat_map f l) <-> Forall (fun x => Forall P (f x)) l.
Proof.
  induction l as [|x r IH]; simpl.
  - split; constructor.
  - rewrite Forall_app, IH. split; [intros [A1 A2]; now constructor | intro H; inversion H; tauto].
Qed.

Lemma refs_ok_visited seen : forall t,
  refs_ok seen t = true <-> Forall (ref_target_known seen) (visited_refs t).
Proof.
  induction t as [d q | d ins IH | sr i a IH | b ns sh IH] using node_ind'.
  - simpl. split; [constructor | reflexivity].
  - simpl. rewrite forallb_forall, Forall_flat_map, Forall_forall.
    rewrite Forall_forall in IH. split; intros H x Hx; apply (IH x Hx); auto.
  - simpl. rewrite andb_true_iff, IH, ref_target_known_existsb. split.
    + intros [H1 H2]. constructor; assumption.
    + intro H. inversion H; subst. split; assumption.
  - simpl. exact IH.
Qed.

(** [recipe_ok] succeeds iff every visited reference of every tree embeds a
    value [==] to an earlier root. *)
Lemma recipe_ok_iff bs :
  recipe_ok bs = true <->
  forall b j trees t, nth_error bs b = Some trees -> nth_error trees j = Some t ->
    Forall (ref_target_known (earlier_roots bs b j)) (visited_refs t).
Proof.
  unfold recipe_ok. rewrite blocks_ok_gen, (blocks_gen_iff ok_Q ok_Q_ext).
  split; intros H b j trees t Hb Hj; specialize (H b j trees t Hb Hj).
  - apply refs_ok_visited. rewrite (earlier_roots_eq bs b j trees Hb).
    eapply refs_ok_ext; [|exact H]. intro x. rewrite app_nil_r. rewrite !in_app_iff. tauto.
  - apply refs_ok_visited in H. rewrite (earlier_roots_eq bs b j trees Hb) in H.
    eapply refs_ok_ext; [|exact H]. intro x. rewrite app_nil_r. rewrite !in_app_iff. tauto.
Qed.

Lemma ref_target_known_dec seen r : {ref_target_known seen r} + {~ ref_target_known seen r}.
Proof.
  destruct r as [d q | d ins | sr i a | b ns sh]; simpl; try (left; exact I).
  destruct (existsb (node_eqb sr) seen) eqn:E.
  - left. now apply existsb_exists.
  - right. intro H. apply existsb_exists in H. congruence.
Qed.

(** ... and fails iff some visited reference embeds a value that is not
    [==] to any earlier root ([ReferenceToInvalidSubRecipeError]). *)
Lemma recipe_ok_false_iff bs :
  recipe_ok bs = false <->
  exists b j trees t r, nth_error bs b = Some trees /\ nth_error trees j = Some t /\
    In r (visited_refs t) /\ ~ ref_target_known (earlier_roots bs b j) r.
Proof.
  split.
  - intro H. assert (N : ~ blocks_gen ok_Q [] bs).
    { intro G. apply blocks_ok_gen in G. unfold recipe_ok in H. congruence. }
    apply (blocks_gen_neg ok_Q ok_Q_ext ok_Q_dec) in N.
    destruct N as (b & j & trees & t & Hb & Hj & Hn).
    assert (Hn' : ~ Forall (ref_target_known (earlier_roots bs b j)) (visited_refs t)).
    { intro HF. apply Hn. apply refs_ok_visited in HF.
      rewrite (earlier_roots_eq bs b j trees Hb) in HF.
      eapply refs_ok_ext; [|exact HF]. intro x. rewrite app_nil_r. rewrite !in_app_iff. tauto. }
    apply neg_Forall_Exists_neg in Hn'; [|intro r; apply ref_target_known_dec].
    apply Exists_exists in Hn'. destruct Hn' as (r & Hr & Hnr).
    exists b, j, trees, t, r. auto.
  - intros (b & j & trees & t & r & Hb & Hj & Hr & Hn).
    destruct (recipe_ok bs) eqn:E; [|reflexivity]. exfalso.
    rewrite recipe_ok_iff in E. specialize (E b j trees t Hb Hj).
    rewrite Forall_forall in E. exact (Hn (E r Hr)).
Qed.
