(** * Lemmas about Model/Title.v (C18): the scanner is sound and complete for the
    shape  <ws+> <serving words> <ws+> <digits> <ws*> END, the shape is unique, hence the
    leftmost match is the intended one. *)
From Coq Require Import List NArith Bool Arith Lia.
From RG Require Import Base.Str Base.Dec Model.Title.
Import ListNotations.

Local Open Scope nat_scope.

(** ** Vocabulary *)

Definition ws1 (x : str) : Prop := x <> [] /\ forallb is_ws x = true.
Definition digits1 (x : str) : Prop := x <> [] /\ forallb is_digit x = true.
Definition ends_not (p : char -> bool) (X : str) : Prop :=
  X = [] \/ exists Y c, X = Y ++ [c] /\ p c = false.
Definition nonws (c : char) : bool := negb (is_ws c).

Definition ci_word (w W : str) : Prop := Forall2 (fun l c => ci_eq l c = true) w W.

(** [W] is a spelling of the candidate: each word in any letter case, any non-empty
    white space between the two words. *)
Definition variant (cd : cand) (W : str) : Prop :=
  match cd with
  | (None, w) => ci_word w W
  | (Some p, w) => exists W1 s1 W2, W = W1 ++ s1 ++ W2 /\ ci_word p W1 /\ ws1 s1 /\ ci_word w W2
  end.

Definition good_wordb (w : str) : bool :=
  match w with [] => false | _ => forallb is_lower w end.
Definition good_candb (cd : cand) : bool :=
  good_wordb (snd cd) && match fst cd with None => true | Some p => str_eqb p w_to end.

Lemma candidates_good : forallb good_candb candidates = true.
Proof. vm_compute. reflexivity. Qed.

Lemma w_to_good : good_wordb w_to = true.
Proof. vm_compute. reflexivity. Qed.

(** ** Character classes *)

Definition letterlike (c : N) : Prop :=
  (65 <= c <= 90 \/ 97 <= c <= 122 \/ c = 383 \/ c = 8490 \/ c = 304 \/ c = 305)%N.

Lemma is_ws_true (c : N) : is_ws c = true ->
  (9 <= c <= 13 \/ 28 <= c <= 32 \/ c = 133 \/ c = 160 \/ c = 5760 \/ 8192 <= c <= 8202 \/
   c = 8232 \/ c = 8233 \/ c = 8239 \/ c = 8287 \/ c = 12288)%N.
Proof.
  unfold is_ws. rewrite !orb_true_iff, !andb_true_iff, !N.leb_le, !N.eqb_eq. tauto.
Qed.

Lemma is_digit_true (c : N) : is_digit c = true -> (48 <= c <= 57)%N.
Proof. unfold is_digit. rewrite andb_true_iff, !N.leb_le. tauto. Qed.

Lemma is_lower_true (c : N) : is_lower c = true -> (97 <= c <= 122)%N.
Proof. unfold is_lower. rewrite andb_true_iff, !N.leb_le. tauto. Qed.

Lemma ci_letterlike (l c : N) : is_lower l = true -> ci_eq l c = true -> letterlike c.
Proof.
  intros Hl H. apply is_lower_true in Hl. unfold ci_eq in H.
  rewrite !orb_true_iff, !andb_true_iff, !orb_true_iff, !N.eqb_eq in H.
  unfold letterlike. unfold ascii_lower, is_upper in H.
  destruct ((65 <=? c)%N && (c <=? 90)%N) eqn:E.
  - apply andb_true_iff in E. rewrite !N.leb_le in E. lia.
  - lia.
Qed.

Lemma letterlike_nonws c : letterlike c -> is_ws c = false.
Proof.
  intro H. destruct (is_ws c) eqn:E; [|reflexivity].
  apply is_ws_true in E. unfold letterlike in H. lia.
Qed.

Lemma letterlike_nondigit c : letterlike c -> is_digit c = false.
Proof.
  intro H. destruct (is_digit c) eqn:E; [|reflexivity].
  apply is_digit_true in E. unfold letterlike in H. lia.
Qed.

Lemma letterlike_plain c : letterlike c -> (c =? 60)%N = false /\ (c =? 37)%N = false.
Proof.
  intro H. unfold letterlike in H. split; apply N.eqb_neq; lia.
Qed.

Lemma digit_nonws c : is_digit c = true -> is_ws c = false.
Proof.
  intro H. apply is_digit_true in H. destruct (is_ws c) eqn:E; [|reflexivity].
  apply is_ws_true in E. lia.
Qed.

Lemma ws_nondigit c : is_ws c = true -> is_digit c = false.
Proof.
  intro H. destruct (is_digit c) eqn:E; [|reflexivity].
  rewrite (digit_nonws c E) in H. discriminate.
Qed.

Lemma ws_plain c : is_ws c = true -> (c =? 60)%N = false /\ (c =? 37)%N = false.
Proof. intro H. apply is_ws_true in H. split; apply N.eqb_neq; lia. Qed.

Lemma digit_plain c : is_digit c = true -> (c =? 60)%N = false /\ (c =? 37)%N = false.
Proof. intro H. apply is_digit_true in H. split; apply N.eqb_neq; lia. Qed.

(** ** [span] *)

Lemma span_spec p (x : list N) : forall a b, span p x = (a, b) ->
  x = a ++ b /\ forallb p a = true /\ (b = [] \/ exists c b', b = c :: b' /\ p c = false).
Proof.
  induction x as [|c x IH]; intros a b H; cbn [span] in H.
  - inversion H; subst. repeat split. left; reflexivity.
  - destruct (p c) eqn:E.
    + destruct (span p x) as [a' b'] eqn:S. inversion H; subst.
      destruct (IH a' b eq_refl) as [H1 [H2 H3]]. subst x.
      repeat split; [cbn [forallb]; rewrite E, H2; reflexivity | exact H3].
    + inversion H; subst. repeat split. right. exists c, x. split; [reflexivity | exact E].
Qed.

Lemma span_app p (a b : list N) :
  forallb p a = true -> (b = [] \/ exists c b', b = c :: b' /\ p c = false) ->
  span p (a ++ b) = (a, b).
Proof.
  intros Ha Hb. induction a as [|c a IH]; cbn [app].
  - destruct Hb as [-> | [c [b' [-> Hc]]]]; cbn [span]; [reflexivity | rewrite Hc; reflexivity].
  - cbn [forallb] in Ha. apply andb_true_iff in Ha as [Hc Ha].
    cbn [span]. rewrite Hc, (IH Ha). reflexivity.
Qed.

(** ** Uniqueness of a trailing block *)

Lemma ends_not_snoc p (Y : str) c : ends_not p (Y ++ [c]) -> p c = false.
Proof.
  intros [E | [Y' [c' [E H]]]].
  - destruct Y; discriminate.
  - apply app_inj_tail in E. destruct E; subst. exact H.
Qed.

Lemma suffix_unique p : forall (a a' X X' : str),
  X ++ a = X' ++ a' -> forallb p a = true -> forallb p a' = true ->
  ends_not p X -> ends_not p X' -> X = X' /\ a = a'.
Proof.
  induction a as [|c a IH] using rev_ind; intros a' X X' E Ha Ha' HX HX'.
  - rewrite app_nil_r in E. destruct a' as [|c' a'] using rev_ind.
    + rewrite app_nil_r in E. split; [exact E | reflexivity].
    + clear IHa'. subst X. rewrite app_assoc in HX. apply ends_not_snoc in HX.
      rewrite forallb_app in Ha'. apply andb_true_iff in Ha' as [_ Hc]. cbn in Hc.
      rewrite HX in Hc. discriminate.
  - destruct a' as [|c' a'] using rev_ind.
    + rewrite app_nil_r in E. subst X'. rewrite app_assoc in HX'. apply ends_not_snoc in HX'.
      rewrite forallb_app in Ha. apply andb_true_iff in Ha as [_ Hc]. cbn in Hc.
      rewrite HX' in Hc. discriminate.
    + clear IHa'. rewrite !app_assoc in E. apply app_inj_tail in E as [E Ec]. subst c'.
      rewrite forallb_app in Ha, Ha'. apply andb_true_iff in Ha as [Ha _]. apply andb_true_iff in Ha' as [Ha' _].
      destruct (IH a' X X' E Ha Ha' HX HX') as [E1 E2]. subst. split; reflexivity.
Qed.

Lemma ends_not_app_last p (X Y : str) : Y <> [] -> ends_not p Y -> ends_not p (X ++ Y).
Proof.
  intros HY [E | [Y' [c [E H]]]]; [contradiction|].
  right. exists (X ++ Y'), c. subst Y. rewrite app_assoc. split; [reflexivity | exact H].
Qed.

Lemma all_ends_not (p q : char -> bool) (Y : str) :
  (forall c, p c = true -> q c = false) -> forallb p Y = true -> ends_not q Y.
Proof.
  intros Hpq HY. destruct Y as [|c Y] using rev_ind; [left; reflexivity|].
  right. exists Y, c. split; [reflexivity|]. rewrite forallb_app in HY.
  apply andb_true_iff in HY as [_ Hc]. cbn in Hc. apply Hpq.
  destruct (p c); [reflexivity | discriminate].
Qed.

Lemma ws_ends_not_digit (Y : str) : forallb is_ws Y = true -> ends_not is_digit Y.
Proof. apply all_ends_not. exact ws_nondigit. Qed.

Lemma ws_ends_not_nonws (Y : str) : forallb is_ws Y = true -> ends_not nonws Y.
Proof. apply all_ends_not. intros c H. unfold nonws. rewrite H. reflexivity. Qed.

Lemma digits_ends_not_ws (Y : str) : forallb is_digit Y = true -> ends_not is_ws Y.
Proof. apply all_ends_not. exact digit_nonws. Qed.

(** X sp d tr  =  X' sp' d' tr'  with the blocks of the stated classes: all equal. *)
Lemma decomp_unique (X X' sp sp' d d' tr tr' : str) :
  X ++ sp ++ d ++ tr = X' ++ sp' ++ d' ++ tr' ->
  ends_not is_ws X -> ends_not is_ws X' -> ws1 sp -> ws1 sp' -> digits1 d -> digits1 d' ->
  forallb is_ws tr = true -> forallb is_ws tr' = true ->
  X = X' /\ sp = sp' /\ d = d' /\ tr = tr'.
Proof.
  intros E HX HX' [Hs0 Hs] [Hs0' Hs'] [Hd0 Hd] [Hd0' Hd'] Ht Ht'.
  assert (E1 : (X ++ sp ++ d) ++ tr = (X' ++ sp' ++ d') ++ tr') by (rewrite <- !app_assoc; exact E).
  apply suffix_unique with (p := is_ws) in E1; try assumption.
  2:{ rewrite app_assoc. apply ends_not_app_last; [exact Hd0 | apply digits_ends_not_ws; exact Hd]. }
  2:{ rewrite app_assoc. apply ends_not_app_last; [exact Hd0' | apply digits_ends_not_ws; exact Hd']. }
  destruct E1 as [E1 Et]. rewrite !app_assoc in E1.
  apply suffix_unique with (p := is_digit) in E1; try assumption.
  2:{ apply ends_not_app_last; [exact Hs0 | apply ws_ends_not_digit; exact Hs]. }
  2:{ apply ends_not_app_last; [exact Hs0' | apply ws_ends_not_digit; exact Hs']. }
  destruct E1 as [E1 Ed].
  apply suffix_unique with (p := is_ws) in E1; try assumption.
  destruct E1 as [E1 Es]. repeat split; assumption.
Qed.

(** ** Words *)

Lemma ci_word_length w W : ci_word w W -> length W = length w.
Proof. intro H. induction H; cbn [length]; congruence. Qed.

Lemma ci_word_all w W (P : N -> Prop) :
  forallb is_lower w = true -> (forall c, letterlike c -> P c) -> ci_word w W -> Forall P W.
Proof.
  intros Hw HP H. induction H as [|l c w W Hlc H IH]; constructor.
  - cbn [forallb] in Hw. apply andb_true_iff in Hw as [Hl _]. apply HP. exact (ci_letterlike l c Hl Hlc).
  - apply IH. cbn [forallb] in Hw. apply andb_true_iff in Hw as [_ Hw]. exact Hw.
Qed.

Lemma Forall_forallb {A} (p : A -> bool) l : Forall (fun c => p c = true) l -> forallb p l = true.
Proof. intro H. induction H; cbn [forallb]; [reflexivity|]. rewrite H, IHForall. reflexivity. Qed.

Lemma good_word_parts w : good_wordb w = true -> w <> [] /\ forallb is_lower w = true.
Proof. destruct w; [discriminate|]. intro H. split; [discriminate | exact H]. Qed.

(** A spelling of a good word: non-empty, no white space, no digit, no "<" or "%". *)
Lemma ci_word_facts w W : good_wordb w = true -> ci_word w W ->
  W <> [] /\ forallb nonws W = true /\
  forallb (fun c => negb (c =? 60)%N && negb (c =? 37)%N) W = true.
Proof.
  intros Hw H. apply good_word_parts in Hw as [Hne Hl].
  split.
  - intro E. subst W. inversion H; subst. contradiction.
  - split; apply Forall_forallb; eapply ci_word_all; try eassumption.
    + intros c Hc. unfold nonws. rewrite (letterlike_nonws c Hc). reflexivity.
    + intros c Hc. destruct (letterlike_plain c Hc) as [H1 H2]. rewrite H1, H2. reflexivity.
Qed.

Lemma nonws_ends_not_ws (Y : str) : forallb nonws Y = true -> ends_not is_ws Y.
Proof. apply all_ends_not. intros c H. unfold nonws in H. apply negb_true_iff in H. exact H. Qed.

Lemma nonws_head (Y : str) : Y <> [] -> forallb nonws Y = true ->
  exists c Y', Y = c :: Y' /\ is_ws c = false.
Proof.
  destruct Y as [|c Y]; [congruence|]. intros _ H. cbn [forallb] in H.
  apply andb_true_iff in H as [H _]. exists c, Y. split; [reflexivity|].
  unfold nonws in H. apply negb_true_iff in H. exact H.
Qed.

Lemma match_lit_sound (w : str) : forall (x m r : str),
  match_lit w x = Some (m, r) -> x = m ++ r /\ ci_word w m.
Proof.
  induction w as [|l w IH]; intros x m r H; cbn [match_lit] in H.
  - inversion H; subst. split; [reflexivity | constructor].
  - destruct x as [|c x]; [discriminate|]. destruct (ci_eq l c) eqn:E; [|discriminate].
    destruct (match_lit w x) as [[m' r']|] eqn:M; [|discriminate]. inversion H; subst.
    destruct (IH x m' r M) as [H1 H2]. subst x. split; [reflexivity|]. constructor; assumption.
Qed.

Lemma match_lit_complete (w m : str) : ci_word w m -> forall r, match_lit w (m ++ r) = Some (m, r).
Proof.
  induction 1 as [|l c w m Hlc H IH]; intro r; cbn [match_lit app]; [reflexivity|].
  rewrite Hlc, IH. reflexivity.
Qed.

(** ** Candidates *)

Lemma good_cand_parts cd : good_candb cd = true ->
  good_wordb (snd cd) = true /\ (fst cd = None \/ fst cd = Some w_to).
Proof.
  unfold good_candb. intro H. apply andb_true_iff in H as [H1 H2]. split; [exact H1|].
  destruct (fst cd) as [p|]; [right | left; reflexivity].
  apply str_eqb_eq in H2. subst. reflexivity.
Qed.

(** Last-word decomposition of a spelling. *)
Lemma variant_split cd W : good_candb cd = true -> variant cd W ->
  exists Wpre wl, W = Wpre ++ wl /\ wl <> [] /\ forallb nonws wl = true /\
    ((fst cd = None /\ Wpre = []) \/
     (exists W1 s1, Wpre = W1 ++ s1 /\ ci_word w_to W1 /\ ws1 s1)).
Proof.
  intros Hg Hv. destruct (good_cand_parts cd Hg) as [Hw Hp]. destruct cd as [p w]. cbn [fst snd] in *.
  destruct Hp as [-> | ->]; cbn [variant] in Hv.
  - destruct (ci_word_facts w W Hw Hv) as [H1 [H2 _]].
    exists [], W. repeat split; try assumption. left. split; reflexivity.
  - destruct Hv as [W1 [s1 [W2 [E [H1 [Hs H2]]]]]].
    destruct (ci_word_facts w W2 Hw H2) as [F1 [F2 _]].
    exists (W1 ++ s1), W2. rewrite <- app_assoc. repeat split; try assumption.
    right. exists W1, s1. repeat split; try assumption; apply Hs.
Qed.

Lemma variant_facts cd W : good_candb cd = true -> variant cd W ->
  W <> [] /\ ends_not is_ws W /\ (exists c W', W = c :: W' /\ is_ws c = false) /\
  forallb (fun c => negb (c =? 60)%N && negb (c =? 37)%N) W = true.
Proof.
  intros Hg Hv. destruct (good_cand_parts cd Hg) as [Hw Hp]. destruct cd as [p w]. cbn [fst snd] in *.
  destruct Hp as [-> | ->]; cbn [variant] in Hv.
  - destruct (ci_word_facts w W Hw Hv) as [H1 [H2 H3]].
    repeat split; try assumption; [apply nonws_ends_not_ws; exact H2 | apply nonws_head; assumption].
  - destruct Hv as [W1 [s1 [W2 [E [H1 [[Hs0 Hs] H2]]]]]].
    destruct (ci_word_facts w W2 Hw H2) as [F1 [F2 F3]].
    destruct (ci_word_facts w_to W1 w_to_good H1) as [G1 [G2 G3]].
    subst W. split; [|split; [|split]].
    + destruct W1; [congruence | discriminate].
    + rewrite app_assoc. apply ends_not_app_last; [exact F1 | apply nonws_ends_not_ws; exact F2].
    + destruct (nonws_head W1 G1 G2) as [c [W1' [-> Hc]]]. exists c, (W1' ++ s1 ++ W2). split; [reflexivity | exact Hc].
    + rewrite !forallb_app, G3, F3, andb_true_r. apply Forall_forallb.
      apply Forall_forall. intros c Hc. rewrite forallb_forall in Hs.
      destruct (ws_plain c (Hs c Hc)) as [A B]. rewrite A, B. reflexivity.
Qed.

Lemma match_cand_sound cd (x m r : str) :
  match_cand cd x = Some (m, r) -> x = m ++ r /\ variant cd m.
Proof.
  destruct cd as [[p|] w]; cbn [match_cand variant]; intro H.
  - destruct (match_lit p x) as [[m1 r1]|] eqn:M1; [|discriminate].
    destruct (span is_ws r1) as [sp r2] eqn:S. destruct sp as [|c0 sp0]; [discriminate|].
    destruct (match_lit w r2) as [[m2 r3]|] eqn:M2; [|discriminate]. inversion H; subst.
    destruct (match_lit_sound p x m1 r1 M1) as [E1 H1].
    destruct (span_spec is_ws r1 _ _ S) as [E2 [H2 _]].
    destruct (match_lit_sound w r2 m2 r M2) as [E3 H3].
    subst. split; [cbn [app]; rewrite <- ?app_assoc; cbn [app]; rewrite <- ?app_assoc; reflexivity|].
    exists m1, (c0 :: sp0), m2. repeat split; try assumption. discriminate.
  - apply match_lit_sound. exact H.
Qed.

Lemma match_cand_complete cd (W r : str) : good_candb cd = true -> variant cd W ->
  match_cand cd (W ++ r) = Some (W, r).
Proof.
  intros Hg Hv. destruct (good_cand_parts cd Hg) as [Hw Hp]. destruct cd as [p w]. cbn [fst snd] in *.
  destruct Hp as [-> | ->]; cbn [variant match_cand] in *.
  - apply match_lit_complete. exact Hv.
  - destruct Hv as [W1 [s1 [W2 [E [H1 [[Hs0 Hs] H2]]]]]]. subst W.
    rewrite <- !app_assoc. rewrite (match_lit_complete w_to W1 H1).
    destruct (ci_word_facts w W2 Hw H2) as [F1 [F2 _]].
    destruct (nonws_head W2 F1 F2) as [c [W2' [EW Hc]]].
    rewrite (span_app is_ws s1 (W2 ++ r) Hs).
    2:{ right. exists c, (W2' ++ r). subst W2. split; [reflexivity | exact Hc]. }
    destruct s1 as [|c1 s1']; [congruence|].
    rewrite (match_lit_complete w W2 H2). reflexivity.
Qed.

(** ** The tail  \s+ [0-9]+ \s* $ *)

Lemma tail_ok_sound (r sp2 d : str) : tail_ok r = Some (sp2, d) ->
  exists tr, r = sp2 ++ d ++ tr /\ ws1 sp2 /\ digits1 d /\ forallb is_ws tr = true.
Proof.
  unfold tail_ok. intro H.
  destruct (span is_ws r) as [a r1] eqn:S1. destruct a as [|a0 a']; [discriminate|].
  destruct (span is_digit r1) as [b r2] eqn:S2. destruct b as [|b0 b']; [discriminate|].
  destruct (span is_ws r2) as [t r3] eqn:S3. destruct r3; [|discriminate]. inversion H; subst.
  destruct (span_spec _ _ _ _ S1) as [E1 [H1 _]].
  destruct (span_spec _ _ _ _ S2) as [E2 [H2 _]].
  destruct (span_spec _ _ _ _ S3) as [E3 [H3 _]].
  exists t. subst. rewrite app_nil_r. repeat split; try assumption; discriminate.
Qed.

Lemma tail_ok_complete (sp2 d tr : str) :
  ws1 sp2 -> digits1 d -> forallb is_ws tr = true -> tail_ok (sp2 ++ d ++ tr) = Some (sp2, d).
Proof.
  intros [Hs0 Hs] [Hd0 Hd] Ht. unfold tail_ok.
  destruct d as [|d0 d']; [congruence|].
  assert (Hd00 : is_digit d0 = true) by (cbn [forallb] in Hd; apply andb_true_iff in Hd; tauto).
  rewrite (span_app is_ws sp2 ((d0 :: d') ++ tr) Hs).
  2:{ right. exists d0, (d' ++ tr). split; [reflexivity | apply digit_nonws; exact Hd00]. }
  destruct sp2 as [|s0 s']; [congruence|].
  rewrite (span_app is_digit (d0 :: d') tr Hd).
  2:{ destruct tr as [|t0 tr']; [left; reflexivity|]. right. exists t0, tr'. split; [reflexivity|].
      apply ws_nondigit. cbn [forallb] in Ht. apply andb_true_iff in Ht. tauto. }
  replace tr with (tr ++ []) at 1 by apply app_nil_r.
  rewrite (span_app is_ws tr [] Ht (or_introl eq_refl)). reflexivity.
Qed.

(** ** Trying the candidates *)

Lemma try_cands_sound cs (u m sp2 d : str) : try_cands cs u = Some (m, sp2, d) ->
  exists cd tr, In cd cs /\ variant cd m /\ u = m ++ sp2 ++ d ++ tr /\
                ws1 sp2 /\ digits1 d /\ forallb is_ws tr = true.
Proof.
  induction cs as [|c0 cs IH]; cbn [try_cands]; [discriminate|]. intro H.
  destruct (match_cand c0 u) as [[m0 r0]|] eqn:M.
  - destruct (tail_ok r0) as [[s0 d0]|] eqn:T.
    + inversion H; subst. destruct (match_cand_sound _ _ _ _ M) as [E Hv].
      destruct (tail_ok_sound _ _ _ T) as [tr [E2 [A [B C]]]].
      exists c0, tr. subst. repeat split; try assumption; try apply A; try apply B. left; reflexivity.
    + destruct (IH H) as [cd [tr [I R]]]. exists cd, tr. split; [right; exact I | exact R].
  - destruct (IH H) as [cd [tr [I R]]]. exists cd, tr. split; [right; exact I | exact R].
Qed.

Lemma try_cands_complete cs cd (W sp' d tr : str) :
  forallb good_candb cs = true -> In cd cs -> variant cd W ->
  ws1 sp' -> digits1 d -> forallb is_ws tr = true ->
  try_cands cs (W ++ sp' ++ d ++ tr) = Some (W, sp', d).
Proof.
  intros Hg Hin Hv Hs Hd Ht.
  assert (Hgc : good_candb cd = true) by (rewrite forallb_forall in Hg; apply Hg; exact Hin).
  destruct (variant_facts cd W Hgc Hv) as [_ [HWe _]].
  induction cs as [|c0 cs IH]; [contradiction|].
  cbn [forallb] in Hg. apply andb_true_iff in Hg as [Hg0 Hg].
  cbn [try_cands].
  destruct (match_cand c0 (W ++ sp' ++ d ++ tr)) as [[m0 r0]|] eqn:M.
  - destruct (tail_ok r0) as [[s0 d0]|] eqn:T.
    + destruct (match_cand_sound _ _ _ _ M) as [E Hv0].
      destruct (tail_ok_sound _ _ _ T) as [tr0 [E2 [A [B C]]]]. subst r0.
      destruct (variant_facts c0 m0 Hg0 Hv0) as [_ [Hme _]].
      destruct (decomp_unique _ _ _ _ _ _ _ _ E HWe Hme Hs A Hd B Ht C) as [E1 [E3 [E4 _]]].
      subst. reflexivity.
    + destruct Hin as [-> | Hin].
      * rewrite (match_cand_complete cd W _ Hgc Hv) in M. inversion M; subst.
        rewrite (tail_ok_complete _ _ _ Hs Hd Ht) in T. discriminate.
      * apply IH; assumption.
  - destruct Hin as [-> | Hin].
    + rewrite (match_cand_complete cd W _ Hgc Hv) in M. discriminate.
    + apply IH; assumption.
Qed.

(** ** A match at a given position *)

Lemma match_here_sound (u sp pr d : str) : match_here u = Some (sp, pr, d) ->
  exists cd W sp2 tr, In cd candidates /\ variant cd W /\ pr = W ++ sp2 /\
    u = sp ++ W ++ sp2 ++ d ++ tr /\ ws1 sp /\ ws1 sp2 /\ digits1 d /\ forallb is_ws tr = true.
Proof.
  unfold match_here. intro H.
  destruct (span is_ws u) as [a r] eqn:S. destruct a as [|a0 a']; [discriminate|].
  destruct (try_cands candidates r) as [[[m sp2] d0]|] eqn:T; [|discriminate]. inversion H; subst.
  destruct (span_spec _ _ _ _ S) as [E [Ha _]].
  destruct (try_cands_sound _ _ _ _ _ T) as [cd [tr [I [Hv [E2 [A [B C]]]]]]].
  exists cd, m, sp2, tr. subst. repeat split; try assumption; try apply A; try apply B. discriminate.
Qed.

Lemma match_here_complete cd (sp W sp' d tr : str) :
  In cd candidates -> variant cd W -> ws1 sp -> ws1 sp' -> digits1 d -> forallb is_ws tr = true ->
  match_here (sp ++ W ++ sp' ++ d ++ tr) = Some (sp, W ++ sp', d).
Proof.
  intros Hin Hv [Hs0 Hs] Hs' Hd Ht. unfold match_here.
  assert (Hgc : good_candb cd = true).
  { assert (G := candidates_good). rewrite forallb_forall in G. apply G. exact Hin. }
  destruct (variant_facts cd W Hgc Hv) as [_ [_ [[c [W' [EW Hc]]] _]]].
  rewrite (span_app is_ws sp (W ++ sp' ++ d ++ tr) Hs).
  2:{ right. exists c, (W' ++ sp' ++ d ++ tr). subst W. split; [reflexivity | exact Hc]. }
  destruct sp as [|s0 s']; [congruence|].
  rewrite (try_cands_complete candidates cd W sp' d tr candidates_good Hin Hv Hs' Hd Ht). reflexivity.
Qed.

(** ** No earlier match *)

Definition title_ok (T : str) : Prop :=
  ~ exists P s0 t, T = P ++ s0 ++ t /\ ws1 s0 /\ ci_word w_to t.

Lemma all_ws_prefix_contra (T' Y : str) :
  T' <> [] -> ends_not is_ws T' -> forallb is_ws (T' ++ Y) = true -> False.
Proof.
  intros Hne [E | [Z [c [E Hc]]]] H; [contradiction|]. subst T'.
  rewrite !forallb_app in H. apply andb_true_iff in H as [H _]. apply andb_true_iff in H as [_ H].
  cbn in H. rewrite Hc in H. discriminate.
Qed.

Lemma ws1_ends_not_nonws (sp : str) : ws1 sp -> ends_not nonws sp.
Proof. intros [_ H]. apply ws_ends_not_nonws. exact H. Qed.

Lemma no_earlier_match cd (T' sp W sp' d tr : str) (P : str) :
  In cd candidates -> variant cd W -> ws1 sp -> ws1 sp' -> digits1 d -> forallb is_ws tr = true ->
  T' <> [] -> ends_not is_ws T' -> title_ok (P ++ T') ->
  match_here (T' ++ sp ++ W ++ sp' ++ d ++ tr) = None.
Proof.
  intros Hin Hv Hs Hs' Hd Ht Hne He Hok.
  destruct (match_here (T' ++ sp ++ W ++ sp' ++ d ++ tr)) as [[[s0 pr] d0]|] eqn:M; [exfalso | reflexivity].
  destruct (match_here_sound _ _ _ _ M) as [cd' [W' [sp2 [tr' [Hin' [Hv' [_ [E [Hs0 [Hs2 [Hd0 Ht']]]]]]]]]]].
  assert (G := candidates_good). rewrite forallb_forall in G.
  assert (Hg := G cd Hin). assert (Hg' := G cd' Hin').
  destruct (variant_facts cd W Hg Hv) as [HW0 [HWe _]].
  destruct (variant_facts cd' W' Hg' Hv') as [HW0' [HWe' _]].
  (* strip the common tail *)
  assert (E1 : (T' ++ sp ++ W) ++ sp' ++ d ++ tr = (s0 ++ W') ++ sp2 ++ d0 ++ tr')
    by (rewrite <- !app_assoc; exact E).
  assert (HX1 : ends_not is_ws (T' ++ sp ++ W)) by (rewrite app_assoc; apply ends_not_app_last; assumption).
  assert (HX2 : ends_not is_ws (s0 ++ W')) by (apply ends_not_app_last; assumption).
  destruct (decomp_unique _ _ _ _ _ _ _ _ E1 HX1 HX2 Hs' Hs2 Hd Hd0 Ht Ht') as [E1' _].
  clear E1. rename E1' into E1.
  (* last words *)
  destruct (variant_split cd W Hg Hv) as [Wp [wl [EW [Hwl0 [Hwl C]]]]].
  destruct (variant_split cd' W' Hg' Hv') as [Wp' [wl' [EW' [Hwl0' [Hwl' C']]]]].
  subst W W'.
  assert (E2 : (T' ++ sp ++ Wp) ++ wl = (s0 ++ Wp') ++ wl') by (rewrite <- !app_assoc; exact E1).
  assert (HA : ends_not nonws (T' ++ sp ++ Wp)).
  { destruct C as [[_ ->] | [W1 [s1 [-> [_ Hs1]]]]].
    - rewrite app_nil_r. apply ends_not_app_last; [apply Hs | apply ws1_ends_not_nonws; exact Hs].
    - rewrite !app_assoc. apply ends_not_app_last; [apply Hs1 | apply ws1_ends_not_nonws; exact Hs1]. }
  assert (HB : ends_not nonws (s0 ++ Wp')).
  { destruct C' as [[_ ->] | [W1 [s1 [-> [_ Hs1]]]]].
    - rewrite app_nil_r. apply ws1_ends_not_nonws; exact Hs0.
    - rewrite !app_assoc. apply ends_not_app_last; [apply Hs1 | apply ws1_ends_not_nonws; exact Hs1]. }
  destruct (suffix_unique nonws _ _ _ _ E2 Hwl Hwl' HA HB) as [E2' _]. clear E2. rename E2' into E2.
  destruct C' as [[_ ->] | [W1' [s1' [-> [H1' Hs1']]]]].
  - (* the earlier match has a one-word preposition: everything before it is white space *)
    rewrite app_nil_r in E2. destruct Hs0 as [_ Hs0].
    rewrite <- E2 in Hs0. exact (all_ws_prefix_contra T' _ Hne He Hs0).
  - destruct (ci_word_facts w_to W1' w_to_good H1') as [F1' [F2' _]].
    assert (HX' : ends_not is_ws (s0 ++ W1'))
      by (apply ends_not_app_last; [exact F1' | apply nonws_ends_not_ws; exact F2']).
    destruct C as [[_ ->] | [W1 [s1 [-> [H1 Hs1]]]]].
    + (* "... to" ++ sp ++ serves : excluded by title_ok *)
      rewrite app_nil_r in E2.
      assert (E3 : T' ++ sp = (s0 ++ W1') ++ s1') by (rewrite <- !app_assoc; exact E2).
      destruct (suffix_unique is_ws _ _ _ _ E3 (proj2 Hs) (proj2 Hs1') He HX') as [E4 _].
      apply Hok. exists P, s0, W1'. subst T'. split; [reflexivity|]. split; [exact Hs0 | exact H1'].
    + assert (E3 : (T' ++ sp ++ W1) ++ s1 = (s0 ++ W1') ++ s1') by (rewrite <- !app_assoc; exact E2).
      destruct (ci_word_facts w_to W1 w_to_good H1) as [F1 [F2 _]].
      assert (HX : ends_not is_ws (T' ++ sp ++ W1))
        by (rewrite app_assoc; apply ends_not_app_last; [exact F1 | apply nonws_ends_not_ws; exact F2]).
      destruct (suffix_unique is_ws _ _ _ _ E3 (proj2 Hs1) (proj2 Hs1') HX HX') as [E4 _].
      assert (E5 : (T' ++ sp) ++ W1 = s0 ++ W1') by (rewrite <- app_assoc; exact E4).
      assert (HY : ends_not nonws (T' ++ sp))
        by (apply ends_not_app_last; [apply Hs | apply ws1_ends_not_nonws; exact Hs]).
      destruct (suffix_unique nonws _ _ _ _ E5 F2 F2' HY (ws1_ends_not_nonws _ Hs0)) as [E6 _].
      destruct Hs0 as [_ Hs0]. rewrite <- E6 in Hs0. exact (all_ws_prefix_contra T' _ Hne He Hs0).
Qed.

(** ** The search *)

Lemma search_from_skip (A : str) : forall (B : str) k r,
  (forall i, i < length A -> match_here (skipn i A ++ B) = None) ->
  match_here B = Some r ->
  search_from k (A ++ B) = Some (k + length A, fst (fst r), snd (fst r), snd r).
Proof.
  induction A as [|a A IH]; intros B k r Hnone Hhere.
  - cbn [app length]. rewrite Nat.add_0_r. destruct B as [|b B]; cbn [search_from]; rewrite Hhere;
      destruct r as [[sp pr] d]; reflexivity.
  - assert (H0 := Hnone 0 ltac:(cbn [length]; lia)). cbn [skipn app] in H0.
    cbn [app search_from]. rewrite H0.
    rewrite (IH B (S k) r); [cbn [length]; replace (S k + length A) with (k + S (length A)) by lia; reflexivity | | exact Hhere].
    intros i Hi. apply (Hnone (S i)). cbn [length]. lia.
Qed.

Lemma search_from_sound (u : str) : forall k i sp pr d,
  search_from k u = Some (i, sp, pr, d) ->
  exists A B, u = A ++ B /\ i = k + length A /\ match_here B = Some (sp, pr, d).
Proof.
  induction u as [|c u IH]; intros k i sp pr d H; cbn [search_from] in H.
  - destruct (match_here []) as [[[a b] e]|] eqn:M; [|discriminate]. inversion H; subst.
    exists [], []. repeat split; [cbn; lia | exact M].
  - destruct (match_here (c :: u)) as [[[a b] e]|] eqn:M.
    + inversion H; subst. exists [], (c :: u). repeat split; [cbn; lia | exact M].
    + destruct (IH _ _ _ _ _ H) as [A [B [E [Ei HM]]]]. exists (c :: A), B. subst.
      repeat split; [cbn [length]; lia | exact HM].
Qed.

Lemma ends_not_skipn (T : str) i : i < length T -> ends_not is_ws T ->
  skipn i T <> [] /\ ends_not is_ws (skipn i T).
Proof.
  intros Hi [E | [Y [c [E Hc]]]]; [subst; cbn in Hi; lia|].
  split.
  - intro E0. assert (L := skipn_length i T). rewrite E0 in L. cbn [length] in L. lia.
  - subst T. rewrite app_length in Hi. cbn [length] in Hi.
    rewrite skipn_app. replace (i - length Y) with 0 by lia. cbn [skipn].
    right. exists (skipn i Y), c. split; [reflexivity | exact Hc].
Qed.

Lemma serving_search_found cd (T sp W sp' d tr : str) :
  In cd candidates -> variant cd W -> ws1 sp -> ws1 sp' -> digits1 d -> forallb is_ws tr = true ->
  ends_not is_ws T -> title_ok T ->
  serving_search (T ++ sp ++ W ++ sp' ++ d ++ tr) = Some (length T, sp, W ++ sp', d).
Proof.
  intros Hin Hv Hs Hs' Hd Ht He Hok. unfold serving_search.
  rewrite (search_from_skip T _ 0 (sp, W ++ sp', d)).
  - reflexivity.
  - intros i Hi. destruct (ends_not_skipn T i Hi He) as [Hne He'].
    apply (no_earlier_match cd _ sp W sp' d tr (firstn i T)); try assumption.
    rewrite firstn_skipn. exact Hok.
  - apply (match_here_complete cd); assumption.
Qed.

(** ** strip *)

Lemma rstrip_all_ws (x : str) : forallb is_ws x = true -> rstrip x = [].
Proof.
  induction x as [|c x IH]; intro H; [reflexivity|]. cbn [forallb] in H.
  apply andb_true_iff in H as [Hc H]. cbn [rstrip]. rewrite (IH H), Hc. reflexivity.
Qed.

Lemma rstrip_app_ws (x sp : str) : forallb is_ws sp = true -> rstrip (x ++ sp) = rstrip x.
Proof.
  intro H. induction x as [|c x IH]; cbn [app].
  - apply rstrip_all_ws. exact H.
  - cbn [rstrip]. rewrite IH. reflexivity.
Qed.

Lemma lstrip_app (x y : str) : existsb nonws x = true -> lstrip (x ++ y) = lstrip x ++ y.
Proof.
  induction x as [|c x IH]; intro H; [discriminate|]. cbn [existsb] in H. cbn [app lstrip].
  destruct (is_ws c) eqn:E; [|reflexivity]. unfold nonws in H at 1. rewrite E in H. cbn in H. apply IH. exact H.
Qed.

Lemma strip_app_ws (T sp : str) : ends_not is_ws T -> forallb is_ws sp = true -> strip (T ++ sp) = strip T.
Proof.
  intros [E | [Y [c [E Hc]]]] H; unfold strip.
  - subst T. cbn [app lstrip rstrip].
    assert (L : forall z : str, forallb is_ws z = true -> lstrip z = []).
    { induction z as [|a z IH]; intro Hz; [reflexivity|]. cbn [forallb] in Hz.
      apply andb_true_iff in Hz as [Ha Hz]. cbn [lstrip]. rewrite Ha. apply IH. exact Hz. }
    rewrite (L sp H). reflexivity.
  - rewrite lstrip_app.
    + apply rstrip_app_ws. exact H.
    + subst T. rewrite existsb_app. cbn [existsb]. unfold nonws at 2. rewrite Hc. cbn. apply orb_true_r.
Qed.

(** ** The capture *)

Lemma has_char_app c (x y : str) : has_char c (x ++ y) = has_char c x || has_char c y.
Proof. unfold has_char. apply existsb_app. Qed.

Lemma has_char_false c (x : str) (q : char -> bool) :
  (forall a, q a = true -> (a =? c)%N = false) -> forallb q x = true -> has_char c x = false.
Proof.
  intros Hq H. unfold has_char. induction x as [|a x IH]; [reflexivity|].
  cbn [forallb existsb] in *. apply andb_true_iff in H as [Ha H]. rewrite (Hq a Ha), (IH H). reflexivity.
Qed.

Definition plain (x : str) : Prop := has_char 60%N x = false /\ has_char 37%N x = false.

Lemma ws_plain_str (x : str) : forallb is_ws x = true -> plain x.
Proof. intro H. split; eapply has_char_false; try exact H; intros a Ha; apply (ws_plain a Ha). Qed.

Lemma digits_plain_str (x : str) : forallb is_digit x = true -> plain x.
Proof. intro H. split; eapply has_char_false; try exact H; intros a Ha; apply (digit_plain a Ha). Qed.

Lemma variant_plain cd W : good_candb cd = true -> variant cd W -> plain W.
Proof.
  intros Hg Hv. destruct (variant_facts cd W Hg Hv) as [_ [_ [_ H]]].
  split; eapply has_char_false; try exact H; intros a Ha; apply andb_true_iff in Ha as [A B];
    apply negb_true_iff in A, B; assumption.
Qed.

Lemma plain_app (x y : str) : plain x -> plain y -> plain (x ++ y).
Proof. intros [A B] [C D]. split; rewrite has_char_app; [rewrite A, C | rewrite B, D]; reflexivity. Qed.

Section Capture.
  Variable unescape : str -> str.

  Lemma capture_found cd (T sp W sp' d tr : str) :
    In cd candidates -> variant cd W -> ws1 sp -> ws1 sp' -> digits1 d -> length d <= max_int_digits ->
    forallb is_ws tr = true -> plain T -> ends_not is_ws T -> title_ok T ->
    heading_capture unescape true 1 (T ++ sp ++ W ++ sp' ++ d ++ tr) =
      HOk (Some (unescape (strip T))) (Some (val_N d)).
  Proof.
    intros Hin Hv Hs Hs' Hd Hlen Ht Hp He Hok.
    assert (G := candidates_good). rewrite forallb_forall in G. assert (Hg := G cd Hin).
    assert (Hpl : plain (T ++ sp ++ W ++ sp' ++ d ++ tr)).
    { repeat apply plain_app; try assumption.
      - apply ws_plain_str. apply Hs.
      - apply (variant_plain cd); assumption.
      - apply ws_plain_str. apply Hs'.
      - apply digits_plain_str. apply Hd.
      - apply ws_plain_str. exact Ht. }
    destruct Hpl as [P1 P2].
    unfold heading_capture, heading_step. rewrite P1, P2. cbn [N.eqb Pos.eqb andb negb].
    rewrite (serving_search_found cd T sp W sp' d tr) by assumption.
    replace (max_int_digits <? length d) with false by (symmetry; apply Nat.ltb_ge; exact Hlen).
    rewrite firstn_app, Nat.sub_diag, firstn_all, firstn_O, app_nil_r.
    rewrite (strip_app_ws T sp He) by apply Hs. reflexivity.
  Qed.

  Lemma capture_count_sound first level (text : str) t n :
    heading_capture unescape first level text = HOk t (Some n) ->
    first = true /\ level = 1%N /\ plain text /\
    exists T sp cd W sp' d tr,
      In cd candidates /\ variant cd W /\ text = T ++ sp ++ W ++ sp' ++ d ++ tr /\
      ws1 sp /\ ws1 sp' /\ digits1 d /\ forallb is_ws tr = true /\ n = val_N d /\
      t = Some (unescape (strip (T ++ sp))).
  Proof.
    unfold heading_capture, heading_step. intro H.
    destruct first; [|discriminate]. destruct (level =? 1)%N eqn:EL; [|discriminate].
    destruct (has_char 60%N text) eqn:E1; [discriminate|]. destruct (has_char 37%N text) eqn:E2; [discriminate|].
    cbn [andb negb snd] in H.
    destruct (serving_search text) as [[[[i sp] pr] d]|] eqn:S; [|discriminate].
    destruct (max_int_digits <? length d); [discriminate|]. inversion H; subst.
    apply N.eqb_eq in EL. repeat split; try assumption.
    destruct (search_from_sound _ _ _ _ _ _ S) as [A [B [E [Ei HM]]]].
    destruct (match_here_sound _ _ _ _ HM) as [cd [W [sp2 [tr [Hin [Hv [Epr [EB [Hs [Hs2 [Hd Ht]]]]]]]]]]].
    exists A, sp, cd, W, sp2, d, tr. subst. cbn [Nat.add].
    rewrite firstn_app, Nat.sub_diag, firstn_all, firstn_O, app_nil_r.
    exact (conj Hin (conj Hv (conj eq_refl (conj Hs (conj Hs2 (conj Hd (conj Ht (conj eq_refl eq_refl)))))))).
  Qed.

  Lemma capture_not_considered st first level (text : str) :
    first = false \/ level <> 1%N \/ has_char 60%N text = true \/ has_char 37%N text = true ->
    heading_step unescape st first level text = HOk (fst st) (snd st).
  Proof.
    unfold heading_step. intros [-> | [H | [H | H]]].
    - reflexivity.
    - apply N.eqb_neq in H. rewrite H, andb_false_r. reflexivity.
    - rewrite H. cbn [negb]. rewrite andb_false_r. reflexivity.
    - rewrite H. cbn [negb]. rewrite andb_false_r. reflexivity.
  Qed.

  Lemma render_headings_rest st hs :
    render_headings unescape st false hs = HOk (fst st) (snd st).
  Proof.
    revert st. induction hs as [|[l t] hs IH]; intro st; cbn [render_headings]; [reflexivity|].
    rewrite (capture_not_considered st false l t (or_introl eq_refl)). rewrite IH. reflexivity.
  Qed.

  Lemma only_first level text hs :
    document_capture unescape ((level, text) :: hs) = heading_capture unescape true level text.
  Proof.
    unfold document_capture, heading_capture. cbn [render_headings].
    destruct (heading_step unescape (None, None) true level text) as [t n|]; [|reflexivity].
    apply render_headings_rest.
  Qed.
End Capture.

(** ** The documented phrases are candidates *)

Definition cand_eqb : cand -> cand -> bool := pair_eqb (option_eqb str_eqb) str_eqb.

Lemma cand_eqb_eq a b : cand_eqb a b = true -> a = b.
Proof.
  destruct a as [p w], b as [p' w']. unfold cand_eqb, pair_eqb. cbn [fst snd]. intro H.
  apply andb_true_iff in H as [H1 H2]. apply str_eqb_eq in H2. subst w'.
  destruct p as [p|], p' as [p'|]; cbn [option_eqb] in H1; try discriminate; [|reflexivity].
  apply str_eqb_eq in H1. subst. reflexivity.
Qed.

Lemma phrases_are_candidates (phrases : list cand) :
  forallb (fun ph => existsb (cand_eqb ph) candidates) phrases = true ->
  forall ph, In ph phrases -> In ph candidates.
Proof.
  intros H ph Hin. rewrite forallb_forall in H. specialize (H ph Hin).
  apply existsb_exists in H as [c [Hc E]]. apply cand_eqb_eq in E. subst. exact Hc.
Qed.
