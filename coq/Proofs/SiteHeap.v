(** * Association-list lemmas for the shared [recipe_pages] map, and path prefixes. *)
From Coq Require Import List NArith Bool Arith Lia.
From RG Require Import Base.Str Model.Fs Model.Site Proofs.SiteLinks.
Import ListNotations.
Open Scope N_scope.

Lemma opt_N_eqb_eq a b : opt_N_eqb a b = true <-> a = b.
Proof.
  destruct a as [x|], b as [y|]; simpl; split; intro H; try discriminate; try reflexivity.
  - apply N.eqb_eq in H. congruence.
  - inversion H. apply N.eqb_refl.
Qed.

Lemma opt_N_eqb_refl a : opt_N_eqb a a = true.
Proof. apply opt_N_eqb_eq. reflexivity. Qed.

Lemma opt_N_eqb_neq a b : a <> b -> opt_N_eqb a b = false.
Proof. intro H. destruct (opt_N_eqb a b) eqn:E; [apply opt_N_eqb_eq in E; contradiction | reflexivity]. Qed.

Lemma path_eqb_neq a b : a <> b -> path_eqb a b = false.
Proof. intro H. destruct (path_eqb a b) eqn:E; [apply path_eqb_eq in E; contradiction | reflexivity]. Qed.

(** ** scalings *)

Lemma sc_get_set_same k p m : sc_get k (sc_set k p m) = Some p.
Proof.
  induction m as [|[k' p'] m IH]; simpl.
  - rewrite opt_N_eqb_refl. reflexivity.
  - destruct (opt_N_eqb k k') eqn:E; simpl; [rewrite opt_N_eqb_refl; reflexivity | rewrite E; exact IH].
Qed.

Lemma sc_get_set_other k k' p m : k <> k' -> sc_get k' (sc_set k p m) = sc_get k' m.
Proof.
  intro Hne. induction m as [|[k0 p0] m IH]; simpl.
  - rewrite opt_N_eqb_neq by congruence. reflexivity.
  - destruct (opt_N_eqb k k0) eqn:E; simpl.
    + apply opt_N_eqb_eq in E. subst k0. rewrite opt_N_eqb_neq by congruence. reflexivity.
    + destruct (opt_N_eqb k' k0); [reflexivity | exact IH].
Qed.

Lemma sc_set_absent k p m : sc_get k m = None -> sc_set k p m = m ++ [(k, p)].
Proof.
  induction m as [|[k' p'] m IH]; simpl; intro H; [reflexivity|].
  destruct (opt_N_eqb k k'); [discriminate|]. f_equal. apply IH. exact H.
Qed.

Lemma sc_get_app k m1 m2 : sc_get k (m1 ++ m2) = match sc_get k m1 with Some p => Some p | None => sc_get k m2 end.
Proof.
  induction m1 as [|[k' p'] m1 IH]; simpl; [reflexivity|]. destruct (opt_N_eqb k k'); [reflexivity | exact IH].
Qed.

(** ** heap *)

Lemma heap_get_set_same src m h : heap_get src (heap_set src m h) = Some m.
Proof.
  induction h as [|[s' m'] h IH]; simpl.
  - rewrite path_eqb_refl. reflexivity.
  - destruct (path_eqb src s') eqn:E; simpl; [rewrite path_eqb_refl; reflexivity | rewrite E; exact IH].
Qed.

Lemma heap_get_set_other src src' m h : src <> src' -> heap_get src' (heap_set src m h) = heap_get src' h.
Proof.
  intro Hne. induction h as [|[s0 m0] h IH]; simpl.
  - rewrite path_eqb_neq by congruence. reflexivity.
  - destruct (path_eqb src s0) eqn:E; simpl.
    + apply path_eqb_eq in E. subst s0. rewrite path_eqb_neq by congruence. reflexivity.
    + destruct (path_eqb src' s0); [reflexivity | exact IH].
Qed.

(** ** prefixes of paths *)

Definition is_prefix (a b : path) : Prop := exists r, b = a ++ r.

Lemma is_prefix_refl a : is_prefix a a.
Proof. exists []. symmetry. apply app_nil_r. Qed.

Lemma is_prefix_app a r : is_prefix a (a ++ r).
Proof. exists r. reflexivity. Qed.

Lemma is_prefix_trans a b c : is_prefix a b -> is_prefix b c -> is_prefix a c.
Proof. intros [r1 ->] [r2 ->]. exists (r1 ++ r2). rewrite app_assoc. reflexivity. Qed.

Lemma is_prefix_snoc_inj (dp : path) a b x : is_prefix (dp ++ [a]) x -> is_prefix (dp ++ [b]) x -> a = b.
Proof.
  intros [r1 H1] [r2 H2]. subst x. rewrite <- !app_assoc in H2. apply app_inv_head in H2. simpl in H2.
  inversion H2. reflexivity.
Qed.

Lemma is_prefix_snoc_self (dp : path) a b : is_prefix (dp ++ [a]) (dp ++ [b]) -> a = b.
Proof. intro H. eapply is_prefix_snoc_inj; [exact H | apply is_prefix_refl]. Qed.

Lemma not_prefix_longer (a b : path) : (List.length b < List.length a)%nat -> ~ is_prefix a b.
Proof. intros Hl [r ->]. rewrite app_length in Hl. lia. Qed.
