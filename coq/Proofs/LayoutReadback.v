(** * Reading the tree back from the grid (C02_readback).

    [decode] (Spec/LayoutSpec.v) looks only at geometry, kinds and borders.  For the node
    [s] drawn in the rectangle (r, c, height s, w) it is shown to return
    [(canon cx s, height s)]; the three facts used are
    - the cell covering the top-right slot of the rectangle is [topright s] (tiling:
      a slot has one owner);
    - the emphasised outline seen on that cell's right (top) edge comes from [s]'s own
      region and from nothing else ([regions_partition]: every other region is disjoint
      from [s]'s rectangle or contains the rectangle of [s]'s parent);
    - the inputs of a step are found band after band because every band is as high as
      what is decoded from it. *)
From Coq Require Import List Arith NArith Bool Lia ZifyBool.
From RG Require Import Model.Table Model.Layout Spec.LayoutSpec
  Proofs.LayoutTiling Proofs.LayoutArith Proofs.LayoutSpecFacts Proofs.LayoutRefine
  Proofs.LayoutProps Proofs.LayoutGeometry.
Import ListNotations.
Local Open Scope N_scope.

(** ** The cell in the top-right corner of a subtree's rectangle *)
Fixpoint topright (p : path) (s : ltree) (r c w : N) {struct s} : geo :=
  match s with
  | LLeaf ref => ((leaf_kind ref, p), (r, c, 1, w))
  | LStep ins =>
      let win := list_max (map width ins) in
      ((KStep, p), (r, c + win, list_sum (map height ins), w - win))
  | LSub b n show =>
      if Nat.eqb n 1 then
        if show then ((KHeader, p), (r, c, 1, w)) else topright (p ++ [0%nat]) b r c w
      else ((KOutputs, p), (r, c + width b, height b, 1))
  end.

Lemma topright_in : forall s p r c w, In (topright p s r c w) (place p s r c w).
Proof.
  induction s as [ref|ins IH|b n show IH] using ltree_ind2; intros p r c w.
  - left. reflexivity.
  - cbn [topright place]. apply in_or_app. right. left. reflexivity.
  - cbn [topright place]. destruct (Nat.eqb n 1); [destruct show|].
    + left. reflexivity.
    + apply IH.
    + apply in_or_app. right. left. reflexivity.
Qed.

Definition rect_covers (g : rect) (r c : N) : bool :=
  (r_row g <=? r) && (r <? r_row g + r_h g) && (r_col g <=? c) && (c <? r_col g + r_w g).

Lemma topright_covers : forall s p r c w,
  wf_at false s = true -> width s <= w ->
  rect_covers (snd (topright p s r c w)) r (c + w - 1) = true
  /\ r_row (snd (topright p s r c w)) = r
  /\ r_col (snd (topright p s r c w)) + r_w (snd (topright p s r c w)) = c + w.
Proof.
  induction s as [ref|ins IH|b n show IH] using ltree_ind2; intros p r c w Hwf Hw.
  - cbn [topright snd width] in *. unfold rect_covers, r_row, r_col, r_h, r_w; cbn [fst snd]. lia.
  - destruct (dims_pos _ false Hwf) as [Hh _]. cbn [height] in Hh.
    cbn [topright snd width] in *. unfold rect_covers, r_row, r_col, r_h, r_w; cbn [fst snd]. lia.
  - simpl in Hwf. apply andb_true_iff in Hwf as [Hn Hwf].
    assert (En : Nat.eqb n 1 = true) by (apply andb_true_iff in Hn as [_ Hn]; exact Hn).
    destruct (dims_pos b false Hwf) as [_ Hw1].
    cbn [topright width] in *. rewrite En in *. destruct show.
    + cbn [snd]. unfold rect_covers, r_row, r_col, r_h, r_w; cbn [fst snd]. lia.
    + apply IH; assumption.
Qed.

Lemma spec_cell_covers regs g r c :
  covers (spec_cell regs g) r c = rect_covers (snd g) r c.
Proof.
  destruct g as [lbl [[[r0 c0] h] w]].
  unfold covers, covers_row, covers_col, rect_covers, spec_cell, e_row, e_col, e_rows, e_cols,
    e_cell, r_row, r_col, r_h, r_w; cbn [fst snd c_rows c_cols]. lia.
Qed.

(** ** Every region other than a node's own is disjoint from the node or contains its parent *)
Definition disjoint (a b : rect) : Prop :=
  r_row a + r_h a <= r_row b \/ r_row b + r_h b <= r_row a
  \/ r_col a + r_w a <= r_col b \/ r_col b + r_w b <= r_col a.
Definition outside (rho rs rp : rect) : Prop := disjoint rho rs \/ inside rp rho = true.

Lemma stack_i_split {A} (f : nat -> ltree -> N -> list A) hgt : forall l i r k x,
  nth_error l k = Some x ->
  stack_i f hgt i l r
  = stack_i f hgt i (firstn k l) r
    ++ f (i + k)%nat x (r + list_sum (map hgt (firstn k l)))
    ++ stack_i f hgt (i + S k)%nat (skipn (S k) l) (r + list_sum (map hgt (firstn k l)) + hgt x).
Proof.
  induction l as [|y l IH]; intros i r k x Hk; [destruct k; discriminate|].
  destruct k as [|k]; simpl in Hk.
  - inversion Hk; subst. simpl. rewrite Nat.add_0_r, N.add_0_r. replace (i + 1)%nat with (S i) by lia.
    reflexivity.
  - cbn [firstn skipn stack_i map list_sum fold_right]. rewrite <- app_assoc. f_equal.
    rewrite (IH (S i) (r + hgt y) k x Hk).
    replace (S i + k)%nat with (i + S k)%nat by lia.
    replace (S i + S k)%nat with (i + S (S k))%nat by lia.
    replace (r + hgt y + list_sum (map hgt (firstn k l)))
      with (r + (hgt y + list_sum (map hgt (firstn k l)))) by lia.
    reflexivity.
Qed.

Lemma stack_regions_band c0 win : forall l i r rho,
  forallb (wf_at false) l = true -> (forall x, In x l -> width x <= win) ->
  In rho (stack_i (fun _ x r => regions x r c0 win) height i l r) ->
  r <= r_row rho /\ r_row rho + r_h rho <= r + list_sum (map height l).
Proof.
  intros l i r rho Hwf Hw Hin.
  apply in_stack_i in Hin as (pre & x & post & -> & Hin).
  rewrite forallb_app in Hwf. apply andb_true_iff in Hwf as [_ Hwf].
  simpl in Hwf. apply andb_true_iff in Hwf as [Hx _].
  assert (Hwx : width x <= win) by (apply Hw; apply in_or_app; right; left; reflexivity).
  pose proof (regions_within x _ _ _ Hx Hwx rho Hin) as Hin'. unfold within in Hin'.
  rewrite map_app, list_sum_app. simpl. lia.
Qed.

Lemma inside_refl g : inside g g = true.
Proof. apply inside_spec. lia. Qed.

Lemma inside_trans a b c : inside a b = true -> inside b c = true -> inside a c = true.
Proof. rewrite !inside_spec. lia. Qed.

Lemma list_sum_cons a l : list_sum (a :: l) = a + list_sum l.
Proof. reflexivity. Qed.

Lemma nth_error_sum (hgt : ltree -> N) : forall l k x,
  nth_error l k = Some x ->
  list_sum (map hgt l)
  = list_sum (map hgt (firstn k l)) + hgt x + list_sum (map hgt (skipn (S k) l)).
Proof.
  induction l as [|y l IH]; intros k x Hk; [destruct k; discriminate|].
  destruct k as [|k]; simpl in Hk.
  - inversion Hk; subst. cbn [firstn skipn map]. rewrite !list_sum_cons. cbn [list_sum fold_right]. lia.
  - cbn [firstn skipn map]. rewrite !list_sum_cons, (IH k x Hk). cbn [skipn]. lia.
Qed.

Lemma node_rect_within : forall pi t r0 c0 w s rs b,
  wf_at b t = true -> width t <= w ->
  node_rect t r0 c0 w pi = Some (s, rs) -> within rs r0 c0 (height t) w.
Proof.
  induction pi as [|i pi IH]; intros t r0 c0 w s rs b Hwf Hw H.
  - simpl in H. inversion H; subst. unfold within, r_row, r_col, r_h, r_w; cbn [fst snd]. lia.
  - cbn [node_rect] in H. destruct t as [ref|ins|body n show]; [discriminate| |].
    + destruct (nth_error ins i) as [x|] eqn:Ex; [|discriminate].
      simpl in Hwf. apply andb_true_iff in Hwf as [_ Hwf].
      assert (Hx : wf_at false x = true).
      { rewrite forallb_forall in Hwf. apply Hwf. eapply nth_error_In; eauto. }
      assert (Hwx : width x <= list_max (map width ins)).
      { apply list_max_ge. apply in_map. eapply nth_error_In; eauto. }
      pose proof (IH _ _ _ _ _ _ false Hx Hwx H) as Hin.
      cbn [height width] in *.
      pose proof (nth_error_sum height ins i x Ex) as Hsum.
      unfold within in *. lia.
    + destruct i; [|discriminate].
      simpl in Hwf. apply andb_true_iff in Hwf as [_ Hwf]. cbn [width height] in *.
      destruct (Nat.eqb n 1).
      * pose proof (IH _ _ _ _ _ _ false Hwf Hw H) as Hin. unfold within in *.
        destruct show; lia.
      * pose proof (IH _ _ _ _ _ _ false Hwf (N.le_refl _) H) as Hin. unfold within in *. lia.
Qed.

Lemma within_positive_disjoint_rows g r c h w rho :
  within g r c h w -> (r_row rho + r_h rho <= r \/ r + h <= r_row rho) -> disjoint rho g.
Proof. unfold within, disjoint. lia. Qed.

Lemma regions_partition : forall piP t r0 c0 w i s rs b,
  wf_at b t = true -> width t <= w ->
  node_rect t r0 c0 w (piP ++ [i]) = Some (s, rs) ->
  exists P rp pre post,
    node_rect t r0 c0 w piP = Some (P, rp)
    /\ regions t r0 c0 w = pre ++ regions s (r_row rs) (r_col rs) (r_w rs) ++ post
    /\ forall rho, In rho (pre ++ post) -> outside rho rs rp.
Proof.
  induction piP as [|j piP IH]; intros t r0 c0 w i s rs b Hwf Hw H.
  - (* the parent is [t] *)
    exists t, (r0, c0, height t, w). cbn [app node_rect] in H.
    destruct t as [ref|ins|body n show]; [discriminate| |].
    + destruct (nth_error ins i) as [x|] eqn:Ex; [|discriminate]. simpl in H. injection H as <- <-.
      simpl in Hwf. apply andb_true_iff in Hwf as [_ Hwf].
      set (win := list_max (map width ins)).
      assert (Hwin : forall y, In y ins -> width y <= win).
      { intros y Hy. apply list_max_ge. apply in_map. exact Hy. }
      exists (stack_i (fun _ x r => regions x r c0 win) height 0%nat (firstn i ins) r0),
        (stack_i (fun _ x r => regions x r c0 win) height (0 + S i)%nat (skipn (S i) ins)
                 (r0 + list_sum (map height (firstn i ins)) + height x)).
      split; [reflexivity|]. split.
      * cbn [regions r_row r_col r_w fst snd]. fold win.
        apply (stack_i_split (fun _ x r => regions x r c0 win) height ins 0%nat r0 i x Ex).
      * intros rho Hrho. left.
        assert (Hf : forallb (wf_at false) (firstn i ins) = true).
        { apply forallb_forall. intros y Hy. rewrite forallb_forall in Hwf. apply Hwf.
          rewrite <- (firstn_skipn i ins). apply in_or_app. left. exact Hy. }
        assert (Hs : forallb (wf_at false) (skipn (S i) ins) = true).
        { apply forallb_forall. intros y Hy. rewrite forallb_forall in Hwf. apply Hwf.
          rewrite <- (firstn_skipn (S i) ins). apply in_or_app. right. exact Hy. }
        apply in_app_or in Hrho as [Hrho|Hrho].
        -- apply stack_regions_band in Hrho as [_ Hb]; auto.
           ++ unfold disjoint, r_row, r_col, r_h, r_w in *; cbn [fst snd] in *. lia.
           ++ intros y Hy. apply Hwin. rewrite <- (firstn_skipn i ins). apply in_or_app. left. exact Hy.
        -- apply stack_regions_band in Hrho as [Ha _]; auto.
           ++ unfold disjoint, r_row, r_col, r_h, r_w in *; cbn [fst snd] in *. lia.
           ++ intros y Hy. apply Hwin. rewrite <- (firstn_skipn (S i) ins). apply in_or_app. right. exact Hy.
    + destruct i; [|discriminate]. cbn [regions]. destruct (Nat.eqb n 1).
      * simpl in H. injection H as <- <-.
        exists [(r0, c0, height (LSub body n show), w)], [].
        split; [reflexivity|]. split.
        -- cbn [r_row r_col r_w fst snd app]. rewrite app_nil_r. reflexivity.
        -- intros rho [<-|[]]. right. apply inside_refl.
      * simpl in H. injection H as <- <-. exists [], [].
        split; [reflexivity|]. split; [cbn [r_row r_col r_w fst snd app]; rewrite app_nil_r; reflexivity|].
        intros rho [].
  - (* the parent is further down *)
    cbn [app node_rect] in H. destruct t as [ref|ins|body n show]; [discriminate| |].
    + destruct (nth_error ins j) as [x|] eqn:Ex; [|discriminate].
      simpl in Hwf. apply andb_true_iff in Hwf as [_ Hwf].
      set (win := list_max (map width ins)) in *.
      assert (Hwin : forall y, In y ins -> width y <= win).
      { intros y Hy. apply list_max_ge. apply in_map. exact Hy. }
      assert (Hx : wf_at false x = true).
      { rewrite forallb_forall in Hwf. apply Hwf. eapply nth_error_In; eauto. }
      assert (Hwx : width x <= win) by (apply Hwin; eapply nth_error_In; eauto).
      destruct (IH _ _ _ _ _ _ _ false Hx Hwx H) as (P & rp & pre & post & HP & Hreg & Hout).
      pose proof (node_rect_within _ _ _ _ _ _ _ false Hx Hwx H) as Hin.
      exists P, rp,
        (stack_i (fun _ x r => regions x r c0 win) height 0%nat (firstn j ins) r0 ++ pre),
        (post ++ stack_i (fun _ x r => regions x r c0 win) height (0 + S j)%nat (skipn (S j) ins)
                   (r0 + list_sum (map height (firstn j ins)) + height x)).
      split; [cbn [node_rect]; rewrite Ex; exact HP|]. split.
      * cbn [regions]. fold win.
        rewrite (stack_i_split (fun _ x r => regions x r c0 win) height ins 0%nat r0 j x Ex).
        rewrite Hreg. rewrite <- !app_assoc. reflexivity.
      * intros rho Hrho.
        assert (Hf : forallb (wf_at false) (firstn j ins) = true).
        { apply forallb_forall. intros y Hy. rewrite forallb_forall in Hwf. apply Hwf.
          rewrite <- (firstn_skipn j ins). apply in_or_app. left. exact Hy. }
        assert (Hs : forallb (wf_at false) (skipn (S j) ins) = true).
        { apply forallb_forall. intros y Hy. rewrite forallb_forall in Hwf. apply Hwf.
          rewrite <- (firstn_skipn (S j) ins). apply in_or_app. right. exact Hy. }
        rewrite <- app_assoc in Hrho.
        apply in_app_or in Hrho as [Hrho|Hrho]; [|apply in_app_or in Hrho as [Hrho|Hrho]];
          [| |apply in_app_or in Hrho as [Hrho|Hrho]].
        -- left. apply stack_regions_band in Hrho as [_ Hb]; auto.
           ++ eapply within_positive_disjoint_rows; [exact Hin|]. left. exact Hb.
           ++ intros y Hy. apply Hwin. rewrite <- (firstn_skipn j ins). apply in_or_app. left. exact Hy.
        -- apply Hout. apply in_or_app. left. exact Hrho.
        -- apply Hout. apply in_or_app. right. exact Hrho.
        -- left. apply stack_regions_band in Hrho as [Ha _]; auto.
           ++ eapply within_positive_disjoint_rows; [exact Hin|]. right. exact Ha.
           ++ intros y Hy. apply Hwin. rewrite <- (firstn_skipn (S j) ins). apply in_or_app. right. exact Hy.
    + destruct j; [|discriminate].
      simpl in Hwf. apply andb_true_iff in Hwf as [_ Hwf]. cbn [width] in Hw.
      cbn [regions node_rect]. destruct (Nat.eqb n 1) eqn:En.
      * destruct (IH _ _ _ _ _ _ _ false Hwf Hw H) as (P & rp & pre & post & HP & Hreg & Hout).
        pose proof (node_rect_within _ _ _ _ _ _ _ false Hwf Hw HP) as HinP.
        exists P, rp, ((r0, c0, height (LSub body n show), w) :: pre), post.
        split; [exact HP|]. split; [rewrite Hreg; reflexivity|].
        intros rho [<-|Hrho]; [|apply Hout; exact Hrho].
        right. apply inside_spec. unfold within, r_row, r_col, r_h, r_w in *; cbn [fst snd height] in *.
        rewrite En. destruct show; lia.
      * destruct (IH _ _ _ _ _ _ _ false Hwf (N.le_refl _) H) as (P & rp & pre & post & HP & Hreg & Hout).
        exists P, rp, pre, post. split; [exact HP|]. split; [exact Hreg|exact Hout].
Qed.

Lemma exists_last_or_nil {A} (l : list A) : l = [] \/ exists l' x, l = l' ++ [x].
Proof. induction l as [|x l IH] using rev_ind; [left; reflexivity|right; eauto]. Qed.

Section Readback.
  Variable t : ltree.
  Hypothesis Hwf : wf t = true.
  Let G := bordered_regions t.
  Let L := t_cells (spec_table t).

  Lemma L_tiling : Tiling (height t) (width t) L.
  Proof.
    destruct (layout_ok t true [] Hwf) as [_ (_ & _ & HT)].
    rewrite (alayout_spec t Hwf) in HT. exact HT.
  Qed.

  Lemma L_in g : In g (place [] t 0 0 (width t)) -> In (spec_cell G g) L.
  Proof. intros H. unfold L, spec_table. cbn [t_cells]. apply in_map. exact H. Qed.

  (** A slot inside a placed cell is looked up to that cell. *)
  Lemma lookup_placed g r c :
    In g (place [] t 0 0 (width t)) -> rect_covers (snd g) r c = true ->
    lookup L r c = Some (spec_cell G g).
  Proof.
    intros Hin Hc. pose proof (L_in g Hin) as HinL.
    assert (Hcov : covers (spec_cell G g) r c = true) by (rewrite spec_cell_covers; exact Hc).
    destruct (covers_bounds _ _ _ _ _ (tiling_bounds _ _ _ _ L_tiling HinL) Hcov) as [Hr Hcc].
    destruct (lookup_cover L r c (tiling_count _ _ _ _ _ L_tiling Hr Hcc)) as (e & Hl & He & Hce).
    rewrite Hl. f_equal.
    exact (cover_unique L r c e _ (tiling_count _ _ _ _ _ L_tiling Hr Hcc) He HinL Hce Hcov).
  Qed.

  Lemma lookup_topright pi s r c h w :
    node_rect t 0 0 (width t) pi = Some (s, (r, c, h, w)) -> wf_at false s = true ->
    lookup L r (c + w - 1) = Some (spec_cell G (topright pi s r c w)).
  Proof.
    intros H Hs.
    destruct (node_rect_wf pi t 0 0 (width t) _ _ true Hwf (N.le_refl _) H) as (_ & Hw' & _).
    unfold r_w in Hw'; cbn [fst snd] in Hw'.
    apply lookup_placed.
    - apply (place_sub pi t [] 0 0 (width t) _ _ _ _ _ H). cbn [app]. apply topright_in.
    - apply topright_covers; assumption.
  Qed.

  (** ** Which outlines a cell can show *)
  Definition ctx_ok (cx : ctx) (s : ltree) (r c w : N) : Prop :=
    match cx with
    | CFree => True
    | CInput =>
        forall rho g, In rho G -> within g r c (height s) w -> positive g ->
                      r_col g + r_w g = c + w -> on_right g rho = true ->
                      In rho (regions s r c w)
    | CBelow =>
        forall rho g, In rho G -> within g r c (height s) w -> positive g ->
                      r_row g = r -> on_top g rho = true ->
                      In rho (regions s r c w)
    end.

  Lemma regions_sub pi s r c h w :
    node_rect t 0 0 (width t) pi = Some (s, (r, c, h, w)) -> incl (regions s r c w) G.
  Proof.
    intros H. unfold G, bordered_regions in *. apply incl_tl.
    destruct (exists_last_or_nil pi) as [->|(piP & i & ->)].
    - simpl in H. injection H as <- <- <- <- <-. apply incl_refl.
    - destruct (regions_partition piP t 0 0 (width t) i s _ true Hwf (N.le_refl _) H)
        as (P & rp & pre & post & _ & Hreg & _).
      cbn [r_row r_col r_w fst snd] in Hreg. rewrite Hreg.
      apply incl_appr. apply incl_appl. apply incl_refl.
  Qed.

  (** The root region contains every step and every single-output sub recipe. *)
  Lemma root_contains pi P rp :
    node_rect t 0 0 (width t) pi = Some (P, rp) ->
    (match P with LSub _ n _ => Nat.eqb n 1 = true | _ => True end) ->
    inside rp (root_region t) = true.
  Proof.
    intros H HP. unfold root_region.
    assert (Hall : inside rp (0, 0, height t, width t) = true).
    { apply within_inside. exact (node_rect_within pi t 0 0 (width t) _ _ true Hwf (N.le_refl _) H). }
    destruct t as [ref|ins|body n show] eqn:Et; try exact Hall.
    destruct (Nat.eqb n 1) eqn:En; [exact Hall|].
    (* multi-output root: [P] lies in the body *)
    destruct pi as [|i pi].
    - simpl in H. injection H as <- <-. rewrite En in HP. discriminate.
    - cbn [node_rect] in H. destruct i; [|discriminate]. rewrite En in H.
      unfold wf in Hwf. simpl in Hwf. apply andb_true_iff in Hwf as [_ Hwfb].
      apply within_inside.
      exact (node_rect_within pi body 0 0 (width body) _ _ false Hwfb (N.le_refl _) H).
  Qed.

  Lemma outside_false rho g rs :
    within g (r_row rs) (r_col rs) (r_h rs) (r_w rs) -> positive g ->
    disjoint rho rs -> inside g rho = false.
  Proof.
    intros Hin [Hh Hw'] Hd. destruct (inside g rho) eqn:E; [|reflexivity].
    apply inside_spec in E. unfold within, disjoint in *. lia.
  Qed.

  (** Regions other than the node's own: none has its right edge on an input's right edge. *)
  Lemma ctx_input pi ins r c h w i x :
    node_rect t 0 0 (width t) pi = Some (LStep ins, (r, c, h, w)) ->
    nth_error ins i = Some x ->
    ctx_ok CInput x (r + list_sum (map height (firstn i ins))) c (list_max (map width ins)).
  Proof.
    intros HP Ex rho g Hrho Hin Hpos Hright Hon.
    set (win := list_max (map width ins)) in *. set (ri := r + list_sum (map height (firstn i ins))) in *.
    assert (Hx : node_rect t 0 0 (width t) (pi ++ [i]) = Some (x, (ri, c, height x, win))).
    { rewrite node_rect_app, HP. cbn [node_rect]. rewrite Ex. reflexivity. }
    destruct (node_rect_wf pi t 0 0 (width t) _ _ true Hwf (N.le_refl _) HP) as (_ & Hw' & _).
    unfold r_w in Hw'; cbn [fst snd width] in Hw'. fold win in Hw'.
    assert (Hfar : forall rho', inside (r, c, h, w) rho' = true -> on_right g rho' = false).
    { intros rho' Hi. unfold on_right. destruct (inside g rho') eqn:E; [|reflexivity]. cbn [andb].
      apply inside_spec in Hi. destruct g as [[[gr gc] gh] gw], rho' as [[[r' c'] h'] w'].
      unfold within, r_row, r_col, r_h, r_w in *; cbn [fst snd] in *. lia. }
    destruct (regions_partition pi t 0 0 (width t) i x _ true Hwf (N.le_refl _) Hx)
      as (P & rp & pre & post & HP' & Hreg & Hout).
    rewrite HP in HP'. injection HP' as <- <-.
    cbn [r_row r_col r_w fst snd] in Hreg.
    destruct Hrho as [<-|Hrho].
    - rewrite (Hfar _ (root_contains pi _ _ HP I)) in Hon. discriminate.
    - rewrite Hreg in Hrho.
      apply in_app_or in Hrho as [Hrho|Hrho]; [|apply in_app_or in Hrho as [Hrho|Hrho]].
      + destruct (Hout rho (in_or_app _ _ _ (or_introl Hrho))) as [Hd|Hi].
        * assert (Hf : inside g rho = false) by (apply (outside_false rho g (ri, c, height x, win)); assumption).
          unfold on_right in Hon. rewrite Hf in Hon. discriminate.
        * rewrite (Hfar _ Hi) in Hon. discriminate.
      + exact Hrho.
      + destruct (Hout rho (in_or_app _ _ _ (or_intror Hrho))) as [Hd|Hi].
        * assert (Hf : inside g rho = false) by (apply (outside_false rho g (ri, c, height x, win)); assumption).
          unfold on_right in Hon. rewrite Hf in Hon. discriminate.
        * rewrite (Hfar _ Hi) in Hon. discriminate.
  Qed.

  Lemma ctx_below pi body n r c h w :
    node_rect t 0 0 (width t) pi = Some (LSub body n true, (r, c, h, w)) -> Nat.eqb n 1 = true ->
    ctx_ok CBelow body (r + 1) c w.
  Proof.
    intros HP En rho g Hrho Hin Hpos Htop Hon.
    assert (Hx : node_rect t 0 0 (width t) (pi ++ [0%nat]) = Some (body, (r + 1, c, height body, w))).
    { rewrite node_rect_app, HP. cbn [node_rect]. rewrite En. reflexivity. }
    assert (Hfar : forall rho', inside (r, c, h, w) rho' = true -> on_top g rho' = false).
    { intros rho' Hi. unfold on_top. destruct (inside g rho') eqn:E; [|reflexivity]. cbn [andb].
      apply inside_spec in Hi. destruct g as [[[gr gc] gh] gw], rho' as [[[r' c'] h'] w'].
      unfold within, r_row, r_col, r_h, r_w in *; cbn [fst snd] in *. lia. }
    destruct (regions_partition pi t 0 0 (width t) 0%nat body _ true Hwf (N.le_refl _) Hx)
      as (P & rp & pre & post & HP' & Hreg & Hout).
    rewrite HP in HP'. injection HP' as <- <-.
    cbn [r_row r_col r_w fst snd] in Hreg.
    destruct Hrho as [<-|Hrho].
    - rewrite (Hfar _ (root_contains pi _ _ HP En)) in Hon. discriminate.
    - rewrite Hreg in Hrho.
      apply in_app_or in Hrho as [Hrho|Hrho]; [|apply in_app_or in Hrho as [Hrho|Hrho]].
      + destruct (Hout rho (in_or_app _ _ _ (or_introl Hrho))) as [Hd|Hi].
        * assert (Hf : inside g rho = false) by (apply (outside_false rho g (r + 1, c, height body, w)); assumption).
          unfold on_top in Hon. rewrite Hf in Hon. discriminate.
        * rewrite (Hfar _ Hi) in Hon. discriminate.
      + exact Hrho.
      + destruct (Hout rho (in_or_app _ _ _ (or_intror Hrho))) as [Hd|Hi].
        * assert (Hf : inside g rho = false) by (apply (outside_false rho g (r + 1, c, height body, w)); assumption).
          unfold on_top in Hon. rewrite Hf in Hon. discriminate.
        * rewrite (Hfar _ Hi) in Hon. discriminate.
  Qed.

  (** ** What [decode] sees on the top-right cell *)
  Lemma spec_cell_br lbl g :
    is_outputs lbl = false ->
    border_is_sub (c_br (e_cell (spec_cell G (lbl, g)))) = existsb (on_right g) G.
  Proof.
    destruct g as [[[r c] h] w]. intros Ho. unfold spec_cell, edge, e_cell; cbn [snd c_br].
    rewrite Ho. destruct (existsb _ G); reflexivity.
  Qed.

  Lemma spec_cell_bt lbl g :
    is_outputs lbl = false ->
    border_is_sub (c_bt (e_cell (spec_cell G (lbl, g)))) = existsb (on_top g) G.
  Proof.
    destruct g as [[[r c] h] w]. intros Ho. unfold spec_cell, edge, e_cell; cbn [snd c_bt].
    rewrite Ho. destruct (existsb _ G); reflexivity.
  Qed.

  Lemma spec_cell_kind lbl g : fst (c_label (e_cell (spec_cell G (lbl, g)))) = fst lbl.
  Proof. destruct g as [[[r c] h] w]. reflexivity. Qed.

  Lemma spec_cell_geom lbl r c h w :
    e_col (spec_cell G (lbl, (r, c, h, w))) = c /\ e_rows (spec_cell G (lbl, (r, c, h, w))) = h.
  Proof. split; reflexivity. Qed.

  (** "wrapped" as computed by [decode] on a cell [g] of kind [k]. *)
  Definition wrapped (cx : ctx) (g : rect) : bool :=
    match cx with
    | CInput => existsb (on_right g) G
    | CBelow => existsb (on_top g) G
    | CFree => false
    end.

  (** A cell at the top-right corner of [s] that lies in none of [s]'s own regions shows no
      outline in a context where only [s]'s own regions could be seen. *)
  Lemma not_wrapped cx s r c w g :
    ctx_ok cx s r c w -> within g r c (height s) w -> positive g ->
    r_row g = r -> r_col g + r_w g = c + w ->
    (forall rho, In rho (regions s r c w) -> inside g rho = false) ->
    wrapped cx g = false.
  Proof.
    intros Hok Hin Hpos Hrow Hcol Hnone. destruct cx; cbn [wrapped]; [| |reflexivity].
    - apply existsb_false. intros rho Hrho. destruct (on_right g rho) eqn:E; [|reflexivity].
      pose proof (Hok rho g Hrho Hin Hpos Hcol E) as Hown.
      unfold on_right in E. rewrite (Hnone rho Hown) in E. discriminate.
    - apply existsb_false. intros rho Hrho. destruct (on_top g rho) eqn:E; [|reflexivity].
      pose proof (Hok rho g Hrho Hin Hpos Hrow E) as Hown.
      unfold on_top in E. rewrite (Hnone rho Hown) in E. discriminate.
  Qed.

  Lemma is_wrapped cx g rho :
    cx <> CFree -> In rho G -> inside g rho = true ->
    r_row g = r_row rho -> r_col g + r_w g = r_col rho + r_w rho ->
    wrapped cx g = true.
  Proof.
    intros Hcx Hrho Hin Hrow Hcol. destruct cx; cbn [wrapped]; [| |congruence].
    - apply existsb_exists. exists rho. split; [exact Hrho|]. unfold on_right. rewrite Hin.
      destruct g as [[[gr gc] gh] gw], rho as [[[r' c'] h'] w'].
      unfold r_row, r_col, r_h, r_w in *; cbn [fst snd] in *. lia.
    - apply existsb_exists. exists rho. split; [exact Hrho|]. unfold on_top. rewrite Hin.
      destruct g as [[[gr gc] gh] gw], rho as [[[r' c'] h'] w'].
      unfold r_row, r_col, r_h, r_w in *; cbn [fst snd] in *. lia.
  Qed.

  (** One step of [decode] on a node whose top-right cell is not a header. *)
  Lemma decode_step f cx r c w lbl g :
    lookup L r (c + w - 1) = Some (spec_cell G (lbl, g)) ->
    is_outputs lbl = false -> fst lbl <> KHeader ->
    decode (S f) L cx r c w
    = if wrapped cx g then
        match decode f L CFree r c w with
        | Some (b, h) => Some (LSub b 1 false, h)
        | None => None
        end
      else
        match fst lbl with
        | KIngredient => Some (LLeaf false, 1)
        | KReference => Some (LLeaf true, 1)
        | KStep =>
            let win := r_col g - c in
            let h := r_h g in
            match decode_inputs (fun r' => decode f L CInput r' c win) (r + h) (S (N.to_nat h)) r with
            | Some ins => Some (LStep ins, h)
            | None => None
            end
        | _ => None
        end.
  Proof.
    intros Hl Ho Hk. cbn [decode]. rewrite Hl.
    rewrite spec_cell_kind, (spec_cell_br lbl g Ho), (spec_cell_bt lbl g Ho).
    destruct g as [[[gr gc] gh] gw].
    unfold spec_cell, e_col, e_rows, e_cell; cbn [fst snd c_rows].
    unfold wrapped, r_col, r_h; cbn [fst snd].
    destruct lbl as [k p]. cbn [fst] in *. unfold is_outputs in Ho; cbn [fst] in Ho.
    destruct k; try discriminate; try congruence; destruct cx; reflexivity.
  Qed.

  Lemma decode_inputs_ok f pi ins r c h w :
    node_rect t 0 0 (width t) pi = Some (LStep ins, (r, c, h, w)) ->
    forallb (wf_at false) ins = true ->
    Forall (fun x => forall pi' r' c' w' cx fuel,
              node_rect t 0 0 (width t) pi' = Some (x, (r', c', height x, w')) ->
              wf_at false x = true -> ctx_ok cx x r' c' w' -> (tree_size x <= fuel)%nat ->
              decode fuel L cx r' c' w' = Some (canon cx x, height x)) ins ->
    (fold_right (fun x a => (tree_size x + a)%nat) 0%nat ins <= f)%nat ->
    forall l i k,
      skipn i ins = l -> (length l < k)%nat ->
      decode_inputs (fun r' => decode f L CInput r' c (list_max (map width ins)))
                    (r + list_sum (map height ins)) k
                    (r + list_sum (map height (firstn i ins)))
      = Some (map (canon CInput) l).
  Proof.
    intros HP Hwfi IH Hf.
    induction l as [|x l IHl]; intros i k Hsk Hk.
    - destruct k; [simpl in Hk; lia|]. cbn [decode_inputs].
      assert (E : firstn i ins = ins).
      { rewrite <- (firstn_skipn i ins) at 2. rewrite Hsk, app_nil_r. reflexivity. }
      rewrite E. replace (_ <=? _) with true by lia. reflexivity.
    - destruct k; [simpl in Hk; lia|]. cbn [decode_inputs].
      assert (Ex : nth_error ins i = Some x).
      { rewrite <- (firstn_skipn i ins), Hsk.
        assert (Hlen : length (firstn i ins) = i).
        { apply firstn_length_le. destruct (Nat.le_gt_cases i (length ins)) as [|Hgt]; [assumption|].
          rewrite skipn_all2 in Hsk by lia. discriminate. }
        rewrite nth_error_app2 by lia. rewrite Hlen, Nat.sub_diag. reflexivity. }
      assert (Hx : wf_at false x = true).
      { rewrite forallb_forall in Hwfi. apply Hwfi. eapply nth_error_In; eauto. }
      destruct (dims_pos x false Hx) as [Hh1 _].
      pose proof (nth_error_sum height ins i x Ex) as Hsum.
      replace (_ <=? _) with false by lia.
      assert (Hnr : node_rect t 0 0 (width t) (pi ++ [i])
                    = Some (x, (r + list_sum (map height (firstn i ins)), c, height x,
                                list_max (map width ins)))).
      { rewrite node_rect_app, HP. cbn [node_rect]. rewrite Ex. reflexivity. }
      rewrite Forall_forall in IH.
      rewrite (IH x (nth_error_In _ _ Ex) _ _ _ _ CInput f Hnr Hx (ctx_input pi ins r c h w i x HP Ex)).
      2:{ clear -Hf Ex. revert i Ex Hf. induction ins as [|y ins IHi]; intros i Ex Hf; [destruct i; discriminate|].
          destruct i; simpl in *; [inversion Ex; subst; lia|]. eapply IHi; [exact Ex|lia]. }
      assert (Hsk' : skipn (S i) ins = l).
      { clear -Hsk. revert i Hsk. induction ins as [|y ins IHi]; intros i Hsk; [destruct i; discriminate|].
        destruct i; simpl in *; [inversion Hsk; reflexivity|apply IHi; exact Hsk]. }
      assert (Hfirst : list_sum (map height (firstn (S i) ins))
                       = list_sum (map height (firstn i ins)) + height x).
      { clear -Ex. revert i Ex. induction ins as [|y ins IHi]; intros i Ex; [destruct i; discriminate|].
        destruct i; simpl in Ex.
        - inversion Ex; subst. rewrite firstn_cons, firstn_O. cbn [map]. rewrite !list_sum_cons.
          cbn [list_sum fold_right firstn map]. lia.
        - rewrite !firstn_cons. cbn [map]. rewrite !list_sum_cons, (IHi i Ex). lia. }
      replace (r + list_sum (map height (firstn i ins)) + height x)
        with (r + list_sum (map height (firstn (S i) ins))) by lia.
      rewrite (IHl (S i) k Hsk') by (simpl in Hk; lia). reflexivity.
  Qed.

  Lemma topright_not_own_regions : forall s p r c w rho,
    wf_at false s = true -> width s <= w -> is_single_sub s = false ->
    In rho (regions s r c w) -> inside (snd (topright p s r c w)) rho = false.
  Proof.
    intros s p r c w rho Hs Hw Hns Hrho. destruct s as [ref|ins|b n show].
    - destruct Hrho.
    - simpl in Hs. apply andb_true_iff in Hs as [_ Hs]. cbn [width] in Hw.
      cbn [regions] in Hrho. apply stack_regions_rows in Hrho as [_ Hcol]; auto.
      + cbn [topright snd]. destruct (inside _ rho) eqn:E; [|reflexivity].
        apply inside_spec in E. unfold r_row, r_col, r_h, r_w in *; cbn [fst snd] in *. lia.
      + intros x Hx. apply list_max_ge. apply in_map. exact Hx.
    - simpl in Hs. apply andb_true_iff in Hs as [Hn _]. apply andb_true_iff in Hn as [_ Hn].
      simpl in Hns. congruence.
  Qed.

  Lemma topright_kind : forall s p r c w,
    wf_at false s = true ->
    is_outputs (fst (topright p s r c w)) = false
    /\ (is_single_sub s = false -> fst (fst (topright p s r c w)) <> KHeader).
  Proof.
    induction s as [ref|ins IH|b n show IH] using ltree_ind2; intros p r c w Hs.
    - split; [destruct ref; reflexivity|]. intros _. destruct ref; discriminate.
    - split; [reflexivity|]. intros _. discriminate.
    - simpl in Hs. apply andb_true_iff in Hs as [Hn Hs]. apply andb_true_iff in Hn as [_ Hn].
      cbn [topright]. rewrite Hn. destruct show.
      + split; [reflexivity|]. simpl. congruence.
      + split; [apply IH; exact Hs|]. simpl. congruence.
  Qed.

  (** ** [decode] returns the canonical tree *)
  Theorem decode_ok : forall s pi r c w cx fuel,
    node_rect t 0 0 (width t) pi = Some (s, (r, c, height s, w)) ->
    wf_at false s = true -> ctx_ok cx s r c w -> (tree_size s <= fuel)%nat ->
    decode fuel L cx r c w = Some (canon cx s, height s).
  Proof.
    induction s as [ref|ins IH|b n show IH] using ltree_ind2; intros pi r c w cx fuel HN Hs Hok Hfuel.
    - (* leaf *)
      destruct fuel as [|f]; [simpl in Hfuel; lia|].
      destruct (node_rect_wf pi t 0 0 (width t) _ _ true Hwf (N.le_refl _) HN) as (_ & Hw' & _).
      unfold r_w in Hw'; cbn [fst snd] in Hw'.
      pose proof (lookup_topright pi _ r c _ w HN Hs) as Hl. cbn [topright] in Hl.
      rewrite (decode_step f cx r c w _ _ Hl); [|destruct ref; reflexivity|destruct ref; discriminate].
      rewrite (not_wrapped cx (LLeaf ref) r c w (r, c, 1, w) Hok).
      + destruct ref; reflexivity.
      + unfold within, r_row, r_col, r_h, r_w; cbn [fst snd height]. lia.
      + unfold positive, r_h, r_w; cbn [fst snd]. cbn [width] in Hw'. lia.
      + reflexivity.
      + reflexivity.
      + intros rho [].
    - (* step *)
      destruct fuel as [|f]; [simpl in Hfuel; lia|].
      destruct (node_rect_wf pi t 0 0 (width t) _ _ true Hwf (N.le_refl _) HN) as (_ & Hw' & _).
      unfold r_w in Hw'; cbn [fst snd] in Hw'.
      destruct (dims_pos _ false Hs) as [Hh1 _].
      pose proof (lookup_topright pi _ r c _ w HN Hs) as Hl. cbn [topright] in Hl.
      rewrite (decode_step f cx r c w _ _ Hl); [|reflexivity|discriminate].
      set (win := list_max (map width ins)) in *. set (H := list_sum (map height ins)) in *.
      cbn [width] in Hw'. fold win in Hw'. cbn [height] in Hh1, HN. fold H in Hh1, HN.
      rewrite (not_wrapped cx (LStep ins) r c w (r, c + win, H, w - win) Hok).
      + cbn [fst]. unfold r_col, r_h; cbn [fst snd]. replace (c + win - c) with win by lia.
        assert (Hwfi : forallb (wf_at false) ins = true).
        { simpl in Hs. apply andb_true_iff in Hs as [_ Hs]. exact Hs. }
        assert (Hf : (fold_right (fun x a => (tree_size x + a)%nat) 0%nat ins <= f)%nat).
        { cbn [tree_size] in Hfuel. lia. }
        pose proof (decode_inputs_ok f pi ins r c H w HN Hwfi IH Hf ins 0%nat (S (N.to_nat H)) eq_refl)
          as Hloop.
        cbn [firstn map list_sum fold_right] in Hloop. rewrite N.add_0_r in Hloop. fold win H in Hloop.
        rewrite Hloop.
        * reflexivity.
        * assert (Hlen : N.of_nat (length ins) <= H).
          { unfold H. clear -Hwfi. induction ins as [|x ins IHi]; [simpl; lia|].
            simpl in Hwfi. apply andb_true_iff in Hwfi as [Hx Hwfi].
            destruct (dims_pos x false Hx) as [Hh _]. specialize (IHi Hwfi).
            cbn [map length]. rewrite list_sum_cons. lia. }
          lia.
      + unfold within, r_row, r_col, r_h, r_w; cbn [fst snd height]. fold H. lia.
      + unfold positive, r_h, r_w; cbn [fst snd]. lia.
      + reflexivity.
      + unfold r_col, r_w; cbn [fst snd]. lia.
      + intros rho Hrho.
        exact (topright_not_own_regions (LStep ins) pi r c w rho Hs Hw' eq_refl Hrho).
    - (* single-output sub recipe *)
      assert (Hs' := Hs). simpl in Hs. apply andb_true_iff in Hs as [Hn Hb].
      assert (En : Nat.eqb n 1 = true) by (apply andb_true_iff in Hn as [_ Hn]; exact Hn).
      destruct (node_rect_wf pi t 0 0 (width t) _ _ true Hwf (N.le_refl _) HN) as (_ & Hw' & _).
      unfold r_w in Hw'; cbn [fst snd width] in Hw'. rewrite En in Hw'.
      cbn [canon height]. rewrite En. destruct show.
      + (* titled *)
        destruct fuel as [|f]; [simpl in Hfuel; lia|].
        pose proof (lookup_topright pi _ r c _ w HN Hs') as Hl. cbn [topright] in Hl. rewrite En in Hl.
        cbn [decode]. rewrite Hl. rewrite spec_cell_kind. cbn [fst].
        assert (HNb : node_rect t 0 0 (width t) (pi ++ [0%nat]) = Some (b, (r + 1, c, height b, w))).
        { rewrite node_rect_app, HN. cbn [node_rect]. rewrite En. reflexivity. }
        rewrite (IH _ _ _ _ CBelow f HNb Hb).
        * reflexivity.
        * cbn [height] in HN. rewrite En in HN. exact (ctx_below pi b n r c _ w HN En).
        * cbn [tree_size] in Hfuel. lia.
      + (* untitled: same rectangle as the body *)
        assert (HNb : node_rect t 0 0 (width t) (pi ++ [0%nat]) = Some (b, (r, c, height b, w))).
        { rewrite node_rect_app, HN. cbn [node_rect]. rewrite En. reflexivity. }
        assert (Hsize : (tree_size b <= fuel)%nat) by (cbn [tree_size] in Hfuel; lia).
        assert (Hcase : cx = CFree \/ cx <> CFree) by (destruct cx; [right|right|left]; congruence).
        destruct Hcase as [->|Hcx].
        * (* invisible *) exact (IH _ _ _ _ CFree fuel HNb Hb I Hsize).
        * destruct (is_single_sub b) eqn:Esub.
          -- (* invisible: the body draws the same outline *)
             replace (match cx with CFree => canon CFree b | _ => canon cx b end) with (canon cx b)
               by (destruct cx; reflexivity).
             apply (IH _ _ _ _ cx fuel HNb Hb); [|exact Hsize].
             assert (Hown : forall rho, In rho (regions (LSub b n false) r c w) -> In rho (regions b r c w)).
             { intros rho Hrho. cbn [regions] in Hrho. rewrite En in Hrho. destruct Hrho as [<-|Hrho]; [|exact Hrho].
               destruct b as [?|?|b' n' show']; try discriminate. simpl in Esub.
               cbn [regions height]. rewrite En, Esub. left. destruct show'; reflexivity. }
             destruct cx; [| |congruence].
             ++ intros rho g Hrho Hin Hpos Hc Hon. apply Hown. apply (Hok rho g); auto.
                cbn [height]. rewrite En. exact Hin.
             ++ intros rho g Hrho Hin Hpos Hc Hon. apply Hown. apply (Hok rho g); auto.
                cbn [height]. rewrite En. exact Hin.
          -- (* visible wrapper *)
             replace (match cx with CFree => canon CFree b | _ => LSub (canon CFree b) 1 false end)
               with (LSub (canon CFree b) 1 false) by (destruct cx; try reflexivity; congruence).
             destruct fuel as [|f]; [simpl in Hfuel; lia|].
             pose proof (lookup_topright pi _ r c _ w HN Hs') as Hl. cbn [topright] in Hl. rewrite En in Hl.
             destruct (topright_kind b (pi ++ [0%nat]) r c w Hb) as [Hout Hnh].
             destruct (topright (pi ++ [0%nat]) b r c w) as [lbl g] eqn:Etr.
             cbn [fst] in Hout, Hnh.
             rewrite (decode_step f cx r c w lbl g Hl Hout (Hnh Esub)).
             destruct (topright_covers b (pi ++ [0%nat]) r c w Hb Hw') as (_ & Hrow & Hcol).
             rewrite Etr in Hrow, Hcol. cbn [snd] in Hrow, Hcol.
             destruct (place_within b (pi ++ [0%nat]) r c w Hb Hw' (lbl, g)) as [Hin _].
             { rewrite <- Etr. apply topright_in. }
             cbn [snd] in Hin.
             rewrite (is_wrapped cx g (r, c, height b, w) Hcx).
             ++ rewrite (IH _ _ _ _ CFree f HNb Hb I) by (cbn [tree_size] in Hfuel; lia). reflexivity.
             ++ apply (regions_sub pi (LSub b n false) r c _ w HN). cbn [regions height]. rewrite En.
                left. reflexivity.
             ++ apply within_inside. exact Hin.
             ++ exact Hrow.
             ++ unfold r_col, r_w; cbn [fst snd]. exact Hcol.
  Qed.

  Lemma wf_nested_of_root :
    (match t with LSub _ n _ => Nat.eqb n 1 = true | _ => True end) -> wf_at false t = true.
  Proof.
    unfold wf in Hwf. destruct t as [ref|ins|b n show]; intros H; try exact Hwf.
    simpl in *. rewrite H in *. apply andb_true_iff in Hwf as [Hn Hb].
    apply andb_true_iff in Hn as [Hn _]. rewrite Hn, Hb. reflexivity.
  Qed.

  Theorem readback_spec : decode_table (S (tree_size t)) (spec_table t) = Some (canon CFree t).
  Proof.
    unfold decode_table. change (t_cells (spec_table t)) with L. cbn [spec_table t_cols].
    assert (Hcase : (match t with LSub _ n _ => Nat.eqb n 1 = true | _ => True end)
                    \/ exists b n show, t = LSub b n show /\ Nat.eqb n 1 = false).
    { destruct t as [ref|ins|b n show]; auto. destruct (Nat.eqb n 1) eqn:E; eauto 6. }
    destruct Hcase as [Hsingle|(b & n & show & Et & En)].
    - pose proof (wf_nested_of_root Hsingle) as Hs.
      assert (HN : node_rect t 0 0 (width t) [] = Some (t, (0, 0, height t, width t))) by reflexivity.
      pose proof (lookup_topright [] t 0 0 _ (width t) HN Hs) as Hl.
      change (0 + width t - 1) with (width t - 1) in Hl. rewrite Hl.
      destruct (topright_kind t [] 0 0 (width t) Hs) as [Hout _].
      destruct (topright [] t 0 0 (width t)) as [lbl g]. rewrite spec_cell_kind. cbn [fst] in *.
      rewrite (decode_ok t [] 0 0 (width t) CFree (S (tree_size t)) HN Hs I) by lia.
      unfold is_outputs in Hout. destruct (fst lbl); try discriminate; reflexivity.
    - assert (Hwfb : wf_at false b = true).
      { unfold wf in Hwf. rewrite Et in Hwf. simpl in Hwf. apply andb_true_iff in Hwf as [_ H]. exact H. }
      destruct (dims_pos b false Hwfb) as [Hh1 Hw1].
      assert (Hout : In ((KOutputs, []), (0, 0 + width b, height b, 1)) (place [] t 0 0 (width t))).
      { rewrite Et. cbn [place]. rewrite En. apply in_or_app. right. left. reflexivity. }
      assert (Hw : width t = width b + 1) by (rewrite Et; cbn [width]; rewrite En; reflexivity).
      rewrite (lookup_placed _ 0 (width t - 1) Hout).
      2:{ unfold rect_covers, r_row, r_col, r_h, r_w; cbn [fst snd]. lia. }
      rewrite spec_cell_kind. cbn [fst].
      assert (HN : node_rect t 0 0 (width t) [0%nat] = Some (b, (0, 0, height b, width b))).
      { rewrite Et. cbn [node_rect]. rewrite En. reflexivity. }
      replace (width t - 1) with (width b) by lia.
      rewrite (decode_ok b [0%nat] 0 0 (width b) CFree (S (tree_size t)) HN Hwfb I).
      + rewrite Et. cbn [canon]. rewrite En. reflexivity.
      + rewrite Et. cbn [tree_size]. lia.
  Qed.
End Readback.

(** ** [decode] never looks at the paths *)
Lemma find_map {A B} (p : B -> bool) (f : A -> B) l :
  find p (map f l) = option_map f (find (fun x => p (f x)) l).
Proof. induction l as [|x l IH]; [reflexivity|]. simpl. destruct (p (f x)); [reflexivity|exact IH]. Qed.

Lemma lookup_erase l r c :
  lookup (map erase_entry l) r c = option_map erase_entry (lookup l r c).
Proof. unfold lookup. rewrite find_map. reflexivity. Qed.

Lemma decode_inputs_ext d1 d2 rend :
  (forall r, d1 r = d2 r) -> forall k r, decode_inputs d1 rend k r = decode_inputs d2 rend k r.
Proof.
  intros H. induction k as [|k IH]; intros r; [reflexivity|].
  cbn [decode_inputs]. destruct (rend <=? r); [reflexivity|]. rewrite H.
  destruct (d2 r) as [[x hx]|]; [|reflexivity]. rewrite IH. reflexivity.
Qed.

Lemma decode_erase : forall fuel l cx r c w,
  decode fuel (map erase_entry l) cx r c w = decode fuel l cx r c w.
Proof.
  induction fuel as [|f IH]; intros l cx r c w; [reflexivity|].
  cbn [decode]. rewrite lookup_erase. destruct (lookup l r (c + w - 1)) as [e|]; [|reflexivity].
  cbn [option_map]. destruct e as [[er ec] [[k p] h w0 bl br bt bb]].
  unfold erase_entry, e_cell, e_col, e_rows, e_row; cbn [fst snd c_label c_rows c_cols c_bl c_br c_bt c_bb].
  rewrite !IH.
  destruct k; try reflexivity.
  all: destruct (match cx with CInput => border_is_sub br | CBelow => border_is_sub bt | CFree => false end);
    try reflexivity.
  rewrite (decode_inputs_ext _ (fun r' => decode f l CInput r' c (ec - c))); [reflexivity|].
  intros r'. apply IH.
Qed.

Theorem readback t :
  wf t = true -> decode_table (S (tree_size t)) (erase (spec_table t)) = Some (canon CFree t).
Proof.
  intros Hwf. rewrite <- (readback_spec t Hwf). unfold decode_table, erase.
  cbn [t_cells t_cols]. rewrite lookup_erase, !decode_erase.
  destruct (lookup (t_cells (spec_table t)) 0 (t_cols (spec_table t) - 1)) as [e|]; [|reflexivity].
  cbn [option_map]. destruct e as [[er ec] [[k p] h w0 bl br bt bb]]. reflexivity.
Qed.

(** [canon] changes nothing in a tree whose single-output sub recipes are all titled (and whose
    multi-output root is written in the normal form the grid cannot distinguish from others). *)
Fixpoint all_titled (t : ltree) : bool :=
  match t with
  | LLeaf _ => true
  | LStep ins => forallb all_titled ins
  | LSub b n show => all_titled b && show && (Nat.eqb n 1 || Nat.eqb n 2)
  end.

Lemma canon_all_titled : forall t cx, all_titled t = true -> canon cx t = t.
Proof.
  induction t as [ref|ins IH|b n show IH] using ltree_ind2; intros cx H.
  - reflexivity.
  - cbn [canon]. f_equal. simpl in H. apply map_id_in. intros x Hx.
    rewrite Forall_forall in IH. rewrite forallb_forall in H. apply IH; auto.
  - simpl in H. apply andb_true_iff in H as [H Hn]. apply andb_true_iff in H as [Hb Hshow].
    subst show. cbn [canon]. destruct (Nat.eqb n 1) eqn:E1.
    + apply Nat.eqb_eq in E1. subst n. rewrite (IH CBelow Hb). reflexivity.
    + simpl in Hn. apply Nat.eqb_eq in Hn. subst n. rewrite (IH CFree Hb). reflexivity.
Qed.

Theorem readback_table t tb :
  wf t = true -> recipe_tree_to_table t = Ok tb ->
  decode_table (S (tree_size t)) (erase tb) = Some (canon CFree t).
Proof.
  intros Hwf E. rewrite (layout_refines_spec t Hwf) in E. inversion E; subst. apply readback. exact Hwf.
Qed.
