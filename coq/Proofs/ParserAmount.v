(** * Amounts and references (C06 round trip, quoted family). *)
From Coq Require Import List ZArith NArith Bool Lia Arith String.
From RG Require Import Base.Str Base.Dec Base.Num Gen.GenUnits Model.Recipe Model.Compiler Model.Parser Model.Printer
  Proofs.DecLemmas Proofs.ParserLex Proofs.ParserName.
From RG Require Model.Units.
Import ListNotations.
Open Scope string_scope.
Open Scope list_scope.
Open Scope N_scope.

(** ** Characters at which the keyword / unit scanners give up immediately *)

(** Not matched (case-insensitively) by "r", "l" or "o": no remainder word
    and no preposition starts here. *)
Definition inert (c : N) : bool :=
  negb (Units.lit_match_with true 114 c) && negb (Units.lit_match_with true 108 c)
  && negb (Units.lit_match_with true 111 c).

Lemma match_ci_lit_head a (w' : str) (c : N) (r : str) :
  Units.lit_match_with true a c = false -> Units.match_ci_lit (a :: w') (c :: r) = None.
Proof. intro H. cbn [Units.match_ci_lit]. rewrite H. reflexivity. Qed.

Lemma sc_remainder_inert (c : N) (r : str) : inert c = true -> sc_remainder (c :: r) = None.
Proof.
  unfold inert. intro H. apply andb_true_iff in H as [H _]. apply andb_true_iff in H as [Hr Hl].
  apply negb_true_iff in Hr, Hl. unfold sc_remainder, sc_left_over.
  change (s "remaining") with (114 :: s "emaining"). change (s "remainder") with (114 :: s "emainder").
  change (s "rest") with (114 :: s "est"). change (s "left") with (108 :: s "eft").
  rewrite !(match_ci_lit_head 114 _ c r Hr), (match_ci_lit_head 108 _ c r Hl). reflexivity.
Qed.

Lemma preposition_inert (c : N) (r : str) : inert c = true -> Units.preposition (c :: r) = None.
Proof.
  unfold inert. intro H. apply andb_true_iff in H as [_ Ho]. apply negb_true_iff in Ho.
  unfold Units.preposition. rewrite (match_ci_lit_head 111 [102] c r Ho). reflexivity.
Qed.

Lemma digit_cases c : is_digit c = true ->
  c = 48 \/ c = 49 \/ c = 50 \/ c = 51 \/ c = 52 \/ c = 53 \/ c = 54 \/ c = 55 \/ c = 56 \/ c = 57.
Proof. unfold is_digit. intro H. apply andb_true_iff in H as [A B]. apply N.leb_le in A, B. lia. Qed.

Lemma digit_inert c : is_digit c = true -> inert c = true.
Proof. intro H. destruct (digit_cases c H) as [->|[->|[->|[->|[->|[->|[->|[->|[->| ->]]]]]]]]]; vm_compute; reflexivity. Qed.

(** The first character of a quoted / braced name, "(", "*", "%". *)
Definition opener (c : N) : Prop := c = 34 \/ c = 39 \/ c = 123.

Lemma opener_inert c : opener c -> inert c = true.
Proof. intros [->|[->| ->]]; vm_compute; reflexivity. Qed.

(** No unit name starts with a quote or a brace. *)
Definition alt_rejects (c : N) (alt : list piece) : bool :=
  match alt with
  | PLit a :: _ => negb (Units.lit_match_with known_unit_ci a c)
  | PWs :: _ => negb (Units.is_ws c)
  | [] => false
  end.

Lemma table_rejects_openers :
  forallb (alt_rejects 34) unit_regex_alts && forallb (alt_rejects 39) unit_regex_alts
  && forallb (alt_rejects 123) unit_regex_alts = true.
Proof. vm_compute. reflexivity. Qed.

Lemma match_pieces_rejected c alt (r : str) : alt_rejects c alt = true ->
  Units.match_pieces known_unit_ci alt (c :: r) = [].
Proof.
  destruct alt as [|[a|] ps]; cbn [alt_rejects]; intro H; [discriminate| |].
  - apply negb_true_iff in H. cbn [Units.match_pieces]. rewrite H. reflexivity.
  - apply negb_true_iff in H. cbn [Units.match_pieces Units.ws_splits]. rewrite H. reflexivity.
Qed.

Lemma known_unit_opener c (r : str) : opener c -> Units.known_unit (c :: r) = None.
Proof.
  intro Hc. unfold Units.known_unit, Units.scan_alts.
  assert (H : forallb (alt_rejects c) unit_regex_alts = true).
  { pose proof table_rejects_openers as T. apply andb_true_iff in T as [T T3]. apply andb_true_iff in T as [T1 T2].
    destruct Hc as [->|[->| ->]]; assumption. }
  assert (E : forall alts, forallb (alt_rejects c) alts = true ->
              flat_map (fun alt => Units.match_pieces known_unit_ci alt (c :: r)) alts = []).
  { induction alts as [|a alts IH]; [reflexivity|]. cbn [forallb flat_map]. intro Ha.
    apply andb_true_iff in Ha as [Ha Hr]. rewrite (match_pieces_rejected c a r Ha), (IH Hr). reflexivity. }
  rewrite (E _ H). reflexivity.
Qed.

Lemma opener_not_hsp c : opener c -> is_hsp c = false.
Proof. intros [->|[->| ->]]; reflexivity. Qed.
Lemma opener_not_digit c : opener c -> is_digit c = false.
Proof. intros [->|[->| ->]]; reflexivity. Qed.

Lemma implicit_tail_opener (w : str) c (r : str) : forallb is_hsp w = true -> opener c ->
  Units.implicit_tail (w ++ c :: r) = None.
Proof.
  intros Hw Hc. unfold Units.implicit_tail, Units.hsp.
  change (Units.span Units.is_hsp) with (span is_hsp).
  rewrite (span_app is_hsp w (c :: r) Hw (opener_not_hsp c Hc)).
  destruct w as [|h w']; cbn [app]; rewrite (known_unit_opener c r Hc); reflexivity.
Qed.

(** ** What follows an amount: horizontal space and a name *)
Lemma int_follow_hsp_then (w : str) c (r : str) : forallb is_hsp w = true ->
  is_hsp c = false -> is_digit c = false -> c <> 46 -> c <> 47 -> int_follow (w ++ c :: r).
Proof.
  intros Hw Hh Hd H46 H47. destruct w as [|h w'].
  - cbn [app int_follow]. rewrite Hh. auto.
  - cbn [forallb] in Hw. apply andb_true_iff in Hw as [Hhh Hw'].
    cbn [app int_follow]. rewrite Hhh.
    change (h :: w' ++ c :: r) with ((h :: w') ++ c :: r).
    rewrite (span_app is_hsp (h :: w') (c :: r)); [exact Hd | cbn [forallb]; rewrite Hhh; exact Hw' | exact Hh].
Qed.

Lemma stops_digit_hsp_then (w : str) c (r : str) : forallb is_hsp w = true -> is_digit c = false ->
  stops is_digit (w ++ c :: r).
Proof.
  intros Hw Hd. destruct w as [|h w']; [exact Hd|]. cbn [forallb] in Hw. apply andb_true_iff in Hw as [Hh _].
  exact (hsp_not_digit h Hh).
Qed.

Lemma num_follow_hsp_then t (w : str) c (r : str) : forallb is_hsp w = true ->
  is_hsp c = false -> is_digit c = false -> c <> 46 -> c <> 47 -> num_follow t (w ++ c :: r).
Proof.
  intros. destruct t; cbn [num_follow]; [apply int_follow_hsp_then; assumption | apply stops_digit_hsp_then; assumption ..].
Qed.

Lemma p_number_text t (r : str) o b : ntext_ok t = true -> num_follow t r ->
  p_number (mkSt (ntext_str t ++ r) o b) = Some (ntext_val t, mkSt r (o + len (ntext_str t)) b).
Proof.
  intros Hok Hf. unfold p_number. cbn [rest]. rewrite (number_roundtrip t r Hok Hf).
  unfold advn. cbn [off bad]. rewrite with_bad_none. reflexivity.
Qed.

Lemma p_number_none (c : N) (r : str) o b : is_digit c = false -> p_number (mkSt (c :: r) o b) = None.
Proof. intro H. unfold p_number. cbn [rest]. rewrite (sc_number_nondigit c r H). reflexivity. Qed.

Lemma sc_hsp_none (c : N) (r : str) : is_hsp c = false -> sc_hsp (c :: r) = None.
Proof.
  intro H. unfold sc_hsp, Units.hsp. cbn [Units.span]. change (Units.is_hsp c) with (is_hsp c). rewrite H. reflexivity.
Qed.

(** [(hsp preposition)?] finds nothing before a character that starts no preposition. *)
Lemma opt_hsp_prep_none (w : str) c (r : str) : forallb is_hsp w = true -> is_hsp c = false -> inert c = true ->
  opt_hsp_prep (w ++ c :: r) = ([], w ++ c :: r).
Proof.
  intros Hw Hh Hi. unfold opt_hsp_prep. destruct w as [|h w'].
  - cbn [app]. rewrite (sc_hsp_none c r Hh). reflexivity.
  - rewrite (sc_hsp_run (h :: w') (c :: r) ltac:(discriminate) Hw Hh), (preposition_inert c r Hi). reflexivity.
Qed.

Lemma eat_hit (c : N) (r : str) o b : eat c (mkSt (c :: r) o b) = Some (mkSt r (N.succ o) b).
Proof. unfold eat. cbn [rest off bad]. rewrite N.eqb_refl. reflexivity. Qed.
Lemma eat_miss (c d : N) (r : str) o b : d <> c -> eat c (mkSt (d :: r) o b) = None.
Proof. intro H. unfold eat. cbn [rest]. apply N.eqb_neq in H. rewrite H. reflexivity. Qed.
Lemma eat_nil c o b : eat c (mkSt [] o b) = None.
Proof. reflexivity. Qed.

Lemma sc_remainder_number t (X : str) : ntext_ok t = true -> sc_remainder (ntext_str t ++ X) = None.
Proof.
  intro Hok. destruct (ntext_head t Hok) as [d [r' [Eh Hd]]]. rewrite Eh. cbn [app].
  apply sc_remainder_inert, digit_inert, Hd.
Qed.

Lemma eat_brace_number t (X : str) o b : ntext_ok t = true -> eat 123 (mkSt (ntext_str t ++ X) o b) = None.
Proof.
  intro Hok. destruct (ntext_head t Hok) as [d [r' [Eh Hd]]]. rewrite Eh. cbn [app].
  apply eat_miss. intro; subst d; discriminate Hd.
Qed.

(** After a number: [hsp preposition] fails before a character that starts no preposition. *)
Lemma no_prep_alt (v : num) (s1 : st) (w : str) c (r : str) :
  forallb is_hsp w = true -> is_hsp c = false -> inert c = true ->
  match sc_hsp (w ++ c :: r) with
  | Some (w1, r1) => match Units.preposition r1 with
                     | Some (p, r'0) => Some (PropVal v false (w1 ++ p), adv s1 (w1 ++ p) r'0)
                     | None => None end
  | None => None end = None.
Proof.
  intros Hw Hch Hci. destruct w as [|h w'].
  - cbn [app]. rewrite (sc_hsp_none c r Hch). reflexivity.
  - rewrite (sc_hsp_run (h :: w') (c :: r) ltac:(discriminate) Hw Hch), (preposition_inert c r Hci). reflexivity.
Qed.

(** ** [p_amount] on a printed amount followed by horizontal space and a name *)
Lemma amount_roundtrip am (w : str) c (r : str) o b fuel :
  amt_ok am = true -> forallb is_hsp w = true -> opener c ->
  p_amount fuel (mkSt (print_amt am ++ w ++ c :: r) o b) =
  Got (amt_val am) (mkSt (w ++ c :: r) (o + len (print_amt am)) b).
Proof.
  intros Hok Hw Hc.
  pose proof (opener_not_hsp c Hc) as Hch. pose proof (opener_not_digit c Hc) as Hcd.
  pose proof (opener_inert c Hc) as Hci.
  assert (Hc46 : c <> 46) by (destruct Hc as [->|[->| ->]]; discriminate).
  assert (Hc47 : c <> 47) by (destruct Hc as [->|[->| ->]]; discriminate).
  assert (Hc37 : c <> 37) by (destruct Hc as [->|[->| ->]]; discriminate).
  assert (Hc42 : c <> 42) by (destruct Hc as [->|[->| ->]]; discriminate).
  destruct am as [t | t w0 | t w0]; cbn [amt_ok print_amt amt_val] in *.
  - (* unit-less quantity *)
    pose proof (num_follow_hsp_then t w c r Hw Hch Hcd Hc46 Hc47) as Hf.
    unfold p_amount, p_proportion. cbn [rest].
    rewrite (sc_remainder_number t _ Hok), (p_number_text t _ o b Hok Hf). cbn [rest].
    rewrite (no_prep_alt _ _ w c r Hw Hch Hci).
    rewrite (skip_hsp_run w (c :: r) _ b Hw Hch).
    rewrite (eat_miss 37 c r _ b Hc37), (eat_miss 42 c r _ b Hc42).
    unfold p_explicit. rewrite (eat_brace_number t _ o b Hok).
    unfold p_implicit. rewrite (p_number_text t _ o b Hok Hf). cbn [rest].
    rewrite (implicit_tail_opener w c r Hw Hc). reflexivity.
  - (* number "*" *)
    apply andb_true_iff in Hok as [Hok Hw0].
    assert (Hf : num_follow t (w0 ++ 42 :: w ++ c :: r))
      by (apply num_follow_hsp_then; [exact Hw0 | reflexivity | reflexivity | discriminate | discriminate]).
    unfold p_amount, p_proportion. cbn [rest]. repeat rewrite <- app_assoc. cbn [app].
    rewrite (sc_remainder_number t _ Hok), (p_number_text t _ o b Hok Hf). cbn [rest].
    rewrite (no_prep_alt _ _ w0 42 _ Hw0 eq_refl eq_refl).
    rewrite (skip_hsp_run w0 (42 :: w ++ c :: r) _ b Hw0 eq_refl).
    rewrite (eat_miss 37 42 _ _ b ltac:(discriminate)), (eat_hit 42 _ _ b).
    f_equal. f_equal. rewrite !len_app, len_cons, len_nil. lia.
  - (* number "%" *)
    apply andb_true_iff in Hok as [Hok Hdiv]. apply andb_true_iff in Hok as [Hok Hw0].
    assert (Hf : num_follow t (w0 ++ 37 :: w ++ c :: r))
      by (apply num_follow_hsp_then; [exact Hw0 | reflexivity | reflexivity | discriminate | discriminate]).
    unfold p_amount, p_proportion. cbn [rest]. repeat rewrite <- app_assoc. cbn [app].
    rewrite (sc_remainder_number t _ Hok), (p_number_text t _ o b Hok Hf). cbn [rest].
    rewrite (no_prep_alt _ _ w0 37 _ Hw0 eq_refl eq_refl).
    rewrite (skip_hsp_run w0 (37 :: w ++ c :: r) _ b Hw0 eq_refl).
    rewrite (eat_hit 37 _ _ b). cbn [rest].
    rewrite (opt_hsp_prep_none w c r Hw Hch Hci). unfold adv_pair, adv. cbn [fst snd off bad].
    unfold percent_of. destruct (ndiv (ntext_val t) (NInt 100)) as [q| |]; try discriminate.
    rewrite with_bad_none.
    f_equal. f_equal. rewrite !len_app, len_cons, !len_nil. lia.
Qed.
