(** * Amounts and references (C06 round trip, quoted family). *)
From Coq Require Import List ZArith NArith Bool Lia Arith String.
From RG Require Import Base.Str Base.Dec Base.Num Gen.GenUnits Model.Recipe Model.Compiler Model.Parser Model.Printer
  Proofs.DecLemmas Proofs.ParserLex Proofs.ParserName.
From RG Require Spec.UnitsRef Proofs.UnitsScan Proofs.UnitsTable Proofs.UnitsTail.
From RG Require Model.Units.
Import ListNotations.
Open Scope string_scope.
Open Scope list_scope.
Open Scope N_scope.

(** ** Characters at which the keyword / unit scanners give up immediately *)

(** Not matched (case-insensitively) by "r", "l" or "o": no remainder word
    and no preposition starts here. *)
Definition inert (c : N) : bool :=
  negb (Units.lit_match_with true 114 c) && negb (Units.lit_match_with true 108 c)
  && negb (Units.lit_match_with true 111 c).

Lemma match_ci_lit_head a (w' : str) (c : N) (r : str) :
  Units.lit_match_with true a c = false -> Units.match_ci_lit (a :: w') (c :: r) = None.
Proof. intro H. cbn [Units.match_ci_lit]. rewrite H. reflexivity. Qed.

Lemma sc_remainder_inert (c : N) (r : str) : inert c = true -> sc_remainder (c :: r) = None.
Proof.
  unfold inert. intro H. apply andb_true_iff in H as [H _]. apply andb_true_iff in H as [Hr Hl].
  apply negb_true_iff in Hr, Hl. unfold sc_remainder, sc_left_over.
  change (s "remaining") with (114 :: s "emaining"). change (s "remainder") with (114 :: s "emainder").
  change (s "rest") with (114 :: s "est"). change (s "left") with (108 :: s "eft").
  rewrite !(match_ci_lit_head 114 _ c r Hr), (match_ci_lit_head 108 _ c r Hl). reflexivity.
Qed.

Lemma preposition_inert (c : N) (r : str) : inert c = true -> Units.preposition (c :: r) = None.
Proof.
  unfold inert. intro H. apply andb_true_iff in H as [_ Ho]. apply negb_true_iff in Ho.
  unfold Units.preposition. rewrite (match_ci_lit_head 111 [102] c r Ho). reflexivity.
Qed.

Lemma digit_cases c : is_digit c = true ->
  c = 48 \/ c = 49 \/ c = 50 \/ c = 51 \/ c = 52 \/ c = 53 \/ c = 54 \/ c = 55 \/ c = 56 \/ c = 57.
Proof. unfold is_digit. intro H. apply andb_true_iff in H as [A B]. apply N.leb_le in A, B. lia. Qed.

Lemma digit_inert c : is_digit c = true -> inert c = true.
Proof. intro H. destruct (digit_cases c H) as [->|[->|[->|[->|[->|[->|[->|[->|[->| ->]]]]]]]]]; vm_compute; reflexivity. Qed.

(** The first character of a quoted / braced name, "(", "*", "%". *)
Definition opener (c : N) : Prop := c = 34 \/ c = 39 \/ c = 123.

Lemma opener_inert c : opener c -> inert c = true.
Proof. intros [->|[->| ->]]; vm_compute; reflexivity. Qed.

(** No unit name starts with a quote or a brace. *)
Definition alt_rejects (c : N) (alt : list piece) : bool :=
  match alt with
  | PLit a :: _ => negb (Units.lit_match_with known_unit_ci a c)
  | PWs :: _ => negb (Units.is_ws c)
  | [] => false
  end.

Lemma table_rejects_openers :
  forallb (alt_rejects 34) unit_regex_alts && forallb (alt_rejects 39) unit_regex_alts
  && forallb (alt_rejects 123) unit_regex_alts = true.
Proof. vm_compute. reflexivity. Qed.

Lemma match_pieces_rejected c alt (r : str) : alt_rejects c alt = true ->
  Units.match_pieces known_unit_ci alt (c :: r) = [].
Proof.
  destruct alt as [|[a|] ps]; cbn [alt_rejects]; intro H; [discriminate| |].
  - apply negb_true_iff in H. cbn [Units.match_pieces]. rewrite H. reflexivity.
  - apply negb_true_iff in H. cbn [Units.match_pieces Units.ws_splits]. rewrite H. reflexivity.
Qed.

Lemma known_unit_opener c (r : str) : opener c -> Units.known_unit (c :: r) = None.
Proof.
  intro Hc. unfold Units.known_unit, Units.scan_alts.
  assert (H : forallb (alt_rejects c) unit_regex_alts = true).
  { pose proof table_rejects_openers as T. apply andb_true_iff in T as [T T3]. apply andb_true_iff in T as [T1 T2].
    destruct Hc as [->|[->| ->]]; assumption. }
  assert (E : forall alts, forallb (alt_rejects c) alts = true ->
              flat_map (fun alt => Units.match_pieces known_unit_ci alt (c :: r)) alts = []).
  { induction alts as [|a alts IH]; [reflexivity|]. cbn [forallb flat_map]. intro Ha.
    apply andb_true_iff in Ha as [Ha Hr]. rewrite (match_pieces_rejected c a r Ha), (IH Hr). reflexivity. }
  rewrite (E _ H). reflexivity.
Qed.

Lemma opener_not_hsp c : opener c -> is_hsp c = false.
Proof. intros [->|[->| ->]]; reflexivity. Qed.
Lemma opener_not_digit c : opener c -> is_digit c = false.
Proof. intros [->|[->| ->]]; reflexivity. Qed.

Lemma implicit_tail_opener (w : str) c (r : str) : forallb is_hsp w = true -> opener c ->
  Units.implicit_tail (w ++ c :: r) = None.
Proof.
  intros Hw Hc. unfold Units.implicit_tail, Units.hsp.
  change (Units.span Units.is_hsp) with (span is_hsp).
  rewrite (span_app is_hsp w (c :: r) Hw (opener_not_hsp c Hc)).
  destruct w as [|h w']; cbn [app]; rewrite (known_unit_opener c r Hc); reflexivity.
Qed.

(** ** What follows an amount: horizontal space and a name *)
Lemma int_follow_hsp_then (w : str) c (r : str) : forallb is_hsp w = true ->
  is_hsp c = false -> is_digit c = false -> c <> 46 -> c <> 47 -> int_follow (w ++ c :: r).
Proof.
  intros Hw Hh Hd H46 H47. destruct w as [|h w'].
  - cbn [app int_follow]. rewrite Hh. auto.
  - cbn [forallb] in Hw. apply andb_true_iff in Hw as [Hhh Hw'].
    cbn [app int_follow]. rewrite Hhh.
    change (h :: w' ++ c :: r) with ((h :: w') ++ c :: r).
    rewrite (span_app is_hsp (h :: w') (c :: r)); [exact Hd | cbn [forallb]; rewrite Hhh; exact Hw' | exact Hh].
Qed.

Lemma stops_digit_hsp_then (w : str) c (r : str) : forallb is_hsp w = true -> is_digit c = false ->
  stops is_digit (w ++ c :: r).
Proof.
  intros Hw Hd. destruct w as [|h w']; [exact Hd|]. cbn [forallb] in Hw. apply andb_true_iff in Hw as [Hh _].
  exact (hsp_not_digit h Hh).
Qed.

Lemma num_follow_hsp_then t (w : str) c (r : str) : forallb is_hsp w = true ->
  is_hsp c = false -> is_digit c = false -> c <> 46 -> c <> 47 -> num_follow t (w ++ c :: r).
Proof.
  intros. destruct t; cbn [num_follow]; [apply int_follow_hsp_then; assumption | apply stops_digit_hsp_then; assumption ..].
Qed.

Lemma p_number_text t (r : str) o b : ntext_ok t = true -> num_follow t r ->
  p_number (mkSt (ntext_str t ++ r) o b) = Some (ntext_val t, mkSt r (o + len (ntext_str t)) b).
Proof.
  intros Hok Hf. unfold p_number. cbn [rest]. rewrite (number_roundtrip t r Hok Hf).
  unfold advn. cbn [off bad]. rewrite with_bad_none. reflexivity.
Qed.

Lemma p_number_none (c : N) (r : str) o b : is_digit c = false -> p_number (mkSt (c :: r) o b) = None.
Proof. intro H. unfold p_number. cbn [rest]. rewrite (sc_number_nondigit c r H). reflexivity. Qed.

Lemma sc_hsp_none (c : N) (r : str) : is_hsp c = false -> sc_hsp (c :: r) = None.
Proof.
  intro H. unfold sc_hsp, Units.hsp. cbn [Units.span]. change (Units.is_hsp c) with (is_hsp c). rewrite H. reflexivity.
Qed.

(** [(hsp preposition)?] finds nothing before a character that starts no preposition. *)
Lemma opt_hsp_prep_none (w : str) c (r : str) : forallb is_hsp w = true -> is_hsp c = false -> inert c = true ->
  opt_hsp_prep (w ++ c :: r) = ([], w ++ c :: r).
Proof.
  intros Hw Hh Hi. unfold opt_hsp_prep. destruct w as [|h w'].
  - cbn [app]. rewrite (sc_hsp_none c r Hh). reflexivity.
  - rewrite (sc_hsp_run (h :: w') (c :: r) ltac:(discriminate) Hw Hh), (preposition_inert c r Hi). reflexivity.
Qed.

Lemma eat_hit (c : N) (r : str) o b : eat c (mkSt (c :: r) o b) = Some (mkSt r (N.succ o) b).
Proof. unfold eat. cbn [rest off bad]. rewrite N.eqb_refl. reflexivity. Qed.
Lemma eat_miss (c d : N) (r : str) o b : d <> c -> eat c (mkSt (d :: r) o b) = None.
Proof. intro H. unfold eat. cbn [rest]. apply N.eqb_neq in H. rewrite H. reflexivity. Qed.
Lemma eat_nil c o b : eat c (mkSt [] o b) = None.
Proof. reflexivity. Qed.

Lemma sc_remainder_number t (X : str) : ntext_ok t = true -> sc_remainder (ntext_str t ++ X) = None.
Proof.
  intro Hok. destruct (ntext_head t Hok) as [d [r' [Eh Hd]]]. rewrite Eh. cbn [app].
  apply sc_remainder_inert, digit_inert, Hd.
Qed.

Lemma eat_brace_number t (X : str) o b : ntext_ok t = true -> eat 123 (mkSt (ntext_str t ++ X) o b) = None.
Proof.
  intro Hok. destruct (ntext_head t Hok) as [d [r' [Eh Hd]]]. rewrite Eh. cbn [app].
  apply eat_miss. intro; subst d; discriminate Hd.
Qed.

(** After a number: [hsp preposition] fails before a character that starts no preposition. *)
Lemma no_prep_alt (v : num) (s1 : st) (w : str) c (r : str) :
  forallb is_hsp w = true -> is_hsp c = false -> Units.preposition (c :: r) = None ->
  match sc_hsp (w ++ c :: r) with
  | Some (w1, r1) => match Units.preposition r1 with
                     | Some (p, r'0) => Some (PropVal v false (w1 ++ p), adv s1 (w1 ++ p) r'0)
                     | None => None end
  | None => None end = None.
Proof.
  intros Hw Hch Hp. destruct w as [|h w'].
  - cbn [app]. rewrite (sc_hsp_none c r Hch). reflexivity.
  - rewrite (sc_hsp_run (h :: w') (c :: r) ltac:(discriminate) Hw Hch), Hp. reflexivity.
Qed.

Lemma opt_hsp_prep_none' (w : str) c (r : str) : forallb is_hsp w = true -> is_hsp c = false ->
  Units.preposition (c :: r) = None -> opt_hsp_prep (w ++ c :: r) = ([], w ++ c :: r).
Proof.
  intros Hw Hh Hp. unfold opt_hsp_prep. destruct w as [|h w'].
  - cbn [app]. rewrite (sc_hsp_none c r Hh). reflexivity.
  - rewrite (sc_hsp_run (h :: w') (c :: r) ltac:(discriminate) Hw Hh), Hp. reflexivity.
Qed.

(** ** Prepositions and units (reusing the C12 lemmas) *)
Lemma ci_wordb_word (w m : str) : ci_wordb w m = true -> UnitsTail.ci_word w m.
Proof.
  unfold ci_wordb, UnitsTail.ci_word. revert m. induction w as [|a w IH]; intros m H; destruct m as [|c m];
    cbn [List.length Nat.eqb combine forallb] in H; try discriminate H.
  - constructor.
  - apply andb_true_iff in H as [Hl H]. cbn [fst snd] in H. apply andb_true_iff in H as [Hac H].
    constructor; [exact Hac|]. apply IH. rewrite Hl, H. reflexivity.
Qed.

Lemma not_word_hsp c : is_hsp c = true -> Units.is_word c = false.
Proof.
  unfold is_hsp, Units.is_hsp. intro H. apply orb_true_iff in H as [H|H]; apply N.eqb_eq in H; subst; vm_compute; reflexivity.
Qed.
Lemma not_word_opener c : opener c -> Units.is_word c = false.
Proof. intros [->|[->| ->]]; vm_compute; reflexivity. Qed.

Lemma boundary_hsp_opener (w : str) c (r : str) : forallb is_hsp w = true -> opener c ->
  UnitsRef.boundary_after (w ++ c :: r).
Proof.
  intros Hw Hc. destruct w as [|h w']; cbn [app UnitsRef.boundary_after].
  - exact (not_word_opener c Hc).
  - cbn [forallb] in Hw. apply andb_true_iff in Hw as [Hh _]. exact (not_word_hsp h Hh).
Qed.

Lemma ci_head_not_hsp a (w o : str) : UnitsTail.ci_word (a :: w) o ->
  (forall c, Units.lit_match_with true a c = true -> is_hsp c = false) -> stops is_hsp o.
Proof. intros H Ha. inversion H as [|a' c w' m Hac _]; subst. cbn [stops]. exact (Ha c Hac). Qed.

Lemma o_class_not_hsp c : Units.lit_match_with true 111 c = true -> is_hsp c = false.
Proof.
  intro H. destruct (is_hsp c) eqn:E; [|reflexivity]. unfold is_hsp, Units.is_hsp in E.
  apply orb_true_iff in E as [E|E]; apply N.eqb_eq in E; subst c; vm_compute in H; discriminate H.
Qed.

Lemma pword_head pw (X : str) : pword_ok pw = true -> stops is_hsp (pword_str pw ++ X).
Proof.
  intro H. assert (Ho : exists o rest', pword_str pw = o ++ rest' /\ UnitsTail.ci_word [111; 102] o).
  { destruct pw as [o | o w2 th]; cbn [pword_ok pword_str] in *.
    - exists o, []. rewrite app_nil_r. split; [reflexivity | exact (ci_wordb_word _ _ H)].
    - do 3 (apply andb_true_iff in H as [H _]). exists o, (w2 ++ th). split; [reflexivity | exact (ci_wordb_word _ _ H)]. }
  destruct Ho as [o [rest' [E Hw]]]. rewrite E. inversion Hw as [|a c w' m Hac _]; subst. cbn [app stops].
  exact (o_class_not_hsp c Hac).
Qed.

Lemma the_fails_at_opener c (r : str) : opener c -> Units.match_ci_lit [116; 104; 101] (c :: r) = None.
Proof. intro Hc. apply match_ci_lit_head. destruct Hc as [->|[->| ->]]; vm_compute; reflexivity. Qed.

Lemma of_classes_word : forallb (fun a => forallb Units.is_word (Units.ci_class a)) [111; 102] = true.
Proof. vm_compute. reflexivity. Qed.

(** What the amount scanners need to know about the text [w ++ c :: r] that follows an amount. *)
Record fol (w : str) (c : N) (r : str) : Prop := mkFol {
  f_hsp : is_hsp c = false;
  f_dig : is_digit c = false;
  f_46 : c <> 46; f_47 : c <> 47; f_37 : c <> 37; f_42 : c <> 42;
  f_prep : Units.preposition (c :: r) = None;
  f_the : with_boundary (Units.match_ci_lit [116; 104; 101] (c :: r)) = None;
  f_unit : Units.known_unit (c :: r) = None }.

Lemma pword_prep pw (w : str) c (r : str) : pword_ok pw = true -> forallb is_hsp w = true -> fol w c r ->
  UnitsRef.boundary_after (w ++ c :: r) ->
  Units.preposition (pword_str pw ++ w ++ c :: r) = Some (pword_str pw, w ++ c :: r).
Proof.
  intros Hok Hw F Hb.
  destruct pw as [o | o w2 th]; cbn [pword_ok pword_str] in *.
  - pose proof (ci_wordb_word _ _ Hok) as Wo. unfold Units.preposition.
    rewrite (UnitsTail.match_ci_lit_complete _ _ Wo _).
    assert (Hthe : match Units.hsp (w ++ c :: r) with
                   | Some (w0, r2) =>
                       match Units.match_ci_lit [116; 104; 101] r2 with
                       | Some (m2, r3) => if Units.word_boundary (Units.last_opt m2) (hd_error r3) then Some (o ++ w0 ++ m2, r3) else None
                       | None => None
                       end
                   | None => None
                   end = None).
    { destruct w as [|h w'].
      - cbn [app]. pose proof (sc_hsp_none c r (f_hsp _ _ _ F)) as E. unfold sc_hsp in E. rewrite E. reflexivity.
      - pose proof (sc_hsp_run (h :: w') (c :: r) ltac:(discriminate) Hw (f_hsp _ _ _ F)) as E. unfold sc_hsp in E. rewrite E.
        pose proof (f_the _ _ _ F) as T. unfold with_boundary, word_end_ok in T.
        destruct (Units.match_ci_lit [116; 104; 101] (c :: r)) as [[m2 r3]|]; [|reflexivity].
        destruct (Units.word_boundary (Units.last_opt m2) (hd_error r3)); [discriminate T | reflexivity]. }
    rewrite Hthe.
    destruct (UnitsTail.ci_word_last_word _ _ Wo ltac:(discriminate) of_classes_word) as [c0 [Ec Wc]].
    assert (Hbd : Units.word_boundary (Units.last_opt o) (hd_error (w ++ c :: r)) = true).
    { rewrite Ec. unfold Units.word_boundary, Units.opt_word. rewrite Wc. destruct (w ++ c :: r) as [|c' t']; [reflexivity|].
      cbn [hd_error]. cbn [UnitsRef.boundary_after] in Hb. rewrite Hb. reflexivity. }
    rewrite Hbd. reflexivity.
  - apply andb_true_iff in Hok as [Hok Hth]. apply andb_true_iff in Hok as [Hok Hne]. apply andb_true_iff in Hok as [Ho Hw2].
    assert (Hn2 : w2 <> []) by (destruct w2; [discriminate Hne | discriminate]).
    destruct (UnitsTail.preposition_of_the [32] o w2 th (w ++ c :: r) eq_refl ltac:(discriminate) (ci_wordb_word _ _ Ho) Hw2 Hn2
                (ci_wordb_word _ _ Hth) Hb) as [_ P].
    repeat rewrite <- app_assoc. exact P.
Qed.

Lemma boundary_hsp_then (w : str) c (r : str) : forallb is_hsp w = true -> w <> [] -> UnitsRef.boundary_after (w ++ c :: r).
Proof.
  intros Hw Hn. destruct w as [|h w']; [contradiction|]. cbn [app UnitsRef.boundary_after].
  cbn [forallb] in Hw. apply andb_true_iff in Hw as [Hh _]. exact (not_word_hsp h Hh).
Qed.

(** [(hsp preposition)?] on a printed optional preposition. *)
Lemma oprep_roundtrip p (w : str) c (r : str) : oprep_ok p = true -> forallb is_hsp w = true -> fol w c r ->
  (p <> None -> UnitsRef.boundary_after (w ++ c :: r)) ->
  opt_hsp_prep (oprep_str p ++ w ++ c :: r) = (oprep_str p, w ++ c :: r).
Proof.
  intros Hok Hw F Hb. destruct p as [[w' pw]|]; cbn [oprep_ok oprep_str] in *.
  - apply andb_true_iff in Hok as [Hok Hpw]. apply andb_true_iff in Hok as [Hw' Hne].
    assert (Hn : w' <> []) by (destruct w'; [discriminate Hne | discriminate]).
    unfold opt_hsp_prep. repeat rewrite <- app_assoc.
    rewrite (sc_hsp_run w' _ Hn Hw' (pword_head pw _ Hpw)), (pword_prep pw w c r Hpw Hw F (Hb ltac:(discriminate))). reflexivity.
  - cbn [app]. exact (opt_hsp_prep_none' w c r Hw (f_hsp _ _ _ F) (f_prep _ _ _ F)).
Qed.

Lemma unit_ok_spelled n v : unit_ok n v = true -> In n Units.all_names /\ UnitsRef.spelled n v.
Proof.
  unfold unit_ok. intro H. do 2 (apply andb_true_iff in H as [H _]). apply andb_true_iff in H as [Hm He]. split.
  - unfold Units.str_mem in Hm. apply existsb_exists in Hm as [x [Hx E]]. apply str_eqb_eq in E. subst. exact Hx.
  - apply existsb_exists in He as [[m r] [Hin E]]. cbn [fst snd] in E. apply andb_true_iff in E as [Hr Hv].
    destruct r; [|discriminate Hr]. apply str_eqb_eq in Hv. subst m.
    destruct (UnitsScan.match_pieces_sound _ _ _ _ Hin) as [_ M]. exact M.
Qed.

Lemma unit_ok_head n v : unit_ok n v = true ->
  exists c t, v = c :: t /\ is_digit c = false /\ c <> 46 /\ c <> 47 /\ is_hsp c = false /\ c <> 37 /\ c <> 42.
Proof.
  unfold unit_ok. intro H. apply andb_true_iff in H as [H _]. apply andb_true_iff in H as [_ H].
  destruct v as [|c t]; [discriminate H|]. exists c, t.
  repeat (apply andb_true_iff in H as [H ?H]). apply negb_true_iff in H, H0, H1, H2, H3, H4.
  apply N.eqb_neq in H0, H1, H3, H4. repeat split; assumption.
Qed.

Lemma unit_not_prep n v (X : str) : unit_ok n v = true -> Units.preposition (v ++ X) = None.
Proof.
  unfold unit_ok. intro H. apply andb_true_iff in H as [_ H]. unfold Units.preposition.
  destruct v as [|c1 [|c2 t]]; [discriminate H | |]; cbn [app Units.match_ci_lit]; unfold lm in H.
  - apply negb_true_iff in H. rewrite H. reflexivity.
  - apply negb_true_iff in H. apply andb_false_iff in H as [H|H]; rewrite H; [reflexivity|].
    destruct (Units.lit_match_with true 111 c1); reflexivity.
Qed.

(** The unit, the spacing before it and the preposition after it are recovered. *)
Lemma implicit_tail_unit sp n v p (w : str) c (r : str) :
  forallb is_hsp sp = true -> unit_ok n v = true -> oprep_ok p = true -> forallb is_hsp w = true -> fol w c r ->
  UnitsRef.boundary_after (w ++ c :: r) ->
  Units.implicit_tail (sp ++ v ++ oprep_str p ++ w ++ c :: r) = Some (sp, v, oprep_str p, w ++ c :: r).
Proof.
  intros Hsp Hu Hp Hw F Hbw. destruct (unit_ok_spelled n v Hu) as [Hn Hs].
  destruct (unit_ok_head n v Hu) as [c0 [t0 [Ev [_ [_ [_ [Hh _]]]]]]].
  assert (Hb : UnitsRef.boundary_after (oprep_str p ++ w ++ c :: r)).
  { destruct p as [[w' pw]|]; cbn [oprep_str].
    - cbn [oprep_ok] in Hp. apply andb_true_iff in Hp as [Hp _]. apply andb_true_iff in Hp as [Hw' Hne].
      destruct w' as [|h w'']; [discriminate Hne|]. cbn [app UnitsRef.boundary_after]. cbn [hsp_run forallb] in Hw'.
      apply andb_true_iff in Hw' as [Hh' _]. exact (not_word_hsp h Hh').
    - cbn [app]. exact Hbw. }
  pose proof (UnitsTable.every_name_recognised n v _ Hn Hs Hb) as Hk.
  unfold Units.implicit_tail.
  assert (Hstop : stops is_hsp (v ++ oprep_str p ++ w ++ c :: r)) by (rewrite Ev; exact Hh).
  assert (Hh1 : Units.hsp (v ++ oprep_str p ++ w ++ c :: r) = None).
  { rewrite Ev. cbn [app]. exact (sc_hsp_none c0 _ Hh). }
  assert (Htail : match Units.hsp (oprep_str p ++ w ++ c :: r) with
                  | Some (w0, r3) =>
                      match Units.preposition r3 with
                      | Some (p3, r4) => Some (sp, v, w0 ++ p3, r4)
                      | None => Some (sp, v, [], oprep_str p ++ w ++ c :: r)
                      end
                  | None => Some (sp, v, [], oprep_str p ++ w ++ c :: r)
                  end = Some (sp, v, oprep_str p, w ++ c :: r)).
  { pose proof (oprep_roundtrip p w c r Hp Hw F (fun _ => Hbw)) as Ho. unfold opt_hsp_prep, sc_hsp in Ho.
    destruct (Units.hsp (oprep_str p ++ w ++ c :: r)) as [[w1 r2]|] eqn:Eh.
    - destruct (Units.preposition r2) as [[p1 r3]|] eqn:Ep; inversion Ho as [[Ha Hb']].
      + reflexivity.
      + reflexivity.
    - inversion Ho as [[Ha Hb']]. reflexivity. }
  destruct sp as [|h sp'].
  - cbn [app]. rewrite Hh1, Hk. exact Htail.
  - pose proof (sc_hsp_run (h :: sp') _ ltac:(discriminate) Hsp Hstop) as E. unfold sc_hsp in E. rewrite E, Hk.
    exact Htail.
Qed.

(** ** Remainder words *)
Definition disjointb (a2 a1 : N) : bool :=
  forallb (fun x => negb (Units.lit_match_with true a1 x)) (Units.ci_class a2).

Lemma disjoint_spec a2 a1 c : disjointb a2 a1 = true -> Units.lit_match_with true a2 c = true ->
  Units.lit_match_with true a1 c = false.
Proof.
  unfold disjointb. intros D H. unfold Units.lit_match_with in H at 1. apply UnitsScan.memN_In in H.
  rewrite forallb_forall in D. specialize (D c H). apply negb_true_iff in D. exact D.
Qed.

Fixpoint mismatchb (w1 w2 : str) : bool :=
  match w1, w2 with
  | a1 :: t1, a2 :: t2 => disjointb a2 a1 || mismatchb t1 t2
  | _, _ => false
  end.

Lemma match_ci_lit_mismatch : forall (w1 w2 m X : str), UnitsTail.ci_word w2 m -> mismatchb w1 w2 = true ->
  Units.match_ci_lit w1 (m ++ X) = None.
Proof.
  induction w1 as [|a1 t1 IH]; intros w2 m X Hw Hm; [discriminate Hm|].
  destruct Hw as [|a2 c t2 m' Hac Hw']; [discriminate Hm|]. cbn [mismatchb] in Hm. cbn [app Units.match_ci_lit].
  destruct (Units.lit_match_with true a1 c) eqn:E; [|reflexivity].
  apply orb_true_iff in Hm as [D|Hm].
  - rewrite (disjoint_spec a2 a1 c D Hac) in E. discriminate E.
  - rewrite (IH t2 m' X Hw' Hm). reflexivity.
Qed.

Lemma word_end_lemma (m X : str) : (exists c, Units.last_opt m = Some c /\ Units.is_word c = true) ->
  UnitsRef.boundary_after X -> word_end_ok m X = true.
Proof.
  intros [c [E W]] Hb. unfold word_end_ok, Units.word_boundary, Units.opt_word. rewrite E, W.
  destruct X as [|c' t]; [reflexivity|]. cbn [hd_error]. cbn [UnitsRef.boundary_after] in Hb. rewrite Hb. reflexivity.
Qed.

Lemma rem_classes_word :
  forallb (fun a => forallb Units.is_word (Units.ci_class a)) (s "remaining") = true /\
  forallb (fun a => forallb Units.is_word (Units.ci_class a)) (s "remainder") = true /\
  forallb (fun a => forallb Units.is_word (Units.ci_class a)) (s "rest") = true /\
  forallb (fun a => forallb Units.is_word (Units.ci_class a)) (s "over") = true.
Proof. vm_compute. repeat split; reflexivity. Qed.

Lemma rem_mismatches :
  mismatchb (s "remaining") (s "remainder") = true /\ mismatchb (s "remaining") (s "rest") = true /\
  mismatchb (s "remainder") (s "rest") = true /\ mismatchb (s "remaining") (s "left") = true /\
  mismatchb (s "remainder") (s "left") = true /\ mismatchb (s "rest") (s "left") = true.
Proof. vm_compute. repeat split; reflexivity. Qed.

Lemma last_opt_app_nonempty (x y : str) : y <> [] -> Units.last_opt (x ++ y) = Units.last_opt y.
Proof. apply UnitsScan.last_opt_app. Qed.

Lemma sc_remainder_word rw (X : str) : rword_ok rw = true -> UnitsRef.boundary_after X ->
  sc_remainder (rword_str rw ++ X) = Some (rword_str rw, X).
Proof.
  intros Hok Hb. destruct rem_classes_word as [C0 [C1 [C2 C3]]]. destruct rem_mismatches as [M01 [M02 [M12 [M0l [M1l M2l]]]]].
  unfold sc_remainder, first_some, with_boundary.
  destruct rw as [k m | l w o]; cbn [rword_ok rword_str] in *.
  - apply andb_true_iff in Hok as [Hk Hw]. pose proof (ci_wordb_word _ _ Hw) as W.
    destruct k as [|[|[|k]]]; [| | |discriminate Hk]; cbn [rword_target] in *.
    + rewrite (UnitsTail.match_ci_lit_complete _ _ W X).
      rewrite (word_end_lemma m X (UnitsTail.ci_word_last_word _ _ W ltac:(discriminate) C0) Hb). reflexivity.
    + rewrite (match_ci_lit_mismatch _ _ m X W M01).
      rewrite (UnitsTail.match_ci_lit_complete _ _ W X).
      rewrite (word_end_lemma m X (UnitsTail.ci_word_last_word _ _ W ltac:(discriminate) C1) Hb). reflexivity.
    + rewrite (match_ci_lit_mismatch _ _ m X W M02), (match_ci_lit_mismatch _ _ m X W M12).
      rewrite (UnitsTail.match_ci_lit_complete _ _ W X).
      rewrite (word_end_lemma m X (UnitsTail.ci_word_last_word _ _ W ltac:(discriminate) C2) Hb). reflexivity.
  - apply andb_true_iff in Hok as [Hok Ho]. apply andb_true_iff in Hok as [Hl Hw].
    pose proof (ci_wordb_word _ _ Hl) as Wl. pose proof (ci_wordb_word _ _ Ho) as Wo.
    repeat rewrite <- app_assoc.
    rewrite (match_ci_lit_mismatch _ _ l _ Wl M0l), (match_ci_lit_mismatch _ _ l _ Wl M1l), (match_ci_lit_mismatch _ _ l _ Wl M2l).
    unfold sc_left_over. rewrite (UnitsTail.match_ci_lit_complete _ _ Wl _).
    assert (Hstop : stops is_hsp (o ++ X)).
    { inversion Wo as [|a c w' m' Hac _]; subst. cbn [app stops]. exact (o_class_not_hsp c Hac). }
    rewrite (ParserLex.span_app is_hsp w (o ++ X) Hw Hstop), (UnitsTail.match_ci_lit_complete _ _ Wo X).
    assert (Hlast : exists c, Units.last_opt (l ++ w ++ o) = Some c /\ Units.is_word c = true).
    { assert (Hne : o <> []) by (inversion Wo; discriminate).
      rewrite app_assoc, (last_opt_app_nonempty _ o Hne).
      exact (UnitsTail.ci_word_last_word _ _ Wo ltac:(discriminate) C3). }
    rewrite (word_end_lemma _ X Hlast Hb). reflexivity.
Qed.

Lemma forallb_impl {A} (p q : A -> bool) l : (forall x, p x = true -> q x = true) -> forallb p l = true -> forallb q l = true.
Proof.
  intros Hpq. induction l as [|x l IH]; [reflexivity|]. cbn [forallb]. intro H. apply andb_true_iff in H as [Hx Hl].
  rewrite (Hpq x Hx), (IH Hl). reflexivity.
Qed.

(** ** Explicit quantities *)
Lemma print_chars_raw raw_ok (x : str) : forallb raw_ok x = true -> print_chars raw_ok [] x = x.
Proof.
  induction x as [|c x IH]; [reflexivity|]. cbn [forallb print_chars hd tl]. intro H. apply andb_true_iff in H as [Hc Hx].
  unfold print_char. rewrite Hc, (IH Hx). reflexivity.
Qed.

Lemma p_static_quoted q (x k : str) fuel o b : (q = 34 \/ q = 39) -> forallb (raw_ok_q q) x = true ->
  name_followb k = true -> (2 <= fuel)%nat ->
  p_static fuel (mkSt (q :: x ++ q :: k) o b) = Got x (mkSt k (o + (2 + len x)) b).
Proof.
  intros Hq Hx Hk Hf. destruct fuel as [|[|f]]; [lia|lia|]. unfold p_static. rewrite p_string_unfold.
  pose proof (quoted_roundtrip q [] x k o b (S f) false Hq) as Q. unfold print_quoted in Q.
  rewrite (print_chars_raw _ x Hx) in Q. cbn [app] in Q. rewrite <- app_assoc in Q. cbn [app] in Q. rewrite Q.
  rewrite (p_string_stops k _ b f false Hk). cbn [parts_text flat_map]. rewrite app_nil_r.
  f_equal. f_equal. repeat (rewrite len_cons || rewrite len_app || rewrite len_nil). lia.
Qed.

Lemma p_static_fails_at (c : N) (r : str) fuel o b : seg_start c = false -> (1 <= fuel)%nat ->
  p_static fuel (mkSt (c :: r) o b) = Fail.
Proof.
  intros Hc Hf. destruct fuel as [|f]; [lia|]. unfold p_static. rewrite p_string_unfold.
  rewrite (p_segment_fails (c :: r) o b f false Hc). reflexivity.
Qed.

Lemma quote_facts q : (q =? 34) || (q =? 39) = true ->
  (q = 34 \/ q = 39) /\ is_hsp q = false /\ is_digit q = false /\ q <> 46 /\ q <> 47.
Proof. intro H. apply orb_true_iff in H as [H|H]; apply N.eqb_eq in H; subst; repeat split; auto; discriminate. Qed.

(** ** [p_amount] on a printed amount followed by horizontal space and a name *)
Lemma amt_ok_parts am : amt_ok am = true -> lead_ok am = true /\ tail_text_ok (amt_tail am) = true.
Proof. unfold amt_ok. intro H. apply andb_true_iff in H as [H _]. apply andb_true_iff in H. exact H. Qed.

Lemma oprep_boundary p (w : str) c (r : str) : oprep_ok p = true -> forallb is_hsp w = true ->
  UnitsRef.boundary_after (w ++ c :: r) -> UnitsRef.boundary_after (oprep_str p ++ w ++ c :: r).
Proof.
  intros Hp Hw Hb. destruct p as [[w' pw]|]; cbn [oprep_str].
  - cbn [oprep_ok] in Hp. apply andb_true_iff in Hp as [Hp _]. apply andb_true_iff in Hp as [Hw' Hne].
    destruct w' as [|h w'']; [discriminate Hne|]. cbn [app UnitsRef.boundary_after]. cbn [hsp_run forallb] in Hw'.
    apply andb_true_iff in Hw' as [Hh' _]. exact (not_word_hsp h Hh').
  - cbn [app]. exact Hb.
Qed.

Lemma opener_fol (w : str) c (r : str) : opener c -> fol w c r.
Proof.
  intro Hc. constructor.
  - exact (opener_not_hsp c Hc).
  - exact (opener_not_digit c Hc).
  - destruct Hc as [->|[->| ->]]; discriminate.
  - destruct Hc as [->|[->| ->]]; discriminate.
  - destruct Hc as [->|[->| ->]]; discriminate.
  - destruct Hc as [->|[->| ->]]; discriminate.
  - exact (preposition_inert c r (opener_inert c Hc)).
  - rewrite (the_fails_at_opener c r Hc). reflexivity.
  - exact (known_unit_opener c r Hc).
Qed.

Lemma implicit_tail_none (w : str) c (r : str) : forallb is_hsp w = true -> is_hsp c = false ->
  Units.known_unit (c :: r) = None -> Units.implicit_tail (w ++ c :: r) = None.
Proof.
  intros Hw Hc Hk. unfold Units.implicit_tail, Units.hsp.
  change (Units.span Units.is_hsp) with (span is_hsp).
  rewrite (ParserLex.span_app is_hsp w (c :: r) Hw Hc).
  destruct w as [|h w']; cbn [app]; rewrite Hk; reflexivity.
Qed.

Lemma hsp_raw_ok_b (w : str) : forallb is_hsp w = true -> forallb raw_ok_b w = true.
Proof.
  apply forallb_impl. intros x H. unfold is_hsp, Units.is_hsp in H.
  apply orb_true_iff in H as [H|H]; apply N.eqb_eq in H; subst; reflexivity.
Qed.

Definition unit_okb (u : option (str * name)) : bool :=
  match u with
  | Some (sp, un) => hsp_run sp && name_ok un && static_name un && forallb raw_ok_b (print_name un)
  | None => true
  end.

Lemma unit_text_raw u (w1 : str) : unit_okb u = true -> hsp_run w1 = true -> forallb raw_ok_b (unit_text u ++ w1) = true.
Proof.
  intros Hu Hw1. rewrite forallb_app. apply andb_true_iff. split; [|exact (hsp_raw_ok_b w1 Hw1)].
  destruct u as [[sp un]|]; [|reflexivity]. cbn [unit_okb unit_text] in *.
  apply andb_true_iff in Hu as [Hu Hx]. apply andb_true_iff in Hu as [Hu _]. apply andb_true_iff in Hu as [Hsp _].
  rewrite forallb_app. apply andb_true_iff. split; [exact (hsp_raw_ok_b sp Hsp) | exact Hx].
Qed.

Lemma explicit_print t w0 u w1 :
  hsp_run w0 = true -> hsp_run w1 = true -> unit_okb u = true ->
  print_bparts (explicit_bparts t w0 u w1) = w0 ++ ntext_str t ++ unit_text u ++ w1.
Proof.
  intros Hw0 Hw1 Hu. pose proof (unit_text_raw u w1 Hu Hw1) as HT.
  unfold explicit_bparts, print_bparts. rewrite flat_map_app. cbn [flat_map print_bpart].
  assert (E0 : flat_map print_bpart (match w0 with [] => [] | _ :: _ => [BStr w0 []] end) = w0).
  { destruct w0 as [|h w0']; [reflexivity|]. cbn [flat_map print_bpart]. rewrite app_nil_r.
    exact (print_chars_raw raw_ok_b _ (hsp_raw_ok_b _ Hw0)). }
  rewrite E0. f_equal. f_equal.
  destruct (unit_text u ++ w1) as [|h T'] eqn:ET; [reflexivity|]. cbn [flat_map print_bpart]. rewrite app_nil_r.
  exact (print_chars_raw raw_ok_b _ HT).
Qed.

(** What follows the number of an explicit quantity lets the number end there. *)
Lemma explicit_follow t w0 u w1 (X : str) :
  hsp_run w1 = true -> unit_okb u = true -> bparts_ok (explicit_bparts t w0 u w1) = true ->
  num_follow t (unit_text u ++ w1 ++ 125 :: X).
Proof.
  intros Hw1 Hu Hbp. pose proof (unit_text_raw u w1 Hu Hw1) as HT.
  assert (Hb : bparts_ok (BNum t :: match unit_text u ++ w1 with [] => [] | T => [BStr T []] end) = true).
  { unfold explicit_bparts in Hbp. destruct w0 as [|h w0']; cbn [app] in Hbp; [exact Hbp|].
    cbn [bparts_ok] in Hbp. apply andb_true_iff in Hbp as [_ Hbp]. exact Hbp. }
  cbn [bparts_ok] in Hb. apply andb_true_iff in Hb as [Hb _]. apply andb_true_iff in Hb as [_ Hb].
  assert (E : print_bparts (match unit_text u ++ w1 with [] => [] | T => [BStr T []] end) = unit_text u ++ w1).
  { destruct (unit_text u ++ w1) as [|h T'] eqn:ET; [reflexivity|]. unfold print_bparts. cbn [flat_map print_bpart]. rewrite app_nil_r.
    exact (print_chars_raw raw_ok_b _ HT). }
  rewrite E in Hb. rewrite (num_followb_ext t (unit_text u ++ w1) 125 X eq_refl) in Hb.
  rewrite <- app_assoc in Hb. exact (num_followb_follow _ _ Hb).
Qed.

Lemma explicit_unit_cost t w0 sp un w1 p :
  name_ok un = true -> (name_cost un <= amt_cost (AmExplicit t w0 (Some (sp, un)) w1 p))%nat.
Proof.
  intro Hun. pose proof (name_cost_len un Hun) as Hl. cbn [amt_cost seg_cost]. unfold explicit_bparts.
  rewrite fold_right_app. cbn [unit_text].
  generalize dependent (name_cost un). intros n Hl.
  assert (Hz : forall (l : list bpart) (a : nat), (a <= fold_right (fun (b : bpart) (n : nat) => (match b with BStr x _ => List.length x | BNum _ => 1 end + n)%nat) a l)%nat).
  { induction l as [|b0 l IHl]; intro a; cbn [fold_right]; [lia | specialize (IHl a); lia]. }
  match goal with |- (_ <= S (S (fold_right ?f ?a ?l)))%nat => pose proof (Hz l a) as Hza; set (A := a) in *; set (Z := fold_right f A l) in * end.
  assert (HA : (List.length (print_name un) <= A)%nat).
  { subst A. destruct ((sp ++ print_name un) ++ w1) as [|h T'] eqn:ET.
    - apply (f_equal (@List.length N)) in ET. rewrite !app_length in ET. cbn [List.length] in ET. lia.
    - rewrite <- ET. cbn [fold_right]. rewrite !app_length. lia. }
  clearbody Z A. lia.
Qed.

Lemma amount_roundtrip am (w : str) c (r : str) o b fuel :
  amt_ok am = true -> forallb is_hsp w = true -> fol w c r ->
  (needs_bnd am = true -> UnitsRef.boundary_after (w ++ c :: r)) -> (2 <= fuel)%nat -> (amt_cost am <= fuel)%nat ->
  p_amount fuel (mkSt (print_amt am ++ w ++ c :: r) o b) =
  Got (amt_val am) (mkSt (w ++ c :: r) (o + len (print_amt am)) b).
Proof.
  intros Hok Hw Hc Hbnd Hfuel Hcost.
  pose proof (f_hsp _ _ _ Hc) as Hch. pose proof (f_dig _ _ _ Hc) as Hcd.
  pose proof (f_prep _ _ _ Hc) as Hci.
  pose proof (f_46 _ _ _ Hc) as Hc46. pose proof (f_47 _ _ _ Hc) as Hc47.
  pose proof (f_37 _ _ _ Hc) as Hc37. pose proof (f_42 _ _ _ Hc) as Hc42.
  destruct (amt_ok_parts am Hok) as [Hnum _]. unfold amt_ok in Hok. apply andb_true_iff in Hok as [_ Hok].
  unfold print_amt.
  destruct am as [rw p | t | t sp n v p | t w0 pw | t w0 p | t w0 | t w0 u w1 p]; cbn [amt_lead lead_ok amt_num amt_tail amt_val] in *.
  - (* remainder word [preposition] *)
    apply andb_true_iff in Hnum as [Hrw _].
    unfold p_amount, p_proportion. cbn [rest]. repeat rewrite <- app_assoc.
    rewrite (sc_remainder_word rw _ Hrw (oprep_boundary p w c r Hok Hw (Hbnd eq_refl))). unfold adv_pair, adv. cbn [rest off bad].
    rewrite (oprep_roundtrip p w c r Hok Hw Hc (fun _ => Hbnd eq_refl)). cbn [fst snd].
    f_equal. f_equal. repeat rewrite len_app. lia.
  - (* unit-less quantity *)
    rewrite app_nil_r.
    pose proof (num_follow_hsp_then t w c r Hw Hch Hcd Hc46 Hc47) as Hf.
    unfold p_amount, p_proportion. cbn [rest].
    rewrite (sc_remainder_number t _ Hnum), (p_number_text t _ o b Hnum Hf). cbn [rest].
    rewrite (no_prep_alt _ _ w c r Hw Hch Hci).
    rewrite (skip_hsp_run w (c :: r) _ b Hw Hch).
    rewrite (eat_miss 37 c r _ b Hc37), (eat_miss 42 c r _ b Hc42).
    unfold p_explicit. rewrite (eat_brace_number t _ o b Hnum).
    unfold p_implicit. rewrite (p_number_text t _ o b Hnum Hf). cbn [rest].
    rewrite (implicit_tail_none w c r Hw Hch (f_unit _ _ _ Hc)). reflexivity.
  - (* number unit [preposition] *)
    apply andb_true_iff in Hok as [Hok Hp]. apply andb_true_iff in Hok as [Hsp Hu].
    destruct (unit_ok_head n v Hu) as [c0 [t0 [Ev [Hd0 [H46 [H47 [Hh0 [H37 H42]]]]]]]].
    assert (Hf : num_follow t (sp ++ v ++ oprep_str p ++ w ++ c :: r))
      by (rewrite Ev; cbn [app]; apply num_follow_hsp_then; assumption).
    unfold p_amount, p_proportion. cbn [rest]. repeat rewrite <- app_assoc.
    rewrite (sc_remainder_number t _ Hnum), (p_number_text t _ o b Hnum Hf). cbn [rest].
    (* hsp preposition: the unit is not a preposition *)
    assert (A1 : match sc_hsp (sp ++ v ++ oprep_str p ++ w ++ c :: r) with
                 | Some (w1, r1) => match Units.preposition r1 with
                                    | Some (p0, r'0) => Some (PropVal (ntext_val t) false (w1 ++ p0),
                                        adv (mkSt (sp ++ v ++ oprep_str p ++ w ++ c :: r) (o + len (ntext_str t)) b) (w1 ++ p0) r'0)
                                    | None => None end
                 | None => None end = None).
    { destruct sp as [|h sp'].
      - cbn [app]. rewrite Ev. cbn [app]. rewrite (sc_hsp_none c0 _ Hh0). reflexivity.
      - assert (Hstop : stops is_hsp (v ++ oprep_str p ++ w ++ c :: r)) by (rewrite Ev; exact Hh0).
        rewrite (sc_hsp_run (h :: sp') _ ltac:(discriminate) Hsp Hstop), (unit_not_prep n v _ Hu). reflexivity. }
    rewrite A1.
    assert (Hstop : stops is_hsp (v ++ oprep_str p ++ w ++ c :: r)) by (rewrite Ev; exact Hh0).
    rewrite (skip_hsp_run sp _ _ b Hsp Hstop). rewrite Ev. cbn [app].
    rewrite (eat_miss 37 c0 _ _ b H37), (eat_miss 42 c0 _ _ b H42).
    unfold p_explicit. rewrite (eat_brace_number t _ o b Hnum).
    unfold p_implicit. change (c0 :: t0 ++ oprep_str p ++ w ++ c :: r) with ((c0 :: t0) ++ oprep_str p ++ w ++ c :: r).
    rewrite <- Ev. rewrite (p_number_text t _ o b Hnum Hf). cbn [rest].
    rewrite (implicit_tail_unit sp n v p w c r Hsp Hu Hp Hw Hc (Hbnd eq_refl)). unfold advn. cbn [off bad].
    f_equal. f_equal. rewrite ?Ev. repeat (rewrite len_app || rewrite len_cons). lia.
  - (* number hsp preposition *)
    apply andb_true_iff in Hok as [Hok Hpw]. apply andb_true_iff in Hok as [Hw0 Hne].
    assert (Hn0 : w0 <> []) by (destruct w0; [discriminate Hne | discriminate]).
    pose proof (pword_head pw (w ++ c :: r) Hpw) as Hph.
    assert (Hf : num_follow t (w0 ++ pword_str pw ++ w ++ c :: r)).
    { destruct (pword_str pw ++ w ++ c :: r) as [|c1 r1] eqn:E.
      - destruct pw; cbn [pword_str] in E; destruct o0; discriminate E || (cbn [pword_ok ci_wordb List.length Nat.eqb andb] in Hpw; discriminate Hpw).
      - cbn [stops] in Hph.
        destruct t; cbn [num_follow].
        + destruct w0 as [|h w0']; [contradiction|]. cbn [hsp_run forallb] in Hw0. apply andb_true_iff in Hw0 as [Hh Hw0'].
          cbn [app int_follow]. rewrite Hh. change (h :: w0' ++ c1 :: r1) with ((h :: w0') ++ c1 :: r1).
          rewrite (span_app is_hsp (h :: w0') (c1 :: r1)); [| cbn [forallb]; rewrite Hh; exact Hw0' | exact Hph].
          cbn [snd stops].
          assert (Hlm : Units.lit_match_with true 111 c1 = true).
          { destruct pw as [o0 | o0 w2 th]; cbn [pword_ok pword_str] in *.
            - pose proof (ci_wordb_word _ _ Hpw) as W. inversion W as [|a c' w' m Hac _]; subst. cbn [app] in E. inversion E; subst. exact Hac.
            - do 3 (apply andb_true_iff in Hpw as [Hpw _]). pose proof (ci_wordb_word _ _ Hpw) as W.
              inversion W as [|a c' w' m Hac _]; subst. cbn [app] in E. inversion E; subst. exact Hac. }
          destruct (is_digit c1) eqn:Ed; [|reflexivity]. pose proof (digit_inert c1 Ed) as I. unfold inert in I.
          apply andb_true_iff in I as [_ I]. rewrite Hlm in I. discriminate I.
        + destruct w0 as [|h w0']; [contradiction|]. cbn [hsp_run forallb] in Hw0. apply andb_true_iff in Hw0 as [Hh _].
          exact (hsp_not_digit h Hh).
        + destruct w0 as [|h w0']; [contradiction|]. cbn [hsp_run forallb] in Hw0. apply andb_true_iff in Hw0 as [Hh _].
          exact (hsp_not_digit h Hh).
        + destruct w0 as [|h w0']; [contradiction|]. cbn [hsp_run forallb] in Hw0. apply andb_true_iff in Hw0 as [Hh _].
          exact (hsp_not_digit h Hh). }
    unfold p_amount, p_proportion. cbn [rest]. repeat rewrite <- app_assoc.
    rewrite (sc_remainder_number t _ Hnum), (p_number_text t _ o b Hnum Hf). cbn [rest].
    rewrite (sc_hsp_run w0 _ Hn0 Hw0 Hph), (pword_prep pw w c r Hpw Hw Hc (Hbnd eq_refl)).
    unfold adv. cbn [off bad]. f_equal. f_equal. repeat rewrite len_app. lia.
  - (* number "%" [preposition] *)
    apply andb_true_iff in Hok as [Hok Hdiv]. apply andb_true_iff in Hok as [Hw0 Hp].
    assert (Hf : num_follow t (w0 ++ 37 :: oprep_str p ++ w ++ c :: r))
      by (apply num_follow_hsp_then; [exact Hw0 | reflexivity | reflexivity | discriminate | discriminate]).
    unfold p_amount, p_proportion. cbn [rest]. repeat rewrite <- app_assoc. cbn [app].
    rewrite (sc_remainder_number t _ Hnum), (p_number_text t _ o b Hnum Hf). cbn [rest].
    rewrite (no_prep_alt _ _ w0 37 _ Hw0 eq_refl eq_refl).
    rewrite (skip_hsp_run w0 (37 :: _) _ b Hw0 eq_refl).
    rewrite (eat_hit 37 _ _ b). cbn [rest].
    rewrite (oprep_roundtrip p w c r Hp Hw Hc (fun Hne => Hbnd ltac:(destruct p; [reflexivity | contradiction]))). unfold adv_pair, adv. cbn [fst snd off bad].
    unfold percent_of. destruct (ndiv (ntext_val t) (NInt 100)) as [q| |]; try discriminate.
    rewrite with_bad_none.
    f_equal. f_equal. repeat (rewrite len_app || rewrite len_cons). lia.
  - (* number "*" *)
    assert (Hf : num_follow t (w0 ++ 42 :: w ++ c :: r))
      by (apply num_follow_hsp_then; [exact Hok | reflexivity | reflexivity | discriminate | discriminate]).
    unfold p_amount, p_proportion. cbn [rest]. repeat rewrite <- app_assoc. cbn [app].
    rewrite (sc_remainder_number t _ Hnum), (p_number_text t _ o b Hnum Hf). cbn [rest].
    rewrite (no_prep_alt _ _ w0 42 _ Hok eq_refl eq_refl).
    rewrite (skip_hsp_run w0 (42 :: w ++ c :: r) _ b Hok eq_refl).
    rewrite (eat_miss 37 42 _ _ b ltac:(discriminate)), (eat_hit 42 _ _ b).
    f_equal. f_equal. repeat (rewrite len_app || rewrite len_cons || rewrite len_nil). lia.
  - (* explicit quantity *)
    apply andb_true_iff in Hnum as [Hnum Hbp]. apply andb_true_iff in Hnum as [Hnum Hu].
    apply andb_true_iff in Hnum as [Hnum Hw1]. apply andb_true_iff in Hnum as [Ht Hw0].
    destruct (ntext_head t Ht) as [d [r' [Eh Hd]]].
    unfold p_amount, p_proportion. cbn [rest]. norm_app.
    rewrite (sc_remainder_inert 123 _ eq_refl), (p_number_none 123 _ o b eq_refl).
    unfold p_explicit. rewrite eat_hit.
    assert (Hs0 : forall X : str, stops is_hsp (ntext_str t ++ X)) by (intro X; rewrite Eh; exact (digit_not_hsp d Hd)).
    rewrite (skip_hsp_run w0 _ _ b Hw0 (Hs0 _)).
    pose proof (explicit_follow t w0 u w1 (oprep_str p ++ w ++ c :: r) Hw1 Hu Hbp) as Hnf.
    destruct u as [[sp un]|]; cbn [unit_text] in *.
    + pose proof (explicit_unit_cost t w0 sp un w1 p) as Huc.
      apply andb_true_iff in Hu as [Hu Hx]. apply andb_true_iff in Hu as [Hu Hst]. apply andb_true_iff in Hu as [Hsp Hun].
      specialize (Huc Hun).
      assert (Hhd : forall X : str, stops is_hsp (print_name un ++ X)).
      { intro X. destruct un as [f1 m1]. unfold name_ok in Hun. cbn [nm_first nm_more] in Hun.
        apply andb_true_iff in Hun as [Hun _]. apply andb_true_iff in Hun as [Hf1 _].
        destruct (print_seg_head f1 Hf1) as [c1 [r1 [E1 [Hc1 _]]]]. unfold print_name. cbn [nm_first nm_more].
        rewrite E1. cbn [app stops]. exact (seg_head_not_hsp c1 Hc1). }
      (norm_app; cbn [app]). repeat rewrite <- app_assoc in Hnf.
      rewrite (p_number_text t _ _ b Ht Hnf).
      rewrite (skip_hsp_run sp _ _ b Hsp (Hhd _)).
      rewrite (static_roundtrip un fuel _ _ b Hun Hst (name_followb_hsp_then w1 125 _ Hw1 eq_refl eq_refl eq_refl) ltac:(generalize dependent (name_cost un); intros; lia)).
      rewrite (skip_hsp_run w1 (125 :: _) _ b Hw1 eq_refl), eat_hit. cbn [rest].
      rewrite (oprep_roundtrip p w c r Hok Hw Hc (fun Hne => Hbnd ltac:(destruct p; [reflexivity | contradiction]))). unfold adv_pair, adv. cbn [fst snd off bad].
      f_equal. f_equal. repeat (rewrite len_app || rewrite len_cons || rewrite len_nil). lia.
    + (norm_app; cbn [app]). cbn [app] in Hnf.
      rewrite (p_number_text t _ _ b Ht Hnf).
      rewrite (skip_hsp_run w1 (125 :: _) _ b Hw1 eq_refl).
      rewrite (p_static_fails_at 125 _ fuel _ b eq_refl) by lia.
      rewrite (skip_hsp_run w1 (125 :: _) _ b Hw1 eq_refl), eat_hit. cbn [rest].
      rewrite (oprep_roundtrip p w c r Hok Hw Hc (fun Hne => Hbnd ltac:(destruct p; [reflexivity | contradiction]))). unfold adv_pair, adv. cbn [fst snd off bad].
      f_equal. f_equal. repeat (rewrite len_app || rewrite len_cons || rewrite len_nil). lia.
Qed.
