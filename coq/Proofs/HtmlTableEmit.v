(** * Facts about [emit] / [render_cell] (C04): span attributes, classes, the fast variant. *)
From Coq Require Import List Arith NArith Bool Lia ZifyBool String.
From RG Require Import Base.Str Model.Table Model.HtmlTable Spec.LayoutSpec Proofs.LayoutTiling.
Import ListNotations.
Local Open Scope N_scope.

(** ** [emit_fast] is [emit] *)
Lemma find_filter {A} (p q : A -> bool) l :
  (forall x, p x = true -> q x = true) -> find p (filter q l) = find p l.
Proof.
  intros H. induction l as [|x l IH]; [reflexivity|]. simpl.
  destruct (q x) eqn:Eq; simpl.
  - destruct (p x); [reflexivity|exact IH].
  - destruct (p x) eqn:Ep; [apply H in Ep; congruence|exact IH].
Qed.

Lemma grid_row_table t r c : grid (row_table t r) r c = grid t r c.
Proof.
  unfold grid, row_table, lookup, row_entries; simpl.
  rewrite find_filter; [reflexivity|].
  intros e He. unfold covers in He. apply andb_true_iff in He. tauto.
Qed.

Lemma row_cells_row_table t r : row_cells (row_table t r) r = row_cells t r.
Proof.
  unfold row_cells. simpl t_cols. apply flat_map_ext. intros c. rewrite grid_row_table. reflexivity.
Qed.

Lemma emit_fast_eq body t : emit_fast body t = emit body t.
Proof. unfold emit_fast, emit. apply map_ext. intros r. rewrite row_cells_row_table. reflexivity. Qed.

Lemma geometry_fast_eq t : geometry_fast t = geometry t.
Proof.
  unfold geometry_fast, geometry. f_equal. apply flat_map_ext. intros r.
  unfold geom_of_row. simpl t_cols. apply flat_map_ext. intros c. rewrite grid_row_table. reflexivity.
Qed.

(** Every [<td>] written is the rendering of a cell of the table. *)
Lemma emit_tds body t row d :
  In row (emit body t) -> In d row ->
  exists e, In e (t_cells t) /\ d = render_cell body (e_cell e).
Proof.
  unfold emit. intros Hrow Hd. apply in_map_iff in Hrow as (r & <- & _).
  apply in_map_iff in Hd as (x & <- & Hx).
  unfold row_cells in Hx. apply in_flat_map in Hx as (c & _ & Hx).
  unfold grid, lookup in Hx.
  destruct (find (fun e => covers e r c) (t_cells t)) as [e|] eqn:E; [|destruct Hx].
  apply find_some in E as [He _].
  destruct ((e_row e =? r) && (e_col e =? c)); [|destruct Hx].
  destruct Hx as [<-|[]]. eauto.
Qed.

(** ** Span attributes: present iff the span is not 1, and then equal to the span *)
Lemma span_attrs body c :
  let d := render_cell body c in
  (td_rowspan d = None <-> c_rows c = 1) /\ (forall n, td_rowspan d = Some n -> n = c_rows c) /\
  (td_colspan d = None <-> c_cols c = 1) /\ (forall n, td_colspan d = Some n -> n = c_cols c).
Proof.
  unfold render_cell, span_attr; simpl.
  destruct (c_rows c =? 1) eqn:E1, (c_cols c =? 1) eqn:E2; repeat split; intros; try congruence; try lia.
Qed.

(** ** Classes *)
Local Open Scope string_scope.
Definition nonnormal (b : border) : nat := match b with BNormal => 0 | _ => 1 end.

Lemma in_border_class edge b x :
  In x (border_class edge b) <->
  (b = BNone /\ x = (s "rg-border-" ++ edge ++ s "-none")%list)
  \/ (b = BSub /\ x = (s "rg-border-" ++ edge ++ s "-sub-recipe")%list).
Proof.
  destruct b; simpl; split; intros H.
  - destruct H as [<-|[]]. left. auto.
  - destruct H as [[_ ->]|[H _]]; [left; reflexivity|discriminate].
  - destruct H.
  - destruct H as [[H _]|[H _]]; discriminate.
  - destruct H as [<-|[]]. right. auto.
  - destruct H as [[H _]|[_ ->]]; [discriminate|left; reflexivity].
Qed.

Lemma classes_spec body c :
  let cls := td_classes (render_cell body c) in
  List.hd [] cls = kind_class (fst (c_label c))
  /\ List.length cls = (1 + nonnormal (c_bl c) + nonnormal (c_br c) + nonnormal (c_bt c) + nonnormal (c_bb c))%nat
  /\ (In (s "rg-border-left-none") (List.tl cls) <-> c_bl c = BNone)
  /\ (In (s "rg-border-left-sub-recipe") (List.tl cls) <-> c_bl c = BSub)
  /\ (In (s "rg-border-right-none") (List.tl cls) <-> c_br c = BNone)
  /\ (In (s "rg-border-right-sub-recipe") (List.tl cls) <-> c_br c = BSub)
  /\ (In (s "rg-border-top-none") (List.tl cls) <-> c_bt c = BNone)
  /\ (In (s "rg-border-top-sub-recipe") (List.tl cls) <-> c_bt c = BSub)
  /\ (In (s "rg-border-bottom-none") (List.tl cls) <-> c_bb c = BNone)
  /\ (In (s "rg-border-bottom-sub-recipe") (List.tl cls) <-> c_bb c = BSub).
Proof.
  destruct c as [lbl h w bl br bt bb]. unfold render_cell, cell_classes.
  cbn [td_classes List.hd List.tl c_bl c_br c_bt c_bb c_label].
  split; [reflexivity|].
  split; [destruct bl, br, bt, bb; reflexivity|].
  repeat split; intros H;
    try (rewrite !in_app_iff, !in_border_class in H;
         destruct H as [[[Hb H]|[Hb H]]|[[[Hb H]|[Hb H]]|[[[Hb H]|[Hb H]]|[[Hb H]|[Hb H]]]]];
         vm_compute in H; try discriminate H; exact Hb);
    try (rewrite !in_app_iff, !in_border_class; subst; tauto).
Qed.
