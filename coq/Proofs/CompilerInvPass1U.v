(** * Compiler invariants, part 8: pass 1 establishes the invariants used for
    the uniqueness of output names (at most as many roots end in a reference
    to an output as uses were recorded; roots share no name). *)
From Coq Require Import List ZArith NArith Bool Lia.
From RG Require Import Base.Str Base.Num Model.Recipe Model.Compiler Spec.Valid
  Proofs.RecipeInd Proofs.NodeEqv Proofs.RecipeValid Proofs.CompilerExpand
  Proofs.CompilerInvSize Proofs.CompilerInvNames Proofs.CompilerInvDefs Proofs.CompilerInvSub
  Proofs.CompilerInvPass1.
Import ListNotations.

Section P1U.
  Variable lower : str -> str.
  Notation norm := (normalise_output_name lower).

  (** [e1] continues an entry of [t]: same key, sub recipe, index; uses only grow. *)
  Definition older (t : table) (e1 : entry) : Prop :=
    exists e, In e t /\ e_key e1 = e_key e /\ e_sub e1 = e_sub e /\ e_idx e1 = e_idx e /\
              (length (e_refs e) <= length (e_refs e1))%nat.

  Lemma older_refl t e : In e t -> older t e.
  Proof. intro H. exists e. auto. Qed.

  Lemma older_trans t t1 e2 : (forall e1, In e1 t1 -> older t e1) -> older t1 e2 -> older t e2.
  Proof.
    intros H (e1 & H1 & Hk & Hs & Hi & Hl). destruct (H e1 H1) as (e & H0 & Hk0 & Hs0 & Hi0 & Hl0).
    exists e. split; [exact H0|]. repeat split; try congruence. lia.
  Qed.

  Lemma add_ref_older k r : forall t e1, In e1 (add_ref k r t) -> older t e1.
  Proof.
    induction t as [|e0 t IH]; simpl; intros e1 H; [contradiction|].
    destruct (svs_eqb (e_key e0) k).
    - destruct H as [<-|H].
      + exists e0. simpl. rewrite app_length. simpl. repeat split; auto. lia.
      + exists e1. simpl. auto.
    - destruct H as [<-|H]; [exists e0; simpl; auto|].
      destruct (IH e1 H) as (e & He & Hr). exists e. simpl. auto.
  Qed.

  Lemma compile_expr_older blk : forall ex t n t',
    compile_expr lower blk ex t = ROk n t' -> forall e', In e' t' -> older t e'.
  Proof.
    induction ex as [name amt off|name ins IH] using aexpr_ind'; intros t n t' H.
    - simpl in H. destruct (lookup (normalise_output_name lower name) t) as [o|] eqn:El.
      + inversion H; subst. apply add_ref_older.
      + destruct amt as [[q|p]|]; inversion H; subst; apply older_refl.
    - rewrite compile_expr_AStep in H.
      destruct (compile_list lower blk ins t) as [ns t1|k o] eqn:E; [|discriminate].
      inversion H; subst; clear H.
      revert t ns t' E. induction IH as [|x l Hx Hl IHl]; intros t ns t' E; simpl in E.
      + inversion E; subst. apply older_refl.
      + destruct (compile_expr lower blk x t) as [n1 t1|k o] eqn:E1; [|discriminate].
        destruct (compile_list lower blk l t1) as [ns2 t2|k o] eqn:E2; [|discriminate].
        inversion E; subst. intros e' He'. eapply older_trans; [eapply Hx; eauto|].
        eapply IHl; eauto.
  Qed.

  (** A statement that is just a reference records one more use. *)
  Lemma compile_expr_top_ref blk seen pend ex t s k a t1 :
    Inv1 lower seen pend t -> compile_expr lower blk ex t = ROk (Reference s k a) t1 ->
    forall e1, In e1 t1 -> e_sub e1 = s -> e_idx e1 = k ->
    exists e, In e t /\ e_sub e1 = e_sub e /\ e_idx e1 = e_idx e /\
              (S (length (e_refs e)) <= length (e_refs e1))%nat.
  Proof.
    intros I H e1 He1 Hs Hk. destruct ex as [name ins|name amt off].
    2: {
      simpl in H. destruct (lookup (normalise_output_name lower name) t) as [o|] eqn:El.
      + inversion H as [[Hs0 Hk0 Ha0 Ht1]]. clear H. rewrite <- Hs0 in Hs. rewrite <- Hk0 in Hk. clear Hs0 Hk0 Ha0.
        pose proof (inv1_add_ref lower seen pend t _ o (amount_or_default amt) blk I El) as I1.
        rewrite Ht1 in I1.
        destruct (lookup_split _ (Reference (e_sub o) (e_idx o) (amount_or_default amt), blk) t o El)
          as (ta & tb & Ht & _ & _ & Ha).
        rewrite Ha in Ht1. subst t1.
        set (o' := with_ref o (Reference (e_sub o) (e_idx o) (amount_or_default amt), blk)) in *.
        assert (Ho' : In o' (ta ++ o' :: tb)) by apply in_elt.
        assert (e1 = o').
        { eapply keys_distinct_In; [apply I1 | exact He1 | exact Ho' |].
          rewrite (entry_named_key lower e1 o'); [apply svs_eqb_refl | | | |].
          - apply (i1_KN _ _ _ _ I1), He1.
          - exact Hs.
          - exact Hk.
          - apply (i1_KN _ _ _ _ I1), Ho'. }
        subst e1. exists o. split; [rewrite Ht; apply in_elt|]. unfold o'. simpl.
        rewrite app_length. simpl. repeat split; auto. lia.
      + destruct amt as [[q|p]|]; inversion H. }
    rewrite compile_expr_AStep in H. destruct (compile_list lower blk ins t); inversion H.
  Qed.

  Lemma top_ref_same e e1 x : e_sub e1 = e_sub e -> e_idx e1 = e_idx e -> top_ref e1 x -> top_ref e x.
  Proof. intros Hs Hi [a H]. exists a. now rewrite <- Hs, <- Hi. Qed.

  Lemma TopBound_snoc e0 e1 l x :
    TopBound e0 l -> e_sub e1 = e_sub e0 -> e_idx e1 = e_idx e0 ->
    (length (e_refs e0) <= length (e_refs e1))%nat ->
    (top_ref e1 x -> (S (length (e_refs e0)) <= length (e_refs e1))%nat) ->
    TopBound e1 (l ++ [x]).
  Proof.
    intros HT Hs Hi Hle Hx l' Hsub HF.
    assert (HF0 : forall l0, Forall (top_ref e1) l0 -> Forall (top_ref e0) l0).
    { intros l0 H. eapply Forall_impl; [|exact H]. intros y. now apply top_ref_same. }
    destruct (subl_snoc_inv _ _ _ Hsub) as [Hs0|(l'' & -> & Hs0)].
    - specialize (HT l' Hs0 (HF0 _ HF)). lia.
    - apply Forall_app in HF. destruct HF as [HF1 HF2]. inversion HF2; subst.
      specialize (HT l'' Hs0 (HF0 _ HF1)). rewrite app_length. simpl.
      assert (S (length (e_refs e0)) <= length (e_refs e1))%nat by auto. lia.
  Qed.

  Lemma TopBound_no_refs pend e l :
    entry_uses pend e -> (forall x, In x l -> In x pend) -> e_refs e = [] -> TopBound e l.
  Proof.
    intros HU Hl Er l' Hsub HF. rewrite Er.
    destruct l' as [|w l'']; [simpl; lia|]. exfalso. inversion HF as [|? ? [a Hc] _]; subst.
    assert (Hw : In w l) by (eapply subl_In; [exact Hsub | left; reflexivity]).
    pose proof (HU w a (Hl w Hw) (chain_inside _ _ Hc)) as Hin. rewrite Er in Hin. exact Hin.
  Qed.

  Lemma top_ref_tree e tr tree names sh :
    tree = tr \/ tree = SubRecipe tr names sh -> is_subrecipe tr = false -> top_ref e tree ->
    exists a, tr = Reference (e_sub e) (e_idx e) a.
  Proof.
    intros Ht Hns [a Hc]. exists a. destruct Ht as [->| ->].
    - symmetry. now apply chain_ref_not_sub.
    - inversion Hc as [|b ns s0 Hc']; subst. symmetry. now apply chain_ref_not_sub.
  Qed.

  Lemma old_TopBound blk seen pend t prev ex tr t1 tree names sh :
    Inv1 lower seen pend t -> (forall e, In e t -> TopBound e prev) ->
    compile_expr lower blk ex t = ROk tr t1 -> is_subrecipe tr = false ->
    tree = tr \/ tree = SubRecipe tr names sh ->
    forall e1, In e1 t1 -> TopBound e1 (prev ++ [tree]).
  Proof.
    intros I HT E Hns Htree e1 He1.
    destruct (compile_expr_older blk ex t tr t1 E e1 He1) as (e0 & He0 & Hk & Hs & Hi & Hl).
    apply (TopBound_snoc e0 e1); auto.
    intro Htop. destruct (top_ref_tree e1 tr tree names sh Htree Hns Htop) as (a & Htr).
    rewrite Htr in E.
    destruct (compile_expr_top_ref blk seen pend ex t _ _ _ t1 I E e1 He1 eq_refl eq_refl)
      as (e & He & Hs' & Hi' & Hlen).
    assert (e = e0).
    { eapply keys_distinct_In; [apply I | exact He | exact He0 |].
      rewrite (entry_named_key lower e e0); [apply svs_eqb_refl | | | |].
      - apply (i1_KN _ _ _ _ I), He.
      - congruence.
      - congruence.
      - apply (i1_KN _ _ _ _ I), He0. }
    subst e. exact Hlen.
  Qed.

  Definition RInv (prev seen pend : list node) (t : table) : Prop :=
    (forall x, In x prev -> In x pend /\ (is_subrecipe x = true -> In x seen)) /\
    (forall e, In e t -> TopBound e prev) /\ Uniq lower prev.

  Lemma Uniq_snoc_plain prev tr : Uniq lower prev -> is_subrecipe tr = false -> Uniq lower (prev ++ [tr]).
  Proof.
    intros HU Hns x y Hs S1 S2 Hc1 Hc2 Hs1 Hs2.
    destruct (subl_snoc_inv _ _ _ Hs) as [Hs0|(l'' & Hl & Hs0)]; [eapply HU; eauto|].
    destruct l'' as [|x0 [|? ?]]; simpl in Hl; inversion Hl; subst.
    - rewrite <- (chain_ref_not_sub S2 tr Hc2 Hns) in Hns. congruence.
    - destruct l; discriminate.
  Qed.

  Lemma Uniq_snoc_sub prev seen p1 t1 tr names sh :
    Inv1 lower seen p1 t1 -> (forall x, In x prev -> is_subrecipe x = true -> In x seen) ->
    Uniq lower prev -> is_subrecipe tr = false ->
    (forall e nm, In e t1 -> In nm names -> svs_eqb (e_key e) (norm nm) = false) ->
    Uniq lower (prev ++ [SubRecipe tr names sh]).
  Proof.
    intros I1 Hprev HU Hns Hfresh x y Hs S1 S2 Hc1 Hc2 Hs1 Hs2 n1 n2 Hn1 Hn2.
    destruct (subl_snoc_inv _ _ _ Hs) as [Hs0|(l'' & Hl & Hs0)]; [eapply HU; eauto|].
    destruct l'' as [|x0 [|? ?]]; simpl in Hl; inversion Hl; subst; [|destruct l; discriminate].
    assert (S2 = SubRecipe tr names sh).
    { inversion Hc2 as [|b ns s0 Hc2']; subst; [reflexivity|].
      rewrite <- (chain_ref_not_sub S2 tr Hc2' Hns) in Hns. congruence. }
    subst S2. simpl in Hn2.
    assert (Hx : In x0 prev) by (eapply subl_In; [exact Hs0 | left; reflexivity]).
    assert (Hxs : is_subrecipe x0 = true).
    { destruct (is_subrecipe x0) eqn:Ex; [reflexivity|].
      rewrite <- (chain_ref_not_sub S1 x0 Hc1 Ex) in Ex. congruence. }
    pose proof (Hprev x0 Hx Hxs) as Hseen.
    destruct (i1_SP _ _ _ _ I1 x0 Hseen) as (_ & b & ns & s0 & -> & Hb).
    assert (S1 = SubRecipe b ns s0).
    { inversion Hc1 as [|b' ns' s' Hc1']; subst; [reflexivity|].
      rewrite <- (chain_ref_not_sub S1 b Hc1' Hb) in Hb. congruence. }
    subst S1. simpl in Hn1. destruct (In_nth _ _ [] Hn1) as (k & Hk & Hnth).
    destruct (i1_NL _ _ _ _ I1 _ Hseen k Hk) as (e & He & Hkey & _). simpl in Hkey.
    assert (Hkey' : e_key e = norm n1) by (rewrite Hkey; f_equal; exact Hnth).
    rewrite <- Hkey'. apply Hfresh; assumption.
  Qed.

  Lemma compile_stmt_rinv blk st seen pend t prev tree t' :
    Inv1 lower seen pend t -> RInv prev seen pend t -> compile_stmt lower blk st t = SOk tree t' ->
    exists pend', incl pend pend' /\ Inv1 lower (seen_after seen tree) pend' t' /\
                  RInv (prev ++ [tree]) (seen_after seen tree) pend' t'.
  Proof.
    intros I (R1 & R2 & R3) H. unfold compile_stmt in H.
    destruct (compile_expr lower blk (st_expr st) t) as [tr t1|k o] eqn:E; [|discriminate].
    destruct (compile_expr_inv1 lower blk seen _ _ _ _ _ I E) as (p1 & Hi1 & Hn1 & I1 & Hcc & Hns).
    assert (R : forall names sh unwrap offs t2, names <> [] ->
              register lower blk (SubRecipe tr names sh) unwrap names offs 0 t1 = inl (ROk tt t2) ->
              exists pend', incl pend pend' /\
                Inv1 lower (seen_after seen (SubRecipe tr names sh)) pend' t2 /\
                RInv (prev ++ [SubRecipe tr names sh]) (seen_after seen (SubRecipe tr names sh)) pend' t2).
    { intros names sh unwrap offs t2 Hne Hr. set (sub := SubRecipe tr names sh) in *.
      pose proof (inv1_register lower _ _ _ _ _ _ _ _ _ _ I1 Hn1 Hcc Hns Hne Hr) as I2.
      destruct (register_spec lower _ _ _ _ _ _ _ _ Hr) as (Ht2 & Hfresh & _).
      exists (sub :: p1). split; [apply incl_tl, Hi1|]. split; [exact I2|].
      assert (M : forall x, In x (prev ++ [sub]) ->
                In x (sub :: p1) /\ (is_subrecipe x = true -> In x (seen_after seen sub))).
      { intros x Hx. apply in_app_iff in Hx. destruct Hx as [Hx|[<-|[]]].
        - destruct (R1 x Hx) as [Hp Hs]. split; [right; apply Hi1, Hp | intro; right; auto].
        - split; [left; reflexivity | intro; left; reflexivity]. }
      split; [exact M|]. split.
      - intros e' He'. rewrite Ht2 in He'. apply in_app_iff in He'. destruct He' as [He'|He'].
        + eapply (old_TopBound blk seen pend t prev _ tr t1 sub names sh); eauto.
        + apply (TopBound_no_refs (sub :: p1)).
          * apply (i1_U _ _ _ _ I2). rewrite Ht2. apply in_app_iff. auto.
          * intros x Hx. apply M, Hx.
          * apply in_mk_entries in He'. destruct He' as (k0 & _ & ->). reflexivity.
      - apply (Uniq_snoc_sub prev seen p1 t1 tr names sh I1); auto.
        intros x Hx. exact (proj2 (R1 x Hx)). }
    assert (P : exists pend', incl pend pend' /\ Inv1 lower (seen_after seen tr) pend' t1 /\
                  RInv (prev ++ [tr]) (seen_after seen tr) pend' t1).
    { exists p1. unfold seen_after. rewrite Hns. split; [exact Hi1|]. split; [exact I1|]. split; [|split].
      - intros x Hx. apply in_app_iff in Hx. destruct Hx as [Hx|[<-|[]]].
        + destruct (R1 x Hx) as [Hp Hs]. split; [apply Hi1, Hp | exact Hs].
        + split; [exact Hn1 | congruence].
      - intros e' He'. eapply (old_TopBound blk seen pend t prev _ tr t1 tr [] true); eauto.
      - apply Uniq_snoc_plain; assumption. }
    destruct (map fst (st_outs st)) as [|x xs] eqn:Em.
    - destruct (infer_output_name tr) as [nm|] eqn:Ei.
      + cbv iota beta in H.
        match type of H with context [register ?a ?b ?c ?d ?e ?f ?g ?h] =>
          destruct (register a b c d e f g h) as [[[] t2|k o]|c0] eqn:Er end; try discriminate.
        inversion H; subst. eapply R; [|exact Er]. discriminate.
      + inversion H; subst. exact P.
    - cbv iota beta in H.
      match type of H with context [register ?a ?b ?c ?d ?e ?f ?g ?h] =>
        destruct (register a b c d e f g h) as [[[] t2|k o]|c0] eqn:Er end; try discriminate.
      inversion H; subst. eapply R; [|exact Er]. discriminate.
  Qed.

  Lemma compile_block_rinv blk : forall sts seen pend t prev trees t',
    Inv1 lower seen pend t -> RInv prev seen pend t -> compile_block lower blk sts t = BOk trees t' ->
    exists pend', incl pend pend' /\ Inv1 lower (fold_left seen_after trees seen) pend' t' /\
                  RInv (prev ++ trees) (fold_left seen_after trees seen) pend' t'.
  Proof.
    induction sts as [|st sts IH]; intros seen pend t prev trees t' I R H; simpl in H.
    - inversion H; subst. exists pend. simpl. rewrite app_nil_r. auto using incl_refl.
    - destruct (compile_stmt lower blk st t) as [tr t1|k o|c0] eqn:E; try discriminate.
      destruct (compile_block lower blk sts t1) as [trs t2|k o|c0] eqn:E2; try discriminate.
      inversion H; subst.
      destruct (compile_stmt_rinv _ _ _ _ _ _ _ _ I R E) as (p1 & Hi1 & I1 & R1).
      destruct (IH _ _ _ _ _ _ I1 R1 E2) as (p2 & Hi2 & I2 & R2).
      exists p2. split; [eapply incl_tran; eauto|]. simpl.
      replace (prev ++ tr :: trs) with ((prev ++ [tr]) ++ trs) by (rewrite <- app_assoc; reflexivity).
      auto.
  Qed.

  Lemma rinv_seen_ext prev seen seen' pend t : same_set seen seen' -> RInv prev seen pend t -> RInv prev seen' pend t.
  Proof.
    intros E (R1 & R2 & R3). split; [|auto]. intros x Hx. destruct (R1 x Hx) as [H1 H2].
    split; [exact H1|]. intro Hs. apply E, H2, Hs.
  Qed.

  Lemma pass1_from_rinv : forall p blk seen pend t prev bs t',
    Inv1 lower seen pend t -> RInv prev seen pend t -> pass1_from lower blk p t = P1Ok bs t' ->
    exists pend' seen', Inv1 lower seen' pend' t' /\ RInv (prev ++ concat bs) seen' pend' t'.
  Proof.
    induction p as [|b p IH]; intros blk seen pend t prev bs t' I R H; simpl in H.
    - inversion H; subst. exists pend, seen. simpl. rewrite app_nil_r. auto.
    - destruct (compile_block lower blk b t) as [trs t1|k o|c0] eqn:E; try discriminate.
      destruct (pass1_from lower (S blk) p t1) as [bs2 t2|k bl o|c0] eqn:E2; try discriminate.
      inversion H; subst.
      destruct (compile_block_rinv _ _ _ _ _ _ _ _ I R E) as (p1 & Hi1 & I1 & R1).
      apply (inv1_seen_ext lower _ _ _ _ (fold_seen_after_set trs seen)) in I1.
      apply (rinv_seen_ext _ _ _ _ _ (fold_seen_after_set trs seen)) in R1.
      destruct (IH _ _ _ _ _ _ _ I1 R1 E2) as (p2 & s2 & I2 & R2).
      exists p2, s2. simpl. rewrite app_assoc. auto.
  Qed.

  Theorem pass1_uniq p bs t : pass1 lower p = P1Ok bs t ->
    (forall e, In e t -> TopBound e (concat bs)) /\ Uniq lower (concat bs).
  Proof.
    intro H. unfold pass1 in H.
    assert (R0 : RInv [] [] [] []).
    { split; [intros ? []|]. split; [intros ? []|]. intros x y Hs. inversion Hs. }
    destruct (pass1_from_rinv _ _ _ _ _ _ _ _ (inv1_init lower) R0 H) as (pend & seen & _ & (_ & R2 & R3)).
    simpl in R2, R3. auto.
  Qed.
End P1U.
