(** * C12: the unit inside [implicit_quantity]: with or without horizontal
    space before it, followed by an optional preposition. *)
From Coq Require Import List ZArith NArith Bool Lia.
From RG Require Import Base.Str Base.Num Gen.GenUnits Model.Recipe Model.Units Spec.UnitsRef
  Proofs.UnitsScan Proofs.UnitsTable.
Import ListNotations.
Open Scope N_scope.

Lemma span_spec p x : forall w r, span p x = (w, r) -> x = w ++ r /\ forallb p w = true.
Proof.
  induction x as [|c t IH]; intros w r H; simpl in H.
  - inversion H. split; reflexivity.
  - destruct (p c) eqn:Hc.
    + destruct (span p t) as [a b]. inversion H; subst. destruct (IH a r eq_refl) as [E F].
      subst t. split; [reflexivity | simpl; rewrite Hc; exact F].
    + inversion H. split; reflexivity.
Qed.

Lemma span_app p w r : forallb p w = true -> (match r with [] => True | c :: _ => p c = false end) ->
  span p (w ++ r) = (w, r).
Proof.
  intros Hw Hr. induction w as [|c w IH]; simpl.
  - destruct r as [|c t]; [reflexivity|]. simpl. rewrite Hr. reflexivity.
  - simpl in Hw. apply andb_true_iff in Hw as [Hc Hw]. rewrite Hc, (IH Hw). reflexivity.
Qed.

Lemma hsp_sound x w r : hsp x = Some (w, r) -> x = w ++ r /\ w <> [] /\ hsp_run w.
Proof.
  unfold hsp. destruct (span is_hsp x) as [a b] eqn:E. destruct a as [|c a]; [discriminate|].
  intro H. inversion H; subst. destruct (span_spec _ _ _ _ E) as [Hx Hf].
  repeat split; [exact Hx | discriminate | exact Hf].
Qed.

Lemma match_ci_lit_sound w : forall x m r, match_ci_lit w x = Some (m, r) -> x = m ++ r.
Proof.
  induction w as [|a w IH]; intros x m r H; cbn [match_ci_lit] in H.
  - inversion H. reflexivity.
  - destruct x as [|c t]; [discriminate|]. destruct (lit_match_with true a c); [|discriminate].
    destruct (match_ci_lit w t) as [[m' r']|] eqn:E; [|discriminate]. inversion H; subst.
    rewrite (IH t m' r E). reflexivity.
Qed.

Lemma preposition_sound x p r : preposition x = Some (p, r) -> x = p ++ r.
Proof.
  unfold preposition. destruct (match_ci_lit [111; 102] x) as [[m1 r1]|] eqn:E1; [|discriminate].
  apply match_ci_lit_sound in E1. subst x.
  destruct (hsp r1) as [[w r2]|] eqn:E2.
  - apply hsp_sound in E2 as [E2 _]. subst r1.
    destruct (match_ci_lit [116; 104; 101] r2) as [[m2 r3]|] eqn:E3.
    + apply match_ci_lit_sound in E3. subst r2.
      destruct (word_boundary (last_opt m2) (hd_error r3)).
      * intro H. inversion H; subst. rewrite <- !app_assoc. reflexivity.
      * destruct (word_boundary (last_opt m1) (hd_error (w ++ m2 ++ r3))); [|discriminate].
        intro H. inversion H; subst. reflexivity.
    + destruct (word_boundary (last_opt m1) (hd_error (w ++ r2))); [|discriminate].
      intro H. inversion H; subst. reflexivity.
  - destruct (word_boundary (last_opt m1) (hd_error r1)); [|discriminate].
    intro H. inversion H; subst. reflexivity.
Qed.

Lemma hsp_is_ws c : is_hsp c = true -> is_ws c = true.
Proof.
  unfold is_hsp. intro H. apply orb_true_iff in H as [H | H]; apply N.eqb_eq in H; subst c; vm_compute; reflexivity.
Qed.

Lemma spelled_first n v : In n all_names -> spelled n v -> exists c t, v = c :: t /\ is_hsp c = false.
Proof.
  intros Hn Hs. pose proof table_scan_ok as Hok. apply andb_true_iff in Hok as [Hwf _].
  rewrite forallb_forall in Hwf. specialize (Hwf _ (alt_of_name n Hn)).
  unfold spelled in Hs. unfold wf_alt in Hwf. destruct (pieces_of_name n) as [|[a|] ps]; try discriminate.
  apply andb_true_iff in Hwf as [Wf _]. simpl in Wf. apply andb_true_iff in Wf as [Hg _].
  apply Matches_lit_inv in Hs as [c [t [Hv [Hl _]]]]. exists c, t. split; [exact Hv|].
  destruct (is_hsp c) eqn:E; [|reflexivity]. apply hsp_is_ws in E.
  pose proof (proj2 (good_class_spec a c Hg Hl)). congruence.
Qed.

(** The unit and the spacing before it are recovered exactly as written, and
    preposition + remaining text partition what follows the unit. *)
Theorem recognised_in_quantity n v sp rest :
  In n all_names -> spelled n v -> hsp_run sp -> boundary_after rest ->
  exists p r, implicit_tail (sp ++ v ++ rest) = Some (sp, v, p, r) /\ rest = p ++ r.
Proof.
  intros Hn Hs Hsp Hb. destruct (spelled_first n v Hn Hs) as [c [t [Hv Hc]]].
  unfold implicit_tail.
  assert (Hh : hsp (sp ++ v ++ rest) = match sp with [] => None | _ => Some (sp, v ++ rest) end).
  { unfold hsp. rewrite (span_app is_hsp sp (v ++ rest) Hsp) by (subst v; exact Hc).
    destruct sp; reflexivity. }
  rewrite Hh.
  assert (Hk : known_unit (v ++ rest) = Some (v, rest)) by exact (every_name_recognised n v rest Hn Hs Hb).
  destruct sp as [|s0 sp']; cbn [app]; rewrite Hk.
  all: destruct (hsp rest) as [[w r2]|] eqn:E2;
    [ destruct (hsp_sound _ _ _ E2) as [Hr _];
      destruct (preposition r2) as [[p r3]|] eqn:E3;
      [ apply preposition_sound in E3; exists (w ++ p), r3; split; [reflexivity|];
        rewrite Hr, E3, app_assoc; reflexivity
      | exists [], rest; split; reflexivity ]
    | exists [], rest; split; reflexivity ].
Qed.

(** ** The preposition itself *)
Definition ci_word (w m : str) : Prop := Forall2 (fun a c => lit_match_with true a c = true) w m.

Lemma match_ci_lit_complete w m : ci_word w m -> forall r, match_ci_lit w (m ++ r) = Some (m, r).
Proof.
  induction 1 as [|a c w m Hac _ IH]; intro r; cbn [match_ci_lit app]; [reflexivity|]. rewrite Hac, IH. reflexivity.
Qed.

Lemma ci_word_last_word w m : ci_word w m -> w <> [] ->
  forallb (fun a => forallb is_word (ci_class a)) w = true ->
  exists c, last_opt m = Some c /\ is_word c = true.
Proof.
  induction 1 as [|a c w m Hac H IH]; intros Hne Hall; [congruence|].
  simpl in Hall. apply andb_true_iff in Hall as [Ha Hall].
  destruct H as [|a' c' w' m' Hac' H'].
  - exists c. split; [reflexivity|]. unfold lit_match_with in Hac. apply memN_In in Hac.
    rewrite forallb_forall in Ha. exact (Ha c Hac).
  - destruct (IH ltac:(discriminate) Hall) as [c0 [E W]]. exists c0. split; [|exact W].
    rewrite last_opt_cons by discriminate. exact E.
Qed.

Lemma of_the_classes_word :
  forallb (fun a => forallb is_word (ci_class a)) [111; 102] = true /\
  forallb (fun a => forallb is_word (ci_class a)) [116; 104; 101] = true.
Proof. vm_compute. split; reflexivity. Qed.

(** " of the" (any horizontal spacing, any case) before a boundary. *)
Theorem preposition_of_the w1 o w2 th rest :
  hsp_run w1 -> w1 <> [] -> ci_word [111; 102] o -> hsp_run w2 -> w2 <> [] -> ci_word [116; 104; 101] th ->
  boundary_after rest ->
  hsp (w1 ++ o ++ w2 ++ th ++ rest) = Some (w1, o ++ w2 ++ th ++ rest) /\
  preposition (o ++ w2 ++ th ++ rest) = Some (o ++ w2 ++ th, rest).
Proof.
  intros H1 N1 Ho H2 N2 Ht Hb.
  assert (first_nonhsp : forall wd m r, ci_word wd m -> wd <> [] ->
            forallb (fun a => forallb is_word (ci_class a)) wd = true ->
            match m ++ r with [] => True | c :: _ => is_hsp c = false end).
  { intros wd m r Hw Hne Hall. destruct Hw as [|a c wd' m' Hac _]; [congruence|]. simpl.
    simpl in Hall. apply andb_true_iff in Hall as [Ha _]. unfold lit_match_with in Hac. apply memN_In in Hac.
    rewrite forallb_forall in Ha. specialize (Ha c Hac).
    destruct (is_hsp c) eqn:E; [|reflexivity]. unfold is_hsp in E.
    apply orb_true_iff in E as [E | E]; apply N.eqb_eq in E; subst c; vm_compute in Ha; discriminate. }
  destruct of_the_classes_word as [Co Ct].
  split.
  - unfold hsp. rewrite (span_app is_hsp w1 _ H1) by (apply (first_nonhsp _ _ _ Ho); [discriminate | exact Co]).
    destruct w1; [congruence | reflexivity].
  - unfold preposition. rewrite (match_ci_lit_complete _ _ Ho).
    assert (Hh : hsp (w2 ++ th ++ rest) = Some (w2, th ++ rest)).
    { unfold hsp. rewrite (span_app is_hsp w2 _ H2) by (apply (first_nonhsp _ _ _ Ht); [discriminate | exact Ct]).
      destruct w2; [congruence | reflexivity]. }
    rewrite Hh. rewrite (match_ci_lit_complete _ _ Ht).
    destruct (ci_word_last_word _ _ Ht ltac:(discriminate) Ct) as [c [Ec Wc]].
    assert (Hbd : word_boundary (last_opt th) (hd_error rest) = true).
    { rewrite Ec. unfold word_boundary, opt_word. rewrite Wc. destruct rest as [|c' t]; [reflexivity|].
      simpl in Hb. cbn [hd_error]. rewrite Hb. reflexivity. }
    rewrite Hbd. reflexivity.
Qed.

(** " of" before a boundary, when no "the" follows. *)
Theorem preposition_of o rest :
  ci_word [111; 102] o -> boundary_after rest ->
  (forall w r2, hsp rest = Some (w, r2) -> match_ci_lit [116; 104; 101] r2 = None) ->
  preposition (o ++ rest) = Some (o, rest).
Proof.
  intros Ho Hb Hno. destruct of_the_classes_word as [Co _].
  unfold preposition. rewrite (match_ci_lit_complete _ _ Ho).
  destruct (ci_word_last_word _ _ Ho ltac:(discriminate) Co) as [c [Ec Wc]].
  assert (Hbd : word_boundary (last_opt o) (hd_error rest) = true).
  { rewrite Ec. unfold word_boundary, opt_word. rewrite Wc. destruct rest as [|c' t]; [reflexivity|].
    simpl in Hb. cbn [hd_error]. rewrite Hb. reflexivity. }
  destruct (hsp rest) as [[w r2]|] eqn:E.
  - rewrite (Hno w r2 eq_refl). rewrite Hbd. reflexivity.
  - rewrite Hbd. reflexivity.
Qed.
