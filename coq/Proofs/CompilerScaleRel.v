(** * Compilation is parametric in the scalable numbers (1): vocabulary, names, resolve.

    [Rn] relates a number of one program to the number at the same place of
    another ([Proofs/RecipeScale.v]: [svs_R], [quantity_R], [node_R]).  When
    [Rn] preserves and reflects Python [==] ([Rn_eqb]) every name-based
    decision of [sym_compile] is the same on both programs. *)
From Coq Require Import List ZArith NArith Bool Lia.
From RG Require Import Base.Str Base.Num Model.Recipe Model.Compiler Spec.CompileSpec Spec.CompileSym
  Spec.ScaleProg Proofs.RecipeInd Proofs.RecipeScale.
Import ListNotations.
Local Open Scope nat_scope.

Section Rel.
  Variable Rn : num -> num -> Prop.
  Notation svsR := (svs_R Rn).

  Definition optamt_R (a a' : option amount) : Prop :=
    match a, a' with
    | Some x, Some y => amount_R Rn x y
    | None, None => True
    | _, _ => False
    end.

  Inductive aexpr_R : aexpr -> aexpr -> Prop :=
  | AR_Ref n n' a a' o : svsR n n' -> optamt_R a a' -> aexpr_R (ARef n a o) (ARef n' a' o)
  | AR_Step n n' ins ins' : svsR n n' -> Forall2 aexpr_R ins ins' -> aexpr_R (AStep n ins) (AStep n' ins').

  Section AInd.
    Variable P : aexpr -> aexpr -> Prop.
    Hypothesis HRf : forall n n' a a' o, svsR n n' -> optamt_R a a' -> P (ARef n a o) (ARef n' a' o).
    Hypothesis HSt : forall n n' ins ins', svsR n n' -> Forall2 aexpr_R ins ins' -> Forall2 P ins ins' ->
      P (AStep n ins) (AStep n' ins').
    Fixpoint aexpr_R_ind' e e' (H : aexpr_R e e') {struct H} : P e e' :=
      match H with
      | AR_Ref n n' a a' o Hn Ha => HRf n n' a a' o Hn Ha
      | AR_Step n n' ins ins' Hn Hi =>
          HSt n n' ins ins' Hn Hi
            ((fix go l l' (F : Forall2 aexpr_R l l') {struct F} : Forall2 P l l' :=
                match F with
                | Forall2_nil _ => Forall2_nil _
                | Forall2_cons x y hx ht => Forall2_cons x y (aexpr_R_ind' x y hx) (go _ _ ht)
                end) ins ins' Hi)
      end.
  End AInd.

  Definition out_R (o o' : svs * N) : Prop := svsR (fst o) (fst o') /\ snd o = snd o'.
  Definition astmt_R (st st' : astmt) : Prop :=
    Forall2 out_R (st_outs st) (st_outs st') /\ st_named st = st_named st' /\ aexpr_R (st_expr st) (st_expr st').
  Definition prog_R : list (list astmt) -> list (list astmt) -> Prop := Forall2 (Forall2 astmt_R).

  Inductive sym_R : sym -> sym -> Prop :=
  | SR_Ing d d' q q' : svsR d d' -> optq_R Rn q q' -> sym_R (YIng d q) (YIng d' q')
  | SR_Step d d' ins ins' : svsR d d' -> Forall2 sym_R ins ins' -> sym_R (YStep d ins) (YStep d' ins')
  | SR_Ref k k' i a a' : svsR k k' -> amount_R Rn a a' -> sym_R (YRef k i a) (YRef k' i a')
  | SR_Sub b b' ns ns' sh : sym_R b b' -> Forall2 svsR ns ns' -> sym_R (YSub b ns sh) (YSub b' ns' sh).

  Section SInd.
    Variable P : sym -> sym -> Prop.
    Hypothesis HI : forall d d' q q', svsR d d' -> optq_R Rn q q' -> P (YIng d q) (YIng d' q').
    Hypothesis HS : forall d d' ins ins', svsR d d' -> Forall2 sym_R ins ins' -> Forall2 P ins ins' ->
      P (YStep d ins) (YStep d' ins').
    Hypothesis HRf : forall k k' i a a', svsR k k' -> amount_R Rn a a' -> P (YRef k i a) (YRef k' i a').
    Hypothesis HSub : forall b b' ns ns' sh, sym_R b b' -> P b b' -> Forall2 svsR ns ns' ->
      P (YSub b ns sh) (YSub b' ns' sh).
    Fixpoint sym_R_ind' t t' (H : sym_R t t') {struct H} : P t t' :=
      match H with
      | SR_Ing d d' q q' Hd Hq => HI d d' q q' Hd Hq
      | SR_Step d d' ins ins' Hd Hi =>
          HS d d' ins ins' Hd Hi
            ((fix go l l' (F : Forall2 sym_R l l') {struct F} : Forall2 P l l' :=
                match F with
                | Forall2_nil _ => Forall2_nil _
                | Forall2_cons x y hx ht => Forall2_cons x y (sym_R_ind' x y hx) (go _ _ ht)
                end) ins ins' Hi)
      | SR_Ref k k' i a a' Hk Ha => HRf k k' i a a' Hk Ha
      | SR_Sub b b' ns ns' sh Hb Hn => HSub b b' ns ns' sh Hb (sym_R_ind' b b' Hb) Hn
      end.
  End SInd.

  Definition sroot_R (r r' : sroot) : Prop := sym_R (r_tree r) (r_tree r') /\ r_unwrap r = r_unwrap r'.
  Definition forest_R : forest -> forest -> Prop := Forall2 (Forall2 sroot_R).
End Rel.

(** ** Output-name normalisation acts on the text parts only *)
Section Names.
  Variable Rn : num -> num -> Prop.
  Variable lower : str -> str.
  Notation svsR := (svs_R Rn).

  Lemma svs_lstrip_R a a' : svsR a a' -> svsR (svs_lstrip a) (svs_lstrip a').
  Proof.
    intro H. inversion H as [|p p' l l' Hp Hl]; subst; [constructor|].
    destruct p as [x|v], p' as [x'|v']; simpl in Hp; try tauto.
    subst. unfold svs_lstrip. apply svs_norm_R. constructor; [reflexivity | exact Hl].
  Qed.

  Lemma svs_rstrip_raw_R a a' : svsR a a' -> svsR (svs_rstrip_raw a) (svs_rstrip_raw a').
  Proof.
    induction 1 as [|p p' l l' Hp Hl IH]; [constructor|].
    destruct Hl as [|q q' r r' Hq Hr].
    - destruct p as [x|v], p' as [x'|v']; simpl in Hp; try tauto.
      + subst. simpl. constructor; [reflexivity | constructor].
      + simpl. constructor; [exact Hp | constructor].
    - assert (E : forall (p0 q0 : part) r0, svs_rstrip_raw (p0 :: q0 :: r0) = p0 :: svs_rstrip_raw (q0 :: r0)).
      { intros p0 q0 r0. destruct p0; reflexivity. }
      rewrite !E. constructor; [exact Hp | exact IH].
  Qed.

  Lemma svs_rstrip_R a a' : svsR a a' -> svsR (svs_rstrip a) (svs_rstrip a').
  Proof. intro H. unfold svs_rstrip. now apply svs_norm_R, svs_rstrip_raw_R. Qed.

  Lemma svs_lower_R a a' : svsR a a' -> svsR (svs_lower lower a) (svs_lower lower a').
  Proof.
    intro H. unfold svs_lower. apply svs_norm_R.
    induction H as [|p p' l l' Hp _ IH]; [constructor|]. simpl. constructor; [|exact IH].
    destruct p as [x|v], p' as [x'|v']; simpl in *; try tauto. now subst.
  Qed.

  Lemma norm_R a a' : svsR a a' ->
    svsR (normalise_output_name lower a) (normalise_output_name lower a').
  Proof. intro H. unfold normalise_output_name. now apply svs_lower_R, svs_rstrip_R, svs_lstrip_R. Qed.

End Names.

Section Keys.
  Variable Rn : num -> num -> Prop.
  Notation svsR := (svs_R Rn).
  (** Keys: [==] is preserved and reflected. *)
  Hypothesis Rn_eqb : forall a a' b b', Rn a a' -> Rn b b' -> num_eqb a' b' = num_eqb a b.

  Lemma svs_eqb_R a a' : svsR a a' -> forall b b', svsR b b' -> svs_eqb a' b' = svs_eqb a b.
  Proof.
    induction 1 as [|p p' l l' Hp _ IH]; intros b b' Hb; inversion Hb as [|q q' r r' Hq Hr]; subst;
      try reflexivity.
    unfold svs_eqb in *. simpl. rewrite (IH _ _ Hr). f_equal.
    destruct p as [x|v], p' as [x'|v']; simpl in Hp; try tauto;
      destruct q as [y|w], q' as [y'|w']; simpl in Hq; try tauto; subst; simpl; try reflexivity.
    now apply Rn_eqb.
  Qed.
End Keys.

(** ** Resolve *)
Definition rres_R {A} (R : A -> A -> Prop) (a a' : rres A) : Prop :=
  match a, a' with
  | Res x, Res y => R x y
  | Rej k o, Rej k' o' => k = k' /\ o = o'
  | _, _ => False
  end.

Section Resolve.
  Variable Rn : num -> num -> Prop.
  Variable lower : str -> str.
  Hypothesis Rn_eqb : forall a a' b b', Rn a a' -> Rn b b' -> num_eqb a' b' = num_eqb a b.
  Notation svsR := (svs_R Rn).
  Notation norm := (normalise_output_name lower).

  Definition senv_R : senv -> senv -> Prop :=
    Forall2 (fun x y : svs * nat => svsR (fst x) (fst y) /\ snd x = snd y).

  Lemma senv_lookup_R en en' k k' : senv_R en en' -> svsR k k' ->
    senv_lookup k' en' = senv_lookup k en.
  Proof.
    intros He Hk. induction He as [|[a i] [a' i'] l l' [Ha Hi] _ IH]; [reflexivity|].
    simpl in *. subst i'. rewrite (svs_eqb_R Rn Rn_eqb a a' Ha k k' Hk), IH. reflexivity.
  Qed.

  Lemma senv_R_app en en' x x' : senv_R en en' -> senv_R x x' -> senv_R (en ++ x) (en' ++ x').
  Proof. apply Forall2_app. Qed.

  Lemma amount_or_default_R a a' : optamt_R Rn a a' ->
    amount_R Rn (amount_or_default a) (amount_or_default a').
  Proof. destruct a, a'; simpl; tauto. Qed.

  Lemma y_expr_R en en' : senv_R en en' -> forall e e', aexpr_R Rn e e' ->
    rres_R (sym_R Rn) (y_expr lower en e) (y_expr lower en' e').
  Proof.
    intros He e e' H. induction H as [n n' a a' o Hn Ha | n n' ins ins' Hn Hi IH] using aexpr_R_ind'.
    - simpl. rewrite (senv_lookup_R en en' _ _ He (norm_R Rn lower _ _ Hn)).
      destruct (senv_lookup (norm n) en) as [idx|].
      + simpl. constructor; [now apply norm_R | now apply amount_or_default_R].
      + destruct a as [[q|p]|], a' as [[q'|p']|]; simpl in Ha |- *; try tauto.
        * constructor; [exact Hn | exact Ha].
        * constructor; [exact Hn | exact I].
    - simpl.
      set (go := fix go (l : list aexpr) : rres (list sym) :=
                   match l with
                   | [] => Res []
                   | x :: rest =>
                       match y_expr lower en x with
                       | Res n0 => match go rest with Res ns => Res (n0 :: ns) | Rej k o => Rej k o end
                       | Rej k o => Rej k o
                       end
                   end).
      set (go' := fix go (l : list aexpr) : rres (list sym) :=
                   match l with
                   | [] => Res []
                   | x :: rest =>
                       match y_expr lower en' x with
                       | Res n0 => match go rest with Res ns => Res (n0 :: ns) | Rej k o => Rej k o end
                       | Rej k o => Rej k o
                       end
                   end).
      assert (G : rres_R (Forall2 (sym_R Rn)) (go ins) (go' ins')).
      { clear Hi. induction IH as [|x y l l' Hxy _ IHl]; simpl; [constructor|].
        destruct (y_expr lower en x) as [t|k o], (y_expr lower en' y) as [t'|k' o']; simpl in Hxy |- *; try tauto.
        destruct (go l) as [ts|k o], (go' l') as [ts'|k' o']; simpl in IHl |- *; try tauto.
        now constructor. }
      destruct (go ins) as [ts|k o], (go' ins') as [ts'|k' o']; simpl in G |- *; try tauto.
      now constructor.
  Qed.
End Resolve.

Definition opt_R {A} (R : A -> A -> Prop) (a a' : option A) : Prop :=
  match a, a' with Some x, Some y => R x y | None, None => True | _, _ => False end.

Section Resolve2.
  Variable Rn : num -> num -> Prop.
  Variable lower : str -> str.
  Hypothesis Rn_eqb : forall a a' b b', Rn a a' -> Rn b b' -> num_eqb a' b' = num_eqb a b.
  Notation svsR := (svs_R Rn).
  Notation norm := (normalise_output_name lower).
  Notation senvR := (senv_R Rn).

  Lemma y_define_R names names' : Forall2 (out_R Rn) names names' ->
    forall idx en en', senvR en en' ->
    rres_R senvR (y_define lower names idx en) (y_define lower names' idx en').
  Proof.
    induction 1 as [|[n o] [n' o'] l l' [Hn Ho] _ IH]; intros idx en en' He; simpl in *; [exact He|].
    subst o'. rewrite (senv_lookup_R Rn Rn_eqb en en' _ _ He (norm_R Rn lower _ _ Hn)).
    destruct (senv_lookup (norm n) en); simpl; [tauto|].
    apply IH. apply senv_R_app; [exact He|]. constructor; [|constructor].
    split; [now apply norm_R | reflexivity].
  Qed.

  Lemma y_infer_name_R t t' : sym_R Rn t t' -> opt_R svsR (y_infer_name t) (y_infer_name t').
  Proof.
    intro H. induction H as [d d' q q' Hd Hq | d d' ins ins' Hd Hi IH | k k' i a a' Hk Ha | b b' ns ns' sh Hb IHb Hn]
      using sym_R_ind'; simpl; try exact I.
    - exact Hd.
    - destruct IH as [|x y l l' Hxy Hl]; [exact I|]. destruct Hl; [exact Hxy | exact I].
  Qed.

  Definition rootenv_R (a a' : sroot * senv) : Prop := sroot_R Rn (fst a) (fst a') /\ senvR (snd a) (snd a').

  Lemma y_stmt_R st st' en en' : astmt_R Rn st st' -> senvR en en' ->
    rres_R rootenv_R (y_stmt lower st en) (y_stmt lower st' en').
  Proof.
    intros (Ho & Hnm & He) Hen. unfold y_stmt.
    pose proof (y_expr_R Rn lower Rn_eqb en en' Hen _ _ He) as HE.
    destruct (y_expr lower en (st_expr st)) as [t|k o], (y_expr lower en' (st_expr st')) as [t'|k' o'];
      simpl in HE |- *; try tauto.
    pose proof (y_infer_name_R t t' HE) as HN.
    destruct Ho as [|x x' l l' Hx Hl].
    - destruct (y_infer_name t) as [n|], (y_infer_name t') as [n'|]; simpl in HN |- *; try tauto.
      + split; [split; simpl; [|now rewrite Hnm]|].
        * constructor; [exact HE | constructor; [exact HN | constructor]].
        * apply senv_R_app; [exact Hen|]. constructor; [|constructor]. split; [now apply norm_R | reflexivity].
      + split; [split; simpl; [exact HE | now rewrite Hnm] | exact Hen].
    - pose proof (y_define_R (x :: l) (x' :: l') (Forall2_cons _ _ Hx Hl) 0 en en' Hen) as HD.
      destruct (y_define lower (x :: l) 0 en) as [e1|k o], (y_define lower (x' :: l') 0 en') as [e1'|k' o'];
        simpl in HD |- *; try tauto.
      split; [split; simpl; [|now rewrite Hnm] | exact HD].
      constructor; [exact HE|].
      assert (F : Forall2 (out_R Rn) (x :: l) (x' :: l')) by now constructor.
      change (Forall2 svsR (map fst (x :: l)) (map fst (x' :: l'))). revert F. generalize (x :: l) (x' :: l'). clear.
      induction 1 as [|a b r r' [Hab _] _ IH]; simpl; constructor; assumption.
  Qed.
End Resolve2.

Section Resolve3.
  Variable Rn : num -> num -> Prop.
  Variable lower : str -> str.
  Hypothesis Rn_eqb : forall a a' b b', Rn a a' -> Rn b b' -> num_eqb a' b' = num_eqb a b.
  Notation svsR := (svs_R Rn).
  Notation senvR := (senv_R Rn).

  Definition rootsenv_R (a a' : list sroot * senv) : Prop :=
    Forall2 (sroot_R Rn) (fst a) (fst a') /\ senvR (snd a) (snd a').

  Lemma y_block_R sts sts' : Forall2 (astmt_R Rn) sts sts' -> forall en en', senvR en en' ->
    rres_R rootsenv_R (y_block lower sts en) (y_block lower sts' en').
  Proof.
    induction 1 as [|st st' l l' Hst _ IH]; intros en en' He; simpl.
    - split; [constructor | exact He].
    - pose proof (y_stmt_R Rn lower Rn_eqb st st' en en' Hst He) as HS.
      destruct (y_stmt lower st en) as [[r e1]|k o], (y_stmt lower st' en') as [[r' e1']|k' o'];
        simpl in HS |- *; try tauto.
      destruct HS as [Hr He1]. simpl in Hr, He1.
      pose proof (IH e1 e1' He1) as HB.
      destruct (y_block lower l e1) as [[rs e2]|k o], (y_block lower l' e1') as [[rs' e2']|k' o'];
        simpl in HB |- *; try tauto.
      destruct HB as [Hrs He2]. split; simpl; [now constructor | exact He2].
  Qed.

  Definition sresolved_R (a a' : sresolved) : Prop :=
    match a, a' with
    | SResolved f keys, SResolved f' keys' => forest_R Rn f f' /\ Forall2 svsR keys keys'
    | SRejected k b o, SRejected k' b' o' => k = k' /\ b = b' /\ o = o'
    | _, _ => False
    end.

  Lemma sym_resolve_from_R p p' : prog_R Rn p p' -> forall blk en en', senvR en en' ->
    sresolved_R (sym_resolve_from lower blk p en) (sym_resolve_from lower blk p' en').
  Proof.
    induction 1 as [|b b' l l' Hb _ IH]; intros blk en en' He; simpl.
    - split; [constructor|]. induction He as [|x y r r' [Hxy _] _ IHr]; simpl; constructor; assumption.
    - pose proof (y_block_R b b' Hb en en' He) as HB.
      destruct (y_block lower b en) as [[rs e1]|k o], (y_block lower b' en') as [[rs' e1']|k' o'];
        simpl in HB |- *; try tauto.
      destruct HB as [Hrs He1]. simpl in Hrs, He1.
      pose proof (IH (S blk) e1 e1' He1) as HR.
      destruct (sym_resolve_from lower (S blk) l e1) as [f keys|k o x],
               (sym_resolve_from lower (S blk) l' e1') as [f' keys'|k' o' x'];
        simpl in HR |- *; try tauto.
      destruct HR as [Hf Hk]. split; [now constructor | exact Hk].
  Qed.

  Theorem sym_resolve_R p p' : prog_R Rn p p' ->
    sresolved_R (sym_resolve lower p) (sym_resolve lower p').
  Proof. intro H. apply sym_resolve_from_R; [exact H | constructor]. Qed.
End Resolve3.
