(** * Brace expressions: lossless tokenisation, and scaling multiplies exactly the numbers
    (C03, Markdown-prose clause; stated in Props/C13.v as [C13_brace_scale]). *)
From Coq Require Import List ZArith NArith Bool Arith Lia.
From RG Require Import Base.Str Base.Dec Base.Num Model.Recipe Model.NumFmt Model.NumParse
  Model.Brace Model.Markdown Spec.MarkdownSpec.
From RG Require Import Proofs.RecipeScale.
Import ListNotations.
Open Scope N_scope.

(** ** The source text of a token *)

Definition tok_text (t : btok) : str :=
  match t with
  | TFrac i n b1 b2 d =>
      (match i with Some (a, b0) => a ++ b0 | None => [] end) ++ n ++ b1 ++ [c_slash] ++ b2 ++ d
  | TDec a None => a
  | TDec a (Some f) => a ++ [c_dot] ++ f
  | TEsc c => [c_bslash; c]
  | TChr c => [c]
  end.

(** All steps of [finditer], including the characters it steps over. *)
Inductive atok := AT (t : btok) | ASkip (c : char).
Definition atext (a : atok) : str := match a with AT t => tok_text t | ASkip c => [c] end.

Fixpoint tokens_all_fuel (fuel : nat) (x : str) : list atok :=
  match fuel with
  | O => []
  | S f =>
      match x with
      | [] => []
      | c :: _ =>
          match next_token x with
          | (Some t, r) => AT t :: tokens_all_fuel f r
          | (None, r) => ASkip c :: tokens_all_fuel f r
          end
      end
  end.
Definition tokens_all (x : str) : list atok := tokens_all_fuel (length x) x.

Definition real_tokens (l : list atok) : list btok :=
  flat_map (fun a => match a with AT t => [t] | ASkip _ => [] end) l.

Lemma tokens_fuel_real f : forall x, tokens_fuel f x = real_tokens (tokens_all_fuel f x).
Proof.
  induction f as [|f IH]; intros x; [reflexivity|].
  destruct x as [|c x]; [reflexivity|]. cbn [tokens_fuel tokens_all_fuel].
  destruct (next_token (c :: x)) as [[t|] r]; simpl; rewrite IH; reflexivity.
Qed.

Lemma tokens_real x : tokens x = real_tokens (tokens_all x).
Proof. apply tokens_fuel_real. Qed.

(** ** Splitting lemmas *)

Lemma span_digits_split : forall x a r, span_digits x = (a, r) -> x = a ++ r.
Proof.
  induction x as [|c x IH]; intros a r H; simpl in H.
  - injection H as <- <-. reflexivity.
  - destruct (is_digit c).
    + destruct (span_digits x) as [a' r'] eqn:E. injection H as <- <-. simpl. f_equal. apply IH. reflexivity.
    + injection H as <- <-. reflexivity.
Qed.

Lemma span_blanks_split : forall x a r, span_blanks x = (a, r) -> x = a ++ r.
Proof.
  induction x as [|c x IH]; intros a r H; simpl in H.
  - injection H as <- <-. reflexivity.
  - destruct (is_blank c).
    + destruct (span_blanks x) as [a' r'] eqn:E. injection H as <- <-. simpl. f_equal. apply IH. reflexivity.
    + injection H as <- <-. reflexivity.
Qed.

Lemma match_slash_den_text x b1 b2 d r :
  match_slash_den x = Some (b1, b2, d, r) -> x = b1 ++ [c_slash] ++ b2 ++ d ++ r.
Proof.
  unfold match_slash_den. destruct (span_blanks x) as [b r0] eqn:E0.
  destruct r0 as [|c r1]; [discriminate|]. destruct (c =? c_slash) eqn:Ec; [|discriminate].
  destruct (span_blanks r1) as [b' r2] eqn:E1. destruct (span_digits r2) as [d' r3] eqn:E2.
  destruct (has_nonzero d'); [|discriminate]. intros H. injection H as <- <- <- <-.
  apply N.eqb_eq in Ec. subst c.
  rewrite (span_blanks_split _ _ _ E0), (span_blanks_split _ _ _ E1), (span_digits_split _ _ _ E2).
  reflexivity.
Qed.

Lemma is_nil_false {A} (l : list A) : is_nil l = false -> l <> [].
Proof. destruct l; [discriminate | discriminate]. Qed.

Lemma match_fraction_text x i n b1 b2 d r :
  match_fraction x = Some (i, n, b1, b2, d, r) ->
  x = tok_text (TFrac i n b1 b2 d) ++ r /\ n <> [].
Proof.
  unfold match_fraction. destruct (span_digits x) as [a r1] eqn:Ea.
  destruct (is_nil a) eqn:Na; [discriminate|].
  pose proof (span_digits_split _ _ _ Ea) as Hx.
  destruct (span_blanks r1) as [b0 r1'] eqn:Eb.
  set (wi := if is_nil b0 then None else
             let (nn, r2) := span_digits r1' in
             if is_nil nn then None else
             match match_slash_den r2 with
             | Some (b1, b2, d, r3) => Some (Some (a, b0), nn, b1, b2, d, r3)
             | None => None
             end).
  destruct wi as [[[[[[i' n'] b1'] b2'] d'] r']|] eqn:Ew.
  - intros H. injection H as <- <- <- <- <- <-. subst wi.
    destruct (is_nil b0); [discriminate|].
    destruct (span_digits r1') as [nn r2] eqn:En. destruct (is_nil nn) eqn:Nn; [discriminate|].
    destruct (match_slash_den r2) as [[[[x1 x2] x3] x4]|] eqn:Em; [|discriminate].
    injection Ew as <- <- <- <- <- <-.
    split; [|apply is_nil_false; exact Nn].
    rewrite Hx, (span_blanks_split _ _ _ Eb), (span_digits_split _ _ _ En), (match_slash_den_text _ _ _ _ _ Em).
    cbn [tok_text]. rewrite <- !app_assoc. reflexivity.
  - destruct (match_slash_den r1) as [[[[x1 x2] x3] x4]|] eqn:Em; [|discriminate].
    intros H. injection H as <- <- <- <- <- <-.
    split; [|apply is_nil_false; exact Na].
    rewrite Hx, (match_slash_den_text _ _ _ _ _ Em). cbn [tok_text]. rewrite <- !app_assoc. reflexivity.
Qed.

Lemma match_decimal_text x a f r :
  match_decimal x = Some (a, f, r) -> x = tok_text (TDec a f) ++ r /\ a <> [].
Proof.
  unfold match_decimal. destruct (span_digits x) as [a' r1] eqn:Ea.
  destruct (is_nil a') eqn:Na; [discriminate|].
  pose proof (span_digits_split _ _ _ Ea) as Hx.
  destruct r1 as [|c r2].
  - intros H. injection H as <- <- <-. split; [rewrite Hx; reflexivity | apply is_nil_false; exact Na].
  - destruct (c =? c_dot) eqn:Ec.
    + destruct (span_digits r2) as [f' r3] eqn:Ef. intros H. injection H as <- <- <-.
      apply N.eqb_eq in Ec. subst c.
      split; [|apply is_nil_false; exact Na].
      rewrite Hx, (span_digits_split _ _ _ Ef). cbn [tok_text]. rewrite <- !app_assoc. reflexivity.
    + intros H. injection H as <- <- <-. split; [rewrite Hx; reflexivity | apply is_nil_false; exact Na].
Qed.

Lemma next_token_text c x :
  match next_token (c :: x) with
  | (Some t, r) => c :: x = tok_text t ++ r /\ tok_text t <> []
  | (None, r) => r = x
  end.
Proof.
  unfold next_token.
  destruct (match_fraction (c :: x)) as [[[[[[i n] b1] b2] d] r]|] eqn:Ef.
  - destruct (match_fraction_text _ _ _ _ _ _ _ Ef) as [H Hn]. split; [exact H|].
    cbn [tok_text]. intros E. apply app_eq_nil in E as [_ E]. apply app_eq_nil in E as [E _]. contradiction.
  - destruct (match_decimal (c :: x)) as [[[a f] r]|] eqn:Ed.
    + destruct (match_decimal_text _ _ _ _ Ed) as [H Hn]. split; [exact H|].
      destruct f; cbn [tok_text]; intros E; [apply app_eq_nil in E as [E _]|]; contradiction.
    + destruct (c =? c_bslash) eqn:Eb.
      * apply N.eqb_eq in Eb. subst c. destruct x as [|e x'].
        -- split; [reflexivity | discriminate].
        -- destruct (e =? c_nl); split; try reflexivity; discriminate.
      * destruct (is_digit c || (c =? c_lbrace) || (c =? c_rbrace)); [reflexivity|].
        split; [reflexivity | discriminate].
Qed.

(** ** Every character of the source belongs to exactly one step *)

Lemma tokens_all_cover f : forall x, (length x <= f)%nat ->
  concat (map atext (tokens_all_fuel f x)) = x.
Proof.
  induction f as [|f IH]; intros x H.
  - destruct x; [reflexivity | simpl in H; lia].
  - destruct x as [|c x]; [reflexivity|]. cbn [tokens_all_fuel].
    pose proof (next_token_text c x) as Hn.
    destruct (next_token (c :: x)) as [[t|] r].
    + destruct Hn as [E Hne]. cbn [map concat atext]. rewrite IH.
      * symmetry. exact E.
      * assert (length (c :: x) = length (tok_text t) + length r)%nat by (rewrite E, app_length; reflexivity).
        destruct (tok_text t); [congruence|]. simpl in *. lia.
    + subst r. cbn [map concat atext]. rewrite IH by (simpl in H; lia). reflexivity.
Qed.

Theorem tokens_cover x : concat (map atext (tokens_all x)) = x.
Proof. apply tokens_all_cover. lia. Qed.

(** ** Which tokens become numbers *)

Definition is_number_token (t : btok) : bool :=
  match t with TFrac _ _ _ _ _ | TDec _ _ => true | _ => false end.

Lemma tok_value_kind t p : tok_value t = BOk p ->
  match p with
  | PNum _ => is_number_token t = true
  | PStr x => exists c, x = [c] /\ (t = TChr c \/ t = TEsc c)
  end.
Proof.
  destruct t as [i n b1 b2 d|a [f|]|c|c]; cbn [tok_value].
  - destruct (negb _); [discriminate|]. destruct (val_N d); [discriminate|].
    intros H. injection H as <-. reflexivity.
  - destruct (float_of_dec _ _); [|discriminate]. intros H. injection H as <-. reflexivity.
  - destruct (float_of_dec _ _); [|discriminate]. intros H. injection H as <-. reflexivity.
  - intros H. injection H as <-. exists c. split; [reflexivity | right; reflexivity].
  - intros H. injection H as <-. exists c. split; [reflexivity | left; reflexivity].
Qed.

(** ** Normal forms of scaled value strings *)

Fixpoint noadj (l : svs) : Prop :=
  match l with
  | PStr _ :: ((PStr _ :: _) as r) => False
  | _ :: r => noadj r
  | [] => True
  end.

Lemma svs_merge_noadj l : noadj (svs_merge l).
Proof.
  induction l as [|p l IH]; [exact I|]. destruct p as [x|v]; cbn [svs_merge].
  - destruct (svs_merge l) as [|[y|w] r] eqn:E; cbn [noadj] in *.
    + exact I.
    + destruct r as [|[z|w] r']; cbn [noadj] in *; tauto.
    + exact IH.
  - exact IH.
Qed.

Lemma svs_merge_fix l : noadj l -> svs_merge l = l.
Proof.
  induction l as [|p l IH]; intros H; [reflexivity|]. destruct p as [x|v]; cbn [svs_merge].
  - destruct l as [|[y|w] r]; [reflexivity | cbn [noadj] in H; contradiction|].
    cbn [noadj] in H. rewrite (IH H). reflexivity.
  - cbn [noadj] in H. rewrite (IH H). reflexivity.
Qed.

Lemma filter_noadj l : noadj l -> noadj (filter part_nonempty l).
Proof.
  induction l as [|p l IH]; intros H; [exact I|].
  destruct p as [x|v].
  - destruct l as [|[y|w] r]; [|cbn [noadj] in H; contradiction|].
    + simpl. destruct x; exact I.
    + cbn [noadj] in H. specialize (IH H). cbn [filter part_nonempty] in *.
      destruct x; cbn [noadj]; exact IH.
  - cbn [noadj] in H. specialize (IH H). cbn [filter part_nonempty]. cbn [noadj]. exact IH.
Qed.

Lemma svs_norm_idem l : svs_norm (svs_norm l) = svs_norm l.
Proof.
  unfold svs_norm. rewrite svs_merge_fix by (apply filter_noadj, svs_merge_noadj).
  induction (svs_merge l) as [|p r IH]; [reflexivity|].
  simpl. destruct (part_nonempty p) eqn:E; [|exact IH]. simpl. rewrite E, IH. reflexivity.
Qed.

(** ** Scaling *)

Theorem brace_scale alt_escape k src l l' :
  brace_parse src = BOk l -> scale_svs k l = Some l' ->
  Forall2 (fun p p' => match p, p' with
                       | PStr x, PStr y => x = y
                       | PNum v, PNum v' => nmul v k = NOk v'
                       | _, _ => False
                       end) l l' /\
  svs_scale k l = Some l' /\
  (forall x, render_svs l' = Some x -> spec_brace k src = MOk x) /\
  spec_alt alt_escape src = match svs_plain l with Some x => MOk (alt_escape x) | None => MErr EFormat end.
Proof.
  intros Hp Hs.
  assert (Hn : svs_norm l = l).
  { unfold brace_parse in Hp. destruct (brace_parts src); try discriminate. injection Hp as <-. apply svs_norm_idem. }
  pose proof (svs_normal_preserved k l l' Hn Hs) as Hn'.
  split; [exact (scale_svs_R k l l' Hs)|].
  assert (Hsc : svs_scale k l = Some l') by (unfold svs_scale; rewrite Hs; simpl; rewrite Hn'; reflexivity).
  split; [exact Hsc|]. split.
  - intros x Hx. unfold spec_brace. rewrite Hp. cbn [lift_bres mbind]. unfold spec_value. rewrite Hsc, Hx. reflexivity.
  - unfold spec_alt. rewrite Hp. reflexivity.
Qed.
