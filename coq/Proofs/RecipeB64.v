(** * [b64] returns a representable value unchanged; hence [x * 1 = x] for
    every well-formed float (used by C03: scaling by one). *)
From Coq Require Import List ZArith Bool Lia.
From RG Require Import Base.Num Proofs.LintB64.
Import ListNotations.
Open Scope Z_scope.

(** Canonical finite binary64 values: 0.0 = (0,0); otherwise odd mantissa
    below 2^53, exponent at least -1074, magnitude below 2^1024. *)
Definition wf_float (f : num) : Prop :=
  match f with
  | NFloat m e =>
      (m = 0 /\ e = 0) \/
      (Z.odd m = true /\ Z.abs m < 2 ^ 53 /\ -1074 <= e /\ e + Z.log2 (Z.abs m) <= 1023)
  | _ => False
  end.

Lemma rne_div_exact q b : 0 < b -> rne_div (q * b) b = q.
Proof.
  intro Hb. unfold rne_div. rewrite Z.div_mul by lia.
  replace (2 * (q * b - q * b)) with 0 by ring.
  destruct (0 ?= b) eqn:C; try reflexivity.
  - apply Z.compare_eq in C. lia.
  - apply Z.compare_gt_iff in C. lia.
Qed.

(** The fraction of a positive float. *)
Definition frac_of (m e : Z) : Z * Z := if 0 <=? e then (m * 2 ^ e, 1) else (m, 2 ^ (- e)).

Lemma scaled_frac_of m e j : 0 < m -> 0 <= j ->
  let (n, d) := frac_of m e in
  fst (scaled n d (e - j)) = m * 2 ^ j * snd (scaled n d (e - j)) /\ 0 < snd (scaled n d (e - j)).
Proof.
  intros Hm Hj. unfold frac_of, scaled.
  destruct (0 <=? e) eqn:E.
  - apply Z.leb_le in E. destruct (0 <=? e - j) eqn:E2; cbn [fst snd].
    + apply Z.leb_le in E2. pose proof (pow2_pos' (e - j) E2). pose proof (pow2_pos' j Hj).
      split; [|lia]. replace e with ((e - j) + j) at 1 by ring. rewrite Z.pow_add_r by lia. ring.
    + apply Z.leb_gt in E2. split; [|lia].
      replace j with (e + (- (e - j))) at 2 by ring. rewrite Z.pow_add_r by lia. ring.
  - apply Z.leb_gt in E. replace (0 <=? e - j) with false by (symmetry; apply Z.leb_gt; lia). cbn [fst snd].
    assert (0 < 2 ^ (- e)) by (apply pow2_pos'; lia). split; [|assumption].
    replace (- (e - j)) with (j + - e) by ring. rewrite Z.pow_add_r by lia. ring.
Qed.

Lemma frac_of_pos m e : 0 < m -> 0 < fst (frac_of m e) /\ 0 < snd (frac_of m e).
Proof.
  intro Hm. unfold frac_of. destruct (0 <=? e) eqn:E; simpl.
  - apply Z.leb_le in E. pose proof (pow2_pos' e E). split; nia.
  - apply Z.leb_gt in E. assert (0 < 2 ^ (- e)) by (apply pow2_pos'; lia). split; lia.
Qed.

Lemma g_frac_of m e j : 0 < m -> 0 <= j ->
  g (fst (frac_of m e)) (snd (frac_of m e)) (e - j) = m * 2 ^ j.
Proof.
  intros Hm Hj. pose proof (scaled_frac_of m e j Hm Hj) as S. rewrite g_fst_snd.
  destruct (frac_of m e) as [n d]. simpl. destruct S as [S1 S2]. rewrite S1. apply Z.div_mul. lia.
Qed.

(** Strip [j] trailing zero bits. *)
Lemma canon_pos_shift p : forall (jn : nat) x,
  canon_pos (Nat.iter jn xO p) x = canon_pos p (x + Z.of_nat jn).
Proof.
  induction jn as [|jn IH]; intro x.
  - simpl. now rewrite Z.add_0_r.
  - rewrite Nat2Z.inj_succ. simpl. rewrite IH. f_equal. lia.
Qed.

Lemma iter_xO_value p : forall jn : nat, Zpos (Nat.iter jn xO p) = Zpos p * 2 ^ Z.of_nat jn.
Proof.
  induction jn as [|jn IH]; [simpl; lia|].
  rewrite Nat2Z.inj_succ, Z.pow_succ_r by lia. simpl Nat.iter. rewrite Pos2Z.inj_xO, IH. ring.
Qed.

Lemma canon_pos_odd p x : Z.odd (Zpos p) = true -> canon_pos p x = (Zpos p, x).
Proof. destruct p; simpl; try discriminate; reflexivity. Qed.

Lemma canon_shift_pos p e j : Z.odd (Zpos p) = true -> 0 <= j ->
  canon (Zpos p * 2 ^ j) (e - j) = NFloat (Zpos p) e.
Proof.
  intros Ho Hj. rewrite <- (Z2Nat.id j Hj), <- iter_xO_value. unfold canon.
  rewrite canon_pos_shift, canon_pos_odd by exact Ho. f_equal. lia.
Qed.

Lemma canon_shift_neg p e j : Z.odd (Zpos p) = true -> 0 <= j ->
  canon (- (Zpos p * 2 ^ j)) (e - j) = NFloat (Zneg p) e.
Proof.
  intros Ho Hj. rewrite <- (Z2Nat.id j Hj), <- iter_xO_value. simpl Z.opp. unfold canon.
  rewrite canon_pos_shift, canon_pos_odd by exact Ho. simpl Z.opp. f_equal. lia.
Qed.

(** [b64_pos] on the fraction of a positive well-formed float. *)
Lemma b64_pos_exact p e :
  Z.odd (Zpos p) = true -> Zpos p < 2 ^ 53 -> -1074 <= e -> e + Z.log2 (Zpos p) <= 1023 ->
  exists j, 0 <= j /\ b64_pos (fst (frac_of (Zpos p) e)) (snd (frac_of (Zpos p) e)) = Some (Zpos p * 2 ^ j, e - j).
Proof.
  intros Ho Hlt He Hmax. set (m := Zpos p) in *. assert (Hm : 0 < m) by (unfold m; lia).
  set (L := Z.log2 m) in *. pose proof (log2_bounds m Hm) as BL. fold L in BL.
  assert (HL0 : 0 <= L) by apply Z.log2_nonneg.
  assert (HL : L <= 52).
  { destruct (Z_le_gt_dec L 52) as [|G]; [assumption|]. exfalso.
    assert (2 ^ 53 <= 2 ^ L) by (apply Z.pow_le_mono_r; lia). lia. }
  destruct (frac_of_pos m e Hm) as [Hn Hd].
  set (n := fst (frac_of m e)) in *. set (d := snd (frac_of m e)) in *.
  (* the exponent chosen *)
  assert (E1 : e1_of n d = e - (52 - L)).
  { apply (g_window_unique n d); try assumption; [now apply exp_spec|].
    unfold n, d. rewrite g_frac_of by lia.
    assert (P : 2 ^ 52 = 2 ^ L * 2 ^ (52 - L)) by (rewrite <- Z.pow_add_r by lia; f_equal; lia).
    assert (P' : 2 ^ 53 = 2 * 2 ^ L * 2 ^ (52 - L)).
    { replace 53 with (1 + 52) by lia. rewrite Z.pow_add_r by lia. rewrite P. ring. }
    assert (0 < 2 ^ (52 - L)) by (apply pow2_pos'; lia). rewrite P, P'. nia. }
  rewrite b64_pos_eq, E1.
  set (ef := Z.max (e - (52 - L)) (-1074)). set (j := e - ef).
  assert (Hj : 0 <= j) by (unfold j, ef; lia).
  assert (Hj' : j <= 52 - L) by (unfold j, ef; lia).
  exists j. split; [exact Hj|].
  unfold round_at. replace ef with (e - j) by (unfold j; ring).
  pose proof (scaled_frac_of m e j Hm Hj) as S. fold n d in S.
  assert (S' : fst (scaled n d (e - j)) = m * 2 ^ j * snd (scaled n d (e - j)) /\ 0 < snd (scaled n d (e - j))).
  { unfold n, d. destruct (frac_of m e). exact S. }
  clear S. destruct S' as [S1 S2]. destruct (scaled n d (e - j)) as [a b]. cbn [fst snd] in S1, S2. subst a.
  rewrite rne_div_exact by exact S2.
  assert (Mlt : m * 2 ^ j < 2 ^ 53).
  { assert (2 ^ j <= 2 ^ (52 - L)) by (apply Z.pow_le_mono_r; lia).
    assert (P' : 2 ^ 53 = 2 * 2 ^ L * 2 ^ (52 - L)).
    { replace 53 with (1 + L + (52 - L)) by lia. rewrite !Z.pow_add_r by lia. reflexivity. }
    assert (0 < 2 ^ j) by (apply pow2_pos'; lia). rewrite P'. nia. }
  replace (m * 2 ^ j =? 2 ^ 53) with false by (symmetry; apply Z.eqb_neq; lia).
  cbv beta iota.
  replace (971 <? e - j) with false; [reflexivity|].
  symmetry. apply Z.ltb_ge. unfold j, ef. lia.
Qed.

Lemma to_frac_float_pos p e : to_frac (NFloat (Zpos p) e) =
  (fst (frac_of (Zpos p) e), Z.to_pos (snd (frac_of (Zpos p) e))).
Proof. unfold to_frac, frac_of. destruct (0 <=? e); reflexivity. Qed.

Lemma to_frac_float_neg p e : to_frac (NFloat (Zneg p) e) =
  (- fst (frac_of (Zpos p) e), Z.to_pos (snd (frac_of (Zpos p) e))).
Proof.
  unfold to_frac, frac_of. destruct (0 <=? e); cbn [fst snd]; [|reflexivity].
  f_equal. change (Zneg p) with (- Zpos p). ring.
Qed.

(** The rounding function is the identity on well-formed floats. *)
Theorem b64_exact f : wf_float f ->
  b64 (fst (to_frac f)) (snd (to_frac f)) = Some f.
Proof.
  destruct f as [z|n d|m e]; try contradiction. intros [[-> ->]|(Ho & Hlt & He & Hmax)]; [reflexivity|].
  destruct m as [|p|p]; [discriminate| |].
  - rewrite to_frac_float_pos. simpl fst. simpl snd.
    destruct (frac_of_pos (Zpos p) e ltac:(lia)) as [Hn Hd].
    destruct (b64_pos_exact p e Ho Hlt He Hmax) as (j & Hj & B).
    unfold b64. destruct (fst (frac_of (Zpos p) e)) as [|n|n] eqn:En; try lia.
    rewrite Z2Pos.id by exact Hd. rewrite B. f_equal. now apply canon_shift_pos.
  - rewrite to_frac_float_neg. simpl fst. simpl snd.
    assert (Ho' : Z.odd (Zpos p) = true) by (rewrite <- Ho; reflexivity).
    destruct (frac_of_pos (Zpos p) e ltac:(lia)) as [Hn Hd].
    destruct (b64_pos_exact p e Ho' Hlt He Hmax) as (j & Hj & B).
    unfold b64. destruct (fst (frac_of (Zpos p) e)) as [|n|n] eqn:En; try lia. simpl Z.opp.
    rewrite Z2Pos.id by exact Hd. rewrite B. f_equal. now apply canon_shift_neg.
Qed.

(** [x * 1] (int 1) evaluates to [x] for every well-formed float. *)
Theorem nmul_one_float f : wf_float f -> nmul f (NInt 1) = NOk f.
Proof.
  intro W. pose proof (b64_exact f W) as B. destruct f as [z|n d|m e]; try contradiction.
  unfold nmul. change (to_float (NInt 1)) with (NOk (NFloat 1 0)). simpl to_float.
  unfold exact_mul. change (to_frac (NFloat 1 0)) with (1, 1%positive).
  destruct (to_frac (NFloat m e)) as [n1 d1]. simpl in B.
  rewrite Z.mul_1_r, Pos.mul_1_r. unfold round_q. now rewrite B.
Qed.
