(** * Pass 1 of the compiler model refines the declarative name resolution
    of Spec/CompileSpec.v (and never hits the MyPy assertion). *)
From Coq Require Import List ZArith NArith Bool Lia.
From RG Require Import Base.Str Base.Num Model.Recipe Model.Compiler Spec.CompileSpec
  Proofs.RecipeInd Proofs.NodeEqv Proofs.CompilerExpand.
Import ListNotations.

Section Pass1Refines.
  Variable lower : str -> str.

  Definition env_of (t : table) : env := map (fun e => (e_key e, (e_sub e, e_idx e))) t.

  Lemma env_lookup_of k t :
    env_lookup k (env_of t) = option_map (fun e => (e_sub e, e_idx e)) (lookup k t).
  Proof.
    induction t as [|e t IH]; simpl; [reflexivity|].
    destruct (svs_eqb (e_key e) k); [reflexivity|exact IH].
  Qed.

  Lemma env_of_add_ref k r t : env_of (add_ref k r t) = env_of t.
  Proof.
    induction t as [|e t IH]; simpl; [reflexivity|].
    destruct (svs_eqb (e_key e) k); simpl; [reflexivity|]. now rewrite IH.
  Qed.

  Lemma env_of_app t u : env_of (t ++ u) = env_of t ++ env_of u.
  Proof. apply map_app. Qed.

  (** The spec's inner loop, named. *)
  Definition r_list (en : env) :=
    fix go (l : list aexpr) : rres (list node) :=
      match l with
      | [] => Res []
      | x :: rest =>
          match r_expr lower en x with
          | Res n => match go rest with Res ns => Res (n :: ns) | Rej k o => Rej k o end
          | Rej k o => Rej k o
          end
      end.

  Lemma r_expr_AStep en name ins :
    r_expr lower en (AStep name ins) =
    match r_list en ins with Res ns => Res (Step name ns) | Rej k o => Rej k o end.
  Proof. reflexivity. Qed.

  Definition expr_refines (blk : nat) (e : aexpr) : Prop :=
    forall t,
      match compile_expr lower blk e t with
      | ROk n t' => r_expr lower (env_of t) e = Res n /\ env_of t' = env_of t
      | RErr k o => r_expr lower (env_of t) e = Rej k o
      end.

  Lemma compile_expr_refines blk : forall e, expr_refines blk e.
  Proof.
    induction e as [name amt off|name ins IH] using aexpr_ind'; intros t.
    - simpl. rewrite env_lookup_of.
      destruct (lookup (normalise_output_name lower name) t) as [o|]; simpl.
      + split; [reflexivity|apply env_of_add_ref].
      + destruct amt as [[q|p]|]; simpl; auto.
    - rewrite compile_expr_AStep, r_expr_AStep.
      assert (HL : match compile_list lower blk ins t with
                   | ROk ns t' => r_list (env_of t) ins = Res ns /\ env_of t' = env_of t
                   | RErr k o => r_list (env_of t) ins = Rej k o
                   end).
      { revert t. induction IH as [|x l Hx Hl IHl]; intros t; simpl; [auto|].
        specialize (Hx t). destruct (compile_expr lower blk x t) as [n1 t1|k o].
        - destruct Hx as [Hx1 Hx2]. rewrite Hx1. specialize (IHl t1). rewrite Hx2 in IHl.
          destruct (compile_list lower blk l t1) as [ns t2|k o].
          + destruct IHl as [I1 I2]. rewrite I1. split; [reflexivity|congruence].
          + rewrite IHl. reflexivity.
        - rewrite Hx. reflexivity. }
      destruct (compile_list lower blk ins t) as [ns t'|k o].
      + destruct HL as [H1 H2]. rewrite H1. auto.
      + rewrite HL. reflexivity.
  Qed.

  (** An inferred name was not defined when it was met, and expressions never add keys. *)
  Lemma lookup_add_ref_none k k' r t : lookup k t = None -> lookup k (add_ref k' r t) = None.
  Proof.
    induction t as [|e t IH]; simpl; [auto|].
    destruct (svs_eqb (e_key e) k) eqn:E; [discriminate|]. intros H.
    destruct (svs_eqb (e_key e) k'); simpl; rewrite E; auto.
  Qed.

  Definition keeps_none (blk : nat) (e : aexpr) : Prop :=
    forall t n t' k, compile_expr lower blk e t = ROk n t' -> lookup k t = None -> lookup k t' = None.

  Lemma compile_expr_keeps_none blk : forall e, keeps_none blk e.
  Proof.
    induction e as [name amt off|name ins IH] using aexpr_ind'; intros t n t' k H Hk.
    - simpl in H. destruct (lookup (normalise_output_name lower name) t).
      + inversion H; subst. apply lookup_add_ref_none; assumption.
      + destruct amt as [[q|p]|]; inversion H; subst; assumption.
    - rewrite compile_expr_AStep in H.
      destruct (compile_list lower blk ins t) as [ns t1|k0 o] eqn:E; [|discriminate]. inversion H; subst; clear H.
      revert t ns t' Hk E. induction IH as [|x l Hx Hl IHl]; intros t ns t' Hk E; simpl in E.
      + inversion E; subst; assumption.
      + destruct (compile_expr lower blk x t) as [n1 t1|k1 o1] eqn:E1; [|discriminate].
        destruct (compile_list lower blk l t1) as [ns2 t2|k2 o2] eqn:E2; [|discriminate].
        inversion E; subst. eapply IHl; [|exact E2]. eapply Hx; eauto.
  Qed.

  Lemma inferred_name_undefined blk : forall e t tree t' n,
    compile_expr lower blk e t = ROk tree t' -> infer_output_name tree = Some n ->
    lookup (normalise_output_name lower n) t' = None.
  Proof.
    induction e as [name amt off|name ins IH] using aexpr_ind'; intros t tree t' n H Hi.
    - simpl in H. destruct (lookup (normalise_output_name lower name) t) eqn:El.
      + inversion H; subst. discriminate.
      + destruct amt as [[q|p]|]; inversion H; subst; simpl in Hi; inversion Hi; subst; assumption.
    - rewrite compile_expr_AStep in H.
      destruct (compile_list lower blk ins t) as [ns t1|k0 o] eqn:E; [|discriminate]. inversion H; subst; clear H.
      simpl in Hi. destruct ns as [|x1 [|x2 ns]]; try discriminate.
      destruct ins as [|e1 ins]; simpl in E; [inversion E|].
      destruct (compile_expr lower blk e1 t) as [n1 t1|k1 o1] eqn:E1; [|discriminate].
      destruct (compile_list lower blk ins t1) as [ns2 t2|k2 o2] eqn:E2; [|discriminate].
      inversion E; subst. destruct ins as [|e2 ins]; simpl in E2.
      + inversion E2; subst. inversion IH; subst. eauto.
      + destruct (compile_expr lower blk e2 t1); [|discriminate].
        destruct (compile_list lower blk ins t0); discriminate.
  Qed.

  (** Registering explicit outputs = the spec's [r_define]. *)
  Lemma register_refines blk sub unwrap : forall (outs : list (svs * N)) idx t,
    match register lower blk sub unwrap (map fst outs) (map (fun p => Some (snd p)) outs) idx t with
    | inl (ROk _ t') => r_define lower sub outs idx (env_of t) = Res (env_of t')
    | inl (RErr k o) => r_define lower sub outs idx (env_of t) = Rej k o
    | inr _ => False
    end.
  Proof.
    induction outs as [|[nm off] outs IH]; intros idx t; simpl; [reflexivity|].
    rewrite env_lookup_of.
    destruct (lookup (normalise_output_name lower nm) t); simpl; [reflexivity|].
    specialize (IH (S idx) (t ++ [mkEntry (normalise_output_name lower nm) blk sub idx [] unwrap])).
    rewrite env_of_app in IH. simpl in IH. exact IH.
  Qed.

  Lemma compile_stmt_refines blk st t :
    match compile_stmt lower blk st t with
    | SOk tree t' => r_stmt lower st (env_of t) = Res (tree, env_of t')
    | SErr k o => r_stmt lower st (env_of t) = Rej k o
    | SCrash _ => False
    end.
  Proof.
    unfold compile_stmt, r_stmt.
    pose proof (compile_expr_refines blk (st_expr st) t) as HE.
    destruct (compile_expr lower blk (st_expr st) t) as [tree t1|k o] eqn:E; [|rewrite HE; exact I || reflexivity].
    destruct HE as [HE1 HE2]. rewrite HE1.
    destruct (st_outs st) as [|[nm off] outs] eqn:Eo.
    - simpl. destruct (infer_output_name tree) as [n|] eqn:Ei.
      + simpl. pose proof (inferred_name_undefined _ _ _ _ _ _ E Ei) as Hn. rewrite Hn.
        rewrite env_of_app, HE2. reflexivity.
      + rewrite HE2. reflexivity.
    - cbn [map fst snd]. cbv iota beta.
      pose proof (register_refines blk (SubRecipe tree (nm :: map fst outs) (negb false)) (negb (st_named st))
                    ((nm, off) :: outs) 0 t1) as HR.
      cbn [map fst snd] in HR.
      destruct (register lower blk (SubRecipe tree (nm :: map fst outs) (negb false)) (negb (st_named st))
                  (nm :: map fst outs) (Some off :: map (fun p => Some (snd p)) outs) 0 t1) as [[[] t2|k o]|c0].
      + rewrite <- HE2. simpl negb in HR. rewrite HR. reflexivity.
      + rewrite <- HE2. simpl negb in HR. rewrite HR. reflexivity.
      + contradiction.
  Qed.

  Lemma compile_block_refines blk : forall sts t,
    match compile_block lower blk sts t with
    | BOk trees t' => r_block lower sts (env_of t) = Res (trees, env_of t')
    | BErr k o => r_block lower sts (env_of t) = Rej k o
    | BCrash _ => False
    end.
  Proof.
    induction sts as [|st sts IH]; intros t; simpl; [reflexivity|].
    pose proof (compile_stmt_refines blk st t) as HS.
    destruct (compile_stmt lower blk st t) as [tree t1|k o|c0]; [|rewrite HS; reflexivity|contradiction].
    rewrite HS. specialize (IH t1).
    destruct (compile_block lower blk sts t1) as [trees t2|k o|c0]; [|rewrite IH; reflexivity|contradiction].
    rewrite IH. reflexivity.
  Qed.

  Lemma pass1_from_refines : forall p blk t,
    match pass1_from lower blk p t with
    | P1Ok bs _ => resolve_from lower blk p (env_of t) = Resolved bs
    | P1Err k b o => resolve_from lower blk p (env_of t) = Rejected k b o
    | P1Crash _ => False
    end.
  Proof.
    induction p as [|b p IH]; intros blk t; simpl; [reflexivity|].
    pose proof (compile_block_refines blk b t) as HB.
    destruct (compile_block lower blk b t) as [trees t1|k o|c0]; [|rewrite HB; reflexivity|contradiction].
    rewrite HB. specialize (IH (S blk) t1).
    destruct (pass1_from lower (S blk) p t1) as [bs t2|k bl o|c0]; [|rewrite IH; reflexivity|contradiction].
    rewrite IH. reflexivity.
  Qed.

  Theorem pass1_refines_resolve p :
    match pass1 lower p with
    | P1Ok bs _ => resolve lower p = Resolved bs
    | P1Err k b o => resolve lower p = Rejected k b o
    | P1Crash _ => False
    end.
  Proof. exact (pass1_from_refines p 0 []). Qed.
End Pass1Refines.
