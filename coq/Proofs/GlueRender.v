(** * Glue for C04: the composed model of [render_recipe_tree]
    (Model/RenderTree.v) on well-formed trees.

    - every label of the drawing is a path of the tree, leading to a node of
      the label's kind ([drawn_resolves]); hence the rows of cells with their
      values exist ([tree_rows_ok]) and the composed model never ends in a
      layout error or [TNoNode] on a well-formed tree;
    - when it returns a text, the text is [render_table] of these rows: every
      [<td>] is [Html.render_cell] of the cell with the node drawn there, the
      spans of the rows are the spans of [emit] (Model/HtmlTable.v) so the
      browser's table is the abstract grid, and the whole text tokenizes to
      the skeleton table / tr / cells. *)
From Coq Require Import List ZArith NArith Bool Lia String.
From RG Require Import Base.Str Base.Num Model.Recipe Model.Table Model.Layout Model.HtmlTable Model.Units
  Model.Html Model.RenderTree Spec.LayoutSpec
  Proofs.RecipeInd Proofs.LayoutRefine Proofs.LayoutProps Proofs.HtmlTableEmit Proofs.HtmlTablePlace Proofs.HtmlTableMore.
Import ListNotations.
Local Open Scope N_scope.

(** ** Paths of the drawing lead to nodes of the right kind *)

Definition kind_of_node (v : node) : kind :=
  match v with
  | Ingredient _ _ => KIngredient
  | Reference _ _ _ => KReference
  | Step _ _ => KStep
  | SubRecipe _ [_] _ => KHeader
  | SubRecipe _ _ _ => KOutputs
  end.

Lemma node_at_app : forall p t q v, node_at t p = Some v -> node_at t (p ++ q) = node_at v q.
Proof.
  induction p as [|i p IH]; intros t q v H; simpl in *.
  - inversion H; reflexivity.
  - destruct t as [d qq|d ins|sr ix am|b ns sh]; try discriminate.
    + destruct (nth_error ins i) as [x|]; [|discriminate]. now apply IH.
    + destruct i; [|discriminate]. now apply IH.
Qed.

Lemma drawn_resolves : forall t p0 k p,
  In (k, p) (drawn p0 (ltree_of_node t)) ->
  exists q v, p = (p0 ++ q)%list /\ node_at t q = Some v /\ kind_of_node v = k.
Proof.
  induction t as [d qq|d ins IH|sr ix am IH|b ns sh IH] using node_ind'; intros p0 k p H.
  - simpl in H. destruct H as [H|[]]. inversion H; subst. exists [], (Ingredient d qq).
    rewrite app_nil_r. repeat split.
  - cbn [ltree_of_node drawn] in H. apply in_app_or in H. destruct H as [H|[H|[]]].
    + assert (G : forall l i, Forall (fun t => forall p0 k p, In (k, p) (drawn p0 (ltree_of_node t)) ->
                     exists q v, p = (p0 ++ q)%list /\ node_at t q = Some v /\ kind_of_node v = k) l ->
                  In (k, p) (concat_i (fun i x => drawn (p0 ++ [i]) x) i (map ltree_of_node l)) ->
                  exists j x q v, nth_error l j = Some x /\ p = (p0 ++ (i + j)%nat :: q)%list /\
                                  node_at x q = Some v /\ kind_of_node v = k).
      { induction l as [|x l IHl]; intros i HF Hin; simpl in Hin; [destruct Hin|].
        inversion HF as [|? ? Hx Hl]; subst. apply in_app_or in Hin. destruct Hin as [Hin|Hin].
        - destruct (Hx _ _ _ Hin) as (q & v & -> & Hn & Hk). exists 0%nat, x, q, v.
          rewrite Nat.add_0_r, <- app_assoc. repeat split; assumption.
        - destruct (IHl (S i) Hl Hin) as (j & y & q & v & Hj & -> & Hn & Hk).
          exists (S j), y, q, v. rewrite Nat.add_succ_r. repeat split; assumption. }
      destruct (G ins 0%nat IH H) as (j & x & q & v & Hj & -> & Hn & Hk).
      exists (j :: q), v. simpl. rewrite Hj. repeat split; assumption.
    + inversion H; subst. exists [], (Step d ins). rewrite app_nil_r. repeat split.
  - simpl in H. destruct H as [H|[]]. inversion H; subst. exists [], (Reference sr ix am).
    rewrite app_nil_r. repeat split.
  - assert (Hb : In (k, p) (drawn (p0 ++ [0%nat]) (ltree_of_node b)) ->
                 exists q v, p = (p0 ++ q)%list /\ node_at (SubRecipe b ns sh) q = Some v /\ kind_of_node v = k).
    { intro Hin. destruct (IH _ _ _ Hin) as (q & v & -> & Hn & Hk). exists (0%nat :: q), v.
      rewrite <- app_assoc. repeat split; assumption. }
    cbn [ltree_of_node drawn] in H. destruct (Nat.eqb (List.length ns) 1) eqn:En.
    + apply Nat.eqb_eq in En. destruct ns as [|nm [|? ?]]; try discriminate.
      destruct sh; [destruct H as [H|H]|]; try (now apply Hb).
      inversion H; subst. exists [], (SubRecipe b [nm] true). rewrite app_nil_r. repeat split.
    + apply in_app_or in H. destruct H as [H|[H|[]]]; [now apply Hb|].
      inversion H; subst. exists [], (SubRecipe b ns sh). rewrite app_nil_r. repeat split.
      destruct ns as [|nm [|? ?]]; try reflexivity. discriminate.
Qed.

(** ** The rows of cells with their values *)

Lemma row_cells_in tb r c : In c (row_cells tb r) -> exists e, In e (t_cells tb) /\ c = e_cell e.
Proof.
  unfold row_cells. intro Hx. apply in_flat_map in Hx as (col & _ & Hx).
  unfold grid, lookup in Hx.
  destruct (find (fun e => covers e r col) (t_cells tb)) as [e|] eqn:E; [|destruct Hx].
  apply find_some in E as [He _].
  destruct ((e_row e =? r) && (e_col e =? col)); [|destruct Hx].
  destruct Hx as [<-|[]]. eauto.
Qed.

(** [hc] is the cell [c] with the node its label points at, of the label's kind. *)
Definition hcell_for (t : node) (c : cell) (hc : hcell) : Prop :=
  node_at t (snd (c_label c)) = Some (hc_value hc) /\ kind_of_node (hc_value hc) = fst (c_label c) /\
  hc_rows hc = c_rows c /\ hc_cols hc = c_cols c /\
  hc_left hc = c_bl c /\ hc_right hc = c_br c /\ hc_top hc = c_bt c /\ hc_bottom hc = c_bb c.

Lemma hcell_of_drawn t c :
  In (c_label c) (drawn [] (ltree_of_node t)) ->
  exists hc, hcell_of t c = Some hc /\ hcell_for t c hc.
Proof.
  intro H. destruct (c_label c) as [k p] eqn:El.
  destruct (drawn_resolves t [] k p H) as (q & v & Hp & Hn & Hk). simpl in Hp. subst q.
  unfold hcell_of. rewrite El. cbn [snd]. rewrite Hn. eexists. split; [reflexivity|].
  unfold hcell_for. rewrite El. cbn. repeat split; assumption.
Qed.

Lemma map_opt_h_ok t : forall cs,
  (forall c, In c cs -> exists hc, hcell_of t c = Some hc /\ hcell_for t c hc) ->
  exists hs, map_opt_h t cs = Some hs /\ Forall2 (hcell_for t) cs hs.
Proof.
  induction cs as [|c cs IH]; intro H; simpl.
  - exists []. split; [reflexivity|constructor].
  - destruct (H c (or_introl eq_refl)) as (hc & E & Hf).
    destruct IH as (hs & Ehs & HF); [intros c' Hc'; apply H; now right|].
    rewrite E, Ehs. exists (hc :: hs). split; [reflexivity|constructor; assumption].
Qed.

Lemma all_some_ok {A B} (R : A -> B -> Prop) (f : A -> option B) : forall l,
  (forall x, In x l -> exists y, f x = Some y /\ R x y) ->
  exists ys, all_some (map f l) = Some ys /\ Forall2 R l ys.
Proof.
  induction l as [|x l IH]; intro H; simpl.
  - exists []. split; [reflexivity|constructor].
  - destruct (H x (or_introl eq_refl)) as (y & E & Hr).
    destruct IH as (ys & Eys & HF); [intros x' Hx'; apply H; now right|].
    rewrite E, Eys. exists (y :: ys). split; [reflexivity|constructor; assumption].
Qed.

Definition rows_for (t : node) (tb : table) (rows : list (list hcell)) : Prop :=
  Forall2 (fun r hs => Forall2 (hcell_for t) (row_cells tb r) hs) (nseq (t_rows tb)) rows.

Theorem tree_rows_ok t :
  wf (ltree_of_node t) = true ->
  exists rows, tree_rows t (spec_table (ltree_of_node t)) = Some rows /\
               rows_for t (spec_table (ltree_of_node t)) rows.
Proof.
  intro Hwf. set (lt := ltree_of_node t) in *. set (tb := spec_table lt).
  pose proof (layout_refines_spec lt Hwf) as E.
  pose proof (exactly_once lt tb Hwf E) as Hl.
  unfold tree_rows, rows_for.
  apply (all_some_ok (fun r hs => Forall2 (hcell_for t) (row_cells tb r) hs)
                     (fun r => map_opt_h t (row_cells tb r))).
  intros r _. apply map_opt_h_ok. intros c Hc.
  destruct (row_cells_in tb r c Hc) as (e & He & ->). apply hcell_of_drawn.
  fold lt. rewrite <- Hl. unfold labels. apply in_map_iff. exists e. split; [reflexivity|exact He].
Qed.

Lemma tree_rows_fast_eq t tb : tree_rows_fast t tb = tree_rows t tb.
Proof.
  unfold tree_rows_fast, tree_rows. f_equal. apply map_ext. intro r. now rewrite row_cells_row_table.
Qed.

Theorem render_fast_eq t prefix : render_recipe_tree_fast t prefix = render_recipe_tree_model t prefix.
Proof.
  unfold render_recipe_tree_fast, render_recipe_tree_model.
  destruct (recipe_tree_to_table (ltree_of_node t)); [|reflexivity]. now rewrite tree_rows_fast_eq.
Qed.

(** (i) On a well-formed tree: a text, or an exception out of the cell rendering. *)
Theorem render_wf_cases t prefix :
  wf (ltree_of_node t) = true ->
  exists rows, tree_rows t (spec_table (ltree_of_node t)) = Some rows /\
               rows_for t (spec_table (ltree_of_node t)) rows /\
               render_recipe_tree_model t prefix =
               match render_recipe_tree_with t rows prefix with
               | Units.Ok h => TOk h
               | Units.Err e => THtml e
               end.
Proof.
  intro Hwf. destruct (tree_rows_ok t Hwf) as (rows & Er & Hr). exists rows. split; [exact Er|]. split; [exact Hr|].
  unfold render_recipe_tree_model. rewrite (layout_refines_spec _ Hwf), Er. reflexivity.
Qed.

Theorem render_never_layout_error t prefix :
  wf (ltree_of_node t) = true ->
  (exists h, render_recipe_tree_model t prefix = TOk h) \/
  (exists e, render_recipe_tree_model t prefix = THtml e).
Proof.
  intro Hwf. destruct (render_wf_cases t prefix Hwf) as (rows & _ & _ & ->).
  destruct (render_recipe_tree_with t rows prefix); eauto.
Qed.

(** ** (ii) The text is [render_table] of these rows *)

Lemma render_cells_ok p : forall cs xs, render_cells cs p = Units.Ok xs ->
  Forall2 (fun hc x => Html.render_cell hc p = Units.Ok x) cs xs.
Proof.
  induction cs as [|c cs IH]; intros xs H; simpl in H.
  - inversion H; constructor.
  - destruct (Html.render_cell c p) as [x|] eqn:E; [|discriminate].
    destruct (render_cells cs p) as [r|]; [|discriminate]. inversion H; subst.
    constructor; [exact E|now apply IH].
Qed.

(** [t("tr", "\n".join(cells))] *)
Definition tr_text (tds : list str) : str := Html.t (s "tr") (Some (join [10] tds)) [].

Lemma render_rows_ok p : forall rows trs, render_rows rows p = Units.Ok trs ->
  exists tds, Forall2 (Forall2 (fun hc x => Html.render_cell hc p = Units.Ok x)) rows tds /\
              trs = map tr_text tds.
Proof.
  induction rows as [|r rows IH]; intros trs H; simpl in H.
  - inversion H. exists []. split; [constructor|reflexivity].
  - destruct (render_cells r p) as [cells|] eqn:E; [|discriminate].
    destruct (render_rows rows p) as [rs|] eqn:E2; [|discriminate]. inversion H; subst.
    destruct (IH rs eq_refl) as (tds & HF & ->). exists (cells :: tds).
    split; [constructor; [now apply render_cells_ok|exact HF]|reflexivity].
Qed.

Definition id_attr (id : option str) : list (str * str) :=
  match id with Some i => [(s "id", i)] | None => [] end.

(** [t("table", "\n".join(rows), class_="rg-table", id=...)] *)
Definition table_text (tds : list (list str)) (id : option str) : str :=
  Html.t (s "table") (Some (join [10] (map tr_text tds))) (cls "rg-table" :: id_attr id).

Lemma render_with_ok t rows p h : render_recipe_tree_with t rows p = Units.Ok h ->
  exists id tds, table_id t p = Units.Ok id /\
    Forall2 (Forall2 (fun hc x => Html.render_cell hc p = Units.Ok x)) rows tds /\
    h = table_text tds id.
Proof.
  unfold render_recipe_tree_with, render_table. intro H.
  destruct (table_id t p) as [id|] eqn:Ei; [|discriminate].
  destruct (render_rows rows p) as [trs|] eqn:Er; [|discriminate]. inversion H; subst.
  destruct (render_rows_ok p rows trs Er) as (tds & HF & ->). exists id, tds. repeat split; auto.
Qed.

Definition hcell_spans (hc : hcell) : N * N := (hc_rows hc, hc_cols hc).

Lemma rows_for_spans t tb rows body : rows_for t tb rows ->
  map (map hcell_spans) rows = spans (emit body tb).
Proof.
  unfold rows_for, spans, emit. generalize (nseq (t_rows tb)).
  induction 1 as [|r hs rs rows Hr _ IH]; simpl; [reflexivity|]. f_equal; [|exact IH].
  clear IH. induction Hr as [|c hc cs hs Hc _ IHc]; simpl; [reflexivity|]. f_equal; [|exact IHc].
  rewrite td_spans_render. destruct Hc as (_ & _ & Hr & Hc & _). unfold hcell_spans. now rewrite Hr, Hc.
Qed.

(** The class attribute and the body of a [<td>] *)
Lemma render_cell_body_kind v p k b : render_cell_body v p = Units.Ok (k, b) -> k = kind_class (kind_of_node v).
Proof.
  destruct v as [d q|d ins|sr i a|bd ns sh]; simpl; intro H.
  - destruct (render_ingredient d q); inversion H; reflexivity.
  - destruct (render_svs d); inversion H; reflexivity.
  - destruct (render_reference sr i a p); inversion H; reflexivity.
  - destruct ns as [|nm [|n2 r]].
    + destruct (render_sub_recipe_outputs [] p); inversion H; reflexivity.
    + destruct (render_svs nm); inversion H; reflexivity.
    + destruct (render_sub_recipe_outputs (nm :: n2 :: r) p); inversion H; reflexivity.
Qed.

Lemma border_class_same (e : string) b : Html.border_class e b = HtmlTable.border_class (s e) b.
Proof. destruct b; reflexivity. Qed.

Lemma render_cell_td t c hc p x : hcell_for t c hc -> Html.render_cell hc p = Units.Ok x ->
  exists body, render_cell_body (hc_value hc) p = Units.Ok (kind_class (fst (c_label c)), body) /\
               x = Html.t (s "td") (Some body) ((s "class_", join [32] (cell_classes c)) :: Html.span_attrs hc).
Proof.
  intros (_ & Hk & _ & _ & Hl & Hr & Ht & Hb) H. unfold Html.render_cell in H.
  destruct (render_cell_body (hc_value hc) p) as [[k body]|] eqn:E; [|discriminate].
  pose proof (render_cell_body_kind _ _ _ _ E) as ->. rewrite Hk in *.
  exists body. split; [reflexivity|]. inversion H; subst. unfold cell_classes.
  rewrite !border_class_same, Hl, Hr, Ht, Hb. reflexivity.
Qed.

Theorem render_structure t prefix h :
  wf (ltree_of_node t) = true -> render_recipe_tree_model t prefix = TOk h ->
  let tb := spec_table (ltree_of_node t) in
  exists rows tds id,
    recipe_tree_to_table (ltree_of_node t) = Table.Ok tb /\
    tree_rows t tb = Some rows /\ rows_for t tb rows /\
    table_id t prefix = Units.Ok id /\
    Forall2 (Forall2 (fun hc x => Html.render_cell hc prefix = Units.Ok x)) rows tds /\
    h = table_text tds id /\
    (forall body, map (map hcell_spans) rows = spans (emit body tb)) /\
    html_place (map (map hcell_spans) rows) = Some (geometry tb).
Proof.
  intros Hwf H tb. destruct (render_wf_cases t prefix Hwf) as (rows & Er & Hr & E). rewrite E in H.
  destruct (render_recipe_tree_with t rows prefix) as [h'|] eqn:Ew; [|discriminate]. inversion H; subst h'.
  destruct (render_with_ok _ _ _ _ Ew) as (id & tds & Hid & HF & Hh).
  exists rows, tds, id. split; [exact (layout_refines_spec _ Hwf)|].
  repeat (split; [assumption|]). split; [intro body; now apply (rows_for_spans t)|].
  rewrite (rows_for_spans t tb rows (fun _ => []) Hr).
  destruct (html_realises_tree (fun _ => []) _ Hwf) as (tb' & E' & _ & Hp).
  rewrite (layout_refines_spec _ Hwf) in E'. inversion E'; subst tb'. exact Hp.
Qed.

(** ** Tokens: every [<td>] is inert, and the skeleton of the whole text *)
From RG Require Import Model.HtmlTok Proofs.HtmlTag Proofs.HtmlIndent Proofs.HtmlCells Proofs.HtmlAlpha
  Proofs.HtmlText Proofs.HtmlCellText Proofs.HtmlInert.

Definition td_inert (hc : hcell) (x : str) : Prop :=
  tag_skeleton (tokenize x) = cell_skel hc /\
  skel_clean (cell_skel hc) = true /\
  cell_skel (alpha_cell hc) = cell_skel hc /\
  sq (visible_text (tokenize x)) = sq (cell_amount_text (hc_value hc) ++ cell_description_text (hc_value hc)).

Lemma Forall2_impl2 {A B} (R S : A -> B -> Prop) : (forall a b, R a b -> S a b) ->
  forall l l', Forall2 R l l' -> Forall2 S l l'.
Proof. intros H l l' HF. induction HF; constructor; auto. Qed.

Theorem render_cells_inert t prefix h :
  val_ok prefix -> wf (ltree_of_node t) = true -> render_recipe_tree_model t prefix = TOk h ->
  exists rows tds id,
    rows_for t (spec_table (ltree_of_node t)) rows /\ h = table_text tds id /\
    Forall2 (Forall2 td_inert) rows tds.
Proof.
  intros Hp Hwf H. destruct (render_structure t prefix h Hwf H) as (rows & tds & id & _ & _ & Hr & _ & HF & Hh & _).
  exists rows, tds, id. repeat split; try assumption.
  eapply Forall2_impl2; [|exact HF]. intros r xs Hrx. eapply Forall2_impl2; [|exact Hrx].
  intros hc x Hx. exact (cell_inert hc prefix x Hp Hx).
Qed.

Definition tag_tr : str := s "tr".
Definition tag_table : str := s "table".
Definition row_skel (hs : list hcell) : list skel :=
  KStart tag_tr [] false :: List.concat (map cell_skel hs) ++ [KEnd tag_tr].
Definition table_skel (rows : list (list hcell)) (id : option str) : list skel :=
  KStart tag_table (a_class :: match id with Some _ => [s "id"] | None => [] end) false
  :: List.concat (map row_skel rows) ++ [KEnd tag_table].

Lemma Good_cells p : forall hs xs, val_ok p ->
  Forall2 (fun hc x => Html.render_cell hc p = Units.Ok x) hs xs -> Forall2 Good xs (map cell_skel hs).
Proof.
  intros hs xs Hp HF. induction HF as [|hc x hs xs Hx _ IH]; simpl; constructor; [|exact IH].
  exact (Good_render_cell hc p x Hp Hx).
Qed.

Lemma Good_tr p hs xs : val_ok p ->
  Forall2 (fun hc x => Html.render_cell hc p = Units.Ok x) hs xs -> Good (tr_text xs) (row_skel hs).
Proof.
  intros Hp HF. unfold tr_text, row_skel.
  apply (Good_t (s "tr") (join [10] xs) [] (List.concat (map cell_skel hs))); [tag_const|constructor|].
  apply Good_join_nl. now apply (Good_cells p).
Qed.

Theorem Good_table p rows tds id : val_ok p -> (forall i, id = Some i -> val_ok i) ->
  Forall2 (Forall2 (fun hc x => Html.render_cell hc p = Units.Ok x)) rows tds ->
  Good (table_text tds id) (table_skel rows id).
Proof.
  intros Hp Hid HF. unfold table_text, table_skel.
  assert (Ha : attrs_ok (cls "rg-table" :: id_attr id)).
  { apply attrs_ok_cons; [aname_const|val_const|]. destruct id as [i|]; [|constructor].
    apply attrs_ok_cons; [aname_const|now apply Hid|constructor]. }
  pose proof (Good_t (s "table") (join [10] (map tr_text tds)) (cls "rg-table" :: id_attr id)
                (List.concat (map row_skel rows))) as G.
  assert (Hn : map fst (out_attrs (cls "rg-table" :: id_attr id))
               = a_class :: match id with Some _ => [s "id"] | None => [] end).
  { destruct id; reflexivity. }
  rewrite Hn in G. apply G; [tag_const|exact Ha|]. apply Good_join_nl.
  clear G Hn Ha. induction HF as [|hs xs rows tds Hx _ IH]; simpl; constructor; [|exact IH].
  now apply (Good_tr p).
Qed.

Lemma table_id_val_ok t p id : val_ok p -> table_id t p = Units.Ok id -> forall i, id = Some i -> val_ok i.
Proof.
  intros Hp H i ->. unfold table_id in H. destruct t as [| | |b ns sh]; try discriminate.
  destruct ns as [|nm [|? ?]]; try discriminate.
  destruct (generate_subrecipe_output_id [nm] 0 p) as [j|] eqn:E; [|discriminate]. inversion H; subst.
  exact (id_val_ok _ _ _ _ Hp E).
Qed.

(** The whole text, read by the tokenizer specification: one table element
    holding one [tr] per row, each holding the skeletons of its cells, nothing else. *)
Theorem render_table_skeleton t prefix h :
  val_ok prefix -> wf (ltree_of_node t) = true -> render_recipe_tree_model t prefix = TOk h ->
  exists rows id,
    rows_for t (spec_table (ltree_of_node t)) rows /\ table_id t prefix = Units.Ok id /\
    tag_skeleton (tokenize h) = table_skel rows id.
Proof.
  intros Hp Hwf H. destruct (render_structure t prefix h Hwf H) as (rows & tds & id & _ & _ & Hr & Hid & HF & -> & _).
  exists rows, id. repeat split; try assumption.
  apply Good_tokenize. apply (Good_table prefix); [exact Hp|exact (table_id_val_ok t prefix id Hp Hid)|exact HF].
Qed.

(** ** All of it in one predicate, and the compiled trees *)
From RG Require Import Model.Compiler Model.Parser Proofs.PipelineWf Proofs.GlueValid.

Definition renders_as_specified (t : node) (prefix : str) : Prop :=
  let tb := spec_table (ltree_of_node t) in
  ((exists h, render_recipe_tree_model t prefix = TOk h) \/
   (exists e, render_recipe_tree_model t prefix = THtml e)) /\
  forall h, render_recipe_tree_model t prefix = TOk h ->
    exists rows tds id,
      recipe_tree_to_table (ltree_of_node t) = Table.Ok tb /\
      tree_rows t tb = Some rows /\ rows_for t tb rows /\
      table_id t prefix = Units.Ok id /\
      Forall2 (Forall2 (fun hc x => Html.render_cell hc prefix = Units.Ok x)) rows tds /\
      h = table_text tds id /\
      html_place (map (map hcell_spans) rows) = Some (geometry tb) /\
      (val_ok prefix ->
         Forall2 (Forall2 td_inert) rows tds /\ tag_skeleton (tokenize h) = table_skel rows id).

Theorem wf_renders_as_specified t prefix :
  wf (ltree_of_node t) = true -> renders_as_specified t prefix.
Proof.
  intro Hwf. split; [now apply render_never_layout_error|]. intros h H.
  destruct (render_structure t prefix h Hwf H) as (rows & tds & id & E & Er & Hr & Hid & HF & Hh & _ & Hp).
  exists rows, tds, id. repeat (split; [assumption|]). intro Hv. split.
  - eapply Forall2_impl2; [|exact HF]. intros r xs Hrx. eapply Forall2_impl2; [|exact Hrx].
    intros hc x Hx. exact (cell_inert hc prefix x Hv Hx).
  - subst h. apply Good_tokenize.
    apply (Good_table prefix); [exact Hv|exact (table_id_val_ok t prefix id Hv Hid)|exact HF].
Qed.

Theorem compiled_tree_renders convert tol lower p bs :
  ast_steps_nonempty p = true -> compile_ast convert tol lower p = COk bs ->
  forall trees t prefix, In trees bs -> In t trees -> renders_as_specified t prefix.
Proof.
  intros Hp H trees t prefix Hb Ht. apply wf_renders_as_specified. eapply compile_output_wf; eauto.
Qed.

Theorem compiled_scaled_tree_renders convert tol lower p bs k bs' :
  ast_steps_nonempty p = true -> compile_ast convert tol lower p = COk bs -> scale_blocks k bs = Some bs' ->
  forall trees t prefix, In trees bs' -> In t trees -> renders_as_specified t prefix.
Proof.
  intros Hp H Hs trees t prefix Hb Ht. apply wf_renders_as_specified.
  eapply scale_blocks_wf; [exact Hs| |exact Hb|exact Ht]. eapply compile_output_wf; eauto.
Qed.

Theorem source_tree_renders srcs bs :
  compile_src srcs = SrcOk bs ->
  forall trees t prefix, In trees bs -> In t trees -> renders_as_specified t prefix.
Proof.
  intros H trees t prefix Hb Ht. apply wf_renders_as_specified. eapply compile_src_output_wf; eauto.
Qed.

Theorem source_scaled_tree_renders srcs bs k bs' :
  compile_src srcs = SrcOk bs -> scale_blocks k bs = Some bs' ->
  forall trees t prefix, In trees bs' -> In t trees -> renders_as_specified t prefix.
Proof.
  intros H Hs trees t prefix Hb Ht. apply wf_renders_as_specified.
  eapply scale_blocks_wf; [exact Hs| |exact Hb|exact Ht]. eapply compile_src_output_wf; eauto.
Qed.
