(** * Compiler invariants, part 5: one folding step of pass 2 preserves the
    invariants; its [remove] always finds the definition. *)
From Coq Require Import List ZArith NArith Bool Lia.
From RG Require Import Base.Str Base.Num Model.Recipe Model.Compiler Spec.Valid
  Proofs.RecipeInd Proofs.NodeEqv Proofs.RecipeValid Proofs.CompilerExpand
  Proofs.CompilerInvSize Proofs.CompilerInvNames Proofs.CompilerInvDefs Proofs.CompilerInvSub.
Import ListNotations.

(** ** Folding the single use [r] of the single-output definition [D]:
    effect on validity, independent of the table. *)
Section Fold.
  Variables (body : node) (nm : svs) (sh : bool) (amt : amount) (new : node).
  Let D := SubRecipe body [nm] sh.
  Let r := Reference D 0 amt.
  Let sg := substitute r new.
  Hypothesis Hnew : new = body \/ new = D.
  Hypothesis HcD : constructed D = true.

  Lemma size_r : node_size r = S (node_size D).
  Proof. reflexivity. Qed.

  Lemma sg_small x : (node_size x <= node_size D)%nat -> sg x = x.
  Proof. intro H. apply substitute_small. rewrite size_r. lia. Qed.

  Lemma new_inside_D x : inside x new -> inside x D.
  Proof. destruct Hnew as [->| ->]; [apply inside_sub | auto]. Qed.

  Lemma new_constructed : constructed new = true /\ can_be_child new = true.
  Proof.
    apply constructed_unfold in HcD. destruct HcD as [Hp Hc]. destruct Hnew as [->| ->].
    - split; [exact Hc|]. simpl in Hp. destruct (can_be_child body); [reflexivity | discriminate].
    - split; [apply constructed_unfold; auto | reflexivity].
  Qed.

  Definition good (X : node) : Prop :=
    is_subrecipe X = true /\ (node_eqb X D = true -> X = D).
  Definition uses_r (x : node) : Prop :=
    forall i a, inside (Reference D i a) x -> Reference D i a = r.
  Definition Rel (seen seen' : list node) : Prop :=
    forall X, In X seen -> X <> D -> In (sg X) seen'.

  Lemma fold_tree_valid seen seen' x :
    constructed x = true -> refs_in seen x -> Rel seen seen' ->
    (forall X, In X seen -> good X) -> uses_r x ->
    constructed (sg x) = true /\ refs_in seen' (sg x).
  Proof.
    intros Hc Hr HRel Hgood Hu. rewrite refs_in_inside in Hr. split.
    - destruct new_constructed as [Hcn Hch]. apply substitute_constructed; auto.
      intros sr i a Hin. apply Hgood. eapply Hr; eauto.
    - apply refs_in_inside. intros Y i a Hin.
      destruct (inside_ref_substitute r new x Y i a Hin)
        as [(X & -> & HinX & Hne)|(HinN & z & Hz & Hze)].
      + apply HRel; [eapply Hr; eauto|]. intros ->.
        rewrite (Hu i a HinX), node_eqb_refl in Hne. discriminate.
      + (* a reference inside [new], hence inside [D] *)
        destruct z as [| |D' i' a'|]; try discriminate.
        unfold r in Hze. rewrite node_eqb_Reference, !andb_true_iff in Hze. destruct Hze as [[HeD _] _].
        assert (HD' : In D' seen) by (eapply Hr; eauto).
        assert (D' = D) by (apply (Hgood D' HD'); exact HeD). subst D'.
        assert (HinD : inside (Reference Y i a) D) by (apply new_inside_D, HinN).
        assert (Hsz : (node_size Y < node_size D)%nat).
        { pose proof (inside_size _ _ HinD) as Hs.
          change (node_size (Reference Y i a)) with (S (node_size Y)) in Hs. lia. }
        rewrite <- (sg_small Y) by lia. apply HRel.
        * apply (Hr Y i a). eapply inside_trans; [exact HinD|]. eapply inside_trans; [|exact Hz].
          apply inside_ref, inside_here.
        * intros ->. lia.
  Qed.

  Definition tree_hyp (x : node) : Prop := uses_r x /\ (is_subrecipe x = true -> good x).

  Lemma sg_is_subrecipe X : is_subrecipe X = true -> is_subrecipe (sg X) = true.
  Proof. apply is_subrecipe_substitute_ref. Qed.

  Lemma Rel_step seen seen' t : Rel seen seen' ->
    Rel (if is_subrecipe t then t :: seen else seen)
        (if is_subrecipe (sg t) then sg t :: seen' else seen').
  Proof.
    intros HR X HX Hne.
    assert (Hw : In (sg X) seen' -> In (sg X) (if is_subrecipe (sg t) then sg t :: seen' else seen')).
    { destruct (is_subrecipe (sg t)); [right; assumption | auto]. }
    destruct (is_subrecipe t) eqn:Es; [|auto].
    destruct HX as [<-|HX]; [|auto].
    rewrite (sg_is_subrecipe _ Es). left. reflexivity.
  Qed.

  Lemma Rel_skip seen seen' : Rel seen seen' -> Rel (D :: seen) seen'.
  Proof. intros HR X [<-|HX] Hne; [congruence | auto]. Qed.

  Lemma good_step seen t : (forall X, In X seen -> good X) -> (is_subrecipe t = true -> good t) ->
    forall X, In X (if is_subrecipe t then t :: seen else seen) -> good X.
  Proof.
    intros Hs Ht X HX. destruct (is_subrecipe t); [|auto]. destruct HX as [<-|HX]; auto.
  Qed.

  Lemma fold_block_valid : forall trees seen seen',
    block_valid seen trees -> Rel seen seen' -> (forall X, In X seen -> good X) ->
    (forall x, In x trees -> tree_hyp x) -> block_valid seen' (map sg trees).
  Proof.
    induction trees as [|t rest IH]; intros seen seen' Hv HR Hg Hh; simpl; [exact I|].
    destruct Hv as [[Hc Hr] Hrest]. destruct (Hh t (or_introl eq_refl)) as [Hu Hgt].
    split; [eapply fold_tree_valid; eauto|].
    eapply IH; [exact Hrest | apply Rel_step, HR | apply good_step; auto|].
    intros x Hx. apply Hh. right. exact Hx.
  Qed.

  Lemma fold_block_valid_remove : forall pre post seen seen',
    block_valid seen (pre ++ D :: post) -> Rel seen seen' -> (forall X, In X seen -> good X) ->
    (forall x, In x (pre ++ D :: post) -> tree_hyp x) -> block_valid seen' (map sg (pre ++ post)).
  Proof.
    induction pre as [|t rest IH]; intros post seen seen' Hv HR Hg Hh.
    - simpl in Hv |- *. destruct Hv as [_ Hrest].
      eapply fold_block_valid; [exact Hrest | apply Rel_skip, HR | |].
      + intros X [<-|HX]; [|auto]. split; [reflexivity | auto].
      + intros x Hx. apply Hh. right. exact Hx.
    - simpl in Hv |- *. destruct Hv as [[Hc Hr] Hrest]. destruct (Hh t (or_introl eq_refl)) as [Hu Hgt].
      split; [eapply fold_tree_valid; eauto|].
      eapply IH; [exact Hrest | apply Rel_step, HR | apply good_step; auto|].
      intros x Hx. apply Hh. right. exact Hx.
  Qed.

  Lemma in_roots x l : In x (subrecipe_roots l) <-> In x l /\ is_subrecipe x = true.
  Proof. apply filter_In. Qed.

  Lemma Rel_block seen seen' trees : Rel seen seen' ->
    Rel (subrecipe_roots trees ++ seen) (subrecipe_roots (map sg trees) ++ seen').
  Proof.
    intros HR X HX Hne. apply in_app_iff in HX. apply in_app_iff. destruct HX as [HX|HX]; [left|right; auto].
    apply in_roots in HX. destruct HX as [HX Hs]. apply in_roots. split; [now apply in_map | now apply sg_is_subrecipe].
  Qed.

  Lemma Rel_block_remove seen seen' pre post : Rel seen seen' ->
    Rel (subrecipe_roots (pre ++ D :: post) ++ seen) (subrecipe_roots (map sg (pre ++ post)) ++ seen').
  Proof.
    intros HR X HX Hne. apply in_app_iff in HX. apply in_app_iff. destruct HX as [HX|HX]; [left|right; auto].
    apply in_roots in HX. destruct HX as [HX Hs]. apply in_roots. split; [|now apply sg_is_subrecipe].
    apply in_map. apply in_app_iff in HX. apply in_app_iff. destruct HX as [HX|[HX|HX]]; auto. congruence.
  Qed.

  Lemma good_block seen trees : (forall X, In X seen -> good X) -> (forall x, In x trees -> tree_hyp x) ->
    forall X, In X (subrecipe_roots trees ++ seen) -> good X.
  Proof.
    intros Hs Ht X HX. apply in_app_iff in HX. destruct HX as [HX|HX]; [|auto].
    apply in_roots in HX. destruct HX as [HX Hsub]. apply (Ht X HX), Hsub.
  Qed.

  Lemma fold_blocks_valid : forall bs seen seen',
    blocks_valid_from seen bs -> Rel seen seen' -> (forall X, In X seen -> good X) ->
    (forall x, In x (concat bs) -> tree_hyp x) -> blocks_valid_from seen' (map (map sg) bs).
  Proof.
    induction bs as [|b rest IH]; intros seen seen' Hv HR Hg Hh; simpl; [exact I|].
    destruct Hv as [Hb Hrest].
    assert (Hhb : forall x, In x b -> tree_hyp x) by (intros x Hx; apply Hh; simpl; apply in_app_iff; auto).
    split; [eapply fold_block_valid; eauto|].
    eapply IH; [exact Hrest | apply Rel_block, HR | apply good_block; auto|].
    intros x Hx. apply Hh. simpl. apply in_app_iff. auto.
  Qed.

  Lemma fold_blocks_valid_remove : forall k bs seen seen' pre post,
    blocks_valid_from seen bs -> Rel seen seen' -> (forall X, In X seen -> good X) ->
    (forall x, In x (concat bs) -> tree_hyp x) ->
    nth_error bs k = Some (pre ++ D :: post) ->
    blocks_valid_from seen' (map (map sg) (firstn k bs ++ (pre ++ post) :: skipn (S k) bs)).
  Proof.
    induction k as [|k IH]; intros bs seen seen' pre post Hv HR Hg Hh Hn;
      destruct bs as [|b bs']; try discriminate; simpl in Hn.
    - inversion Hn; subst b. simpl firstn. simpl skipn. simpl app. simpl map. simpl in Hv. destruct Hv as [Hb Hrest].
      assert (Hhb : forall x, In x (pre ++ D :: post) -> tree_hyp x)
        by (intros x Hx; apply Hh; simpl; apply in_app_iff; auto).
      split; [eapply fold_block_valid_remove; eauto|].
      eapply fold_blocks_valid; [exact Hrest | apply Rel_block_remove, HR | apply good_block; auto|].
      intros x Hx. apply Hh. simpl. apply in_app_iff. auto.
    - simpl in Hv. destruct Hv as [Hb Hrest].
      assert (Hhb : forall x, In x b -> tree_hyp x) by (intros x Hx; apply Hh; simpl; apply in_app_iff; auto).
      change (map (map sg) (firstn (S k) (b :: bs') ++ (pre ++ post) :: skipn (S (S k)) (b :: bs')))
        with (map sg b :: map (map sg) (firstn k bs' ++ (pre ++ post) :: skipn (S k) bs')).
      split; [eapply fold_block_valid; eauto|].
      eapply (IH bs'); [exact Hrest | apply Rel_block, HR | apply good_block; auto | | exact Hn]; auto.
      intros x Hx. apply Hh. simpl. apply in_app_iff. auto.
  Qed.
End Fold.

(** ** [remove] and the block update *)
Lemma remove_first_split D : forall trees,
  In D trees -> (forall x, In x trees -> node_eqb x D = true -> x = D) ->
  exists pre post, trees = pre ++ D :: post /\ remove_first D trees = Some (pre ++ post).
Proof.
  induction trees as [|y rest IH]; intros Hin Hu; [contradiction|]. simpl.
  destruct (node_eqb y D) eqn:E.
  - assert (y = D) by (apply Hu; [left; reflexivity | exact E]). subst y.
    exists [], rest. auto.
  - destruct Hin as [->|Hin]; [rewrite node_eqb_refl in E; discriminate|].
    destruct (IH Hin) as (pre & post & -> & Hr); [intros x Hx; apply Hu; right; exact Hx|].
    exists (y :: pre), post. rewrite Hr. auto.
Qed.

Lemma update_nth_spec {A} (f : A -> option A) : forall k l b b',
  nth_error l k = Some b -> f b = Some b' ->
  update_nth k f l = Some (firstn k l ++ b' :: skipn (S k) l).
Proof.
  induction k as [|k IH]; intros [|x l] b b' Hn Hf; try discriminate; simpl in Hn.
  - inversion Hn; subst. simpl. now rewrite Hf.
  - simpl update_nth. rewrite (IH l b b' Hn Hf). reflexivity.
Qed.

Lemma nth_error_replace {A} (b' : A) : forall k l m,
  (k < length l)%nat ->
  nth_error (firstn k l ++ b' :: skipn (S k) l) m = if Nat.eqb m k then Some b' else nth_error l m.
Proof.
  induction k as [|k IH]; intros [|x l] m Hk; simpl in Hk; try lia.
  - destruct m; reflexivity.
  - destruct m as [|m]; [reflexivity|]. simpl. apply IH. lia.
Qed.

Lemma in_concat_replace {A} (b b' : list A) : forall k l x,
  nth_error l k = Some b -> (forall y, In y b' -> In y b) ->
  In x (concat (firstn k l ++ b' :: skipn (S k) l)) -> In x (concat l).
Proof.
  induction k as [|k IH]; intros [|y l] x Hn Hsub Hx; try discriminate; simpl in Hn.
  - inversion Hn; subst. simpl in Hx |- *. rewrite in_app_iff in *. destruct Hx; auto.
  - simpl in Hx |- *. rewrite in_app_iff in *. destruct Hx as [Hx|Hx]; [auto|]. right. eapply IH; eauto.
Qed.

Lemma concat_replace_split {A} (z : A) pre post : forall k l,
  nth_error l k = Some (pre ++ z :: post) ->
  exists la lb, concat l = la ++ z :: lb /\
    concat (firstn k l ++ (pre ++ post) :: skipn (S k) l) = la ++ lb.
Proof.
  induction k as [|k IH]; intros [|y l] Hn; try discriminate; simpl in Hn.
  - inversion Hn; subst. exists pre, (post ++ concat l). simpl.
    rewrite <- !app_assoc. split; reflexivity.
  - destruct (IH l Hn) as (la & lb & H1 & H2). exists (y ++ la), lb.
    change (concat (firstn (S k) (y :: l) ++ (pre ++ post) :: skipn (S (S k)) (y :: l)))
      with (y ++ concat (firstn k l ++ (pre ++ post) :: skipn (S k) l)).
    split.
    + simpl. rewrite H1. now rewrite app_assoc.
    + rewrite H2. now rewrite app_assoc.
Qed.

(** ** One folding step on a state satisfying the invariant *)
Section Step.
  Variable lower : str -> str.
  Notation norm := (normalise_output_name lower).
  Variables (i : nat) (bs : list (list node)) (t : table) (e : entry).
  Variables (body : node) (nm : svs) (sh : bool) (amt : amount) (blk : nat) (new : node).
  Let D := SubRecipe body [nm] sh.
  Let r := Reference D 0 amt.
  Let sg := substitute r new.
  Hypothesis Hnew : new = body \/ new = D.
  Hypothesis I : Inv2 lower i bs t.
  Hypothesis Hi : nth_error t i = Some e.
  Hypothesis Hsub : e_sub e = D.
  Hypothesis Hrefs : e_refs e = [(r, blk)].

  Lemma e_idx_key : e_idx e = 0%nat /\ e_key e = norm nm.
  Proof.
    destruct (i2_KN _ _ _ _ I i e Hi (le_n _)) as (b & ns & s0 & Hs & Hlt & Hk).
    rewrite Hsub in Hs. unfold D in Hs. inversion Hs; subst b ns s0. simpl in Hlt.
    assert (e_idx e = 0%nat) by lia. split; [assumption|]. rewrite Hk, H. reflexivity.
  Qed.

  Lemma key_hit j ej nm' : nth_error t j = Some ej -> svs_eqb nm' nm = true ->
    e_key ej = norm nm' -> j = i.
  Proof.
    intros Hj He Hk. eapply keys_distinct_nth; [apply I | exact Hj | exact Hi |].
    rewrite Hk, (proj2 e_idx_key). now apply normalise_svs_eqb.
  Qed.

  Lemma eqb_D_shape x : node_eqb x D = true ->
    exists b' nm' sh', x = SubRecipe b' [nm'] sh' /\ svs_eqb nm' nm = true.
  Proof.
    destruct x as [| | |b' ns' sh']; try discriminate. unfold D.
    rewrite node_eqb_SubRecipe, !andb_true_iff. intros [[_ Hn] _].
    destruct ns' as [|nm' [|? ?]]; simpl in Hn; try discriminate.
    - exists b', nm', sh'. split; [reflexivity|]. apply andb_true_iff in Hn. tauto.
    - apply andb_true_iff in Hn. destruct Hn; discriminate.
  Qed.

  Lemma D_unique x : In x (concat bs) -> node_eqb x D = true -> x = D.
  Proof.
    intros Hx He. destruct (eqb_D_shape x He) as (b' & nm' & sh' & -> & Hn).
    destruct (i2_NL _ _ _ _ I _ _ Hx (chain_here _) eq_refl 0%nat) as (j & ej & Hj & Hk & _ & Hs);
      [simpl; lia|].
    simpl in Hk. assert (j = i) by (eapply key_hit; eauto). subst j.
    rewrite Hi in Hj. inversion Hj; subst ej. rewrite <- Hsub. symmetry. apply Hs. lia.
  Qed.

  Lemma D_in : exists trees, nth_error bs (e_def_block e) = Some trees /\ In D trees.
  Proof. rewrite <- Hsub. apply (i2_T _ _ _ _ I i e Hi). lia. Qed.

  Lemma D_in_concat : In D (concat bs).
  Proof.
    destruct D_in as (trees & Hn & Hin). apply in_concat. exists trees.
    split; [eapply nth_error_In; eauto | exact Hin].
  Qed.

  Lemma concat_constructed x : In x (concat bs) -> constructed x = true.
  Proof.
    intro Hx. apply in_concat in Hx. destruct Hx as (trees & Ht & Hx).
    apply In_nth_error in Ht, Hx. destruct Ht as (b & Hb), Hx as (j & Hj).
    apply (i2_V _ _ _ _ I b j trees x Hb Hj).
  Qed.

  Lemma D_constructed : constructed D = true.
  Proof. apply concat_constructed, D_in_concat. Qed.

  Lemma all_uses_r x : In x (concat bs) -> uses_r body nm sh amt x.
  Proof.
    intros Hx i0 a Hin. fold D in Hin |- *.
    assert (i0 = 0%nat).
    { pose proof (proj1 (constructed_inside x) (concat_constructed x Hx) _ Hin) as Hp.
      unfold D in Hp. simpl in Hp. destruct i0; [reflexivity | discriminate]. }
    subst i0. destruct e_idx_key as [Hidx _].
    pose proof (i2_U _ _ _ _ I i e Hi (le_n _) x a Hx) as HU.
    rewrite Hsub, Hidx, Hrefs in HU. specialize (HU Hin). simpl in HU.
    destruct HU as [HU|[]]. symmetry. exact HU.
  Qed.

  Lemma all_tree_hyp x : In x (concat bs) -> tree_hyp body nm sh amt x.
  Proof.
    intro Hx. split; [now apply all_uses_r|]. intro Hs. split; [exact Hs|]. now apply D_unique.
  Qed.

  (** The state after the step. *)
  Definition bs1_of (pre post : list node) : list (list node) :=
    firstn (e_def_block e) bs ++ (pre ++ post) :: skipn (S (e_def_block e)) bs.

  Lemma remove_ok : exists pre post,
    nth_error bs (e_def_block e) = Some (pre ++ D :: post) /\
    update_nth (e_def_block e) (remove_first D) bs = Some (bs1_of pre post).
  Proof.
    destruct D_in as (trees & Hn & Hin).
    destruct (remove_first_split D trees Hin) as (pre & post & -> & Hr).
    { intros x Hx. apply D_unique. apply in_concat.
      eexists. split; [eapply nth_error_In; eauto | exact Hx]. }
    exists pre, post. split; [exact Hn|]. eapply update_nth_spec; eauto.
  Qed.

  Lemma step_valid pre post : nth_error bs (e_def_block e) = Some (pre ++ D :: post) ->
    strictly_valid (map (map sg) (bs1_of pre post)).
  Proof.
    intro Hn. apply strictly_valid_iff_rec. unfold strictly_valid_rec, bs1_of.
    eapply (fold_blocks_valid_remove body nm sh amt new Hnew D_constructed) with (seen := []);
      [apply strictly_valid_iff_rec, I | intros X [] | intros X [] | apply all_tree_hyp | exact Hn].
  Qed.

  (** Other live entries are about other sub recipes. *)
  Lemma live_sub_not_D j ej : nth_error t j = Some ej -> (i <= j)%nat -> j <> i ->
    node_eqb (e_sub ej) D = false.
  Proof.
    intros Hj Hle Hne. destruct (node_eqb (e_sub ej) D) eqn:E; [exfalso|reflexivity].
    destruct (eqb_D_shape _ E) as (b' & nm' & sh' & Hs & Hn).
    destruct (i2_KN _ _ _ _ I j ej Hj Hle) as (b & ns & s0 & Hs' & Hlt & Hk).
    rewrite Hs in Hs'. inversion Hs'; subst b ns s0. simpl in Hlt.
    assert (H0 : e_idx ej = 0%nat) by lia. rewrite H0 in Hk. simpl in Hk.
    apply Hne. eapply key_hit; eauto.
  Qed.

  Lemma live_ref_form j ej x b : nth_error t j = Some ej -> (i <= j)%nat -> j <> i ->
    In (x, b) (e_refs ej) ->
    exists a, x = Reference (e_sub ej) (e_idx ej) a /\ node_eqb r x = false /\
              sg x = Reference (sg (e_sub ej)) (e_idx ej) a.
  Proof.
    intros Hj Hle Hne Hin. destruct (i2_C _ _ _ _ I j ej Hj Hle x b Hin) as (a & ->).
    exists a. split; [reflexivity|].
    assert (Hn : node_eqb r (Reference (e_sub ej) (e_idx ej) a) = false).
    { unfold r. rewrite node_eqb_Reference, node_eqb_sym, (live_sub_not_D j ej Hj Hle Hne). reflexivity. }
    split; [exact Hn|]. unfold sg. apply substitute_Reference. now rewrite node_eqb_sym.
  Qed.

  Lemma live_refs_subst j ej : nth_error t j = Some ej -> (i <= j)%nat -> j <> i ->
    e_refs (entry_substitute r new ej) = map (fun rb => (sg (fst rb), snd rb)) (e_refs ej).
  Proof.
    intros Hj Hle Hne. unfold entry_substitute. cbn [e_refs]. apply map_ext_in. intros [x b] Hin.
    destruct (live_ref_form j ej x b Hj Hle Hne Hin) as (a & _ & Hn & _). cbn [fst snd].
    fold r. now rewrite Hn.
  Qed.

  Lemma live_sub_form j ej : nth_error t j = Some ej -> (i <= j)%nat ->
    exists b ns s0, e_sub ej = SubRecipe b ns s0 /\ sg (e_sub ej) = SubRecipe (sg b) ns s0 /\
      (e_idx ej < length ns)%nat /\ e_key ej = norm (nth (e_idx ej) ns []).
  Proof.
    intros Hj Hle. destruct (i2_KN _ _ _ _ I j ej Hj Hle) as (b & ns & s0 & Hs & Hlt & Hk).
    exists b, ns, s0. rewrite Hs. split; [reflexivity|]. split; [apply substitute_SubRecipe_ref | auto].
  Qed.

  Lemma live_sub_inj j ej X : nth_error t j = Some ej -> (i <= j)%nat ->
    In X (concat bs) -> is_subrecipe X = true -> names_of X = names_of (e_sub ej) -> X = e_sub ej.
  Proof.
    intros Hj Hle HX Hs Hn.
    destruct (live_sub_form j ej Hj Hle) as (b & ns & s0 & Hsj & _ & Hlt & Hk).
    rewrite Hsj in Hn. simpl in Hn.
    destruct (i2_NL _ _ _ _ I X X HX (chain_here _) Hs (e_idx ej)) as (j' & e' & Hj' & Hk' & _ & Hs');
      [rewrite Hn; exact Hlt|].
    rewrite Hn, <- Hk in Hk'.
    assert (j' = j).
    { eapply keys_distinct_nth; [apply I | exact Hj' | exact Hj |]. rewrite Hk'. apply svs_eqb_refl. }
    subst j'. rewrite Hj in Hj'. inversion Hj'; subst e'. symmetry. apply Hs'. exact Hle.
  Qed.

  Lemma earlier_roots_in X b j : In X (earlier_roots bs b j) -> In X (concat bs) /\ is_subrecipe X = true.
  Proof.
    unfold earlier_roots. rewrite in_app_iff, in_flat_map. intros [(trees & Ht & HX)|HX].
    - apply filter_In in HX. destruct HX as [HX Hs]. split; [|exact Hs].
      apply in_concat. exists trees. split; [|exact HX].
      revert Ht. clear. revert bs. induction b as [|b IH]; intros [|y l]; simpl; try tauto.
      intros [->|H]; auto.
    - apply filter_In in HX. destruct HX as [HX Hs]. split; [|exact Hs].
      assert (HX' : In X (nth b bs [])).
      { revert HX. generalize (nth b bs []). clear. intro l. revert j.
        induction l as [|y l IH]; intros [|j]; simpl; try tauto. intros [->|H]; eauto. }
      destruct (nth_in_or_default b bs []) as [Hin|Hd]; [|rewrite Hd in HX'; contradiction].
      apply in_concat. eauto.
  Qed.

  Lemma ref_target x X i0 a : In x (concat bs) -> inside (Reference X i0 a) x ->
    In X (concat bs) /\ is_subrecipe X = true.
  Proof.
    intros Hx Hin. apply in_concat in Hx. destruct Hx as (trees & Ht & Hx).
    apply In_nth_error in Ht, Hx. destruct Ht as (b & Hb), Hx as (j & Hj).
    destruct (i2_V _ _ _ _ I b j trees x Hb Hj) as [_ Hr].
    eapply earlier_roots_in, Hr, Hin.
  Qed.

  Variables pre post : list node.
  Hypothesis Hblk : nth_error bs (e_def_block e) = Some (pre ++ D :: post).
  Let bs' := map (map sg) (bs1_of pre post).
  Let t' := map (entry_substitute r new) t.

  Lemma in_bs1 x : In x (concat (bs1_of pre post)) -> In x (concat bs).
  Proof.
    apply (in_concat_replace (pre ++ D :: post) (pre ++ post)); [exact Hblk|].
    intros y Hy. apply in_app_iff in Hy. apply in_app_iff. simpl. tauto.
  Qed.

  Lemma in_bs' x' : In x' (concat bs') -> exists x, In x (concat bs) /\ x' = sg x.
  Proof.
    unfold bs'. rewrite <- concat_map. intro H. apply in_map_iff in H.
    destruct H as (x & <- & Hx). exists x. split; [now apply in_bs1 | reflexivity].
  Qed.

  Lemma nth_t' j e' : nth_error t' j = Some e' ->
    exists ej, nth_error t j = Some ej /\ e' = entry_substitute r new ej.
  Proof.
    unfold t'. rewrite nth_error_map. destruct (nth_error t j) as [ej|]; [|discriminate].
    simpl. intro H. inversion H. eauto.
  Qed.

  Lemma step_K : keys_distinct t'.
  Proof.
    unfold keys_distinct, t'. rewrite map_map. simpl. apply I.
  Qed.

  Lemma step_KN j e' : nth_error t' j = Some e' -> (S i <= j)%nat -> entry_named lower e'.
  Proof.
    intros Hj Hle. destruct (nth_t' j e' Hj) as (ej & Hej & ->).
    destruct (live_sub_form j ej Hej) as (b & ns & s0 & _ & Hs & Hlt & Hk); [lia|].
    exists (sg b), ns, s0. simpl. fold r. fold sg. auto.
  Qed.

  Lemma step_C j e' : nth_error t' j = Some e' -> (S i <= j)%nat -> entry_refs_ok e'.
  Proof.
    intros Hj Hle. destruct (nth_t' j e' Hj) as (ej & Hej & ->).
    intros x' b Hin. rewrite (live_refs_subst j ej Hej) in Hin by lia.
    apply in_map_iff in Hin. destruct Hin as ([x b0] & Heq & Hin). simpl in Heq. inversion Heq; subst x' b0.
    destruct (live_ref_form j ej x b Hej) as (a & _ & _ & Hsg); [lia|lia|exact Hin|].
    exists a. simpl. exact Hsg.
  Qed.

  Lemma step_T j e' : nth_error t' j = Some e' -> (S i <= j)%nat ->
    exists trees, nth_error bs' (e_def_block e') = Some trees /\ In (e_sub e') trees.
  Proof.
    intros Hj Hle. destruct (nth_t' j e' Hj) as (ej & Hej & ->). simpl. fold r. fold sg.
    destruct (i2_T _ _ _ _ I j ej Hej) as (trees & Hn & Hin); [lia|].
    assert (HneD : e_sub ej <> D).
    { intro E. pose proof (live_sub_not_D j ej Hej) as H. rewrite E, node_eqb_refl in H.
      assert (true = false) by (apply H; lia). discriminate. }
    unfold bs'. rewrite nth_error_map. unfold bs1_of.
    rewrite nth_error_replace by (apply nth_error_Some; rewrite Hblk; discriminate).
    destruct (Nat.eqb (e_def_block ej) (e_def_block e)) eqn:Eb.
    - apply Nat.eqb_eq in Eb. rewrite Eb, Hblk in Hn. inversion Hn; subst trees.
      eexists. split; [reflexivity|]. apply in_map.
      apply in_app_iff in Hin. apply in_app_iff. destruct Hin as [H|[H|H]]; auto. congruence.
    - rewrite Hn. eexists. split; [reflexivity|]. now apply in_map.
  Qed.

  Lemma sg_small' x : (node_size x <= node_size D)%nat -> sg x = x.
  Proof. apply sg_small. Qed.

  Lemma step_U j e' : nth_error t' j = Some e' -> (S i <= j)%nat -> entry_uses (concat bs') e'.
  Proof.
    intros Hj Hle. destruct (nth_t' j e' Hj) as (ej & Hej & ->).
    assert (Hlive : (i <= j)%nat) by lia. assert (Hne : j <> i) by lia.
    destruct (live_sub_form j ej Hej Hlive) as (bj & ns & s0 & Hsj & _ & _ & _).
    assert (Hsubj : is_subrecipe (e_sub ej) = true) by (rewrite Hsj; reflexivity).
    intros x' a Hx' Hin. rewrite (live_refs_subst j ej Hej Hlive Hne), map_map. cbn [fst].
    change (e_sub (entry_substitute r new ej)) with (sg (e_sub ej)) in *.
    change (e_idx (entry_substitute r new ej)) with (e_idx ej) in *.
    destruct (in_bs' x' Hx') as (x & Hx & ->).
    assert (HU := i2_U _ _ _ _ I j ej Hej Hlive).
    destruct (inside_ref_substitute r new x _ _ _ Hin) as [(X & HX & HinX & HneX)|(HinN & _)].
    - destruct (ref_target x X _ _ Hx HinX) as [HXc HXs].
      assert (X = e_sub ej).
      { apply (live_sub_inj j ej X Hej Hlive HXc HXs).
        rewrite <- (names_of_substitute_ref D 0 amt new X HXs).
        rewrite <- (names_of_substitute_ref D 0 amt new (e_sub ej) Hsubj). fold r. fold sg. now rewrite HX. }
      subst X. specialize (HU x a Hx HinX). apply in_map_iff in HU. destruct HU as ([y b] & Hy & Hyin).
      simpl in Hy. subst y. apply in_map_iff. exists (Reference (e_sub ej) (e_idx ej) a, b).
      split; [|exact Hyin]. cbn [fst]. unfold sg. now apply substitute_Reference.
    - assert (HinD : inside (Reference (sg (e_sub ej)) (e_idx ej) a) D) by (eapply new_inside_D; eauto).
      destruct (ref_target D _ _ _ D_in_concat HinD) as [HYc HYs].
      assert (HY : sg (e_sub ej) = e_sub ej).
      { apply (live_sub_inj j ej _ Hej Hlive HYc HYs).
        apply (names_of_substitute_ref D 0 amt new (e_sub ej) Hsubj). }
      rewrite HY in HinD |- *. specialize (HU D a D_in_concat HinD).
      apply in_map_iff in HU. destruct HU as ([y b] & Hy & Hyin). simpl in Hy. subst y.
      apply in_map_iff. exists (Reference (e_sub ej) (e_idx ej) a, b). split; [|exact Hyin]. cbn [fst].
      apply sg_small'. apply inside_size. exact HinD.
  Qed.

  Lemma chain_new_D S0 : chain S0 new -> chain S0 D.
  Proof. destruct Hnew as [->| ->]; [apply chain_body | auto]. Qed.

  Lemma step_NL x' S' : In x' (concat bs') -> chain S' x' -> is_subrecipe S' = true ->
    named_in lower (S i) t' S'.
  Proof.
    intros Hx' Hc HS'. destruct (in_bs' x' Hx') as (x & Hx & ->).
    destruct (chain_substitute D 0 amt new x S' Hc HS') as [(S0 & Hc0 & HS0 & ->)|HcN].
    - intros k Hk. rewrite (names_of_substitute_ref D 0 amt new S0 HS0) in Hk |- *.
      destruct (i2_NL _ _ _ _ I x S0 Hx Hc0 HS0 k Hk) as (j & e0 & Hj & Hkey & Hix & Hs).
      exists j, (entry_substitute r new e0). split; [unfold t'; now apply map_nth_error|].
      split; [exact Hkey|]. split; [exact Hix|]. intro Hle. simpl. rewrite Hs by lia. reflexivity.
    - apply chain_new_D in HcN. intros k Hk.
      destruct (i2_NL _ _ _ _ I D S' D_in_concat HcN HS' k Hk) as (j & e0 & Hj & Hkey & Hix & Hs).
      exists j, (entry_substitute r new e0). split; [unfold t'; now apply map_nth_error|].
      split; [exact Hkey|]. split; [exact Hix|]. intro Hle. simpl. rewrite Hs by lia.
      apply sg_small'. apply inside_size, chain_inside, HcN.
  Qed.

  Theorem step_inv2 : Inv2 lower (S i) bs' t'.
  Proof.
    split.
    - exact step_K.
    - exact step_KN.
    - exact step_T.
    - exact step_C.
    - exact step_U.
    - exact step_NL.
    - apply step_valid. exact Hblk.
  Qed.

  (** ** Name uniqueness: the extra invariants are preserved *)
  Lemma chain_end_r x z : In x (concat bs) -> chain z x -> node_eqb z r = true -> top_ref e x.
  Proof.
    intros Hx Hc Hz. destruct z as [| |D' i' a'|]; try discriminate.
    pose proof Hz as Hz'. unfold r in Hz'. rewrite node_eqb_Reference, !andb_true_iff in Hz'.
    destruct Hz' as [[HeD _] _].
    pose proof (chain_inside _ _ Hc) as Hin.
    destruct (ref_target x D' i' a' Hx Hin) as [HD' _].
    assert (D' = D) by (apply D_unique; assumption). subst D'.
    pose proof (all_uses_r x Hx i' a' Hin) as Hr. fold D in Hr. fold r in Hr.
    exists amt. destruct e_idx_key as [Hidx _]. rewrite Hsub, Hidx. fold r. rewrite <- Hr. exact Hc.
  Qed.

  Lemma concat_split : exists la lb, concat bs = la ++ D :: lb /\ concat (bs1_of pre post) = la ++ lb.
  Proof. apply concat_replace_split. exact Hblk. Qed.

  Lemma subl_bs' l' : subl l' (concat bs') ->
    exists l0, l' = map sg l0 /\ subl l0 (concat bs) /\
      (forall x, In x l0 -> exists la lb, concat bs = la ++ D :: lb /\ In x (la ++ lb)).
  Proof.
    unfold bs'. rewrite <- concat_map. intro H. destruct (subl_map_inv sg _ _ H) as (l0 & -> & Hs).
    destruct concat_split as (la & lb & H1 & H2). rewrite H2 in Hs.
    exists l0. split; [reflexivity|]. split.
    - rewrite H1. now apply subl_app_insert.
    - intros x Hx. exists la, lb. split; [exact H1|]. eapply subl_In; eauto.
  Qed.

  Lemma top_ref_pre j ej x : nth_error t j = Some ej -> (S i <= j)%nat -> In x (concat bs) ->
    top_ref (entry_substitute r new ej) (sg x) -> top_ref ej x \/ (top_ref ej D /\ top_ref e x).
  Proof.
    intros Hej Hle Hx [a Hc].
    assert (Hlive : (i <= j)%nat) by lia.
    destruct (live_sub_form j ej Hej Hlive) as (bj & ns & s0 & Hsj & _ & _ & _).
    assert (Hsubj : is_subrecipe (e_sub ej) = true) by (rewrite Hsj; reflexivity).
    change (e_sub (entry_substitute r new ej)) with (sg (e_sub ej)) in Hc.
    change (e_idx (entry_substitute r new ej)) with (e_idx ej) in Hc.
    destruct (chain_substitute_ref D 0 amt new x _ _ _ Hc) as [(X & HcX & HX & _)|(HcN & z & Hz & Hze)].
    - left. destruct (ref_target x X _ _ Hx (chain_inside _ _ HcX)) as [HXc HXs].
      assert (X = e_sub ej).
      { apply (live_sub_inj j ej X Hej Hlive HXc HXs).
        rewrite <- (names_of_substitute_ref D 0 amt new X HXs).
        rewrite <- (names_of_substitute_ref D 0 amt new (e_sub ej) Hsubj). fold r. fold sg. now rewrite HX. }
      subst X. exists a. exact HcX.
    - right. split; [|eapply chain_end_r; eauto].
      apply chain_new_D in HcN.
      destruct (ref_target D _ _ _ D_in_concat (chain_inside _ _ HcN)) as [HYc HYs].
      assert (HY : sg (e_sub ej) = e_sub ej).
      { apply (live_sub_inj j ej _ Hej Hlive HYc HYs).
        apply (names_of_substitute_ref D 0 amt new (e_sub ej) Hsubj). }
      rewrite HY in HcN. exists a. exact HcN.
  Qed.

  Hypothesis HSing : forall j ej, nth_error t j = Some ej -> (i <= j)%nat -> Single ej (concat bs).

  Lemma step_Single j e' : nth_error t' j = Some e' -> (S i <= j)%nat -> Single e' (concat bs').
  Proof.
    intros Hj Hle. destruct (nth_t' j e' Hj) as (ej & Hej & ->).
    intros Hlen x' y' Hs Hx' Hy'.
    assert (Hlenj : (length (e_refs ej) <= 1)%nat) by (simpl in Hlen; rewrite map_length in Hlen; exact Hlen).
    destruct (subl_bs' _ Hs) as (l0 & Hl0 & Hs0 & Hin0).
    destruct l0 as [|x [|y [|? ?]]]; try discriminate. simpl in Hl0. inversion Hl0; subst x' y'.
    assert (Hx : In x (concat bs)) by (eapply subl_In; [exact Hs0 | left; reflexivity]).
    assert (Hy : In y (concat bs)) by (eapply subl_In; [exact Hs0 | right; left; reflexivity]).
    assert (SJ := HSing j ej Hej (Nat.le_trans _ _ _ (Nat.le_succ_diag_r i) Hle) Hlenj).
    assert (Hwith : forall w, In w [x; y] -> top_ref ej w -> top_ref ej D -> False).
    { intros w Hw Hw1 HD1. destruct (Hin0 w Hw) as (la & lb & E & Hwin). rewrite E in SJ.
      destruct (subl_pair_with la lb w D Hwin) as [Hp|Hp]; eapply SJ; eauto. }
    destruct (top_ref_pre j ej x Hej Hle Hx Hx') as [Tx|[TDx Tex]];
      destruct (top_ref_pre j ej y Hej Hle Hy Hy') as [Ty|[TDy Tey]].
    - eapply SJ; eauto.
    - apply (Hwith x); simpl; auto.
    - apply (Hwith y); simpl; auto.
    - assert (Hl1 : (length (e_refs e) <= 1)%nat) by (rewrite Hrefs; simpl; lia).
      exact (HSing i e Hi (le_n _) Hl1 x y Hs0 Tex Tey).
  Qed.

  Lemma sub_pre x S' : In x (concat bs) -> chain S' (sg x) -> is_subrecipe S' = true ->
    (exists S0, chain S0 x /\ is_subrecipe S0 = true /\ names_of S' = names_of S0)
    \/ (chain S' D /\ top_ref e x).
  Proof.
    intros Hx Hc HS'. destruct (chain_substitute_sub D 0 amt new x S' Hc HS')
      as [(S0 & Hc0 & HS0 & ->)|(HcN & z & Hz & Hze)].
    - left. exists S0. split; [exact Hc0|]. split; [exact HS0|].
      apply names_of_substitute_ref. exact HS0.
    - right. split; [now apply chain_new_D | eapply chain_end_r; eauto].
  Qed.

  Hypothesis HUniq : Uniq lower (concat bs).

  Lemma step_Uniq : Uniq lower (concat bs').
  Proof.
    intros x' y' Hs S1 S2 Hc1 Hc2 Hs1 Hs2 n1 n2 Hn1 Hn2.
    destruct (subl_bs' _ Hs) as (l0 & Hl0 & Hs0 & Hin0).
    destruct l0 as [|x [|y [|? ?]]]; try discriminate. simpl in Hl0. inversion Hl0; subst x' y'.
    assert (Hx : In x (concat bs)) by (eapply subl_In; [exact Hs0 | left; reflexivity]).
    assert (Hy : In y (concat bs)) by (eapply subl_In; [exact Hs0 | right; left; reflexivity]).
    assert (Hwith : forall w Sw SD nw nD, In w [x; y] -> chain Sw w -> is_subrecipe Sw = true ->
              chain SD D -> is_subrecipe SD = true -> In nw (names_of Sw) -> In nD (names_of SD) ->
              svs_eqb (normalise_output_name lower nw) (normalise_output_name lower nD) = false).
    { intros w Sw SD nw nD Hw Hcw Hsw HcD HsD Hnw HnD.
      destruct (Hin0 w Hw) as (la & lb & E & Hwin).
      destruct (subl_pair_with la lb w D Hwin) as [Hp|Hp]; rewrite <- E in Hp.
      - exact (HUniq w D Hp Sw SD Hcw HcD Hsw HsD nw nD Hnw HnD).
      - rewrite svs_eqb_sym. exact (HUniq D w Hp SD Sw HcD Hcw HsD Hsw nD nw HnD Hnw). }
    destruct (sub_pre x S1 Hx Hc1 Hs1) as [(S01 & Hc01 & Hs01 & E1)|[HcD1 Tex]];
      destruct (sub_pre y S2 Hy Hc2 Hs2) as [(S02 & Hc02 & Hs02 & E2)|[HcD2 Tey]].
    - rewrite E1 in Hn1. rewrite E2 in Hn2.
      exact (HUniq x y Hs0 S01 S02 Hc01 Hc02 Hs01 Hs02 n1 n2 Hn1 Hn2).
    - rewrite E1 in Hn1. apply (Hwith x S01 S2); simpl; auto.
    - rewrite E2 in Hn2. rewrite svs_eqb_sym. apply (Hwith y S02 S1); simpl; auto.
    - exfalso. assert (Hl1 : (length (e_refs e) <= 1)%nat) by (rewrite Hrefs; simpl; lia).
      exact (HSing i e Hi (le_n _) Hl1 x y Hs0 Tex Tey).
  Qed.
End Step.
