(** * Symbolic compilation, part 7: the refinement theorem
    [compile_ast = sym_compile]. *)
From Coq Require Import List ZArith NArith Bool Lia Permutation.
From RG Require Import Base.Str Base.Num Model.Recipe Model.Compiler Spec.Valid Spec.CompileSpec Spec.CompileSym
  Proofs.RecipeInd Proofs.NodeEqv Proofs.RecipeValid Proofs.CompilerExpand
  Proofs.CompilerInvSize Proofs.CompilerInvNames Proofs.CompilerInvDefs Proofs.CompilerInvSub
  Proofs.CompilerInvPass1 Proofs.CompilerInvPass1U Proofs.CompilerInvPass2 Proofs.CompilerInvMain
  Proofs.CompilerSymDefs Proofs.CompilerSymCount Proofs.CompilerSymPass1 Proofs.CompilerSymCore
  Proofs.CompilerSymStep Proofs.CompilerSymFold Proofs.CompilerSymConserve.
Import ListNotations.
Local Open Scope nat_scope.

Lemma remove_first_at D : forall pre post,
  (forall x, In x pre -> node_eqb x D = false) -> remove_first D (pre ++ D :: post) = Some (pre ++ post).
Proof.
  induction pre as [|y pre IH]; intros post H; simpl.
  - now rewrite node_eqb_refl.
  - rewrite (H y (or_introl eq_refl)), IH; [reflexivity|]. intros; apply H; right; assumption.
Qed.

Section SymMain.
  Variable convert : str -> str -> option num.
  Variable tol : Z * positive.
  Variable lower : str -> str.

  Lemma turn_sim i bs t F e :
    Inv23 lower i bs t -> SymR lower i bs t F -> nth_error t i = Some e ->
    match fold_step convert tol lower i bs t with
    | P2Ok bs' t' => exists F', fold_key convert tol lower (e_key e) F = Some F' /\ SymR lower (S i) bs' t' F' /\
                                Permutation (fnodes F') (fnodes F)
    | P2Crash _ => fold_key convert tol lower (e_key e) F = None
    end.
  Proof.
    intros [I [HS HU]] HR Hi.
    destruct (turn_eval convert tol lower i bs t F e I HU Hi HR)
      as (pre & post & rpre & rootD & rpost & Hnb & HnF & HD & Hn1 & Hdef & K4 & Huniq & Hfilter & Hfk).
    rewrite Hfk. unfold fold_step. rewrite Hi.
    destruct (can_be_inlined convert tol lower e) as [[|]|] eqn:Ec;
      [|exists F; split; [reflexivity | split; [now apply SymR_weaken | apply Permutation_refl]]|reflexivity].
    destruct (can_be_inlined_shape _ _ _ e Ec) as (body & nm & sh & rs & ri & amt & blk & Hs & Hr).
    assert (Hrs : rs = SubRecipe body [nm] sh /\ ri = 0).
    { destruct (i2_C _ _ _ _ I i e Hi (le_n _) (Reference rs ri amt) blk) as (a & Ha);
        [rewrite Hr; left; reflexivity|].
      inversion Ha; subst. split; [exact Hs|].
      destruct (i2_KN _ _ _ _ I i e Hi (le_n _)) as (b & ns & s0 & Hs' & Hlt & _).
      rewrite Hs in Hs'. inversion Hs'; subst. simpl in Hlt. lia. }
    destruct Hrs as [-> ->].
    assert (Hblk : blk = e_def_block e).
    { rewrite (can_be_inlined_one convert tol lower e body nm sh _ _ amt blk Hs Hr) in Ec.
      destruct (Nat.eqb blk (e_def_block e)) eqn:Eb; [now apply Nat.eqb_eq | discriminate]. }
    subst blk. rewrite Hs in HD, Hnb, Hn1.
    destruct (embG_sub lower bs rootD body [nm] sh HD) as (body_s & en & Htree & _ & _).
    assert (Hunw : r_unwrap rootD = e_unwrap e).
    { destruct HR as (_ & _ & R3). apply (R3 i e Hi (le_n _)); [|exact Hdef].
      apply in_concat. exists (rpre ++ rootD :: rpost). split; [eapply nth_error_In; eauto | apply in_elt]. }
    destruct rootD as [tree unw]. simpl in Htree, Hunw. subst tree unw.
    assert (Hup : update_nth (e_def_block e) (remove_first (SubRecipe body [nm] sh)) bs =
                  Some (firstn (e_def_block e) bs ++ (pre ++ post) :: skipn (S (e_def_block e)) bs)).
    { eapply update_nth_spec; [exact Hnb|]. apply remove_first_at. intros x Hx.
      destruct (node_eqb x (SubRecipe body [nm] sh)) eqn:E; [exfalso|reflexivity]. apply Hn1.
      assert (Hxin : In x (concat bs)).
      { apply in_concat. exists (pre ++ SubRecipe body [nm] sh :: post).
        split; [eapply nth_error_In; eauto | apply in_app_iff; auto]. }
      rewrite <- (D_unique lower i bs t e body nm sh amt body (or_introl eq_refl) I Hi Hs x Hxin E). exact Hx. }
    pose proof (fold_SymR lower i bs t F e body nm sh amt body_s pre post rpre rpost I HU Hi HR Hs Hr
                  Hnb HnF HD K4 Huniq Hfilter) as Hfin.
    pose proof (fold_nodes lower i bs t F e body nm sh amt body_s pre post rpre rpost I Hi HR Hs Hr
                  Hnb HnF HD Huniq Hfilter) as Hnodes.
    destruct e as [k0 db sub idx refs uw]. simpl in *. subst sub refs.
    rewrite Hnb, Hup. eexists. split; [reflexivity | split; [exact Hfin | exact Hnodes]].
  Qed.

  Lemma fold_step_keys i bs t bs' t' : fold_step convert tol lower i bs t = P2Ok bs' t' ->
    map e_key t' = map e_key t.
  Proof.
    unfold fold_step. destruct (nth_error t i) as [e|]; [|intro H; inversion H; reflexivity].
    destruct (can_be_inlined convert tol lower e) as [[|]|]; try (intro H; inversion H; reflexivity).
    destruct (e_sub e) as [| | |bd ns shw]; try (intro H; inversion H; reflexivity).
    destruct (e_refs e) as [|[r0 b0] tl]; [intro H; inversion H; reflexivity|].
    destruct (nth_error bs (e_def_block e)); [|discriminate].
    destruct (update_nth (e_def_block e) (remove_first (SubRecipe bd ns shw)) bs); [|discriminate].
    intro H. inversion H. rewrite map_map. reflexivity.
  Qed.

  Lemma skipn_nth_cons {A} : forall (l : list A) i x, nth_error l i = Some x -> skipn i l = x :: skipn (S i) l.
  Proof.
    induction l as [|y l IH]; intros [|i] x H; try discriminate; simpl in *.
    - inversion H; reflexivity.
    - now apply IH.
  Qed.

  Lemma pass2_sim : forall n i bs t F, Inv23 lower i bs t -> SymR lower i bs t F -> i + n = length t ->
    match pass2_from convert tol lower i n bs t with
    | P2Ok bs' t' => exists F', sym_fold convert tol lower (skipn i (map e_key t)) F = Some F' /\
                                SymR lower (i + n) bs' t' F' /\ Inv23 lower (i + n) bs' t' /\
                                Permutation (fnodes F') (fnodes F)
    | P2Crash _ => sym_fold convert tol lower (skipn i (map e_key t)) F = None
    end.
  Proof.
    induction n as [|n IH]; intros i bs t F I23 HR Hlen; simpl.
    - rewrite Nat.add_0_r in *.
      assert (Hs : skipn i (map e_key t) = []) by (apply skipn_all2; rewrite map_length; lia).
      rewrite Hs. exists F. split; [reflexivity|]. split; [exact HR|]. split; [exact I23 | apply Permutation_refl].
    - destruct (nth_error t i) as [e|] eqn:Hi; [|apply nth_error_None in Hi; lia].
      rewrite (skipn_nth_cons (map e_key t) i (e_key e)) by (now apply map_nth_error). simpl sym_fold.
      pose proof (turn_sim i bs t F e I23 HR Hi) as HT.
      pose proof (fold_step_inv2 convert tol lower i bs t I23) as HI.
      destruct (fold_step convert tol lower i bs t) as [bs1 t1|c] eqn:Ef; [|now rewrite HT].
      destruct HT as (F1 & Hfk & HR1 & HP1). rewrite Hfk.
      pose proof (fold_step_keys i bs t bs1 t1 Ef) as Hk.
      assert (Hl1 : S i + n = length t1).
      { rewrite <- (map_length e_key t1), Hk, map_length. lia. }
      specialize (IH (S i) bs1 t1 F1 HI HR1 Hl1). rewrite Hk in IH.
      replace (i + S n) with (S i + n) by lia.
      destruct (pass2_from convert tol lower (S i) n bs1 t1) as [bs2 t2|c]; [|exact IH].
      destruct IH as (F2 & Hf2 & HR2 & I2 & HP2). exists F2.
      split; [exact Hf2|]. split; [exact HR2|]. split; [exact I2|]. eapply Permutation_trans; eauto.
  Qed.

  Lemma acc_SymR bs t F : keys_distinct t -> sym_embed lower F = (bs, true) -> Acc lower t F ->
    SymR lower 0 bs t F.
  Proof.
    intros K HE (AC & _ & AU). split; [exact HE|]. split.
    - intros j e Hj _. apply AC. eapply nth_error_In; eauto.
    - intros j e Hj _ rt Hrt Hdef. unfold defines in Hdef.
      destruct (r_tree rt) as [| | |b ns s0] eqn:Et; try discriminate.
      apply existsb_exists in Hdef. destruct Hdef as (n & Hn & Hq).
      destruct (AU rt n Hrt) as (e0 & He0 & Hk0 & Hu0); [rewrite Et; exact Hn|].
      assert (e0 = e).
      { eapply keys_distinct_In; [exact K | exact He0 | eapply nth_error_In; eauto |]. rewrite Hk0. exact Hq. }
      subst e0. symmetry. exact Hu0.
  Qed.

  Theorem compile_refines_sym p : compile_ast convert tol lower p = sym_compile convert tol lower p.
  Proof.
    unfold compile_ast, sym_compile.
    pose proof (sim_pass1 lower p) as H1.
    destruct (pass1 lower p) as [bs t|k b o|c] eqn:E1; [|now rewrite H1|contradiction].
    destruct H1 as (F & HRes & HEm & HAcc). rewrite HRes.
    pose proof (pass1_inv23 lower p bs t E1) as I23.
    assert (HR : SymR lower 0 bs t F) by (apply acc_SymR; [apply I23 | exact HEm | exact HAcc]).
    pose proof (pass2_sim (length t) 0 bs t F I23 HR eq_refl) as H2.
    pose proof (pass2_from_inv2 convert tol lower (length t) 0 bs t I23) as H3.
    unfold pass2. simpl skipn in H2.
    destruct (pass2_from convert tol lower 0 (length t) bs t) as [bs' t'|c].
    - destruct H2 as (F' & Hf & HR' & I' & _).
      rewrite Hf. rewrite (proj1 HR'). rewrite (strict_implies_ok bs' (i2_V _ _ _ _ (proj1 I'))). reflexivity.
    - rewrite H2, H3. reflexivity.
  Qed.

  (** Folding the resolved forest of any program conserves the written
      ingredient and step nodes (nothing lost, nothing duplicated). *)
  Theorem sym_fold_conserves_nodes p F keys F' :
    sym_resolve lower p = SResolved F keys -> sym_fold convert tol lower keys F = Some F' ->
    Permutation (fnodes F') (fnodes F).
  Proof.
    intros HRes Hf. pose proof (sim_pass1 lower p) as H1.
    destruct (pass1 lower p) as [bs t|k b o|c] eqn:E1; [|rewrite H1 in HRes; discriminate|contradiction].
    destruct H1 as (F0 & HRes0 & HEm & HAcc). rewrite HRes0 in HRes. inversion HRes; subst F0 keys. clear HRes.
    pose proof (pass1_inv23 lower p bs t E1) as I23.
    assert (HR : SymR lower 0 bs t F) by (apply acc_SymR; [apply I23 | exact HEm | exact HAcc]).
    pose proof (pass2_sim (length t) 0 bs t F I23 HR eq_refl) as H2. simpl skipn in H2.
    destruct (pass2_from convert tol lower 0 (length t) bs t) as [bs' t'|c].
    - destruct H2 as (F2 & Hf2 & _ & _ & HP). rewrite Hf in Hf2. inversion Hf2; subst. exact HP.
    - rewrite Hf in H2. discriminate.
  Qed.
End SymMain.
