(** * Symbolic compilation, part 5: one turn of pass 2 is one [fold_key]. *)
From Coq Require Import List ZArith NArith Bool Lia.
From RG Require Import Base.Str Base.Num Model.Recipe Model.Compiler Spec.Valid Spec.CompileSpec Spec.CompileSym
  Proofs.RecipeInd Proofs.NodeEqv Proofs.RecipeValid Proofs.CompilerExpand
  Proofs.CompilerInvSize Proofs.CompilerInvNames Proofs.CompilerInvDefs Proofs.CompilerInvSub
  Proofs.CompilerInvPass1 Proofs.CompilerInvPass2 Proofs.CompilerSymDefs Proofs.CompilerSymCount
  Proofs.CompilerSymPass1 Proofs.CompilerSymCore.
Import ListNotations.
Local Open Scope nat_scope.

(** Root [rt] embeds (under some environment) to [x]. *)
Definition Emb (rt : sroot) (x : node) : Prop := exists en, y_embed en (r_tree rt) = (x, true).

Section Align.
  Variable lower : str -> str.

  Lemma embed_roots_align : forall rs en xs en1,
    embed_roots lower rs en = (xs, true, en1) -> Forall2 Emb rs xs.
  Proof.
    induction rs as [|rt rs IH]; intros en xs0 en1 H.
    - simpl in H. inversion H. constructor.
    - destruct (embed_roots_inv lower rt rs en xs0 en1 H) as (x & xs & -> & Hx & Hr).
      constructor; [exists en; exact Hx | eapply IH; eauto].
  Qed.

  Lemma embed_from_align : forall F en bss,
    embed_from lower F en = (bss, true) -> Forall2 (Forall2 Emb) F bss.
  Proof.
    induction F as [|rs F IH]; intros en bss0 H.
    - simpl in H. inversion H. constructor.
    - destruct (embed_from_inv lower rs F en bss0 H) as (xs & en1 & bss & -> & Hr & Hrest).
      constructor; [eapply embed_roots_align; eauto | eapply IH; eauto].
  Qed.
End Align.

(** Sub-lists of a concatenation. *)
Lemma subl_app_l {A} (l' a b : list A) : subl l' a -> subl l' (a ++ b).
Proof.
  induction 1 as [|x l1 l2 _ IH|x l1 l2 _ IH]; simpl.
  - apply subl_nil_l.
  - now apply subl_keep.
  - now apply subl_skip.
Qed.

Lemma subl_app_r {A} (l' a b : list A) : subl l' b -> subl l' (a ++ b).
Proof. intro H. induction a; simpl; [exact H | now apply subl_skip]. Qed.

Lemma subl_concat_nth {A} (l' : list A) : forall bs d blk,
  nth_error bs d = Some blk -> subl l' blk -> subl l' (concat bs).
Proof.
  induction bs as [|b bs IH]; intros [|d] blk Hn Hs; try discriminate; simpl in *.
  - inversion Hn; subst. now apply subl_app_l.
  - apply subl_app_r. eapply IH; eauto.
Qed.

Lemma subl_concat_two {A} (x y : A) : forall bs d1 d2 b1 b2,
  d1 < d2 -> nth_error bs d1 = Some b1 -> nth_error bs d2 = Some b2 -> In x b1 -> In y b2 ->
  subl [x; y] (concat bs).
Proof.
  induction bs as [|b bs IH]; intros d1 d2 b1 b2 Hlt H1 H2 Hx Hy; [destruct d1; discriminate|].
  destruct d1 as [|d1], d2 as [|d2]; try lia; simpl in *.
  - inversion H1; subst b1. clear -Hx Hy H2.
    induction b as [|z b IHb]; [contradiction|]. simpl. destruct Hx as [->|Hx].
    + apply subl_keep. apply subl_app_r. apply subl_one.
      apply in_concat. exists b2. split; [eapply nth_error_In; eauto | exact Hy].
    + apply subl_skip. auto.
  - apply subl_app_r. eapply (IH d1 d2); eauto. lia.
Qed.

(** ** Locating the definition in aligned lists *)
Section Locate.
  Variable lower : str -> str.
  Variable e : entry.
  Variable D : node.
  Let k := e_key e.
  Definition AlignD (rs : list sroot) (xs : list node) : Prop :=
    Forall2 (fun rt x => defines lower k rt = true <-> x = D) rs xs.

  Lemma keep_noD rs xs : AlignD rs xs -> ~ In D xs ->
    keep lower e rs xs = xs /\ existsb (defines lower k) rs = false.
  Proof.
    induction 1 as [|rt x rs xs Hiff _ IH]; intro Hn; simpl; [auto|].
    assert (Hd : defines lower k rt = false).
    { destruct (defines lower k rt) eqn:E; [|reflexivity]. exfalso. apply Hn. left. now apply Hiff. }
    fold k. rewrite Hd. destruct IH as [IH1 IH2]; [intro; apply Hn; right; assumption|].
    rewrite IH1, IH2. auto.
  Qed.

  Lemma keep_split rpre rootD rpost pre post :
    AlignD (rpre ++ rootD :: rpost) (pre ++ D :: post) -> length rpre = length pre ->
    ~ In D pre -> ~ In D post ->
    keep lower e (rpre ++ rootD :: rpost) (pre ++ D :: post) = pre ++ post /\
    find (defines lower k) (rpre ++ rootD :: rpost) = Some rootD /\
    existsb (defines lower k) (rpre ++ rootD :: rpost) = true /\
    filter (fun rt => negb (defines lower k rt)) (rpre ++ rootD :: rpost) = rpre ++ rpost /\
    defines lower k rootD = true.
  Proof.
    revert pre. induction rpre as [|rt rpre IH]; intros [|x pre] HA Hl Hn1 Hn2; try discriminate; simpl in *.
    - inversion HA as [|? ? ? ? Hiff HA']; subst.
      assert (Hd : defines lower k rootD = true) by (now apply Hiff).
      fold k. rewrite Hd. simpl.
      destruct (keep_noD rpost post HA' Hn2) as [K1 K2]. rewrite K1.
      split; [reflexivity|]. split; [reflexivity|]. split; [reflexivity|]. split; [|reflexivity].
      clear -HA' Hn2. induction HA' as [|r0 x0 rs xs Hiff _ IH]; [reflexivity|]. simpl.
      assert (Hd : defines lower k r0 = false).
      { destruct (defines lower k r0) eqn:E; [|reflexivity]. exfalso. apply Hn2. left. now apply Hiff. }
      rewrite Hd. simpl. f_equal. apply IH. intro; apply Hn2; right; assumption.
    - inversion HA as [|? ? ? ? Hiff HA']; subst.
      assert (Hd : defines lower k rt = false).
      { destruct (defines lower k rt) eqn:E; [|reflexivity]. exfalso. apply Hn1. left. now apply Hiff. }
      fold k. rewrite Hd. simpl.
      destruct (IH pre HA') as (K1 & K2 & K3 & K4 & K5); [lia | tauto | exact Hn2 |].
      rewrite K1, K2, K3, K4. auto.
  Qed.

  Lemma forest_locate : forall d (F : forest) (bs : list (list node)) rpre rootD rpost pre post,
    Forall2 AlignD F bs ->
    nth_error bs d = Some (pre ++ D :: post) -> nth_error F d = Some (rpre ++ rootD :: rpost) ->
    length rpre = length pre -> ~ In D pre -> ~ In D post ->
    (forall d' b', nth_error bs d' = Some b' -> d' <> d -> ~ In D b') ->
    keepF lower e F bs = firstn d bs ++ (pre ++ post) :: skipn (S d) bs /\
    find (existsb (defines lower k)) F = Some (rpre ++ rootD :: rpost) /\
    map (filter (fun rt => negb (defines lower k rt))) F =
      firstn d F ++ (rpre ++ rpost) :: skipn (S d) F.
  Proof.
    induction d as [|d IH]; intros F bs rpre rootD rpost pre post HA Hb HF Hl Hn1 Hn2 Hother;
      destruct HA as [|rs xs F' bs' Hrs HA']; try discriminate; simpl in Hb, HF.
    - inversion Hb; inversion HF; subst xs rs. clear Hb HF.
      destruct (keep_split rpre rootD rpost pre post Hrs Hl Hn1 Hn2) as (K1 & K2 & K3 & K4 & K5).
      simpl. fold k. rewrite K1, K3, K4. split; [|split; [reflexivity|]].
      + f_equal. clear -HA' Hother.
        assert (H : forall d' b', nth_error bs' d' = Some b' -> ~ In D b').
        { intros d' b' Hd. apply (Hother (S d') b'); [exact Hd | lia]. }
        clear Hother. induction HA' as [|rs xs F'' bs'' Hrs _ IHA]; [reflexivity|]. simpl.
        destruct (keep_noD rs xs Hrs (H 0 xs eq_refl)) as [K _]. rewrite K. f_equal.
        apply IHA. intros d' b' Hd. apply (H (S d') b'). exact Hd.
      + f_equal. assert (H : forall d' b', nth_error bs' d' = Some b' -> ~ In D b').
        { intros d' b' Hd. apply (Hother (S d') b'); [exact Hd | lia]. }
        clear -HA' H. induction HA' as [|rs xs F'' bs'' Hrs _ IHA]; [reflexivity|]. simpl.
        assert (Hf : filter (fun rt => negb (defines lower k rt)) rs = rs).
        { pose proof (H 0 xs eq_refl) as Hn. clear -Hrs Hn.
          induction Hrs as [|r0 x0 rs xs Hiff _ IH]; [reflexivity|]. simpl.
          assert (Hd : defines lower k r0 = false).
          { destruct (defines lower k r0) eqn:E; [|reflexivity]. exfalso. apply Hn. left. now apply Hiff. }
          rewrite Hd. simpl. f_equal. apply IH. intro; apply Hn; right; assumption. }
        rewrite Hf. f_equal. apply IHA. intros d' b' Hd. apply (H (S d') b'). exact Hd.
    - assert (Hn0 : ~ In D xs) by (apply (Hother 0 xs eq_refl); lia).
      destruct (keep_noD rs xs Hrs Hn0) as [K1 K2].
      destruct (IH F' bs' rpre rootD rpost pre post HA' Hb HF Hl Hn1 Hn2) as (J1 & J2 & J3).
      { intros d' b' Hd Hne. apply (Hother (S d') b'); [exact Hd | lia]. }
      simpl. fold k. rewrite K1, K2, J1, J2, J3. split; [reflexivity|]. split; [reflexivity|].
      f_equal. clear -Hrs Hn0. induction Hrs as [|r0 x0 rs xs Hiff _ IHr]; [reflexivity|]. simpl.
      assert (Hd : defines lower k r0 = false).
      { destruct (defines lower k r0) eqn:E; [|reflexivity]. exfalso. apply Hn0. left. now apply Hiff. }
      rewrite Hd. simpl. f_equal. apply IHr. intro; apply Hn0; right; assumption.
  Qed.
End Locate.

(** ** Alignment with good environments *)
Section AlignG.
  Variable lower : str -> str.
  Variable bs : list (list node).

  Definition EmbG (rt : sroot) (x : node) : Prop :=
    exists en, GoodEnv lower bs en /\ y_embed en (r_tree rt) = (x, true).

  Lemma embed_roots_alignG : forall rs en xs en1,
    embed_roots lower rs en = (xs, true, en1) -> (forall x, In x xs -> In x (concat bs)) ->
    GoodEnv lower bs en -> Forall2 EmbG rs xs /\ GoodEnv lower bs en1.
  Proof.
    induction rs as [|rt rs IH]; intros en xs0 en1 H Hin G.
    - simpl in H. inversion H; subst. split; [constructor | exact G].
    - destruct (embed_roots_inv lower rt rs en xs0 en1 H) as (x & xs & -> & Hx & Hr).
      assert (G1 : GoodEnv lower bs (binds lower (ynames (r_tree rt)) x ++ en)).
      { eapply good_binds; eauto. apply Hin. left. reflexivity. }
      destruct (IH _ _ _ Hr (fun y Hy => Hin y (or_intror Hy)) G1) as [A G2].
      split; [|exact G2]. constructor; [exists en; auto | exact A].
  Qed.

  Lemma embed_from_alignG : forall F en bss,
    embed_from lower F en = (bss, true) -> (forall x, In x (concat bss) -> In x (concat bs)) ->
    GoodEnv lower bs en -> Forall2 (Forall2 EmbG) F bss.
  Proof.
    induction F as [|rs F IH]; intros en bss0 H Hin G.
    - simpl in H. inversion H. constructor.
    - destruct (embed_from_inv lower rs F en bss0 H) as (xs & en1 & bss & -> & Hr & Hrest).
      destruct (embed_roots_alignG rs en xs en1 Hr) as [A G1]; [|exact G|].
      + intros x Hx. apply Hin. simpl. apply in_app_iff. auto.
      + constructor; [exact A|]. eapply IH; eauto.
        intros x Hx. apply Hin. simpl. apply in_app_iff. auto.
  Qed.

  Lemma good_nil : GoodEnv lower bs [].
  Proof. intros q X H. discriminate. Qed.
End AlignG.

Lemma Forall2_nth_error_r {A B} (P : A -> B -> Prop) : forall l l' d y,
  Forall2 P l l' -> nth_error l' d = Some y -> exists x, nth_error l d = Some x /\ P x y.
Proof.
  intros l l' d y H. revert d. induction H as [|a b l l' Hab _ IH]; intros [|d] Hn; try discriminate; simpl in *.
  - inversion Hn; subst. eauto.
  - apply IH, Hn.
Qed.

Lemma Forall2_concat {A B} (P : A -> B -> Prop) l l' :
  Forall2 (Forall2 P) l l' -> Forall2 P (concat l) (concat l').
Proof. induction 1; simpl; [constructor | apply Forall2_app; assumption]. Qed.

Lemma Forall2_impl_in_r {A B} (P Q : A -> B -> Prop) l l' :
  (forall x y, In y l' -> P x y -> Q x y) -> Forall2 P l l' -> Forall2 Q l l'.
Proof.
  intros H HF. induction HF as [|a b l l' Hab _ IH]; constructor.
  - apply H; [left; reflexivity | exact Hab].
  - apply IH. intros x y Hy. apply H. right. exact Hy.
Qed.

(** ** The turn of table position [i] *)
Section Turn.
  Variable convert : str -> str -> option num.
  Variable tol : Z * positive.
  Variable lower : str -> str.
  Notation norm := (normalise_output_name lower).
  Variables (i : nat) (bs : list (list node)) (t : table) (F : forest) (e : entry).
  Hypothesis I : Inv2 lower i bs t.
  Hypothesis HU : Uniq lower (concat bs).
  Hypothesis Hi : nth_error t i = Some e.
  Hypothesis HE : sym_embed lower F = (bs, true).
  Let k := e_key e.
  Let Dg := e_sub e.

  Lemma AG : Forall2 (Forall2 (EmbG lower bs)) F bs.
  Proof. eapply embed_from_alignG; [exact HE | auto | apply good_nil]. Qed.

  Lemma e_named : exists b names s0, Dg = SubRecipe b names s0 /\ e_idx e < length names /\
                                    k = norm (nth (e_idx e) names []).
  Proof. exact (i2_KN _ _ _ _ I i e Hi (le_n _)). Qed.

  Lemma root_with_key_g X n : In X (concat bs) -> is_subrecipe X = true -> In n (names_of X) ->
    svs_eqb (norm n) k = true -> X = Dg.
  Proof.
    intros HX Hs Hn Hk. destruct (In_nth _ _ [] Hn) as (k0 & Hk0 & Hnth).
    destruct (i2_NL _ _ _ _ I X X HX (chain_here _) Hs k0 Hk0) as (j & ej & Hj & Hkey & _ & Hsj).
    assert (j = i).
    { eapply keys_distinct_nth; [apply I | exact Hj | exact Hi |]. rewrite Hkey.
      replace (nth k0 (names_of X) []) with n by (symmetry; exact Hnth). exact Hk. }
    subst j. rewrite Hi in Hj. inversion Hj; subst ej. symmetry. apply Hsj. lia.
  Qed.

  Lemma defines_iff rt x : EmbG lower bs rt x -> In x (concat bs) ->
    (defines lower k rt = true <-> x = Dg).
  Proof.
    intros (en & _ & He) Hx. destruct (embed_shape en _ x He) as [Hs Hn]. split.
    - unfold defines. destruct (r_tree rt) as [| | |b ns s0]; try discriminate.
      intro H. apply existsb_exists in H. destruct H as (n & Hin & Hq). simpl in Hs, Hn.
      apply (root_with_key_g x n Hx Hs); [rewrite Hn; exact Hin | exact Hq].
    - intros ->. destruct e_named as (b & names & s0 & HD & Hlt & Hk). rewrite HD in Hn, Hs. simpl in Hn, Hs.
      unfold defines. destruct (r_tree rt) as [| | |b' ns s1]; try discriminate. simpl in Hn. subst ns.
      apply existsb_exists. exists (nth (e_idx e) names []). split; [now apply nth_In|].
      rewrite <- Hk. apply svs_eqb_refl.
  Qed.

  Lemma AD : Forall2 (AlignD lower e Dg) F bs.
  Proof.
    pose proof AG as A. assert (Hin : forall xs, In xs bs -> forall x, In x xs -> In x (concat bs)).
    { intros xs Hxs x Hx. apply in_concat. eauto. }
    eapply Forall2_impl_in_r; [|exact A]. intros rs xs Hxs HF. unfold AlignD.
    eapply Forall2_impl_in_r; [|exact HF]. intros rt x Hx Hem. apply defines_iff; [exact Hem|]. eapply Hin; eauto.
  Qed.

  Lemma Dg_no_two : ~ subl [Dg; Dg] (concat bs).
  Proof.
    intro H. destruct e_named as (b & names & s0 & HD & Hlt & _).
    assert (Hs : is_subrecipe Dg = true) by (rewrite HD; reflexivity).
    assert (Hn : In (nth (e_idx e) names []) (names_of Dg)) by (rewrite HD; simpl; now apply nth_In).
    pose proof (HU Dg Dg H Dg Dg (chain_here _) (chain_here _) Hs Hs _ _ Hn Hn) as Hf.
    rewrite svs_eqb_refl in Hf. discriminate.
  Qed.

  (** Where the definition is: the same position in the recipe and in the forest. *)
  Lemma locate : exists pre post rpre rootD rpost,
    nth_error bs (e_def_block e) = Some (pre ++ Dg :: post) /\
    nth_error F (e_def_block e) = Some (rpre ++ rootD :: rpost) /\
    Forall2 (EmbG lower bs) rpre pre /\ EmbG lower bs rootD Dg /\ Forall2 (EmbG lower bs) rpost post /\
    ~ In Dg pre /\ ~ In Dg post /\
    (forall d' b', nth_error bs d' = Some b' -> d' <> e_def_block e -> ~ In Dg b').
  Proof.
    destruct (i2_T _ _ _ _ I i e Hi (le_n _)) as (trees & Hn & Hin).
    destruct (in_split _ _ Hin) as (pre & post & ->).
    destruct (Forall2_nth_error_r _ _ _ _ _ AG Hn) as (rsD & HnF & HA).
    apply Forall2_app_inv_r in HA. destruct HA as (rpre & r2 & Hpre & H2 & ->).
    inversion H2 as [|rootD ? rpost ? HD Hpost]; subst.
    exists pre, post, rpre, rootD, rpost. repeat split; auto.
    - intro Hp. apply Dg_no_two. eapply subl_concat_nth; [exact Hn|].
      destruct (in_split _ _ Hp) as (p1 & p2 & ->). rewrite <- app_assoc. simpl.
      apply subl_app_r. apply subl_keep. apply subl_app_r. apply subl_keep. apply subl_nil_l.
    - intro Hp. apply Dg_no_two. eapply subl_concat_nth; [exact Hn|].
      apply subl_app_r. apply subl_keep. now apply subl_one.
    - intros d' b' Hd' Hne Hp. apply Dg_no_two.
      destruct (proj1 (Nat.lt_gt_cases d' (e_def_block e)) Hne) as [Hlt|Hgt].
      + eapply (subl_concat_two Dg Dg bs d' (e_def_block e)); eauto using in_elt.
      + eapply (subl_concat_two Dg Dg bs (e_def_block e) d'); eauto using in_elt.
  Qed.

  Lemma embG_sub rootD b names s0 : EmbG lower bs rootD (SubRecipe b names s0) ->
    exists body_s en, r_tree rootD = YSub body_s names s0 /\ GoodEnv lower bs en /\
                      y_embed en body_s = (b, true).
  Proof.
    intros (en & G & He). destruct (r_tree rootD) as [d q|d ins|q i0 a|body_s ns s1].
    - inversion He.
    - rewrite y_embed_step in He. inversion He.
    - simpl in He. destruct (eenv_lookup q en); inversion He.
    - rewrite y_embed_sub in He. pose proof (f_equal fst He) as H1. pose proof (f_equal snd He) as H2.
      simpl in H1, H2. injection H1 as Hb Hn Hs. subst ns s1.
      exists body_s, en. split; [reflexivity|]. split; [exact G|].
      destruct (y_embed en body_s) as [xb okb]. simpl in *. congruence.
  Qed.

  (** The two searches of [fold_key] find the definition, and deleting the
      roots that define [k] deletes exactly it. *)
  Lemma finds pre post rpre rootD rpost :
    nth_error bs (e_def_block e) = Some (pre ++ Dg :: post) ->
    nth_error F (e_def_block e) = Some (rpre ++ rootD :: rpost) ->
    Forall2 (EmbG lower bs) rpre pre ->
    ~ In Dg pre -> ~ In Dg post ->
    (forall d' b', nth_error bs d' = Some b' -> d' <> e_def_block e -> ~ In Dg b') ->
    find (existsb (defines lower k)) F = Some (rpre ++ rootD :: rpost) /\
    find (defines lower k) (rpre ++ rootD :: rpost) = Some rootD /\
    defines lower k rootD = true /\
    keepF lower e F bs = firstn (e_def_block e) bs ++ (pre ++ post) :: skipn (S (e_def_block e)) bs /\
    map (filter (fun rt => negb (defines lower k rt))) F =
      firstn (e_def_block e) F ++ (rpre ++ rpost) :: skipn (S (e_def_block e)) F.
  Proof.
    intros Hn HnF Hpre Hn1 Hn2 Hoth.
    assert (Hl : length rpre = length pre) by (clear -Hpre; induction Hpre; simpl; congruence).
    destruct (forest_locate lower e Dg (e_def_block e) F bs rpre rootD rpost pre post AD Hn HnF Hl Hn1 Hn2 Hoth)
      as (K1 & K2 & K3).
    destruct (Forall2_nth_error_r _ _ _ _ _ AD Hn) as (rsD & HnF' & HA).
    rewrite HnF in HnF'. inversion HnF'; subst rsD.
    destruct (keep_split lower e Dg rpre rootD rpost pre post HA Hl Hn1 Hn2) as (_ & J2 & _ & _ & J5).
    auto.
  Qed.
  (** A use of the key embeds to a reference to the definition. *)
  Lemma occ_ref_to_D rt x q i0 a : EmbG lower bs rt x -> In x (concat bs) ->
    yocc q i0 a (r_tree rt) -> svs_eqb q k = true -> inside (Reference Dg i0 a) x.
  Proof.
    intros (en & G & He) Hx Ho Hq. destruct (embed_occ en _ x q i0 a He Ho) as (X & Hl & Hin).
    destruct (G q X Hl) as (HX & Hs & n & Hn & Hnq).
    rewrite <- (root_with_key_g X n HX Hs Hn); [exact Hin|]. eapply svs_eqb_trans; eauto.
  Qed.
End Turn.

(** ** The simulation relation between the model state and the symbolic forest *)
Definition SymR (lower : str -> str) (i : nat) (bs : list (list node)) (t : table) (F : forest) : Prop :=
  sym_embed lower F = (bs, true) /\
  (forall j e, nth_error t j = Some e -> i <= j ->
     length (e_refs e) = count_in (e_key e) (concat F) /\
     forall x b, In (x, b) (e_refs e) -> 1 <= count_in (e_key e) (nth b F [])) /\
  (forall j e, nth_error t j = Some e -> i <= j ->
     forall rt, In rt (concat F) -> defines lower (e_key e) rt = true -> r_unwrap rt = e_unwrap e).

Lemma SymR_weaken lower i bs t F : SymR lower i bs t F -> SymR lower (S i) bs t F.
Proof.
  intros (H1 & H2 & H3). split; [exact H1|]. split.
  - intros j e Hj Hle. apply (H2 j e Hj). lia.
  - intros j e Hj Hle. apply (H3 j e Hj). lia.
Qed.

(** [can_be_inlined] when the definition has one output and one use. *)
Lemma can_be_inlined_one convert tol lower e body nm sh rs ri amt b :
  e_sub e = SubRecipe body [nm] sh -> e_refs e = [(Reference rs ri amt, b)] ->
  can_be_inlined convert tol lower e =
  if negb (Nat.eqb b (e_def_block e)) then Some false
  else whole convert tol lower amt (infer_quantity (SubRecipe body [nm] sh)).
Proof.
  intros Hs Hr. unfold can_be_inlined. rewrite Hs, Hr.
  destruct (negb (Nat.eqb b (e_def_block e))); [reflexivity|].
  unfold whole. destruct amt as [q|[v pc pr|w pr]]; reflexivity.
Qed.

Lemma can_be_inlined_not_one_name convert tol lower e b names s0 :
  e_sub e = SubRecipe b names s0 -> (forall n, names <> [n]) ->
  can_be_inlined convert tol lower e = Some false.
Proof.
  intros Hs Hn. unfold can_be_inlined. rewrite Hs.
  destruct names as [|n1 [|n2 rest]]; try reflexivity. exfalso. apply (Hn n1). reflexivity.
Qed.

Lemma can_be_inlined_not_one_ref convert tol lower e :
  length (e_refs e) <> 1 -> can_be_inlined convert tol lower e = Some false.
Proof.
  intros Hl. unfold can_be_inlined.
  destruct (e_sub e) as [| | |b ns s0]; try reflexivity.
  destruct ns as [|n1 [|n2 rest]]; try reflexivity.
  destruct (e_refs e) as [|[x b0] tl]; [reflexivity|].
  destruct x; try (destruct tl; reflexivity). destruct tl; [simpl in Hl; lia | reflexivity].
Qed.

Lemma Forall2_In_l {A B} (P : A -> B -> Prop) l l' a :
  Forall2 P l l' -> In a l -> exists b, In b l' /\ P a b.
Proof.
  induction 1 as [|x y l l' Hxy _ IH]; simpl; [tauto|]. intros [->|H]; [eauto|].
  destruct (IH H) as (b & Hb & HP). eauto.
Qed.

Lemma nth_error_firstn_skipn {A} : forall (l : list A) d x,
  nth_error l d = Some x -> l = firstn d l ++ x :: skipn (S d) l.
Proof.
  induction l as [|y l IH]; intros [|d] x H; try discriminate; simpl in *.
  - inversion H; reflexivity.
  - f_equal. now apply IH.
Qed.

Lemma in_concat_filtered {A} (f : A -> bool) (F : list (list A)) x :
  In x (concat (map (filter f) F)) -> f x = true.
Proof.
  intro H. apply in_concat in H. destruct H as (l & Hl & Hx). apply in_map_iff in Hl.
  destruct Hl as (l0 & <- & _). apply filter_In in Hx. tauto.
Qed.

Section TurnMain.
  Variable convert : str -> str -> option num.
  Variable tol : Z * positive.
  Variable lower : str -> str.
  Notation norm := (normalise_output_name lower).
  Variables (i : nat) (bs : list (list node)) (t : table) (F : forest) (e : entry).
  Hypothesis I : Inv2 lower i bs t.
  Hypothesis HU : Uniq lower (concat bs).
  Hypothesis Hi : nth_error t i = Some e.
  Hypothesis HR : SymR lower i bs t F.
  Let k := e_key e.
  Let Dg := e_sub e.
  Let HE : sym_embed lower F = (bs, true) := proj1 HR.

  (** The single recorded use carries the amount written at the single symbolic use. *)
  Lemma single_use_amount blockD a x0 b0 a_s :
    Forall2 (EmbG lower bs) blockD (nth (e_def_block e) bs []) ->
    (forall x, In x (nth (e_def_block e) bs []) -> In x (concat bs)) ->
    e_refs e = [(x0, b0)] -> x0 = Reference Dg (e_idx e) a ->
    (exists b names s0, Dg = SubRecipe b names s0 /\ length names = 1) ->
    amount_in k blockD = Some a_s -> a_s = a.
  Proof.
    intros HA Hin Hr Hx0 (b & names & s0 & HD & Hlen) Ham.
    destruct (amount_in_occ k blockD a_s Ham) as (rt & q & i0 & Hrt & Ho & Hq).
    destruct (Forall2_In_l _ _ _ rt HA Hrt) as (x & Hx & Hem).
    pose proof (occ_ref_to_D lower i bs t e I Hi rt x q i0 a_s Hem (Hin x Hx) Ho Hq) as Hins.
    assert (Hi0 : i0 = e_idx e).
    { pose proof (concat_constructed lower i bs t I x (Hin x Hx)) as Hc.
      pose proof (proj1 (constructed_inside x) Hc _ Hins) as Hp. fold Dg in Hp. rewrite HD in Hp. simpl in Hp.
      destruct (i2_KN _ _ _ _ I i e Hi (le_n _)) as (b' & names' & s' & HD' & Hlt & _).
      fold Dg in HD'. rewrite HD in HD'. inversion HD'; subst names'.
      destruct (Nat.ltb i0 (length names)) eqn:El; [|discriminate]. apply Nat.ltb_lt in El. lia. }
    subst i0.
    pose proof (i2_U _ _ _ _ I i e Hi (le_n _) x a_s (Hin x Hx) Hins) as HUse.
    rewrite Hr in HUse. simpl in HUse. destruct HUse as [HUse|[]]. rewrite Hx0 in HUse. congruence.
  Qed.

  (** What is grafted: the body of the definition root, or the root itself. *)
  Definition graft_of (rootD : sroot) : sym :=
    match r_tree rootD with
    | YSub body_s _ _ => if e_unwrap e then body_s else r_tree rootD
    | other => other
    end.
  Definition folded (rootD : sroot) : forest :=
    map (fun rs => map (fun r => mkRoot (y_graft k (graft_of rootD) (r_tree r)) (r_unwrap r))
                       (filter (fun r => negb (defines lower k r)) rs)) F.

  Lemma turn_eval_aux pre post rpre rootD rpost :
    nth_error bs (e_def_block e) = Some (pre ++ Dg :: post) ->
    nth_error F (e_def_block e) = Some (rpre ++ rootD :: rpost) ->
    Forall2 (EmbG lower bs) rpre pre -> EmbG lower bs rootD Dg -> Forall2 (EmbG lower bs) rpost post ->
    find (existsb (defines lower k)) F = Some (rpre ++ rootD :: rpost) ->
    find (defines lower k) (rpre ++ rootD :: rpost) = Some rootD ->
    defines lower k rootD = true ->
    fold_key convert tol lower k F =
      match can_be_inlined convert tol lower e with
      | None => None
      | Some false => Some F
      | Some true => Some (folded rootD)
      end.
  Proof.
    intros Hnb HnF Hpre HD Hpost K1 K2 K3.
    pose proof HR as (_ & R2 & R3). destruct (R2 i e Hi (le_n _)) as [Rc Rb]. fold k in Rc, Rb.
    destruct (i2_KN _ _ _ _ I i e Hi (le_n _)) as (b & names & s0 & HDg & Hlt & Hkey).
    fold Dg in HDg. rewrite HDg in HD.
    destruct (embG_sub lower bs rootD b names s0 HD) as (body_s & en & Htree & G & Hbody).
    assert (Hroot_in : In rootD (concat F)).
    { apply in_concat. exists (rpre ++ rootD :: rpost). split; [eapply nth_error_In; eauto | apply in_elt]. }
    pose proof (R3 i e Hi (le_n _) rootD Hroot_in K3) as Hunw.
    unfold fold_key. fold k. rewrite K1, K2. unfold folded, graft_of.
    destruct rootD as [tree unw]. simpl in Htree, Hunw |- *. subst tree unw.
    destruct names as [|nm [|n2 rest]].
    - rewrite (can_be_inlined_not_one_name convert tol lower e b [] s0 HDg); [reflexivity | discriminate].
    - (* one output *)
      destruct (Nat.eq_dec (length (e_refs e)) 1) as [Hl1|Hl1].
      2: { rewrite (can_be_inlined_not_one_ref convert tol lower e Hl1).
           rewrite <- Rc. apply Nat.eqb_neq in Hl1. rewrite Hl1. reflexivity. }
      destruct (e_refs e) as [|[x0 b0] [|? ?]] eqn:Er; try discriminate. clear Hl1.
      destruct (i2_C _ _ _ _ I i e Hi (le_n _) x0 b0) as (a & Hx0); [rewrite Er; left; reflexivity|].
      rewrite (can_be_inlined_one convert tol lower e b nm s0 _ _ a b0 HDg) by (rewrite Er, Hx0; reflexivity).
      rewrite <- Rc. simpl length. rewrite Nat.eqb_refl. simpl andb.
      set (rootD := {| r_tree := YSub body_s [nm] s0; r_unwrap := e_unwrap e |}) in *.
      set (blockD := rpre ++ rootD :: rpost) in *.
      assert (HblockD : nth (e_def_block e) F [] = blockD) by (apply nth_error_nth; exact HnF).
      assert (Hb0 : 1 <= count_in k (nth b0 F [])) by (apply (Rb x0 b0); left; reflexivity).
      assert (Htot : count_in k (concat F) = 1) by (rewrite <- Rc; reflexivity).
      destruct (Nat.eqb b0 (e_def_block e)) eqn:Eb; simpl negb; cbv iota.
      + apply Nat.eqb_eq in Eb. subst b0. rewrite HblockD in Hb0.
        pose proof (count_in_nth_le k F (e_def_block e)) as Hle. rewrite HblockD, Htot in Hle.
        assert (Hc1 : count_in k blockD = 1) by lia. rewrite Hc1. simpl Nat.eqb. cbv iota.
        destruct (count_in_pos_amount k blockD) as (a_s & Ham); [lia|]. rewrite Ham.
        assert (a_s = a).
        { apply (single_use_amount blockD a x0 (e_def_block e) a_s); auto.
          - rewrite (nth_error_nth _ _ _ Hnb). apply Forall2_app; [exact Hpre|].
            constructor; [rewrite HDg in *; exact HD | exact Hpost].
          - intros x Hx. apply in_concat. exists (nth (e_def_block e) bs []). split; [|exact Hx].
            rewrite (nth_error_nth _ _ _ Hnb). eapply nth_error_In; eauto.
          - exists b, [nm], s0. auto. }
        subst a_s.
        assert (Hq : y_infer_quantity (YSub body_s [nm] s0) = infer_quantity (SubRecipe b [nm] s0)).
        { symmetry. apply (embed_infer_quantity en). rewrite y_embed_sub, Hbody. reflexivity. }
        change (y_infer_quantity (YSub body_s [nm] s0)) with (y_infer_quantity body_s) in Hq.
        rewrite Hq. destruct (whole convert tol lower a (infer_quantity (SubRecipe b [nm] s0))) as [[|]|]; reflexivity.
      + apply Nat.eqb_neq in Eb.
        pose proof (count_in_two_blocks k F b0 (e_def_block e) Eb) as Hle. rewrite HblockD, Htot in Hle.
        assert (Hc0 : count_in k blockD = 0) by lia. rewrite Hc0. reflexivity.
    - rewrite (can_be_inlined_not_one_name convert tol lower e b (nm :: n2 :: rest) s0 HDg); [reflexivity | discriminate].
  Qed.

  Lemma turn_eval : exists pre post rpre rootD rpost,
    nth_error bs (e_def_block e) = Some (pre ++ Dg :: post) /\
    nth_error F (e_def_block e) = Some (rpre ++ rootD :: rpost) /\
    EmbG lower bs rootD Dg /\ ~ In Dg pre /\ defines lower k rootD = true /\
    keepF lower e F bs = firstn (e_def_block e) bs ++ (pre ++ post) :: skipn (S (e_def_block e)) bs /\
    (forall rt, In rt (concat F) -> defines lower k rt = true -> rt = rootD) /\
    map (filter (fun rt => negb (defines lower k rt))) F =
      firstn (e_def_block e) F ++ (rpre ++ rpost) :: skipn (S (e_def_block e)) F /\
    fold_key convert tol lower k F =
      match can_be_inlined convert tol lower e with
      | None => None
      | Some false => Some F
      | Some true => Some (folded rootD)
      end.
  Proof.
    destruct (locate lower i bs t F e I HU Hi HE)
      as (pre & post & rpre & rootD & rpost & Hnb & HnF & Hpre & HD & Hpost & Hn1 & Hn2 & Hoth).
    destruct (finds lower i bs t F e I Hi HE pre post rpre rootD rpost Hnb HnF Hpre Hn1 Hn2 Hoth)
      as (K1 & K2 & K3 & K4 & K5).
    exists pre, post, rpre, rootD, rpost. split; [exact Hnb|]. split; [exact HnF|]. split; [exact HD|].
    split; [exact Hn1|]. split; [exact K3|]. split; [exact K4|]. split.
    { intros rt Hrt Hdef.
      assert (Hnot : ~ In rt (concat (map (filter (fun r => negb (defines lower (e_key e) r))) F))).
      { intro H. apply in_concat_filtered in H. fold k in H. rewrite Hdef in H. discriminate. }
      rewrite K5 in Hnot. rewrite (nth_error_firstn_skipn F _ _ HnF) in Hrt.
      rewrite concat_app in Hrt, Hnot. simpl concat in Hrt, Hnot.
      repeat rewrite in_app_iff in Hrt. repeat rewrite in_app_iff in Hnot. simpl In in Hrt.
      destruct Hrt as [H|[[H|[H|H]]|H]]; try (exfalso; tauto).
      symmetry. exact H. }
    split; [exact K5|].
    exact (turn_eval_aux pre post rpre rootD rpost Hnb HnF Hpre HD Hpost K1 K2 K3).
  Qed.
End TurnMain.
