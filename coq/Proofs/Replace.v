(** * Python [str.replace] on a text that contains the token exactly once; templates.

    [replace p v (a ++ p ++ b) = a ++ v ++ b] when [p] (non-empty) occurs exactly once in
    [a ++ p ++ b] (overlapping occurrences counted, [occ]), and the generalisation to a
    template with several named holes filled in any order ([apply_subs_inst]). *)
From Coq Require Import List NArith Bool Arith Lia.
From RG Require Import Base.Str Model.Markdown Spec.MarkdownSpec.
Import ListNotations.

(** ** [starts_with] *)

Lemma starts_with_app p b : starts_with p (p ++ b) = true.
Proof.
  induction p as [|c p IH]; simpl; [reflexivity|].
  rewrite N.eqb_refl. exact IH.
Qed.

Lemma starts_with_true p x : starts_with p x = true -> exists r, x = p ++ r.
Proof.
  revert x; induction p as [|c p IH]; intros x H; simpl in *.
  - exists x; reflexivity.
  - destruct x as [|d x]; [discriminate|].
    apply andb_true_iff in H as [H1 H2]. apply N.eqb_eq in H1. subst d.
    destruct (IH _ H2) as [r ->]. exists r; reflexivity.
Qed.

(** ** [occ] *)

Lemma occ_app_le p a b : (occ p b <= occ p (a ++ b))%nat.
Proof. induction a as [|c a IH]; simpl; lia. Qed.

Lemma occ_at_least_one (p : str) a b : p <> [] -> (1 <= occ p (a ++ p ++ b))%nat.
Proof.
  intros Hp. induction a as [|c a IH]; simpl.
  - destruct p as [|c p]; [congruence|]. simpl app.
    change (occ (c :: p) (c :: p ++ b)) with
      ((if starts_with (c :: p) ((c :: p) ++ b) then 1 else 0) + occ (c :: p) (p ++ b))%nat.
    rewrite starts_with_app. lia.
  - lia.
Qed.

Lemma occ_app_r_zero p a b : occ p (a ++ b) = 0%nat -> occ p b = 0%nat.
Proof. intros H. pose proof (occ_app_le p a b). lia. Qed.

(** ** [replace_go] *)

Lemma replace_go_skip p v n x :
  (n <= length x)%nat -> replace_go p v n x = replace_go p v 0 (skipn n x).
Proof.
  revert x; induction n as [|n IH]; intros x H.
  - reflexivity.
  - destruct x as [|c x]; simpl in H; [lia|]. simpl. apply IH. lia.
Qed.

Lemma replace_go_none p v x : occ p x = 0%nat -> replace_go p v 0 x = x.
Proof.
  induction x as [|c x IH]; intros H; [reflexivity|].
  simpl in H. simpl replace_go.
  destruct (starts_with p (c :: x)); [simpl in H; lia|].
  simpl in H. rewrite IH by lia. reflexivity.
Qed.

Lemma skipn_app_exact {A} (a b : list A) : skipn (length a) (a ++ b) = b.
Proof. induction a; simpl; auto. Qed.

Lemma occ_cons p c x :
  occ p (c :: x) = ((if starts_with p (c :: x) then 1 else 0) + occ p x)%nat.
Proof. reflexivity. Qed.

Lemma replace_go_cons0 p v c x :
  replace_go p v 0 (c :: x) =
  if starts_with p (c :: x) then v ++ replace_go p v (length p - 1) x else c :: replace_go p v 0 x.
Proof. reflexivity. Qed.

(** The token occurs exactly once: it is replaced there and nothing else changes. *)
Lemma replace_go_once (p : str) v a b :
  p <> [] -> occ p (a ++ p ++ b) = 1%nat ->
  replace_go p v 0 (a ++ p ++ b) = a ++ v ++ b.
Proof.
  intros Hp. induction a as [|c a IH]; intros H.
  - destruct p as [|c p]; [congruence|].
    change ([] ++ (c :: p) ++ b) with (c :: (p ++ b)) in *.
    rewrite occ_cons in H. rewrite replace_go_cons0.
    change (c :: p ++ b) with ((c :: p) ++ b) in *.
    rewrite starts_with_app in *.
    assert (H0 : occ (c :: p) (p ++ b) = 0%nat) by lia.
    change (length (c :: p) - 1)%nat with (length p - 0)%nat. rewrite Nat.sub_0_r.
    rewrite replace_go_skip by (rewrite app_length; lia).
    rewrite skipn_app_exact.
    rewrite replace_go_none by (eapply occ_app_r_zero; exact H0).
    reflexivity.
  - change ((c :: a) ++ p ++ b) with (c :: (a ++ p ++ b)) in *.
    rewrite occ_cons in H. rewrite replace_go_cons0.
    pose proof (occ_at_least_one p a b Hp) as H1.
    destruct (starts_with p (c :: a ++ p ++ b)); [lia|].
    rewrite IH by lia. reflexivity.
Qed.

Lemma replace_once (p : str) v a b :
  p <> [] -> occ p (a ++ p ++ b) = 1%nat -> replace p v (a ++ p ++ b) = a ++ v ++ b.
Proof.
  intros Hp H. unfold replace. destruct p; [congruence|]. apply replace_go_once; assumption.
Qed.

(** ** Templates *)

Inductive seg := SLit (h : str) | SHole (p : str).
Definition tpl := list seg.

Fixpoint assoc (p : str) (l : list (str * str)) : option str :=
  match l with
  | [] => None
  | (q, v) :: r => if str_eqb q p then Some v else assoc p r
  end.

(** The template with the holes listed in [sub] filled in, the others showing their name. *)
Definition seg_text (sub : list (str * str)) (x : seg) : str :=
  match x with
  | SLit h => h
  | SHole p => match assoc p sub with Some v => v | None => p end
  end.
Definition inst (sub : list (str * str)) (t : tpl) : str := concat (map (seg_text sub) t).

Definition holes (t : tpl) : list str :=
  flat_map (fun x => match x with SHole p => [p] | SLit _ => [] end) t.

Lemma inst_app sub a b : inst sub (a ++ b) = inst sub a ++ inst sub b.
Proof. unfold inst. rewrite map_app, concat_app. reflexivity. Qed.

Lemma holes_app a b : holes (a ++ b) = holes a ++ holes b.
Proof. unfold holes. apply flat_map_app. Qed.

Lemma str_eqb_neq a b : a <> b -> str_eqb a b = false.
Proof.
  intros H. destruct (str_eqb a b) eqn:E; [|reflexivity].
  apply str_eqb_eq in E. contradiction.
Qed.

Lemma assoc_snoc_other p q v sub : q <> p -> assoc p (sub ++ [(q, v)]) = assoc p sub.
Proof.
  intros H. induction sub as [|[q' v'] sub IH]; simpl.
  - rewrite str_eqb_neq by assumption. reflexivity.
  - destruct (str_eqb q' p); [reflexivity | exact IH].
Qed.

Lemma assoc_snoc_same p v sub : assoc p sub = None -> assoc p (sub ++ [(p, v)]) = Some v.
Proof.
  induction sub as [|[q' v'] sub IH]; simpl; intros H.
  - rewrite str_eqb_refl. reflexivity.
  - destruct (str_eqb q' p); [discriminate | auto].
Qed.

Lemma inst_snoc_other sub p v t : ~ In p (holes t) -> inst (sub ++ [(p, v)]) t = inst sub t.
Proof.
  induction t as [|x t IH]; intros H; [reflexivity|].
  change (x :: t) with ([x] ++ t). rewrite !inst_app. rewrite IH.
  - f_equal. unfold inst; simpl. rewrite !app_nil_r. destruct x as [h|q]; simpl; [reflexivity|].
    rewrite assoc_snoc_other; [reflexivity|]. intros ->. apply H. simpl. left; reflexivity.
  - intros Hin. apply H. change (x :: t) with ([x] ++ t). rewrite holes_app. apply in_or_app. right; exact Hin.
Qed.

Lemma holes_cons x t :
  holes (x :: t) = (match x with SHole p => [p] | SLit _ => [] end) ++ holes t.
Proof. reflexivity. Qed.

Lemma in_holes_split p t : In p (holes t) -> exists t1 t2, t = t1 ++ SHole p :: t2.
Proof.
  induction t as [|x t IH]; [simpl; tauto|].
  intros H. rewrite holes_cons in H.
  apply in_app_or in H as [H|H].
  - destruct x as [h|q]; simpl in H; [tauto|]. destruct H as [->|[]].
    exists [], t. reflexivity.
  - destruct (IH H) as (t1 & t2 & ->). exists (x :: t1), t2. reflexivity.
Qed.

(** One step: filling the hole [p], whose name occurs exactly once in the current text. *)
Lemma replace_inst sub (p : str) v t :
  p <> [] -> NoDup (holes t) -> In p (holes t) -> assoc p sub = None ->
  occ p (inst sub t) = 1%nat ->
  replace p v (inst sub t) = inst (sub ++ [(p, v)]) t.
Proof.
  intros Hp Hnd Hin Hnone Hocc.
  destruct (in_holes_split _ _ Hin) as (t1 & t2 & ->).
  rewrite holes_app, holes_cons in Hnd.
  assert (H1 : ~ In p (holes t1)).
  { intros H. apply NoDup_remove_2 in Hnd. apply Hnd. apply in_or_app. left; exact H. }
  assert (H2 : ~ In p (holes t2)).
  { intros H. apply NoDup_remove_2 in Hnd. apply Hnd. apply in_or_app. right; exact H. }
  assert (E : forall s0, inst s0 (t1 ++ SHole p :: t2) =
                         inst s0 t1 ++ seg_text s0 (SHole p) ++ inst s0 t2).
  { intros s0. rewrite inst_app. unfold inst at 2. simpl. reflexivity. }
  rewrite (E sub) in Hocc. rewrite (E sub), (E (sub ++ [(p, v)])). simpl seg_text in *.
  rewrite (inst_snoc_other sub p v t1 H1), (inst_snoc_other sub p v t2 H2).
  rewrite Hnone in *. rewrite (assoc_snoc_same p v sub Hnone).
  apply replace_once; assumption.
Qed.

(** All steps, in any order: what [MarkdownRecipe.render] does to the text, provided every
    step finds its placeholder exactly once ([trace]). *)
Lemma apply_subs_inst subs : forall sub t,
  NoDup (holes t) -> NoDup (map fst subs) ->
  (forall p, In p (map fst subs) -> p <> [] /\ In p (holes t) /\ assoc p sub = None) ->
  Forall (fun ph => occ (fst ph) (snd ph) = 1%nat) (trace subs (inst sub t)) ->
  apply_subs subs (inst sub t) = inst (sub ++ subs) t.
Proof.
  induction subs as [|[p v] subs IH]; intros sub t Hnd Hk Hin Htr.
  - rewrite app_nil_r. reflexivity.
  - simpl in Htr. inversion Htr as [|? ? Hocc Hrest]; subst. simpl in Hocc.
    simpl in Hk. inversion Hk as [|? ? Hnotin Hk']; subst.
    destruct (Hin p (or_introl eq_refl)) as (Hp & Hh & Hn).
    pose proof (replace_inst sub p v t Hp Hnd Hh Hn Hocc) as E.
    unfold apply_subs in *. simpl. rewrite E. rewrite E in Hrest.
    change (sub ++ (p, v) :: subs) with (sub ++ [(p, v)] ++ subs). rewrite app_assoc.
    apply IH; try assumption.
    intros q Hq. destruct (Hin q (or_intror Hq)) as (Hq1 & Hq2 & Hq3).
    repeat split; try assumption.
    rewrite assoc_snoc_other; [assumption|]. intros ->. contradiction.
Qed.

(** Filling every hole from a duplicate-free list. *)
Lemma assoc_in p v l : NoDup (map fst l) -> In (p, v) l -> assoc p l = Some v.
Proof.
  induction l as [|[q w] l IH]; simpl; intros Hnd Hin; [tauto|].
  inversion Hnd as [|? ? Hq Hnd']; subst.
  destruct Hin as [E|Hin].
  - inversion E; subst. rewrite str_eqb_refl. reflexivity.
  - rewrite str_eqb_neq; [auto|]. intros ->. apply Hq. apply in_map_iff. exists (p, v). split; auto.
Qed.
