(** * Compiler invariants, part 4: pass 1 establishes the table invariants and
    strict validity, and never fails its [assert]. *)
From Coq Require Import List ZArith NArith Bool Lia.
From RG Require Import Base.Str Base.Num Model.Recipe Model.Compiler Spec.Valid
  Proofs.RecipeInd Proofs.NodeEqv Proofs.RecipeValid Proofs.CompilerExpand
  Proofs.CompilerInvSize Proofs.CompilerInvNames Proofs.CompilerInvDefs.
Import ListNotations.

Definition with_ref (o : entry) (r : node * nat) : entry :=
  mkEntry (e_key o) (e_def_block o) (e_sub o) (e_idx o) (e_refs o ++ [r]) (e_unwrap o).

Lemma lookup_split k r : forall t o, lookup k t = Some o ->
  exists t1 t2, t = t1 ++ o :: t2 /\ svs_eqb (e_key o) k = true /\
    (forall e, In e t1 -> svs_eqb (e_key e) k = false) /\
    add_ref k r t = t1 ++ with_ref o r :: t2.
Proof.
  induction t as [|e t IH]; simpl; intros o H; [discriminate|].
  destruct (svs_eqb (e_key e) k) eqn:E.
  - inversion H; subst. exists [], t. repeat split; auto. intros ? [].
  - destruct (IH o H) as (t1 & t2 & -> & Ho & Hn & Ha).
    exists (e :: t1), t2. repeat split; auto.
    + intros e' [<-|Hin]; auto.
    + simpl. now rewrite Ha.
Qed.

Lemma lookup_none k : forall t, lookup k t = None -> forall e, In e t -> svs_eqb (e_key e) k = false.
Proof.
  induction t as [|e t IH]; simpl; intros H e' Hin; [contradiction|].
  destruct (svs_eqb (e_key e) k) eqn:E; [discriminate|].
  destruct Hin as [<-|Hin]; auto.
Qed.

Lemma lookup_some_in k t o : lookup k t = Some o -> In o t /\ svs_eqb (e_key o) k = true.
Proof.
  intro H. destruct (lookup_split k (Ingredient [] None, 0%nat) t o H) as (t1 & t2 & -> & Hk & _).
  split; [apply in_elt | exact Hk].
Qed.

Section P1.
  Variable lower : str -> str.
  Notation norm := (normalise_output_name lower).

  Record Inv1 (seen pend : list node) (t : table) : Prop := {
    i1_K : keys_distinct t;
    i1_KN : forall e, In e t -> entry_named lower e;
    i1_C : forall e, In e t -> entry_refs_ok e;
    i1_T : forall e, In e t -> In (e_sub e) seen;
    i1_SP : forall S, In S seen ->
              In S pend /\ exists b ns sh, S = SubRecipe b ns sh /\ is_subrecipe b = false;
    i1_NL : forall S, In S seen -> forall k, (k < length (names_of S))%nat ->
              exists e, In e t /\ e_key e = norm (nth k (names_of S) []) /\ e_idx e = k /\ e_sub e = S;
    i1_V : forall x, In x pend -> constructed x = true /\ refs_in seen x;
    i1_U : forall e, In e t -> entry_uses pend e }.

  Lemma inv1_init : Inv1 [] [] [].
  Proof. split; try (intros ? []); exact I. Qed.

  (** Entries after [add_ref]: same keys, sub recipes and indices; uses only grow. *)
  Lemma in_with_ref t1 o t2 r e' : In e' (t1 ++ with_ref o r :: t2) ->
    exists e, In e (t1 ++ o :: t2) /\ e_key e' = e_key e /\ e_sub e' = e_sub e /\
      e_idx e' = e_idx e /\ (e' = e \/ (e = o /\ e' = with_ref o r)).
  Proof.
    intro H. apply in_app_iff in H. destruct H as [H|[<-|H]].
    - exists e'. repeat split; auto. apply in_app_iff; auto.
    - exists o. repeat split; auto. apply in_elt.
    - exists e'. repeat split; auto. apply in_app_iff; right; right; exact H.
  Qed.

  Lemma in_with_ref_fwd t1 o t2 r e : In e (t1 ++ o :: t2) ->
    exists e', In e' (t1 ++ with_ref o r :: t2) /\ e_key e' = e_key e /\ e_sub e' = e_sub e /\
      e_idx e' = e_idx e.
  Proof.
    intro H. apply in_app_iff in H. destruct H as [H|[<-|H]].
    - exists e. repeat split; auto. apply in_app_iff; auto.
    - exists (with_ref o r). repeat split; auto. apply in_elt.
    - exists e. repeat split; auto. apply in_app_iff; right; right; exact H.
  Qed.

  Lemma entry_named_ext e e' : e_key e' = e_key e -> e_sub e' = e_sub e -> e_idx e' = e_idx e ->
    entry_named lower e -> entry_named lower e'.
  Proof.
    intros Hk Hs Hi (b & ns & sh & H1 & H2 & H3). exists b, ns, sh.
    rewrite Hk, Hs, Hi. auto.
  Qed.

  Lemma inv1_add_ref seen pend t k o a blk :
    Inv1 seen pend t -> lookup k t = Some o ->
    Inv1 seen (Reference (e_sub o) (e_idx o) a :: pend)
         (add_ref k (Reference (e_sub o) (e_idx o) a, blk) t).
  Proof.
    intros I Hl. set (n := Reference (e_sub o) (e_idx o) a).
    destruct (lookup_split k (n, blk) t o Hl) as (t1 & t2 & Ht & Hko & Hn1 & Ha).
    rewrite Ha. clear Ha.
    assert (Ho : In o t) by (rewrite Ht; apply in_elt).
    assert (HoS : In (e_sub o) seen) by (apply (i1_T _ _ _ I), Ho).
    assert (HoP : In (e_sub o) pend) by (apply (i1_SP _ _ _ I), HoS).
    assert (K' : keys_distinct (t1 ++ with_ref o (n, blk) :: t2)).
    { unfold keys_distinct. replace (map e_key (t1 ++ with_ref o (n, blk) :: t2)) with (map e_key t).
      + apply (i1_K _ _ _ I).
      + rewrite Ht, !map_app. reflexivity. }
    assert (KN' : forall e', In e' (t1 ++ with_ref o (n, blk) :: t2) -> entry_named lower e').
    { intros e' H. destruct (in_with_ref _ _ _ _ _ H) as (e & He & Hk & Hs & Hi & _).
      rewrite <- Ht in He. eapply entry_named_ext; eauto. apply (i1_KN _ _ _ I), He. }
    split; [exact K' | exact KN' | | | | | |].
    - intros e' H. destruct (in_with_ref _ _ _ _ _ H) as (e & He & Hk & Hs & Hi & Hc).
      rewrite <- Ht in He. pose proof (i1_C _ _ _ I e He) as HC.
      destruct Hc as [->|[-> ->]]; [exact HC|].
      intros x b Hx. simpl in Hx |- *. apply in_app_iff in Hx. destruct Hx as [Hx|[Hx|[]]].
      + eapply HC; eauto.
      + injection Hx as Hx1 Hx2. exists a. rewrite <- Hx1. reflexivity.
    - intros e' H. destruct (in_with_ref _ _ _ _ _ H) as (e & He & Hk & Hs & Hi & _).
      rewrite <- Ht in He. rewrite Hs. apply (i1_T _ _ _ I), He.
    - intros S HS. destruct (i1_SP _ _ _ I S HS) as [H1 H2]. split; [right; exact H1 | exact H2].
    - intros S HS k0 Hk0. destruct (i1_NL _ _ _ I S HS k0 Hk0) as (e & He & Hk & Hix & Hs).
      rewrite Ht in He. destruct (in_with_ref_fwd t1 o t2 (n, blk) e He) as (e' & He' & Hk' & Hs' & Hi').
      exists e'. split; [exact He'|]. repeat split; congruence.
    - intros x [<-|Hx]; [|apply (i1_V _ _ _ I), Hx].
      destruct (i1_V _ _ _ I _ HoP) as [Hc Hr].
      destruct (i1_KN _ _ _ I o Ho) as (b & ns & sh & Hs & Hi & _).
      split.
      + apply constructed_unfold. split; [|exact Hc]. unfold n. rewrite Hs. simpl.
        apply Nat.ltb_lt in Hi. now rewrite Hi.
      + simpl. auto.
    - intros e' H. destruct (in_with_ref _ _ _ _ _ H) as (e & He & Hk & Hs & Hi & Hc).
      rewrite <- Ht in He. pose proof (i1_U _ _ _ I e He) as HU.
      assert (Hmono : forall y, In y (map fst (e_refs e)) -> In y (map fst (e_refs e'))).
      { destruct Hc as [->|[-> ->]]; [auto|]. simpl. intros y Hy. rewrite map_app, in_app_iff. auto. }
      intros x a0 Hx Hin. rewrite Hs, Hi in *.
      assert (Hold : forall x0, In x0 pend -> inside (Reference (e_sub e) (e_idx e) a0) x0 ->
                       In (Reference (e_sub e) (e_idx e) a0) (map fst (e_refs e'))).
      { intros x0 Hx0 Hi0. apply Hmono. eapply HU; eauto. }
      destruct Hx as [<-|Hx]; [|eauto].
      inversion Hin as [| |sr i' a' Hin'|].
      + (* the new reference itself: [e'] is the updated entry *)
        assert (E : e' = with_ref o (n, blk)).
        { eapply keys_distinct_In; [exact K' | exact H | apply in_elt |].
          rewrite (entry_named_key lower e' (with_ref o (n, blk))).
          - apply svs_eqb_refl.
          - apply KN', H.
          - simpl. congruence.
          - simpl. congruence.
          - apply KN', in_elt. }
        rewrite E. simpl. rewrite map_app, in_app_iff. right. left. simpl. unfold n. congruence.
      + eauto.
  Qed.

  (** Adding a valid tree whose references are all recorded. *)
  Lemma inv1_pend_add seen pend t x :
    Inv1 seen pend t -> constructed x = true -> refs_in seen x ->
    (forall e, In e t -> entry_uses [x] e) ->
    Inv1 seen (x :: pend) t.
  Proof.
    intros I Hc Hr Hu. split; try apply I.
    - intros S HS. destruct (i1_SP _ _ _ I S HS) as [H1 H2]. split; [right; exact H1 | exact H2].
    - intros y [<-|Hy]; [auto | apply (i1_V _ _ _ I), Hy].
    - intros e He y a [<-|Hy] Hin.
      + apply (Hu e He x a); [left; reflexivity | exact Hin].
      + eapply (i1_U _ _ _ I); eauto.
  Qed.

  Lemma inv1_add_step seen pend t d ns :
    Inv1 seen pend t -> (forall y, In y ns -> In y pend /\ can_be_child y = true) ->
    Inv1 seen (Step d ns :: pend) t.
  Proof.
    intros I Hns. apply inv1_pend_add; [exact I| | |].
    - apply constructed_unfold. split.
      + simpl. replace (forallb can_be_child ns) with true; [reflexivity|].
        symmetry. apply forallb_forall. intros y Hy. apply Hns, Hy.
      + apply Forall_forall. intros y Hy. apply (i1_V _ _ _ I). apply Hns, Hy.
    - apply refs_in_Step. apply Forall_forall. intros y Hy. apply (i1_V _ _ _ I). apply Hns, Hy.
    - intros e He x a [<-|[]] Hin. inversion Hin as [|d' ins' y Hy Hi| |]; subst.
      eapply (i1_U _ _ _ I); [exact He | apply Hns, Hy | exact Hi].
  Qed.

  Lemma inv1_add_ingredient seen pend t d q :
    Inv1 seen pend t -> Inv1 seen (Ingredient d q :: pend) t.
  Proof.
    intros I. apply inv1_pend_add; [exact I|reflexivity|exact Logic.I|].
    intros e He x a [<-|[]] Hin. inversion Hin.
  Qed.

  Lemma compile_expr_inv1 blk seen : forall e pend t n t',
    Inv1 seen pend t -> compile_expr lower blk e t = ROk n t' ->
    exists pend', incl pend pend' /\ In n pend' /\ Inv1 seen pend' t' /\
                  can_be_child n = true /\ is_subrecipe n = false.
  Proof.
    induction e as [name amt off|name ins IH] using aexpr_ind'; intros pend t n t' I H.
    - simpl in H. destruct (lookup (normalise_output_name lower name) t) as [o|] eqn:El.
      + inversion H; subst. eexists. split; [apply incl_tl, incl_refl|].
        split; [left; reflexivity|]. split; [apply inv1_add_ref; assumption|]. split; reflexivity.
      + destruct amt as [[q|p]|]; inversion H; subst;
          (eexists; split; [apply incl_tl, incl_refl|]; split; [left; reflexivity|];
           split; [apply inv1_add_ingredient; assumption|]; split; reflexivity).
    - rewrite compile_expr_AStep in H.
      destruct (compile_list lower blk ins t) as [ns t1|k o] eqn:E; [|discriminate].
      inversion H; subst; clear H.
      assert (L : exists pend', incl pend pend' /\
                    (forall y, In y ns -> In y pend' /\ can_be_child y = true) /\ Inv1 seen pend' t').
      { revert pend t ns t' I E. induction IH as [|x l Hx Hl IHl]; intros pend t ns t' I E; simpl in E.
        - inversion E; subst. exists pend. split; [apply incl_refl|]. split; [intros ? []|exact I].
        - destruct (compile_expr lower blk x t) as [n1 t1|k o] eqn:E1; [|discriminate].
          destruct (compile_list lower blk l t1) as [ns2 t2|k o] eqn:E2; [|discriminate].
          inversion E; subst.
          destruct (Hx _ _ _ _ I E1) as (p1 & Hi1 & Hn1 & I1 & Hc1 & _).
          destruct (IHl _ _ _ _ I1 E2) as (p2 & Hi2 & Hn2 & I2).
          exists p2. split; [eapply incl_tran; eauto|]. split; [|exact I2].
          intros y [<-|Hy]; [split; auto | auto]. }
      destruct L as (p1 & Hi1 & Hns & I1).
      exists (Step name ns :: p1). split; [apply incl_tl, Hi1|]. split; [left; reflexivity|].
      split; [apply inv1_add_step; assumption|]. split; reflexivity.
  Qed.

  (** An inferred name was looked up and not found (so the [assert] holds). *)
  Lemma compile_expr_infer blk : forall e t n t' nm,
    compile_expr lower blk e t = ROk n t' -> infer_output_name n = Some nm ->
    lookup (norm nm) t' = None.
  Proof.
    induction e as [name amt off|name ins IH] using aexpr_ind'; intros t n t' nm H Hi.
    - simpl in H. destruct (lookup (normalise_output_name lower name) t) as [o|] eqn:El.
      + inversion H; subst. discriminate.
      + destruct amt as [[q|p]|]; inversion H; subst; simpl in Hi; inversion Hi; subst; exact El.
    - rewrite compile_expr_AStep in H.
      destruct (compile_list lower blk ins t) as [ns t1|k o] eqn:E; [|discriminate].
      inversion H; subst; clear H. simpl in Hi.
      destruct ns as [|x [|? ?]]; try discriminate.
      destruct ins as [|e1 rest]; simpl in E; [discriminate|].
      destruct (compile_expr lower blk e1 t) as [n1 t1|k o] eqn:E1; [|discriminate].
      destruct (compile_list lower blk rest t1) as [ns2 t2|k o] eqn:E2; [|discriminate].
      inversion E; subst. destruct rest as [|e2 rest]; simpl in E2.
      + inversion E2; subst. inversion IH; subst. eauto.
      + destruct (compile_expr lower blk e2 t1); [|discriminate].
        destruct (compile_list lower blk rest t0); discriminate.
  Qed.

  (** ** Registering the outputs of a statement *)
  Fixpoint mk_entries (blk : nat) (sub : node) (unwrap : bool) (idx : nat) (names : list svs) : table :=
    match names with
    | [] => []
    | nm :: rest => mkEntry (norm nm) blk sub idx [] unwrap :: mk_entries blk sub unwrap (S idx) rest
    end.

  Lemma register_spec blk sub unwrap : forall names offs idx t t',
    register lower blk sub unwrap names offs idx t = inl (ROk tt t') ->
    t' = t ++ mk_entries blk sub unwrap idx names /\
    (forall e nm, In e t -> In nm names -> svs_eqb (e_key e) (norm nm) = false) /\
    (keys_distinct t -> keys_distinct t').
  Proof.
    induction names as [|nm names IH]; intros offs idx t t' H; simpl in H.
    - inversion H; subst. simpl. rewrite app_nil_r. split; [reflexivity|]. split; [intros ? ? _ []|auto].
    - destruct (lookup (normalise_output_name lower nm) t) eqn:El.
      + destruct offs as [|[o|] offs']; discriminate.
      + destruct (IH _ _ _ _ H) as (-> & Hf & Hk). pose proof (lookup_none _ _ El) as Hn.
        split; [simpl; rewrite <- app_assoc; reflexivity|]. split.
        * intros e nm' He [<-|Hnm]; [auto|]. apply Hf; [apply in_app_iff; auto | exact Hnm].
        * intro K. apply Hk. unfold keys_distinct. rewrite map_app. simpl.
          apply kd_app_one; [exact K|]. intros k' Hk'. apply in_map_iff in Hk'.
          destruct Hk' as (e & <- & He). auto.
  Qed.

  Lemma in_mk_entries blk sub unwrap : forall names idx e,
    In e (mk_entries blk sub unwrap idx names) ->
    exists k, (k < length names)%nat /\ e = mkEntry (norm (nth k names [])) blk sub (idx + k) [] unwrap.
  Proof.
    induction names as [|nm names IH]; simpl; intros idx e H; [contradiction|].
    destruct H as [<-|H].
    - exists 0%nat. split; [lia|]. now rewrite Nat.add_0_r.
    - destruct (IH _ _ H) as (k & Hk & ->). exists (S k). split; [lia|].
      simpl. now rewrite Nat.add_succ_r.
  Qed.

  Lemma mk_entries_in blk sub unwrap : forall names idx k, (k < length names)%nat ->
    In (mkEntry (norm (nth k names [])) blk sub (idx + k) [] unwrap) (mk_entries blk sub unwrap idx names).
  Proof.
    induction names as [|nm names IH]; simpl; intros idx k Hk; [lia|].
    destruct k as [|k].
    - left. now rewrite Nat.add_0_r.
    - right. rewrite Nat.add_succ_r. apply (IH (S idx) k). lia.
  Qed.

  Lemma refs_in_incl s s' x : incl s s' -> refs_in s x -> refs_in s' x.
  Proof.
    intros Hi H. apply refs_in_inside. intros sr i a Hin. apply Hi.
    revert sr i a Hin. now apply refs_in_inside.
  Qed.

  Lemma inside_ref_not_self sr i a : ~ inside (Reference sr i a) sr.
  Proof. intro H. apply inside_size in H. simpl in H. lia. Qed.

  Lemma inv1_register seen pend t blk tree names sh unwrap offs t' :
    Inv1 seen pend t -> In tree pend -> can_be_child tree = true -> is_subrecipe tree = false ->
    names <> [] ->
    register lower blk (SubRecipe tree names sh) unwrap names offs 0 t = inl (ROk tt t') ->
    Inv1 (SubRecipe tree names sh :: seen) (SubRecipe tree names sh :: pend) t'.
  Proof.
    intros I Htree Hcc Hns Hne H. set (sub := SubRecipe tree names sh) in *.
    destruct (register_spec _ _ _ _ _ _ _ _ H) as (-> & Hfresh & HK).
    assert (Hnew : forall e, In e (mk_entries blk sub unwrap 0 names) ->
              exists k, (k < length names)%nat /\ e = mkEntry (norm (nth k names [])) blk sub k [] unwrap).
    { intros e He. apply in_mk_entries in He. exact He. }
    assert (Hnotseen : ~ In sub seen).
    { intro Hs. destruct (i1_NL _ _ _ I sub Hs 0%nat) as (e & He & Hk & _).
      { simpl. destruct names; [congruence | simpl; lia]. }
      assert (In (nth 0 names []) names) by (apply nth_In; destruct names; [congruence | simpl; lia]).
      pose proof (Hfresh e _ He H0) as Hf. simpl in Hk. rewrite <- Hk, svs_eqb_refl in Hf. discriminate. }
    destruct (i1_V _ _ _ I _ Htree) as [Hct Hrt].
    split.
    - apply HK, I.
    - intros e He. apply in_app_iff in He. destruct He as [He|He]; [apply (i1_KN _ _ _ I), He|].
      destruct (Hnew e He) as (k & Hk & ->). exists tree, names, sh. simpl. auto.
    - intros e He. apply in_app_iff in He. destruct He as [He|He]; [apply (i1_C _ _ _ I), He|].
      destruct (Hnew e He) as (k & Hk & ->). intros x b [].
    - intros e He. apply in_app_iff in He. destruct He as [He|He]; [right; apply (i1_T _ _ _ I), He|].
      destruct (Hnew e He) as (k & Hk & ->). left. reflexivity.
    - intros S [<-|HS].
      + split; [left; reflexivity|]. exists tree, names, sh. auto.
      + destruct (i1_SP _ _ _ I S HS) as [H1 H2]. split; [right; exact H1 | exact H2].
    - intros S [<-|HS] k Hk.
      + simpl in Hk. eexists. split; [apply in_app_iff; right; apply (mk_entries_in blk sub unwrap names 0 k Hk)|].
        simpl. auto.
      + destruct (i1_NL _ _ _ I S HS k Hk) as (e & He & Hk' & Hix & Hs). exists e.
        split; [apply in_app_iff; auto | auto].
    - intros x [<-|Hx].
      + split.
        * apply constructed_unfold. split; [|exact Hct]. simpl. rewrite Hcc. simpl.
          destruct names; [congruence | reflexivity].
        * simpl. eapply refs_in_incl; [|exact Hrt]. apply incl_tl, incl_refl.
      + destruct (i1_V _ _ _ I x Hx) as [H1 H2]. split; [exact H1|].
        eapply refs_in_incl; [|exact H2]. apply incl_tl, incl_refl.
    - intros e He. apply in_app_iff in He. destruct He as [He|He].
      + intros x a [<-|Hx] Hin.
        * inversion Hin as [| | |b' ns' sh' Hin']; subst.
          eapply (i1_U _ _ _ I); eauto.
        * eapply (i1_U _ _ _ I); eauto.
      + destruct (Hnew e He) as (k & Hk & ->). simpl. intros x a [<-|Hx] Hin.
        * exfalso. eapply inside_ref_not_self; eauto.
        * exfalso. apply Hnotseen. destruct (i1_V _ _ _ I x Hx) as [_ Hr].
          rewrite refs_in_inside in Hr. eapply Hr; eauto.
  Qed.

  Definition seen_after (seen : list node) (tree : node) : list node :=
    if is_subrecipe tree then tree :: seen else seen.

  Lemma compile_stmt_inv1 blk st seen pend t tree t' :
    Inv1 seen pend t -> compile_stmt lower blk st t = SOk tree t' ->
    exists pend', incl pend pend' /\ In tree pend' /\ Inv1 (seen_after seen tree) pend' t' /\
                  constructed tree = true /\ refs_in seen tree.
  Proof.
    intros I H. unfold compile_stmt in H.
    destruct (compile_expr lower blk (st_expr st) t) as [tr t1|k o] eqn:E; [|discriminate].
    destruct (compile_expr_inv1 blk seen _ _ _ _ _ I E) as (p1 & Hi1 & Hn1 & I1 & Hcc & Hns).
    destruct (i1_V _ _ _ I1 _ Hn1) as [Hct Hrt].
    assert (R : forall names sh unwrap offs t2, names <> [] ->
              register lower blk (SubRecipe tr names sh) unwrap names offs 0 t1 = inl (ROk tt t2) ->
              exists pend', incl pend pend' /\ In (SubRecipe tr names sh) pend' /\
                Inv1 (seen_after seen (SubRecipe tr names sh)) pend' t2 /\
                constructed (SubRecipe tr names sh) = true /\ refs_in seen (SubRecipe tr names sh)).
    { intros names sh unwrap offs t2 Hne Hr.
      pose proof (inv1_register _ _ _ _ _ _ _ _ _ _ I1 Hn1 Hcc Hns Hne Hr) as I2.
      eexists. split; [apply incl_tl, Hi1|]. split; [left; reflexivity|]. split; [exact I2|].
      split; [|exact Hrt]. apply (i1_V _ _ _ I2). left. reflexivity. }
    destruct (map fst (st_outs st)) as [|x xs] eqn:Em.
    - destruct (infer_output_name tr) as [nm|] eqn:Ei.
      + cbv iota beta in H.
        match type of H with context [register ?a ?b ?c ?d ?e ?f ?g ?h] =>
          destruct (register a b c d e f g h) as [[[] t2|k o]|c0] eqn:Er end; try discriminate.
        inversion H; subst. eapply R; [|exact Er]. discriminate.
      + inversion H; subst. exists p1. unfold seen_after. rewrite Hns. auto.
    - cbv iota beta in H.
      match type of H with context [register ?a ?b ?c ?d ?e ?f ?g ?h] =>
        destruct (register a b c d e f g h) as [[[] t2|k o]|c0] eqn:Er end; try discriminate.
      inversion H; subst. eapply R; [|exact Er]. discriminate.
  Qed.

  (** ** The [assert] of pass 1 never fails *)
  Lemma register_explicit_no_crash blk sub unwrap c : forall (outs : list (svs * N)) idx t,
    register lower blk sub unwrap (map fst outs) (map (fun p => Some (snd p)) outs) idx t <> inr c.
  Proof.
    induction outs as [|[nm off] outs IH]; intros idx t; simpl; [discriminate|].
    destruct (lookup (normalise_output_name lower nm) t); [discriminate|]. apply IH.
  Qed.

  Lemma compile_stmt_no_crash blk st t c : compile_stmt lower blk st t <> SCrash c.
  Proof.
    unfold compile_stmt.
    destruct (compile_expr lower blk (st_expr st) t) as [tr t1|k o] eqn:E; [|discriminate].
    destruct (st_outs st) as [|[x off] xs] eqn:Em.
    - simpl. destruct (infer_output_name tr) as [nm|] eqn:Ei; [|discriminate].
      cbv iota beta. simpl. rewrite (compile_expr_infer _ _ _ _ _ _ E Ei). discriminate.
    - cbv iota beta.
      pose proof (register_explicit_no_crash blk
        (SubRecipe tr (map fst ((x, off) :: xs)) (negb false)) (negb (st_named st)) c ((x, off) :: xs) 0%nat t1) as Hn.
      cbn [map fst snd] in Hn |- *.
      match goal with |- context [register ?a ?b ?c ?d ?e ?f ?g ?h] =>
        destruct (register a b c d e f g h) as [[[] t2|k o]|c0] end; try discriminate.
      intro Hc. apply Hn. congruence.
  Qed.

  Lemma compile_block_no_crash blk c : forall sts t, compile_block lower blk sts t <> BCrash c.
  Proof.
    induction sts as [|st sts IH]; intros t; simpl; [discriminate|].
    destruct (compile_stmt lower blk st t) as [tr t1|k o|c0] eqn:E; try discriminate.
    - specialize (IH t1). destruct (compile_block lower blk sts t1); try discriminate. exact IH.
    - exfalso. eapply compile_stmt_no_crash; eauto.
  Qed.

  Lemma pass1_from_no_crash c : forall p blk t, pass1_from lower blk p t <> P1Crash c.
  Proof.
    induction p as [|b p IH]; intros blk t; simpl; [discriminate|].
    destruct (compile_block lower blk b t) as [trs t1|k o|c0] eqn:E; try discriminate.
    - specialize (IH (S blk) t1). destruct (pass1_from lower (S blk) p t1); try discriminate. exact IH.
    - exfalso. eapply compile_block_no_crash; eauto.
  Qed.

  (** ** Where the table's sub recipes live: the defining block *)
  Definition from_old (t : table) (e : entry) : Prop :=
    exists e0, In e0 t /\ e_sub e = e_sub e0 /\ e_def_block e = e_def_block e0.

  Lemma from_old_refl t e : In e t -> from_old t e.
  Proof. intro H. exists e. auto. Qed.

  Lemma from_old_trans t t1 e : (forall e1, In e1 t1 -> from_old t e1) -> from_old t1 e -> from_old t e.
  Proof.
    intros H (e1 & H1 & Hs & Hb). destruct (H e1 H1) as (e0 & H0 & Hs0 & Hb0).
    exists e0. split; [exact H0|]. split; congruence.
  Qed.

  Lemma add_ref_origin k r : forall t e, In e (add_ref k r t) -> from_old t e.
  Proof.
    induction t as [|e0 t IH]; simpl; intros e H; [contradiction|].
    destruct (svs_eqb (e_key e0) k).
    - destruct H as [<-|H]; [exists e0; simpl; auto|]. exists e. simpl; auto.
    - destruct H as [<-|H]; [exists e0; simpl; auto|].
      destruct (IH e H) as (e1 & H1 & Hs & Hb). exists e1. simpl; auto.
  Qed.

  Lemma compile_expr_origin blk : forall e t n t',
    compile_expr lower blk e t = ROk n t' -> forall e', In e' t' -> from_old t e'.
  Proof.
    induction e as [name amt off|name ins IH] using aexpr_ind'; intros t n t' H.
    - simpl in H. destruct (lookup (normalise_output_name lower name) t) as [o|] eqn:El.
      + inversion H; subst. apply add_ref_origin.
      + destruct amt as [[q|p]|]; inversion H; subst; apply from_old_refl.
    - rewrite compile_expr_AStep in H.
      destruct (compile_list lower blk ins t) as [ns t1|k o] eqn:E; [|discriminate].
      inversion H; subst; clear H.
      revert t ns t' E. induction IH as [|x l Hx Hl IHl]; intros t ns t' E; simpl in E.
      + inversion E; subst. apply from_old_refl.
      + destruct (compile_expr lower blk x t) as [n1 t1|k o] eqn:E1; [|discriminate].
        destruct (compile_list lower blk l t1) as [ns2 t2|k o] eqn:E2; [|discriminate].
        inversion E; subst. intros e' He'. eapply from_old_trans; [eapply Hx; eauto|].
        eapply IHl; eauto.
  Qed.

  Lemma compile_stmt_origin blk st t tree t' :
    compile_stmt lower blk st t = SOk tree t' ->
    forall e, In e t' -> from_old t e \/ (e_def_block e = blk /\ e_sub e = tree).
  Proof.
    intros H. unfold compile_stmt in H.
    destruct (compile_expr lower blk (st_expr st) t) as [tr t1|k o] eqn:E; [|discriminate].
    pose proof (compile_expr_origin _ _ _ _ _ E) as Ho.
    assert (R : forall sub unwrap names offs t2,
              register lower blk sub unwrap names offs 0 t1 = inl (ROk tt t2) ->
              forall e, In e t2 -> from_old t e \/ (e_def_block e = blk /\ e_sub e = sub)).
    { intros sub unwrap names offs t2 Hr e He.
      destruct (register_spec _ _ _ _ _ _ _ _ Hr) as (-> & _ & _).
      apply in_app_iff in He. destruct He as [He|He]; [left; auto|].
      apply in_mk_entries in He. destruct He as (k & _ & ->). right. simpl. auto. }
    destruct (map fst (st_outs st)) as [|x xs] eqn:Em.
    - destruct (infer_output_name tr) as [nm|] eqn:Ei.
      + cbv iota beta in H.
        match type of H with context [register ?a ?b ?c ?d ?e ?f ?g ?h] =>
          destruct (register a b c d e f g h) as [[[] t2|k o]|c0] eqn:Er end; try discriminate.
        inversion H; subst. eapply R; eauto.
      + inversion H; subst. intros e He. left. auto.
    - cbv iota beta in H.
      match type of H with context [register ?a ?b ?c ?d ?e ?f ?g ?h] =>
        destruct (register a b c d e f g h) as [[[] t2|k o]|c0] eqn:Er end; try discriminate.
      inversion H; subst. eapply R; eauto.
  Qed.

  Lemma compile_block_inv1 blk : forall sts seen pend t trees t',
    Inv1 seen pend t -> compile_block lower blk sts t = BOk trees t' ->
    exists pend', incl pend pend' /\ (forall x, In x trees -> In x pend') /\
      Inv1 (fold_left seen_after trees seen) pend' t' /\ block_valid seen trees /\
      (forall e, In e t' -> from_old t e \/ (e_def_block e = blk /\ In (e_sub e) trees)).
  Proof.
    induction sts as [|st sts IH]; intros seen pend t trees t' I H; simpl in H.
    - inversion H; subst. exists pend. simpl.
      split; [apply incl_refl|]. split; [intros ? []|]. split; [exact I|]. split; [exact Logic.I|].
      intros e He. left. now apply from_old_refl.
    - destruct (compile_stmt lower blk st t) as [tr t1|k o|c0] eqn:E; try discriminate.
      destruct (compile_block lower blk sts t1) as [trs t2|k o|c0] eqn:E2; try discriminate.
      inversion H; subst.
      destruct (compile_stmt_inv1 _ _ _ _ _ _ _ I E) as (p1 & Hi1 & Hn1 & I1 & Hc & Hr).
      destruct (IH _ _ _ _ _ I1 E2) as (p2 & Hi2 & Hn2 & I2 & Hbv & Ho2).
      exists p2. split; [eapply incl_tran; eauto|]. split; [|split; [exact I2|split]].
      + intros x [<-|Hx]; auto.
      + simpl. auto.
      + intros e He. destruct (Ho2 e He) as [Hold|[Hb Hin]].
        * destruct Hold as (e1 & He1 & Hs & Hb).
          destruct (compile_stmt_origin _ _ _ _ _ E e1 He1) as [(e0 & He0 & Hs0 & Hb0)|[Hb1 Hs1]].
          -- left. exists e0. split; [exact He0|]. split; congruence.
          -- right. split; [congruence|]. left. congruence.
        * right. split; [exact Hb | right; exact Hin].
  Qed.

  Lemma fold_seen_after_set trees : forall seen,
    same_set (fold_left seen_after trees seen) (subrecipe_roots trees ++ seen).
  Proof.
    induction trees as [|t0 l IH]; intros seen; simpl.
    - intro x. tauto.
    - intro x. rewrite (IH (seen_after seen t0) x). apply roots_cons_same_set.
  Qed.

  Lemma inv1_seen_ext seen seen' pend t : same_set seen seen' -> Inv1 seen pend t -> Inv1 seen' pend t.
  Proof.
    intros E I. split; try apply I.
    - intros e He. apply E, (i1_T _ _ _ I), He.
    - intros S HS. apply (i1_SP _ _ _ I), E, HS.
    - intros S HS. apply (i1_NL _ _ _ I), E, HS.
    - intros x Hx. destruct (i1_V _ _ _ I x Hx) as [H1 H2]. split; [exact H1|].
      eapply refs_in_ext; eauto.
  Qed.

  Lemma pass1_from_inv1 : forall p blk seen pend t bs t',
    Inv1 seen pend t -> pass1_from lower blk p t = P1Ok bs t' ->
    exists pend' seen', incl pend pend' /\
      (forall trees x, In trees bs -> In x trees -> In x pend') /\
      Inv1 seen' pend' t' /\ same_set seen' (flat_map subrecipe_roots bs ++ seen) /\
      blocks_valid_from seen bs /\
      (forall e, In e t' -> from_old t e \/
         (blk <= e_def_block e /\ exists trees, nth_error bs (e_def_block e - blk) = Some trees /\
                                                 In (e_sub e) trees)%nat).
  Proof.
    induction p as [|b p IH]; intros blk seen pend t bs t' I H; simpl in H.
    - inversion H; subst. exists pend, seen. simpl.
      split; [apply incl_refl|]. split; [intros ? ? []|]. split; [exact I|].
      split; [intro; tauto|]. split; [exact Logic.I|].
      intros e He. left. now apply from_old_refl.
    - destruct (compile_block lower blk b t) as [trs t1|k o|c0] eqn:E; try discriminate.
      destruct (pass1_from lower (S blk) p t1) as [bs2 t2|k bl o|c0] eqn:E2; try discriminate.
      inversion H; subst.
      destruct (compile_block_inv1 _ _ _ _ _ _ _ I E) as (p1 & Hi1 & Hn1 & I1 & Hbv & Ho1).
      apply (inv1_seen_ext _ _ _ _ (fold_seen_after_set trs seen)) in I1.
      destruct (IH _ _ _ _ _ _ I1 E2) as (p2 & s2 & Hi2 & Hn2 & I2 & Hs2 & Hbsv & Ho2).
      exists p2, s2. split; [eapply incl_tran; eauto|]. split; [|split; [exact I2|split; [|split]]].
      + intros trees x [<-|Ht] Hx; [auto | eauto].
      + intro x. rewrite (Hs2 x). simpl. rewrite !in_app_iff. tauto.
      + simpl. auto.
      + intros e He. destruct (Ho2 e He) as [Hold|(Hle & trees & Hnth & Hin)].
        * destruct Hold as (e1 & He1 & Hs & Hb).
          destruct (Ho1 e1 He1) as [(e0 & He0 & Hs0 & Hb0)|[Hb1 Hs1]].
          -- left. exists e0. split; [exact He0|]. split; congruence.
          -- right. rewrite Hb, Hb1. split; [lia|]. exists trs. rewrite Nat.sub_diag. simpl.
             split; [reflexivity | congruence].
        * right. split; [lia|]. exists trees. split; [|exact Hin].
          replace (e_def_block e - blk)%nat with (S (e_def_block e - S blk)) by lia. exact Hnth.
  Qed.

  Lemma in_roots_flat bs x : In x (concat bs) -> is_subrecipe x = true ->
    In x (flat_map subrecipe_roots bs).
  Proof.
    intros Hx Hs. apply in_concat in Hx. destruct Hx as (trees & Ht & Hx).
    apply in_flat_map. exists trees. split; [exact Ht|]. apply filter_In. auto.
  Qed.

  Theorem pass1_inv2 p bs t : pass1 lower p = P1Ok bs t -> Inv2 lower 0 bs t.
  Proof.
    intro H. unfold pass1 in H.
    destruct (pass1_from_inv1 _ _ _ _ _ _ _ inv1_init H)
      as (pend & seen & _ & Hpend & I & Hseen & Hv & Horig).
    split.
    - apply I.
    - intros j e Hj _. apply (i1_KN _ _ _ I). eapply nth_error_In; eauto.
    - intros j e Hj _. destruct (Horig e (nth_error_In _ _ Hj)) as [(e0 & [] & _)|(_ & trees & Hn & Hin)].
      rewrite Nat.sub_0_r in Hn. eauto.
    - intros j e Hj _. apply (i1_C _ _ _ I). eapply nth_error_In; eauto.
    - intros j e Hj _ x a Hx Hin. apply in_concat in Hx. destruct Hx as (trees & Ht & Hx).
      eapply (i1_U _ _ _ I); eauto using nth_error_In.
    - intros x S Hx Hc HS.
      assert (S = x /\ In x seen) as [-> Hxs].
      { inversion Hc as [|b ns sh Hcb]; subst.
        - split; [reflexivity|]. apply Hseen. rewrite app_nil_r. now apply in_roots_flat.
        - assert (Hin : In (SubRecipe b ns sh) seen).
          { apply Hseen. rewrite app_nil_r. now apply in_roots_flat. }
          destruct (i1_SP _ _ _ I _ Hin) as (_ & b' & ns' & sh' & Heq & Hb). inversion Heq; subst b' ns' sh'.
          exfalso. inversion Hcb; subst; simpl in *; congruence. }
      intros k Hk. destruct (i1_NL _ _ _ I x Hxs k Hk) as (e & He & Hkey & Hix & Hsub).
      apply In_nth_error in He. destruct He as (j & Hj). exists j, e. auto.
    - apply strictly_valid_iff_rec. exact Hv.
  Qed.

  Lemma pass1_no_crash p c : pass1 lower p <> P1Crash c.
  Proof. apply pass1_from_no_crash. Qed.
End P1.
