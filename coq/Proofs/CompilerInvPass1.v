(** * Compiler invariants, part 4: pass 1 establishes the table invariants and
    strict validity, and never fails its [assert]. *)
From Coq Require Import List ZArith NArith Bool Lia.
From RG Require Import Base.Str Base.Num Model.Recipe Model.Compiler Spec.Valid
  Proofs.RecipeInd Proofs.NodeEqv Proofs.RecipeValid Proofs.CompilerExpand
  Proofs.CompilerInvSize Proofs.CompilerInvNames Proofs.CompilerInvDefs.
Import ListNotations.

Definition with_ref (o : entry) (r : node * nat) : entry :=
  mkEntry (e_key o) (e_def_block o) (e_sub o) (e_idx o) (e_refs o ++ [r]) (e_unwrap o).

Lemma lookup_split k r : forall t o, lookup k t = Some o ->
  exists t1 t2, t = t1 ++ o :: t2 /\ svs_eqb (e_key o) k = true /\
    (forall e, In e t1 -> svs_eqb (e_key e) k = false) /\
    add_ref k r t = t1 ++ with_ref o r :: t2.
Proof.
  induction t as [|e t IH]; simpl; intros o H; [discriminate|].
  destruct (svs_eqb (e_key e) k) eqn:E.
  - inversion H; subst. exists [], t. repeat split; auto. intros ? [].
  - destruct (IH o H) as (t1 & t2 & -> & Ho & Hn & Ha).
    exists (e :: t1), t2. repeat split; auto.
    + intros e' [<-|Hin]; auto.
    + simpl. now rewrite Ha.
Qed.

Lemma lookup_none k : forall t, lookup k t = None -> forall e, In e t -> svs_eqb (e_key e) k = false.
Proof.
  induction t as [|e t IH]; simpl; intros H e' Hin; [contradiction|].
  destruct (svs_eqb (e_key e) k) eqn:E; [discriminate|].
  destruct Hin as [<-|Hin]; auto.
Qed.

Lemma lookup_some_in k t o : lookup k t = Some o -> In o t /\ svs_eqb (e_key o) k = true.
Proof.
  intro H. destruct (lookup_split k (Ingredient [] None, 0%nat) t o H) as (t1 & t2 & -> & Hk & _).
  split; [apply in_elt | exact Hk].
Qed.

Section P1.
  Variable lower : str -> str.
  Notation norm := (normalise_output_name lower).

  Record Inv1 (seen pend : list node) (t : table) : Prop := {
    i1_K : keys_distinct t;
    i1_KN : forall e, In e t -> entry_named lower e;
    i1_C : forall e, In e t -> entry_refs_ok e;
    i1_T : forall e, In e t -> In (e_sub e) seen;
    i1_SP : forall S, In S seen ->
              In S pend /\ exists b ns sh, S = SubRecipe b ns sh /\ is_subrecipe b = false;
    i1_NL : forall S, In S seen -> forall k, (k < length (names_of S))%nat ->
              exists e, In e t /\ e_key e = norm (nth k (names_of S) []) /\ e_sub e = S;
    i1_V : forall x, In x pend -> constructed x = true /\ refs_in seen x;
    i1_U : forall e, In e t -> entry_uses pend e }.

  Lemma inv1_init : Inv1 [] [] [].
  Proof. split; try (intros ? []); exact I. Qed.

  (** Entries after [add_ref]: same keys, sub recipes and indices; uses only grow. *)
  Lemma in_with_ref t1 o t2 r e' : In e' (t1 ++ with_ref o r :: t2) ->
    exists e, In e (t1 ++ o :: t2) /\ e_key e' = e_key e /\ e_sub e' = e_sub e /\
      e_idx e' = e_idx e /\ (e' = e \/ (e = o /\ e' = with_ref o r)).
  Proof.
    intro H. apply in_app_iff in H. destruct H as [H|[<-|H]].
    - exists e'. repeat split; auto. apply in_app_iff; auto.
    - exists o. repeat split; auto. apply in_elt.
    - exists e'. repeat split; auto. apply in_app_iff; right; right; exact H.
  Qed.

  Lemma in_with_ref_fwd t1 o t2 r e : In e (t1 ++ o :: t2) ->
    exists e', In e' (t1 ++ with_ref o r :: t2) /\ e_key e' = e_key e /\ e_sub e' = e_sub e /\
      e_idx e' = e_idx e.
  Proof.
    intro H. apply in_app_iff in H. destruct H as [H|[<-|H]].
    - exists e. repeat split; auto. apply in_app_iff; auto.
    - exists (with_ref o r). repeat split; auto. apply in_elt.
    - exists e. repeat split; auto. apply in_app_iff; right; right; exact H.
  Qed.

  Lemma entry_named_ext e e' : e_key e' = e_key e -> e_sub e' = e_sub e -> e_idx e' = e_idx e ->
    entry_named lower e -> entry_named lower e'.
  Proof.
    intros Hk Hs Hi (b & ns & sh & H1 & H2 & H3). exists b, ns, sh.
    rewrite Hk, Hs, Hi. auto.
  Qed.
End P1.
