(** * Navigation links of a generated site: targets exist, every page is reachable (C14 site level). *)
From Coq Require Import List NArith Bool Arith Lia String Permutation Relations Sorted.
From RG Require Import Base.Str Base.Dec Model.Url Model.Href Model.Fs Model.Site Spec.SiteSpec
  Proofs.FsTree Proofs.SiteLinks Proofs.SiteHeap Proofs.SiteSort Proofs.SiteBuild Proofs.SiteAssets Proofs.SitePages.
Import ListNotations.
Open Scope list_scope.
Open Scope N_scope.

(** ** What the rendered pages link to *)

Lemma render_home_links fs hm lookup a po a' :
  render_home fs hm lookup a = Ok (po, a') ->
  po_servs po = map (fun nc => (dec_N (fst nc), href_relative_url home_path (cp_path (snd nc)))) (h_scaled hm)
                ++ [(s "Browse by category", href_relative_url home_path (cp_path (h_unscaled hm)))] /\
  po_crumbs po = [] /\ po_cats po = [] /\ po_recs po = [] /\ po_menu po = [] /\ po_orig po = None /\
  hd_error (po_refs po) = Some (a_href, href_relative_url home_path css_path).
Proof.
  unfold render_home. cbv zeta.
  match goal with |- bind ?x _ = _ -> _ => destruct x as [[body a0]|e] end; [|discriminate]. cbn [bind].
  intro H. inversion H; subst. cbn. repeat split; reflexivity.
Qed.

Definition rec_links (h : heap) (from : str) (rs : list rref) : outcome (list (str * str)) :=
  fold_right (fun r acc =>
    bind acc (fun l => match deref h r with
                       | Some p => Ok ((rp_title p, href_relative_url from (rpage_path p)) :: l)
                       | None => Err EKeyError
                       end)) (Ok []) rs.

Lemma rec_links_ok h from : forall rs l, rec_links h from rs = Ok l ->
  l = map (fun r => match deref h r with
                    | Some p => (rp_title p, href_relative_url from (rpage_path p))
                    | None => ([], [])
                    end) rs /\ forall r, In r rs -> exists p, deref h r = Some p.
Proof.
  induction rs as [|r rs IH]; intros l H; simpl in H.
  - inversion H. split; [reflexivity | intros ? []].
  - fold (rec_links h from rs) in H. destruct (rec_links h from rs) as [l0|e] eqn:Hr; [|discriminate]. cbn [bind] in H.
    destruct (deref h r) as [p|] eqn:Hd; [|discriminate]. inversion H; subst l.
    destruct (IH l0 eq_refl) as [Hl Hall]. split.
    + simpl. rewrite Hd. f_equal. exact Hl.
    + intros r0 [Heq|Hin]; [subst r0; eauto | apply Hall; exact Hin].
Qed.

Lemma render_cat_links fs hm h c lookup a po a' :
  render_cat fs hm h c lookup a = Ok (po, a') ->
  po_crumbs po = crumbs_of (cp_path c) (cp_parent c ++ [(cp_title c, cp_path c)]) /\
  po_cats po = map (fun sc => (cp_title sc, href_relative_url (cp_path c) (cp_path sc))) (cp_subs c) /\
  po_recs po = map (fun r => match deref h r with
                             | Some p => (rp_title p, href_relative_url (cp_path c) (rpage_path p))
                             | None => ([], [])
                             end) (cp_recipes c) /\
  (forall r, In r (cp_recipes c) -> exists p, deref h r = Some p) /\
  po_servs po = [] /\ po_menu po = [] /\ po_orig po = None /\
  hd_error (po_refs po) = Some (a_href, href_relative_url (cp_path c) css_path).
Proof.
  unfold render_cat. cbv zeta.
  match goal with |- bind ?x _ = _ -> _ => destruct x as [[body a0]|e] end; [|discriminate]. cbn [bind].
  fold (rec_links h (cp_path c) (cp_recipes c)).
  destruct (rec_links h (cp_path c) (cp_recipes c)) as [recs|e] eqn:Hr; [|discriminate]. cbn [bind].
  intro H. inversion H; subst. cbn. destruct (rec_links_ok _ _ _ _ Hr) as [Hl Hall].
  repeat split; auto.
Qed.

(** A rendered page for every page reference. *)
Lemma render_all_each fs hm h lookup : forall ps a pages a',
  render_all fs hm h lookup ps a = Ok (pages, a') ->
  forall pr, In pr ps ->
  exists po a0 a1, In (pref_path h pr, po) pages /\
    match pr with
    | PHome => render_home fs hm lookup a0 = Ok (po, a1)
    | PCat c => render_cat fs hm h c lookup a0 = Ok (po, a1)
    | PRec r => exists p, deref h r = Some p /\ render_recipe fs hm h p lookup a0 = Ok (po, a1)
    end.
Proof.
  induction ps as [|q ps IH]; intros a pages a' H pr Hin; [contradiction|]. simpl in H.
  match type of H with bind ?x _ = _ => destruct x as [[po a1]|e] eqn:Hpo end; [|discriminate].
  cbn [bind] in H. destruct (render_all fs hm h lookup ps a1) as [[pos a2]|e] eqn:Hr; [|discriminate].
  cbn [bind] in H. inversion H; subst pages a'. clear H.
  destruct Hin as [Heq|Hin].
  - subst q. exists po, a, a1. split; [left; reflexivity|].
    destruct pr as [|c|r]; try exact Hpo. destruct (deref h r) as [p|]; [|discriminate]. eauto.
  - destruct (IH a1 pos a2 Hr pr Hin) as (po' & a0 & a3 & H1 & H2). exists po', a0, a3. split; [right; exact H1 | exact H2].
Qed.

(** ** Reachability *)

Section Reach.
Variable files : list (str * content).

(** page [f] carries a navigation link (serving buttons, category list, recipe list) that is
    [relative_url(f, g)] *)
Definition linked (f g : str) : Prop :=
  exists po lh, In (f, CPageOut po) files /\ In lh (po_servs po ++ po_cats po ++ po_recs po) /\
                snd lh = href_relative_url f g.

Definition reachable : str -> str -> Prop := clos_refl_trans str linked.
End Reach.

Lemma cat_pages_head c : In (PCat c) (cat_pages c).
Proof. destruct c. cbn [cat_pages]. left. reflexivity. Qed.

(** Induction over category pages (nested lists). *)
Section CpageInd.
Variable P : cpage -> Prop.
Hypothesis H : forall title parent cpath servings desc desc_src srcdir subs recipes,
  Forall P subs -> P (CPage title parent cpath servings desc desc_src srcdir subs recipes).

Fixpoint cpage_ind' (c : cpage) : P c :=
  match c with
  | CPage title parent cpath servings desc desc_src srcdir subs recipes =>
      H title parent cpath servings desc desc_src srcdir subs recipes
        ((fix go (l : list cpage) : Forall P l :=
            match l with
            | [] => Forall_nil P
            | x :: r => Forall_cons x (cpage_ind' x) (go r)
            end) subs)
  end.
End CpageInd.

Lemma cat_pages_subs c sc pr : In sc (cp_subs c) -> In pr (cat_pages sc) -> In pr (cat_pages c).
Proof.
  destruct c as [t pa cpth sv d ds sd subs recs]. cbn [cp_subs cat_pages]. intros Hsc Hpr.
  right. apply in_or_app. left. apply in_flat_map. exists sc. auto.
Qed.

(** Every page below a category page is reachable from it by category / recipe list links. *)
Lemma cat_reach fs hm h lookup files : forall c,
  (forall c', In (PCat c') (cat_pages c) ->
     exists po a0 a1, In (cp_path c', CPageOut po) files /\ render_cat fs hm h c' lookup a0 = Ok (po, a1)) ->
  forall pr, In pr (cat_pages c) -> reachable files (cp_path c) (pref_path h pr).
Proof.
  induction c as [t pa cpth sv d ds sd subs recs IH] using cpage_ind'; intros Hfiles pr Hpr.
  set (c := CPage t pa cpth sv d ds sd subs recs) in *.
  destruct (Hfiles c (cat_pages_head c)) as (po & a0 & a1 & Hin & Hrender).
  apply render_cat_links in Hrender as (_ & Hcats & Hrecs & Hall & _).
  cbn [cat_pages] in Hpr. destruct Hpr as [Heq|Hpr].
  - subst pr. apply rt_refl.
  - apply in_app_or in Hpr as [Hpr|Hpr].
    + apply in_flat_map in Hpr as (sc & Hsc & Hpr). rewrite Forall_forall in IH.
      apply rt_trans with (y := cp_path sc).
      * apply rt_step. exists po, (cp_title sc, href_relative_url (cp_path c) (cp_path sc)). split; [exact Hin|]. split.
        -- apply in_or_app. right. apply in_or_app. left. rewrite Hcats. apply in_map_iff. exists sc. auto.
        -- reflexivity.
      * apply IH; [exact Hsc| |exact Hpr].
        intros c' Hc'. apply Hfiles. eapply (cat_pages_subs c sc); [exact Hsc | exact Hc'].
    + destruct sv as [n|]; [|contradiction]. apply in_map_iff in Hpr as (r & Heq & Hr). subst pr.
      destruct (Hall r Hr) as [p Hd].
      apply rt_step. exists po, (rp_title p, href_relative_url (cp_path c) (rpage_path p)). split; [exact Hin|]. split.
      * apply in_or_app. right. apply in_or_app. right. rewrite Hrecs. apply in_map_iff. exists r.
        rewrite Hd. split; [reflexivity | exact Hr].
      * cbn [snd pref_path]. rewrite Hd. reflexivity.
Qed.

(** Site level: every written page is reachable from the home page. *)
Theorem site_reachable E fs input M files :
  generate_static_site E fs input M = Ok files ->
  forall f po, In (f, CPageOut po) files -> reachable files home_path f.
Proof.
  intros Hgen f po Hf. unfold generate_static_site in Hgen.
  destruct (realpath fs input) as [root| | |]; try discriminate.
  destruct (view_root fs root) as [t|]; [|discriminate].
  destruct (from_root_directory E t root M) as [[hm h]|e]; [|discriminate]. cbn [bind] in Hgen.
  unfold write_site in Hgen.
  destruct (render_all fs hm h (source_lookup hm h) (all_pages hm) []) as [[pages a]|e] eqn:Hra; [|discriminate].
  cbn [bind] in Hgen. destruct (copy_assets fs a) as [copies|e] eqn:Hca; [|discriminate]. cbn [bind] in Hgen.
  apply write_all_ok in Hgen. subst files.
  set (files := map (fun pp => (fst pp, CPageOut (snd pp))) pages ++ [(css_path, CCss)] ++ copies) in *.
  assert (Hpage : forall g q, In (g, q) pages -> In (g, CPageOut q) files).
  { intros g q Hin. apply in_or_app. left. apply in_map_iff. exists (g, q). auto. }
  (* the page comes from a page reference *)
  assert (Hfrom : exists pr, In pr (all_pages hm) /\ f = pref_path h pr).
  { apply in_app_or in Hf as [Hf|Hf].
    - apply in_map_iff in Hf as ([g q] & Heq & Hin). inversion Heq; subst g.
      assert (Hg : In f (map fst pages)) by (apply in_map_iff; exists (f, q); auto).
      rewrite (render_all_paths _ _ _ _ _ _ _ _ Hra) in Hg. apply in_map_iff in Hg as (pr & Hq1 & Hq2). eauto.
    - apply in_app_or in Hf as [[Heq|[]]|Hf]; [discriminate|].
      destruct (copy_assets_only _ _ _ _ _ Hca Hf) as (src & data & Hc). discriminate. }
  destruct Hfrom as (pr & Hpr & ->).
  (* the home page and its links *)
  destruct (render_all_each _ _ _ _ _ _ _ _ Hra PHome (or_introl eq_refl)) as (poh & a0 & a1 & Hinh & Hrh).
  apply render_home_links in Hrh as (Hservs & _).
  assert (Hcat : forall c, In (PCat c) (all_pages hm) ->
            exists po' a0' a1', In (cp_path c, CPageOut po') files /\
                                render_cat fs hm h c (source_lookup hm h) a0' = Ok (po', a1')).
  { intros c Hc. destruct (render_all_each _ _ _ _ _ _ _ _ Hra (PCat c) Hc) as (po' & b0 & b1 & H1 & H2).
    exists po', b0, b1. split; [apply Hpage; exact H1 | exact H2]. }
  unfold all_pages in Hpr. destruct Hpr as [Heq|Hpr]; [subst pr; apply rt_refl|].
  apply in_app_or in Hpr as [Hpr|Hpr].
  - apply in_flat_map in Hpr as ([n c] & Hnc & Hpr). cbn [snd] in Hpr.
    apply rt_trans with (y := cp_path c).
    + apply rt_step. exists poh, (dec_N n, href_relative_url home_path (cp_path c)). split; [apply Hpage; exact Hinh|]. split.
      * apply in_or_app. left. rewrite Hservs. apply in_or_app. left. apply in_map_iff. exists (n, c). auto.
      * reflexivity.
    + apply (cat_reach fs hm h (source_lookup hm h) files c); [|exact Hpr].
      intros c' Hc'. apply Hcat. unfold all_pages. right. apply in_or_app. left.
      apply in_flat_map. exists (n, c). auto.
  - apply rt_trans with (y := cp_path (h_unscaled hm)).
    + apply rt_step. exists poh, (s "Browse by category", href_relative_url home_path (cp_path (h_unscaled hm))).
      split; [apply Hpage; exact Hinh|]. split.
      * apply in_or_app. left. rewrite Hservs. apply in_or_app. right. left. reflexivity.
      * reflexivity.
    + apply (cat_reach fs hm h (source_lookup hm h) files (h_unscaled hm)); [|exact Hpr].
      intros c' Hc'. apply Hcat. unfold all_pages. right. apply in_or_app. right. exact Hc'.
Qed.

(** ** Where chains and stored pages point *)

Lemma asubs_flat_map_nav {A} (f : stree -> path -> list A) dp es :
  asubs f dp es = flat_map (fun e => f e (dp ++ [sname e])) (filter is_sdir es).
Proof.
  induction es as [|e r IH]; [reflexivity|]. destruct e as [n d|n|n rn des]; cbn [asubs filter is_sdir flat_map sname]; try exact IH.
  rewrite IH. reflexivity.
Qed.

Section Chains.
Variable E : env.
Variable T : stree.                    (* the whole source tree *)

(** every element of a chain is the home page or a category page of top [sv] *)
Definition chain_ok (sv : option N) (ch : chain) : Prop :=
  forall tp, In tp ch -> snd tp = home_path \/ exists d, In d (tree_dirs T) /\ snd tp = cat_page_path (top_name sv) d.

Lemma chain_ok_snoc sv ch t p : chain_ok sv ch ->
  (exists d, In d (tree_dirs T) /\ p = cat_page_path (top_name sv) d) -> chain_ok sv (ch ++ [(t, p)]).
Proof.
  intros H Hp tp Hin. apply in_app_or in Hin as [Hin|[Heq|[]]]; [apply H; exact Hin|]. subst tp. right. exact Hp.
Qed.

Lemma tree_dirs_sub nm rn es dn drn des d :
  In (SDir dn drn des) es -> In d (tree_dirs (SDir dn drn des)) -> In (dn :: d) (tree_dirs (SDir nm rn es)).
Proof.
  intros Hin Hd. cbn [tree_dirs]. right. apply in_flat_map. exists (SDir dn drn des). split; [exact Hin|].
  apply in_map. exact Hd.
Qed.

Lemma tree_dirs_nil nm rn es : In [] (tree_dirs (SDir nm rn es)).
Proof. cbn [tree_dirs]. left. reflexivity. Qed.

(** Sources of a subtree: which recipe of the tree they are, and where the chains of their
    directory's category pages lead. *)
Lemma asources_facts : forall t dp P is_root rel,
  (forall sv', cat_cpath sv' (P sv') dp is_root = cat_page_path (top_name sv') rel) ->
  (forall sv', chain_ok sv' (P sv')) ->
  (forall d, In d (tree_dirs t) -> In (rel ++ d) (tree_dirs T)) ->
  forall src data mes, In (src, data, mes) (asources E t dp P is_root) ->
  exists x, In x (tree_recipes t) /\ src = (dp ++ fst (fst x)) ++ [snd (fst x)] /\ data = snd x /\
    (forall sv', chain_path (mes sv') = cat_page_path (top_name sv') (rel ++ fst (fst x))) /\
    (forall sv', chain_ok sv' (mes sv')).
Proof.
  induction t as [nm d|nm|nm rn es IHes] using stree_ind'; intros dp P is_root rel Hpre Hch Hdirs src data mes Hin;
    try (simpl in Hin; contradiction).
  rewrite asources_eq in Hin. destruct (enumerate E dp rn es) as [l|e] eqn:Hen; [|contradiction]. cbv zeta in Hin.
  set (mes0 := dir_mes P dp (l_title l) is_root) in *.
  pose proof (enumerate_recipes E _ _ _ _ Hen) as Hrs.
  assert (Hme : forall sv', chain_path (mes0 sv') = cat_page_path (top_name sv') rel).
  { intro sv'. unfold mes0, dir_mes, dir_me. rewrite chain_path_snoc. apply Hpre. }
  assert (Hch0 : forall sv', chain_ok sv' (mes0 sv')).
  { intro sv'. unfold mes0, dir_mes, dir_me. apply chain_ok_snoc; [apply Hch|].
    exists rel. split; [|apply Hpre]. rewrite <- (app_nil_r rel). apply Hdirs. apply tree_dirs_nil. }
  apply in_app_or in Hin as [Hin|Hin].
  - rewrite asubs_flat_map_nav in Hin. apply in_flat_map in Hin as (e & Hine & Hin).
    apply filter_In in Hine as [Hine Hd]. destruct e as [fn fd|bn|dn drn des]; try discriminate. cbn [sname] in Hin.
    rewrite Forall_forall in IHes.
    destruct (IHes _ Hine (dp ++ [dn]) mes0 false (rel ++ [dn])) with (src := src) (data := data) (mes := mes)
      as (x & Hx & Hsrc & Hdata & Hcp & Hok); auto.
    + intro sv'. unfold cat_cpath, cat_seg. rewrite Hme, last_snoc. unfold cat_page_path at 1.
      rewrite href_parent_index. unfold cat_page_path. rewrite dir_prefix_snoc, <- !app_assoc. reflexivity.
    + intros d0 Hd0. rewrite <- app_assoc. apply Hdirs. cbn [app]. eapply tree_dirs_sub; eassumption.
    + exists (dn :: fst (fst x), snd (fst x), snd x). cbn [fst snd]. split.
      * cbn [tree_recipes]. apply in_or_app. right. apply in_flat_map. exists (SDir dn drn des). split; [exact Hine|].
        apply in_map_iff. exists x. auto.
      * split; [rewrite Hsrc, <- !app_assoc; reflexivity|]. split; [exact Hdata|]. split; [|exact Hok].
        intro sv'. rewrite Hcp, <- app_assoc. reflexivity.
  - apply in_map_iff in Hin as ([name dt] & Heq & Hin). inversion Heq; subst src data mes. clear Heq.
    exists ([], name, dt). cbn [fst snd]. rewrite !app_nil_r. split.
    + cbn [tree_recipes]. apply in_or_app. left. apply in_map_iff. exists (name, dt). rewrite <- Hrs. auto.
    + auto.
Qed.

(** Category pages of one top: their chains and addresses. *)
Lemma cat_chains : forall t j sv dp P is_root rel c,
  pure_dir E j sv t dp P is_root = Ok c ->
  (forall sv', cat_cpath sv' (P sv') dp is_root = cat_page_path (top_name sv') rel) ->
  (forall sv', chain_ok sv' (P sv')) ->
  (forall d, In d (tree_dirs t) -> In (rel ++ d) (tree_dirs T)) ->
  forall c', In (PCat c') (cat_pages c) ->
    chain_ok sv (cp_parent c' ++ [(cp_title c', cp_path c')]) /\ cp_servings c' = sv.
Proof.
  induction t as [nm d|nm|nm rn es IHes] using stree_ind'; intros j sv dp P is_root rel c Hp Hpre Hch Hdirs c' Hc';
    try discriminate.
  rewrite pure_dir_eq in Hp. destruct (enumerate E dp rn es) as [l|e] eqn:Hen; [|discriminate]. cbn [bind] in Hp. cbv zeta in Hp.
  set (mes0 := dir_mes P dp (l_title l) is_root) in *.
  destruct (psubs (fun e p => pure_dir E j sv e p mes0 false) dp es) as [cs|e] eqn:Hcs; [|discriminate]. cbn [bind] in Hp.
  destruct (pure_refs E sv j dp mes0 (l_recipes l)) as [refs|e]; [|discriminate]. cbn [bind] in Hp. inversion Hp; subst c. clear Hp.
  assert (Hme : forall sv', chain_path (mes0 sv') = cat_page_path (top_name sv') rel).
  { intro sv'. unfold mes0, dir_mes, dir_me. rewrite chain_path_snoc. apply Hpre. }
  assert (Hch0 : forall sv', chain_ok sv' (mes0 sv')).
  { intro sv'. unfold mes0, dir_mes, dir_me. apply chain_ok_snoc; [apply Hch|].
    exists rel. split; [|apply Hpre]. rewrite <- (app_nil_r rel). apply Hdirs. apply tree_dirs_nil. }
  unfold dir_page in Hc'. cbn [cat_pages] in Hc'. destruct Hc' as [Heq|Hc'].
  - inversion Heq; subst c'. cbn [cp_parent cp_title cp_path cp_servings]. split; [|reflexivity]. exact (Hch0 sv).
  - apply in_app_or in Hc' as [Hc'|Hc'].
    + apply in_flat_map in Hc' as (sc & Hsc & Hc'). apply in_sort_by in Hsc.
      apply (psubs_in _ dp es cs Hcs) in Hsc as (dn & drn & des & Hine & Hpe).
      rewrite Forall_forall in IHes.
      apply (IHes _ Hine j sv (dp ++ [dn]) mes0 false (rel ++ [dn]) sc Hpe); auto.
      * intro sv'. unfold cat_cpath, cat_seg. rewrite Hme, last_snoc. unfold cat_page_path at 1.
        rewrite href_parent_index. unfold cat_page_path. rewrite dir_prefix_snoc, <- !app_assoc. reflexivity.
      * intros d0 Hd0. rewrite <- app_assoc. apply Hdirs. cbn [app]. eapply tree_dirs_sub; eassumption.
    + destruct sv; [|contradiction]. apply in_map_iff in Hc' as (r & Heq & _). discriminate.
Qed.

(** References held by the category pages of a scaled top: which source they designate. *)
Lemma cat_pages_recs_inv : forall t j n dp P is_root c,
  pure_dir E j (Some n) t dp P is_root = Ok c -> n = N.of_nat (S j) ->
  forall c' r, In (PCat c') (cat_pages c) -> In r (cp_recipes c') ->
  exists dp' nd doc title mes,
    In (dp' ++ [fst nd], snd nd, mes) (asources E t dp P is_root) /\
    compile_recipe E (snd nd) true false = Ok doc /\ d_title doc = Some title /\ d_servings doc <> Some 0 /\
    r = scaled_ref n dp' nd doc title /\
    mes (Some n) = cp_parent c' ++ [(cp_title c', cp_path c')].
Proof.
  induction t as [nm d|nm|nm rn es IHes] using stree_ind'; intros j n dp P is_root c Hp Hn c' r Hc' Hr; try discriminate.
  subst n. rewrite pure_dir_eq in Hp. rewrite asources_eq.
  destruct (enumerate E dp rn es) as [l|e] eqn:Hen; [|discriminate]. cbn [bind] in Hp. cbv zeta in *.
  set (mes0 := dir_mes P dp (l_title l) is_root) in *.
  destruct (psubs (fun e p => pure_dir E j (Some (N.of_nat (S j))) e p mes0 false) dp es) as [cs|e] eqn:Hcs; [|discriminate].
  cbn [bind] in Hp. destruct (pure_refs E (Some (N.of_nat (S j))) j dp mes0 (l_recipes l)) as [refs|e] eqn:Hrefs; [|discriminate].
  cbn [bind] in Hp. inversion Hp; subst c. clear Hp.
  unfold dir_page in Hc'. cbn [cat_pages] in Hc'. destruct Hc' as [Heq|Hc'].
  - inversion Heq; subst c'. cbn [cp_recipes cp_parent cp_title cp_path] in *. apply in_sort_by in Hr.
    unfold pure_refs in Hrefs.
    apply (pure_refs_scaled_in E j dp mes0 _ _ Hrefs) in Hr as (nd & doc & title & Hnd & Hc & Ht & Hreq).
    destruct (pure_refs_scaled_docs E j dp mes0 _ _ Hrefs nd Hnd) as (doc' & title' & Hc2 & Ht2 & Hs2).
    rewrite Hc in Hc2. inversion Hc2; subst doc'.
    exists dp, nd, doc, title, mes0. repeat split; auto.
    apply in_or_app. right. apply in_map_iff. exists nd. split; [destruct nd; reflexivity | exact Hnd].
  - apply in_app_or in Hc' as [Hc'|Hc'].
    + apply in_flat_map in Hc' as (sc & Hsc & Hc'). apply in_sort_by in Hsc.
      apply (psubs_in _ dp es cs Hcs) in Hsc as (dn & drn & des & Hine & Hpe).
      rewrite Forall_forall in IHes.
      destruct (IHes _ Hine j (N.of_nat (S j)) (dp ++ [dn]) mes0 false sc Hpe eq_refl c' r Hc' Hr)
        as (dp' & nd & doc & title & mes & Hin & Hrest).
      exists dp', nd, doc, title, mes. split; [|exact Hrest].
      apply in_or_app. left. rewrite asubs_flat_map_nav. apply in_flat_map. exists (SDir dn drn des). split; [|exact Hin].
      apply filter_In. auto.
    + apply in_map_iff in Hc' as (r0 & Heq & _). discriminate.
Qed.

(** ... and of the unscaled top. *)
Lemma cat_pages_unscaled_recs_inv : forall t j dp P is_root c,
  pure_dir E j None t dp P is_root = Ok c ->
  forall c' r, In (PCat c') (cat_pages c) -> In r (cp_recipes c') ->
  exists src data mes m native p0,
    In (src, data, mes) (asources E t dp P is_root) /\
    unscaled_lookup (expected E mes src data j) = Ok (m, native, p0) /\ r = unscaled_ref src native p0.
Proof.
  induction t as [nm d|nm|nm rn es IHes] using stree_ind'; intros j dp P is_root c Hp c' r Hc' Hr; try discriminate.
  rewrite pure_dir_eq in Hp. rewrite asources_eq.
  destruct (enumerate E dp rn es) as [l|e] eqn:Hen; [|discriminate]. cbn [bind] in Hp. cbv zeta in *.
  set (mes0 := dir_mes P dp (l_title l) is_root) in *.
  destruct (psubs (fun e p => pure_dir E j None e p mes0 false) dp es) as [cs|e] eqn:Hcs; [|discriminate].
  cbn [bind] in Hp. destruct (pure_refs E None j dp mes0 (l_recipes l)) as [refs|e] eqn:Hrefs; [|discriminate].
  cbn [bind] in Hp. inversion Hp; subst c. clear Hp.
  unfold dir_page in Hc'. cbn [cat_pages] in Hc'. destruct Hc' as [Heq|Hc'].
  - inversion Heq; subst c'. cbn [cp_recipes] in Hr. apply in_sort_by in Hr. unfold pure_refs in Hrefs.
    clear - Hrefs Hr. revert refs Hrefs Hr. induction (l_recipes l) as [|[name data] rs IH]; intros refs Hrefs Hr.
    + inversion Hrefs; subst. contradiction.
    + cbn [pure_refs_unscaled] in Hrefs.
      destruct (unscaled_lookup (expected E mes0 (dp ++ [name]) data j)) as [[[m native] p0]|e] eqn:Hl; [|discriminate].
      cbn [bind] in Hrefs. destruct (pure_refs_unscaled E j dp mes0 rs) as [refs0|e] eqn:Hr0; [|discriminate].
      cbn [bind] in Hrefs. inversion Hrefs; subst refs. destruct Hr as [Heq|Hr].
      * exists (dp ++ [name]), data, mes0, m, native, p0. split; [|split; [exact Hl | symmetry; exact Heq]].
        apply in_or_app. right. left. reflexivity.
      * destruct (IH refs0 eq_refl Hr) as (src & dt & mes & m' & nat' & p' & Hin & H2 & H3).
        exists src, dt, mes, m', nat', p'. split; [|auto].
        apply in_app_or in Hin as [Hin|Hin]; apply in_or_app; [left; exact Hin | right; right; exact Hin].
  - apply in_app_or in Hc' as [Hc'|Hc']; [|contradiction].
    apply in_flat_map in Hc' as (sc & Hsc & Hc'). apply in_sort_by in Hsc.
    apply (psubs_in _ dp es cs Hcs) in Hsc as (dn & drn & des & Hine & Hpe).
    rewrite Forall_forall in IHes.
    destruct (IHes _ Hine j (dp ++ [dn]) mes0 false sc Hpe c' r Hc' Hr) as (src & dt & mes & m & nat & p0 & Hin & Hrest).
    exists src, dt, mes, m, nat, p0. split; [|exact Hrest].
    apply in_or_app. left. rewrite asubs_flat_map_nav. apply in_flat_map. exists (SDir dn drn des). split; [|exact Hin].
    apply filter_In. auto.
Qed.

End Chains.

(** ** Navigation targets are written *)

Lemma render_all_inv fs hm h lookup : forall ps a pages a',
  render_all fs hm h lookup ps a = Ok (pages, a') ->
  forall g q, In (g, q) pages ->
  exists pr a0 a1, In pr ps /\ g = pref_path h pr /\
    match pr with
    | PHome => render_home fs hm lookup a0 = Ok (q, a1)
    | PCat c => render_cat fs hm h c lookup a0 = Ok (q, a1)
    | PRec r => exists p, deref h r = Some p /\ render_recipe fs hm h p lookup a0 = Ok (q, a1)
    end.
Proof.
  induction ps as [|pr ps IH]; intros a pages a' H g q Hin; simpl in H.
  - inversion H; subst. contradiction.
  - match type of H with bind ?x _ = _ => destruct x as [[po a1]|e] eqn:Hpo end; [|discriminate].
    cbn [bind] in H. destruct (render_all fs hm h lookup ps a1) as [[pos a2]|e] eqn:Hr; [|discriminate].
    cbn [bind] in H. inversion H; subst pages a'. clear H.
    destruct Hin as [Heq|Hin].
    + inversion Heq; subst g q. exists pr, a, a1. split; [left; reflexivity|]. split; [reflexivity|].
      destruct pr as [|c|r]; try exact Hpo. destruct (deref h r) as [p|]; [|discriminate]. eauto.
    + destruct (IH a1 pos a2 Hr g q Hin) as (pr' & a0 & a3 & H1 & H2 & H3). exists pr', a0, a3.
      split; [right; exact H1 | split; assumption].
Qed.

Lemma sc_sorted_in kp : forall m, In kp (sc_sorted m) -> In kp m.
Proof.
  assert (Hins : forall y l0, In kp (sc_insert_sorted y l0) -> kp = y \/ In kp l0).
  { intros y l0. induction l0 as [|z l0 IH]; simpl; intro H.
    - destruct H as [H|[]]; left; symmetry; exact H.
    - destruct (opt_N_leb (fst y) (fst z)).
      + destruct H as [H|H]; [left; symmetry; exact H | right; exact H].
      + destruct H as [H|H]; [right; left; exact H|]. destruct (IH H); [left | right; right]; assumption. }
  unfold sc_sorted. induction m as [|x l IH]; intro H; [destruct H|]. cbn [fold_right] in H.
  apply Hins in H. destruct H as [H|H]; [subst kp; apply in_eq | apply in_cons; apply IH; exact H].
Qed.

Lemma render_recipe_links fs hm h p lookup a po a' :
  render_recipe fs hm h p lookup a = Ok (po, a') ->
  po_crumbs po = crumbs_of (rpage_path p) (rp_parent p ++ [(rp_title p, rpage_path p)]) /\
  po_cats po = [] /\ po_recs po = [] /\ po_servs po = [] /\
  (forall lh, In lh (po_menu po) -> exists kp, In kp (match heap_get (rp_source p) h with Some m => m | None => [] end) /\
                                              snd lh = href_relative_url (rpage_path p) (rpage_path (snd kp))) /\
  (forall o, po_orig po = Some o -> exists np, sc_get (rp_native p) (match heap_get (rp_source p) h with Some m => m | None => [] end) = Some np /\
                                              o = href_relative_url (rpage_path p) (rpage_path np)) /\
  hd_error (po_refs po) = Some (a_href, href_relative_url (rpage_path p) css_path).
Proof.
  unfold render_recipe. cbv zeta.
  set (others := match heap_get (rp_source p) h with Some m => m | None => [] end).
  match goal with |- bind ?x _ = _ -> _ => destruct x as [orig|e] eqn:Ho end; [|discriminate]. cbn [bind].
  match goal with |- bind ?x _ = _ -> _ => destruct x as [[body a0]|e] end; [|discriminate]. cbn [bind].
  intro H. inversion H; subst. cbn.
  split; [reflexivity|]. split; [reflexivity|]. split; [reflexivity|]. split; [reflexivity|].
  split; [|split; [|reflexivity]].
  - intros lh Hin. destruct (has_menu (d_items (rp_doc p))); [|destruct Hin].
    apply in_map_iff in Hin as (kp & Heq & Hkp). exists kp. split; [|subst lh; reflexivity].
    apply sc_sorted_in. exact Hkp.
  - intros o Ho'. subst orig.
    destruct (has_menu (d_items (rp_doc p)) && negb (factor_eqb (rp_factor p) factor_one)); [|discriminate].
    destruct (sc_get (rp_native p) others) as [np|]; [|discriminate]. inversion Ho; subst. eauto.
Qed.

Lemma cat_pages_trans : forall top c pr, In (PCat c) (cat_pages top) -> In pr (cat_pages c) -> In pr (cat_pages top).
Proof.
  induction top as [t pa cpth sv d ds sd subs recs IH] using cpage_ind'; intros c pr Hc Hpr.
  cbn [cat_pages] in Hc. destruct Hc as [Heq|Hc].
  - inversion Heq; subst c. exact Hpr.
  - apply in_app_or in Hc as [Hc|Hc].
    + apply in_flat_map in Hc as (sc & Hsc & Hc). rewrite Forall_forall in IH.
      cbn [cat_pages]. right. apply in_or_app. left. apply in_flat_map. exists sc. split; [exact Hsc|].
      eapply IH; eassumption.
    + destruct sv; [|contradiction]. apply in_map_iff in Hc as (r & Heq & _). discriminate.
Qed.

Section Stored.
Variable E : env.

Lemma sc_get_in k : forall (m : scalings) p, sc_get k m = Some p -> In (k, p) m.
Proof.
  induction m as [|[k' p'] m IH]; intros p H; simpl in H; [discriminate|].
  destruct (opt_N_eqb k k') eqn:Ek.
  - apply opt_N_eqb_eq in Ek. subst k'. inversion H; subst. left. reflexivity.
  - right. apply IH. exact H.
Qed.

(** What [recipe_pages[src]] holds at the end: pages of counts 1..M hanging below the category
    pages of those counts, or the single page of an unscalable recipe below the unscaled one. *)
Lemma stored_page mes src data Mn m k p :
  expected_final E mes src data Mn = Some m -> In (k, p) m ->
  rp_source p = src /\
  ((exists i, k = Some i /\ 1 <= i <= N.of_nat Mn /\ rp_parent p = mes (Some i) /\ scalable E data = true) \/
   (k = None /\ rp_parent p = mes None /\ scalable E data = false)).
Proof.
  unfold expected_final, expected, scalable, native_of. destruct Mn as [|Mn]; [discriminate|].
  destruct (compile_recipe E data true false) as [doc|e]; [|discriminate].
  destruct (d_title doc) as [title|]; [|discriminate].
  destruct (d_servings doc) as [nv|].
  - destruct (nv =? 0); [discriminate|].
    change (N_seq 1 (S Mn)) with (1 :: N_seq (1 + 1) Mn). cbn [map].
    change (1 :: N_seq (1 + 1) Mn) with (N_seq 1 (S Mn)).
    match goal with |- Some ((?a, ?b) :: map ?f ?l) = _ -> _ => change ((a, b) :: map f l) with (map f (N_seq 1 (S Mn))) end.
    intros Hm Hin.
    match type of Hm with Some (map ?f ?l) = _ => assert (Hmm : m = map f l) by (inversion Hm; reflexivity) end.
    rewrite Hmm in Hin. apply in_map_iff in Hin as (i & Heq & Hi).
    assert (Hk : k = Some i) by (inversion Heq; reflexivity).
    assert (Hpp : p = mk_page title (mes (Some i)) (Some i) (Some nv) src doc (mk_factor i nv)) by (inversion Heq; reflexivity).
    subst k p. apply N_seq_in in Hi. unfold mk_page. cbn [rp_source rp_parent]. split; [reflexivity|]. left. exists i.
    repeat split; auto; lia.
  - cbn. intros Hm Hin. inversion Hm; subst m. destruct Hin as [Heq|[]]. inversion Heq; subst k p.
    unfold set_parent, mk_page. cbn. split; [reflexivity|]. right. auto.
Qed.

End Stored.

Section NavTargets.
Variable E : env.

Lemma top_in_paths M T sv d : In d (tree_dirs T) ->
  (match sv with Some i => 1 <= i <= M | None => True end) ->
  In (cat_page_path (top_name sv) d) (site_page_paths E M T).
Proof.
  intros Hd Hsv. unfold site_page_paths. right. right. apply in_or_app. left.
  apply in_flat_map. exists sv. split; [|apply in_map; exact Hd].
  destruct sv as [i|]; apply in_or_app; [left | right; left; reflexivity].
  apply in_map. apply N_seq_in. lia.
Qed.

Lemma rec_in_paths M T x sv :
  In x (tree_recipes T) ->
  (match sv with Some i => 1 <= i <= M /\ scalable E (snd x) = true | None => scalable E (snd x) = false end) ->
  In (rec_page_path (top_name sv) (fst (fst x)) (snd (fst x))) (site_page_paths E M T).
Proof.
  intros Hx Hsv. unfold site_page_paths. right. right. apply in_or_app. right.
  destruct sv as [i|].
  - destruct Hsv as [Hi Hs]. apply in_or_app. left. apply in_flat_map. exists i. split; [apply N_seq_in; lia|].
    apply in_map_iff. exists x. split; [reflexivity|]. apply filter_In. auto.
  - apply in_or_app. right. apply in_map_iff. exists x. split; [reflexivity|]. apply filter_In. rewrite Hsv. auto.
Qed.

(** Site level: every navigation link of every written page - breadcrumbs, category and recipe
    lists, serving buttons, serving menu, the link round the original serving count, the style
    sheet - is [relative_url(page, target)] for a [target] that is itself written. *)
Theorem site_nav_targets fs input M files root t :
  generate_static_site E fs input M = Ok files ->
  realpath fs input = ROk root -> view_root fs root = Some t -> uniq_names t -> 1 <= M ->
  forall f po, In (f, CPageOut po) files ->
    (forall lh, In lh (po_crumbs po ++ po_cats po ++ po_recs po ++ po_servs po ++ po_menu po) ->
       exists g, In g (map fst files) /\ snd lh = href_relative_url f g) /\
    (forall o, po_orig po = Some o -> exists g, In g (map fst files) /\ o = href_relative_url f g) /\
    hd_error (po_refs po) = Some (a_href, href_relative_url f css_path) /\ In css_path (map fst files).
Proof.
  intros Hgen Hroot Hview Hu HM f po Hf.
  pose proof (site_files_spec E fs input M files root t Hgen Hroot Hview Hu HM) as Hspec.
  assert (Hw : forall g, In g (site_page_paths E M t) -> In g (map fst files)) by (intros g Hg; apply Hspec; left; exact Hg).
  unfold generate_static_site in Hgen. rewrite Hroot, Hview in Hgen.
  destruct (from_root_directory E t root M) as [[hm h]|e] eqn:Hb; [|discriminate]. cbn [bind] in Hgen.
  pose proof (from_root_directory_pure E t root M Hu) as Hpure.
  destruct (pure_root E t root M) as [hm'|e] eqn:Hp; [|rewrite Hb in Hpure; discriminate].
  destruct Hpure as (h0 & Hb0 & Hfin). rewrite Hb in Hb0. inversion Hb0; subst hm' h0. clear Hb0.
  unfold write_site in Hgen.
  destruct (render_all fs hm h (source_lookup hm h) (all_pages hm) []) as [[pages a]|e] eqn:Hra; [|discriminate].
  cbn [bind] in Hgen. destruct (copy_assets fs a) as [copies|e] eqn:Hca; [|discriminate]. cbn [bind] in Hgen.
  apply write_all_ok in Hgen.
  assert (Hcss : In css_path (map fst files)) by (apply Hw; right; left; reflexivity).
  (* the page comes from a page reference *)
  assert (Hq : In (f, po) pages).
  { rewrite Hgen in Hf. apply in_app_or in Hf as [Hf|Hf].
    - apply in_map_iff in Hf as ([g q] & Heq & Hin). inversion Heq; subst g q. exact Hin.
    - apply in_app_or in Hf as [[Heq|[]]|Hf]; [discriminate|].
      destruct (copy_assets_only _ _ _ _ _ Hca Hf) as (src & data & Hc). discriminate. }
  destruct (render_all_inv _ _ _ _ _ _ _ _ Hra f po Hq) as (pr & a0 & a1 & Hpr & Hfpr & Hrender).
  assert (Hpaths : forall pr', In pr' (all_pages hm) -> In (pref_path h pr') (map fst files)).
  { intros pr' Hin. rewrite Hgen, map_app, in_app_iff. left. rewrite map_fst_pair.
    rewrite (render_all_paths _ _ _ _ _ _ _ _ Hra). apply in_map. exact Hin. }
  (* structure of the home page *)
  unfold pure_root in Hp. destruct t as [nm d|nm|nm rn es]; try discriminate.
  unfold final_heap_ok in Hfin.
  destruct (enumerate E root rn es) as [l|e] eqn:Hen; [|discriminate]. cbn [bind] in Hp.
  set (P := fun _ : option N => [(l_title l, home_path)]) in *.
  destruct (pure_scaled E (SDir nm rn es) root P 0 (N.to_nat M)) as [sc|e] eqn:Hsc; [|discriminate].
  cbn [bind] in Hp. destruct (pure_dir E (N.to_nat M) None (SDir nm rn es) root P true) as [un|e] eqn:Hun; [|discriminate].
  cbn [bind] in Hp. inversion Hp; subst hm. clear Hp.
  set (T := SDir nm rn es) in *.
  set (HM0 := {| h_title := l_title l; h_root := root; h_welcome := l_desc l; h_welcome_src := l_desc_src l;
                 h_scaled := sc; h_unscaled := un |}) in *.
  assert (Hpre : forall sv', cat_cpath sv' (P sv') root true = cat_page_path (top_name sv') []).
  { intro sv'. apply root_prefix_ok. }
  assert (HchP : forall sv', chain_ok T sv' (P sv')).
  { intros sv' tp [Heq|[]]. subst tp. left. reflexivity. }
  assert (Hdirs0 : forall d, In d (tree_dirs T) -> In ([] ++ d) (tree_dirs T)) by (intros; exact H).
  assert (HMn : (1 <= N.to_nat M)%nat) by lia.
  (* chain targets are written *)
  assert (Hchain_w : forall sv ch, (match sv with Some i => 1 <= i <= M | None => True end) -> chain_ok T sv ch ->
            forall tp, In tp ch -> In (snd tp) (map fst files)).
  { intros sv ch Hsv Hok tp Htp. destruct (Hok tp Htp) as [Hh|(d0 & Hd0 & Hp0)].
    - rewrite Hh. apply Hw. left. reflexivity.
    - rewrite Hp0. apply Hw. apply top_in_paths; assumption. }
  (* pages stored for a source are written, and their parent chains lead to written pages *)
  assert (Hstored : forall src data mes, In (src, data, mes) (asources E T root P true) ->
            forall m k p, heap_get src h = Some m -> In (k, p) m ->
              In (rpage_path p) (map fst files) /\
              forall tp, In tp (rp_parent p) -> In (snd tp) (map fst files)).
  { intros src data mes Hin m k p Hm Hkp.
    destruct (asources_facts E T T root P true [] Hpre HchP Hdirs0 src data mes Hin)
      as (x & Hx & Hsrc & Hdata & Hcp & Hok).
    rewrite (Hfin src data mes Hin) in Hm.
    destruct (stored_page E mes src data (N.to_nat M) m k p Hm Hkp) as [Hps Hcase].
    assert (Hpath : forall sv, rp_parent p = mes sv ->
              rpage_path p = rec_page_path (top_name sv) (fst (fst x)) (snd (fst x))).
    { intros sv Hpar. unfold rpage_path. rewrite Hpar, Hcp, Hps, Hsrc. unfold cat_page_path at 1.
      rewrite href_parent_index, last_snoc. reflexivity. }
    subst data.
    destruct Hcase as [(i & Hk & Hi & Hpar & Hs)|(Hk & Hpar & Hs)].
    - split.
      + rewrite (Hpath (Some i) Hpar). apply Hw. apply (rec_in_paths M T x (Some i) Hx). split; [lia | exact Hs].
      + rewrite Hpar. apply (Hchain_w (Some i)); [lia | apply Hok].
    - split.
      + rewrite (Hpath None Hpar). apply Hw. apply (rec_in_paths M T x None Hx). exact Hs.
      + rewrite Hpar. apply (Hchain_w None); [exact I | apply Hok]. }
  (* which top a category page / recipe reference of [all_pages] belongs to *)
  assert (Htops : forall pr', In pr' (all_pages HM0) -> pr' = PHome \/
            exists j sv c, pure_dir E j sv T root P true = Ok c /\ In pr' (cat_pages c) /\
              match sv with Some i => i = N.of_nat (S j) /\ (S j <= N.to_nat M)%nat | None => j = N.to_nat M end).
  { intros pr' Hin. unfold all_pages in Hin. cbn [h_scaled h_unscaled HM0] in Hin. destruct Hin as [Heq|Hin]; [left; auto|].
    right. apply in_app_or in Hin as [Hin|Hin].
    - apply in_flat_map in Hin as ([n c] & Hnc & Hin). cbn [snd] in Hin.
      apply (pure_scaled_in E _ _ _ _ _ _ Hsc) in Hnc as (k & Hk & Hn & Hpd). cbn [fst snd] in *.
      exists k, (Some n), c. rewrite Hn. repeat split; auto. lia.
    - exists (N.to_nat M), None, un. auto. }
  assert (Hrecipe : forall r p, In (PRec r) (all_pages HM0) -> deref h r = Some p ->
            exists src data mes m k, In (src, data, mes) (asources E T root P true) /\
                       heap_get src h = Some m /\ In (k, p) m /\ rp_source p = src).
  { intros r p Hpr0 Hd.
    destruct (Htops (PRec r) Hpr0) as [Hh|(j & sv & ctop & Hpd & Hinc & Hsv)]; [discriminate|].
    assert (Hloc : exists c', In (PCat c') (cat_pages ctop) /\ In r (cp_recipes c') /\ cp_servings c' <> None).
    { clear - Hinc. induction ctop as [t0 pa cpth sv0 d0 ds sd subs recs IH] using cpage_ind'.
      cbn [cat_pages] in Hinc. destruct Hinc as [Heq|Hinc]; [discriminate|].
      apply in_app_or in Hinc as [Hinc|Hinc].
      - apply in_flat_map in Hinc as (sc0 & Hsc0 & Hinc). rewrite Forall_forall in IH.
        destruct (IH sc0 Hsc0 Hinc) as (c' & H1 & H2 & H3). exists c'. split; [|auto].
        cbn [cat_pages]. right. apply in_or_app. left. apply in_flat_map. exists sc0. auto.
      - destruct sv0 as [n0|]; [|contradiction]. apply in_map_iff in Hinc as (r0 & Heq & Hr0). inversion Heq; subst r0.
        exists (CPage t0 pa cpth (Some n0) d0 ds sd subs recs). split; [left; reflexivity|]. split; [exact Hr0 | discriminate]. }
    destruct Hloc as (c' & Hc' & Hr & Hnn).
    destruct sv as [i|].
    - destruct Hsv as [Hi Hj].
      destruct (cat_pages_recs_inv E T j i root P true ctop Hpd Hi c' r Hc' Hr)
        as (dp' & nd & doc & title & mes & Hin & _ & _ & _ & Hreq & _).
      unfold deref in Hd. rewrite Hreq in Hd. unfold scaled_ref in Hd. cbn [rr_source rr_key] in Hd.
      destruct (heap_get (dp' ++ [fst nd]) h) as [m|] eqn:Hm; [|discriminate].
      apply sc_get_in in Hd. exists (dp' ++ [fst nd]), (snd nd), mes, m. eexists. split; [exact Hin|]. split; [exact Hm|]. split; [exact Hd|].
      rewrite (Hfin _ _ _ Hin) in Hm. exact (proj1 (stored_page E _ _ _ _ _ _ _ Hm Hd)).
    - exfalso. apply Hnn.
      destruct (cat_chains E T T j None root P true [] ctop Hpd Hpre HchP Hdirs0 c' Hc') as [_ Hs]. exact Hs. }
  split; [|split; [|split; [|exact Hcss]]].
  - (* navigation lists *)
    intros lh Hlh. destruct pr as [|c|r].
    + (* home page *)
      apply render_home_links in Hrender as (Hservs & Hcr & Hca' & Hre & Hme & _).
      rewrite Hcr, Hca', Hre, Hme, Hservs in Hlh. cbn [app] in Hlh. rewrite app_nil_r in Hlh.
      apply in_app_or in Hlh as [Hlh|[Hlh|[]]].
      * apply in_map_iff in Hlh as ([n c] & Heq & Hnc). subst lh. cbn [fst snd].
        exists (cp_path c). split; [|subst f; reflexivity].
        apply (Hpaths (PCat c)). unfold all_pages. right. apply in_or_app. left. apply in_flat_map.
        exists (n, c). split; [exact Hnc | apply cat_pages_head].
      * subst lh. exists (cp_path un). split; [|subst f; reflexivity].
        apply (Hpaths (PCat un)). unfold all_pages. right. apply in_or_app. right. apply cat_pages_head.
    + (* category page *)
      apply render_cat_links in Hrender as (Hcr & Hcats & Hrecs & Hall & Hse & Hme & _).
      destruct (Htops (PCat c) Hpr) as [Hh|(j & sv & ctop & Hpd & Hinc & Hsv)]; [discriminate|].
      destruct (cat_chains E T T j sv root P true [] ctop Hpd Hpre HchP Hdirs0 c Hinc) as [Hck Hcsv].
      assert (Hsv' : match sv with Some i => 1 <= i <= M | None => True end).
      { destruct sv as [i|]; [|exact I]. destruct Hsv as [Hi Hj]. lia. }
      rewrite Hse, Hme in Hlh. cbn [app] in Hlh. rewrite !app_nil_r in Hlh.
      apply in_app_or in Hlh as [Hlh|Hlh].
      * rewrite Hcr in Hlh. unfold crumbs_of in Hlh. apply in_map_iff in Hlh as (tp & Heq & Htp). subst lh. cbn [snd].
        exists (snd tp). split; [|subst f; reflexivity]. exact (Hchain_w sv _ Hsv' Hck tp Htp).
      * apply in_app_or in Hlh as [Hlh|Hlh].
        -- rewrite Hcats in Hlh. apply in_map_iff in Hlh as (sc0 & Heq & Hsc0). subst lh. cbn [snd].
           exists (cp_path sc0). split; [|subst f; reflexivity].
           apply (Hpaths (PCat sc0)).
           assert (Hin0 : In (PCat sc0) (cat_pages ctop)).
           { eapply cat_pages_trans; [exact Hinc|]. eapply cat_pages_subs; [exact Hsc0 | apply cat_pages_head]. }
           clear - Hin0 Hpd Hsv Hsc Hun. unfold all_pages. cbn [h_scaled h_unscaled HM0]. right.
           destruct sv as [i|].
           ++ destruct Hsv as [Hi Hj]. subst i.
              destruct (pure_scaled_total E _ _ _ _ _ _ Hsc j) as (c0 & Hc0 & Hin1); [lia|].
              rewrite Hpd in Hc0. inversion Hc0; subst c0.
              apply in_or_app. left. apply in_flat_map. exists (N.of_nat (S j), ctop). auto.
           ++ subst j. rewrite Hun in Hpd. inversion Hpd; subst ctop. apply in_or_app. right. exact Hin0.
        -- rewrite Hrecs in Hlh. apply in_map_iff in Hlh as (r & Heq & Hr). destruct (Hall r Hr) as [p Hd].
           rewrite Hd in Heq. subst lh. cbn [snd]. exists (rpage_path p). split; [|subst f; reflexivity].
           destruct sv as [i|].
           ++ destruct Hsv as [Hi Hj].
              destruct (cat_pages_recs_inv E T j i root P true ctop Hpd Hi c r Hinc Hr)
                as (dp' & nd & doc & title & mes & Hin & _ & _ & _ & Hreq & _).
              unfold deref in Hd. rewrite Hreq in Hd. unfold scaled_ref in Hd. cbn [rr_source rr_key] in Hd.
              destruct (heap_get (dp' ++ [fst nd]) h) as [m|] eqn:Hm; [|discriminate].
              apply sc_get_in in Hd. exact (proj1 (Hstored _ _ _ Hin m _ p Hm Hd)).
           ++ subst j.
              destruct (cat_pages_unscaled_recs_inv E T (N.to_nat M) root P true ctop Hpd c r Hinc Hr)
                as (src & data & mes & m0 & native & p0 & Hin & _ & Hreq).
              unfold deref in Hd. rewrite Hreq in Hd. unfold unscaled_ref in Hd. cbn [rr_source rr_key] in Hd.
              destruct (heap_get src h) as [m|] eqn:Hm; [|discriminate].
              apply sc_get_in in Hd. exact (proj1 (Hstored _ _ _ Hin m _ p Hm Hd)).
    + (* recipe page *)
      destruct Hrender as (p & Hd & Hrender).
      apply render_recipe_links in Hrender as (Hcr & Hca' & Hre & Hse & Hmenu & _).
      destruct (Hrecipe r p Hpr Hd) as (src & data & mes & m & k & Hin & Hm & Hkp & Hps).
      destruct (Hstored src data mes Hin m k p Hm Hkp) as [Hself Hparents].
      rewrite Hca', Hre, Hse in Hlh. cbn [app] in Hlh.
      apply in_app_or in Hlh as [Hlh|Hlh].
      * rewrite Hcr in Hlh. unfold crumbs_of in Hlh. apply in_map_iff in Hlh as (tp & Heq & Htp). subst lh. cbn [snd].
        exists (snd tp). split; [|subst f; unfold pref_path; rewrite Hd; reflexivity].
        apply in_app_or in Htp as [Htp|[Heq|[]]]; [apply Hparents; exact Htp|]. subst tp. exact Hself.
      * destruct (Hmenu lh Hlh) as (kp & Hkp' & Heq). rewrite Hps, Hm in Hkp'.
        exists (rpage_path (snd kp)). split; [|subst f; unfold pref_path; rewrite Hd; exact Heq].
        destruct kp as [k' p']. exact (proj1 (Hstored src data mes Hin m k' p' Hm Hkp')).
  - (* the link round the original serving count *)
    intros o Ho. destruct pr as [|c|r].
    + apply render_home_links in Hrender as (_ & _ & _ & _ & _ & Hor & _). congruence.
    + apply render_cat_links in Hrender as (_ & _ & _ & _ & _ & _ & Hor & _). congruence.
    + destruct Hrender as (p & Hd & Hrender).
      apply render_recipe_links in Hrender as (_ & _ & _ & _ & _ & Horig & _).
      destruct (Horig o Ho) as (np & Hnp & Heq).
      exists (rpage_path np). split; [|subst f; unfold pref_path; rewrite Hd; exact Heq].
      destruct (Hrecipe r p Hpr Hd) as (src & data & mes & m & k & Hin & Hm & Hkp & Hps).
      rewrite Hps, Hm in Hnp. apply sc_get_in in Hnp. exact (proj1 (Hstored src data mes Hin m _ np Hm Hnp)).
  - (* style sheet *)
    destruct pr as [|c|r].
    + apply render_home_links in Hrender as (_ & _ & _ & _ & _ & _ & Hhd). subst f. exact Hhd.
    + apply render_cat_links in Hrender as (_ & _ & _ & _ & _ & _ & _ & Hhd). subst f. exact Hhd.
    + destruct Hrender as (p & Hd & Hrender).
      apply render_recipe_links in Hrender as (_ & _ & _ & _ & _ & _ & Hhd). subst f. unfold pref_path. rewrite Hd. exact Hhd.
Qed.

End NavTargets.

(** ** Category and recipe lists are in title order (C15) *)

Definition by_title (a b : str * str) : Prop := str_leb (fst a) (fst b) = true.

Lemma sorted_titles {A} (key : A -> str * str) (g : A -> str * str) l :
  (forall x, In x l -> fst (g x) = fst (key x)) -> Sorted (key_le key) l -> Sorted by_title (map g l).
Proof.
  intros Hg Hs. induction Hs as [|x l Hs IH Hhd]; [constructor|]. simpl. constructor.
  - apply IH. intros y Hy. apply Hg. right. exact Hy.
  - destruct Hhd as [|y l' Hxy]; [constructor|]. simpl. constructor. unfold by_title.
    rewrite (Hg x (or_introl eq_refl)), (Hg y (or_intror (or_introl eq_refl))). apply (key_le_title key). exact Hxy.
Qed.

Section Sorted.
Variable E : env.

(** every page of [expected] carries the document's title *)
Lemma expected_title mes src data j m k p :
  expected E mes src data j = Some m -> In (k, p) m ->
  exists doc, compile_recipe E data true false = Ok doc /\ d_title doc = Some (rp_title p).
Proof.
  unfold expected. destruct j as [|j]; [discriminate|].
  destruct (compile_recipe E data true false) as [doc|e]; [|discriminate].
  destruct (d_title doc) as [title|] eqn:Ht; [|discriminate].
  destruct (d_servings doc) as [nv|].
  - destruct (nv =? 0); [discriminate|]. intros Hm Hin.
    match type of Hm with Some (map ?f ?l) = _ => assert (Hmm : m = map f l) by (inversion Hm; reflexivity) end.
    rewrite Hmm in Hin. apply in_map_iff in Hin as (i & Heq & _).
    assert (Hp : p = mk_page title (mes (Some i)) (Some i) (Some nv) src doc (mk_factor i nv)) by (inversion Heq; reflexivity).
    subst p. exists doc. split; [reflexivity | exact Ht].
  - intros Hm Hin. assert (Hmm : m = [(None, mk_page title (mes (Some 1)) None None src doc factor_one)]) by (inversion Hm; reflexivity).
    rewrite Hmm in Hin. destruct Hin as [Heq|[]].
    assert (Hp : p = mk_page title (mes (Some 1)) None None src doc factor_one) by (inversion Heq; reflexivity).
    subst p. exists doc. split; [reflexivity | exact Ht].
Qed.

Lemma expected_final_title mes src data j m k p :
  expected_final E mes src data j = Some m -> In (k, p) m ->
  exists doc, compile_recipe E data true false = Ok doc /\ d_title doc = Some (rp_title p).
Proof.
  unfold expected_final. destruct (expected E mes src data j) as [m0|] eqn:He; [|discriminate].
  intros Hm Hin.
  assert (Hcase : m = m0 \/ exists p0, m0 = [(None, p0)] /\ m = [(None, set_parent p0 (mes None))]).
  { destruct m0 as [|[[k0|] p0] [|x r]]; try (left; inversion Hm; reflexivity).
    right. exists p0. split; [reflexivity | inversion Hm; reflexivity]. }
  destruct Hcase as [->|(p0 & -> & ->)].
  - eapply expected_title; eassumption.
  - destruct Hin as [Heq|[]]. assert (Hp : p = set_parent p0 (mes None)) by (inversion Heq; reflexivity). subst p.
    destruct (expected_title mes src data j _ None p0 He (or_introl eq_refl)) as (doc & H1 & H2).
    exists doc. split; [exact H1 | exact H2].
Qed.

Lemma cat_lists_sorted : forall t j sv dp P is_root c,
  pure_dir E j sv t dp P is_root = Ok c ->
  forall c', In (PCat c') (cat_pages c) ->
    Sorted (key_le cpage_key) (cp_subs c') /\ Sorted (key_le rref_key) (cp_recipes c').
Proof.
  induction t as [nm d|nm|nm rn es IHes] using stree_ind'; intros j sv dp P is_root c Hp c' Hc'; try discriminate.
  rewrite pure_dir_eq in Hp. destruct (enumerate E dp rn es) as [l|e]; [|discriminate]. cbn [bind] in Hp. cbv zeta in Hp.
  set (mes0 := dir_mes P dp (l_title l) is_root) in *.
  destruct (psubs (fun e p => pure_dir E j sv e p mes0 false) dp es) as [cs|e] eqn:Hcs; [|discriminate]. cbn [bind] in Hp.
  destruct (pure_refs E sv j dp mes0 (l_recipes l)) as [refs|e]; [|discriminate]. cbn [bind] in Hp. inversion Hp; subst c. clear Hp.
  unfold dir_page in Hc'. cbn [cat_pages] in Hc'. destruct Hc' as [Heq|Hc'].
  - inversion Heq; subst c'. cbn [cp_subs cp_recipes]. split; apply sort_by_sorted.
  - apply in_app_or in Hc' as [Hc'|Hc'].
    + apply in_flat_map in Hc' as (sc & Hsc & Hc'). apply in_sort_by in Hsc.
      apply (psubs_in _ dp es cs Hcs) in Hsc as (dn & drn & des & Hine & Hpe).
      rewrite Forall_forall in IHes. eapply IHes; eassumption.
    + destruct sv; [|contradiction]. apply in_map_iff in Hc' as (r & Heq & _). discriminate.
Qed.

Lemma unscaled_lookup_in m0 m native p0 : unscaled_lookup m0 = Ok (m, native, p0) -> m0 = Some m /\ In (native, p0) m.
Proof.
  unfold unscaled_lookup. destruct m0 as [m1|]; [|discriminate].
  destruct (match sc_get (Some 1) m1 with Some p => Some p | None => sc_get None m1 end) as [q|]; [|discriminate].
  destruct (sc_get (rp_native q) m1) as [p|] eqn:Hg; [|discriminate]. intro H. inversion H; subst.
  split; [reflexivity|]. apply sc_get_in. exact Hg.
Qed.

(** Site level: the sub-category list and the recipe list of every written page are in
    non-decreasing (code point) order of the titles shown. *)
Theorem site_lists_sorted fs input M files root t :
  generate_static_site E fs input M = Ok files ->
  realpath fs input = ROk root -> view_root fs root = Some t -> uniq_names t ->
  forall f po, In (f, CPageOut po) files -> Sorted by_title (po_cats po) /\ Sorted by_title (po_recs po).
Proof.
  intros Hgen Hroot Hview Hu f po Hf.
  unfold generate_static_site in Hgen. rewrite Hroot, Hview in Hgen.
  destruct (from_root_directory E t root M) as [[hm h]|e] eqn:Hb; [|discriminate]. cbn [bind] in Hgen.
  pose proof (from_root_directory_pure E t root M Hu) as Hpure.
  destruct (pure_root E t root M) as [hm'|e] eqn:Hp; [|rewrite Hb in Hpure; discriminate].
  destruct Hpure as (h0 & Hb0 & Hfin). rewrite Hb in Hb0. inversion Hb0; subst hm' h0. clear Hb0.
  unfold write_site in Hgen.
  destruct (render_all fs hm h (source_lookup hm h) (all_pages hm) []) as [[pages a]|e] eqn:Hra; [|discriminate].
  cbn [bind] in Hgen. destruct (copy_assets fs a) as [copies|e] eqn:Hca; [|discriminate]. cbn [bind] in Hgen.
  apply write_all_ok in Hgen.
  assert (Hq : In (f, po) pages).
  { rewrite Hgen in Hf. apply in_app_or in Hf as [Hf|Hf].
    - apply in_map_iff in Hf as ([g q] & Heq & Hin). inversion Heq; subst g q. exact Hin.
    - apply in_app_or in Hf as [[Heq|[]]|Hf]; [discriminate|].
      destruct (copy_assets_only _ _ _ _ _ Hca Hf) as (src & data & Hc). discriminate. }
  destruct (render_all_inv _ _ _ _ _ _ _ _ Hra f po Hq) as (pr & a0 & a1 & Hpr & Hfpr & Hrender).
  destruct pr as [|c|r].
  - apply render_home_links in Hrender as (_ & _ & Hc & Hr & _). rewrite Hc, Hr. split; constructor.
  - unfold pure_root in Hp. destruct t as [nm d|nm|nm rn es]; try discriminate.
    unfold final_heap_ok in Hfin.
    destruct (enumerate E root rn es) as [l|e] eqn:Hen; [|discriminate]. cbn [bind] in Hp.
    set (P := fun _ : option N => [(l_title l, home_path)]) in *.
    destruct (pure_scaled E (SDir nm rn es) root P 0 (N.to_nat M)) as [sc|e] eqn:Hsc; [|discriminate].
    cbn [bind] in Hp. destruct (pure_dir E (N.to_nat M) None (SDir nm rn es) root P true) as [un|e] eqn:Hun; [|discriminate].
    cbn [bind] in Hp. inversion Hp; subst hm. clear Hp.
    set (T := SDir nm rn es) in *.
    apply render_cat_links in Hrender as (_ & Hcats & Hrecs & Hall & _).
    (* the top this category page belongs to *)
    assert (Htop : exists j sv ctop, pure_dir E j sv T root P true = Ok ctop /\ In (PCat c) (cat_pages ctop) /\
              match sv with Some i => i = N.of_nat (S j) | None => j = N.to_nat M end).
    { unfold all_pages in Hpr. cbn [h_scaled h_unscaled] in Hpr. destruct Hpr as [Heq|Hpr]; [discriminate|].
      apply in_app_or in Hpr as [Hpr|Hpr].
      - apply in_flat_map in Hpr as ([n c0] & Hnc & Hin). cbn [snd] in Hin.
        apply (pure_scaled_in E _ _ _ _ _ _ Hsc) in Hnc as (k & Hk & Hn & Hpd). cbn [fst snd] in *.
        exists k, (Some n), c0. rewrite Hn. auto.
      - exists (N.to_nat M), None, un. auto. }
    destruct Htop as (j & sv & ctop & Hpd & Hinc & Hsv).
    destruct (cat_lists_sorted T j sv root P true ctop Hpd c Hinc) as [Hs1 Hs2].
    split.
    + rewrite Hcats. apply (sorted_titles cpage_key); [|exact Hs1]. intros x _. reflexivity.
    + rewrite Hrecs. apply (sorted_titles rref_key); [|exact Hs2].
      intros r Hr. destruct (Hall r Hr) as [p Hd]. rewrite Hd. cbn [fst rref_key].
      destruct sv as [i|].
      * destruct (cat_pages_recs_inv E T j i root P true ctop Hpd Hsv c r Hinc Hr)
          as (dp' & nd & doc & title & mes & Hin & Hc & Ht & _ & Hreq & _).
        unfold deref in Hd. rewrite Hreq in Hd |- *. unfold scaled_ref in Hd |- *. cbn [rr_source rr_key rr_title] in *.
        destruct (heap_get (dp' ++ [fst nd]) h) as [m|] eqn:Hm; [|discriminate].
        apply sc_get_in in Hd. rewrite (Hfin _ _ _ Hin) in Hm.
        destruct (expected_final_title _ _ _ _ _ _ _ Hm Hd) as (doc' & Hc' & Ht').
        rewrite Hc in Hc'. inversion Hc'; subst doc'. rewrite Ht in Ht'. inversion Ht'. reflexivity.
      * subst j.
        destruct (cat_pages_unscaled_recs_inv E T (N.to_nat M) root P true ctop Hpd c r Hinc Hr)
          as (src & data & mes & m0 & native & p0 & Hin & Hl & Hreq).
        apply unscaled_lookup_in in Hl as [He Hp0].
        destruct (expected_title _ _ _ _ _ _ _ He Hp0) as (doc & Hc & Ht).
        unfold deref in Hd. rewrite Hreq in Hd |- *. unfold unscaled_ref in Hd |- *. cbn [rr_source rr_key rr_title] in *.
        destruct (heap_get src h) as [m|] eqn:Hm; [|discriminate].
        apply sc_get_in in Hd. rewrite (Hfin _ _ _ Hin) in Hm.
        destruct (expected_final_title _ _ _ _ _ _ _ Hm Hd) as (doc' & Hc' & Ht').
        rewrite Hc in Hc'. inversion Hc'; subst doc'. rewrite Ht in Ht'. inversion Ht'. reflexivity.
  - destruct Hrender as (p & Hd & Hrender).
    apply render_recipe_links in Hrender as (_ & Hc & Hr & _). rewrite Hc, Hr. split; constructor.
Qed.

End Sorted.

(** ** What author links to page sources are rewritten to (C14) *)

Lemma lookup_last_in {A} k : forall (l : list (path * A)) acc v,
  lookup_last k l acc = Some v -> acc = Some v \/ In (k, v) l.
Proof.
  induction l as [|[k' v'] l IH]; intros acc v H; simpl in H; [left; exact H|].
  destruct (path_eqb k k') eqn:Ek.
  - apply path_eqb_eq in Ek. subst k'. apply IH in H as [H|H]; [inversion H; subst; right; left; reflexivity | right; right; exact H].
  - apply IH in H as [H|H]; [left; exact H | right; right; exact H].
Qed.

(** Every address in [source_to_page_paths] is the address of a page that is written. *)
Theorem site_lookup_written E fs input M files :
  generate_static_site E fs input M = Ok files ->
  exists root t hm h,
    realpath fs input = ROk root /\ view_root fs root = Some t /\ from_root_directory E t root M = Ok (hm, h) /\
    forall src wp sc, lookup_last src (source_lookup hm h) None = Some (wp, sc) -> In wp (map fst files).
Proof.
  intro Hgen. unfold generate_static_site in Hgen.
  destruct (realpath fs input) as [root| | |] eqn:Hr; try discriminate.
  destruct (view_root fs root) as [t|] eqn:Hv; [|discriminate].
  destruct (from_root_directory E t root M) as [[hm h]|e] eqn:Hb; [|discriminate]. cbn [bind] in Hgen.
  exists root, t, hm, h. split; [reflexivity|]. split; [exact Hv|]. split; [exact Hb|].
  unfold write_site in Hgen.
  destruct (render_all fs hm h (source_lookup hm h) (all_pages hm) []) as [[pages a]|e] eqn:Hra; [|discriminate].
  cbn [bind] in Hgen. destruct (copy_assets fs a) as [copies|e] eqn:Hca; [|discriminate]. cbn [bind] in Hgen.
  apply write_all_ok in Hgen. intros src wp sc Hl.
  apply lookup_last_in in Hl as [Hl|Hl]; [discriminate|].
  unfold source_lookup in Hl. apply in_flat_map in Hl as (pr & Hpr & Hin).
  assert (Hw : In (pref_path h pr) (map fst files)).
  { rewrite Hgen, map_app, in_app_iff. left. rewrite map_fst_pair.
    rewrite (render_all_paths _ _ _ _ _ _ _ _ Hra). apply in_map. exact Hpr. }
  destruct pr as [|c|r]; cbn [page_sources pref_path] in *.
  - apply in_map_iff in Hin as (s0 & Heq & _). inversion Heq; subst. exact Hw.
  - destruct (cp_servings c); [contradiction|]. apply in_map_iff in Hin as (s0 & Heq & _). inversion Heq; subst. exact Hw.
  - destruct (deref h r) as [p|]; [|contradiction].
    destruct (opt_N_eqb (rp_servings p) (rp_native p)); [|contradiction]. destruct Hin as [Heq|[]]. inversion Heq; subst. exact Hw.
Qed.

(** ** Addresses as "/"-joined parts *)

Definition noslash (x : str) : bool := forallb (fun d => negb (d =? 47)) x.

Lemma split_on_cons_noslash x rest : noslash x = true ->
  split_on 47 (x ++ 47 :: rest) = x :: split_on 47 rest.
Proof. intro H. rewrite split_on_app, (split_on_noslash _ _ H). reflexivity. Qed.

Lemma split_join parts : parts <> [] -> forallb noslash parts = true -> split_on 47 (join [47] parts) = parts.
Proof.
  induction parts as [|p ps IH]; intros Hne Hall; [congruence|].
  simpl in Hall. apply andb_true_iff in Hall as [Hp Hps].
  destruct ps as [|q ps].
  - simpl. apply split_on_noslash. exact Hp.
  - change (join [47] (p :: q :: ps)) with (p ++ [47] ++ join [47] (q :: ps)). cbn [app].
    rewrite split_on_cons_noslash by exact Hp. f_equal. apply IH; [discriminate | exact Hps].
Qed.

Lemma flat_join rel : forall top x,
  top ++ flat_map (fun n => c_slash :: n) rel ++ 47 :: x = join [47] (top :: rel ++ [x]).
Proof.
  induction rel as [|n rel IH]; intros top x; [reflexivity|].
  cbn [flat_map app]. change (join [47] (top :: n :: rel ++ [x])) with (top ++ [47] ++ join [47] (n :: rel ++ [x])).
  rewrite <- (IH n x). unfold c_slash. cbn [app]. rewrite <- !app_assoc. reflexivity.
Qed.

Lemma dir_prefix_join top rel x :
  dir_prefix top rel ++ [c_slash] ++ x = join [47] ([] :: top :: rel ++ [x]).
Proof.
  unfold dir_prefix. change (join [47] ([] :: top :: rel ++ [x])) with ([] ++ [47] ++ join [47] (top :: rel ++ [x])).
  rewrite <- flat_join. unfold c_slash. cbn [app]. rewrite <- !app_assoc. reflexivity.
Qed.

Lemma cat_page_path_join top rel : cat_page_path top rel = join [47] ([] :: top :: rel ++ [s "index.html"]).
Proof. unfold cat_page_path. change (s "/index.html") with ([c_slash] ++ s "index.html"). apply dir_prefix_join. Qed.

Lemma rec_page_path_join top rel name : rec_page_path top rel name = join [47] ([] :: top :: rel ++ [stem name ++ s ".html"]).
Proof. unfold rec_page_path. rewrite <- dir_prefix_join. reflexivity. Qed.

(** moving an address to another top: the serving-count substitution of [resolve_local_links] *)
Lemma retarget from_top from_rest top rest :
  noslash from_top = true -> forallb noslash from_rest = true -> from_rest <> [] ->
  noslash top = true -> forallb noslash rest = true -> rest <> [] ->
  join [47] (firstn 2 (split_on 47 (join [47] ([] :: from_top :: from_rest)))
             ++ skipn 2 (split_on 47 (join [47] ([] :: top :: rest))))
  = join [47] ([] :: from_top :: rest).
Proof.
  intros H1 H2 H3 H4 H5 H6.
  rewrite !split_join.
  all: try discriminate.
  all: try (cbn [forallb]; rewrite ?H1, ?H2, ?H4, ?H5; reflexivity).
Qed.

(** ** The entries of [source_to_page_paths] *)

Section LookupForm.
Variable E : env.
Variable T : stree.

Lemma cat_paths_form : forall t j sv dp P is_root rel c,
  pure_dir E j sv t dp P is_root = Ok c ->
  (forall sv', cat_cpath sv' (P sv') dp is_root = cat_page_path (top_name sv') rel) ->
  (forall d, In d (tree_dirs t) -> In (rel ++ d) (tree_dirs T)) ->
  forall c', In (PCat c') (cat_pages c) ->
    exists d, In d (tree_dirs T) /\ cp_path c' = cat_page_path (top_name sv) d.
Proof.
  induction t as [nm d|nm|nm rn es IHes] using stree_ind'; intros j sv dp P is_root rel c Hp Hpre Hdirs c' Hc';
    try discriminate.
  rewrite pure_dir_eq in Hp. destruct (enumerate E dp rn es) as [l|e] eqn:Hen; [|discriminate]. cbn [bind] in Hp. cbv zeta in Hp.
  set (mes0 := dir_mes P dp (l_title l) is_root) in *.
  destruct (psubs (fun e p => pure_dir E j sv e p mes0 false) dp es) as [cs|e] eqn:Hcs; [|discriminate]. cbn [bind] in Hp.
  destruct (pure_refs E sv j dp mes0 (l_recipes l)) as [refs|e]; [|discriminate]. cbn [bind] in Hp. inversion Hp; subst c. clear Hp.
  assert (Hme : forall sv', chain_path (mes0 sv') = cat_page_path (top_name sv') rel).
  { intro sv'. unfold mes0, dir_mes, dir_me. rewrite chain_path_snoc. apply Hpre. }
  unfold dir_page in Hc'. cbn [cat_pages] in Hc'. destruct Hc' as [Heq|Hc'].
  - inversion Heq; subst c'. cbn [cp_path]. exists rel. split; [|apply Hpre].
    rewrite <- (app_nil_r rel). apply Hdirs. apply tree_dirs_nil.
  - apply in_app_or in Hc' as [Hc'|Hc'].
    + apply in_flat_map in Hc' as (sc & Hsc & Hc'). apply in_sort_by in Hsc.
      apply (psubs_in _ dp es cs Hcs) in Hsc as (dn & drn & des & Hine & Hpe).
      rewrite Forall_forall in IHes.
      apply (IHes _ Hine j sv (dp ++ [dn]) mes0 false (rel ++ [dn]) sc Hpe); auto.
      * intro sv'. unfold cat_cpath, cat_seg. rewrite Hme, last_snoc. unfold cat_page_path at 1.
        rewrite href_parent_index. unfold cat_page_path. rewrite dir_prefix_snoc, <- !app_assoc. reflexivity.
      * intros d0 Hd0. rewrite <- app_assoc. apply Hdirs. cbn [app]. eapply tree_dirs_sub; eassumption.
    + destruct sv; [|contradiction]. apply in_map_iff in Hc' as (r & Heq & _). discriminate.
Qed.

End LookupForm.

(** ** Names without "/" *)

Fixpoint names_noslash (t : stree) : Prop :=
  match t with
  | SDir _ _ es => Forall (fun e => noslash (sname e) = true) es /\
                   (fix all (l : list stree) : Prop := match l with [] => True | e :: r => names_noslash e /\ all r end) es
  | _ => True
  end.

Lemma names_noslash_dir nm rn es :
  names_noslash (SDir nm rn es) <-> Forall (fun e => noslash (sname e) = true) es /\ Forall names_noslash es.
Proof.
  cbn [names_noslash]. split; intros [H1 H2]; split; try exact H1.
  - clear H1. induction es as [|e r IH]; [constructor|]. destruct H2 as [He Hr]. constructor; [exact He | apply IH; exact Hr].
  - clear H1. induction H2 as [|e r He Hr IH]; [exact I | split; assumption].
Qed.

Lemma noslash_app a b : noslash (a ++ b) = noslash a && noslash b.
Proof. unfold noslash. apply forallb_app. Qed.

Lemma tree_dirs_noslash : forall t, names_noslash t -> forall d, In d (tree_dirs t) -> forallb noslash d = true.
Proof.
  induction t as [nm dt|nm|nm rn es IHes] using stree_ind'; intros Hn d Hd; try contradiction.
  apply names_noslash_dir in Hn as [Hnames Hsub]. cbn [tree_dirs] in Hd. destruct Hd as [Heq|Hd]; [subst d; reflexivity|].
  apply in_flat_map in Hd as (e & Hine & Hd). destruct e as [fn fd|bn|dn drn des]; try contradiction.
  apply in_map_iff in Hd as (d' & Heq & Hd'). subst d. rewrite Forall_forall in *. cbn [forallb].
  rewrite (Hnames _ Hine : noslash dn = true). cbn [andb]. apply (IHes _ Hine); [apply Hsub; exact Hine | exact Hd'].
Qed.

Lemma tree_recipes_noslash : forall t, names_noslash t -> forall x, In x (tree_recipes t) ->
  forallb noslash (fst (fst x)) = true /\ noslash (snd (fst x)) = true.
Proof.
  induction t as [nm dt|nm|nm rn es IHes] using stree_ind'; intros Hn x Hx; try contradiction.
  apply names_noslash_dir in Hn as [Hnames Hsub]. cbn [tree_recipes] in Hx. apply in_app_or in Hx as [Hx|Hx].
  - apply in_map_iff in Hx as ([name data] & Heq & Hin). subst x. cbn [fst snd]. split; [reflexivity|].
    apply dir_recipes_names in Hin as (e & He & Hname & _). subst name. rewrite Forall_forall in Hnames. apply Hnames. exact He.
  - apply in_flat_map in Hx as (e & Hine & Hx). destruct e as [fn fd|bn|dn drn des]; try contradiction.
    apply in_map_iff in Hx as (x' & Heq & Hx'). subst x. cbn [fst snd forallb]. rewrite Forall_forall in *.
    rewrite (Hnames _ Hine : noslash dn = true). cbn [andb]. apply (IHes _ Hine); [apply Hsub; exact Hine | exact Hx'].
Qed.

Lemma rsplit_dot_rev_spec : forall r acc h t, rsplit_dot_rev r acc = Some (h, t) -> rev r ++ acc = h ++ c_dot :: t.
Proof.
  induction r as [|c r IH]; intros acc h t H; simpl in H; [discriminate|].
  destruct (c =? c_dot) eqn:Ec.
  - apply N.eqb_eq in Ec. subst c. inversion H; subst. simpl. rewrite <- app_assoc. reflexivity.
  - apply IH in H. simpl. rewrite <- app_assoc. exact H.
Qed.

Lemma stem_noslash name : noslash name = true -> noslash (stem name) = true.
Proof.
  intro H. unfold stem, rsplit_dot. destruct (rsplit_dot_rev (rev name) []) as [[h t]|] eqn:E; [|reflexivity].
  apply rsplit_dot_rev_spec in E. rewrite rev_involutive, app_nil_r in E. rewrite E, noslash_app in H.
  apply andb_true_iff in H as [H _]. exact H.
Qed.

Lemma digits_noslash : forall fuel n acc, noslash acc = true -> noslash (digits_fuel fuel n acc) = true.
Proof.
  induction fuel as [|f IH]; intros n acc H; simpl; [exact H|].
  assert (Hd : noslash ((48 + n mod 10) :: acc) = true).
  { unfold noslash in *. cbn [forallb]. rewrite H. rewrite andb_true_r. apply negb_true_iff. apply N.eqb_neq.
    intro Heq. assert (Hz : n mod 10 = 47 - 48) by (rewrite <- Heq; rewrite N.add_comm, N.add_sub; reflexivity).
    change (47 - 48) with 0 in Hz. rewrite Hz in Heq. discriminate. }
  destruct (n / 10 =? 0); [exact Hd | apply IH; exact Hd].
Qed.

Lemma serves_noslash n : noslash (serves_name n) = true.
Proof. unfold serves_name. rewrite noslash_app. apply andb_true_iff. split; [reflexivity|]. apply digits_noslash. reflexivity. Qed.

Lemma top_noslash sv : noslash (top_name sv) = true.
Proof. destruct sv; [apply serves_noslash | reflexivity]. Qed.

(** ** Author links to page sources lead to written pages, at the current serving count *)

Section AuthorLinks.
Variable E : env.

Lemma stored_page2 mes src data Mn m k p :
  expected_final E mes src data Mn = Some m -> In (k, p) m ->
  rp_servings p = k /\ rp_native p = native_of E data.
Proof.
  unfold expected_final, expected, native_of. destruct Mn as [|Mn]; [discriminate|].
  destruct (compile_recipe E data true false) as [doc|e]; [|discriminate].
  destruct (d_title doc) as [title|]; [|discriminate].
  destruct (d_servings doc) as [nv|].
  - destruct (nv =? 0); [discriminate|].
    change (N_seq 1 (S Mn)) with (1 :: N_seq (1 + 1) Mn). cbn [map].
    change (1 :: N_seq (1 + 1) Mn) with (N_seq 1 (S Mn)).
    match goal with |- Some ((?a, ?b) :: map ?f ?l) = _ -> _ => change ((a, b) :: map f l) with (map f (N_seq 1 (S Mn))) end.
    intros Hm Hin.
    match type of Hm with Some (map ?f ?l) = _ => assert (Hmm : m = map f l) by (inversion Hm; reflexivity) end.
    rewrite Hmm in Hin. apply in_map_iff in Hin as (i & Heq & Hi).
    assert (Hk : k = Some i) by (inversion Heq; reflexivity).
    assert (Hpp : p = mk_page title (mes (Some i)) (Some i) (Some nv) src doc (mk_factor i nv)) by (inversion Heq; reflexivity).
    subst k p. split; reflexivity.
  - cbn. intros Hm Hin. inversion Hm; subst m. destruct Hin as [Heq|[]]. inversion Heq; subst k p. split; reflexivity.
Qed.

Lemma starts_serves_assets x : starts_with (s "/serves") (assets_dir ++ x) = false.
Proof. reflexivity. Qed.

Theorem site_author_links fs input M files root t :
  generate_static_site E fs input M = Ok files ->
  realpath fs input = ROk root -> view_root fs root = Some t -> uniq_names t -> names_noslash t -> 1 <= M ->
  exists hm h, from_root_directory E t root M = Ok (hm, h) /\
    forall f po, In (f, CPageOut po) files ->
    forall src wp sc, lookup_last src (source_lookup hm h) None = Some (wp, sc) ->
      In (page_target f wp sc) (map fst files).
Proof.
  intros Hgen Hroot Hview Hu Hns HM.
  pose proof (site_files_spec E fs input M files root t Hgen Hroot Hview Hu HM) as Hspec.
  assert (Hw : forall g, In g (site_page_paths E M t) -> In g (map fst files)) by (intros g Hg; apply Hspec; left; exact Hg).
  destruct (site_lookup_written E fs input M files Hgen) as (root' & t' & hm & h & Hr' & Hv' & Hb & Hlw).
  rewrite Hroot in Hr'. inversion Hr'; subst root'. rewrite Hview in Hv'. inversion Hv'; subst t'. clear Hr' Hv'.
  exists hm, h. split; [exact Hb|]. intros f po Hf src wp sc Hl.
  unfold page_target. destruct (starts_with (s "/serves") f && sc && (2 <? List.length (split_on c_slash wp))%nat) eqn:Hcond;
    [|eapply Hlw; exact Hl].
  apply andb_true_iff in Hcond as [Hcond Hlen]. apply andb_true_iff in Hcond as [Hsv Hsc]. subst sc.
  (* [f] is a page below /serves<n> *)
  assert (Hf' : In f (site_page_paths E M t)).
  { destruct (proj1 (Hspec f)) as [Hp|(sr & dt & Hc)]; [apply in_map_iff; exists (f, CPageOut po); auto | exact Hp|].
    exfalso. destruct (site_copies_inside E fs input M files f sr dt Hgen Hc) as (_ & _ & rel & _ & _ & _ & _ & Hd & _).
    rewrite Hd in Hsv. rewrite starts_serves_assets in Hsv. discriminate. }
  assert (Hfform : exists n rest, 1 <= n <= M /\ rest <> [] /\ forallb noslash rest = true /\
                     f = join [47] ([] :: serves_name n :: rest)).
  { unfold site_page_paths in Hf'. destruct Hf' as [Heq|[Heq|Hf']]; [subst f; discriminate | subst f; discriminate|].
    apply in_app_or in Hf' as [Hf'|Hf'].
    - apply in_flat_map in Hf' as (sv & Hsv' & Hd). apply in_map_iff in Hd as (d & Heq & Hd). subst f.
      apply in_app_or in Hsv' as [Hsv'|[Hsv'|[]]]; [|subst sv; discriminate].
      apply in_map_iff in Hsv' as (n & Heq & Hn). subst sv. apply N_seq_in in Hn.
      exists n, (d ++ [s "index.html"]). split; [lia|]. split; [destruct d; discriminate|]. split.
      + rewrite forallb_app, (tree_dirs_noslash t Hns d Hd). reflexivity.
      + apply cat_page_path_join.
    - apply in_app_or in Hf' as [Hf'|Hf'].
      + apply in_flat_map in Hf' as (n & Hn & Hx). apply in_map_iff in Hx as (x & Heq & Hx). subst f.
        apply filter_In in Hx as [Hx _]. apply N_seq_in in Hn.
        destruct (tree_recipes_noslash t Hns x Hx) as [H1 H2].
        exists n, (fst (fst x) ++ [stem (snd (fst x)) ++ s ".html"]). split; [lia|]. split; [destruct (fst (fst x)); discriminate|]. split.
        * rewrite forallb_app, H1. cbn [forallb]. rewrite noslash_app, (stem_noslash _ H2). reflexivity.
        * apply rec_page_path_join.
      + apply in_map_iff in Hf' as (x & Heq & _). subst f. discriminate. }
  destruct Hfform as (n & frest & Hn & Hfne & Hfns & Hfeq).
  (* [wp] is a category page of /categories or the native page of a recipe that states its servings *)
  apply lookup_last_in in Hl as [Hl|Hl]; [discriminate|].
  unfold source_lookup in Hl. apply in_flat_map in Hl as (pr & Hpr & Hin).
  (* structure of the hierarchy *)
  pose proof (from_root_directory_pure E t root M Hu) as Hpure.
  destruct (pure_root E t root M) as [hm'|e] eqn:Hp; [|rewrite Hb in Hpure; discriminate].
  destruct Hpure as (h0 & Hb0 & Hfin). rewrite Hb in Hb0. inversion Hb0; subst hm' h0. clear Hb0.
  unfold pure_root in Hp. destruct t as [nm d|nm|nm rn es]; try discriminate.
  unfold final_heap_ok in Hfin.
  destruct (enumerate E root rn es) as [l|e] eqn:Hen; [|discriminate]. cbn [bind] in Hp.
  set (P := fun _ : option N => [(l_title l, home_path)]) in *.
  destruct (pure_scaled E (SDir nm rn es) root P 0 (N.to_nat M)) as [sc|e] eqn:Hsc'; [|discriminate].
  cbn [bind] in Hp. destruct (pure_dir E (N.to_nat M) None (SDir nm rn es) root P true) as [un|e] eqn:Hun; [|discriminate].
  cbn [bind] in Hp. inversion Hp; subst hm. clear Hp.
  set (T := SDir nm rn es) in *.
  assert (Hpre : forall sv', cat_cpath sv' (P sv') root true = cat_page_path (top_name sv') []).
  { intro sv'. apply root_prefix_ok. }
  assert (HchP : forall sv', chain_ok T sv' (P sv')).
  { intros sv' tp [Heq|[]]. subst tp. left. reflexivity. }
  assert (Hdirs0 : forall d, In d (tree_dirs T) -> In ([] ++ d) (tree_dirs T)) by (intros; assumption).
  assert (Htarget : forall top rest, noslash top = true -> forallb noslash rest = true -> rest <> [] ->
            wp = join [47] ([] :: top :: rest) ->
            join [c_slash] (firstn 2 (split_on c_slash f) ++ skipn 2 (split_on c_slash wp))
              = join [47] ([] :: serves_name n :: rest)).
  { intros top rest H1 H2 H3 Hwp. rewrite Hfeq, Hwp. unfold c_slash.
    apply retarget; auto. apply serves_noslash. }
  destruct pr as [|c|r]; cbn [page_sources] in Hin.
  - (* home page: never moved (its address has two parts) *)
    cbn [h_welcome_src] in Hin. apply in_map_iff in Hin as (s0 & Heq & _). inversion Heq; subst wp. discriminate.
  - destruct (cp_servings c) eqn:Hcs; [contradiction|]. apply in_map_iff in Hin as (s0 & Heq & _). inversion Heq; subst wp. clear Heq.
    (* which top? the unscaled one *)
    assert (Hcu : In (PCat c) (cat_pages un)).
    { unfold all_pages in Hpr. cbn [h_scaled h_unscaled] in Hpr. destruct Hpr as [Heq|Hpr]; [discriminate|].
      apply in_app_or in Hpr as [Hpr|Hpr]; [|exact Hpr]. exfalso.
      apply in_flat_map in Hpr as ([k ck] & Hk & Hin'). cbn [snd] in Hin'.
      apply (pure_scaled_in E _ _ _ _ _ _ Hsc') in Hk as (j & _ & _ & Hpd). cbn [snd] in Hpd.
      destruct (cat_chains E T T j (Some (N.of_nat (S j))) root P true [] ck Hpd Hpre HchP Hdirs0 c Hin') as [_ Hs].
      congruence. }
    destruct (cat_paths_form E T T (N.to_nat M) None root P true [] un Hun Hpre Hdirs0 c Hcu) as (d & Hd & Hcp).
    rewrite (Htarget (s "categories") (d ++ [s "index.html"])).
    + apply Hw. rewrite <- cat_page_path_join. apply (top_in_paths E M T (Some n) d Hd). exact Hn.
    + reflexivity.
    + rewrite forallb_app, (tree_dirs_noslash T Hns d Hd). reflexivity.
    + destruct d; discriminate.
    + rewrite Hcp. apply cat_page_path_join.
  - destruct (deref h r) as [p|] eqn:Hd; [|contradiction].
    destruct (opt_N_eqb (rp_servings p) (rp_native p)) eqn:Heqb; [|contradiction]. apply opt_N_eqb_eq in Heqb.
    destruct Hin as [Heq|[]]. inversion Heq as [[Hs0 Hwp Hflag]]. clear Heq.
    destruct (rp_native p) as [nv|] eqn:Hnat; [|discriminate]. clear Hflag.
    (* the page is stored for a source of the tree *)
    assert (HMn : (1 <= N.to_nat M)%nat) by lia.
    assert (Hsrc : exists src' data mes m k, In (src', data, mes) (asources E T root P true) /\
                     heap_get src' h = Some m /\ In (k, p) m).
    { unfold all_pages in Hpr. cbn [h_scaled h_unscaled] in Hpr. destruct Hpr as [Heq|Hpr]; [discriminate|].
      assert (Htop : exists j ctop, pure_dir E j (Some (N.of_nat (S j))) T root P true = Ok ctop /\ In (PRec r) (cat_pages ctop)).
      { apply in_app_or in Hpr as [Hpr|Hpr].
        - apply in_flat_map in Hpr as ([k ck] & Hk & Hin'). cbn [snd] in Hin'.
          apply (pure_scaled_in E _ _ _ _ _ _ Hsc') in Hk as (j & _ & _ & Hpd). cbn [snd] in Hpd. eauto.
        - exfalso. clear - Hpr Hun Hpre HchP Hdirs0.
          assert (Hno : forall c0, (forall c', In (PCat c') (cat_pages c0) -> cp_servings c' = None) -> ~ In (PRec r) (cat_pages c0)).
          { induction c0 as [t0 pa cpth sv0 d0 ds sd subs recs IH] using cpage_ind'. intros Hall Hin.
            cbn [cat_pages] in Hin. destruct Hin as [Heq|Hin]; [discriminate|].
            apply in_app_or in Hin as [Hin|Hin].
            - apply in_flat_map in Hin as (sc0 & Hsc0 & Hin). rewrite Forall_forall in IH.
              apply (IH sc0 Hsc0); [|exact Hin]. intros c' Hc'. apply Hall.
              cbn [cat_pages]. right. apply in_or_app. left. apply in_flat_map. exists sc0. auto.
            - specialize (Hall _ (or_introl eq_refl)). cbn [cp_servings] in Hall. subst sv0. contradiction. }
          apply (Hno un); [|exact Hpr]. intros c' Hc'.
          destruct (cat_chains E T T (N.to_nat M) None root P true [] un Hun Hpre HchP Hdirs0 c' Hc') as [_ Hs]. exact Hs. }
      destruct Htop as (j & ctop & Hpd & Hinc).
      assert (Hloc : exists c', In (PCat c') (cat_pages ctop) /\ In r (cp_recipes c')).
      { clear - Hinc. induction ctop as [t0 pa cpth sv0 d0 ds sd subs recs IH] using cpage_ind'.
        cbn [cat_pages] in Hinc. destruct Hinc as [Heq|Hinc]; [discriminate|].
        apply in_app_or in Hinc as [Hinc|Hinc].
        - apply in_flat_map in Hinc as (sc0 & Hsc0 & Hinc). rewrite Forall_forall in IH.
          destruct (IH sc0 Hsc0 Hinc) as (c' & H1 & H2). exists c'. split; [|exact H2].
          cbn [cat_pages]. right. apply in_or_app. left. apply in_flat_map. exists sc0. auto.
        - destruct sv0 as [n0|]; [|contradiction]. apply in_map_iff in Hinc as (r0 & Heq & Hr0). inversion Heq; subst r0.
          exists (CPage t0 pa cpth (Some n0) d0 ds sd subs recs). split; [left; reflexivity | exact Hr0]. }
      destruct Hloc as (c' & Hc' & Hr).
      destruct (cat_pages_recs_inv E T j (N.of_nat (S j)) root P true ctop Hpd eq_refl c' r Hc' Hr)
        as (dp' & nd & doc & title & mes & Hin & _ & _ & _ & Hreq & _).
      unfold deref in Hd. rewrite Hreq in Hd. unfold scaled_ref in Hd. cbn [rr_source rr_key] in Hd.
      destruct (heap_get (dp' ++ [fst nd]) h) as [m|] eqn:Hm; [|discriminate].
      apply sc_get_in in Hd. exists (dp' ++ [fst nd]), (snd nd), mes, m. eexists. split; [exact Hin|]. split; [exact Hm | exact Hd]. }
    destruct Hsrc as (src' & data & mes & m & k & Hin & Hm & Hkp).
    destruct (asources_facts E T T root P true [] Hpre HchP Hdirs0 src' data mes Hin) as (x & Hx & Hsrc' & Hdata & Hcp & _).
    rewrite (Hfin src' data mes Hin) in Hm.
    destruct (stored_page E mes src' data (N.to_nat M) m k p Hm Hkp) as [Hps Hcase].
    destruct (stored_page2 mes src' data (N.to_nat M) m k p Hm Hkp) as [Hserv Hnative].
    destruct Hcase as [(i & Hk & Hi & Hpar & Hscal)|(Hk & _ & _)]; [|congruence].
    assert (Hwp' : wp = rec_page_path (serves_name i) (fst (fst x)) (snd (fst x))).
    { rewrite <- Hwp. unfold rpage_path. rewrite Hpar, Hcp, Hps, Hsrc'. unfold cat_page_path at 1.
      rewrite href_parent_index, last_snoc. reflexivity. }
    destruct (tree_recipes_noslash T Hns x Hx) as [H1 H2].
    rewrite Hwp. rewrite (Htarget (serves_name i) (fst (fst x) ++ [stem (snd (fst x)) ++ s ".html"])).
    + apply Hw. rewrite <- rec_page_path_join. apply (rec_in_paths E M T x (Some n) Hx). split; [exact Hn|].
      subst data. exact Hscal.
    + apply serves_noslash.
    + rewrite forallb_app, H1. cbn [forallb]. rewrite noslash_app, (stem_noslash _ H2). reflexivity.
    + destruct (fst (fst x)); discriminate.
    + rewrite Hwp'. apply rec_page_path_join.
Qed.

End AuthorLinks.
