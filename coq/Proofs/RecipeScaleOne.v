(** * Scaling by the int 1 on trees with floats (C03). *)
From Coq Require Import List ZArith Bool.
From RG Require Import Base.Str Base.Num Model.Recipe Proofs.RecipeScale Proofs.RecipeB64.
Import ListNotations.

(** Floats are finite binary64 values in canonical form (what the serialiser
    and every operation of Base/Num.v produce). *)
Definition wf_num (v : num) : Prop := is_float v = true -> wf_float v.

Lemma wf_num_stable v : wf_num v -> float_stable v.
Proof. intros W F. apply nmul_one_float. now apply W. Qed.

Lemma scale_one_eqb t t' :
  Forall wf_num (numbers t) -> scale_node (NInt 1) t = Some t' -> node_eqb t t' = true.
Proof.
  intros H. apply scale_one_stable. eapply Forall_impl; [|exact H]. intros v. apply wf_num_stable.
Qed.

Lemma scale_one_same t t' :
  Forall (fun v => (exact v /\ reduced v) \/ wf_float v) (numbers t) ->
  scale_node (NInt 1) t = Some t' -> t' = t.
Proof.
  intros H. apply scale_one_identity. eapply Forall_impl; [|exact H].
  intros v [A|W]; [left; exact A | right; now apply nmul_one_float].
Qed.
