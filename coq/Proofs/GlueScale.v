(** * Glue for C03: what scaling does to the rendered table.

    Scaling keeps the skeleton of a tree, hence the whole abstract table; the
    node drawn in a cell of the scaled tree is the scaling of the node drawn
    in that cell ([node_at_scale]).  The tag skeleton of the text (Model/HtmlTok.v
    [tag_skeleton]: tag names and attribute NAMES, no values - so ids and link
    targets do not show in it) changes in exactly one way: a number is written
    with [<sup>n</sup>&frasl;<sub>d</sub>] iff its formatted text is a
    fraction, and scaling changes which numbers are fractions.  [strip_frac]
    deletes the [sup] / [sub] tags; up to that the skeleton is invariant.
    (The number of alternative-unit entries depends on the unit only.) *)
From Coq Require Import List ZArith NArith Bool Lia String.
From RG Require Import Base.Str Base.Num Model.Recipe Model.NumFmt Model.Table Model.Layout Model.HtmlTable Model.Units
  Model.Html Model.HtmlTok Model.RenderTree Spec.LayoutSpec
  Proofs.RecipeInd Proofs.HtmlTag Proofs.HtmlCells Proofs.HtmlAlpha Proofs.PipelineWf Proofs.GlueRender.
Import ListNotations.
Local Open Scope N_scope.

(** ** [strip_frac] *)
Definition is_frac_tag (k : skel) : bool :=
  match k with
  | KStart n _ _ => str_eqb n tag_sup || str_eqb n tag_sub
  | KEnd n => str_eqb n tag_sup || str_eqb n tag_sub
  | KError => false
  end.
Definition strip_frac (l : list skel) : list skel := filter (fun k => negb (is_frac_tag k)) l.

Lemma strip_app a b : strip_frac (a ++ b) = strip_frac a ++ strip_frac b.
Proof. apply filter_app. Qed.

Lemma strip_concat l : strip_frac (List.concat l) = List.concat (map strip_frac l).
Proof. induction l as [|x l IH]; simpl; [reflexivity|]. now rewrite strip_app, IH. Qed.

Lemma strip_number v : strip_frac (number_skel v) = [].
Proof.
  unfold number_skel. destruct (format_number v) as [x|]; [|reflexivity].
  unfold num_skel. destruct (fraction_shape x); reflexivity.
Qed.

(** ** Scaled value strings *)
Definition svs_shape (l : svs) : list skel :=
  flat_map (fun p => match p with PStr _ => [] | PNum _ => [KStart tag_span [a_class] false; KEnd tag_span] end) l.

Lemma strip_svs l : strip_frac (svs_skel l) = svs_shape l.
Proof.
  induction l as [|p l IH]; [reflexivity|]. unfold svs_skel, svs_shape in *. cbn [flat_map].
  rewrite strip_app, IH. destruct p as [x|v]; [reflexivity|]. f_equal.
  change (strip_frac (KStart tag_span [a_class] false :: number_skel v ++ [KEnd tag_span]))
    with (KStart tag_span [a_class] false :: strip_frac (number_skel v ++ [KEnd tag_span])).
  now rewrite strip_app, strip_number.
Qed.

Lemma svs_shape_scale k : forall l l', scale_svs k l = Some l' -> svs_shape l' = svs_shape l.
Proof.
  induction l as [|p l IH]; intros l' H; simpl in H.
  - inversion H; reflexivity.
  - destruct p as [x|v].
    + destruct (scale_svs k l) as [r|]; [|discriminate]. inversion H; subst. simpl. now apply IH.
    + destruct (scale_num k v); [|discriminate]. destruct (scale_svs k l) as [r|]; [|discriminate].
      inversion H; subst. unfold svs_shape. cbn [flat_map]. f_equal. now apply IH.
Qed.

Lemma strip_svs_scale k l l' : scale_svs k l = Some l' -> strip_frac (svs_skel l') = strip_frac (svs_skel l).
Proof. intro H. rewrite !strip_svs. now apply (svs_shape_scale k). Qed.

(** ** Quantities: the list of alternative units depends on the unit only *)
Lemma scale_forms_length : forall l v r, scale_forms v l = Units.Ok r -> List.length r = List.length l.
Proof.
  induction l as [|[sc n] l IH]; intros v r H; simpl in H.
  - inversion H; reflexivity.
  - destruct (of_nres (nmul v sc)); [|discriminate]. destruct (scale_forms v l) as [r0|] eqn:E; [|discriminate].
    inversion H; subst. simpl. f_equal. eapply IH; eauto.
Qed.

Lemma alt_forms_length v v' u f f' :
  alt_forms v u = Units.Ok f -> alt_forms v' u = Units.Ok f' -> List.length f = List.length f'.
Proof.
  unfold alt_forms. destruct (iter_conversions_from (py_lower u)) as [ys [e|]].
  - destruct e; intros H H'; try discriminate. inversion H; inversion H'; reflexivity.
  - destruct (scale_forms v (sorted_conversions ys)) as [[|[v0 n0] r]|] eqn:E; try discriminate.
    destruct (scale_forms v' (sorted_conversions ys)) as [[|[v1 n1] r']|] eqn:E'; try discriminate.
    destruct (num_eqb v0 v); [|discriminate]. destruct (num_eqb v1 v'); [|discriminate].
    intros H H'. inversion H; inversion H'; subst. simpl.
    apply scale_forms_length in E, E'. simpl in E, E'. congruence.
Qed.

Definition forms_shape (n : nat) : list skel :=
  match n with
  | O => []
  | S O => span_skel [a_class] []
  | S (S m) => span_skel [a_class; a_tabindex]
                 (KStart tag_ul [a_class] false :: List.concat (repeat (li_skel [] []) (S m)) ++ [KEnd tag_ul])
  end.

Lemma strip_span attrs k : strip_frac (span_skel attrs k) = span_skel attrs (strip_frac k).
Proof.
  unfold span_skel. change (strip_frac (KStart tag_span attrs false :: k ++ [KEnd tag_span]))
    with (KStart tag_span attrs false :: strip_frac (k ++ [KEnd tag_span])). now rewrite strip_app.
Qed.

Lemma strip_li attrs k : strip_frac (li_skel attrs k) = li_skel attrs (strip_frac k).
Proof.
  unfold li_skel. change (strip_frac (KStart tag_li attrs false :: k ++ [KEnd tag_li]))
    with (KStart tag_li attrs false :: strip_frac (k ++ [KEnd tag_li])). now rewrite strip_app.
Qed.

Lemma strip_forms vals : strip_frac (forms_skel vals) = forms_shape (List.length vals).
Proof.
  destruct vals as [|v [|w others]]; [reflexivity| |].
  - cbn [forms_skel List.length forms_shape]. now rewrite strip_span, strip_number.
  - cbn [forms_skel List.length forms_shape]. rewrite strip_span, strip_app, strip_number. cbn [app]. f_equal.
    match goal with |- strip_frac (KStart tag_ul ?a false :: ?x) = _ =>
      change (strip_frac (KStart tag_ul a false :: x)) with (KStart tag_ul a false :: strip_frac x) end.
    f_equal. rewrite strip_app. f_equal. rewrite strip_concat, map_map. f_equal.
    change (S (List.length others)) with (List.length (w :: others)).
    generalize (w :: others). intro l. induction l as [|y l IH]; [reflexivity|].
    cbn [map List.length repeat]. rewrite strip_li, strip_number. f_equal. exact IH.
Qed.

Definition quantity_ok (q : quantity) : Prop :=
  match q_unit q with None => True | Some u => exists f, alt_forms (q_value q) u = Units.Ok f end.

Lemma render_quantity_ok q x : render_quantity q = Units.Ok x -> quantity_ok q.
Proof.
  unfold render_quantity, quantity_ok. destruct (q_unit q) as [u|]; [|trivial].
  destruct (alt_forms (q_value q) u) as [f|]; [eauto|discriminate].
Qed.

Lemma strip_quantity_scale k q q' : scale_quantity k q = Some q' -> quantity_ok q -> quantity_ok q' ->
  strip_frac (quantity_skel q') = strip_frac (quantity_skel q).
Proof.
  unfold scale_quantity. destruct (scale_num k (q_value q)) as [v'|]; [|discriminate].
  intro H. inversion H; subst q'. unfold quantity_ok, quantity_skel. cbn [q_unit q_value].
  destruct (q_unit q) as [u|].
  - intros (f & Ef) (f' & Ef'). rewrite Ef, Ef', !strip_forms, !map_length.
    now rewrite (alt_forms_length _ _ _ _ _ Ef Ef').
  - intros _ _. now rewrite !strip_span, !strip_number.
Qed.

Definition amount_ok (a : amount) : Prop := match a with AQty q => quantity_ok q | AProp _ => True end.

Lemma strip_amount_scale k a a' : scale_amount k a = Some a' -> amount_ok a -> amount_ok a' ->
  strip_frac (amount_skel a') = strip_frac (amount_skel a).
Proof.
  destruct a as [q|p]; simpl.
  - destruct (scale_quantity k q) as [q'|] eqn:E; [|discriminate]. intro H. inversion H; subst. simpl.
    now apply (strip_quantity_scale k).
  - intro H. inversion H; reflexivity.
Qed.

Definition value_ok (v : node) : Prop :=
  match v with
  | Ingredient _ (Some q) => quantity_ok q
  | Reference _ _ a => amount_ok a
  | _ => True
  end.

Lemma render_cell_body_value_ok v p r : render_cell_body v p = Units.Ok r -> value_ok v.
Proof.
  destruct v as [d q|d ins|sr i a|b ns sh]; cbn [render_cell_body value_ok]; try trivial.
  - destruct q as [q0|]; [|trivial]. unfold render_ingredient.
    destruct (render_quantity q0) as [x|] eqn:E; [|discriminate]. intros _. eapply render_quantity_ok; eauto.
  - destruct a as [q|pr]; [|intros; exact I]. unfold render_reference. cbn [amount_ok].
    destruct (render_quantity q) as [x|] eqn:E; [|discriminate]. intros _. eapply render_quantity_ok; eauto.
Qed.

Lemma map_opt_nth {A B} (f : A -> option B) : forall l l' i, map_opt f l = Some l' ->
  match nth_error l i, nth_error l' i with
  | Some x, Some y => f x = Some y
  | None, None => True
  | _, _ => False
  end.
Proof.
  induction l as [|x l IH]; intros l' i H; simpl in H.
  - inversion H; subst. destruct i; exact I.
  - destruct (f x) as [y|] eqn:E; [|discriminate]. destruct (map_opt f l) as [r|] eqn:Er; [|discriminate].
    inversion H; subst. destruct i; simpl; [exact E|]. now apply IH.
Qed.

Lemma strip_outputs_scale k : forall ns ns', map_opt (scale_svs k) ns = Some ns' ->
  List.concat (map (fun nm => strip_frac (li_skel [a_id] (svs_skel nm))) ns')
  = List.concat (map (fun nm => strip_frac (li_skel [a_id] (svs_skel nm))) ns).
Proof.
  induction ns as [|n ns IH]; intros ns' H; simpl in H.
  - inversion H; reflexivity.
  - destruct (scale_svs k n) as [n'|] eqn:E; [|discriminate].
    destruct (map_opt (scale_svs k) ns) as [r|]; [|discriminate]. inversion H; subst. cbn [map List.concat].
    rewrite !strip_li, (strip_svs_scale k n n' E). f_equal. now apply IH.
Qed.

Lemma strip_cons_keep x l : is_frac_tag x = false -> strip_frac (x :: l) = x :: strip_frac l.
Proof. intro H. unfold strip_frac. cbn [filter]. now rewrite H. Qed.

(** The body of a cell: invariant up to the fraction tags. *)
Lemma body_skel_scale k v v' : scale_node k v = Some v' -> value_ok v -> value_ok v' ->
  strip_frac (cell_body_skel v') = strip_frac (cell_body_skel v).
Proof.
  destruct v as [d q|d ins|sr i a|b ns sh]; intro H.
  - simpl in H. destruct (scale_svs k d) as [d'|] eqn:Ed; [|discriminate]. destruct q as [q0|].
    + destruct (scale_quantity k q0) as [q'|] eqn:Eq; [|discriminate]. inversion H; subst. simpl.
      intros Hq Hq'. unfold ingredient_skel. rewrite !strip_app, (strip_svs_scale k d d' Ed).
      f_equal. now apply (strip_quantity_scale k).
    + inversion H; subst. intros _ _. simpl. unfold ingredient_skel. cbn [app]. now apply (strip_svs_scale k).
  - rewrite scale_node_Step in H. destruct (scale_svs k d) as [d'|] eqn:Ed; [|discriminate].
    destruct (map_opt (scale_node k) ins); [|discriminate]. inversion H; subst. intros _ _. simpl.
    now apply (strip_svs_scale k).
  - simpl in H. destruct (scale_node k sr) as [sr'|] eqn:Es; [|discriminate].
    destruct (scale_amount k a) as [a'|] eqn:Ea; [|discriminate]. inversion H; subst. cbn [value_ok]. intros Ha Ha'.
    destruct sr as [| | |sb names ssh]; simpl in Es.
    + destruct (scale_svs k d); [|discriminate]. destruct q; [destruct (scale_quantity k q)|]; inversion Es; reflexivity.
    + destruct (scale_svs k d); [|discriminate].
      match type of Es with match ?x with _ => _ end = _ => destruct x end; inversion Es; reflexivity.
    + destruct (scale_node k sr); [|discriminate]. destruct (scale_amount k amt); inversion Es; reflexivity.
    + destruct (scale_node k sb); [|discriminate].
      destruct (map_opt (scale_svs k) names) as [names'|] eqn:En; [|discriminate]. inversion Es; subst.
      cbn [cell_body_skel reference_skel].
      pose proof (map_opt_nth _ _ _ i En) as Hn.
      destruct (nth_error names i) as [nm|], (nth_error names' i) as [nm'|]; try contradiction; [|reflexivity].
      rewrite !(strip_cons_keep (KStart tag_a [a_href] false)) by reflexivity. f_equal.
      rewrite !strip_app. f_equal.
      rewrite (strip_amount_scale k a a' Ea Ha Ha'), (strip_svs_scale k nm nm' Hn). reflexivity.
  - simpl in H. destruct (scale_node k b) as [b'|]; [|discriminate].
    destruct (map_opt (scale_svs k) ns) as [ns'|] eqn:En; [|discriminate]. inversion H; subst. intros _ _.
    pose proof (map_opt_length _ _ _ En) as Hl.
    destruct ns as [|n1 [|n2 r]], ns' as [|m1 [|m2 r']]; try discriminate.
    + reflexivity.
    + simpl in En. destruct (scale_svs k n1) as [x|] eqn:E1; [|discriminate]. inversion En; subst.
      simpl. now apply (strip_svs_scale k).
    + cbn [cell_body_skel]. unfold outputs_skel.
      rewrite !(strip_cons_keep (KStart tag_ul [a_class] false)) by reflexivity.
      rewrite !strip_app, !strip_concat, !map_map. f_equal. f_equal.
      exact (strip_outputs_scale k _ _ En).
Qed.

(** ** The node drawn in a cell of the scaled tree *)
Lemma node_at_scale k : forall p t t' v, scale_node k t = Some t' -> node_at t p = Some v ->
  exists v', node_at t' p = Some v' /\ scale_node k v = Some v'.
Proof.
  induction p as [|i p IH]; intros t t' v Hs Hn; simpl in Hn.
  - inversion Hn; subst. exists t'. split; [reflexivity|exact Hs].
  - destruct t as [d q|d ins|sr ix a|b ns sh]; try discriminate.
    + rewrite scale_node_Step in Hs. destruct (scale_svs k d); [|discriminate].
      destruct (map_opt (scale_node k) ins) as [ins'|] eqn:Em; [|discriminate]. inversion Hs; subst.
      pose proof (map_opt_nth _ _ _ i Em) as Hi. simpl.
      destruct (nth_error ins i) as [x|]; [|discriminate]. destruct (nth_error ins' i) as [x'|]; [|contradiction].
      eapply IH; eauto.
    + destruct i; [|discriminate]. simpl in Hs. destruct (scale_node k b) as [b'|] eqn:Eb; [|discriminate].
      destruct (map_opt (scale_svs k) ns); [|discriminate]. inversion Hs; subst. simpl. eapply IH; eauto.
Qed.

Lemma kind_of_node_scale k v v' : scale_node k v = Some v' -> kind_of_node v' = kind_of_node v.
Proof.
  destruct v as [d q|d ins|sr i a|b ns sh]; intro H.
  - simpl in H. destruct (scale_svs k d); [|discriminate].
    destruct q as [q0|]; [destruct (scale_quantity k q0); [|discriminate]|]; inversion H; reflexivity.
  - rewrite scale_node_Step in H. destruct (scale_svs k d); [|discriminate].
    destruct (map_opt (scale_node k) ins); inversion H; reflexivity.
  - simpl in H. destruct (scale_node k sr); [|discriminate]. destruct (scale_amount k a); inversion H; reflexivity.
  - simpl in H. destruct (scale_node k b); [|discriminate].
    destruct (map_opt (scale_svs k) ns) as [ns'|] eqn:En; [|discriminate]. inversion H; subst.
    pose proof (map_opt_length _ _ _ En) as Hl.
    destruct ns as [|n1 [|n2 r]], ns' as [|m1 [|m2 r']]; try discriminate; reflexivity.
Qed.

(** The cell [hc'] of the scaled tree against the cell [hc] of the tree, in the same slot. *)
Definition cell_scaled (k : num) (hc hc' : hcell) : Prop :=
  scale_node k (hc_value hc) = Some (hc_value hc') /\
  hc_rows hc' = hc_rows hc /\ hc_cols hc' = hc_cols hc /\
  hc_left hc' = hc_left hc /\ hc_right hc' = hc_right hc /\ hc_top hc' = hc_top hc /\ hc_bottom hc' = hc_bottom hc.

Lemma hcell_for_scaled k t t' c hc hc' : scale_node k t = Some t' ->
  hcell_for t c hc -> hcell_for t' c hc' -> cell_scaled k hc hc'.
Proof.
  intros Hs (Hn & _ & H1 & H2 & H3 & H4 & H5 & H6) (Hn' & _ & H1' & H2' & H3' & H4' & H5' & H6').
  destruct (node_at_scale k _ _ _ _ Hs Hn) as (v' & Ev & Hv). rewrite Hn' in Ev. inversion Ev; subst v'.
  unfold cell_scaled. repeat split; congruence.
Qed.

Lemma Forall2_common {A B C} (R : A -> B -> Prop) (S : A -> C -> Prop) (P : B -> C -> Prop) :
  (forall a b c, R a b -> S a c -> P b c) ->
  forall l lb lc, Forall2 R l lb -> Forall2 S l lc -> Forall2 P lb lc.
Proof.
  intros H l lb lc HR. revert lc. induction HR as [|a b l lb Hab _ IH]; intros lc HS; inversion HS; subst; constructor; eauto.
Qed.

Lemma rows_scaled k t t' tb rows rows' : scale_node k t = Some t' ->
  rows_for t tb rows -> rows_for t' tb rows' -> Forall2 (Forall2 (cell_scaled k)) rows rows'.
Proof.
  intros Hs Hr Hr'. unfold rows_for in *.
  eapply (Forall2_common _ _ _ _ _ _ _ Hr Hr'). Unshelve.
  intros r hs hs' H1 H2. eapply (Forall2_common _ _ _ _ _ _ _ H1 H2). Unshelve.
  intros c hc hc'. now apply (hcell_for_scaled k t t').
Qed.

Lemma span_attrs_scaled k hc hc' : cell_scaled k hc hc' -> Html.span_attrs hc' = Html.span_attrs hc.
Proof. intros (_ & Hr & Hc & _). unfold Html.span_attrs. now rewrite Hr, Hc. Qed.

(** Same class attribute, same span attributes; only the body differs. *)
Lemma td_scaled k hc hc' p x x' : cell_scaled k hc hc' ->
  Html.render_cell hc p = Units.Ok x -> Html.render_cell hc' p = Units.Ok x' ->
  exists cls body body',
    x = Html.t (s "td") (Some body) ((s "class_", cls) :: Html.span_attrs hc) /\
    x' = Html.t (s "td") (Some body') ((s "class_", cls) :: Html.span_attrs hc) /\
    value_ok (hc_value hc) /\ value_ok (hc_value hc').
Proof.
  intros Hc H H'. pose proof (span_attrs_scaled k hc hc' Hc) as Hsp.
  destruct Hc as (Hv & _ & _ & Hl & Hr & Ht & Hb). unfold Html.render_cell in *.
  destruct (render_cell_body (hc_value hc) p) as [[kd body]|] eqn:E; [|discriminate].
  destruct (render_cell_body (hc_value hc') p) as [[kd' body']|] eqn:E'; [|discriminate].
  pose proof (render_cell_body_kind _ _ _ _ E) as ->. pose proof (render_cell_body_kind _ _ _ _ E') as ->.
  rewrite (kind_of_node_scale k _ _ Hv), Hl, Hr, Ht, Hb, Hsp in H'. inversion H; inversion H'; subst.
  eexists _, body, body'. split; [reflexivity|]. split; [reflexivity|].
  split; eapply render_cell_body_value_ok; eauto.
Qed.

(** ** The two texts *)
Lemma table_id_none t p id : table_id t p = Units.Ok id -> (id = None <-> kind_of_node t <> KHeader).
Proof.
  unfold table_id. destruct t as [d q|d ins|sr i a|b ns sh]; try (intro H; inversion H; subst; split; [discriminate|reflexivity]).
  destruct ns as [|n1 [|n2 r]]; try (intro H; inversion H; subst; split; [discriminate|reflexivity]).
  destruct (generate_subrecipe_output_id [n1] 0 p); [|discriminate]. intro H; inversion H; subst. simpl.
  split; [discriminate|intro C; now elim C].
Qed.

Lemma table_id_scale k t t' p id id' : scale_node k t = Some t' ->
  table_id t p = Units.Ok id -> table_id t' p = Units.Ok id' -> (id = None <-> id' = None).
Proof.
  intros Hs H H'. pose proof (kind_of_node_scale k t t' Hs) as Hk.
  rewrite (table_id_none t p id H), (table_id_none t' p id' H'), Hk. reflexivity.
Qed.

Theorem scaled_render_structure k t t' prefix h h' :
  wf (ltree_of_node t) = true -> scale_node k t = Some t' ->
  render_recipe_tree_model t prefix = TOk h -> render_recipe_tree_model t' prefix = TOk h' ->
  let tb := spec_table (ltree_of_node t) in
  exists rows rows' tds tds' id id',
    spec_table (ltree_of_node t') = tb /\
    rows_for t tb rows /\ rows_for t' tb rows' /\
    Forall2 (Forall2 (cell_scaled k)) rows rows' /\
    Forall2 (Forall2 (fun hc x => Html.render_cell hc prefix = Units.Ok x)) rows tds /\
    Forall2 (Forall2 (fun hc x => Html.render_cell hc prefix = Units.Ok x)) rows' tds' /\
    table_id t prefix = Units.Ok id /\ table_id t' prefix = Units.Ok id' /\
    h = table_text tds id /\ h' = table_text tds' id' /\ (id = None <-> id' = None).
Proof.
  intros Hwf Hs H H' tb.
  pose proof (scale_node_skeleton k t t' Hs) as Hsk.
  assert (Hwf' : wf (ltree_of_node t') = true) by now rewrite Hsk.
  destruct (render_structure t prefix h Hwf H) as (rows & tds & id & _ & _ & Hr & Hid & HF & Hh & _).
  destruct (render_structure t' prefix h' Hwf' H') as (rows' & tds' & id' & _ & _ & Hr' & Hid' & HF' & Hh' & _).
  rewrite Hsk in Hr'. fold tb in Hr, Hr'.
  exists rows, rows', tds, tds', id, id'. split; [now rewrite Hsk|].
  repeat (split; [assumption|]). split; [now apply (rows_scaled k t t' tb)|].
  repeat (split; [assumption|]). exact (table_id_scale k t t' prefix id id' Hs Hid Hid').
Qed.

Lemma cell_skel_scaled k hc hc' : cell_scaled k hc hc' -> value_ok (hc_value hc) -> value_ok (hc_value hc') ->
  strip_frac (cell_skel hc') = strip_frac (cell_skel hc).
Proof.
  intros (Hv & Hr & Hc & _) Ho Ho'. unfold cell_skel.
  assert (Hn : span_attr_names hc' = span_attr_names hc) by (unfold span_attr_names; now rewrite Hr, Hc).
  rewrite Hn, !(strip_cons_keep (KStart tag_td _ false)) by reflexivity.
  rewrite !strip_app, (body_skel_scale k _ _ Hv Ho Ho'). reflexivity.
Qed.

Lemma cells_skel_scaled k p : forall hs hs' xs xs', Forall2 (cell_scaled k) hs hs' ->
  Forall2 (fun hc x => Html.render_cell hc p = Units.Ok x) hs xs ->
  Forall2 (fun hc x => Html.render_cell hc p = Units.Ok x) hs' xs' ->
  strip_frac (List.concat (map cell_skel hs')) = strip_frac (List.concat (map cell_skel hs)).
Proof.
  intros hs hs' xs xs' HF. revert xs xs'.
  induction HF as [|hc hc' hs hs' Hc _ IH]; intros xs xs' H1 H2; [reflexivity|].
  inversion H1 as [|? x ? xr Hx Hxr]; inversion H2 as [|? x' ? xr' Hx' Hxr']; subst.
  destruct (td_scaled k hc hc' p x x' Hc Hx Hx') as (_ & _ & _ & _ & _ & Ho & Ho').
  cbn [map List.concat]. rewrite !strip_app, (cell_skel_scaled k hc hc' Hc Ho Ho'). f_equal. eapply IH; eauto.
Qed.

Lemma rows_skel_scaled k p : forall rows rows' tds tds', Forall2 (Forall2 (cell_scaled k)) rows rows' ->
  Forall2 (Forall2 (fun hc x => Html.render_cell hc p = Units.Ok x)) rows tds ->
  Forall2 (Forall2 (fun hc x => Html.render_cell hc p = Units.Ok x)) rows' tds' ->
  strip_frac (List.concat (map row_skel rows')) = strip_frac (List.concat (map row_skel rows)).
Proof.
  intros rows rows' tds tds' HF. revert tds tds'.
  induction HF as [|hs hs' rows rows' Hc _ IH]; intros tds tds' H1 H2; [reflexivity|].
  inversion H1 as [|? x ? xr Hx Hxr]; inversion H2 as [|? x' ? xr' Hx' Hxr']; subst.
  cbn [map List.concat]. rewrite !strip_app. f_equal; [|eapply IH; eauto].
  unfold row_skel. rewrite !(strip_cons_keep (KStart tag_tr [] false)) by reflexivity. f_equal.
  rewrite !strip_app. f_equal. eapply cells_skel_scaled; eauto.
Qed.

(** (ii) The skeleton of the whole text is invariant under scaling up to the
    [sup] / [sub] tags of numbers written as fractions. *)
Theorem scaled_render_skeleton k t t' prefix h h' :
  val_ok prefix -> wf (ltree_of_node t) = true -> scale_node k t = Some t' ->
  render_recipe_tree_model t prefix = TOk h -> render_recipe_tree_model t' prefix = TOk h' ->
  strip_frac (tag_skeleton (tokenize h')) = strip_frac (tag_skeleton (tokenize h)).
Proof.
  intros Hp Hwf Hs H H'.
  destruct (scaled_render_structure k t t' prefix h h' Hwf Hs H H')
    as (rows & rows' & tds & tds' & id & id' & _ & _ & _ & HS & HF & HF' & Hid & Hid' & -> & -> & Hii).
  rewrite (Good_tokenize _ _ (Good_table prefix rows tds id Hp (table_id_val_ok t prefix id Hp Hid) HF)).
  rewrite (Good_tokenize _ _ (Good_table prefix rows' tds' id' Hp (table_id_val_ok t' prefix id' Hp Hid') HF')).
  unfold table_skel.
  assert (Ha : match id' with Some _ => [s "id"] | None => [] end
             = match id with Some _ => [s "id"] | None => @nil str end).
  { destruct id, id'; try reflexivity; destruct Hii as [A B]; [discriminate (B eq_refl)|discriminate (A eq_refl)]. }
  rewrite Ha, !(strip_cons_keep (KStart tag_table _ false)) by reflexivity. f_equal.
  rewrite !strip_app. f_equal. eapply rows_skel_scaled; eauto.
Qed.

(** (iii) Every [<td>] of the scaled tree's text shows the SCALED node drawn in its cell. *)
Theorem scaled_cells_inert k t t' prefix h' :
  val_ok prefix -> wf (ltree_of_node t) = true -> scale_node k t = Some t' ->
  render_recipe_tree_model t' prefix = TOk h' ->
  exists rows' tds' id',
    rows_for t' (spec_table (ltree_of_node t)) rows' /\ h' = table_text tds' id' /\
    Forall2 (Forall2 td_inert) rows' tds'.
Proof.
  intros Hp Hwf Hs H'. pose proof (scale_node_skeleton k t t' Hs) as Hsk.
  assert (Hwf' : wf (ltree_of_node t') = true) by now rewrite Hsk.
  destruct (render_cells_inert t' prefix h' Hp Hwf' H') as (rows' & tds' & id' & Hr & Hh & HI).
  rewrite Hsk in Hr. eauto 8.
Qed.

(** ** Compiled trees *)
From RG Require Import Model.Compiler Model.Parser.

Section Compiled.
  Variable convert : str -> str -> option num.
  Variable tol : Z * positive.
  Variable lower : str -> str.
  Variable p : list (list astmt).
  Variable bs : list (list node).
  Hypothesis Hp : ast_steps_nonempty p = true.
  Hypothesis Hc : compile_ast convert tol lower p = COk bs.

  Theorem compiled_scaled_structure trees t k t' prefix h h' :
    In trees bs -> In t trees -> scale_node k t = Some t' ->
    render_recipe_tree_model t prefix = TOk h -> render_recipe_tree_model t' prefix = TOk h' ->
    let tb := spec_table (ltree_of_node t) in
    exists rows rows' tds tds' id id',
      spec_table (ltree_of_node t') = tb /\
      rows_for t tb rows /\ rows_for t' tb rows' /\
      Forall2 (Forall2 (cell_scaled k)) rows rows' /\
      Forall2 (Forall2 (fun hc x => Html.render_cell hc prefix = Units.Ok x)) rows tds /\
      Forall2 (Forall2 (fun hc x => Html.render_cell hc prefix = Units.Ok x)) rows' tds' /\
      table_id t prefix = Units.Ok id /\ table_id t' prefix = Units.Ok id' /\
      h = table_text tds id /\ h' = table_text tds' id' /\ (id = None <-> id' = None).
  Proof.
    intros Hb Ht. apply scaled_render_structure. eapply compile_output_wf; eauto.
  Qed.

  Theorem compiled_scaled_skeleton trees t k t' prefix h h' :
    val_ok prefix -> In trees bs -> In t trees -> scale_node k t = Some t' ->
    render_recipe_tree_model t prefix = TOk h -> render_recipe_tree_model t' prefix = TOk h' ->
    strip_frac (tag_skeleton (tokenize h')) = strip_frac (tag_skeleton (tokenize h)).
  Proof.
    intros Hv Hb Ht. apply scaled_render_skeleton; [exact Hv|]. eapply compile_output_wf; eauto.
  Qed.

  Theorem compiled_scaled_cells trees t k t' prefix h' :
    val_ok prefix -> In trees bs -> In t trees -> scale_node k t = Some t' ->
    render_recipe_tree_model t' prefix = TOk h' ->
    exists rows' tds' id',
      rows_for t' (spec_table (ltree_of_node t)) rows' /\ h' = table_text tds' id' /\
      Forall2 (Forall2 td_inert) rows' tds'.
  Proof.
    intros Hv Hb Ht. apply scaled_cells_inert; [exact Hv|]. eapply compile_output_wf; eauto.
  Qed.
End Compiled.

(** The trees of [scale_blocks k bs] are the scalings of the trees of [bs], position by position. *)
Lemma scale_blocks_trees k bs bs' : scale_blocks k bs = Some bs' ->
  forall b j trees' t', nth_error bs' b = Some trees' -> nth_error trees' j = Some t' ->
  exists trees t, nth_error bs b = Some trees /\ nth_error trees j = Some t /\ scale_node k t = Some t'.
Proof.
  intros H b j trees' t' Hb Hj. unfold scale_blocks in H.
  pose proof (map_opt_nth _ _ _ b H) as Hn. rewrite Hb in Hn.
  destruct (nth_error bs b) as [trees|] eqn:Eb; [|contradiction].
  pose proof (map_opt_nth _ _ _ j Hn) as Hm. rewrite Hj in Hm.
  destruct (nth_error trees j) as [t|] eqn:Ej; [|contradiction]. exists trees, t. repeat split; auto.
Qed.
