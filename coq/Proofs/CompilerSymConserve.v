(** * Symbolic compilation, part 8: folding conserves what was written.
    The multiset of ingredient and step nodes of the symbolic forest (nothing
    hides behind a symbolic reference) is the same before and after folding. *)
From Coq Require Import List ZArith NArith Bool Lia Permutation.
From RG Require Import Base.Str Base.Num Model.Recipe Model.Compiler Spec.Valid Spec.CompileSpec Spec.CompileSym
  Proofs.RecipeInd Proofs.NodeEqv Proofs.CompilerInvSize Proofs.CompilerSymDefs Proofs.CompilerSymCount.
Import ListNotations.
Local Open Scope nat_scope.

Inductive label := LIng (d : svs) (q : option quantity) | LStep (d : svs).

Fixpoint ynodes (t : sym) {struct t} : list label :=
  match t with
  | YIng d q => [LIng d q]
  | YStep d ins => LStep d :: flat_map ynodes ins
  | YRef _ _ _ => []
  | YSub b _ _ => ynodes b
  end.
Definition rnodes (rs : list sroot) : list label := flat_map (fun r => ynodes (r_tree r)) rs.
Definition fnodes (F : forest) : list label := rnodes (concat F).

Definition copies {A} (n : nat) (l : list A) : list A := concat (repeat l n).

Lemma copies_add {A} a b (l : list A) : copies (a + b) l = copies a l ++ copies b l.
Proof. unfold copies. rewrite repeat_app, concat_app. reflexivity. Qed.

Lemma perm_shuffle {A} (a ra b rb : list A) : Permutation ((a ++ ra) ++ (b ++ rb)) ((a ++ b) ++ (ra ++ rb)).
Proof.
  rewrite <- !app_assoc. apply Permutation_app_head.
  rewrite !app_assoc. apply Permutation_app_tail. apply Permutation_app_comm.
Qed.

Lemma ynodes_graft k new : forall t,
  Permutation (ynodes (y_graft k new t)) (ynodes t ++ copies (y_count k t) (ynodes new)).
Proof.
  induction t as [d q0|d ins IH|q i a|b ns sh IH] using sym_ind'; simpl.
  - apply Permutation_refl.
  - apply perm_skip. change (fold_right (fun x n => y_count k x + n) 0 ins) with (sum_count k ins).
    rewrite Forall_forall in IH. induction ins as [|x l IHl]; simpl; [apply Permutation_refl|].
    rewrite copies_add. eapply Permutation_trans; [|apply perm_shuffle].
    apply Permutation_app; [apply IH; left; reflexivity | apply IHl; intros; apply IH; right; assumption].
  - destruct (svs_eqb q k); simpl; [unfold copies; simpl; rewrite app_nil_r|]; apply Permutation_refl.
  - exact IH.
Qed.

Lemma rnodes_groots k new rs :
  Permutation (rnodes (map (groot k new) rs)) (rnodes rs ++ copies (count_in k rs) (ynodes new)).
Proof.
  induction rs as [|r rs IH]; [apply Permutation_refl|].
  rewrite count_in_cons, copies_add.
  change (rnodes (map (groot k new) (r :: rs)))
    with (ynodes (y_graft k new (r_tree r)) ++ rnodes (map (groot k new) rs)).
  change (rnodes (r :: rs)) with (ynodes (r_tree r) ++ rnodes rs).
  eapply Permutation_trans; [|apply perm_shuffle].
  apply Permutation_app; [apply ynodes_graft | exact IH].
Qed.

Lemma rnodes_app a b : rnodes (a ++ b) = rnodes a ++ rnodes b.
Proof. apply flat_map_app. Qed.

Lemma rnodes_insert la r lb : Permutation (rnodes (la ++ r :: lb)) (rnodes (la ++ lb) ++ ynodes (r_tree r)).
Proof.
  rewrite !rnodes_app. simpl. rewrite <- app_assoc. apply Permutation_app_head. apply Permutation_app_comm.
Qed.
