(** * Tilings and the table operations of renderer/table.py (C02, C04).

    Under [Tiling] every operation of Model/Table.v succeeds and equals a purely
    arithmetic function on the cell list ([pad_spec], [border_spec], stacking by
    [shift]); the "right-most / edge cell found through the grid's back
    references" is the cell whose far end touches the table's edge. *)
From Coq Require Import List Arith NArith Bool Lia ZifyBool.
From RG Require Import Model.Table Spec.LayoutSpec.
Import ListNotations.
Local Open Scope N_scope.

(** ** [nseq] *)
Lemma in_nseq n x : In x (nseq n) <-> x < n.
Proof.
  unfold nseq. rewrite in_map_iff. split.
  - intros (k & Hk & Hin). apply in_seq in Hin. lia.
  - intros H. exists (N.to_nat x). split; [lia|]. apply in_seq. lia.
Qed.

(** ** Entries *)
Lemma entry_eta (e : entry) : (e_row e, e_col e, e_cell e) = e.
Proof. destruct e as [[a b] x]. reflexivity. Qed.

Lemma e_key_eq (e : entry) : e_key e = (e_row e, e_col e).
Proof. destruct e as [[a b] x]. reflexivity. Qed.

Lemma key_eqb_eq a b : key_eqb a b = true <-> a = b.
Proof.
  destruct a as [a1 a2], b as [b1 b2]. unfold key_eqb; simpl. split.
  - intros H. f_equal; lia.
  - intros H. inversion H; subst. lia.
Qed.

Lemma key_mem_map {A} k (g : A -> N * N) xs :
  key_mem k (map g xs) = true <-> exists x, In x xs /\ g x = k.
Proof.
  unfold key_mem. rewrite existsb_exists. split.
  - intros (y & Hin & Heq). apply in_map_iff in Hin as (x & <- & Hx).
    apply key_eqb_eq in Heq. eauto.
  - intros (x & Hx & Hg). exists (g x). split; [apply in_map; assumption|].
    apply key_eqb_eq. auto.
Qed.

(** ** Coverage counts *)
Lemma count_cover_app l1 l2 r c :
  count_cover (l1 ++ l2) r c = (count_cover l1 r c + count_cover l2 r c)%nat.
Proof. unfold count_cover. rewrite filter_app, app_length. reflexivity. Qed.

Lemma count_cover_cons e l r c :
  count_cover (e :: l) r c = ((if covers e r c then 1 else 0) + count_cover l r c)%nat.
Proof. unfold count_cover; simpl. destruct (covers e r c); reflexivity. Qed.

Lemma count_cover_nil r c : count_cover [] r c = 0%nat.
Proof. reflexivity. Qed.

Lemma count_row_col l r c : col_count (row_entries l r) c = count_cover l r c.
Proof.
  unfold col_count, row_entries, count_cover, covers.
  induction l as [|e l IH]; simpl; [reflexivity|].
  destruct (covers_row e r); simpl; [|exact IH].
  destruct (covers_col e c); simpl; [f_equal|]; exact IH.
Qed.

Lemma count_zero l r c :
  (forall e, In e l -> covers e r c = false) -> count_cover l r c = 0%nat.
Proof.
  induction l as [|e l IH]; intros H; [reflexivity|].
  rewrite count_cover_cons, (H e (or_introl eq_refl)), IH; [reflexivity|].
  intros e' He'. apply H. right; assumption.
Qed.

Lemma count_map_ext (f : entry -> entry) l r c r' c' :
  (forall e, In e l -> covers (f e) r c = covers e r' c') ->
  count_cover (map f l) r c = count_cover l r' c'.
Proof.
  induction l as [|e l IH]; intros H; [reflexivity|].
  simpl map. rewrite !count_cover_cons, (H e (or_introl eq_refl)), IH; [reflexivity|].
  intros e' He'. apply H. right; assumption.
Qed.

Lemma cover_exists l r c :
  count_cover l r c = 1%nat -> exists e, In e l /\ covers e r c = true.
Proof.
  unfold count_cover. intros H.
  destruct (filter (fun e => covers e r c) l) as [|e f] eqn:E; [discriminate|].
  assert (Hin : In e (filter (fun e => covers e r c) l)) by (rewrite E; left; reflexivity).
  apply filter_In in Hin. exists e. exact Hin.
Qed.

Lemma cover_unique l r c e e' :
  count_cover l r c = 1%nat -> In e l -> In e' l ->
  covers e r c = true -> covers e' r c = true -> e = e'.
Proof.
  unfold count_cover. intros H He He' Hc Hc'.
  assert (H1 : In e (filter (fun e => covers e r c) l)) by (apply filter_In; auto).
  assert (H2 : In e' (filter (fun e => covers e r c) l)) by (apply filter_In; auto).
  destruct (filter (fun e => covers e r c) l) as [|x [|y f]]; try discriminate.
  destruct H1 as [<-|[]], H2 as [<-|[]]. reflexivity.
Qed.

Lemma covers_bounds R C e r c :
  in_bounds R C e -> covers e r c = true -> r < R /\ c < C.
Proof. unfold in_bounds, covers, covers_row, covers_col. lia. Qed.

Lemma covers_origin R C e : in_bounds R C e -> covers e (e_row e) (e_col e) = true.
Proof. unfold in_bounds, covers, covers_row, covers_col. lia. Qed.

Lemma count_outside R C l r c :
  (forall e, In e l -> in_bounds R C e) -> (R <= r \/ C <= c) -> count_cover l r c = 0%nat.
Proof.
  intros Hb Hout. apply count_zero. intros e He. specialize (Hb e He).
  destruct (covers e r c) eqn:E; [|reflexivity].
  apply (covers_bounds R C) in E; [lia|assumption].
Qed.

(** ** Looking a slot up *)
Lemma lookup_cover l r c :
  count_cover l r c = 1%nat ->
  exists e, lookup l r c = Some e /\ In e l /\ covers e r c = true.
Proof.
  intros H. unfold lookup. destruct (find (fun e => covers e r c) l) as [e|] eqn:E.
  - apply find_some in E. exists e. tauto.
  - apply cover_exists in H as (e & He & Hc).
    pose proof (find_none _ _ E e He) as Hn. simpl in Hn. congruence.
Qed.

Definition okey (l : list entry) (r c : N) : N * N :=
  match lookup l r c with Some e => e_key e | None => (0, 0) end.

Lemma to_cell_coord_cover R C l r c :
  count_cover l r c = 1%nat -> to_cell_coord (mkTable R C l) r c = Some (okey l r c).
Proof.
  intros H. destruct (lookup_cover l r c H) as (e & Hl & _ & Hc).
  unfold to_cell_coord, grid, okey; simpl. rewrite Hl, e_key_eq.
  unfold covers, covers_row, covers_col in Hc.
  destruct ((e_row e =? r) && (e_col e =? c)) eqn:E; f_equal; f_equal; lia.
Qed.

Lemma rightmost_coord_eq t row : rightmost_coord t row = to_cell_coord t row (t_cols t - 1).
Proof.
  unfold rightmost_coord, to_cell_coord.
  destruct (grid t row (t_cols t - 1)) as [[x|x dr dc]|]; try reflexivity.
  f_equal. f_equal. lia.
Qed.

Lemma map_opt'_map {A B} (f : A -> option B) (g : A -> B) l :
  (forall x, In x l -> f x = Some (g x)) -> map_opt' f l = Some (map g l).
Proof.
  induction l as [|x l IH]; intros H; [reflexivity|].
  simpl. rewrite (H x (or_introl eq_refl)), IH; [reflexivity|].
  intros y Hy. apply H. right; assumption.
Qed.

(** ** Tilings *)
Lemma tiling_count R C l r c : Tiling R C l -> r < R -> c < C -> count_cover l r c = 1%nat.
Proof. intros [_ H]. apply H. Qed.

Lemma tiling_bounds R C l e : Tiling R C l -> In e l -> in_bounds R C e.
Proof. intros [H _]. apply H. Qed.

Lemma key_unique R C l e e' :
  Tiling R C l -> In e l -> In e' l -> e_key e = e_key e' -> e = e'.
Proof.
  intros HT He He' Hk. rewrite !e_key_eq in Hk. inversion Hk as [[Hr Hc]].
  pose proof (tiling_bounds _ _ _ _ HT He) as Hb.
  pose proof (tiling_bounds _ _ _ _ HT He') as Hb'.
  pose proof (covers_origin _ _ _ Hb) as Ho.
  pose proof (covers_origin _ _ _ Hb') as Ho'. rewrite <- Hr, <- Hc in Ho'.
  destruct (covers_bounds _ _ _ _ _ Hb Ho) as [Hrr Hcc].
  exact (cover_unique l _ _ e e' (tiling_count _ _ _ _ _ HT Hrr Hcc) He He' Ho Ho').
Qed.

(** The cells found in column [c] by scanning all rows through the back references are
    exactly the cells that cover column [c]. *)
Lemma scan_col R C l c e :
  Tiling R C l -> c < C -> In e l ->
  key_mem (e_key e) (map (fun r => okey l r c) (nseq R)) = covers_col e c.
Proof.
  intros HT Hc He. pose proof (tiling_bounds _ _ _ _ HT He) as Hb.
  apply eq_true_iff_eq. rewrite key_mem_map. split.
  - intros (r & Hr & Hk). apply in_nseq in Hr.
    destruct (lookup_cover l r c (tiling_count _ _ _ _ _ HT Hr Hc)) as (e' & Hl & He' & Hc').
    unfold okey in Hk. rewrite Hl in Hk.
    assert (e' = e) by (eapply key_unique; eauto). subst e'.
    unfold covers in Hc'. lia.
  - intros Hcc. exists (e_row e). split.
    + apply in_nseq. unfold in_bounds in Hb. lia.
    + assert (Hr : e_row e < R) by (unfold in_bounds in Hb; lia).
      destruct (lookup_cover l (e_row e) c (tiling_count _ _ _ _ _ HT Hr Hc)) as (e' & Hl & He' & Hc').
      unfold okey. rewrite Hl.
      assert (Hce : covers e (e_row e) c = true)
        by (unfold covers, covers_row, in_bounds in *; lia).
      rewrite (cover_unique l _ _ e' e (tiling_count _ _ _ _ _ HT Hr Hc) He' He Hc' Hce).
      reflexivity.
Qed.

Lemma scan_row R C l r e :
  Tiling R C l -> r < R -> In e l ->
  key_mem (e_key e) (map (fun c => okey l r c) (nseq C)) = covers_row e r.
Proof.
  intros HT Hr He. pose proof (tiling_bounds _ _ _ _ HT He) as Hb.
  apply eq_true_iff_eq. rewrite key_mem_map. split.
  - intros (c & Hc & Hk). apply in_nseq in Hc.
    destruct (lookup_cover l r c (tiling_count _ _ _ _ _ HT Hr Hc)) as (e' & Hl & He' & Hc').
    unfold okey in Hk. rewrite Hl in Hk.
    assert (e' = e) by (eapply key_unique; eauto). subst e'.
    unfold covers in Hc'. lia.
  - intros Hrr. exists (e_col e). split.
    + apply in_nseq. unfold in_bounds in Hb. lia.
    + assert (Hc : e_col e < C) by (unfold in_bounds in Hb; lia).
      destruct (lookup_cover l r (e_col e) (tiling_count _ _ _ _ _ HT Hr Hc)) as (e' & Hl & He' & Hc').
      unfold okey. rewrite Hl.
      assert (Hce : covers e r (e_col e) = true)
        by (unfold covers, covers_col, in_bounds in *; lia).
      rewrite (cover_unique l _ _ e' e (tiling_count _ _ _ _ _ HT Hr Hc) He' He Hc' Hce).
      reflexivity.
Qed.

(** ** [from_dict] succeeds on a tiling *)
Lemma max_row_end_le R l :
  (forall e, In e l -> e_row e + e_rows e <= R) -> max_row_end l <= R.
Proof.
  induction l as [|e l IH]; simpl; intros H; [lia|].
  pose proof (H e (or_introl eq_refl)). specialize (IH (fun e' He' => H e' (or_intror He'))). lia.
Qed.
Lemma max_row_end_ge l e : In e l -> e_row e + e_rows e <= max_row_end l.
Proof.
  induction l as [|x l IH]; simpl; [tauto|]. intros [<-|H]; [lia|]. specialize (IH H). lia.
Qed.
Lemma max_col_end_le C l :
  (forall e, In e l -> e_col e + e_cols e <= C) -> max_col_end l <= C.
Proof.
  induction l as [|e l IH]; simpl; intros H; [lia|].
  pose proof (H e (or_introl eq_refl)). specialize (IH (fun e' He' => H e' (or_intror He'))). lia.
Qed.
Lemma max_col_end_ge l e : In e l -> e_col e + e_cols e <= max_col_end l.
Proof.
  induction l as [|x l IH]; simpl; [tauto|]. intros [<-|H]; [lia|]. specialize (IH H). lia.
Qed.

Lemma scan_true l R C p :
  (forall r c, r < R -> c < C -> p (count_cover l r c) = true) -> scan l R C p = true.
Proof.
  intros H. unfold scan. apply forallb_forall. intros r Hr. apply in_nseq in Hr.
  apply forallb_forall. intros c Hc. apply in_nseq in Hc.
  rewrite count_row_col. apply H; assumption.
Qed.

Lemma from_dict_tiling R C l :
  Tiling R C l -> 0 < R -> 0 < C -> from_dict l = Ok (mkTable R C l).
Proof.
  intros HT HR HC.
  assert (HmR : max_row_end l = R).
  { apply N.le_antisymm.
    - apply max_row_end_le. intros e He. apply (tiling_bounds _ _ _ _ HT) in He.
      unfold in_bounds in He. lia.
    - assert (Hc : count_cover l (R - 1) 0 = 1%nat) by (apply (tiling_count R C); auto; lia).
      apply cover_exists in Hc as (e & He & Hc).
      pose proof (max_row_end_ge l e He). unfold covers, covers_row in Hc. lia. }
  assert (HmC : max_col_end l = C).
  { apply N.le_antisymm.
    - apply max_col_end_le. intros e He. apply (tiling_bounds _ _ _ _ HT) in He.
      unfold in_bounds in He. lia.
    - assert (Hc : count_cover l 0 (C - 1) = 1%nat) by (apply (tiling_count R C); auto; lia).
      apply cover_exists in Hc as (e & He & Hc).
      pose proof (max_col_end_ge l e He). unfold covers, covers_col in Hc. lia. }
  unfold from_dict. destruct l as [|e0 l0] eqn:El.
  - exfalso. assert (Hc : count_cover [] 0 0 = 1%nat) by (apply (tiling_count R C); auto).
    discriminate.
  - rewrite <- El in *. rewrite HmR, HmC.
    assert (Hp : positive_spans l = true).
    { apply forallb_forall. intros e He. apply (tiling_bounds _ _ _ _ HT) in He.
      unfold in_bounds in He. lia. }
    rewrite Hp. simpl negb. cbv iota.
    rewrite scan_true; [reflexivity|].
    intros r c Hr Hc. rewrite (tiling_count _ _ _ _ _ HT Hr Hc). reflexivity.
Qed.

(** ** Shifting and stacking *)
Lemma covers_shift dr dc e r c :
  covers (shift_entry dr dc e) r c = (dr <=? r) && (dc <=? c) && covers e (r - dr) (c - dc).
Proof.
  unfold covers, covers_row, covers_col, shift_entry, e_row, e_col, e_rows, e_cols, e_cell; simpl.
  lia.
Qed.

Lemma count_shift dr dc l r c :
  count_cover (shift dr dc l) r c
  = if (dr <=? r) && (dc <=? c) then count_cover l (r - dr) (c - dc) else 0%nat.
Proof.
  unfold shift. destruct ((dr <=? r) && (dc <=? c)) eqn:E.
  - apply count_map_ext. intros e _. rewrite covers_shift, E. reflexivity.
  - apply count_zero. intros e He. apply in_map_iff in He as (e0 & <- & _).
    rewrite covers_shift, E. reflexivity.
Qed.

Lemma shift_0 l : shift 0 0 l = l.
Proof.
  unfold shift. rewrite <- (map_id l) at 2. apply map_ext. intros [[a b] x].
  unfold shift_entry, e_row, e_col, e_cell; simpl. rewrite !N.add_0_r. reflexivity.
Qed.

Lemma shift_shift a b a' b' l : shift a b (shift a' b' l) = shift (a' + a) (b' + b) l.
Proof.
  unfold shift. rewrite map_map. apply map_ext. intros [[x y] z].
  unfold shift_entry, e_row, e_col, e_cell; simpl. rewrite !N.add_assoc. reflexivity.
Qed.

Lemma shift_app a b l1 l2 : shift a b (l1 ++ l2) = shift a b l1 ++ shift a b l2.
Proof. apply map_app. Qed.

Lemma in_bounds_shift R C dr dc e :
  in_bounds R C e -> in_bounds (dr + R) (dc + C) (shift_entry dr dc e).
Proof.
  unfold in_bounds, shift_entry, e_row, e_col, e_rows, e_cols, e_cell; simpl. lia.
Qed.

Lemma in_bounds_mono R C R' C' e : in_bounds R C e -> R <= R' -> C <= C' -> in_bounds R' C' e.
Proof. unfold in_bounds. lia. Qed.

Lemma tiling_stack R1 R2 C l1 l2 :
  Tiling R1 C l1 -> Tiling R2 C l2 -> Tiling (R1 + R2) C (l1 ++ shift R1 0 l2).
Proof.
  intros [Hb1 Hc1] [Hb2 Hc2]. split.
  - intros e He. apply in_app_or in He as [He|He].
    + eapply in_bounds_mono; [apply Hb1; assumption| |]; lia.
    + apply in_map_iff in He as (e0 & <- & He0).
      replace C with (0 + C) by lia. apply in_bounds_shift. auto.
  - intros r c Hr Hc. rewrite count_cover_app, count_shift.
    destruct (R1 <=? r) eqn:E; simpl.
    + rewrite (count_outside R1 C l1 r c Hb1) by lia.
      replace (0 <=? c) with true by lia. rewrite N.sub_0_r. apply Hc2; lia.
    + rewrite Hc1 by lia. reflexivity.
Qed.

Lemma tiling_juxt R C1 C2 l1 l2 :
  Tiling R C1 l1 -> Tiling R C2 l2 -> Tiling R (C1 + C2) (l1 ++ shift 0 C1 l2).
Proof.
  intros [Hb1 Hc1] [Hb2 Hc2]. split.
  - intros e He. apply in_app_or in He as [He|He].
    + eapply in_bounds_mono; [apply Hb1; assumption| |]; lia.
    + apply in_map_iff in He as (e0 & <- & He0).
      replace R with (0 + R) by lia. apply in_bounds_shift. auto.
  - intros r c Hr Hc. rewrite count_cover_app, count_shift.
    replace (0 <=? r) with true by lia. simpl.
    destruct (C1 <=? c) eqn:E.
    + rewrite (count_outside R C1 l1 r c Hb1) by lia.
      rewrite N.sub_0_r. apply Hc2; lia.
    + rewrite Hc1 by lia. reflexivity.
Qed.

Lemma tiling_single (x : cell) :
  1 <= c_rows x -> 1 <= c_cols x -> Tiling (c_rows x) (c_cols x) [(0, 0, x)].
Proof.
  intros Hr Hc. split.
  - intros e [<-|[]]. unfold in_bounds, e_row, e_col, e_rows, e_cols, e_cell; simpl. lia.
  - intros r c0 Hr' Hc'. rewrite count_cover_cons, count_cover_nil.
    unfold covers, covers_row, covers_col, e_row, e_col, e_rows, e_cols, e_cell; simpl.
    match goal with |- context [if ?b then _ else _] => replace b with true by lia end.
    reflexivity.
Qed.

(** ** [right_pad_table] *)
Definition pad_entry (C w : N) (e : entry) : entry :=
  if e_col e + e_cols e =? C then set_cols e (w - e_col e) else e.
Definition pad_spec (C w : N) (l : list entry) : list entry := map (pad_entry C w) l.

Lemma tiling_pad R C w l : Tiling R C l -> 0 < C -> C < w -> Tiling R w (pad_spec C w l).
Proof.
  intros [Hb Hc] HC Hw. split.
  - intros e He. apply in_map_iff in He as (e0 & <- & He0). specialize (Hb e0 He0).
    unfold pad_entry. destruct (e_col e0 + e_cols e0 =? C) eqn:E.
    + unfold in_bounds, set_cols, e_row, e_col, e_rows, e_cols, e_cell in *; simpl. lia.
    + unfold in_bounds in *. lia.
  - intros r c Hr Hcw. unfold pad_spec.
    rewrite (count_map_ext (pad_entry C w) l r c r (N.min c (C - 1))).
    + apply Hc; lia.
    + intros e He. specialize (Hb e He). unfold pad_entry.
      destruct (e_col e + e_cols e =? C) eqn:E;
        unfold in_bounds, covers, covers_row, covers_col, set_cols, e_row, e_col, e_rows,
          e_cols, e_cell in *; simpl; lia.
Qed.

Lemma right_pad_tiling R C w l :
  Tiling R C l -> 0 < R -> 0 < C -> C < w ->
  right_pad (mkTable R C l) w = Ok (mkTable R w (pad_spec C w l)).
Proof.
  intros HT HR HC Hw. unfold right_pad; simpl.
  replace (w <=? C) with false by lia.
  rewrite (map_opt'_map _ (fun r => okey l r (C - 1))).
  2:{ intros r Hr. apply in_nseq in Hr. rewrite rightmost_coord_eq. simpl.
      apply to_cell_coord_cover. apply (tiling_count R C); auto. lia. }
  replace (map _ l) with (pad_spec C w l).
  - apply from_dict_tiling; [apply tiling_pad; assumption|assumption|lia].
  - unfold pad_spec. apply map_ext_in. intros e He.
    rewrite (scan_col R C l (C - 1) e HT) by (auto; lia).
    pose proof (tiling_bounds _ _ _ _ HT He) as Hb. unfold pad_entry.
    replace (covers_col e (C - 1)) with (e_col e + e_cols e =? C); [reflexivity|].
    unfold covers_col, in_bounds in *. lia.
Qed.

(** ** [set_border_around_table] *)
Definition border_entry (R C : N) (b : border) (e : entry) : entry :=
  with_borders e b (e_col e =? 0) (e_col e + e_cols e =? C)
               (e_row e =? 0) (e_row e + e_rows e =? R).
Definition border_spec (R C : N) (b : border) (l : list entry) : list entry :=
  map (border_entry R C b) l.

Lemma covers_with_borders e b x1 x2 x3 x4 r c :
  covers (with_borders e b x1 x2 x3 x4) r c = covers e r c.
Proof. reflexivity. Qed.

Lemma tiling_border R C b l : Tiling R C l -> Tiling R C (border_spec R C b l).
Proof.
  intros [Hb Hc]. split.
  - intros e He. apply in_map_iff in He as (e0 & <- & He0). specialize (Hb e0 He0).
    exact Hb.
  - intros r c Hr Hcc. unfold border_spec.
    rewrite (count_map_ext _ l r c r c); [apply Hc; assumption|].
    intros e _. reflexivity.
Qed.

Lemma set_border_tiling R C b l :
  Tiling R C l -> 0 < R -> 0 < C ->
  set_border (mkTable R C l) b = Ok (mkTable R C (border_spec R C b l)).
Proof.
  intros HT HR HC. unfold set_border; simpl.
  rewrite (map_opt'_map _ (fun r => okey l r 0)).
  2:{ intros r Hr. apply in_nseq in Hr. apply to_cell_coord_cover.
      apply (tiling_count R C); auto. }
  rewrite (map_opt'_map _ (fun r => okey l r (C - 1))).
  2:{ intros r Hr. apply in_nseq in Hr. apply to_cell_coord_cover.
      apply (tiling_count R C); auto. lia. }
  rewrite (map_opt'_map _ (fun c => okey l 0 c)).
  2:{ intros c Hc. apply in_nseq in Hc. apply to_cell_coord_cover.
      apply (tiling_count R C); auto. }
  rewrite (map_opt'_map _ (fun c => okey l (R - 1) c)).
  2:{ intros c Hc. apply in_nseq in Hc. apply to_cell_coord_cover.
      apply (tiling_count R C); auto. lia. }
  replace (map _ l) with (border_spec R C b l).
  - apply from_dict_tiling; [apply tiling_border; assumption|assumption|assumption].
  - unfold border_spec. apply map_ext_in. intros e He.
    rewrite (scan_col R C l 0 e HT), (scan_col R C l (C - 1) e HT),
      (scan_row R C l 0 e HT), (scan_row R C l (R - 1) e HT) by (auto; lia).
    pose proof (tiling_bounds _ _ _ _ HT He) as Hb. unfold border_entry.
    replace (covers_col e 0) with (e_col e =? 0) by (unfold covers_col, in_bounds in *; lia).
    replace (covers_col e (C - 1)) with (e_col e + e_cols e =? C)
      by (unfold covers_col, in_bounds in *; lia).
    replace (covers_row e 0) with (e_row e =? 0) by (unfold covers_row, in_bounds in *; lia).
    replace (covers_row e (R - 1)) with (e_row e + e_rows e =? R)
      by (unfold covers_row, in_bounds in *; lia).
    reflexivity.
Qed.
