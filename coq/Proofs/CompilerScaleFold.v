(** * Compilation is parametric in the scalable numbers (2): folding.

    Each turn of [sym_fold] takes the same decision on two [forest_R]-related
    forests, provided the one comparison of quantities it may make
    ([turn_pair]) has the same answer on both. *)
From Coq Require Import List ZArith NArith Bool Lia.
From RG Require Import Base.Str Base.Num Model.Recipe Model.Compiler Spec.CompileSpec Spec.CompileSym
  Spec.ScaleProg Proofs.RecipeInd Proofs.RecipeScale Proofs.CompilerScaleRel.
Import ListNotations.
Local Open Scope nat_scope.

Section Trees.
  Variable Rn : num -> num -> Prop.
  Hypothesis Rn_eqb : forall a a' b b', Rn a a' -> Rn b b' -> num_eqb a' b' = num_eqb a b.
  Notation svsR := (svs_R Rn).
  Notation symR := (sym_R Rn).

  Lemma y_count_R k k' : svsR k k' -> forall t t', symR t t' -> y_count k' t' = y_count k t.
  Proof.
    intros Hk t t' H.
    induction H as [d d' q q' Hd Hq | d d' ins ins' Hd Hi IH | q q' i a a' Hq Ha | b b' ns ns' sh Hb IHb Hn]
      using sym_R_ind'; simpl.
    - reflexivity.
    - clear Hi. induction IH as [|x y l l' Hxy _ IHl]; simpl; [reflexivity | now rewrite Hxy, IHl].
    - now rewrite (svs_eqb_R Rn Rn_eqb _ _ Hq _ _ Hk).
    - exact IHb.
  Qed.

  Lemma y_graft_R k k' new new' : svsR k k' -> symR new new' ->
    forall t t', symR t t' -> symR (y_graft k new t) (y_graft k' new' t').
  Proof.
    intros Hk Hnew t t' H.
    induction H as [d d' q q' Hd Hq | d d' ins ins' Hd Hi IH | q q' i a a' Hq Ha | b b' ns ns' sh Hb IHb Hn]
      using sym_R_ind'; simpl.
    - now constructor.
    - constructor; [exact Hd|]. clear Hi. induction IH; simpl; constructor; assumption.
    - rewrite (svs_eqb_R Rn Rn_eqb _ _ Hq _ _ Hk). destruct (svs_eqb q k); [exact Hnew | now constructor].
    - now constructor.
  Qed.

  Lemma y_amount_R k k' : svsR k k' -> forall t t', symR t t' ->
    opt_R (amount_R Rn) (y_amount k t) (y_amount k' t').
  Proof.
    intros Hk t t' H.
    induction H as [d d' q q' Hd Hq | d d' ins ins' Hd Hi IH | q q' i a a' Hq Ha | b b' ns ns' sh Hb IHb Hn]
      using sym_R_ind'; simpl.
    - exact I.
    - clear Hi. induction IH as [|x y l l' Hxy _ IHl]; simpl; [exact I|].
      destruct (y_amount k x), (y_amount k' y); simpl in Hxy |- *; try tauto.
    - rewrite (svs_eqb_R Rn Rn_eqb _ _ Hq _ _ Hk). destruct (svs_eqb q k); simpl; [exact Ha | exact I].
    - exact IHb.
  Qed.

  Lemma y_infer_quantity_R t t' : symR t t' ->
    optq_R Rn (y_infer_quantity t) (y_infer_quantity t').
  Proof.
    intro H.
    induction H as [d d' q q' Hd Hq | d d' ins ins' Hd Hi IH | q q' i a a' Hq Ha | b b' ns ns' sh Hb IHb Hn]
      using sym_R_ind'; simpl; try exact I.
    - exact Hq.
    - destruct IH as [|x y l l' Hxy Hl]; [exact I|]. destruct Hl; [exact Hxy | exact I].
    - destruct Hn as [|n n' l l' _ Hl]; [exact I|]. destruct Hl; [exact IHb | exact I].
  Qed.
End Trees.

(** Generic list facts *)
Lemma find_R {A} (R : A -> A -> Prop) (f f' : A -> bool) l l' :
  Forall2 R l l' -> (forall x y, R x y -> f' y = f x) -> opt_R R (find f l) (find f' l').
Proof.
  intros H Hf. induction H as [|x y r r' Hxy _ IH]; simpl; [exact I|].
  rewrite (Hf x y Hxy). destruct (f x); simpl; [exact Hxy | exact IH].
Qed.

Lemma existsb_R {A} (R : A -> A -> Prop) (f f' : A -> bool) l l' :
  Forall2 R l l' -> (forall x y, R x y -> f' y = f x) -> existsb f' l' = existsb f l.
Proof.
  intros H Hf. induction H as [|x y r r' Hxy _ IH]; simpl; [reflexivity|].
  now rewrite (Hf x y Hxy), IH.
Qed.

Lemma filter_R {A} (R : A -> A -> Prop) (f f' : A -> bool) l l' :
  Forall2 R l l' -> (forall x y, R x y -> f' y = f x) -> Forall2 R (filter f l) (filter f' l').
Proof.
  intros H Hf. induction H as [|x y r r' Hxy _ IH]; simpl; [constructor|].
  rewrite (Hf x y Hxy). destruct (f x); [constructor|]; assumption.
Qed.

Lemma map_R {A B} (R : A -> A -> Prop) (S : B -> B -> Prop) (f f' : A -> B) l l' :
  Forall2 R l l' -> (forall x y, R x y -> S (f x) (f' y)) -> Forall2 S (map f l) (map f' l').
Proof. intros H Hf. induction H; simpl; constructor; auto. Qed.

Lemma concat_R {A} (R : A -> A -> Prop) l l' :
  Forall2 (Forall2 R) l l' -> Forall2 R (concat l) (concat l').
Proof. induction 1; simpl; [constructor | now apply Forall2_app]. Qed.

Section Roots.
  Variable Rn : num -> num -> Prop.
  Hypothesis Rn_eqb : forall a a' b b', Rn a a' -> Rn b b' -> num_eqb a' b' = num_eqb a b.
  Variable lower : str -> str.
  Notation svsR := (svs_R Rn).
  Notation symR := (sym_R Rn).
  Notation rootR := (sroot_R Rn).

  Lemma count_in_R k k' rs rs' : svsR k k' -> Forall2 rootR rs rs' -> count_in k' rs' = count_in k rs.
  Proof.
    intros Hk H. induction H as [|x y r r' [Hxy _] _ IH]; simpl; [reflexivity|].
    fold (count_in k' r') (count_in k r). now rewrite IH, (y_count_R Rn Rn_eqb k k' Hk _ _ Hxy).
  Qed.

  Lemma amount_in_R k k' rs rs' : svsR k k' -> Forall2 rootR rs rs' ->
    opt_R (amount_R Rn) (amount_in k rs) (amount_in k' rs').
  Proof.
    intros Hk H. induction H as [|x y r r' [Hxy _] _ IH]; simpl; [exact I|].
    pose proof (y_amount_R Rn Rn_eqb k k' Hk _ _ Hxy) as HA.
    destruct (y_amount k (r_tree x)), (y_amount k' (r_tree y)); simpl in HA |- *; try tauto.
  Qed.

  Lemma defines_R k k' r r' : svsR k k' -> rootR r r' -> defines lower k' r' = defines lower k r.
  Proof.
    intros Hk [H _]. unfold defines. destruct H; try reflexivity.
    apply (existsb_R svsR); [assumption|].
    intros x y Hxy. apply (svs_eqb_R Rn Rn_eqb); [now apply norm_R | exact Hk].
  Qed.
End Roots.

Section Fold.
  Variable Rn : num -> num -> Prop.
  Hypothesis Rn_eqb : forall a a' b b', Rn a a' -> Rn b b' -> num_eqb a' b' = num_eqb a b.
  Variable convert : str -> str -> option num.
  Variable tol : Z * positive.
  Variable lower : str -> str.
  Notation svsR := (svs_R Rn).
  Notation symR := (sym_R Rn).
  Notation rootR := (sroot_R Rn).
  Notation hevt := (has_equal_value_to convert tol lower).

  (** The comparison of the pair [qm] has the same answer on every related pair. *)
  Definition same_decision (qm : quantity * quantity) : Prop :=
    forall q' m', quantity_R Rn (fst qm) q' -> quantity_R Rn (snd qm) m' ->
    hevt q' m' = hevt (fst qm) (snd qm).

  Lemma whole_R amt amt' made made' :
    amount_R Rn amt amt' -> optq_R Rn made made' ->
    (forall q m, amt = AQty q -> made = Some m -> same_decision (q, m)) ->
    whole convert tol lower amt' made' = whole convert tol lower amt made.
  Proof.
    intros Ha Hm Hd. destruct amt as [q|p], amt' as [q'|p']; simpl in Ha; try tauto.
    - destruct made as [m|], made' as [m'|]; simpl in Hm |- *; try tauto.
      exact (Hd q m eq_refl eq_refl q' m' Ha Hm).
    - subst p'. reflexivity.
  Qed.
End Fold.

Section Fold2.
  Variable Rn : num -> num -> Prop.
  Hypothesis Rn_eqb : forall a a' b b', Rn a a' -> Rn b b' -> num_eqb a' b' = num_eqb a b.
  Variable convert : str -> str -> option num.
  Variable tol : Z * positive.
  Variable lower : str -> str.
  Notation svsR := (svs_R Rn).
  Notation symR := (sym_R Rn).
  Notation rootR := (sroot_R Rn).
  Notation same := (same_decision Rn convert tol lower).

  Lemma fold_key_R k k' f f' : svsR k k' -> forest_R Rn f f' ->
    (forall qm, turn_pair lower k f = Some qm -> same qm) ->
    opt_R (forest_R Rn) (fold_key convert tol lower k f) (fold_key convert tol lower k' f').
  Proof.
    intros Hk Hf Hd. unfold fold_key. unfold turn_pair in Hd.
    assert (Hdef : forall r r', rootR r r' -> defines lower k' r' = defines lower k r)
      by (intros; now apply (defines_R Rn Rn_eqb)).
    pose proof (find_R (Forall2 rootR) (existsb (defines lower k)) (existsb (defines lower k')) f f' Hf
                  (fun x y H => existsb_R rootR _ _ x y H Hdef)) as HB.
    destruct (find (existsb (defines lower k)) f) as [bD|] eqn:E1;
      destruct (find (existsb (defines lower k')) f') as [bD'|];
      simpl in HB; try tauto; try exact Hf.
    pose proof (find_R rootR _ _ bD bD' HB Hdef) as HD.
    destruct (find (defines lower k) bD) as [[t un]|] eqn:E2;
      destruct (find (defines lower k') bD') as [[t' un']|];
      simpl in HD; try tauto; try exact Hf.
    destruct HD as [Ht Hun]. simpl in Ht, Hun. subst un'.
    destruct Ht as [d d' q q' Hd0 Hq | d d' ins ins' Hd0 Hi | q q' i a a' Hq Ha | b b' ns ns' sh Hb Hn];
      try exact Hf.
    destruct Hn as [|nm nm' l l' Hnm Hl]; [exact Hf|]. destruct Hl; [|exact Hf].
    rewrite (count_in_R Rn Rn_eqb k k' _ _ Hk (concat_R _ _ _ Hf)), (count_in_R Rn Rn_eqb k k' _ _ Hk HB).
    destruct (Nat.eqb (count_in k (concat f)) 1 && Nat.eqb (count_in k bD) 1) eqn:E3; [|exact Hf].
    pose proof (amount_in_R Rn Rn_eqb k k' bD bD' Hk HB) as HA.
    destruct (amount_in k bD) as [amt|] eqn:E4; destruct (amount_in k' bD') as [amt'|];
      simpl in HA; try tauto; try exact Hf.
    assert (HS : symR (YSub b [nm] sh) (YSub b' [nm'] sh))
      by (constructor; [exact Hb | constructor; [exact Hnm | constructor]]).
    pose proof (y_infer_quantity_R Rn _ _ HS) as HM.
    rewrite (whole_R Rn convert tol lower amt amt' _ _ HA HM).
    2:{ intros q m -> Em. apply Hd. rewrite Em. reflexivity. }
    destruct (whole convert tol lower amt (y_infer_quantity (YSub b [nm] sh))) as [[|]|];
      simpl; [| exact Hf | exact I].
    apply map_R with (R := Forall2 rootR); [exact Hf|]. intros rs rs' Hrs.
    apply map_R with (R := rootR); [apply filter_R; [exact Hrs|] |].
    - intros x y Hxy. now rewrite (Hdef x y Hxy).
    - intros x y [Hxy Hu]. split; simpl; [|exact Hu].
      apply (y_graft_R Rn Rn_eqb); try assumption. destruct un; assumption.
  Qed.
End Fold2.

Section Fold3.
  Variable Rn : num -> num -> Prop.
  Hypothesis Rn_eqb : forall a a' b b', Rn a a' -> Rn b b' -> num_eqb a' b' = num_eqb a b.
  Variable convert : str -> str -> option num.
  Variable tol : Z * positive.
  Variable lower : str -> str.
  Notation svsR := (svs_R Rn).
  Notation same := (same_decision Rn convert tol lower).

  Theorem sym_fold_R keys keys' : Forall2 svsR keys keys' -> forall f f', forest_R Rn f f' ->
    Forall same (fold_pairs convert tol lower keys f) ->
    opt_R (forest_R Rn) (sym_fold convert tol lower keys f) (sym_fold convert tol lower keys' f').
  Proof.
    induction 1 as [|k k' l l' Hk _ IH]; intros f f' Hf Hd; simpl in *; [exact Hf|].
    apply Forall_app in Hd. destruct Hd as [Hd1 Hd2].
    assert (Hturn : forall qm, turn_pair lower k f = Some qm -> same qm).
    { intros qm E. rewrite E in Hd1. now inversion Hd1. }
    pose proof (fold_key_R Rn Rn_eqb convert tol lower k k' f f' Hk Hf Hturn) as HK.
    destruct (fold_key convert tol lower k f) as [g|], (fold_key convert tol lower k' f') as [g'|];
      simpl in HK; try tauto.
    now apply IH.
  Qed.
End Fold3.
