(** * Induction over source trees (nested lists). *)
From Coq Require Import List NArith Bool.
From RG Require Import Base.Str Model.Fs.
Import ListNotations.

Section StreeInd.
Variable P : stree -> Prop.
Hypothesis Hfile : forall n d, P (SFile n d).
Hypothesis Hbroken : forall n, P (SBroken n).
Hypothesis Hdir : forall n rn es, Forall P es -> P (SDir n rn es).

Fixpoint stree_ind' (t : stree) : P t :=
  match t with
  | SFile n d => Hfile n d
  | SBroken n => Hbroken n
  | SDir n rn es =>
      Hdir n rn es
        ((fix go (l : list stree) : Forall P l :=
            match l with
            | [] => Forall_nil P
            | e :: r => Forall_cons e (stree_ind' e) (go r)
            end) es)
  end.
End StreeInd.
