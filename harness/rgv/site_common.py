"""Shared by C14site / C15 / C16 / C17: materialise a generated source tree (gen/sitegen.py) in a scratch
directory, run recipe_grid's site generator and standalone page generator on it, read the result back
with an HTML parser, print the abstract tree / the observation as Gallina terms (Model/Site.v
[site_in] / [site_obs]) and run the property oracles (independent of the Coq model) on the output.
"""
from __future__ import annotations

import base64
import contextlib
import hashlib
import html as html_mod
import mimetypes
import os
import random
import shutil
import tempfile
from fractions import Fraction
from html.parser import HTMLParser
from typing import Any, Dict, Iterator, List, Optional, Sequence, Tuple
from urllib.parse import quote, unquote, urljoin, urlsplit

from . import coqio as c
from .api import Case, Suite
from .gen import sitegen as G

IMPORTS = ["From Coq Require Import String.", "From RG Require Import Model.Url Model.Href Model.Fs Model.Site.",
           "Open Scope string_scope."]

STATIC_SITE_ERRORS = {
    "NotADirectoryError", "MultipleReadmeError", "RecipeInDirectoryCompileError", "ReadmeMissingTitleError",
    "ReadmeMalformedTitleError", "RecipeMissingTitleError", "RecipeMissingServingsError",
    "MaxServingsLowerThanLargestRecipeError", "LinkToExternalFileError", "LinkToNonExistentFileError",
}
FAULT_CLASS = {
    "multiple-readme": "MultipleReadmeError", "multiple-readme-same-name": "MultipleReadmeError",
    "empty-recipe-block": "RecipeInDirectoryCompileError", "readme-missing-title": "ReadmeMissingTitleError",
    "readme-malformed-title": "ReadmeMalformedTitleError", "recipe-missing-title": "RecipeMissingTitleError",
    "compile": "RecipeInDirectoryCompileError", "title-with-scaled-value": "RecipeMissingTitleError", "max-servings": "MaxServingsLowerThanLargestRecipeError",
    "link-outside-dots": "LinkToExternalFileError", "link-outside-abs-symlink": "LinkToExternalFileError",
    "link-outside-rel-symlink": "LinkToExternalFileError", "link-outside-dir-symlink": "LinkToExternalFileError",
    "link-outside-encoded": "LinkToExternalFileError", "link-missing": "LinkToNonExistentFileError",
    "link-sibling-rel": "LinkToExternalFileError", "link-sibling-abs": "LinkToExternalFileError",
    "link-sibling-encoded": "LinkToExternalFileError", "link-sibling-symlink": "LinkToExternalFileError",
    "link-sibling-dir-symlink": "LinkToExternalFileError", "link-casetwin-rel": "LinkToExternalFileError",
    "link-casetwin-symlink": "LinkToExternalFileError",
}
MARKER = b"SECRET-MARKER"


# ------------------------------------------------------------------------------------------------ Gallina terms

def _ascii_ok(x: str) -> bool:
    return all(32 <= ord(ch) <= 126 and ch != '"' for ch in x)


def cstr(x: str) -> str:
    """A Python str as a Gallina [str]; printable ASCII goes through a string literal (compact)."""
    if not x:
        return "(@nil N)"
    if _ascii_ok(x):
        return '(s "' + x + '")'
    return c.string(x)


def ctext(x: str) -> str:
    """Text with line feeds: join [10] of its lines."""
    if "\n" not in x:
        return cstr(x)
    return "(join [10%N] [" + "; ".join(cstr(l) for l in x.split("\n")) + "])"


def cbytes(b: bytes) -> str:
    try:
        t = b.decode("ascii")
    except UnicodeDecodeError:
        t = None
    if t is not None and all(ch == "\n" or _ascii_ok(ch) for ch in t):
        return ctext(t)
    if not b:
        return "(@nil N)"
    return "[" + ";".join(str(v) for v in b) + "]%N"


def cpath(parts: Sequence[str]) -> str:
    return c.lst([cstr(p) for p in parts], "str")


def cpairs(l: Sequence[Tuple[str, str]]) -> str:
    return c.lst([c.pair(cstr(a), cstr(b)) for a, b in l], "(str * str)")


def cfactor(f: Fraction) -> str:
    return c.pair(c.n_(f.numerator), c.n_(f.denominator))


# ------------------------------------------------------------------------------------------------ scratch tree

def node_bytes(n: G.Node) -> bytes:
    return n["text"].encode("utf-8") if "text" in n else bytes.fromhex(n["hex"])


def materialise(node: G.Node, where: str, base: str) -> None:
    for ch in node["ch"]:
        p = os.path.join(where, ch["name"])
        if ch["k"] == "d":
            os.mkdir(p)
            materialise(ch, p, base)
        elif ch["k"] == "l":
            os.symlink(ch["target"].replace("{BASE}", base), p)
        else:
            with open(p, "wb") as f:
                f.write(node_bytes(ch))


@contextlib.contextmanager
def listing_order(spec_base: G.Node, base: str) -> Iterator[None]:
    """Make Path.iterdir list every directory of the scratch tree in the order of the spec (no change to /repo)."""
    import pathlib
    orig = pathlib.Path.iterdir

    def iterdir(self):  # type: ignore
        real = os.path.realpath(self)
        if real == base or real.startswith(base + os.sep):
            rel = [p for p in os.path.relpath(real, base).split(os.sep) if p != "."]
            node = G.find(spec_base, rel)
            names = sorted(os.listdir(real))
            if node is not None and node["k"] == "d" and sorted(ch["name"] for ch in node["ch"]) == names:
                for ch in node["ch"]:
                    yield self / ch["name"]
                return
        yield from orig(self)

    pathlib.Path.iterdir = iterdir  # type: ignore
    try:
        yield
    finally:
        pathlib.Path.iterdir = orig  # type: ignore


def exc_name(e: BaseException) -> str:
    from recipe_grid.static_site.exceptions import StaticSiteError
    if isinstance(e, StaticSiteError):
        return type(e).__name__
    if isinstance(e, OSError):
        return "OSError"
    return type(e).__name__


# ------------------------------------------------------------------------------------------------ reading pages back

# HYPOTHESIS about lxml (4.9): Element.rewrite_links visits, per element in document order, the attributes of
# lxml.html.defs.link_attrs and then every url(...) of a style attribute.  The reader below extracts the same from the
# SOURCE documents and from the generated pages with html.parser (one link attribute per element in generated inputs).
LINK_ATTRS = {"action", "archive", "background", "cite", "classid", "codebase", "data", "dynsrc", "formaction", "href",
              "longdesc", "lowsrc", "profile", "src", "usemap"}
_CSS_URL = _re_early = __import__("re").compile(r"url\(\s*([^)]*?)\s*\)")

VOID = {"area", "base", "br", "col", "embed", "hr", "img", "input", "link", "meta", "param", "source", "track", "wbr"}


class PageParser(HTMLParser):
    """Everything the checks look at, from a generated page (html.parser, independent of lxml)."""

    def __init__(self) -> None:
        super().__init__(convert_charrefs=True)
        self.stack: List[Tuple[str, Dict[str, Optional[str]]]] = []
        self.title = ""
        self.refs: List[Tuple[str, str, str]] = []          # (attr, value, context)
        self.crumbs: List[List[str]] = []
        self.cats: List[List[str]] = []
        self.recs: List[List[str]] = []
        self.servs: List[List[str]] = []
        self.menu: List[List[str]] = []
        self.orig: Optional[str] = None
        self.scaled: List[str] = []
        self.items: List[Tuple[str, ...]] = []              # ("L", attr, value) | ("M",) in document order
        self.last_p = ""
        self._cur_a: Optional[List[str]] = None             # [label, href] being collected
        self._cur_list: Optional[List[List[str]]] = None
        self._scaled_depth: Optional[int] = None
        self._scaled_in_menu = False

    def _classes(self, attrs: Dict[str, Optional[str]]) -> List[str]:
        return (attrs.get("class") or "").split()

    def _inside(self, tag: str, cls: Optional[str] = None) -> bool:
        return any(t == tag and (cls is None or cls in self._classes(a)) for t, a in self.stack)

    def context(self) -> str:
        if self._inside("ul", "breadcrumb"):
            return "crumb"
        if self._inside("span", "rg-serving-count"):
            return "menu" if self._inside("ul") else "cur"
        if self._inside("span", "rg-original-servings"):
            return "orig"
        if self._inside("div", "category-selection"):
            return "rec" if "recipe" in self.last_p else "cat"
        if self._inside("div", "serving-selection"):
            return "serv"
        if self._inside("head"):
            return "css"
        return "body"

    def handle_starttag(self, tag: str, attrs_l: List[Tuple[str, Optional[str]]]) -> None:
        attrs = dict(attrs_l)
        if tag == "span" and "rg-serving-count" in self._classes(attrs):
            self.items.append(("M",))
        if tag not in VOID:
            self.stack.append((tag, attrs))
        ctx = self.context()
        for k, v in attrs_l:
            if k in LINK_ATTRS:
                self.refs.append((k, v or "", ctx))
                if ctx == "body":
                    self.items.append(("L", k, v or ""))
        for k, v in attrs_l:
            if k == "style" and v:
                for m in _CSS_URL.finditer(v):
                    self.refs.append(("style", m.group(1), ctx))
                    if ctx == "body":
                        self.items.append(("L", "style", m.group(1)))
        if tag == "a":
            href = attrs.get("href") or ""
            target = {"crumb": self.crumbs, "cat": self.cats, "rec": self.recs, "serv": self.servs,
                      "menu": self.menu}.get(ctx)
            if target is not None:
                self._cur_a = ["", href]
                self._cur_list = target
            if ctx == "orig":
                self.orig = href
        if tag == "span" and "rg-scaled-value" in self._classes(attrs) and self._scaled_depth is None:
            self._scaled_depth = len(self.stack)
            self._scaled_in_menu = ctx == "menu"
            self.scaled.append("")
        if tag == "p":
            self.last_p = ""

    def handle_startendtag(self, tag: str, attrs_l: List[Tuple[str, Optional[str]]]) -> None:
        self.handle_starttag(tag, attrs_l)
        if tag not in VOID:
            self.handle_endtag(tag)

    def handle_endtag(self, tag: str) -> None:
        if tag in VOID:
            return
        idx = None
        for i in range(len(self.stack) - 1, -1, -1):
            if self.stack[i][0] == tag:
                idx = i
                break
        if idx is None:
            return
        if tag == "a" and self._cur_a is not None and self._cur_list is not None:
            if self._cur_list is self.menu:
                self._cur_a[0] = self._menu_value
            self._cur_list.append(self._cur_a)
            self._cur_a = None
            self._cur_list = None
        if self._scaled_depth is not None and idx + 1 <= self._scaled_depth:
            if self._scaled_in_menu:
                self._menu_value = self.scaled.pop()
            self._scaled_depth = None
        del self.stack[idx:]

    _menu_value = ""

    def handle_data(self, data: str) -> None:
        if self.stack and self.stack[-1][0] == "title":
            self.title += data
        if self._cur_a is not None:
            self._cur_a[0] += data
        if self._scaled_depth is not None:
            self.scaled[-1] += data
        if self._inside("p"):
            self.last_p += data


def parse_page(text: str) -> Dict[str, Any]:
    p = PageParser()
    p.feed(text)
    p.close()
    return {"title": p.title, "refs": [[a, v] for a, v, _ in p.refs], "ctx": [x for _, _, x in p.refs],
            "crumbs": p.crumbs, "cats": p.cats, "recs": p.recs, "servs": p.servs, "menu": p.menu, "orig": p.orig,
            "scaled": p.scaled}


def parse_items(text: str) -> Tuple[List[Tuple[str, ...]], List[str]]:
    """Of a rendered recipe / readme fragment: (links and serving-count span in document order, scaled values)."""
    p = PageParser()
    p.feed(text)
    p.close()
    return p.items, p.scaled


# ------------------------------------------------------------------------------------------------ document facts

def recipe_facts(text: str, factors: Sequence[Fraction]) -> Dict[str, Any]:
    """What Model/Site.v's [e_compile] abstracts, from compile_markdown itself (uncached)."""
    from recipe_grid.markdown import compile_markdown
    from recipe_grid.compiler import RecipeCompileError
    from peggie import ParseError
    try:
        r = compile_markdown(text)
    except (RecipeCompileError, ParseError):
        return {"err": True}
    items, _ = parse_items(r.render(1))
    fs = set(factors) | {Fraction(1)}
    if r.servings:
        fs |= {f for f in factors}
    table = {}
    for f in sorted(fs):
        table[str(f)] = parse_items(r.render(f))[1]
    return {"err": False, "title": r.title, "servings": r.servings, "items": [list(i) for i in items], "scaled": table}


def readme_facts(text: str) -> Dict[str, Any]:
    import marko
    html = marko.Markdown()(text)
    lines = html.splitlines(keepends=True)
    first = lines[0] if lines else ""
    items, _ = parse_items("".join(lines[1:]))
    fl = first.strip()
    raw_title = fl[4:-5] if fl.startswith("<h1>") and fl.endswith("</h1>") else None
    return {"first": first, "links": [list(i[1:]) for i in items if i[0] == "L"],
            "raw_title": raw_title, "title": None if raw_title is None else html_mod.unescape(raw_title)}


def collect_facts(site: Dict[str, Any], extra_factors: Sequence[Fraction] = (),
                  extra_servings: Sequence[int] = ()) -> Dict[str, Any]:
    """Facts for every text file of the scratch tree (keyed by content) and mime types by file name."""
    M = site["M"]
    rec: Dict[str, Any] = {}
    rdm: Dict[str, Any] = {}
    names = set()
    for _p, n in G.walk(site["base"]):
        names.add(n["name"])
        if n["k"] == "f" and "text" in n:
            t = n["text"]
            if t not in rdm:
                rdm[t] = readme_facts(t)
            if t not in rec:
                from recipe_grid.markdown import compile_markdown  # noqa: F401  (fail early if the import breaks)
                probe = recipe_facts(t, [])
                factors = list(extra_factors)
                if not probe["err"] and probe["servings"]:
                    factors += [Fraction(k, probe["servings"]) for k in list(range(1, M + 1)) + list(extra_servings)]
                rec[t] = recipe_facts(t, factors) if factors else probe
    mimes = {nm: mimetypes.guess_type(nm)[0] for nm in sorted(names)}
    return {"recipes": rec, "readmes": rdm, "mimes": mimes}


# ------------------------------------------------------------------------------------------------ Gallina input

def coq_node(n: G.Node) -> str:
    if n["k"] == "d":
        return "(NDir " + c.lst([c.pair(cstr(ch["name"]), coq_node(ch)) for ch in n["ch"]], "(str * node)") + ")"
    if n["k"] == "l":
        return "(NLink " + cstr(n["target"].replace("{BASE}", "/B")) + ")"
    return "(NFile " + cbytes(node_bytes(n)) + ")"


def coq_fs(site: Dict[str, Any]) -> str:
    return "(NDir [" + c.pair(cstr("B"), "(NDir " + c.lst(
        [c.pair(cstr(ch["name"]), coq_node(ch)) for ch in site["base"]["ch"]], "(str * node)") + ")") + "])"


def coq_items(items: Sequence[Sequence[str]]) -> str:
    return c.lst([("IMenu" if i[0] == "M" else f"(ILink {cstr(i[1])} {cstr(i[2])})") for i in items], "item")


def coq_env(facts: Dict[str, Any]) -> str:
    recs = []
    for t, f in facts["recipes"].items():
        if f["err"]:
            v = "CErr"
        else:
            tab = c.lst([c.pair(cfactor(Fraction(k)), c.lst([cstr(x) for x in vals], "str"))
                         for k, vals in f["scaled"].items()], "(factor * list str)")
            v = (f"(COk (mk_doc {c.opt(None if f['title'] is None else cstr(f['title']), 'str')} "
                 f"{c.opt(None if f['servings'] is None else c.n_(f['servings']), 'N')} {coq_items(f['items'])} {tab}))")
        recs.append(c.pair(cbytes(t.encode('utf-8')), v))
    rdms = []
    unesc = []
    for t, f in facts["readmes"].items():
        rdms.append(c.pair(cbytes(t.encode("utf-8")), c.pair(ctext(f["first"]), cpairs([tuple(x) for x in f["links"]]))))
        if f["raw_title"] is not None and f["raw_title"] != f["title"]:
            unesc.append(c.pair(cstr(f["raw_title"]), cstr(f["title"])))
    mimes = [c.pair(cstr(k), c.opt(None if v is None else cstr(v), "str")) for k, v in facts["mimes"].items()]
    return ("(env_of_tables " + c.lst(recs, "(bytes * cres)") + " " + c.lst(rdms, "(bytes * (str * list (str * str)))")
            + " " + c.lst(unesc, "(str * str)") + " " + c.lst(mimes, "(str * option str)") + ")")


def coq_site_in(site: Dict[str, Any], facts: Dict[str, Any]) -> str:
    return (f"(mk_site_in {coq_fs(site)} {cpath(['B'] + list(site['input']))} {c.n_(site['M'])} {coq_env(facts)})")


def coq_page_obs(path: str, p: Dict[str, Any]) -> str:
    return ("(PO " + " ".join([
        cstr(path), cstr(p["title"]), cpairs([tuple(x) for x in p["refs"]]), cpairs([tuple(x) for x in p["crumbs"]]),
        cpairs([tuple(x) for x in p["cats"]]), cpairs([tuple(x) for x in p["recs"]]),
        cpairs([tuple(x) for x in p["servs"]]), cpairs([tuple(x) for x in p["menu"]]),
        c.opt(None if p["orig"] is None else cstr(p["orig"]), "str"), c.lst([cstr(x) for x in p["scaled"]], "str")]) + ")")


def coq_site_obs(obs: Dict[str, Any]) -> str:
    if "error" in obs:
        return f"(ObsErr {cstr(obs['error'])})"
    pages = c.lst([coq_page_obs(k, v) for k, v in sorted(obs["pages"].items())], "page_obs")
    assets = c.lst([c.pair(cstr(k), cbytes(bytes.fromhex(v))) for k, v in sorted(obs["assets"].items())], "(str * bytes)")
    return f"(ObsOk {c.lst([cstr(f) for f in obs['files']], 'str')} {pages} {assets})"


# ------------------------------------------------------------------------------------------------ running the generator

def read_output(out: str) -> Dict[str, Any]:
    files: List[str] = []
    pages: Dict[str, Any] = {}
    assets: Dict[str, str] = {}
    raw: Dict[str, bytes] = {}
    for dp, _dn, fn in os.walk(out):
        for f in fn:
            full = os.path.join(dp, f)
            rel = os.path.relpath(full, out).replace(os.sep, "/")
            files.append(rel)
            data = open(full, "rb").read()
            raw[rel] = data
            if rel.startswith("assets/"):
                assets[rel] = data.hex()
            elif rel.endswith(".html"):
                pages[rel] = parse_page(data.decode("utf-8"))
    return {"files": sorted(files), "pages": pages, "assets": assets, "_raw": raw}


def run_site(site: Dict[str, Any], seed: int = 0, keep: Optional[Dict[str, Any]] = None) -> Dict[str, Any]:
    """Materialise, generate, read back.  Everything happens below a fresh temporary directory that is removed."""
    from pathlib import Path
    from recipe_grid.static_site.website import generate_static_site
    base = os.path.realpath(tempfile.mkdtemp(prefix="rgv_site_"))
    try:
        materialise(site["base"], base, base)
        out = os.path.join(base, "__out__")
        random.seed(seed)
        with listing_order(site["base"], base):
            try:
                generate_static_site(Path(os.path.join(base, *site["input"])), Path(out), site["M"])
                obs: Dict[str, Any] = {}
            except RecursionError:
                raise
            except Exception as e:  # the class is part of the observation
                obs = {"error": exc_name(e), "message": str(e).replace(base, "{BASE}")[:300]}
        got = read_output(out) if os.path.isdir(out) else {"files": [], "pages": {}, "assets": {}, "_raw": {}}
        if "error" in obs:
            obs["partial_files"] = got["files"]
            obs["_raw"] = got["_raw"]
        else:
            obs = got
        if keep is not None:
            keep["base"] = base
            keep["real"] = real_facts(site, base)
        return obs
    finally:
        shutil.rmtree(base, ignore_errors=True)


def obs_json(obs: Dict[str, Any]) -> Dict[str, Any]:
    """JSON-able digest of an observation for the evidence / replay file."""
    if "error" in obs:
        return {"error": obs["error"], "message": obs.get("message", "")}
    h = hashlib.sha256()
    for k in obs["files"]:
        h.update(k.encode() + b"\0" + hashlib.sha256(obs["_raw"][k]).digest())
    return {"files": len(obs["files"]), "pages": len(obs["pages"]), "assets": len(obs["assets"]),
            "sha256": h.hexdigest()[:16]}


def site_hash(obs: Dict[str, Any]) -> str:
    if "error" in obs:
        return "error:" + obs["error"]
    h = hashlib.sha256()
    for k in obs["files"]:
        h.update(k.encode() + b"\0" + hashlib.sha256(obs["_raw"][k]).digest())
    return h.hexdigest()


# ------------------------------------------------------------------------------------------------ facts of the REAL tree
# (for the oracles: computed with os.* on the scratch directory, not with the model and not with pathlib.resolve)

def real_facts(site: Dict[str, Any], base: str) -> Dict[str, Any]:
    """Walk the real source directory the way a reader of the documentation would: directories are categories,
    *.md files are recipes, README.md / index.md describe the directory."""
    root = os.path.realpath(os.path.join(base, *site["input"]))
    dirs: List[Dict[str, Any]] = []

    def walk(d: str, rel: Tuple[str, ...]) -> None:
        ent = {"rel": list(rel), "real": os.path.realpath(d), "recipes": [], "readme": None, "subdirs": []}
        dirs.append(ent)
        for nm in sorted(os.listdir(d)):
            p = os.path.join(d, nm)
            if os.path.isdir(p):
                ent["subdirs"].append(nm)
                walk(p, rel + (nm,))
            elif nm.lower() in ("readme.md", "index.md"):
                ent["readme"] = nm
            elif os.path.splitext(nm)[1].lower() == ".md" and not nm.startswith(".md"):
                ent["recipes"].append(nm)

    walk(root, ())
    return {"root": root, "dirs": dirs}


# ------------------------------------------------------------------------------------------------ oracles

def _resolve(page: str, ref: str) -> Optional[str]:
    """Browser-style resolution of [ref] on page [page] (relative path in the output): the output-relative path of
    the target, None for external / in-page references."""
    sp = urlsplit(ref)
    if sp.scheme or sp.netloc or sp.path == "":
        return None
    absu = urljoin("http://site.invalid/" + quote(page), ref)        # resolve BEFORE unquoting, like a browser
    sp2 = urlsplit(absu)
    if sp2.netloc != "site.invalid":
        return "<off-site:%s>" % absu
    return unquote(sp2.path).lstrip("/")


import re as _re

_PLACEHOLDER = _re.compile(rb"%[A-Z]{32}%")


def oracle_residue(raw: Dict[str, bytes]) -> Optional[str]:
    """No random placeholder of the Markdown compiler may survive into a generated page (C13 / C17)."""
    for k, data in raw.items():
        if k.endswith(".html") and not k.startswith("assets/"):
            m = _PLACEHOLDER.search(data)
            if m:
                return f"{k}: a random placeholder {m.group(0)[:12].decode()}... was left in the page"
    return None


def oracle_links(obs: Dict[str, Any]) -> Optional[str]:
    """C14: every non-external, not purely in-page href/src of every page resolves to a file of the output; every
    page is reachable from index.html."""
    if "error" in obs:
        return None
    files = set(obs["files"])
    graph: Dict[str, List[str]] = {}
    for page, p in obs["pages"].items():
        graph[page] = []
        for (attr, val), ctx in zip(p["refs"], p["ctx"]):
            if ctx == "cur":
                continue
            t = _resolve(page, val)
            if t is None:
                if ctx != "body" and val != "#":
                    return f"{page}: navigation {attr}={val!r} ({ctx}) is external or in-page"
                continue
            if t not in files:
                return f"{page}: {attr}={val!r} ({ctx}) resolves to {t!r} which is not in the output"
            graph[page].append(t)
    seen = {"index.html"}
    todo = ["index.html"]
    while todo:
        x = todo.pop()
        for y in graph.get(x, []):
            if y in graph and y not in seen:
                seen.add(y)
                todo.append(y)
    missing = sorted(set(graph) - seen)
    if missing:
        return f"pages not reachable from index.html: {missing[:3]}"
    return None


def expected_pages(site: Dict[str, Any], real: Dict[str, Any], facts: Dict[str, Any]) -> Dict[str, Any]:
    """The page set the documentation promises, from the real tree and the recipes' titles."""
    M = site["M"]
    exp: Dict[str, Any] = {"index.html": ("home",), "css/style.css": ("css",)}
    clashes: List[str] = []
    tops = [f"serves{n}" for n in range(1, M + 1)] + ["categories"]
    for d in real["dirs"]:
        for top in tops:
            exp["/".join([top] + d["rel"] + ["index.html"])] = ("cat", top, tuple(d["rel"]))
        for nm in d["recipes"]:
            text = open(os.path.join(d["real"], nm), encoding="utf-8").read() if os.path.exists(
                os.path.join(d["real"], nm)) else None
            f = facts["recipes"].get(text)
            if f is None or f["err"]:
                continue
            stem = nm.rpartition(".")[0]
            if f["servings"] is not None:
                keys = [("/".join([f"serves{n}"] + d["rel"] + [stem + ".html"]), n) for n in range(1, M + 1)]
            else:
                keys = [("/".join(["categories"] + d["rel"] + [stem + ".html"]), None)]
            for k, n in keys:
                if k in exp:
                    clashes.append(f"{k}: both {exp[k][4]!r} and {nm!r}" if exp[k][0] == "rec" else f"{k}: {nm!r} and a category page")
                exp[k] = ("rec", text, n, tuple(d["rel"]), nm)
    exp["__clashes__"] = clashes
    return exp


_NUM = _re.compile(r"^(?:(\d{1,3})|(?:(\d{1,3}) )?(\d{1,2})/(\d{1,2})|(\d{1,2}\.\d{1,2}))$")


def _plain_number(text: str) -> Any:
    """int / Fraction / float for a displayed value that is exact as shown (no unit, <= 3 significant digits)."""
    m = _NUM.match(text.replace("\u2044", "/").strip())
    if not m:
        return None
    if m.group(1) is not None:
        return int(m.group(1))
    if m.group(3) is not None:
        if int(m.group(4)) == 0:
            return None
        return int(m.group(2) or 0) + Fraction(int(m.group(3)), int(m.group(4)))
    if len(m.group(5).replace(".", "").lstrip("0")) > 3:
        return None
    return float(m.group(5))


def oracle_linear_scaling(site: Dict[str, Any], obs: Dict[str, Any], exp: Dict[str, Any], facts: Dict[str, Any]) -> Optional[str]:
    """Independent of MarkdownRecipe.render: every plain number shown on the page for count n is
    format_number(value shown on the page at the stated count * n / native) - in the title, the prose and EVERY
    recipe block."""
    from recipe_grid.number_formatting import format_number
    M = site["M"]
    for path, e in exp.items():
        if e[0] != "rec" or e[2] is None:
            continue
        _k, text, n, rel, nm = e
        f = facts["recipes"][text]
        native = f["servings"]
        if not native or native > M or n == native:
            continue
        base_path = "/".join([f"serves{native}"] + list(rel) + [nm.rpartition(".")[0] + ".html"])
        if base_path not in obs["pages"] or exp.get(base_path, (None, None))[1] != text:
            continue
        base, shown = obs["pages"][base_path]["scaled"], obs["pages"][path]["scaled"]
        if len(base) != len(shown):
            continue
        fac = Fraction(n, native)
        for i, (b, v) in enumerate(zip(base, shown)):
            x = _plain_number(b)
            if x is None:
                continue
            want = format_number(x * fac)
            if v.replace("\u2044", "/").strip() != want:
                return (f"{path}: value #{i} is {v!r}; the page for the stated {native} servings shows {b!r}, so "
                        f"at {n} servings it must be {want!r}")
    return None


_SERVING_PHRASE = _re.compile(r"\s+(?:(?:to\s+)?serves?|to\s+make|for|makes|serving)\s+([0-9]+)\s*$", _re.IGNORECASE)


def documented_servings(text: str) -> Any:
    """The serving count a recipe's title states according to the DOCUMENTATION ('for N', 'serves N', 'makes N',
    'to serve N', 'serving N', 'to make N', in any letter case) - read from the Markdown source, not with the
    implementation's parser.  "skip" when the first heading is not a plain-text ATX level-1 heading."""
    for ln in text.split("\n"):
        if _re.match(r"^ {0,3}#{1,6}( |\t|$)", ln):
            m = _re.match(r"^# (.*)$", ln)
            if not m:
                return "skip"
            h = m.group(1).strip()
            if not h or _re.search(r"[<>&*_`\[\]{}\\%#!~|\u200b]", h):
                return "skip"
            ms = _SERVING_PHRASE.search(h)
            return int(ms.group(1)) if ms else None
        if ln.strip() and not ln.startswith("    "):
            # text before the first heading: still fine (the first HEADING counts), keep looking
            continue
    return "skip"


def oracle_pages(site: Dict[str, Any], obs: Dict[str, Any], real: Dict[str, Any], facts: Dict[str, Any]) -> Optional[str]:
    """C15: exactly the promised pages (+ assets), recipe pages scaled by n / native, menus 1..M, lists by title."""
    if "error" in obs:
        return None
    M = site["M"]
    # the serving count of every recipe as the documentation defines it (independent of the implementation's parser)
    for text, f in facts["recipes"].items():
        if f["err"]:
            continue
        want = documented_servings(text)
        if want != "skip" and want != f["servings"]:
            return (f"the title line {text.splitlines()[0] if text.startswith('#') else '...'!r} states "
                    f"{want if want is not None else 'no'} servings but the recipe is treated as "
                    f"{'stating ' + str(f['servings']) if f['servings'] is not None else 'not stating any'}")
    exp = expected_pages(site, real, facts)
    clashes = exp.pop("__clashes__")
    if clashes:
        return "stem-clash: two recipes of one directory get the same page address, one is lost: " + clashes[0]
    got = set(f for f in obs["files"] if not f.startswith("assets/"))
    if got != set(exp):
        miss, extra = sorted(set(exp) - got), sorted(got - set(exp))
        return f"page set differs: missing {miss[:3]} extra {extra[:3]}"
    n_rec_exp: Dict[Tuple[Any, ...], int] = {}
    for path, e in exp.items():
        if e[0] != "rec":
            continue
        _k, text, n, rel, nm = e
        f = facts["recipes"][text]
        pg = obs["pages"][path]
        fac = Fraction(n, f["servings"]) if n is not None else Fraction(1)
        want = f["scaled"].get(str(fac))
        if want is None:
            return f"{path}: harness has no independent rendering at {fac}"
        if pg["scaled"] != want:
            return f"{path}: scaled values {pg['scaled'][:6]} differ from render({fac}) = {want[:6]}"
        if n is not None:
            if [m[0] for m in pg["menu"]] != [str(k) for k in range(1, M + 1)]:
                return f"{path}: serving menu lists {[m[0] for m in pg['menu']]}, expected 1..{M}"
            for k, (lab, href) in enumerate(pg["menu"], start=1):
                t = _resolve(path, href)
                if t != "/".join([f"serves{k}"] + list(rel) + [nm.rpartition(".")[0] + ".html"]):
                    return f"{path}: menu entry {lab} points at {t!r}"
    for path, pg in obs["pages"].items():
        for lst_name in ("cats", "recs"):
            labels = [x[0] for x in pg[lst_name]]
            if labels != sorted(labels):
                return f"{path}: {lst_name} list is not in title order: {labels}"
    v = oracle_linear_scaling(site, obs, exp, facts)
    if v is not None:
        return v
    # the recipe list of every category page shows the recipes' real titles (as plain text)
    by_rel = {tuple(d["rel"]): d for d in real["dirs"]}
    for path, e in exp.items():
        if e[0] != "cat":
            continue
        d = by_rel.get(e[2])
        if d is None or path not in obs["pages"]:
            continue
        want = []
        for nm in d["recipes"]:
            try:
                f = facts["recipes"].get(open(os.path.join(d["real"], nm), encoding="utf-8").read())
            except OSError:
                f = None
            if f is None or f["err"] or f["title"] is None:
                want = None
                break
            want.append(f["title"])
        if want is not None and sorted(want) != sorted(x[0] for x in obs["pages"][path]["recs"]):
            return (f"{path}: the recipe list shows {sorted(x[0] for x in obs['pages'][path]['recs'])[:4]}, the recipes' "
                    f"titles are {sorted(want)[:4]}")
        subs = []
        for sn in d["subdirs"]:
            sd = by_rel.get(tuple(d["rel"]) + (sn,))
            if sd is not None and sd["readme"]:
                try:
                    rf = facts["readmes"].get(open(os.path.join(sd["real"], sd["readme"]), encoding="utf-8").read())
                except OSError:
                    rf = None
                if rf is not None and rf["title"] is not None:
                    subs.append(rf["title"])
        shown = [x[0] for x in obs["pages"][path]["cats"]]
        for t in subs:
            if subs.count(t) > shown.count(t):
                return f"{path}: the sub-category list {shown[:5]} does not show the title {t!r} of a sub-directory's readme"
    # every {..} expression of the prose (also one wrapped over two source lines) is replaced by a scaled value
    for path, e in exp.items():
        if e[0] != "rec":
            continue
        raw = obs.get("_raw", {}).get(path)
        if raw is None:
            continue
        visible = _re.sub(r"<[^>]*>", "", raw.decode("utf-8", "replace"))
        m = _re.search(r"\{\s*[0-9][^{}]{0,30}", visible)
        if m:
            return f"{path}: the expression {m.group(0)!r}... of the recipe's prose is shown literally, not as a scaled value"
    return None


def oracle_assets(site: Dict[str, Any], obs: Dict[str, Any], real: Dict[str, Any]) -> Optional[str]:
    """C16: every asset is a byte-identical copy of the regular file at the same relative path below the real root;
    no marker byte of an outside file anywhere in the output; planted faults abort with their documented class."""
    raw = obs.get("_raw", {})
    for k, data in raw.items():
        if MARKER in data:
            return f"output file {k} contains bytes of a file outside the source root"
    want = FAULT_CLASS.get(site.get("fault", ""))
    if want is not None:
        if obs.get("error") != want:
            return f"planted fault {site['fault']}: expected {want}, got {obs.get('error', 'no error')}"
        return None
    if "error" in obs:
        if site.get("fault") in ("f13", "f15"):
            if obs["error"] not in STATIC_SITE_ERRORS:
                return f"{site['fault']}: generation aborted with builtin {obs['error']} instead of a StaticSiteError"
            return None
        if site.get("profile") == "valid":
            return f"valid site aborted with {obs['error']}: {obs.get('message')}"
        return None
    root = real["root"]
    for k, hx in obs["assets"].items():
        rel = k[len("assets/"):]
        src = os.path.join(root, *rel.split("/"))
        # physical containment: no component below the root is a symbolic link and the file is regular
        cur = root
        for comp in rel.split("/"):
            cur = os.path.join(cur, comp)
            if os.path.islink(cur):
                return f"asset {k}: source path {rel!r} passes through a symbolic link"
        if not os.path.isfile(src):
            return f"asset {k}: no regular file {rel!r} below the source root"
        if open(src, "rb").read().hex() != hx:
            return f"asset {k}: bytes differ from the source file"
    return None


def oracle_asset_set(site: Dict[str, Any], obs: Dict[str, Any], real: Dict[str, Any], facts: Dict[str, Any]) -> Optional[str]:
    """C16: exactly the local files the documents link to are copied (one copy each, at their own relative path) -
    e.g. a link to 'c++tips.txt' copies that file and not 'c  tips.txt'."""
    if "error" in obs:
        return None
    want = set()
    for d in real["dirs"]:
        docs = []
        if d["readme"] and d["rel"] != [] or (d["readme"] and d["rel"] == []):
            docs.append(("readme", d["readme"]))
        for nm in d["recipes"]:
            docs.append(("recipe", nm))
        for kind, nm in docs:
            pth = os.path.join(d["real"], nm)
            try:
                text = open(pth, encoding="utf-8").read()
            except OSError:
                return None
            if kind == "readme":
                f = facts["readmes"].get(text)
                if f is None:
                    return None
                urls = [x[1] for x in f["links"]]
            else:
                f = facts["recipes"].get(text)
                if f is None or f["err"]:
                    return None
                urls = [i[2] for i in f["items"] if i[0] == "L"]
            for u in urls:
                t = intended_target(site, real, facts, d["real"], "categories/x.html", u)
                if t is not None and t[0] == "asset":
                    want.add(t[1])
    got = set(obs["assets"])
    if got != want:
        return (f"copied assets differ from the linked local files: missing {sorted(want - got)[:3]} "
                f"unexpected {sorted(got - want)[:3]}")
    return None


def intended_target(site: Dict[str, Any], real: Dict[str, Any], facts: Dict[str, Any], src_dir_real: str,
                    page: str, url: str) -> Optional[Tuple[str, str]]:
    """Where an author's link is meant to lead, from the real tree (os.path.realpath, not the model):
    ("page"|"asset", output-relative path), or None for external / in-page / unresolvable ones."""
    sp = urlsplit(url.strip())
    if sp.scheme or sp.netloc or sp.path == "":
        return None
    p = unquote(sp.path)
    root = real["root"]
    if "\0" in p:
        return None
    tgt = os.path.realpath(os.path.join(root, *p.split("/")[1:]) if p.startswith("/") else os.path.join(src_dir_real, *p.split("/")))
    top = page.split("/")[0]
    for d in real["dirs"]:
        if d["rel"] and os.path.islink(os.path.join(root, *d["rel"])):
            pass
    by_real_dir = {}
    for d in real["dirs"]:
        # the category of a directory is the one reached without passing through a symbolic link
        unlinked = os.path.join(root, *d["rel"]) == d["real"]
        if unlinked:
            by_real_dir[d["real"]] = d
    if tgt in by_real_dir:
        d = by_real_dir[tgt]
        t = top if top.startswith("serves") else "categories"
        return ("page", "/".join([t] + d["rel"] + ["index.html"]))
    dn, bn = os.path.dirname(tgt), os.path.basename(tgt)
    if dn in by_real_dir:
        d = by_real_dir[dn]
        if d["readme"] == bn:
            if not d["rel"]:
                return ("page", "index.html")
            t = top if top.startswith("serves") else "categories"
            return ("page", "/".join([t] + d["rel"] + ["index.html"]))
        if bn in d["recipes"]:
            text = open(tgt, encoding="utf-8").read()
            f = facts["recipes"].get(text)
            if f is None or f["err"]:
                return None
            stem = bn.rpartition(".")[0]
            if f["servings"] is None:
                return ("page", "/".join(["categories"] + d["rel"] + [stem + ".html"]))
            n = int(top[len("serves"):]) if top.startswith("serves") else f["servings"]
            return ("page", "/".join([f"serves{n}"] + d["rel"] + [stem + ".html"]))
    if tgt.startswith(root + os.sep) and os.path.isfile(tgt):
        return ("asset", "assets/" + os.path.relpath(tgt, root).replace(os.sep, "/"))
    return None


# ------------------------------------------------------------------------------------------------ cases

def site_tags(site: Dict[str, Any], obs: Dict[str, Any]) -> List[str]:
    tags = [f"profile:{site.get('profile')}", f"M:{'1' if site['M'] == 1 else '2-4' if site['M'] <= 4 else '5-12'}",
            f"input:{'/'.join(site['input'])}"]
    if "error" in obs:
        tags.append("error:" + obs["error"])
    else:
        n = len(obs["pages"])
        tags.append("pages:" + ("<20" if n < 20 else "<100" if n < 100 else ">=100"))
        if obs["assets"]:
            tags.append("has-assets")
    src = [ch for ch in site["base"]["ch"] if ch["name"] == "src"][0]
    kinds = {n["k"] for _p, n in G.walk(src)}
    if "l" in kinds:
        tags.append("symlinks")
    depth = max([len(p) for p, n in G.walk(src) if n["k"] == "d"] or [0])
    tags.append(f"depth:{depth}")
    if site.get("fault"):
        tags.append("fault:" + site["fault"])
    return tags


def make_site_case(site: Dict[str, Any], seed: int, which: str) -> Case:
    """One correspondence case of suite `site`; [which] selects the oracle (C14 | C15 | C16 | C17)."""
    keep: Dict[str, Any] = {}
    facts = collect_facts(site)
    base_holder: Dict[str, Any] = {}
    obs, viol = run_and_judge(site, seed, which, facts)
    return Case(
        input={"site": site, "seed": seed}, coq_in=coq_site_in(site, facts), coq_out=coq_site_obs(obs),
        impl=obs_json(obs), violation=viol,
        nontrivial=("error" in obs) or len(obs["pages"]) > 3, tags=site_tags(site, obs))


def run_and_judge(site: Dict[str, Any], seed: int, which: str, facts: Dict[str, Any]) -> Tuple[Dict[str, Any], Optional[str]]:
    """Run the generator and, while the scratch tree still exists, the oracle of property [which]."""
    from pathlib import Path
    from recipe_grid.static_site.website import generate_static_site
    base = os.path.realpath(tempfile.mkdtemp(prefix="rgv_site_"))
    try:
        materialise(site["base"], base, base)
        out = os.path.join(base, "__out__")
        random.seed(seed)
        obs: Dict[str, Any] = {}
        with listing_order(site["base"], base):
            try:
                generate_static_site(Path(os.path.join(base, *site["input"])), Path(out), site["M"])
            except RecursionError:
                raise
            except Exception as e:
                obs = {"error": exc_name(e), "message": str(e).replace(base, "{BASE}")[:300]}
        got = read_output(out) if os.path.isdir(out) else {"files": [], "pages": {}, "assets": {}, "_raw": {}}
        if "error" in obs:
            obs["partial_files"] = got["files"]
            obs["_raw"] = got["_raw"]
        else:
            obs = got
        real = real_facts(site, base)
        viol = None
        if which == "C14":
            viol = oracle_links(obs) or oracle_author_links(site, obs, real, facts)
        elif which == "C15":
            viol = oracle_pages(site, obs, real, facts)
            if viol is None and site.get("profile") == "valid":
                viol = oracle_asset_set(site, obs, real, facts)       # "one copy of every referenced local file - nothing extra"
        elif which == "C16":
            viol = oracle_assets(site, obs, real)
            if viol is None and site.get("profile") == "valid":
                viol = oracle_asset_set(site, obs, real, facts)
        if viol is None and which in ("C15", "C17"):
            viol = oracle_residue(obs.get("_raw", {}))
        return obs, viol
    finally:
        shutil.rmtree(base, ignore_errors=True)


def oracle_author_links(site: Dict[str, Any], obs: Dict[str, Any], real: Dict[str, Any], facts: Dict[str, Any]) -> Optional[str]:
    """C14: every author link leads to the intended page (at the page's serving count when that exists) or asset."""
    if "error" in obs:
        return None
    exp = expected_pages(site, real, facts)
    if exp.pop("__clashes__"):
        return None
    root = real["root"]
    by_rel = {tuple(d["rel"]): d for d in real["dirs"]}
    for page, e in exp.items():
        pg = obs["pages"].get(page)
        if pg is None:
            continue
        if e[0] == "home":
            d = by_rel[()]
            src_dir, text, kind = d["real"], (open(os.path.join(d["real"], d["readme"]), encoding="utf-8").read()
                                              if d["readme"] else None), "readme"
        elif e[0] == "cat":
            d = by_rel[e[2]]
            if not e[2]:
                continue                   # the root category pages show no description
            src_dir, text, kind = d["real"], (open(os.path.join(d["real"], d["readme"]), encoding="utf-8").read()
                                              if d["readme"] else None), "readme"
        elif e[0] == "rec":
            d = by_rel[e[3]]
            src_dir, text, kind = d["real"], e[1], "recipe"
        else:
            continue
        if text is None:
            continue
        if kind == "readme":
            author = [x[1] for x in facts["readmes"][text]["links"]]
        else:
            author = [i[2] for i in facts["recipes"][text]["items"] if i[0] == "L"]
        body = [v for (a, v), ctx in zip(pg["refs"], pg["ctx"]) if ctx == "body"]
        if len(body) != len(author):
            return f"{page}: {len(body)} body links, the source has {len(author)}"
        for url, shown in zip(author, body):
            want = intended_target(site, real, facts, src_dir, page, url)
            if want is None:
                sp = urlsplit(url.strip())
                if (sp.scheme or sp.netloc or sp.path == "") and shown != url.strip():
                    return f"{page}: external / in-page link {url!r} was changed to {shown!r}"
                continue
            got = _resolve(page, shown)
            if got != want[1]:
                return f"{page}: link {url!r} became {shown!r} which leads to {got!r}, intended {want[1]!r}"
            a, b = urlsplit(url.strip()), urlsplit(shown)
            if (a.query, a.fragment) != (b.query, b.fragment):
                return f"{page}: query/fragment of {url!r} not preserved in {shown!r}"
    return None


# ------------------------------------------------------------------------------------------------ listing orders

def shuffle_site(site: Dict[str, Any], seed: int) -> Dict[str, Any]:
    """The same tree listed in another order by the file system (every directory permuted)."""
    import copy
    s2 = copy.deepcopy(site)
    rng = random.Random(seed)

    def go(n: G.Node) -> None:
        rng.shuffle(n["ch"])
        for ch in n["ch"]:
            if ch["k"] == "d":
                go(ch)
    go(s2["base"])
    return s2


# ------------------------------------------------------------------------------------------------ stand-alone pages

def alone_facts_factor(scale: Any, servings: Optional[int]) -> List[Fraction]:
    return [Fraction(scale)] if scale is not None else []


def _alone_call(base: str, site: Dict[str, Any], a: Dict[str, Any]) -> Dict[str, Any]:
    from pathlib import Path
    from recipe_grid.static_site.standalone_page import generate_standalone_page
    scale = None if a["scale"] is None else Fraction(a["scale"])
    if scale is not None and scale.denominator == 1 and a.get("scale_int", True):
        scale = int(scale)
    try:
        html = generate_standalone_page(Path(os.path.join(base, *a["file"])), scale=scale, servings=a["servings"],
                                        embed_local_links=a["embed"])
    except RecursionError:
        raise
    except Exception as e:
        return {"error": exc_name(e), "message": str(e).replace(base, "{BASE}")[:300]}
    p = parse_page(html)
    return {"title": p["title"], "refs": p["refs"], "scaled": p["scaled"], "_html": html}


def coq_alone_obs(o: Dict[str, Any]) -> str:
    if "error" in o:
        return f"(AErr {cstr(o['error'])})"
    return f"(AOk {cstr(o['title'])} {cpairs([tuple(x) for x in o['refs']])} {c.lst([cstr(x) for x in o['scaled']], 'str')})"


def coq_alone_args(a: Dict[str, Any]) -> str:
    sc = c.opt(None if a["scale"] is None else cfactor(Fraction(a["scale"])), "factor")
    sv = c.opt(None if a["servings"] is None else c.n_(a["servings"]), "N")
    return f"{cpath(['B'] + list(a['file']))} {sc} {sv} {c.boolean(a['embed'])}"


def oracle_alone(site: Dict[str, Any], base: str, a: Dict[str, Any], o: Dict[str, Any], facts: Dict[str, Any]) -> Optional[str]:
    """C16 (stand-alone page): local files embedded byte-exact with the guessed media type, externals untouched, a
    link outside the recipe's directory or to a missing file aborts with the documented error."""
    if MARKER in o.get("_html", "").encode("utf-8"):
        return "stand-alone page contains bytes of a file outside the source root"
    fpath = os.path.join(base, *a["file"])
    try:
        text = open(fpath, encoding="utf-8").read()
    except OSError:
        return None
    f = facts["recipes"].get(text)
    if f is None or f["err"]:
        return None
    if a["servings"] is not None and (a["scale"] is not None or not f["servings"]):
        return None
    root = os.path.realpath(os.path.dirname(fpath))
    author = [i[2] for i in f["items"] if i[0] == "L"]
    if "<" in "".join(author):
        return None
    want_err = None
    expect: List[Optional[Tuple[str, bytes]]] = []
    if a["embed"]:
        for url in author:
            sp = urlsplit(url.strip())
            if sp.scheme or sp.netloc or sp.path == "":
                expect.append(None)
                continue
            p = unquote(sp.path)
            if "\0" in p:
                want_err = "known-f13"
                break
            tgt_unres = os.path.join(root, *p.split("/")[1:]) if p.startswith("/") else os.path.join(os.path.dirname(fpath), *p.split("/"))
            tgt = os.path.realpath(tgt_unres)
            try:
                os.path.realpath(tgt_unres, strict=True)
            except OSError as ex:
                import errno
                if ex.errno == errno.ELOOP:
                    want_err = "known-f15"      # a link through a symbolic-link loop: a documented error is due (F15)
                    break
            if not (tgt == root or tgt.startswith(root + os.sep)):
                want_err = "LinkToExternalFileError"
                break
            if not os.path.isfile(tgt):
                want_err = "LinkToNonExistentFileError"
                break
            expect.append((mimetypes.guess_type(tgt)[0] or "application/octet-stream", open(tgt, "rb").read()))
    if want_err == "known-f13":
        return None if o.get("error") in STATIC_SITE_ERRORS else f"f13: aborted with builtin {o.get('error')}"
    if want_err == "known-f15":
        return None if o.get("error") in STATIC_SITE_ERRORS else f"f15: aborted with builtin {o.get('error')}"
    if want_err is not None:
        if o.get("error") == "RuntimeError":
            return "f15: aborted with builtin RuntimeError"
        if o.get("error") == "ValueError":
            return "f13: aborted with builtin ValueError"
        return None if o.get("error") == want_err else f"expected {want_err}, got {o.get('error', 'a page')}"
    if "error" in o:
        if o["error"] == "RuntimeError":
            return "f15: aborted with builtin RuntimeError"
        return f"unexpected {o['error']}: {o.get('message')}"
    # the scale: every rg-scaled-value (title count, prose, tables) as an independent render at the exact factor
    if a["scale"] is not None:
        fac = Fraction(a["scale"])
    elif a["servings"] is not None:
        fac = Fraction(a["servings"], f["servings"])
    else:
        fac = Fraction(1)
    want_scaled = f["scaled"].get(str(fac))
    if want_scaled is None:
        return f"harness has no independent rendering at {fac}"
    if o["scaled"] != want_scaled:
        return (f"scaled values {o['scaled'][:6]} differ from compile_markdown(text).render({fac}) = {want_scaled[:6]}")
    shown = [v for _a, v in o["refs"]]
    if len(shown) != len(author):
        return f"{len(shown)} links on the page, the source has {len(author)}"
    for i, (url, got) in enumerate(zip(author, shown)):
        e = expect[i] if a["embed"] else None
        if e is None:
            if got.strip() != url.strip():
                return f"link {url!r} was changed to {got[:60]!r}"
            continue
        mime, data = e
        pre = f"data:{mime};base64,"
        if not got.startswith(pre):
            return f"link {url!r}: data URL does not start with {pre!r}: {got[:60]!r}"
        payload = got[len(pre):]
        if "=" in payload.rstrip("=") or len(payload) % 4 != 0:
            return f"link {url!r}: the data URL is not one base64 payload (padding inside / wrong length: {len(payload)} characters)"
        try:
            decoded = base64.b64decode(payload, validate=True)
        except Exception as e:
            return f"link {url!r}: the data URL does not decode as base64 ({type(e).__name__})"
        if decoded != data:
            return f"link {url!r}: embedded bytes differ from the file"
    return None


def make_alone_case(site: Dict[str, Any], a: Dict[str, Any], seed: int) -> Case:
    facts = collect_facts(site, alone_facts_factor(a["scale"], a["servings"]),
                          [a["servings"]] if a["servings"] is not None else [])
    base = os.path.realpath(tempfile.mkdtemp(prefix="rgv_site_"))
    try:
        materialise(site["base"], base, base)
        random.seed(seed)
        o = _alone_call(base, site, a)
        viol = oracle_alone(site, base, a, o, facts)
    finally:
        shutil.rmtree(base, ignore_errors=True)
    tags = ["embed" if a["embed"] else "no-embed",
            "scale" if a["scale"] is not None else "servings" if a["servings"] is not None else "unscaled",
            ("error:" + o["error"]) if "error" in o else "page"]
    if "error" not in o and any(v.startswith("data:") for _k, v in o["refs"]):
        tags.append("has-data-url")
    if a["servings"] is not None and a["servings"] > 12:
        tags.append("servings>12")
    if site.get("alone_fault"):
        tags.append("alone:" + site["alone_fault"])
    fr = facts["recipes"].get(next((n_["text"] for p_, n_ in G.walk(site["base"]) if list(p_) == list(a["file"]) and "text" in n_), None))
    if fr and not fr["err"] and fr["servings"] and a["servings"] is not None and a["scale"] is None:
        den = Fraction(a["servings"], fr["servings"]).denominator
        tags.append("factor-denominator:" + ("<=16" if den <= 16 else ">16"))
    coq_in = f"(mk_alone_in {coq_fs(site)} {coq_alone_args(a)} {coq_env(facts)})"
    impl = {k: v for k, v in o.items() if k != "_html"}
    if "refs" in impl:
        impl["refs"] = [[k, v[:80]] for k, v in impl["refs"]]
    return Case(input={"site": site, "alone": a, "seed": seed}, coq_in=coq_in, coq_out=coq_alone_obs(o), impl=impl,
                violation=viol, nontrivial=bool(o.get("refs")) or "error" in o, tags=tags)


BIG_NATIVES = [17, 19, 20, 23, 24, 27, 29, 30, 31, 36, 37, 40]


def pick_alone_big(rng: random.Random, site: Dict[str, Any]) -> Optional[Dict[str, Any]]:
    """A recipe that states a large serving count, asked for a count coprime to it: n / native has a large
    denominator in lowest terms (5/24, 7/20, 30/17 ...)."""
    import math
    recs = [(p, n) for p, n in G.walk(site["base"]) if n["k"] == "f" and "text" in n and p[0] == "src"
            and G.is_md_name(n["name"]) and not G.is_readme_name(n["name"])]
    if not recs:
        return None
    p, n = rng.choice(recs)
    native = rng.choice(BIG_NATIVES)
    lines = n["text"].split("\n")
    heading = "# " + rng.choice(G.TITLES) + rng.choice([" for ", " serves ", " makes "]) + str(native)
    idx = [i for i, ln in enumerate(lines) if ln.startswith("# ")]
    if idx:
        lines[idx[0]] = heading
    else:
        lines = [heading, ""] + lines
    if not any("{" in ln for ln in lines):
        lines += ["", "Use {3} eggs and {1/2} cup of milk, then {250}g flour.", ""]
    n["text"] = "\n".join(lines)
    want = [m for m in range(1, 46) if math.gcd(m, native) == 1 and m != 1]
    return {"file": list(p), "scale": None, "servings": rng.choice(want), "embed": rng.random() < 0.3}


def pick_alone_sibling(rng: random.Random, site: Dict[str, Any]) -> Optional[Dict[str, Any]]:
    """A stand-alone page (root = the recipe's directory) linking into a SIBLING directory whose name starts with the
    name of the recipe's directory: outside by components, inside for a string-prefix test."""
    recs = [(p, n) for p, n in G.walk(site["base"]) if n["k"] == "f" and "text" in n and p[0] == "src"
            and G.is_md_name(n["name"]) and not G.is_readme_name(n["name"])]
    if not recs:
        return None
    p, n = rng.choice(recs)
    dname = p[-2]
    parent = G.find(site["base"], p[:-2])
    here = G.find(site["base"], p[:-1])
    assert parent is not None and here is not None
    sib = dname + rng.choice(["-private", "2", ".bak", " copy"])
    if dname.swapcase() != dname and rng.random() < 0.4:
        sib = rng.choice([dname.swapcase(), dname.upper() if dname.upper() != dname else dname.lower()])   # a case twin
    if not any(ch["name"] == sib for ch in parent["ch"]):
        parent["ch"].append(G.D(sib, [G.F("secret.bin", data=b"\x02SIBLING-OF-STANDALONE-ROOT\xfd"),
                                      G.D("deep", [G.F("s.txt", text="sibling deep\n")])]))
    tail = rng.choice(["secret.bin", "deep/s.txt"])
    form = rng.choice(["rel", "abs", "encoded", "symlink", "dir-symlink"])
    if form == "rel":
        url = "../" + quote(sib, safe="") + "/" + tail
    elif form == "abs":
        url = "/../" + quote(sib, safe="") + "/" + tail
    elif form == "encoded":
        url = "%2E%2E/" + "".join("%%%02X" % b for b in sib.encode("utf-8")) + "/" + tail
    elif form == "symlink":
        here["ch"] = [ch for ch in here["ch"] if ch["name"] != "peek.bin"] + [G.L("peek.bin", "../" + sib + "/secret.bin")]
        url = "peek.bin"
    else:
        here["ch"] = [ch for ch in here["ch"] if ch["name"] != "peekdir"] + [G.L("peekdir", "../" + sib)]
        url = "peekdir/" + tail
    head = n["text"].split("\n\n")[0]
    if not head.startswith("# "):
        head = "# Sibling"
    n["text"] = head + "\n\nSee " + G.md_link(rng, url, rng.random() < 0.4) + "\n\n    2 eggs\n"
    site["alone_fault"] = "sibling-" + form
    return {"file": list(p), "scale": None, "servings": None, "embed": True}


def pick_alone_large(rng: random.Random, site: Dict[str, Any]) -> Optional[Dict[str, Any]]:
    """A stand-alone page embedding a file strictly larger than 64 KiB (65537, 70000, 131073 bytes)."""
    recs = [(p, n) for p, n in G.walk(site["base"]) if n["k"] == "f" and "text" in n and p[0] == "src"
            and G.is_md_name(n["name"]) and not G.is_readme_name(n["name"])]
    if not recs:
        return None
    p, n = rng.choice(recs)
    here = G.find(site["base"], p[:-1])
    assert here is not None
    size = rng.choice([65537, 65537, 70000, 131073])
    blob = rng.randbytes(size)
    nm = rng.choice(["big photo.jpg", "big+data.bin", "large"])
    here["ch"] = [ch for ch in here["ch"] if ch["name"] != nm] + [G.F(nm, data=blob)]
    head = n["text"].split("\n\n")[0]
    if not head.startswith("# "):
        head = "# Large"
    n["text"] = head + "\n\nSee " + G.md_link(rng, quote(nm, safe="+"), rng.random() < 0.5) + "\n\n    2 eggs\n"
    site["alone_fault"] = "large-file-%d" % size
    return {"file": list(p), "scale": None, "servings": None, "embed": True}


def pick_alone_symlink(rng: random.Random, site: Dict[str, Any]) -> Optional[Dict[str, Any]]:
    """The recipe FILE handed to the stand-alone generator is itself a symbolic link to a file in another directory
    (inside the tree or outside it).  The root stays the directory of the link as given: a file next to the link is
    embedded, a file next to the link's target is outside."""
    src = [c_ for c_ in site["base"]["ch"] if c_["name"] == "src"][0]
    outside = [c_ for c_ in site["base"]["ch"] if c_["name"] == "outside"][0]
    dirs = [((), src)] + [(p, n) for p, n in G.walk(src) if n["k"] == "d"]
    lp, ldir = rng.choice(dirs)                       # where the link lives
    to_outside = rng.random() < 0.4
    if to_outside:
        tdir, tparts = outside, None
    else:
        others = [(p, n) for p, n in dirs if p != lp]
        if not others:
            src["ch"].append(G.D("elsewhere", []))
            others = [(("elsewhere",), src["ch"][-1])]
        tparts, tdir = rng.choice(others)
    near, far = "near the link.bin", "far-next-to-target.bin"
    for d_, nm in ((ldir, near), (tdir, far)):
        d_["ch"] = [ch for ch in d_["ch"] if ch["name"] != nm] + [G.F(nm, data=bytes(rng.randrange(256) for _ in range(16)))]
    real_name = "real target.md"
    if to_outside:
        target = "{BASE}/outside/" + real_name
        far_url = "/".join([".."] * (len(lp) + 1)) + "/outside/" + quote(far, safe="")
    else:
        target = "/".join([".."] * len(lp) + list(tparts) + [real_name])
        far_url = "/".join([".."] * len(lp) + [quote(x, safe="") for x in tparts] + [quote(far, safe="")])
    which = rng.choice(["near", "near", "far", "both"])
    links = []
    if which in ("near", "both"):
        links.append(G.md_link(rng, rng.choice(["", "./"]) + quote(near, safe=""), rng.random() < 0.5))
    if which in ("far", "both"):
        links.append(G.md_link(rng, far_url, rng.random() < 0.5))
    text = "# Linked recipe for 2\n\n" + "\n\n".join("See " + l for l in links) + "\n\n    2 eggs\n"
    tdir["ch"] = [ch for ch in tdir["ch"] if ch["name"] != real_name] + [G.F(real_name, text=text)]
    alias = "alias.md"
    ldir["ch"] = [ch for ch in ldir["ch"] if ch["name"] != alias] + [G.L(alias, target)]
    site["alone_fault"] = "input-is-symlink-" + ("outside" if to_outside else "inside") + "-" + which
    return {"file": ["src"] + list(lp) + [alias], "scale": None, "servings": rng.choice([None, None, 3]), "embed": True}


def pick_alone(rng: random.Random, site: Dict[str, Any]) -> Optional[Dict[str, Any]]:
    recs = [(p, n) for p, n in G.walk(site["base"]) if n["k"] == "f" and "text" in n and p[0] == "src"
            and G.is_md_name(n["name"]) and not G.is_readme_name(n["name"])]
    if not recs:
        return None
    p, _n = rng.choice(recs)
    mode = rng.choice(["plain", "plain", "scale", "scale", "servings", "servings", "both"])
    scale = servings = None
    if mode in ("scale", "both"):
        scale = str(rng.choice([Fraction(2), Fraction(3), Fraction(1, 2), Fraction(3, 2), Fraction(1), Fraction(10, 3)]))
    if mode in ("servings", "both"):
        servings = rng.choice([1, 2, 3, 5, 7])
    return {"file": list(p), "scale": scale, "servings": servings, "embed": rng.random() < 0.75}


# ------------------------------------------------------------------------------------------------ histories (C17)

def _fresh_hash(base: str, inp: Sequence[str], M: int) -> str:
    """The same generation in a fresh interpreter (empty compile cache, default directory listing, own RNG)."""
    import json
    import subprocess
    import sys
    out = tempfile.mkdtemp(prefix="rgv_fresh_")
    try:
        code = ("import sys, json\nfrom pathlib import Path\n"
                "from recipe_grid.static_site.website import generate_static_site\n"
                "try:\n    generate_static_site(Path(sys.argv[1]), Path(sys.argv[2]), int(sys.argv[3]))\n"
                "    print('ok')\nexcept Exception as e:\n    print('error:' + type(e).__name__)\n")
        p = subprocess.run([sys.executable, "-c", code, os.path.join(base, *inp), os.path.join(out, "o"), str(M)],
                           capture_output=True, text=True, timeout=300,
                           env=dict(os.environ, PYTHONHASHSEED=str(1 + (hash((base, M, tuple(inp))) % 4000000000))))
        res = p.stdout.strip().splitlines()[-1] if p.stdout.strip() else "crash:" + p.stderr[-200:]
        if res != "ok":
            return res
        got = read_output(os.path.join(out, "o"))
        return site_hash(got)
    finally:
        shutil.rmtree(out, ignore_errors=True)


def apply_write(site: Dict[str, Any], parts: Sequence[str], text: Optional[str], hexdata: Optional[str] = None) -> None:
    d = G.find(site["base"], parts[:-1])
    assert d is not None and d["k"] == "d"
    new = {"k": "f", "name": parts[-1]}
    if text is not None:
        new["text"] = text
    else:
        new["hex"] = hexdata or ""
    for ch in d["ch"]:
        if ch["name"] == parts[-1]:
            ch.clear()
            ch.update(new)
            return
    d["ch"].append(new)


def generate_noise_site(n: int, M: int, seed: int) -> None:
    """Compile and generate an unrelated site of [n] distinct recipes in this process (its own scratch directory):
    more distinct documents than the compile cache holds."""
    from pathlib import Path
    from recipe_grid.static_site.website import generate_static_site
    d = tempfile.mkdtemp(prefix="rgv_noise_")
    try:
        src = os.path.join(d, "src")
        os.mkdir(src)
        for i in range(n):
            with open(os.path.join(src, "n%d.md" % i), "w") as f:
                f.write("# Noise %d-%d for %d\n\nFiller {%d} and {%d}\n\n    %d eggs\n    %dg flour\n    mix(eggs, flour)\n"
                        % (seed, i, 1 + i % 3, 2 + i, 5 + 3 * i, 1 + i % 7, 100 + i))
        generate_static_site(Path(src), Path(os.path.join(d, "out")), M)
        # every page of the filler site must show its own recipe
        for i in range(n):
            for k in range(1, M + 1):
                page = open(os.path.join(d, "out", "serves%d" % k, "n%d.html" % i), encoding="utf-8").read()
                if ("Noise %d-%d " % (seed, i)) not in page or ("Filler" not in page):
                    raise AssertionError("page serves%d/n%d.html of the filler site does not show recipe 'Noise %d-%d'"
                                         % (k, i, seed, i))
    finally:
        shutil.rmtree(d, ignore_errors=True)


def make_history_case(site: Dict[str, Any], steps: List[Dict[str, Any]], seed: int, fresh: bool = True,
                      oracles: Sequence[str] = ()) -> Case:
    """steps: {"op": "gen", "M": n, "order": seed|None, "rng": seed, "reuse_out": bool}
    | {"op": "write", "file": parts, "text": str | "hex": str, "keep_times": bool}
    | {"op": "alone", ...pick_alone fields...}
    | {"op": "noise", "n": recipes, "M": m, "seed": s}   an unrelated site generated in between (not part of the
      model's history: it can only matter through process-wide caches)
    One process, one scratch tree, the steps in order.  [oracles]: "links" / "assets" run on every generation."""
    import copy
    from pathlib import Path
    from recipe_grid.static_site.website import generate_static_site
    cur = copy.deepcopy(site)
    all_texts_site = copy.deepcopy(site)          # a site that contains every text ever written (for the facts)
    extra: List[Fraction] = []
    extra_sv: List[int] = []
    maxM = site["M"]
    for st in steps:
        if st["op"] == "write":
            if "text" in st:
                all_texts_site["base"]["ch"].append({"k": "f", "name": "w%d" % len(all_texts_site["base"]["ch"]), "text": st["text"]})
        elif st["op"] == "noise":
            pass
        elif st["op"] == "gen":
            maxM = max(maxM, st["M"])
        elif st["op"] == "alone":
            if st["scale"] is not None:
                extra.append(Fraction(st["scale"]))
            if st["servings"] is not None:
                extra_sv.append(st["servings"])
    all_texts_site["M"] = maxM
    facts = collect_facts(all_texts_site, extra, extra_sv)
    base = os.path.realpath(tempfile.mkdtemp(prefix="rgv_site_"))
    obs_terms: List[str] = []
    step_terms: List[str] = []
    digest: List[Any] = []
    viol: Optional[str] = None
    try:
        materialise(cur["base"], base, base)
        k = 0
        for st in steps:
            if st["op"] == "noise":
                try:
                    generate_noise_site(st["n"], st["M"], st["seed"])
                except RecursionError:
                    raise
                except Exception as e:      # the filler site is self-contained and valid: it must generate
                    if viol is None:
                        viol = (f"an unrelated, valid site of {st['n']} recipes generated in the same process raised "
                                f"{type(e).__name__}: {str(e)[:160]}")
            elif st["op"] == "write":
                wdata = st["text"].encode("utf-8") if "text" in st else bytes.fromhex(st["hex"])
                apply_write(cur, st["file"], st.get("text"), st.get("hex"))
                wpath = os.path.join(base, *st["file"])
                old_stat = os.stat(wpath) if (st.get("keep_times") and os.path.exists(wpath)) else None
                with open(wpath, "wb") as f:
                    f.write(wdata)
                if old_stat is not None:
                    # an in-place edit that leaves size and timestamps as they were (rsync -t, git checkout, a fast editor)
                    assert os.stat(wpath).st_size == old_stat.st_size
                    os.utime(wpath, ns=(old_stat.st_atime_ns, old_stat.st_mtime_ns))
                step_terms.append(f"(HWrite {cpath(['B'] + list(st['file']))} {cbytes(wdata)})")
            elif st["op"] == "gen":
                out = os.path.join(base, "__out_shared__" if st.get("reuse_out") else "__out%d__" % k)
                k += 1
                listed = cur if st.get("order") is None else shuffle_site(cur, st["order"])
                random.seed(st.get("rng", 0))
                o: Dict[str, Any] = {}
                with listing_order(listed["base"], base):
                    try:
                        generate_static_site(Path(os.path.join(base, *cur["input"])), Path(out), st["M"])
                    except RecursionError:
                        raise
                    except Exception as e:
                        o = {"error": exc_name(e), "message": str(e).replace(base, "{BASE}")[:300]}
                if "error" not in o:
                    o = read_output(out)
                    if viol is None:
                        viol = oracle_residue(o["_raw"])
                    if viol is None and "links" in oracles:
                        viol = oracle_links(o)
                    if viol is None and "assets" in oracles:
                        viol = oracle_assets(cur, o, real_facts(cur, base))
                    if viol is None and "pages" in oracles:
                        viol = oracle_pages(dict(cur, M=st["M"]), o, real_facts(cur, base), facts)
                    if viol is not None and not viol.startswith("generation"):
                        viol = f"generation {k}: " + viol
                if not st.get("reuse_out"):
                    shutil.rmtree(out, ignore_errors=True)
                step_terms.append(f"(HGenerate {cpath(['B'] + list(cur['input']))} {c.n_(st['M'])})")
                obs_terms.append(f"(HSite {coq_site_obs(o)})")
                digest.append(obs_json(o))
                if fresh and viol is None:
                    fh = _fresh_hash(base, cur["input"], st["M"])
                    mine = site_hash(o) if "error" not in o else "error:" + o["error"]
                    if fh.startswith("error:") and mine.startswith("error:"):
                        pass
                    elif fh != mine:
                        viol = (f"generation {k} in the long-lived process (listing order seed {st.get('order')}, RNG seed "
                                f"{st.get('rng')}) differs from the same generation in a fresh process: {mine[:16]} vs {fh[:16]}")
            else:
                random.seed(st.get("rng", 0))
                o = _alone_call(base, cur, st)
                if viol is None and "alone" in oracles:
                    viol = oracle_alone(cur, base, st, o, facts)
                    if viol is not None:
                        viol = f"stand-alone page #{len(obs_terms) + 1} of the history: " + viol
                step_terms.append(f"(HAlone {coq_alone_args(st)})")
                obs_terms.append(f"(HAl {coq_alone_obs(o)})")
                digest.append({kk: vv for kk, vv in o.items() if kk not in ("_html", "refs")})
    finally:
        shutil.rmtree(base, ignore_errors=True)
    coq_in = f"(mk_hist_in {coq_fs(site)} {coq_env(facts)} {c.lst(step_terms, 'hstep')})"
    ngen = sum(1 for s_ in steps if s_["op"] == "gen")
    tags = [f"gens:{ngen}", f"writes:{sum(1 for s_ in steps if s_['op'] == 'write')}"]
    if any(s_["op"] == "alone" for s_ in steps):
        tags.append("with-standalone")
    if any(s_.get("keep_times") for s_ in steps):
        tags.append("same-length-edit-mtime-preserved")
    gens = [s_ for s_ in steps if s_["op"] == "gen"]
    if any(b["M"] < a["M"] for a, b in zip(gens, gens[1:])):
        tags.append("smaller-M-after-larger")
    if any(a.get("rng") == b.get("rng") for a, b in zip(gens, gens[1:])):
        tags.append("same-rng-seed-twice")
    if any(s_.get("reuse_out") for s_ in steps):
        tags.append("same-output-directory")
    if any(b["M"] > a["M"] and b.get("reuse_out") for a, b in zip(gens, gens[1:])):
        tags.append("larger-M-into-same-directory")
    if any(s_["op"] == "noise" for s_ in steps):
        tags.append("noise-site-between")
    if any("hex" in s_ for s_ in steps if s_["op"] == "write"):
        tags.append("asset-edit")
    return Case(input={"site": site, "steps": steps, "seed": seed, "oracles": list(oracles)}, coq_in=coq_in, coq_out=c.lst(obs_terms, "hobs"),
                impl=digest, violation=viol, nontrivial=ngen >= 2, tags=tags)


def same_length_edit(rng: random.Random, text: str, M: int) -> Optional[str]:
    """Another document of exactly the same byte length: one ASCII digit replaced (a quantity, a scaled value, the
    serving count of the title - kept within 1..M), or the case of one ASCII letter of the first line flipped."""
    lines = text.split("\n")
    first = 0
    spots = []           # (offset, allowed replacement digits)
    off = 0
    for li, ln in enumerate(lines):
        for ci, ch in enumerate(ln):
            if ch.isdigit() and ch.isascii():
                in_title = ln.startswith("# ")
                prev_digit = ci > 0 and ln[ci - 1].isdigit()
                next_digit = ci + 1 < len(ln) and ln[ci + 1].isdigit()
                if in_title:
                    if prev_digit or next_digit:
                        continue
                    allowed = [d for d in "123456789" if int(d) <= M and d != ch]
                else:
                    allowed = [d for d in "123456789" if d != ch]
                if allowed:
                    spots.append((off + ci, allowed))
        off += len(ln) + 1
    if spots:
        o, allowed = rng.choice(spots)
        return text[:o] + rng.choice(allowed) + text[o + 1:]
    for i, ch in enumerate(lines[0]):
        if ch.isascii() and ch.isalpha() and i > 1:
            return text[:i] + ch.swapcase() + text[i + 1:]
    return None


def quantity_edit(rng: random.Random, text: str) -> Optional[str]:
    """Another document that differs only INSIDE a recipe block or a {scaled value} (any length): the Markdown around
    it - and hence the compiled template - is unchanged."""
    lines = text.split("\n")
    spots = []
    fenced = False
    for i, ln in enumerate(lines):
        if ln.startswith("```"):
            fenced = not fenced
            continue
        m = _re.match(r"^(    )(\d+)(.*)$", ln) if not fenced else _re.match(r"^()(\d+)(.*)$", ln)
        if m and not m.group(3).startswith("/") and not m.group(3).startswith("."):
            spots.append((i, m))
    if spots:
        i, m = rng.choice(spots)
        new = str(rng.choice([x for x in (2, 3, 4, 5, 7, 12, 25, 150) if str(x) != m.group(2)]))
        lines[i] = m.group(1) + new + m.group(3)
        return "\n".join(lines)
    m2 = list(_re.finditer(r"\{(\d+)\}", text))
    if m2:
        m = rng.choice(m2)
        new = str(rng.choice([x for x in (2, 3, 5, 8, 11, 40) if str(x) != m.group(1)]))
        return text[:m.start(1)] + new + text[m.end(1):]
    return None


def gen_history(rng: random.Random, site: Dict[str, Any]) -> List[Dict[str, Any]]:
    """Generations interleaved with edits that are fully visible in the next generation: a recipe's servings and
    scaled text change, a title changes (re-ordering category lists), a readme title changes; other generations
    (another M, a stand-alone page) in between warm the cache."""
    recs = [(p, n) for p, n in G.walk(site["base"]) if n["k"] == "f" and "text" in n and p[0] == "src"
            and G.is_md_name(n["name"])]
    steps: List[Dict[str, Any]] = [{"op": "gen", "M": site["M"], "order": rng.randrange(10 ** 6), "rng": rng.randrange(10 ** 6)}]
    cur_text = {tuple(p): n["text"] for p, n in recs}
    for _ in range(rng.randrange(1, 4)):
        r = rng.random()
        if r < 0.55 and recs:
            p, n = rng.choice(recs)
            old = cur_text[tuple(p)]
            if G.is_readme_name(n["name"]):
                new = old.replace("# ", "# Edited ", 1) if old.startswith("# ") else old + "\nMore.\n"
            else:
                kind = rng.choice(["servings", "title", "body", "swap"])
                if kind == "swap" and len(recs) > 1:
                    q, _m = rng.choice(recs)
                    new = cur_text[tuple(q)] if not G.is_readme_name(q[-1]) else old + "\nSwapped {7}\n"
                elif kind == "title":
                    new = old.replace("# ", "# " + rng.choice(["Aardvark ", "Zzz ", "É "]), 1) if "# " in old else old + "\nx\n"
                elif kind == "servings":
                    new = "# " + rng.choice(G.TITLES) + " for " + str(rng.randrange(1, site["M"] + 1)) + "\n\nNow {3} and {1/2}\n\n    5 eggs\n"
                else:
                    new = old + "\nAdded later {%d}\n" % rng.randrange(2, 9)
            cur_text[tuple(p)] = new
            steps.append({"op": "write", "file": list(p), "text": new})
            steps.append({"op": "gen", "M": site["M"], "order": rng.randrange(10 ** 6), "rng": rng.randrange(10 ** 6)})
        elif r < 0.75:
            steps.append({"op": "gen", "M": rng.randrange(site["M"], site["M"] + 3), "order": rng.randrange(10 ** 6),
                          "rng": rng.randrange(10 ** 6)})
        else:
            a = pick_alone(rng, site)
            if a is not None:
                a.update({"op": "alone", "rng": rng.randrange(10 ** 6)})
                steps.append(a)
    # the same tree again with a SMALLER max_servings after a larger one: nothing of the larger build may survive
    if rng.random() < 0.6:
        big = site["M"] + rng.randrange(2, 5)
        steps.append({"op": "gen", "M": big, "order": rng.randrange(10 ** 6), "rng": rng.randrange(10 ** 6)})
        steps.append({"op": "gen", "M": site["M"], "order": rng.randrange(10 ** 6), "rng": rng.randrange(10 ** 6)})
    # the random generator put back into the SAME state before each of two generations, with an edit inside a recipe
    # block / scaled value of one recipe before each: both edits must show
    if rng.random() < 0.7:
        cands = [(p, n) for p, n in recs if not G.is_readme_name(n["name"])]
        rng.shuffle(cands)
        for p, n in cands:
            t1 = quantity_edit(rng, cur_text[tuple(p)])
            t2 = quantity_edit(rng, t1) if t1 is not None else None
            if t1 is None or t2 is None or t1 == cur_text[tuple(p)] or t2 == t1:
                continue
            s0 = rng.randrange(10 ** 6)
            if steps[-1]["op"] != "gen":
                steps.append({"op": "gen", "M": site["M"], "order": rng.randrange(10 ** 6), "rng": rng.randrange(10 ** 6)})
            steps.append({"op": "write", "file": list(p), "text": t1})
            steps.append({"op": "gen", "M": site["M"], "order": rng.randrange(10 ** 6), "rng": s0})
            steps.append({"op": "write", "file": list(p), "text": t2})
            steps.append({"op": "gen", "M": site["M"], "order": rng.randrange(10 ** 6), "rng": s0})
            cur_text[tuple(p)] = t2
            break
    # in-place edits of the same length with the timestamps put back (recipes and readmes): the second generation
    # must show the new text although path, size and mtime are unchanged
    for _ in range(rng.randrange(1, 3)):
        cands = [(p, n) for p, n in recs]
        rng.shuffle(cands)
        for p, n in cands:
            new = same_length_edit(rng, cur_text[tuple(p)], site["M"])
            if new is not None and new != cur_text[tuple(p)] and len(new.encode("utf-8")) == len(cur_text[tuple(p)].encode("utf-8")):
                if steps[-1]["op"] != "gen":
                    steps.append({"op": "gen", "M": site["M"], "order": rng.randrange(10 ** 6), "rng": rng.randrange(10 ** 6)})
                cur_text[tuple(p)] = new
                steps.append({"op": "write", "file": list(p), "text": new, "keep_times": True})
                steps.append({"op": "gen", "M": site["M"], "order": rng.randrange(10 ** 6), "rng": rng.randrange(10 ** 6)})
                break
    if steps[-1]["op"] != "gen":
        steps.append({"op": "gen", "M": site["M"], "order": rng.randrange(10 ** 6), "rng": rng.randrange(10 ** 6)})
    # last: a recipe gets a first heading with a {..} value in the middle - no title can be taken from it; the long-lived
    # and the fresh process must agree on that
    cands = [(p, n) for p, n in recs if not G.is_readme_name(n["name"])]
    if cands and rng.random() < 0.3:
        p, _n = rng.choice(cands)
        steps.append({"op": "write", "file": list(p), "text": rng.choice(["# Pancakes {3} ways for 2\n\nText {2}\n",
                                                                          "# Feeds about {4} people\n\n    2 eggs\n",
                                                                          "# T for 2\n\n    2 eggs\n\n```recipe\n```\n",
                                                                          "# T\n\n```recipe\n\n  \n```\n\nx {3}\n\n```recipe\n1 egg\n```\n"])})
        steps.append({"op": "gen", "M": site["M"], "order": rng.randrange(10 ** 6), "rng": rng.randrange(10 ** 6)})
    return steps


# ------------------------------------------------------------------------------------------------ suites

def site_suite(cases: Optional[List[Case]] = None) -> Suite:
    return Suite(name="site", imports=IMPORTS, in_ty="site_in", out_ty="site_obs", check="check_site",
                 show="show_site", shard=3, cases=cases or [])


def big_site_suite(cases: Optional[List[Case]] = None) -> Suite:
    return Suite(name="site-bigM", imports=IMPORTS, in_ty="site_in", out_ty="site_obs", check="check_site_sample",
                 show="show_site", shard=1, cases=cases or [])


def _big_m_job(args: Tuple[int, int, str]) -> Case:
    """A tiny tree with a recipe written for MORE THAN 256 servings (max_servings just above), which the readme and a
    second recipe link to.  All files, the link checker and the intended-target oracle run on the whole site; of the
    ~600 pages a sample goes to the model comparison."""
    seed, i, which = args
    rng = random.Random((seed * 1000003 + i) * 7 + 13)
    native = rng.choice([257, 300, 300, 260])
    M = native + rng.choice([0, 1])
    big = "# Banquet stew for %d\n\nFeeds {%d} easily\n\n    %d potatoes\n" % (native, native, 2 * native)
    other = "# Side\n\nGoes with [the stew](banquet%20stew.md) and [again](/banquet%20stew.md#top)\n\n    2 eggs\n"
    readme = "# Big kitchen\n\nTry [the banquet stew](banquet%20stew.md) or <a href='./banquet%20stew.md?x=1'>this</a>\n"
    src = G.D("src", [G.F("banquet stew.md", text=big), G.F("side.md", text=other), G.F("README.md", text=readme)])
    rng.shuffle(src["ch"])
    site = {"M": M, "input": ["src"], "profile": "valid", "base": G.D("", [src, G.D("outside", [])])}
    facts = collect_facts(site)
    obs, viol = run_and_judge(site, seed * 100000 + i, which, facts)
    sample = dict(obs)
    if "error" not in obs:
        keep = {"index.html", "categories/index.html", "categories/side.html", "serves1/index.html",
                "serves%d/index.html" % M, "serves1/banquet stew.html", "serves%d/banquet stew.html" % native,
                "serves%d/banquet stew.html" % rng.randrange(2, native)}
        sample["pages"] = {k: v for k, v in obs["pages"].items() if k in keep}
    return Case(input={"site": site, "seed": seed * 100000 + i}, coq_in=coq_site_in(site, facts), coq_out=coq_site_obs(sample),
                impl=obs_json(obs), violation=viol, nontrivial=True, tags=site_tags(site, obs) + ["native>256"])


def gen_big_m_cases(seed: int, n: int, which: str) -> List[Case]:
    return pmap(_big_m_job, [(seed, i, which) for i in range(n)])


def alone_suite(cases: Optional[List[Case]] = None) -> Suite:
    return Suite(name="alone", imports=IMPORTS, in_ty="alone_in", out_ty="alone_obs", check="check_alone",
                 show="show_alone", shard=8, cases=cases or [])


def history_suite(cases: Optional[List[Case]] = None) -> Suite:
    return Suite(name="site-history", imports=IMPORTS, in_ty="hist_in", out_ty="(list hobs)", check="check_history",
                 show="show_history", shard=2, cases=cases or [])


def _site_job(args: Tuple[str, int, int, str, str]) -> Case:
    which, seed, i, profile, size = args
    rng = random.Random((seed * 1000003 + i) * 7 + 3)
    site = G.gen_site(rng, profile, size)
    return make_site_case(site, seed * 100000 + i, which)


def _alone_job(args: Tuple[int, int, str]) -> Optional[Case]:
    seed, i, profile = args
    rng = random.Random((seed * 1000003 + i) * 7 + 5)
    if profile == "large":
        site = G.gen_site(rng, "valid", "small")
        a = pick_alone_large(rng, site)
        return None if a is None else make_alone_case(site, a, seed * 100000 + i)
    site = G.gen_site(rng, profile, rng.choice(["small", "small", "medium"]))
    if profile == "valid" and rng.random() < 0.6:
        add_local_links(rng, site)
    r = rng.random()
    if profile == "valid" and r < 0.3:
        a = pick_alone_big(rng, site)
    elif profile == "valid" and r < 0.5:
        a = pick_alone_sibling(rng, site)
    elif profile == "valid" and r < 0.65:
        a = pick_alone_symlink(rng, site)
    elif profile == "valid" and r < 0.71:
        a = pick_alone_large(rng, site)
    else:
        a = pick_alone(rng, site)
    if a is None:
        return None
    return make_alone_case(site, a, seed * 100000 + i)


def add_local_links(rng: random.Random, site: Dict[str, Any]) -> None:
    """Give some recipes links to files in or below their own directory (what a stand-alone page can embed)."""
    src = [c_ for c_ in site["base"]["ch"] if c_["name"] == "src"][0]
    for p, n in list(G.walk(src)):
        if n["k"] == "f" and "text" in n and G.is_md_name(n["name"]) and not G.is_readme_name(n["name"]):
            d = G.find(src, p[:-1])
            assert d is not None
            locals_ = [ch for ch in d["ch"] if ch["k"] == "f" and ch is not n] + \
                      [ch for ch in d["ch"] if ch["k"] == "l" and ch["name"] in ("lnk.png", "alias", "sym link.bin", "l#nk")]
            if not locals_ or rng.random() < 0.3:
                continue
            extra = []
            for ch in rng.sample(locals_, k=min(len(locals_), rng.randrange(1, 3))):
                style = rng.choice(["plain", "over", "lower", "rawuni"])
                url = G.spell(rng, (), (ch["name"],), rng.choice(["rel", "abs"]), style) + rng.choice(G.QUERIES) + rng.choice(G.FRAGS)
                extra.append(G.md_link(rng, url, rng.random() < 0.5))
            # replace the body: only local links (a link to a page elsewhere would abort the stand-alone page)
            head = n["text"].split("\n\n")[0]
            n["text"] = head + "\n\n" + "\n\n".join("See " + e for e in extra) + "\n\n    2 eggs\n"


def pmap(f, items, jobs: int = 14):
    import multiprocessing as mp
    if len(items) < 4:
        return [f(x) for x in items]
    with mp.get_context("fork").Pool(jobs) as pool:
        return pool.map(f, items, chunksize=1)


def gen_site_cases(which: str, seed: int, plan: Sequence[Tuple[str, str, int]]) -> List[Case]:
    """plan: (profile, size, count) triples."""
    jobs = []
    i = 0
    for profile, size, count in plan:
        for _ in range(count):
            jobs.append((which, seed, i, profile, size))
            i += 1
    return pmap(_site_job, jobs)


def gen_alone_cases(seed: int, n_valid: int, n_err: int) -> List[Case]:
    jobs = [(seed, i, "valid") for i in range(n_valid)] + [(seed, 10000 + i, rng_prof) for i, rng_prof in
                                                             enumerate(["errors", "f13", "f15"] * ((n_err + 2) // 3))][:n_valid + n_err]
    jobs += [(seed, 20000 + i, "large") for i in range(max(2, n_valid // 25))]
    return [x for x in pmap(_alone_job, jobs) if x is not None]


def ensure_linked_asset(rng: random.Random, site: Dict[str, Any]) -> Optional[Tuple[str, ...]]:
    """Make sure some document links to a binary file of the tree; returns the asset's parts (below the base)."""
    src = [c_ for c_ in site["base"]["ch"] if c_["name"] == "src"][0]
    assets = [(p, n) for p, n in G.walk(src) if n["k"] == "f" and "hex" in n and len(n["hex"]) >= 8]
    docs = [(p, n) for p, n in G.walk(src) if n["k"] == "f" and "text" in n and G.is_md_name(n["name"])]
    if not docs:
        return None
    if not assets:
        src["ch"].append(G.F("pic.png", data=bytes(rng.randrange(256) for _ in range(24))))
        assets = [(("pic.png",), src["ch"][-1])]
    ap, _an = rng.choice(assets)
    dp, dn = rng.choice(docs)
    url = "/" + "/".join(quote(x, safe="") for x in ap)
    dn["text"] = dn["text"].rstrip("\n") + "\n\nSee " + G.md_link(rng, url, rng.random() < 0.5) + "\n"
    return ("src",) + tuple(ap)


def _asset_history_job(args: Tuple[int, int, bool]) -> Optional[Case]:
    """generate; replace a linked asset by other bytes of the SAME length with the old timestamps; generate again INTO
    THE SAME OUTPUT DIRECTORY: the copy must be the new bytes"""
    seed, i, fresh = args
    rng = random.Random((seed * 1000003 + i) * 7 + 4)
    site = G.gen_site(rng, "valid", rng.choice(["small", "small", "medium"]))
    if site["M"] > 4:
        site["M"] = rng.randrange(1, 5)
    ap = ensure_linked_asset(rng, site)
    if ap is None:
        return None
    node = G.find(site["base"], ap)
    assert node is not None
    steps: List[Dict[str, Any]] = [{"op": "gen", "M": site["M"], "order": rng.randrange(10 ** 6), "rng": rng.randrange(10 ** 6),
                                    "reuse_out": True}]
    data = bytes.fromhex(node["hex"])
    for _ in range(rng.randrange(1, 3)):
        new = bytes((b + rng.randrange(1, 255)) % 256 for b in data)
        steps.append({"op": "write", "file": list(ap), "hex": new.hex(), "keep_times": rng.random() < 0.6})
        steps.append({"op": "gen", "M": site["M"], "order": rng.randrange(10 ** 6), "rng": rng.randrange(10 ** 6),
                      "reuse_out": True})
        data = new
    return make_history_case(site, steps, seed * 100000 + i, fresh=fresh, oracles=("assets",))


def gen_asset_history_cases(seed: int, n: int, fresh: bool = False) -> List[Case]:
    return [x for x in pmap(_asset_history_job, [(seed, i, fresh) for i in range(n)]) if x is not None]


def _alone_history_job(args: Tuple[int, int]) -> Case:
    """Several stand-alone pages in ONE process: a page whose root contains F embeds it; a page in a sub-directory
    (smaller root) that reaches F through '../' must be refused; after F is rewritten the first page shows the new
    bytes."""
    seed, i = args
    rng = random.Random((seed * 1000003 + i) * 7 + 10)
    site = G.gen_site(rng, "valid", "small")
    src = [c_ for c_ in site["base"]["ch"] if c_["name"] == "src"][0]
    fname = rng.choice(["F.bin", "shared pic.png", "c++tips.txt", "data"])
    sub = rng.choice(["inner", "sub dir", "src2"])
    data = bytes(rng.randrange(256) for _ in range(rng.randrange(4, 30)))
    src["ch"] = [ch for ch in src["ch"] if ch["name"] not in (fname, sub, "top page.md")]
    ups = rng.choice(["../", "../", "..//", "%2E%2E/"])
    inner_text = "# Inner for 2\n\nSee " + G.md_link(rng, ups + quote(fname, safe="+"), rng.random() < 0.5) + "\n\n    2 eggs\n"
    top_text = "# Top for 2\n\nSee " + G.md_link(rng, quote(fname, safe="+"), rng.random() < 0.5) + "\n\n    1 egg\n"
    src["ch"] += [G.F(fname, data=data), G.F("top page.md", text=top_text), G.D(sub, [G.F("inner page.md", text=inner_text)])]
    top = {"op": "alone", "file": ["src", "top page.md"], "scale": None, "servings": None, "embed": True, "rng": 1}
    inner = {"op": "alone", "file": ["src", sub, "inner page.md"], "scale": None, "servings": None, "embed": True, "rng": 2}
    new = bytes(rng.randrange(256) for _ in range(rng.choice([len(data), len(data) + 3])))
    steps = [dict(top), dict(inner), {"op": "write", "file": ["src", fname], "hex": new.hex(), "keep_times": len(new) == len(data)},
             dict(top), dict(inner)]
    if rng.random() < 0.5:
        steps = steps[1:2] + steps[0:1] + steps[2:]
    return make_history_case(site, steps, seed * 100000 + i, fresh=False, oracles=("alone",))


def gen_alone_history_cases(seed: int, n: int) -> List[Case]:
    return pmap(_alone_history_job, [(seed, i) for i in range(n)])


def _add_sources_history_job(args: Tuple[int, int]) -> Case:
    """build; ADD recipes (and links to them from readmes / other recipes); rebuild into the SAME output directory:
    the result must be the site of the new tree - every new page linked and reachable"""
    seed, i = args
    rng = random.Random((seed * 1000003 + i) * 7 + 11)
    site = G.gen_site(rng, "valid", rng.choice(["small", "medium"]))
    if site["M"] > 4:
        site["M"] = rng.randrange(2, 5)
    M = site["M"]
    src = [c_ for c_ in site["base"]["ch"] if c_["name"] == "src"][0]
    dirs = [((), src)] + [(p, n) for p, n in G.walk(src) if n["k"] == "d"]
    g = {"op": "gen", "M": M, "order": None, "rng": rng.randrange(10 ** 6), "reuse_out": True}
    steps: List[Dict[str, Any]] = [dict(g)]
    for r_ in range(rng.randrange(1, 3)):
        for k in range(rng.randrange(1, 3)):
            dp, dn = rng.choice(dirs)
            nm = "added %d-%d.md" % (r_, k)
            if any(ch["name"] == nm for ch in dn["ch"]):
                continue
            serv = rng.choice([None, rng.randrange(1, M + 1)])
            text = "# " + rng.choice(G.TITLES) + ("" if serv is None else " for %d" % serv) + "\n\nNew {%d}\n\n    3 eggs\n" % rng.randrange(2, 9)
            steps.append({"op": "write", "file": ["src"] + list(dp) + [nm], "text": text})
            # a link to the new recipe from an existing document of the same directory
            docs = [ch for ch in dn["ch"] if ch["k"] == "f" and "text" in ch and G.is_md_name(ch["name"])]
            if docs and rng.random() < 0.7:
                d0 = rng.choice(docs)
                steps.append({"op": "write", "file": ["src"] + list(dp) + [d0["name"]],
                              "text": d0["text"].rstrip("\n") + "\n\nSee also [the new one](" + quote(nm, safe="") + ")\n"})
        steps.append(dict(g, rng=rng.randrange(10 ** 6)))
    return make_history_case(site, steps, seed * 100000 + i, fresh=True, oracles=("links",))


def gen_add_sources_history_cases(seed: int, n: int) -> List[Case]:
    return pmap(_add_sources_history_job, [(seed, i) for i in range(n)])


def shrink_edit(rng: random.Random, text: str) -> Optional[str]:
    """the same recipe with paragraphs of prose removed (title, serving count and recipe blocks stay)"""
    paras = text.split("\n\n")
    # (paragraphs with links stay: dropping a link to a local file would leave its copy of the FIRST build in the shared
    # output directory - a legitimate left-over, not a defect)
    keep = [paras[0]] + [p for p in paras[1:] if p.startswith("    ") or p.startswith("```") or p.startswith("#")
                         or "](" in p or "<" in p]
    new = "\n\n".join(keep)
    if not new.endswith("\n"):
        new += "\n"
    return new if len(new) + 20 < len(text) else None


def _rebuild_history_job(args: Tuple[int, int, str]) -> Case:
    """build; edit recipes (quantities changed / prose deleted so that pages get SHORTER); rebuild INTO THE SAME OUTPUT
    DIRECTORY, the same M or M + 1: content, scaling and the 1..M menus must be those of the edited tree, byte for byte
    what a fresh process writes into an empty directory"""
    seed, i, which = args
    rng = random.Random((seed * 1000003 + i) * 7 + 12)
    site = G.gen_site(rng, "valid", rng.choice(["small", "small", "medium"]))
    if site["M"] > 3:
        site["M"] = rng.randrange(1, 4)
    M = site["M"]
    recs = [(p, n) for p, n in G.walk(site["base"]) if n["k"] == "f" and "text" in n and p[0] == "src"
            and G.is_md_name(n["name"]) and not G.is_readme_name(n["name"])]
    g = {"op": "gen", "M": M, "order": None, "rng": rng.randrange(10 ** 6), "reuse_out": True}
    steps: List[Dict[str, Any]] = [dict(g)]
    rng.shuffle(recs)
    done = 0
    for p, n in recs:
        new = shrink_edit(rng, n["text"]) if rng.random() < 0.6 else quantity_edit(rng, n["text"])
        if new is None or new == n["text"]:
            new = quantity_edit(rng, n["text"]) or shrink_edit(rng, n["text"])
        if new is None or new == n["text"]:
            continue
        steps.append({"op": "write", "file": list(p), "text": new})
        done += 1
        if done >= 2:
            break
    M2 = M + rng.choice([0, 1, 1])
    steps.append(dict(g, M=M2, rng=rng.randrange(10 ** 6)))
    return make_history_case(site, steps, seed * 100000 + i, fresh=True, oracles=("pages",) if which == "C15" else ())


def gen_rebuild_history_cases(seed: int, n: int, which: str) -> List[Case]:
    return pmap(_rebuild_history_job, [(seed, i, which) for i in range(n)])


def _noise_history_job(args: Tuple[int, int]) -> Case:
    """generate; generate an unrelated site with more distinct recipes than any cache holds; generate again"""
    seed, i = args
    rng = random.Random((seed * 1000003 + i) * 7 + 8)
    site = G.gen_site(rng, "valid", "medium")
    if site["M"] > 4:
        site["M"] = rng.randrange(2, 5)
    g = {"op": "gen", "M": site["M"], "order": None, "rng": rng.randrange(10 ** 6)}
    steps = [dict(g), {"op": "noise", "n": 170, "M": 3, "seed": seed * 1000 + i}, dict(g, rng=rng.randrange(10 ** 6))]
    return make_history_case(site, steps, seed * 100000 + i)


def gen_noise_history_cases(seed: int, n: int) -> List[Case]:
    return pmap(_noise_history_job, [(seed, i) for i in range(n)])


def _links_history_job(args: Tuple[int, int]) -> Case:
    seed, i = args
    rng = random.Random((seed * 1000003 + i) * 7 + 9)
    site = G.gen_site(rng, "valid", rng.choice(["small", "medium"]))
    if site["M"] > 5:
        site["M"] = rng.randrange(2, 6)
    return make_history_case(site, gen_history(rng, site), seed * 100000 + i, fresh=False, oracles=("links",))


def gen_links_history_cases(seed: int, n: int) -> List[Case]:
    return pmap(_links_history_job, [(seed, i) for i in range(n)])


def _edit_history_job(args: Tuple[int, int]) -> Case:
    """generate, edit recipes in place (same length, timestamps restored: serving counts, quantities), generate again"""
    seed, i = args
    rng = random.Random((seed * 1000003 + i) * 7 + 6)
    site = G.gen_site(rng, "valid", rng.choice(["small", "small", "medium"]))
    if site["M"] > 5:
        site["M"] = rng.randrange(2, 6)
    steps = gen_history(rng, site)
    return make_history_case(site, steps, seed * 100000 + i)


def gen_edit_history_cases(seed: int, n: int) -> List[Case]:
    return pmap(_edit_history_job, [(seed, i) for i in range(n)])


def replay_any(inp: Dict[str, Any], which: str) -> Case:
    if "steps" in inp:
        return make_history_case(inp["site"], inp["steps"], inp.get("seed", 0), oracles=inp.get("oracles", ()))
    if "alone" in inp:
        return make_alone_case(inp["site"], inp["alone"], inp.get("seed", 0))
    return make_site_case(inp["site"], inp.get("seed", 0), which)
