"""Driver:  ./check --setup | ./check Cxx quick|thorough | ./check Cxx --replay FILE

One run = translate (regenerate coq/Gen from /repo) -> make (re-check proofs)
-> Print Assumptions of every property theorem -> correspondence suites
(model vs implementation, compared inside Coq) -> property oracle on the
implementation -> known findings -> verdict -> evidence.
"""
from __future__ import annotations

import fcntl
import hashlib
import importlib
import json
import os
import re
import subprocess
import sys
import time
import traceback
from collections import Counter
from typing import Any, Dict, List, Optional, Tuple

from . import coqio
from .api import Case, Suite

VERIF = coqio.VERIF
COQ = coqio.COQ_DIR
EVID = os.path.join(VERIF, "evidence")
REPLAY = os.path.join(EVID, "replay")
KNOWN = os.path.join(VERIF, "known_findings.json")
SRC_DIRS = ["Base", "Gen", "Model", "Spec", "Proofs", "Props", "Tests"]
FORBIDDEN = re.compile(
    r"\b(Admitted|admit|Axiom|Axioms|Parameter|Parameters|Conjecture|Abort All)\b|Unset Guard|bypass_check|type-in-type|impredicative-set|Admit Obligations"
)


def log(*a: Any) -> None:
    print(*a, flush=True)


# --------------------------------------------------------------------------
# Build
# --------------------------------------------------------------------------

def v_files() -> List[str]:
    out = []
    for d in SRC_DIRS:
        for root, _dirs, files in os.walk(os.path.join(COQ, d)):
            for f in sorted(files):
                if f.endswith(".v") and not f.startswith("."):
                    out.append(os.path.relpath(os.path.join(root, f), COQ))
    return sorted(out)


def grep_gate() -> List[str]:
    """Reject axioms, admits and disabled checks anywhere in the development."""
    bad = []
    for f in v_files():
        txt = open(os.path.join(COQ, f)).read()
        # strip comments (non-nested is enough for the gate: be conservative and
        # scan the raw text as well when a comment opener remains)
        stripped = re.sub(r"\(\*.*?\*\)", "", txt, flags=re.S)
        for m in FORBIDDEN.finditer(stripped):
            bad.append(f"{f}: {m.group(0)}")
        if re.search(r"^\s*(Variable|Variables|Hypothesis|Hypotheses|Context)\b", stripped, re.M):
            # allowed only inside a Section
            depth = 0
            for line in stripped.splitlines():
                if re.match(r"\s*Section\b", line):
                    depth += 1
                elif re.match(r"\s*End\b", line) and depth > 0:
                    depth -= 1
                elif re.match(r"\s*(Variable|Variables|Hypothesis|Hypotheses|Context)\b", line) and depth == 0:
                    bad.append(f"{f}: section-less {line.strip()[:40]}")
    return bad


PER_FILE_TIMEOUT = 900
MEM_LIMIT_BYTES = 20 * 1024 ** 3


def _limit_memory() -> None:
    import resource
    resource.setrlimit(resource.RLIMIT_AS, (MEM_LIMIT_BYTES, MEM_LIMIT_BYTES))


def import_targets(mod: Any) -> List[str]:
    """.vo targets a property needs: its Props file and whatever its suites import."""
    targets = [f + "o" for f in props_files(mod)]
    try:
        for su in mod.suites("replay", 0):
            for imp in su.imports:
                m = re.match(r"\s*From RG Require (?:Import|Export) (.*?)\.\s*$", imp.strip())
                if m:
                    for name in m.group(1).split():
                        targets.append(name.replace(".", "/") + ".vo")
    except Exception:
        pass
    return sorted(set(targets))


class Lock:
    def __enter__(self):
        os.makedirs(COQ, exist_ok=True)
        self.f = open(os.path.join(COQ, ".lock"), "w")
        fcntl.flock(self.f, fcntl.LOCK_EX)
        return self

    def __exit__(self, *a):
        fcntl.flock(self.f, fcntl.LOCK_UN)
        self.f.close()


def build(targets: Optional[List[str]] = None, timeout: int = 3000) -> Dict[str, Any]:
    """Regenerate Gen/, refresh the Makefile when the file list changed, make."""
    from . import translate

    t0 = time.time()
    with Lock():
        pins = translate.run()
        files = v_files()
        proj = "-Q . RG\n-arg -w -arg -notation-overridden,-deprecated-hint-without-locality,-deprecated-instance-without-locality\n" + "\n".join(files) + "\n"
        pj = os.path.join(COQ, "_CoqProject")
        if not os.path.exists(pj) or open(pj).read() != proj or not os.path.exists(os.path.join(COQ, "Makefile")):
            open(pj, "w").write(proj)
            subprocess.run(["coq_makefile", "-f", "_CoqProject", "-o", "Makefile"], cwd=COQ, check=True,
                           capture_output=True)
        # every coqc runs under its own time and memory limit so that one runaway file cannot
        # block the other properties' checks
        cmd = ["make", "-j16", "-k", f"COQC=timeout {PER_FILE_TIMEOUT} coqc"] + (targets or [])
        try:
            p = subprocess.run(["timeout", str(timeout)] + cmd, cwd=COQ, capture_output=True, text=True,
                               preexec_fn=_limit_memory)
            out = p.stdout + p.stderr
            rc = p.returncode
            if rc != 0 and re.search(r"Killed|Error 137|Error 124|Out of memory|Cannot allocate memory", out) \
                    and not re.search(r'File "\./[^"]+\.v", line \d+, characters [\d-]+:\s*\n?Error', out):
                # a coqc was killed (out-of-memory killer / time limit on an overloaded machine), no proof error was
                # reported: build what is left once more, two files at a time
                cmd2 = ["make", "-j2", "-k", f"COQC=timeout {PER_FILE_TIMEOUT * 2} coqc"] + (targets or [])
                p = subprocess.run(["timeout", str(timeout)] + cmd2, cwd=COQ, capture_output=True, text=True,
                                   preexec_fn=_limit_memory)
                out = p.stdout + p.stderr
                rc = p.returncode
        except Exception as e:  # pragma: no cover
            out, rc = str(e), 99
        open(os.path.join(COQ, ".build.log"), "w").write(out)
    failed = sorted(set(re.findall(r'File "\./([^"]+\.v)", line \d+, characters [\d-]+:\s*\n?Error', out)))
    failed += [f for f in re.findall(r"\*\*\* \[[^\]]*?: ([^\]\s]+\.vo)\]", out) if f[:-1] not in failed]
    return {"rc": rc, "failed": failed, "pins": pins, "log": out[-4000:], "wall": time.time() - t0}


def up_to_date(vo: str) -> bool:
    p = subprocess.run(["make", "-q", vo], cwd=COQ, capture_output=True, text=True)
    return p.returncode == 0 and os.path.exists(os.path.join(COQ, vo))


class Merged:
    """A property whose check is assembled from several property modules (MERGE = [...] in the main one):
    theorem files, theorem lists, suites, trusted base are united; replay / known_match are dispatched."""

    def __init__(self, main: Any, others: List[Any]):
        self._mods = [main] + others
        self.ID = main.ID
        self.PROPS_FILE = main.PROPS_FILE
        self.PROPS_EXTRA = list(getattr(main, "PROPS_EXTRA", []))
        for m in others:
            self.PROPS_EXTRA += [m.PROPS_FILE] + list(getattr(m, "PROPS_EXTRA", []))
        self.THEOREMS = {}
        self.GEN_DEPS, self.ALLOWED_AXIOMS, self.TRUSTED, self.ASSUMPTIONS = [], [], [], []
        rules = []
        for m in self._mods:
            self.THEOREMS.update(getattr(m, "THEOREMS", {}))
            self.GEN_DEPS += list(getattr(m, "GEN_DEPS", []))
            self.ALLOWED_AXIOMS += list(getattr(m, "ALLOWED_AXIOMS", []))
            self.TRUSTED += [x for x in getattr(m, "TRUSTED", []) if x not in self.TRUSTED]
            self.ASSUMPTIONS += [x for x in getattr(m, "ASSUMPTIONS", []) if x not in self.ASSUMPTIONS]
            rules.append(getattr(m, "RULE", ""))
        self.RULE = " || ".join(r for r in rules if r)

    def suites(self, tier: str, seed: int) -> List[Suite]:
        out: List[Suite] = []
        for m in self._mods:
            out += m.suites(tier, seed)
        return out

    def replay(self, inp: Any) -> Case:
        err: Optional[Exception] = None
        for m in self._mods:
            try:
                return m.replay(inp)
            except Exception as e:  # try the next module
                err = e
        raise err  # type: ignore

    def known_match(self, finding: Any, case: Case) -> bool:
        for m in self._mods:
            try:
                if m.known_match(finding, case):
                    return True
            except Exception:
                pass
        return False


def load_mod(pid: str) -> Any:
    main = importlib.import_module(f"rgv.props.{pid}")
    merge = getattr(main, "MERGE", [])
    if merge:
        return Merged(main, [importlib.import_module(f"rgv.props.{m}") for m in merge])
    return main


def props_files(mod: Any) -> List[str]:
    """A property's theorem files: PROPS_FILE plus optional PROPS_EXTRA (e.g. files contributed by another proof effort)."""
    out: List[str] = []
    for f in [mod.PROPS_FILE] + list(getattr(mod, "PROPS_EXTRA", [])):
        if f not in out:
            out.append(f)
    return out


def theorem_names(props_file: str) -> List[str]:
    txt = open(os.path.join(COQ, props_file)).read()
    txt = re.sub(r"\(\*.*?\*\)", "", txt, flags=re.S)
    return re.findall(r"^\s*(?:Theorem|Lemma|Corollary|Example|Fact|Proposition)\s+([A-Za-z0-9_']+)", txt, re.M)


def assumptions(pid: str, props_file: str, names: List[str]) -> Dict[str, Any]:
    """Re-run coqc on the Props file itself (kernel re-check on this run) and
    collect Print Assumptions for every theorem."""
    mod = props_file[:-2].replace("/", ".")
    os.makedirs(coqio.CORR_DIR, exist_ok=True)
    path = os.path.join(coqio.CORR_DIR, f"Assum_{pid}.v")
    with open(path, "w") as f:
        f.write(f"From RG Require Import {mod}.\n")
        for n in names:
            f.write(f'Goal True. idtac "@@THM {n}". exact I. Qed.\nPrint Assumptions {n}.\n')
    rc1, out1 = coqio._coqc(os.path.join(COQ, props_file), 1200)
    rc, out = coqio._coqc(path, 600)
    res: Dict[str, Any] = {}
    if rc1 != 0:
        return {"__error__": out1[-3000:]}
    if rc != 0:
        return {"__error__": out[-3000:]}
    chunks = re.split(r"@@THM (\S+)", out)
    for i in range(1, len(chunks), 2):
        name, body = chunks[i], chunks[i + 1]
        if "Closed under the global context" in body:
            res[name] = []
        else:
            m = re.search(r"Axioms:\s*(.*)", body, re.S)
            ax = re.findall(r"^([A-Za-z0-9_.']+)\s*:", m.group(1) if m else body, re.M)
            res[name] = ax or ["<unparsed>"]
    return res


# --------------------------------------------------------------------------
# Known findings
# --------------------------------------------------------------------------

def allowed_axioms_of(mod: Any) -> set:
    return set(getattr(mod, "ALLOWED_AXIOMS", []))


def load_known(pid: str) -> List[Dict[str, Any]]:
    if not os.path.exists(KNOWN):
        return []
    return [k for k in json.load(open(KNOWN)) if k.get("property") == pid]


# --------------------------------------------------------------------------
# One check
# --------------------------------------------------------------------------

def write_replay(pid: str, obj: Dict[str, Any]) -> str:
    os.makedirs(REPLAY, exist_ok=True)
    blob = json.dumps(obj, sort_keys=True, default=str, indent=1)
    h = hashlib.sha1(blob.encode()).hexdigest()[:12]
    path = os.path.join(REPLAY, f"{pid}-{h}.json")
    open(path, "w").write(blob)
    return os.path.relpath(path, VERIF)


def repo_head() -> str:
    try:
        return subprocess.run(["git", "-C", os.environ.get("RGV_REPO", "/repo"), "rev-parse", "--short", "HEAD"], capture_output=True,
                              text=True).stdout.strip()
    except Exception:
        return "?"


def run_suites(pid: str, suites: List[Suite], tag: str) -> Tuple[List[Tuple[Suite, Case, str]], Dict[str, Any]]:
    """Returns disagreements [(suite, case, why)] and statistics."""
    shard_paths: List[Tuple[str, Suite, int]] = []
    for su in suites:
        for k in range(0, len(su.cases), su.shard):
            chunk = su.cases[k:k + su.shard]
            name = f"cases_{pid}_{tag}_{su.name}_{k // su.shard}".replace("-", "_")
            path = coqio.write_shard(name, su.imports, su.check, su.in_ty, su.out_ty,
                                     [(c.coq_in, c.coq_out) for c in chunk])
            shard_paths.append((path, su, k))
    t0 = time.time()
    results = coqio.run_shards([p for p, _, _ in shard_paths])
    disagreements: List[Tuple[Suite, Case, str]] = []
    evaluated = 0
    broken: List[str] = []
    for (path, su, k), (_, rc, out) in zip(shard_paths, results):
        rep = coqio.parse_report(out) if rc == 0 else None
        if rep is None:
            broken.append(f"{os.path.basename(path)}: rc={rc}: {out[-1500:]}")
            continue
        n, nbad, idx = rep
        evaluated += n
        for i in idx:
            disagreements.append((su, su.cases[k + i], "model and implementation differ"))
        if nbad > len(idx):
            disagreements.append((su, su.cases[k + idx[-1]], f"... and {nbad - len(idx)} more in this shard"))
    return disagreements, {"evaluated_in_coq": evaluated, "shards": len(shard_paths), "broken_shards": broken,
                           "coq_wall_s": round(time.time() - t0, 1)}


def check(pid: str, tier: str, seed: int) -> int:
    t0 = time.time()
    mod = load_mod(pid)
    run_tag = f"{tier}{os.getpid()}"           # concurrent runs (even of the same property) never share case files
    coqio.clean_stale()
    problems: List[Dict[str, Any]] = []     # broken proofs / pins / correspondence (no concrete input yet)
    violations: List[Dict[str, Any]] = []   # concrete failing inputs (unlisted)
    known_lines: List[str] = []

    # 1+2. translate, build (only this property's dependency closure), re-check proofs
    b = build(import_targets(mod))
    gate = grep_gate()
    for g in gate:
        problems.append({"kind": "forbidden-construct", "what": g})
    for name, ok, why in b["pins"]:
        if not ok and (name in getattr(mod, "GEN_DEPS", []) or name == "*"):
            problems.append({"kind": "broken-pin", "theorem_or_suite": name, "what": why})
    names: List[str] = []
    status = getattr(mod, "THEOREMS", {})
    thm_report: List[Dict[str, Any]] = []
    discharged = 0
    assum: Dict[str, Any] = {}
    for pf in props_files(mod):
        if not os.path.exists(os.path.join(COQ, pf)):
            problems.append({"kind": "broken-proof", "theorem_or_suite": pf, "what": "theorem file is missing"})
            continue
        pf_names = theorem_names(pf)
        names += pf_names
        if not up_to_date(pf + "o"):
            problems.append({"kind": "broken-proof", "theorem_or_suite": pf,
                             "what": "does not build: " + ", ".join(b["failed"]) + "\n" + b["log"][-1500:]})
            continue
        a = assumptions(pid + "_" + os.path.basename(pf)[:-2] + "_" + str(os.getpid()), pf, pf_names)
        if "__error__" in a:
            problems.append({"kind": "broken-proof", "theorem_or_suite": pf, "what": a["__error__"]})
            continue
        assum.update(a)
    allowed = set(getattr(mod, "ALLOWED_AXIOMS", []))
    for n in names:
        ax = assum.get(n)
        ok = ax is not None and set(ax) <= allowed
        if ok:
            discharged += 1
        elif ax is not None:
            problems.append({"kind": "broken-proof", "theorem_or_suite": n,
                             "what": "depends on axioms outside the allow-list: " + ", ".join(ax)})
        thm_report.append({"name": n, "status": status.get(n, "full"), "assumptions": ax, "checked": ok})
    for n in status:
        if n not in names:
            problems.append({"kind": "broken-proof", "theorem_or_suite": n, "what": "theorem listed in THEOREMS is missing from " + ", ".join(props_files(mod))})

    # thorough tier: independent re-check of the property's whole .vo closure with coqchk
    coqchk_report: Dict[str, Any] = {"ran": False}
    if tier == "thorough" and not any(p["kind"] == "broken-proof" for p in problems):
        modname = " ".join("RG." + f[:-2].replace("/", ".") for f in props_files(mod))
        try:
            pr = subprocess.run(["timeout", "1800", "coqchk", "-o", "-silent", "-Q", ".", "RG"] + modname.split(), cwd=COQ,
                                capture_output=True, text=True)
            out = pr.stdout + pr.stderr
            summary = out[out.find("CONTEXT SUMMARY"):] if "CONTEXT SUMMARY" in out else out[-1500:]
            axm = re.search(r"\* Axioms:(.*?)\n\s*\n\* Constants", summary, re.S)
            axioms = [a.strip() for a in (axm.group(1).strip().splitlines() if axm else []) if a.strip() and a.strip() != "<none>"]
            coqchk_report = {"ran": True, "rc": pr.returncode, "axioms": axioms, "summary": summary[:1500]}
            if pr.returncode != 0:
                problems.append({"kind": "broken-proof", "theorem_or_suite": "coqchk " + modname, "what": out[-1500:]})
            elif set(axioms) - allowed_axioms_of(mod):
                problems.append({"kind": "broken-proof", "theorem_or_suite": "coqchk " + modname,
                                 "what": "coqchk reports axioms outside the allow-list: " + ", ".join(axioms)})
        except Exception as e:  # pragma: no cover
            coqchk_report = {"ran": True, "error": str(e)}

    # 3+4. correspondence and oracle
    try:
        suites: List[Suite] = mod.suites(tier, seed)
    except Exception:
        suites = []
        problems.append({"kind": "broken-correspondence", "theorem_or_suite": "generator",
                         "what": traceback.format_exc()[-3000:]})
    for su in suites:
        for c in su.cases:
            c.suite = su.name
    disagreements, stats = run_suites(pid, suites, run_tag)
    for bs in stats["broken_shards"]:
        problems.append({"kind": "broken-correspondence", "theorem_or_suite": "coqc shard", "what": bs})
    all_cases = [c for su in suites for c in su.cases]

    known = load_known(pid)

    def classify(c: Case, why: str) -> None:
        for k in known:
            if k.get("status") == "known":
                try:
                    if mod.known_match(k, c):
                        return
                except Exception:
                    pass
        violations.append({"kind": "failing-input", "suite": c.suite, "input": c.input, "observed": c.impl,
                           "what": why})

    for c in all_cases:
        if c.violation:
            classify(c, c.violation)
    for su, c, why in disagreements:
        if c.violation:
            continue  # already reported as a concrete violation
        problems.append({"kind": "broken-correspondence", "theorem_or_suite": su.name, "input": c.input,
                         "observed": c.impl, "what": why})

    # 5. known findings are replayed on the implementation
    reproduced = []
    for k in known:
        if k.get("status") != "known":
            continue
        try:
            c = mod.replay(k["input"])
            if c.violation:
                known_lines.append(f"KNOWN-FINDING: property={pid} {k['id']} {k['what']}")
                reproduced.append(k["id"])
            else:
                log(f"note: known finding {k['id']} no longer reproduces on this tree")
        except Exception:
            log(f"note: known finding {k['id']} could not be replayed: {traceback.format_exc()[-500:]}")

    # 6. search for a concrete failing input when something is broken
    search_stats: Dict[str, Any] = {"ran": False}
    if problems and not violations:
        search_stats = {"ran": True, "tried": 0, "found": 0}
        cands: List[Case] = [c for _, c, _ in disagreements]
        if hasattr(mod, "search"):
            try:
                cands += mod.search(seed + 1, 120)
            except Exception:
                log("search failed: " + traceback.format_exc()[-800:])
        else:
            try:
                for su in mod.suites("thorough" if tier == "quick" else tier, seed + 1):
                    for c in su.cases:
                        c.suite = su.name
                        cands.append(c)
            except Exception:
                pass
        for c in cands:
            search_stats["tried"] += 1
            if c.violation:
                before = len(violations)
                classify(c, c.violation)
                search_stats["found"] += len(violations) - before

    # verdict
    for line in known_lines:
        log(line)
    rc = 0
    seen = set()
    for v in violations[:10]:
        key = json.dumps(v["input"], sort_keys=True, default=str)
        if key in seen:
            continue
        seen.add(key)
        path = write_replay(pid, dict(v, property=pid, seed=seed, tier=tier, repo_head=repo_head()))
        log(f"VIOLATION property={pid} replay={path}")
        rc = 1
    if not violations and problems:
        path = write_replay(pid, {"property": pid, "kind": problems[0]["kind"], "problems": problems[:20],
                                  "seed": seed, "tier": tier, "repo_head": repo_head()})
        log(f"VIOLATION property={pid} replay={path} no-failing-input-found")
        rc = 1

    # 7. evidence
    nontrivial_keys = {c.key() for c in all_cases if c.nontrivial}
    dist = Counter(t for c in all_cases for t in c.tags)
    samples = [{"suite": c.suite, "input": c.input, "implementation": c.impl} for c in all_cases[:1]]
    if len(all_cases) > 2:
        samples += [{"suite": c.suite, "input": c.input, "implementation": c.impl}
                    for c in (all_cases[len(all_cases) // 2], all_cases[-1])]
    ev = {
        "property_id": pid, "tier": tier, "seed": seed, "level": "proof",
        "coverage": {
            "obligations": max(len(names), 1), "discharged": discharged,
            "checker_cmd": "cd coq && make -j16 " + " ".join(f + "o" for f in props_files(mod)) + " && coqc -Q . RG <each file>  (Print Assumptions per theorem)",
            "trusted_base": list(getattr(mod, "TRUSTED", [])),
            "theorems": thm_report,
            "pins": [{"name": n, "ok": ok, "note": why} for n, ok, why in b["pins"]],
            "evaluations": len(all_cases),
            "distinct_nontrivial": len(nontrivial_keys),
            "rule": getattr(mod, "RULE", ""),
            "samples": samples or [{"note": "no correspondence cases"}],
            "distribution": dict(dist.most_common(60)),
            "correspondence": stats,
            "disagreements": len(disagreements),
            "oracle_violations_unlisted": len(violations),
            "known_findings_reproduced": reproduced,
            "search": search_stats,
            "coqchk": coqchk_report,
            "problems": [{k: (str(v)[:600]) for k, v in p.items()} for p in problems[:10]],
            "build_wall_s": round(b["wall"], 1),
            "repo_head": repo_head(),
        },
        "assumptions": list(getattr(mod, "ASSUMPTIONS", [])),
        "wall_s": round(time.time() - t0, 2),
        "violations": (len(seen) if violations else (1 if problems else 0)),
    }
    os.makedirs(EVID, exist_ok=True)
    json.dump(ev, open(os.path.join(EVID, f"{pid}.json"), "w"), indent=1, default=str)
    coqio.clean_corr(str(os.getpid()))
    log(f"{pid} {tier}: theorems {discharged}/{len(names)} checked, {len(all_cases)} cases "
        f"({len(nontrivial_keys)} distinct non-trivial), {len(disagreements)} disagreements, "
        f"{len(violations)} unlisted violations, {len(reproduced)} known findings, {ev['wall_s']}s -> exit {rc}")
    return rc


def replay(pid: str, path: str) -> int:
    mod = load_mod(pid)
    obj = json.load(open(path if os.path.isabs(path) else os.path.join(VERIF, path)))
    if obj.get("kind") != "failing-input" and "input" not in obj:
        log(json.dumps(obj, indent=1)[:6000])
        log("This replay names broken proof obligations / pins / correspondence suites; re-run ./check "
            f"{pid} quick to re-check them.")
        return 1
    build()
    c = mod.replay(obj["input"])
    log("input:          ", json.dumps(c.input, default=str)[:2000])
    log("implementation: ", json.dumps(c.impl, default=str)[:2000])
    log("oracle:         ", c.violation or "property holds on this input")
    su = next((s for s in mod.suites("replay", 0) if s.name == obj.get("suite")), None) if hasattr(mod, "suites") else None
    if su is not None and su.show:
        rc, out = coqio.eval_terms(f"replay_{pid}", su.imports, [f"{su.show} {c.coq_in}", f"{su.check} {c.coq_in} {c.coq_out}"])
        log("model:          ", out.strip()[-3000:])
    return 1 if c.violation else 0


def setup() -> int:
    b = build(timeout=6000)
    gate = grep_gate()
    log(f"setup: make rc={b['rc']} failed={b['failed']} gate={gate} wall={b['wall']:.0f}s")
    if b["rc"] != 0:
        log(b["log"][-3000:])
    # never fail setup because one proof is broken: the per-property checks report that
    return 0


def main(argv: List[str]) -> int:
    if argv and argv[0] == "--setup":
        return setup()
    pid = argv[0]
    if len(argv) >= 3 and argv[1] == "--replay":
        return replay(pid, argv[2])
    tier = argv[1] if len(argv) > 1 else os.environ.get("VERIF_TIER", "quick")
    seed = int(os.environ.get("VERIF_SEED", "0"))
    return check(pid, tier, seed)


if __name__ == "__main__":
    sys.exit(main(sys.argv[1:]))
