"""recipe_grid.recipe objects  <->  Gallina terms (Model/Recipe.v)  <->  JSON."""
from __future__ import annotations

from fractions import Fraction
from typing import Any, List

from . import coqio as c


def _R():
    import recipe_grid.recipe as R
    return R


def svs_parts(s: Any) -> tuple:
    return s._string


def svs(s: Any) -> str:
    parts = []
    for p in svs_parts(s):
        if isinstance(p, str):
            parts.append(f"PStr {c.string(p)}")
        else:
            parts.append(f"PNum {c.num(p)}")
    return c.lst(parts, "part")


def quantity(q: Any) -> str:
    return (f"(mkQ {c.num(q.value)} {c.opt(c.string(q.unit) if q.unit is not None else None, 'str')} "
            f"{c.string(q.value_unit_spacing)} {c.string(q.preposition)})")


def proportion(p: Any) -> str:
    if p.value is None:
        assert p.remainder_wording is not None
        return f"(PropRem {c.string(p.remainder_wording)} {c.string(p.preposition)})"
    assert p.remainder_wording is None and p.percentage is not None, p
    return f"(PropVal {c.num(p.value)} {c.boolean(bool(p.percentage))} {c.string(p.preposition)})"


def amount(a: Any) -> str:
    R = _R()
    if isinstance(a, R.Quantity):
        return f"(AQty {quantity(a)})"
    return f"(AProp {proportion(a)})"


def node(t: Any) -> str:
    R = _R()
    if isinstance(t, R.Ingredient):
        q = c.opt(quantity(t.quantity) if t.quantity is not None else None, "quantity")
        return f"(Ingredient {svs(t.description)} {q})"
    if isinstance(t, R.Step):
        return f"(Step {svs(t.description)} {c.lst([node(i) for i in t.inputs], 'node')})"
    if isinstance(t, R.Reference):
        return f"(Reference {node(t.sub_recipe)} {c.nat(t.output_index)} {amount(t.amount)})"
    if isinstance(t, R.SubRecipe):
        return (f"(SubRecipe {node(t.sub_tree)} {c.lst([svs(n) for n in t.output_names], 'svs')} "
                f"{c.boolean(t.show_output_names)})")
    raise TypeError(type(t))


def blocks(recipes: List[Any]) -> str:
    """list of Recipe objects (one per block) -> list (list node)."""
    return c.lst([c.lst([node(t) for t in r.recipe_trees], "node") for r in recipes], "(list node)")


# ---------------------------------------------------------------- JSON

def svs_json(s: Any) -> Any:
    return [p if isinstance(p, str) else c.num_json(p) for p in svs_parts(s)]


def svs_unjson(j: Any) -> Any:
    from recipe_grid.scaled_value_string import ScaledValueString
    return ScaledValueString([p if isinstance(p, str) else c.num_unjson(p) for p in j])


def amount_json(a: Any) -> Any:
    R = _R()
    if isinstance(a, R.Quantity):
        return {"q": [c.num_json(a.value), a.unit, a.value_unit_spacing, a.preposition]}
    return {"p": [c.num_json(a.value) if a.value is not None else None, a.percentage, a.remainder_wording,
                  a.preposition]}


def amount_unjson(j: Any) -> Any:
    R = _R()
    if "q" in j:
        v, u, sp, pr = j["q"]
        return R.Quantity(c.num_unjson(v), u, sp, pr)
    v, pc, w, pr = j["p"]
    return R.Proportion(c.num_unjson(v) if v is not None else None, pc, w, pr)


def node_json(t: Any) -> Any:
    R = _R()
    if isinstance(t, R.Ingredient):
        return {"I": [svs_json(t.description), amount_json(t.quantity) if t.quantity is not None else None]}
    if isinstance(t, R.Step):
        return {"S": [svs_json(t.description), [node_json(i) for i in t.inputs]]}
    if isinstance(t, R.Reference):
        return {"R": [node_json(t.sub_recipe), t.output_index, amount_json(t.amount)]}
    if isinstance(t, R.SubRecipe):
        return {"SR": [node_json(t.sub_tree), [svs_json(n) for n in t.output_names], t.show_output_names]}
    raise TypeError(type(t))


def node_unjson(j: Any) -> Any:
    R = _R()
    if "I" in j:
        d, q = j["I"]
        return R.Ingredient(svs_unjson(d), amount_unjson(q) if q is not None else None)
    if "S" in j:
        d, ins = j["S"]
        return R.Step(svs_unjson(d), tuple(node_unjson(i) for i in ins))
    if "R" in j:
        sr, i, a = j["R"]
        return R.Reference(node_unjson(sr), i, amount_unjson(a))
    if "SR" in j:
        b, ns, sh = j["SR"]
        return R.SubRecipe(node_unjson(b), tuple(svs_unjson(n) for n in ns), sh)
    raise ValueError(j)
