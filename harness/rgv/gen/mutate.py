"""Seeded text mutators for the parser / compiler robustness suites (C06 parse-neg, C07 outcome).

All functions are pure functions of (text, rng).  `mutations(text, rng, n)` yields `n` (kind, text) pairs drawn
from: single-character delete / insert / duplicate / swap / replace, token delete / duplicate / swap / shuffle,
prefixes and suffixes, wrapping, and random Unicode noise.
"""
from __future__ import annotations

import random
import re
from typing import Iterator, List, Tuple

# characters the grammar treats specially, plus the corners of Python's \s, \w, (?i) and splitlines
SPECIAL = list("\"',:=/(){}\\%*.") + list("0123456789") + [" ", "\t", "\n", "\r", "\x0b", "\x0c", "\x1c", "\x1d", "\x1e",
           "\x1f", "\x85", "\xa0", " ", " ", " ", " ", " ", " ", "　", "﻿", "​"]
LETTERS = list("abcdefgortskl") + ["of", "the", "rest", "g", "kg", "ml", "remaining", "left over", "ſ", "K",
           "İ", "ı", "é", "ß", "Σ", "中", "٣", "²", "½", "_"]
ODD = ["́", "̈", "‍", "\U0001f373", "\U0001f469‍\U0001f373", "\U00010400", "\U0010ffff", "\x00", "\x7f",
       "\ud800", "\udfff", "�", "ก้", "‮", "\x1b[0m", "\x08"]
ALPHABET = SPECIAL * 3 + LETTERS * 2 + ODD

_TOKEN = re.compile(r"\s+|[0-9]+|\w+|.", re.S)


def tokens(text: str) -> List[str]:
    return _TOKEN.findall(text)


def rand_char(rng: random.Random) -> str:
    k = rng.random()
    if k < 0.85:
        return rng.choice(ALPHABET)
    if k < 0.95:
        return chr(rng.randrange(0x20, 0x3000))
    cp = rng.randrange(0, 0x110000)
    return chr(cp)


def rand_unicode(rng: random.Random, n: int) -> str:
    return "".join(rand_char(rng) for _ in range(n))


def mutate_once(text: str, rng: random.Random) -> Tuple[str, str]:
    k = rng.randrange(14)
    n = len(text)
    if n == 0:
        return "insert", rand_char(rng)
    i = rng.randrange(n)
    if k == 0:
        return "char-delete", text[:i] + text[i + 1:]
    if k == 1:
        j = rng.randrange(n + 1)
        return "char-insert", text[:j] + rand_char(rng) + text[j:]
    if k == 2:
        return "char-duplicate", text[:i] + text[i] + text[i:]
    if k == 3:
        if n < 2:
            return "char-duplicate", text + text
        i = rng.randrange(n - 1)
        return "char-swap", text[:i] + text[i + 1] + text[i] + text[i + 2:]
    if k == 4:
        return "char-replace", text[:i] + rand_char(rng) + text[i + 1:]
    toks = tokens(text)
    t = rng.randrange(len(toks))
    if k == 5:
        return "token-delete", "".join(toks[:t] + toks[t + 1:])
    if k == 6:
        return "token-duplicate", "".join(toks[:t] + [toks[t]] + toks[t:])
    if k == 7:
        u = rng.randrange(len(toks))
        toks[t], toks[u] = toks[u], toks[t]
        return "token-swap", "".join(toks)
    if k == 8:
        a, b = sorted((rng.randrange(len(toks) + 1), rng.randrange(len(toks) + 1)))
        mid = toks[a:b]
        rng.shuffle(mid)
        return "token-shuffle", "".join(toks[:a] + mid + toks[b:])
    if k == 9:
        return "prefix", text[:rng.randrange(n + 1)]
    if k == 10:
        return "suffix", text[rng.randrange(n + 1):]
    if k == 11:
        return "prepend", rand_unicode(rng, rng.randrange(1, 4)) + text
    if k == 12:
        return "append", text + rand_unicode(rng, rng.randrange(1, 4))
    # replace a token by a special word / character
    toks[t] = rng.choice(LETTERS + SPECIAL)
    return "token-replace", "".join(toks)


def mutations(text: str, rng: random.Random, n: int) -> Iterator[Tuple[str, str]]:
    for _ in range(n):
        kind, m = mutate_once(text, rng)
        if rng.random() < 0.15:
            kind2, m = mutate_once(m, rng)
            kind = kind + "+" + kind2
        yield kind, m


def noise(rng: random.Random, max_len: int = 40) -> str:
    """Random text biased towards the grammar's special characters."""
    return rand_unicode(rng, rng.randrange(0, max_len))
